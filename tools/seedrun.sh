#!/bin/sh
# tools/seedrun.sh <property> <dir with patch.diff + demo.py> [tier]
# Applies a seeded change to a scratch worktree of /repo (never to /repo itself), confirms the demonstration
# (passes without, fails with), runs ./check <property> against the changed tree and reports whether it was caught.
P="$1"; D="$2"; TIER="${3:-quick}"
W=${MUTRUN:-/tmp/mutrun}
cd "${VERIF_DIR:-/verif}" || exit 2
[ -d "$W" ] || git -C /repo worktree add -q --detach "$W" HEAD
git -C "$W" checkout -q --detach "$(git -C /repo rev-parse HEAD)" && git -C "$W" checkout -q -- . && git -C "$W" clean -fdq
PYTHONPATH=$W/src /venv/bin/python "$D/demo.py" >/dev/null 2>&1; d0=$?
if ! git -C "$W" apply "$D/patch.diff"; then echo "RESULT $P $(basename $D): patch does not apply"; exit 3; fi
PYTHONPATH=$W/src /venv/bin/python "$D/demo.py" >/dev/null 2>&1; d1=$?
VERIF_REPO=$W ./check "$P" --tier "$TIER" > /tmp/seedrun_$$.log 2>&1; rc=$?
v=$(grep -c '^VIOLATION' /tmp/seedrun_$$.log)
echo "RESULT $P $(basename $D): demo_clean=$d0 demo_mutated=$d1 check_exit=$rc violations=$v"
grep '^VIOLATION' /tmp/seedrun_$$.log | head -3
for f in $(grep '^VIOLATION' /tmp/seedrun_$$.log | sed -n 's/.*replay=\([^ ]*\).*/\1/p' | head -6); do
  [ -f "$f" ] && /venv/bin/python -c "import json,sys; d=json.load(open(sys.argv[1])); print('SIGNATURE', d.get('kind'), d.get('signature') or '; '.join(str(x.get('log', x))[:120] for x in d.get('no_longer_checks', [])))" "$f"
done
tail -2 /tmp/seedrun_$$.log | cut -c1-300
rm -f /tmp/seedrun_$$.log
git -C "$W" checkout -q -- . && git -C "$W" clean -fdq
