#!/bin/sh
# tools/seedbatch.sh <worker number> <log file> <property:seed dir>...
# Evaluates seeded changes in a private worktree of /verif (/tmp/vw/mt<n>, detached at main, set up from scratch) and a
# private scratch worktree of /repo (/tmp/mutrun_mt<n>), so that several workers can run side by side and neither /repo nor
# /verif is touched.  Results: RESULT / VIOLATION / SIGNATURE lines in the log, consumed by tools/keep_seed.py.
N=$1; LOG=$2; shift 2
W=/tmp/vw/mt$N
[ -d $W ] || git -C /verif worktree add -q --detach $W main
cd $W && git checkout -q -- . && git clean -fdq -e coq -e ocaml && git checkout -q --detach main && ./setup.sh 2>&1 | tail -1
export VERIF_DIR=$W MUTRUN=/tmp/mutrun_mt$N
for x in "$@"; do p=${x%%:*}; d=${x#*:}; tools/seedrun.sh $p $d; done 2>&1 | grep --line-buffered -v WARNING > $LOG
