#!/bin/sh
# tools/regress_seeds.sh [workers]  -- re-evaluate every kept seeded change (seeded/<id>/) against the committed machinery
# and the current /repo HEAD; logs in /tmp/regress_<k>.log; then: for f in /tmp/regress_*.log; do tools/keep_seed.py $f "final regression"; done
K=${1:-5}
cd /verif || exit 2
ls seeded | sort -V > /tmp/regress_all.txt
i=0; while [ $i -lt $K ]; do : > /tmp/regress_args_$i.txt; i=$((i+1)); done
n=0; while read s; do p=${s%%_*}; echo "$p:/verif/seeded/$s" >> /tmp/regress_args_$((n % K)).txt; n=$((n+1)); done < /tmp/regress_all.txt
i=0; while [ $i -lt $K ]; do tools/seedbatch.sh $((i+1)) /tmp/regress_$((i+1)).log $(cat /tmp/regress_args_$i.txt) & i=$((i+1)); done
wait
