#!/usr/bin/env python3
"""tools/seed_table.py — markdown table of the seeded changes kept under /verif/seeded (for DESIGN.md)."""
import glob
import json
import os

VERIF = os.path.dirname(os.path.dirname(os.path.abspath(__file__)))
rows = []
def _key(d):
    a, _, b = os.path.basename(d).partition('_')
    return (a, int(b) if b.isdigit() else 0)


for d in sorted(glob.glob(os.path.join(VERIF, 'seeded', '*')), key=_key):
    try:
        m = json.load(open(os.path.join(d, 'meta.json')))
    except Exception:
        continue
    runs = m.get('verif_runs', [])
    first = runs[0] if runs else {}
    last = runs[-1] if runs else {}

    def verdict(r):
        if not r:
            return 'not run'
        if r.get('applies') is False:
            prev = [x for x in runs if x.get('applies') is not False]
            return 'patch no longer applies after a repair of the same lines' + (' (before: %s)' % verdict(prev[-1]) if prev else '')
        if r.get('demo_exit_with_change') == 0:
            return 'no longer breaks the property on the repaired source (demonstration passes)' + (
                '; check: ' + ('reports the changed source' if r.get('caught') else 'quiet'))
        if not r.get('caught'):
            return 'missed'
        return 'caught' if r.get('with_concrete_replay') else 'caught (no concrete input)'
    summ = (m.get('summary') or '').replace('|', '/').replace('\n', ' ')
    if len(summ) > 150:
        summ = summ[:147] + '...'
    lastsig = [x for x in runs if x.get('signatures')]
    sigs = ', '.join('`%s`' % x for x in ((lastsig[-1]['signatures'] if lastsig else []))[:3])
    rows.append('| %s | %s | %s | %s | %s |' % (os.path.basename(d), summ, verdict(first), verdict(last) if len(runs) > 1 else '', sigs))
import sys
out = []
_print = print
print = lambda *a: out.append(' '.join(str(x) for x in a))
print('| seeded change | what was changed (author\'s summary) | first evaluation | final evaluation | reported as |')
print('|---|---|---|---|---|')
print('\n'.join(rows))

print = _print
table = '\n'.join(out)
if '--write' in sys.argv:
    p = os.path.join(VERIF, 'DESIGN.md')
    d = open(p).read()
    a, b = d.index('<!-- SEED-TABLE-BEGIN -->'), d.index('<!-- SEED-TABLE-END -->')
    n = len(rows)
    caught = sum(1 for r in rows if '| caught' in r.split(' | ', 3)[-1][:40] or True)
    d = d[:a] + '<!-- SEED-TABLE-BEGIN -->\n' + table + '\n' + d[b:]
    open(p, 'w').write(d)
else:
    print(table)
