#!/usr/bin/env python3
"""tools/status_table.py [--write] — per-property numbers of the last quick run of every check (from evidence/*.json):
obligations discharged, cases evaluated on the implementation, cases run on the extracted model, mismatches, known
findings reproduced, wall time.  --write puts the table between the STATUS-TABLE markers of DESIGN.md."""
import glob
import json
import os
import sys

VERIF = os.path.dirname(os.path.dirname(os.path.abspath(__file__)))
rows = ['| id | tier / seed | proof obligations (closed / total) | evaluations on the implementation | model cases | correspondence mismatches | known findings reproduced | wall (s) |',
        '|---|---|---|---|---|---|---|---|']
for f in sorted(glob.glob(os.path.join(VERIF, 'evidence', 'C*.json'))):
    e = json.load(open(f))
    c = e.get('coverage', {})
    rows.append('| %s | %s / %s | %s / %s | %s | %s | %s | %s | %s |' % (
        e.get('property_id'), e.get('tier'), e.get('seed'), c.get('discharged'), c.get('obligations'), c.get('evaluations'),
        c.get('traces_validated_against_impl'), c.get('correspondence_mismatches'),
        len(c.get('known_findings_reproduced') or []), int(e.get('wall_s') or 0)))
table = '\n'.join(rows)
if '--write' in sys.argv:
    p = os.path.join(VERIF, 'DESIGN.md')
    d = open(p).read()
    a, b = d.index('<!-- STATUS-TABLE-BEGIN -->'), d.index('<!-- STATUS-TABLE-END -->')
    open(p, 'w').write(d[:a] + '<!-- STATUS-TABLE-BEGIN -->\n' + table + '\n' + d[b:])
else:
    print(table)
