#!/usr/bin/env python3
"""tools/keep_seed.py <log file with RESULT lines from tools/seedrun.sh> [note ...]
Copies every seeded change named in the log from /tmp/mut/out/<id>/ to /verif/seeded/<id>/ (patch.diff, demo.py,
meta.json) and records in meta.json what was run here and what the check reported."""
import json
import os
import re
import shutil
import sys

VERIF = os.path.dirname(os.path.dirname(os.path.abspath(__file__)))
log = open(sys.argv[1]).read().split('\n')
note = ' '.join(sys.argv[2:])
i = 0
while i < len(log):
    m0 = re.match(r'RESULT (C\d+) (\S+): patch does not apply', log[i])
    if m0:
        dst0 = os.path.join(VERIF, 'seeded', m0.group(2))
        if os.path.exists(os.path.join(dst0, 'meta.json')):
            meta0 = json.load(open(os.path.join(dst0, 'meta.json')))
            meta0.setdefault('verif_runs', []).append({
                'ran': 'tools/seedrun.sh %s seeded/%s' % (m0.group(1), m0.group(2)), 'applies': False,
                'note': (note + '; ' if note else '') + 'the patch no longer applies to /repo HEAD: the lines it edits were '
                        'replaced by a later repair (fix: commit); the earlier evaluation stands'})
            json.dump(meta0, open(os.path.join(dst0, 'meta.json'), 'w'), indent=1)
            print(m0.group(2), 'patch does not apply')
        i += 1
        continue
    m = re.match(r'RESULT (C\d+) (\S+): demo_clean=(\d+) demo_mutated=(\d+) check_exit=(\d+) violations=(\d+)', log[i])
    if not m:
        i += 1
        continue
    prop, sid, d0, d1, rc, nv = m.group(1), m.group(2), int(m.group(3)), int(m.group(4)), int(m.group(5)), int(m.group(6))
    detail = []
    i += 1
    while i < len(log) and not log[i].startswith('RESULT '):
        detail.append(log[i][:300])
        i += 1
    src = '/tmp/mut/out/' + sid
    dst = os.path.join(VERIF, 'seeded', sid)
    old_runs = []
    if os.path.exists(os.path.join(dst, 'meta.json')):
        old_runs = json.load(open(os.path.join(dst, 'meta.json'))).get('verif_runs', [])
    if os.path.isdir(src) and not os.path.isdir(dst):
        os.makedirs(dst, exist_ok=True)
        for f in ('patch.diff', 'demo.py', 'meta.json'):
            shutil.copy(os.path.join(src, f), os.path.join(dst, f))
    if not os.path.isdir(dst):
        continue
    meta = json.load(open(os.path.join(dst, 'meta.json')))
    meta['verif_runs'] = old_runs
    meta['property'] = prop
    runs = meta.setdefault('verif_runs', [])
    runs.append({
        'ran': 'tools/seedrun.sh %s %s  (patch applied to a scratch worktree of /repo; demo.py with and without; '
               './check %s --tier quick with VERIF_REPO=<worktree>)' % (prop, src if os.path.isdir(src) else 'seeded/' + sid, prop),
        'demo_exit_unchanged': d0, 'demo_exit_with_change': d1,
        'check_exit': rc, 'violation_lines': nv,
        'caught': bool(rc == 1 and nv > 0),
        'with_concrete_replay': any('VIOLATION' in l and 'no-failing-input-found' not in l for l in detail),
        'signatures': sorted({l.split(' ', 2)[2] for l in detail if l.startswith('SIGNATURE ') and len(l.split(' ', 2)) > 2 and l.split(' ', 2)[2]}),
        'check_output_tail': [l for l in detail if l.strip() and not l.startswith('SIGNATURE')][:4],
        'note': note,
    })
    json.dump(meta, open(os.path.join(dst, 'meta.json'), 'w'), indent=1)
    print(sid, 'caught' if rc == 1 and nv > 0 else 'MISSED')
