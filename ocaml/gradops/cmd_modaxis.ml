(* cmd_modaxis.ml — ma.* commands for Model/ModAxis.v: the sequence store travels in the token format
   of harness/seqmodel.py::core_tokens (same as the `load` op of the seq runner) *)
open Model
open Io

let rd_qc r : qc = rd_q r
let tok_of_qc (x : qc) : string =
  match x.qden with XH -> tok_of_z x.qnum | d -> tok_of_z x.qnum ^ "/" ^ hex_of_pos d
let rd_key r : key = rd_list rd_qc r

let rd_lib r : klib =
  let data = rd_list (fun r -> let id = rd_z r in let k = rd_key r in (id, k)) r in
  let ty = rd_list (fun r -> let id = rd_z r in let t = rd_z r in (id, t)) r in
  let km = rd_list (fun r -> let k = rd_key r in let id = rd_z r in (k, id)) r in
  let nx = rd_z r in
  { ldata = data; ltype = ty; lkeymap = km; lnext = nx }

let rd_core r : core =
  let rf = rd_lib r in let gr = rd_lib r in let ad = rd_lib r in let tr = rd_lib r in
  let ls = rd_lib r in let li = rd_lib r in let ex = rd_lib r in let sh = rd_lib r in
  let bl = rd_list (fun r -> let id = rd_z r in let ev = rd_list rd_z r in (id, ev)) r in
  let du = rd_list (fun r -> let id = rd_z r in let d = rd_qc r in (id, d)) r in
  let nb = rd_z r in let en = rd_list rd_z r in let es = rd_list rd_z r in
  let g = rd_qc r in let s = rd_qc r in let sl = rd_qc r in let e = rd_qc r in
  { rf_l = rf; grad_l = gr; adc_l = ad; trig_l = tr; lset_l = ls; linc_l = li; ext_l = ex;
    shape_l = sh; blocks = bl; durs = du; next_block = nb; ext_num = en; ext_str = es;
    grad_raster = g; sys_raster = s; max_slew0 = sl; eps_ = e }

let pr_key (k : key) = pr_list tok_of_qc k
let pr_lib (l : klib) =
  String.concat " " [
    pr_list (fun (id, k) -> tok_of_z id ^ " " ^ pr_key k) l.ldata;
    pr_list (fun (id, t) -> tok_of_z id ^ " " ^ tok_of_z t) l.ltype;
    pr_list (fun (k, id) -> pr_key k ^ " " ^ tok_of_z id) l.lkeymap;
    tok_of_z l.lnext ]
let pr_dgrad (g : dgrad) =
  tok_of_z g.dg_type ^ " " ^ pr_key g.dg_data ^ " " ^ pr_list pr_key g.dg_shapes
let pr_dblock (b : dblock) =
  String.concat " " [
    tok_of_qc b.d_dur;
    pr_opt (fun ((k, u), sh) -> pr_key k ^ " " ^ tok_of_z u ^ " " ^ pr_list pr_key sh) b.d_rf;
    pr_list (pr_opt pr_dgrad) b.d_g;
    pr_opt pr_key b.d_adc;
    pr_list (fun (s, k) -> tok_of_z s ^ " " ^ pr_key k) b.d_ext ]

let ma_err = function
  | MAAxis -> "MAAxis" | MAEmpty -> "MAEmpty" | MAShared -> "MAShared" | MAKey -> "MAKey"

(* ma.run <core> ch flip modifier nblocks ids…  ->
   "OK|ERR cls" <grad library after> cachecleared  n (decoded block after)…  n (scaled decoded block before)… *)
let cmd_ma_run r =
  let c = rd_core r in
  let ch = rd_nat r in
  let flip = rd_bool r in
  let m = rd_qc r in
  let ids = rd_list rd_z r in
  let (c', e) = if flip then flip_grad_axis c ch else mod_grad_axis c ch m in
  let mm = if flip then { qnum = Zneg XH; qden = XH } else m in
  let st = { st_core = c; st_cache = List.map (fun i -> (i, { d_dur = m; d_rf = None; d_g = []; d_adc = None; d_ext = [] })) ids } in
  let (st', _) = if flip then mod_grad_axis_state st ch mm else mod_grad_axis_state st ch m in
  let after = List.map (fun i -> decode c' i) ids in
  let expect = List.map (fun i -> match decode c i with None -> None | Some b -> Some (scale_dblock ch mm b)) ids in
  String.concat " " [
    (match e with None -> "OK" | Some x -> "ERR " ^ ma_err x);
    pr_lib c'.grad_l;
    string_of_int (List.length st'.st_cache);
    pr_list (pr_opt pr_dblock) after;
    pr_list (pr_opt pr_dblock) expect ]

let () = Driver.register "ma.run" cmd_ma_run
