(* cmd_gradops.ml — go.* commands for Model/GradOps.v (C17, C18) *)
open Model
open Io

let rd_grad r : grad =
  match next r with
  | "T" ->
    let ch = rd_nat r in
    let amp = rd_q r in let rise = rd_q r in let flat = rd_q r in let fall = rd_q r in
    let delay = rd_q r in let area = rd_q r in let fa = rd_q r in
    let id = rd_opt rd_z r in
    GTrap { t_ch = ch; t_amp = amp; t_rise = rise; t_flat = flat; t_fall = fall; t_delay = delay;
            t_area = area; t_flat_area = fa; t_id = id }
  | "E" ->
    let ch = rd_nat r in
    let delay = rd_q r in
    let tt = rd_list rd_q r in
    let wf = rd_list rd_q r in
    let sdur = rd_q r in let first = rd_q r in let last = rd_q r in
    let area = rd_opt rd_q r in
    let id = rd_opt rd_z r in
    GExt { e_ch = ch; e_delay = delay; e_tt = tt; e_wf = wf; e_sdur = sdur; e_first = first;
           e_last = last; e_area = area; e_id = id }
  | s -> failwith ("bad grad tag " ^ s)

let pr_nat n = string_of_int (int_of_nat n)

let pr_egrad (e : egrad) =
  String.concat " " [ "E"; pr_nat e.e_ch; tok_of_q e.e_delay; pr_list tok_of_q e.e_tt;
                      pr_list tok_of_q e.e_wf; tok_of_q e.e_sdur; tok_of_q e.e_first;
                      tok_of_q e.e_last; pr_opt tok_of_q e.e_area; pr_opt tok_of_z e.e_id ]

let pr_grad (g : grad) =
  match g with
  | GTrap t ->
    String.concat " " [ "T"; pr_nat t.t_ch; tok_of_q t.t_amp; tok_of_q t.t_rise; tok_of_q t.t_flat;
                        tok_of_q t.t_fall; tok_of_q t.t_delay; tok_of_q t.t_area;
                        tok_of_q t.t_flat_area; pr_opt tok_of_z t.t_id ]
  | GExt e -> pr_egrad e

let rd_sys r : sys =
  let ra = rd_q r in let mg = rd_q r in let ms = rd_q r in
  { raster = ra; max_grad = mg; max_slew = ms }

let err_name (e : gerr) = match e with
  | EChannel -> "EChannel" | EAllZero -> "EAllZero" | ENotAscending -> "ENotAscending"
  | ERaster -> "ERaster" | EConnect -> "EConnect" | ESlew -> "ESlew" | EGradAmp -> "EGradAmp"
  | EEmptyMax -> "EEmptyMax" | EAfterEnd -> "EAfterEnd" | ENotImpl -> "ENotImpl"
  | EBrokenArb -> "EBrokenArb" | ENegDelay -> "ENegDelay" | EBadSpec -> "EBadSpec"
  | EAxis -> "EAxis" | EAdd -> "EAdd"

let cmd_scale r =
  let g = rd_grad r in
  let k = rd_q r in
  pr_grad (scale_grad g k)

let cmd_pwl r =
  let ra = rd_q r in
  let g = rd_grad r in
  let p = to_pwl ra g in
  pr_list (fun (t, v) -> tok_of_q t ^ " " ^ tok_of_q v) p

let cmd_split r =
  let s = rd_sys r in
  let g = rd_grad r in
  let (res, g') = split_gradient s g in
  (match res with
   | Err e -> "ERR " ^ err_name e
   | OK ((a, b), c) -> String.concat " " [ "OK"; pr_egrad a; pr_egrad b; pr_egrad c ])
  ^ " IN " ^ pr_grad g'

let cmd_splitat r =
  let s = rd_sys r in
  let g = rd_grad r in
  let tp = rd_q r in
  match split_gradient_at s g tp with
  | Err e -> "ERR " ^ err_name e
  | OK (SOne g1) -> "ONE " ^ pr_grad g1
  | OK (STwo (a, b)) -> String.concat " " [ "TWO"; pr_egrad a; pr_egrad b ]

let cmd_align r =
  let l = rd_list (fun r ->
      let sp = rd_nat r in
      let len = rd_q r in let d = rd_q r in let tag = rd_z r in
      let id = rd_opt rd_z r in
      (sp, { a_len = len; a_delay = d; a_tag = tag; a_id = id })) r in
  let dur = calc_duration (List.map snd l) in
  match align l with
  | Err e -> "ERR " ^ err_name e
  | OK out ->
    "OK " ^ tok_of_q dur ^ " "
    ^ pr_list (fun e -> tok_of_q e.a_len ^ " " ^ tok_of_q e.a_delay ^ " " ^ tok_of_z e.a_tag ^ " "
                        ^ pr_opt tok_of_z e.a_id) out

let rd_rev r : rev =
  match next r with
  | "G" -> RG (rd_grad r)
  | "O" -> RO (rd_z r)
  | s -> failwith ("bad event tag " ^ s)

let pr_rev (e : rev) = match e with
  | RG g -> "G " ^ pr_grad g
  | RO t -> "O " ^ tok_of_z t

let cmd_rotpre r =
  let c = rd_q r in let s = rd_q r in
  let axis = rd_nat r in
  let evs = rd_list rd_rev r in
  match rotate_pre c s axis evs with
  | Err e -> "ERR " ^ err_name e
  | OK p ->
    String.concat " " [ "OK"; tok_of_q p.rp_thr; pr_list pr_rev p.rp_bypass;
                        pr_list pr_grad p.rp_rot1; pr_list pr_grad p.rp_rot2 ]

let cmd_rotate1 r =
  let c = rd_q r in let s = rd_q r in
  let axis = rd_nat r in
  let evs = rd_list rd_rev r in
  match rotate add_single c s axis evs with
  | Err e -> "ERR " ^ err_name e
  | OK l -> "OK " ^ pr_list pr_rev l

let () =
  Driver.register "go.scale" cmd_scale;
  Driver.register "go.pwl" cmd_pwl;
  Driver.register "go.split" cmd_split;
  Driver.register "go.splitat" cmd_splitat;
  Driver.register "go.align" cmd_align;
  Driver.register "go.rotpre" cmd_rotpre;
  Driver.register "go.rotate1" cmd_rotate1

(* go.rotatec16 sys c s axis evs: rotate with add_gradients = the model of property C16 (Model/AddGrad.v) *)
let cmd_rotatec16 r =
  let sy = rd_sys r in
  let c = rd_q r in let s = rd_q r in
  let axis = rd_nat r in
  let evs = rd_list rd_rev r in
  match rotate (add_c16 sy) c s axis evs with
  | Err e -> "ERR " ^ err_name e
  | OK l -> "OK " ^ pr_list pr_rev l

let () = Driver.register "go.rotatec16" cmd_rotatec16
