(* driver.ml — reads one case per line "<command> args…", prints one result line per case.
   Every command calls extracted model code (model.ml) only. *)
open Model
open Io

let cmd_compress r =
  let force = rd_bool r in
  let x = rd_list rd_q r in
  let c = compress force x in
  Printf.sprintf "%d %s" (int_of_nat c.num_samples) (pr_list tok_of_q c.cdata)

let cmd_decompress r =
  let force = rd_bool r in
  let n = rd_nat r in
  let d = rd_list rd_q r in
  match decompress force { num_samples = n; cdata = d } with
  | None -> "ERR"
  | Some y -> "OK " ^ pr_list tok_of_q y

let cmd_roundtrip r =
  let force = rd_bool r in
  let x = rd_list rd_q r in
  let c = compress force x in
  match decompress force c with
  | None -> "ERR"
  | Some y -> Printf.sprintf "OK %d %s" (List.length c.cdata) (pr_list tok_of_q y)

let commands : (string * (reader -> string)) list ref = ref [
  "shape.compress", cmd_compress;
  "shape.decompress", cmd_decompress;
  "shape.roundtrip", cmd_roundtrip;
]

let register name f = commands := (name, f) :: !commands

let main () =
  (try
    while true do
      let line = input_line stdin in
      let r = reader_of_line line in
      if has_more r then begin
        let c = next r in
        let out =
          match List.assoc_opt c !commands with
          | None -> "UNKNOWN " ^ c
          | Some f -> (try f r with e -> "EXC " ^ Printexc.to_string e) in
        print_string out; print_newline ()
      end else print_newline ()
    done
  with End_of_file -> ())
