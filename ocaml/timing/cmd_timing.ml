(* cmd_timing.ml — timing.* commands for Model/Timing.v (C10, C07) *)
open Model
open Io

let kind_of_int = function
  | 0 -> KRf | 1 -> KGrad | 2 -> KTrap | 3 -> KAdc | 4 -> KDelay | 5 -> KTrig | _ -> KLabel

let rd_event r =
  let k = kind_of_int (rd_int r) in
  let delay = rd_q r in let shape_dur = rd_q r in let ring = rd_q r in let dead = rd_q r in
  let rise = rd_q r in let flat = rd_q r in let fall = rd_q r in let dur = rd_q r in
  let dwell = rd_q r in let ns = rd_z r in let tlast = rd_q r in let tfirst = rd_q r in
  let center = rd_q r in let use = rd_z r in let reg = rd_bool r in
  { e_kind = k; e_delay = delay; e_shape_dur = shape_dur; e_ring = ring; e_dead = dead; e_rise = rise;
    e_flat = flat; e_fall = fall; e_duration = dur; e_dwell = dwell; e_nsamp = ns; e_tlast = tlast;
    e_tfirst = tfirst; e_center = center; e_use = use; e_regular = reg }

let rd_arg r = match next r with
  | "E" -> AEv (rd_event r)
  | "D" -> ADur (rd_q r)
  | s -> failwith ("bad arg tag " ^ s)

let rd_sys r =
  let b = rd_q r in let rf = rd_q r in let g = rd_q r in let a = rd_q r in
  let ad = rd_q r in let rd = rd_q r in let rr = rd_q r in
  { s_block_raster = b; s_rf_raster = rf; s_grad_raster = g; s_adc_raster = a; s_adc_dead = ad;
    s_rf_dead = rd; s_rf_ring = rr }

let rd_block r =
  let id = rd_z r in let st = rd_q r in
  let rf = rd_opt rd_event r in let gx = rd_opt rd_event r in let gy = rd_opt rd_event r in
  let gz = rd_opt rd_event r in let adc = rd_opt rd_event r in let ext = rd_list rd_event r in
  { b_id = id; b_stored = st; b_rf = rf; b_gx = gx; b_gy = gy; b_gz = gz; b_adc = adc; b_ext = ext }

let int_of_slot = function SBlock -> 0 | SRf -> 1 | SGx -> 2 | SGy -> 3 | SGz -> 4 | SAdc -> 5
let int_of_attr = function
  | A_delay -> 0 | A_shape_dur -> 1 | A_ringdown_time -> 2 | A_dead_time -> 3 | A_rise_time -> 4
  | A_flat_time -> 5 | A_fall_time -> 6 | A_duration -> 7 | A_dwell -> 8 | A_samples_dwell -> 9
  | A_t_last -> 10
let int_of_kind = function
  | RASTER -> 0 | NEGATIVE_DELAY -> 1 | BLOCK_DURATION_MISMATCH -> 2 | RF_DEAD_TIME -> 3
  | RF_RINGDOWN_TIME -> 4 | ADC_DEAD_TIME -> 5 | POST_ADC_DEAD_TIME -> 6

let pr_err (e : ((z * slot) * attr) * errkind) =
  let (((b, s), a), k) = e in
  Printf.sprintf "%s %d %d %d" (tok_of_z b) (int_of_slot s) (int_of_attr a) (int_of_kind k)

let cmd_check r =
  let sys = rd_sys r in
  let bs = rd_list rd_block r in
  let errs = check_timing sys bs in
  Printf.sprintf "%s | %s | %s" (pr_list pr_err errs)
    (pr_list (fun b -> pr_bool (write_assert_ok sys b)) bs)
    (pr_list (fun b -> tok_of_q (block_duration b)) bs)

let cmd_div r =
  let t = rd_q r in let ra = rd_q r in pr_bool (div_ok t ra)

let cmd_setdur r =
  let g = rd_q r in let args = rd_list rd_arg r in tok_of_q (set_block_duration g args)

let cmd_calcdur r =
  let args = rd_list rd_arg r in tok_of_q (calc_duration args)

(* unreduced num/den: the reduction (gcd on unary-bit positives) dominates the run time of long lists and the
   Python side reduces fractions anyway *)
let tok_raw (x : q) : string = match x.qden with
  | XH -> tok_of_z x.qnum
  | d -> tok_of_z x.qnum ^ "/" ^ hex_of_pos d
let pr_pair (a, b) = tok_raw a ^ " " ^ tok_raw b
let pr_rf (u, t) = tok_of_z u ^ " " ^ tok_raw t

let cmd_timeline r =
  let sys = rd_sys r in
  let bs = rd_list rd_block r in
  let g = sys.s_grad_raster in
  String.concat " | " [
    tok_of_q (seq_duration bs); tok_of_q (total_duration bs);
    pr_list tok_raw (starts bs);
    pr_list tok_raw (List.mapi (fun i _ -> tr_start bs (nat_of_int i)) bs);
    pr_list tok_raw (adc_times bs);
    pr_list pr_rf (rf_times bs);
    pr_list pr_pair (wave_pieces g SGx bs);
    pr_list pr_pair (wave_pieces g SGy bs);
    pr_list pr_pair (wave_pieces g SGz bs);
    pr_list (fun b -> tok_of_z (blocks_column sys b)) bs;
    pr_list (fun b -> tok_of_q (block_duration b)) bs ]

(* time_range variants for one window *)
let cmd_tr r =
  let sys = rd_sys r in
  let bs = rd_list rd_block r in
  let lo = rd_q r in let hi = rd_q r in
  let g = sys.s_grad_raster in
  String.concat " | " [
    Printf.sprintf "%d %d" (int_of_nat (begin_block bs lo)) (int_of_nat (end_block bs hi));
    pr_list tok_raw (adc_times_tr bs lo hi);
    pr_list pr_rf (rf_times_tr bs lo hi);
    pr_list pr_pair (wave_pieces_tr g SGx bs lo hi);
    pr_list pr_pair (wave_pieces_tr g SGy bs lo hi);
    pr_list pr_pair (wave_pieces_tr g SGz bs lo hi) ]

let cmd_counts r =
  let bs = rd_list rd_block r in
  pr_list tok_of_z (event_count bs)

let cmd_rfdecode r =
  let raster = rd_q r in
  let sh = if rd_bool r then RfRegular (rd_z r) else RfTimes (rd_q r) in
  tok_of_q (decode_rf_tlast raster sh) ^ " " ^ tok_of_q (decode_rf_shape_dur raster sh)

(* history of one object's block tables: ops = S k d | R n (k d)* *)
let rd_op r = match next r with
  | "S" -> let k = rd_z r in let d = rd_q r in OpSet (k, d)
  | "R" -> OpRead (rd_list (fun r -> let k = rd_z r in let d = rd_q r in (k, d)) r)
  | s -> failwith ("bad op " ^ s)
let cmd_tables r =
  let ops = rd_list rd_op r in
  let st = tl_run ops in
  String.concat " | " [
    pr_list tok_of_z st.tl_keys;
    pr_list (fun (k, d) -> tok_of_z k ^ " " ^ tok_of_q d) st.tl_durs;
    pr_opt tok_of_q (tl_duration st);
    tok_of_q (tl_sum st) ]

let () =
  Driver.register "timing.tables" cmd_tables;
  Driver.register "timing.tr" cmd_tr;
  Driver.register "timing.counts" cmd_counts;
  Driver.register "timing.rfdecode" cmd_rfdecode;
  Driver.register "timing.check" cmd_check;
  Driver.register "timing.div" cmd_div;
  Driver.register "timing.setdur" cmd_setdur;
  Driver.register "timing.calcdur" cmd_calcdur;
  Driver.register "timing.timeline" cmd_timeline
