(* cmd_sig.ml — sig.* commands for Model/Signature.v; bytes travel as one hex string *)
open Model
open Io

let bytes_of_hexstr (s : string) : z list =
  let n = String.length s / 2 in
  List.init n (fun i -> z_of_tok (String.sub s (2 * i) 2))
let hexstr_of_bytes (l : z list) : string =
  String.concat "" (List.map (fun b -> let t = tok_of_z b in if String.length t = 1 then "0" ^ t else t) l)
let rd_bytes r = let t = next r in if t = "-" then [] else bytes_of_hexstr t
let pr_bytes l = match l with [] -> "-" | _ -> hexstr_of_bytes l

(* sig.split <file> -> "0" | "1 <bodylen> <type> <hash>" *)
let cmd_split r =
  let f = rd_bytes r in
  match split_sig f with
  | None -> "0"
  | Some ((body, t), h) -> Printf.sprintf "1 %d %s %s" (List.length body) (pr_bytes t) (pr_bytes h)

(* sig.sign <hash> <body> -> file bytes *)
let cmd_sign r = let h = rd_bytes r in let b = rd_bytes r in pr_bytes (sign h b)

(* sig.clean <body> -> 1 if the section tag occurs nowhere in the body *)
let cmd_clean r = let b = rd_bytes r in pr_bool (no_sub sig_tag b)

(* sig.md5 <body> -> the 32 hex characters of Model/Md5.v's digest (as bytes) *)
let cmd_md5 r = let b = rd_bytes r in pr_bytes (md5_hex b)

(* sig.write <body> -> the signed file of write_signed_md5 *)
let cmd_write r = let b = rd_bytes r in pr_bytes (fst (write_signed_md5 b))

let () =
  Driver.register "sig.split" cmd_split;
  Driver.register "sig.sign" cmd_sign;
  Driver.register "sig.clean" cmd_clean;
  Driver.register "sig.md5" cmd_md5;
  Driver.register "sig.write" cmd_write
