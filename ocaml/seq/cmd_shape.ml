(* cmd_shape.ml — shape.* commands for Model/Shape.v *)
open Model
open Io

let cmd_compress r =
  let force = rd_bool r in
  let x = rd_list rd_q r in
  let c = compress force x in
  Printf.sprintf "%d %s" (int_of_nat c.num_samples) (pr_list tok_of_q c.cdata)

let cmd_decompress r =
  let force = rd_bool r in
  let n = rd_nat r in
  let d = rd_list rd_q r in
  match decompress force { num_samples = n; cdata = d } with
  | None -> "ERR"
  | Some y -> "OK " ^ pr_list tok_of_q y

let cmd_roundtrip r =
  let force = rd_bool r in
  let x = rd_list rd_q r in
  let c = compress force x in
  match decompress force c with
  | None -> "ERR"
  | Some y -> Printf.sprintf "OK %d %s" (List.length c.cdata) (pr_list tok_of_q y)

(* shape.ttreg <raster> <tt list> -> 1 if the time vector is stored without a time shape (Model/TimeShape.v) *)
let cmd_ttreg r =
  let raster = rd_q r in
  let tt = rd_list rd_q r in
  pr_bool (tt_regular raster tt)

let () =
  Driver.register "shape.compress" cmd_compress;
  Driver.register "shape.decompress" cmd_decompress;
  Driver.register "shape.roundtrip" cmd_roundtrip;
  Driver.register "shape.ttreg" cmd_ttreg
