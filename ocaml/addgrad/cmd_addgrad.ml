(* cmd_addgrad.ml — addgrad.* commands for Model/AddGrad.v *)
open Model
open Io

let rd_grad r =
  match rd_int r with
  | 0 ->
    let a = rd_q r in let ri = rd_q r in let fl = rd_q r in let fa = rd_q r in let d = rd_q r in
    GTrap { tr_amp = a; tr_rise = ri; tr_flat = fl; tr_fall = fa; tr_delay = d }
  | _ ->
    let d = rd_q r in let tt = rd_list rd_q r in let wf = rd_list rd_q r in
    let f = rd_q r in let l = rd_q r in let sd = rd_q r in
    GExt { eg_delay = d; eg_tt = tt; eg_wf = wf; eg_first = f; eg_last = l; eg_shape_dur = sd }

let pr_grad g =
  match g with
  | GTrap t -> String.concat " " ["T"; tok_of_q t.tr_amp; tok_of_q t.tr_rise; tok_of_q t.tr_flat;
                                  tok_of_q t.tr_fall; tok_of_q t.tr_delay]
  | GExt e -> String.concat " " ["G"; tok_of_q e.eg_delay; tok_of_q e.eg_first; tok_of_q e.eg_last;
                                 tok_of_q e.eg_shape_dur; pr_list tok_of_q e.eg_tt; pr_list tok_of_q e.eg_wf]

let err_name e = match e with
  | E_none_given -> "none_given" | E_amp -> "amp" | E_slew -> "slew" | E_all_zero -> "all_zero"
  | E_not_ascending -> "not_ascending" | E_last_off_raster -> "last_off_raster"
  | E_first_nonzero -> "first_nonzero" | E_off_raster -> "off_raster" | E_degenerate -> "degenerate"

let path_name p = match p with
  | P_single -> "single" | P_trap -> "trap" | P_ext -> "ext" | P_raster -> "raster"

let rd_sys r =
  let mg = rd_q r in let ms = rd_q r in let ra = rd_q r in
  { s_max_grad = mg; s_max_slew = ms; s_raster = ra }

(* addgrad.add <max_grad> <max_slew> <raster> <max_grad_arg> <max_slew_arg> <n> grads... *)
let cmd_add r =
  let s = rd_sys r in
  let mga = rd_q r in let msa = rd_q r in
  let gs = rd_list rd_grad r in
  match add_gradients s mga msa gs with
  | Err e -> "ERR " ^ err_name e
  | OK (p, g) -> "OK " ^ path_name p ^ " " ^ pr_grad g

(* addgrad.render <grad> <times...> : eval (to_pwl g) at the given times *)
let cmd_render r =
  let g = rd_grad r in
  let ts = rd_list rd_q r in
  let p = to_pwl g in
  pr_list tok_of_q (List.map (fun t -> eval p t) ts)

let () =
  Driver.register "addgrad.add" cmd_add;
  Driver.register "addgrad.render" cmd_render
