#!/bin/sh
# ./build.sh <runner> … — builds ocaml/<runner>/runner from the extracted <runner>/model.ml(i), the shared
# hand-written common/io.ml, common/driver.ml, common/main.ml and the runner's own cmd_*.ml files.
set -e
cd "$(dirname "$0")"
[ $# -gt 0 ] || set -- $(for d in */; do d=${d%/}; [ "$d" != common ] && [ -f "$d/model.ml" ] && echo "$d"; done)
for r in "$@"; do
  ( cd "$r"
    cp ../common/io.ml ../common/driver.ml ../common/main.ml .
    ocamlfind ocamlopt -O3 -w -a model.mli model.ml io.ml driver.ml $(ls cmd_*.ml) main.ml -o runner 2>/dev/null || \
    ocamlfind ocamlopt -w -a model.mli model.ml io.ml driver.ml $(ls cmd_*.ml) main.ml -o runner
    rm -f io.ml driver.ml main.ml *.cmi *.cmx *.o )
done
