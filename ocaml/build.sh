#!/bin/sh
# builds the model runner from the extracted model.ml + hand-written io.ml / driver.ml
set -e
cd "$(dirname "$0")"
ocamlfind ocamlopt -O3 -w -a -package str model.mli model.ml io.ml driver.ml $(ls cmd_*.ml 2>/dev/null) main.ml -o model_runner 2>/dev/null || \
ocamlfind ocamlopt -w -a model.mli model.ml io.ml driver.ml $(ls cmd_*.ml 2>/dev/null) main.ml -o model_runner
