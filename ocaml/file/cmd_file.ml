(* cmd_file.ml — file.* commands for Model/File.v *)
open Model
open Io

let rd_row r = rd_list rd_q r
let rd_rows r = rd_list rd_row r
let rd_key r = rd_list rd_z r
let rd_defs r = rd_list (fun r -> let k = rd_key r in let v = rd_row r in (k, v)) r
let pr_row l = pr_list tok_of_q l
let pr_rows l = pr_list pr_row l
let pr_defs l = pr_list (fun (k, v) -> pr_list tok_of_z k ^ " " ^ pr_row v) l

(* file.write defs blocks rf grad(tag,row) adc ext trig lset linc shape braster rfraster gradraster adcraster *)
let cmd_write r =
  let defs = rd_defs r in
  let blocks = rd_rows r in
  let rf = rd_rows r in
  let grad = rd_list (fun r -> let t = rd_z r in let row = rd_row r in (t, row)) r in
  let adc = rd_rows r in
  let ext = rd_rows r in
  let trig = rd_rows r in
  let lset = rd_rows r in
  let linc = rd_rows r in
  let shape = rd_rows r in
  let br = rd_q r in let rfr = rd_q r in let gr = rd_q r in let ar = rd_q r in
  let s = { f_defs = defs; f_blocks = blocks; f_rf = rf; f_grad = grad; f_adc = adc; f_ext = ext; f_trig = trig;
            f_lset = lset; f_linc = linc; f_shape = shape; f_braster = br; f_rfraster = rfr; f_gradraster = gr;
            f_adcraster = ar } in
  let o = write_rows s in
  String.concat " " [pr_defs o.r_defs; pr_rows o.r_blocks; pr_rows o.r_rf; pr_rows o.r_grad; pr_rows o.r_trap;
                     pr_rows o.r_adc; pr_rows o.r_ext; pr_rows o.r_trig; pr_rows o.r_lset; pr_rows o.r_linc;
                     pr_rows o.r_shape]

(* file.read sys(5 q) defs blocks rf grad trap adc ext trig lset linc shape *)
let cmd_read r =
  let b = rd_q r in let rf_ = rd_q r in let g = rd_q r in let a = rd_q r in let dead = rd_q r in
  let sy = { s_braster = b; s_rfraster = rf_; s_gradraster = g; s_adcraster = a; s_adc_dead = dead } in
  let defs = rd_defs r in
  let blocks = rd_rows r in
  let rf = rd_rows r in
  let grad = rd_rows r in
  let trap = rd_rows r in
  let adc = rd_rows r in
  let ext = rd_rows r in
  let trig = rd_rows r in
  let lset = rd_rows r in
  let linc = rd_rows r in
  let shape = rd_rows r in
  let f = { r_defs = defs; r_blocks = blocks; r_rf = rf; r_grad = grad; r_trap = trap; r_adc = adc; r_ext = ext;
            r_trig = trig; r_lset = lset; r_linc = linc; r_shape = shape } in
  let s = read_rows sy f in
  String.concat " " [pr_defs s.f_defs; pr_rows s.f_blocks; pr_rows s.f_rf;
                     pr_list (fun (t, row) -> tok_of_z t ^ " " ^ pr_row row) s.f_grad;
                     pr_rows s.f_adc; pr_rows s.f_ext; pr_rows s.f_trig; pr_rows s.f_lset; pr_rows s.f_linc;
                     pr_rows s.f_shape; tok_of_q s.f_braster; tok_of_q s.f_rfraster; tok_of_q s.f_gradraster;
                     tok_of_q s.f_adcraster]

(* file.rw: same input as file.read; output = write_rows (read_rows sys rows), printed like file.write *)
let cmd_rw r =
  let b = rd_q r in let rf_ = rd_q r in let g = rd_q r in let a = rd_q r in let dead = rd_q r in
  let sy = { s_braster = b; s_rfraster = rf_; s_gradraster = g; s_adcraster = a; s_adc_dead = dead } in
  let defs = rd_defs r in
  let blocks = rd_rows r in
  let rf = rd_rows r in
  let grad = rd_rows r in
  let trap = rd_rows r in
  let adc = rd_rows r in
  let ext = rd_rows r in
  let trig = rd_rows r in
  let lset = rd_rows r in
  let linc = rd_rows r in
  let shape = rd_rows r in
  let f = { r_defs = defs; r_blocks = blocks; r_rf = rf; r_grad = grad; r_trap = trap; r_adc = adc; r_ext = ext;
            r_trig = trig; r_lset = lset; r_linc = linc; r_shape = shape } in
  let o = write_rows (read_rows sy f) in
  String.concat " " [pr_defs o.r_defs; pr_rows o.r_blocks; pr_rows o.r_rf; pr_rows o.r_grad; pr_rows o.r_trap;
                     pr_rows o.r_adc; pr_rows o.r_ext; pr_rows o.r_trig; pr_rows o.r_lset; pr_rows o.r_linc;
                     pr_rows o.r_shape]

(* file.sig n x  /  file.int x : single conversions *)
let cmd_sig r = let n = rd_z r in let x = rd_q r in tok_of_q (fmt_sig n x)
let cmd_int r = let x = rd_q r in tok_of_q (fmt_int x)

(* file.scan  nlib (id trap delay dur wlast)*  nblocks (dur ids)*  ->  nprev prev*  ndone (id first last)* *)
let cmd_scan r =
  let lib = rd_list (fun r -> let id = rd_z r in let t = rd_bool r in let d = rd_q r in let du = rd_q r in
                      let w = rd_q r in (id, { g_trap = t; g_delay = d; g_dur = du; g_wlast = w })) r in
  let bs = rd_list (fun r -> let d = rd_q r in let ids = rd_list rd_z r in { b_dur = d; b_ids = ids }) r in
  let (prev, fl) = scan_file lib bs in
  pr_list tok_of_q prev ^ " " ^ pr_list (fun (id, (f, l)) -> tok_of_z id ^ " " ^ tok_of_q f ^ " " ^ tok_of_q l) fl

let () =
  Driver.register "file.scan" cmd_scan;
  Driver.register "file.write" cmd_write;
  Driver.register "file.read" cmd_read;
  Driver.register "file.rw" cmd_rw;
  Driver.register "file.sig" cmd_sig;
  Driver.register "file.int" cmd_int
