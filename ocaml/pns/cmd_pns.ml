(* cmd_pns.ml — pns.* commands for Model/Pns.v *)
open Model
open Io

let rd_hw r =
  let t1 = rd_q r in let t2 = rd_q r in let t3 = rd_q r in
  let a1 = rd_q r in let a2 = rd_q r in let a3 = rd_q r in
  let sl = rd_q r in let st = rd_q r in let gs = rd_q r in
  { tau1 = t1; tau2 = t2; tau3 = t3; a1 = a1; a2 = a2; a3 = a3; stim_limit = sl; stim_thresh = st; g_scale = gs }

let rd_pair r = let a = rd_q r in let b = rd_q r in (a, b)
let rd_wave r = rd_opt (rd_list rd_pair) r
let lp_of mode = if mode = 0 then lowpass_fir else lowpass_fast

let err_name = function ErrNoGradient -> "NOGRAD" | ErrWeights -> "WEIGHTS" | ErrEmptyFilter -> "EMPTYFILT"

(* pns.calc mode gamma dt hx hy hz wx wy wz tx ty tz *)
let cmd_calc r =
  let mode = rd_int r in
  let gamma = rd_q r in
  let dt = rd_q r in
  let hx = rd_hw r in let hy = rd_hw r in let hz = rd_hw r in
  let wx = rd_wave r in let wy = rd_wave r in let wz = rd_wave r in
  let tx = rd_list rd_nat r in let ty = rd_list rd_nat r in let tz = rd_list rd_nat r in
  match calc_pns (lp_of mode) gamma dt hx hy hz wx wy wz tx ty tz with
  | Err e -> "ERR " ^ err_name e
  | OK o -> Printf.sprintf "OK %s %d %d %s %s %s %s" (pr_bool o.o_ok)
              (int_of_nat (pad1_of hx hy hz dt)) (int_of_nat (pad2_of hx hy hz dt))
              (pr_list tok_of_q o.o_normsq) (pr_list tok_of_q o.o_x) (pr_list tok_of_q o.o_y) (pr_list tok_of_q o.o_z)

(* pns.lowpass alpha n x  ->  fir | fast | iir *)
let cmd_lowpass r =
  let alpha = rd_q r in
  let n = rd_nat r in
  let x = rd_list rd_q r in
  Printf.sprintf "%s %s %s" (pr_list tok_of_q (lowpass_fir alpha n x)) (pr_list tok_of_q (lowpass_fast alpha n x))
    (pr_list tok_of_q (lowpass_iir alpha x))

(* pns.sample dt nt wave -> sampled values at raster centres *)
let cmd_sample r =
  let dt = rd_q r in
  let nt = rd_nat r in
  let w = rd_list rd_pair r in
  pr_list tok_of_q (sample (grad_pp w) dt nt)

(* pns.tapok n N alpha -> tap_count_ok tap_count_tight (eps = the source's default) *)
let cmd_tapok r =
  let n = rd_nat r in
  let nn = rd_nat r in
  let alpha = rd_q r in
  pr_bool (tap_count_ok n nn alpha lowpass_eps) ^ " " ^ pr_bool (tap_count_tight n alpha lowpass_eps)

(* pns.safe gamma dt hw g -> the SAFE reference (recursive filters) on sampled gradient values *)
let cmd_safe r =
  let gamma = rd_q r in
  let dt = rd_q r in
  let h = rd_hw r in
  let g = rd_list rd_q r in
  pr_list tok_of_q (safe_axis h gamma dt g)

let () =
  Driver.register "pns.tapok" cmd_tapok;
  Driver.register "pns.safe" cmd_safe;
  Driver.register "pns.calc" cmd_calc;
  Driver.register "pns.lowpass" cmd_lowpass;
  Driver.register "pns.sample" cmd_sample
