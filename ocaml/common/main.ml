let () = Driver.main ()
