(* io.ml — token-level I/O between the Python harness and the extracted model.
   Integers travel as signed hexadecimal (no arithmetic needed to convert to/from Coq's binary
   [positive]); rationals as num/den; lists as a length followed by the elements. *)
open Model

let hexval c = match c with
  | '0'..'9' -> Char.code c - 48
  | 'a'..'f' -> Char.code c - 87
  | _ -> failwith ("bad hex digit " ^ String.make 1 c)

(* positive from a list of bits, most significant first (first bit must be 1) *)
let pos_of_bits_msb (bits : bool list) : positive =
  match bits with
  | [] -> failwith "empty"
  | _ :: rest -> List.fold_left (fun acc b -> if b then XI acc else XO acc) XH rest

let bits_of_hex (s : string) : bool list =
  let l = ref [] in
  String.iter (fun c -> let v = hexval c in
    l := ((v land 1) = 1) :: ((v land 2) = 2) :: ((v land 4) = 4) :: ((v land 8) = 8) :: !l) s;
  (* !l is LSB first reversed: we pushed per digit (b3 b2 b1 b0) reversed; rebuild msb-first *)
  let msb = List.rev !l in
  let rec strip = function false :: r -> strip r | x -> x in
  strip msb

let z_of_tok (s : string) : z =
  let neg = String.length s > 0 && s.[0] = '-' in
  let body = if neg then String.sub s 1 (String.length s - 1) else s in
  match bits_of_hex body with
  | [] -> Z0
  | bits -> let p = pos_of_bits_msb bits in if neg then Zneg p else Zpos p

let hex_of_pos (p : positive) : string =
  (* collect bits LSB first *)
  let rec bits p acc = match p with
    | XH -> true :: acc
    | XO q -> bits q (false :: acc)
    | XI q -> bits q (true :: acc) in
  (* bits returns msb-first?  we cons LSB first onto acc, so final list is msb-first reversed: fix *)
  let rec lsb p = match p with XH -> [true] | XO q -> false :: lsb q | XI q -> true :: lsb q in
  ignore bits;
  let l = Array.of_list (lsb p) in
  let n = Array.length l in
  let nd = (n + 3) / 4 in
  let b = Bytes.create nd in
  for d = 0 to nd - 1 do
    let v = ref 0 in
    for k = 0 to 3 do
      let i = d * 4 + k in
      if i < n && l.(i) then v := !v lor (1 lsl k)
    done;
    Bytes.set b (nd - 1 - d) "0123456789abcdef".[!v]
  done;
  Bytes.to_string b

let tok_of_z (x : z) : string = match x with
  | Z0 -> "0"
  | Zpos p -> hex_of_pos p
  | Zneg p -> "-" ^ hex_of_pos p

let q_of_tok (s : string) : q =
  match String.index_opt s '/' with
  | None -> { qnum = z_of_tok s; qden = XH }
  | Some i ->
    let n = z_of_tok (String.sub s 0 i) in
    (match z_of_tok (String.sub s (i + 1) (String.length s - i - 1)) with
     | Zpos p -> { qnum = n; qden = p }
     | _ -> failwith "bad denominator")

let tok_of_q (x : q) : string =
  let r = qred x in
  match r.qden with
  | XH -> tok_of_z r.qnum
  | d -> tok_of_z r.qnum ^ "/" ^ hex_of_pos d

let rec nat_of_int (n : int) : nat = if n <= 0 then O else S (nat_of_int (n - 1))
let rec int_of_nat (n : nat) : int = match n with O -> 0 | S m -> 1 + int_of_nat m
let nat_of_int n = let rec go acc k = if k <= 0 then acc else go (S acc) (k - 1) in go O n
let int_of_nat n = let rec go acc = function O -> acc | S m -> go (acc + 1) m in go 0 n

(* token stream reader *)
type reader = { toks : string array; mutable pos : int }
let reader_of_line (line : string) : reader =
  { toks = Array.of_list (List.filter (fun s -> s <> "") (String.split_on_char ' ' line)); pos = 0 }
let next r = let t = r.toks.(r.pos) in r.pos <- r.pos + 1; t
let has_more r = r.pos < Array.length r.toks
let rd_int r = int_of_string (next r)
let rd_bool r = (next r) = "1"
let rd_z r = z_of_tok (next r)
let rd_q r = q_of_tok (next r)
let rd_nat r = nat_of_int (rd_int r)
let rd_list f r = let n = rd_int r in List.init n (fun _ -> f r)
let rd_opt f r = if rd_bool r then Some (f r) else None

let pr_list f l = String.concat " " (string_of_int (List.length l) :: List.map f l)
let pr_bool b = if b then "1" else "0"
let pr_opt f = function None -> "0" | Some x -> "1 " ^ f x
