(* driver.ml — reads one case per line "<command> args…", prints one result line per case.
   Every command (cmd_*.ml of a runner directory) calls extracted model code (model.ml) only. *)
open Model
open Io

let commands : (string * (reader -> string)) list ref = ref []

let register name f = commands := (name, f) :: !commands

let main () =
  (try
    while true do
      let line = input_line stdin in
      let r = reader_of_line line in
      if has_more r then begin
        let c = next r in
        let out =
          match List.assoc_opt c !commands with
          | None -> "UNKNOWN " ^ c
          | Some f -> (try f r with e -> "EXC " ^ Printexc.to_string e) in
        print_string out; print_newline ()
      end else print_newline ()
    done
  with End_of_file -> ())
