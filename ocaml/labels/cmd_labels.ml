(* cmd_labels.ml — commands of the `labels` runner (C19).  Calls extracted code only. *)
open Model
open Io
open Cmd_aseq

let mode_of_int = function 0 -> ENone | 1 -> EAdc | 2 -> ELabel | _ -> EBlocks
let rd_mode r = mode_of_int (rd_int r)
let rd_env r = rd_list (fun r -> let k = rd_z r in let v = rd_z r in (k, v)) r
let rd_lop r = let s = rd_bool r in let l = rd_z r in let v = rd_z r in { l_set = s; l_lbl = l; l_val = v }
let rd_lblock r = let adc = rd_bool r in let ops = rd_list rd_lop r in { b_labels = ops; b_adc = adc }

let pr_eval (res, arr) =
  pr_bool arr ^ " " ^ pr_list (fun (k, vs) -> tok_of_z k ^ " " ^ pr_list tok_of_z vs) res
let pr_lop (o : lop) = pr_bool o.l_set ^ " " ^ tok_of_z o.l_lbl ^ " " ^ tok_of_z o.l_val
let pr_walk = function
  | WOk ids -> "ok " ^ pr_list tok_of_z ids
  | WKey -> "key"
  | WFuel -> "fuel"

(* labels.eval init mode blocks nq l1..  ->  evaluate_labels result, then for every queried label
   interp_seq and (when every block has at most one operation per label) interp *)
let cmd_eval r =
  let init = rd_env r in let m = rd_mode r in let bs = rd_list rd_lblock r in
  let qs = rd_list rd_z r in
  let one = List.for_all one_op_per_label bs in
  String.concat " " [
    pr_eval (evaluate_labels init m bs);
    pr_bool one;
    pr_list (fun l -> pr_opt (pr_list tok_of_z) (interp_seq init m bs l)) qs;
    pr_list (fun l -> pr_opt (pr_list tok_of_z) (interp init m bs l)) qs ]

(* labels.store <seq.run arguments> init  ->  <seq.run output> @ per block: id extid walk | list
   | labels | triggers ... @ eval_store for the four modes *)
let cmd_store r =
  let cache_on = rd_bool r in let abs_fix = rd_bool r in
  let g = rd_qc r in let s = rd_qc r in let sl = rd_qc r in let e = rd_qc r in
  let ops = rd_list rd_op r in
  let init = rd_env r in
  let st = ref { st_core = core_init g s sl e; st_cache = [] } in
  let buf = Buffer.create 4096 in
  List.iter (fun o ->
    let (st', out) = seq_step cache_on abs_fix !st o in
    st := st';
    Buffer.add_string buf ("# " ^ pr_out out ^ " | " ^ pr_core st'.st_core ^ " | "
                           ^ pr_list (fun (i, _) -> tok_of_z i) st'.st_cache ^ " ")) ops;
  let c = !st.st_core in
  let fuel = S (nat_of_int (List.length c.ext_l.ldata)) in
  Buffer.add_string buf "@ ";
  Buffer.add_string buf (pr_list (fun (i, ev) ->
    let eid = (match List.nth_opt ev 6 with Some x -> x | None -> Z0) in
    String.concat " " [
      tok_of_z i; tok_of_z eid; pr_walk (ext_walk c.ext_l fuel eid);
      pr_opt (pr_list (fun (t, rf) -> tok_of_z t ^ " " ^ tok_of_z rf)) (ext_list c.ext_l fuel eid);
      pr_opt (fun ext -> pr_list pr_lop (labels_of_ext ext) ^ " " ^ pr_list pr_key (trigs_of_ext ext))
        (dec_ext c fuel eid) ]) c.blocks);
  Buffer.add_string buf " @ ";
  List.iter (fun m ->
    Buffer.add_string buf (pr_opt pr_eval (eval_store c init (mode_of_int m)) ^ " ")) [0; 1; 2; 3];
  Buffer.contents buf

(* labels.reread <seq.run arguments>  ->  the core after write_ext + read_ext into a fresh core (None = the
   reader raises), then ext_num / ext_str of the core as write() leaves it *)
let cmd_reread r =
  let cache_on = rd_bool r in let abs_fix = rd_bool r in
  let g = rd_qc r in let s = rd_qc r in let sl = rd_qc r in let e = rd_qc r in
  let ops = rd_list rd_op r in
  let st = ref { st_core = core_init g s sl e; st_cache = [] } in
  List.iter (fun o -> let (st', _) = seq_step cache_on abs_fix !st o in st := st') ops;
  let c = !st.st_core in
  pr_opt pr_core (reread_ext (core_init g s sl e) c)

(* labels.readonto <header> opsA opsB  ->  read_ext onto the (non-fresh) core reached by opsA of the extension
   part of the file written from the core reached by opsB *)
let cmd_readonto r =
  let cache_on = rd_bool r in let abs_fix = rd_bool r in
  let g = rd_qc r in let s = rd_qc r in let sl = rd_qc r in let e = rd_qc r in
  let run ops =
    let st = ref { st_core = core_init g s sl e; st_cache = [] } in
    List.iter (fun o -> let (st', _) = seq_step cache_on abs_fix !st o in st := st') ops;
    !st.st_core in
  let opsa = rd_list rd_op r in
  let opsb = rd_list rd_op r in
  let ca = run opsa in
  let cb = run opsb in
  pr_opt pr_core (read_ext ca (snd (write_ext cb)))

let () =
  Driver.register "labels.readonto" cmd_readonto;
  Driver.register "labels.reread" cmd_reread;
  Driver.register "labels.eval" cmd_eval;
  Driver.register "labels.store" cmd_store
