(* cmd_aseq.ml — copy of ocaml/seq/cmd_seq.ml for the `labels` runner (token (de)serialisation for Model/Seq.v) *)
open Model
open Io

(* the harness sends reduced fractions (Python Fraction), i.e. already canonical Qc values *)
let rd_qc r : qc = rd_q r
let tok_of_qc (x : qc) : string =
  match x.qden with XH -> tok_of_z x.qnum | d -> tok_of_z x.qnum ^ "/" ^ hex_of_pos d
let rd_key r : key = rd_list rd_qc r
let rd_optz r = rd_opt rd_z r
let rd_optzl r = rd_opt (rd_list rd_z) r
let rd_optkey r = rd_opt rd_key r

let rd_event r : mevent =
  match next r with
  | "rf" ->
    let id = rd_optz r in let sids = rd_optzl r in let amp = rd_qc r in
    let mag = rd_key r in let ph = rd_key r in let ts = rd_optkey r in
    let delay = rd_qc r in let freq = rd_qc r in let pho = rd_qc r in let use = rd_z r in
    let sd = rd_qc r in let rd = rd_qc r in
    MRf (id, sids, amp, mag, ph, ts, delay, freq, pho, use, sd, rd)
  | "grad" ->
    let ch = rd_nat r in let id = rd_optz r in let sids = rd_optzl r in let amp = rd_qc r in
    let ws = rd_key r in let ts = rd_optkey r in
    let delay = rd_qc r in let first = rd_qc r in let last = rd_qc r in
    let t0 = rd_qc r in let tl = rd_qc r in
    MGrad (ch, id, sids, amp, ws, ts, delay, first, last, t0, tl)
  | "trap" ->
    let ch = rd_nat r in let id = rd_optz r in
    let a = rd_qc r in let ri = rd_qc r in let fl = rd_qc r in let fa = rd_qc r in let d = rd_qc r in
    MTrap (ch, id, a, ri, fl, fa, d)
  | "adc" ->
    let id = rd_optz r in
    let n = rd_qc r in let dw = rd_qc r in let d = rd_qc r in let f = rd_qc r in let p = rd_qc r in
    let dt = rd_qc r in
    MAdc (id, n, dw, d, f, p, dt)
  | "delay" -> MDelay (rd_qc r)
  | "ctl" ->
    let id = rd_optz r in let ty = rd_z r in let ch = rd_z r in let d = rd_qc r in let du = rd_qc r in
    MCtl (id, ty, ch, d, du)
  | "label" ->
    let id = rd_optz r in let s = rd_bool r in let v = rd_qc r in let l = rd_z r in
    MLabel (id, s, v, l)
  | "dur" -> MDur (rd_qc r)
  | t -> failwith ("bad event tag " ^ t)

let rd_lib r : klib =
  let data = rd_list (fun r -> let id = rd_z r in let k = rd_key r in (id, k)) r in
  let ty = rd_list (fun r -> let id = rd_z r in let t = rd_z r in (id, t)) r in
  let km = rd_list (fun r -> let k = rd_key r in let id = rd_z r in (k, id)) r in
  let nx = rd_z r in
  { ldata = data; ltype = ty; lkeymap = km; lnext = nx }

let rd_core r : core =
  let rf = rd_lib r in let gr = rd_lib r in let ad = rd_lib r in let tr = rd_lib r in
  let ls = rd_lib r in let li = rd_lib r in let ex = rd_lib r in let sh = rd_lib r in
  let bl = rd_list (fun r -> let id = rd_z r in let ev = rd_list rd_z r in (id, ev)) r in
  let du = rd_list (fun r -> let id = rd_z r in let d = rd_qc r in (id, d)) r in
  let nb = rd_z r in let en = rd_list rd_z r in let es = rd_list rd_z r in
  let g = rd_qc r in let s = rd_qc r in let sl = rd_qc r in let e = rd_qc r in
  { rf_l = rf; grad_l = gr; adc_l = ad; trig_l = tr; lset_l = ls; linc_l = li; ext_l = ex;
    shape_l = sh; blocks = bl; durs = du; next_block = nb; ext_num = en; ext_str = es;
    grad_raster = g; sys_raster = s; max_slew = sl; eps_ = e }

let rd_op r : op =
  match next r with
  | "add" -> let evs = rd_list rd_event r in let h = rd_list rd_nat r in AddBlock (evs, h)
  | "set" -> let i = rd_z r in let evs = rd_list rd_event r in let h = rd_list rd_nat r in SetBlock (i, evs, h)
  | "get" -> GetBlock (rd_z r)
  | "regrf" ->
    let sids = rd_optzl r in let amp = rd_qc r in let mag = rd_key r in let ph = rd_key r in
    let ts = rd_optkey r in let d = rd_qc r in let f = rd_qc r in let p = rd_qc r in let u = rd_z r in
    RegRf (sids, amp, mag, ph, ts, d, f, p, u)
  | "reggrad" ->
    let sids = rd_optzl r in let amp = rd_qc r in let ws = rd_key r in let ts = rd_optkey r in
    let d = rd_qc r in let fi = rd_qc r in let la = rd_qc r in
    RegGrad (sids, amp, ws, ts, d, fi, la)
  | "regtrap" ->
    let a = rd_qc r in let ri = rd_qc r in let fl = rd_qc r in let fa = rd_qc r in let d = rd_qc r in
    RegTrap (a, ri, fl, fa, d)
  | "regadc" ->
    let n = rd_qc r in let dw = rd_qc r in let d = rd_qc r in let f = rd_qc r in let p = rd_qc r in
    let dt = rd_qc r in RegAdc (n, dw, d, f, p, dt)
  | "reglabel" -> let s = rd_bool r in let v = rd_qc r in let l = rd_z r in RegLabel (s, v, l)
  | "dedupip" -> DedupInPlace
  | "dedupcp" -> DedupCopy
  | "touch" -> TouchAll
  | "load" -> Load (rd_core r)
  | t -> failwith ("bad op tag " ^ t)

(* ---- printers ---- *)
let pr_key (k : key) = pr_list tok_of_qc k
let pr_lib (l : klib) =
  String.concat " " [
    pr_list (fun (id, k) -> tok_of_z id ^ " " ^ pr_key k) l.ldata;
    pr_list (fun (id, t) -> tok_of_z id ^ " " ^ tok_of_z t) l.ltype;
    pr_list (fun (k, id) -> pr_key k ^ " " ^ tok_of_z id) l.lkeymap;
    tok_of_z l.lnext ]
let pr_core (c : core) =
  String.concat " " [
    pr_lib c.rf_l; pr_lib c.grad_l; pr_lib c.adc_l; pr_lib c.trig_l; pr_lib c.lset_l; pr_lib c.linc_l;
    pr_lib c.ext_l; pr_lib c.shape_l;
    pr_list (fun (id, ev) -> tok_of_z id ^ " " ^ pr_list tok_of_z ev) c.blocks;
    pr_list (fun (id, d) -> tok_of_z id ^ " " ^ tok_of_qc d) c.durs;
    tok_of_z c.next_block; pr_list tok_of_z c.ext_num; pr_list tok_of_z c.ext_str ]
let err_name = function
  | EMultiple -> "multiple" | EDelayNonzero -> "delaynz" | EConnect -> "connect"
  | EFirstNonzero -> "firstnz" | EAlign -> "align" | EKey -> "key" | EOther -> "other"
let pr_dgrad (g : dgrad) =
  tok_of_z g.dg_type ^ " " ^ pr_key g.dg_data ^ " " ^ pr_list pr_key g.dg_shapes
let pr_dblock (b : dblock) =
  String.concat " " [
    tok_of_qc b.d_dur;
    pr_opt (fun ((k, u), sh) -> pr_key k ^ " " ^ tok_of_z u ^ " " ^ pr_list pr_key sh) b.d_rf;
    pr_list (pr_opt pr_dgrad) b.d_g;
    pr_opt pr_key b.d_adc;
    pr_list (fun (s, k) -> tok_of_z s ^ " " ^ pr_key k) b.d_ext ]
let pr_out = function
  | ONone -> "none"
  | OErr e -> "err " ^ err_name e
  | OId (id, sids) -> "id " ^ tok_of_z id ^ " " ^ pr_list tok_of_z sids
  | OBlock b -> "block " ^ pr_opt pr_dblock b
  | OCore c -> "core " ^ pr_opt pr_core c

(* seq.run cache abs graster sraster slew eps nops op…  ->  per op: "# out | core | cachekeys" *)
let cmd_seq_run r =
  let cache_on = rd_bool r in let abs_fix = rd_bool r in
  let g = rd_qc r in let s = rd_qc r in let sl = rd_qc r in let e = rd_qc r in
  let ops = rd_list rd_op r in
  let st = ref { st_core = core_init g s sl e; st_cache = [] } in
  let buf = Buffer.create 4096 in
  List.iter (fun o ->
    let (st', out) = seq_step cache_on abs_fix !st o in
    st := st';
    Buffer.add_string buf ("# " ^ pr_out out ^ " | " ^ pr_core st'.st_core ^ " | "
                           ^ pr_list (fun (i, _) -> tok_of_z i) st'.st_cache ^ " ")) ops;
  Buffer.contents buf

(* round.spec dig q -> q ; round.row n digs.. key -> key *)
let cmd_round_spec r = let dg = rd_z r in let q = rd_q r in tok_of_q (round_spec dg q)

let () =
  Driver.register "seq.run" cmd_seq_run;
  Driver.register "round.spec" cmd_round_spec
