(* cmd_trap.ml — trap.* commands for Model/Trap.v *)
open Model
open Io

let err_name = function
  | E_channel -> "channel" | E_ni_flat_area_amp -> "ni_flat_area_amp" | E_ni_amp_area -> "ni_amp_area"
  | E_must_supply -> "must_supply" | E_flat_time_needs -> "flat_time_needs" | E_min_duration -> "min_duration"
  | E_dur_short_rise -> "dur_short_rise" | E_not_possible -> "not_possible" | E_must_rise -> "must_rise" | E_dur_inconsistent -> "dur_inconsistent"
  | E_ni_flat_area_dur -> "ni_flat_area_dur"
  | E_area_or_duration -> "area_or_duration" | E_timing -> "timing" | E_amp -> "amp" | E_slew_rise -> "slew_rise"
  | E_slew_fall -> "slew_fall" | E_unbound -> "unbound" | E_zerodiv -> "zerodiv" | E_type -> "type"
  | E_unmodelled -> "unmodelled"

(* trap.make chan_ok amplitude area delay duration fall flat_area flat_time max_grad max_slew rise  G S R
   (each optional argument as `0` or `1 q`) *)
let cmd_make r =
  let chan = rd_bool r in
  let amplitude = rd_opt rd_q r in
  let area = rd_opt rd_q r in
  let delay = rd_opt rd_q r in
  let duration = rd_opt rd_q r in
  let fall = rd_opt rd_q r in
  let flat_area = rd_opt rd_q r in
  let flat_time = rd_opt rd_q r in
  let max_grad = rd_opt rd_q r in
  let max_slew = rd_opt rd_q r in
  let rise = rd_opt rd_q r in
  let g = rd_q r in
  let s = rd_q r in
  let ra = rd_q r in
  let a = { a_channel_ok = chan; a_amplitude = amplitude; a_area = area; a_delay = delay; a_duration = duration;
            a_fall = fall; a_flat_area = flat_area; a_flat_time = flat_time; a_max_grad = max_grad;
            a_max_slew = max_slew; a_rise = rise;
            a_sys = { s_max_grad = g; s_max_slew = s; s_raster = ra } } in
  match make_trap a with
  | Err e -> "ERR " ^ err_name e
  | OK t -> String.concat " " ("OK" :: List.map tok_of_q
              [t.t_amplitude; t.t_rise; t.t_flat; t.t_fall; t.t_area; t.t_flat_area; t.t_delay])

(* trap.shortest area max_slew max_grad raster *)
let cmd_shortest r =
  let area = rd_q r in
  let s = rd_q r in
  let g = rd_q r in
  let ra = rd_q r in
  let (((amp, ri), fl), fa) = shortest_params area s g ra in
  String.concat " " (List.map tok_of_q [amp; ri; fl; fa])

let () =
  Driver.register "trap.make" cmd_make;
  Driver.register "trap.shortest" cmd_shortest
