(* cmd_export.ml — export.* / kspace.* commands for Model/Export.v and Model/KSpace.v *)
open Model
open Io

let rd_grad r : grad =
  match next r with
  | "T" -> let a = rd_q r in let ri = rd_q r in let fl = rd_q r in let fa = rd_q r in let d = rd_q r in
    Trap (a, ri, fl, fa, d)
  | "C" -> let d = rd_q r in let tt = rd_list rd_q r in let wf = rd_list rd_q r in
    let f = rd_q r in let l = rd_q r in Corners (d, tt, wf, f, l)
  | s -> failwith ("bad grad tag " ^ s)

let rd_block r : block =
  let d = rd_q r in
  let g = rd_list (rd_opt rd_grad) r in
  { b_dur = d; b_g = g }

let rd_rf r : rfev =
  let d = rd_q r in let t = rd_list rd_q r in let m = rd_list rd_q r in
  let u = rd_opt (rd_list rd_z) r in
  { rf_delay = d; rf_t = t; rf_mag = m; rf_use = u }

let rd_adc r : adcev =
  let d = rd_q r in let dw = rd_q r in let n = rd_nat r in
  { adc_delay = d; adc_dwell = dw; adc_n = n }

let rd_kblock r : kblock =
  let b = rd_block r in
  let rf = rd_opt rd_rf r in
  let adc = rd_opt rd_adc r in
  { kb = b; kb_rf = rf; kb_adc = adc }

let pr_wres = function
  | WOk w -> "OK " ^ pr_list tok_of_q (List.map fst w) ^ " " ^ pr_list tok_of_q (List.map snd w)
  | WErrMono -> "ERRM"
  | WErrIndex -> "ERRI"

let chans = [O; S O; S (S O)]

(* export.wave raster <blocks>  ->  three results (gx gy gz) separated by " | " *)
let cmd_wave r =
  let raster = rd_q r in
  let bs = rd_list rd_block r in
  String.concat " | " (List.map (fun ch -> pr_wres (waveform raster bs ch)) chans)

let cmd_range r =
  let raster = rd_q r in
  let a = rd_q r in let c = rd_q r in
  let bs = rd_list rd_block r in
  String.concat " | " (List.map (fun ch -> pr_wres (waveform_range raster bs a c ch)) chans)

(* export.render raster <grad> <list s> -> values of the specification renderer *)
let cmd_render r =
  let raster = rd_q r in
  let g = rd_grad r in
  let ss = rd_list rd_q r in
  pr_list tok_of_q (List.map (fun s -> render raster g s) ss)

let cmd_starts r =
  let bs = rd_list rd_block r in
  pr_list tok_of_q (starts { qnum = Z0; qden = XH } bs)

(* kspace.full raster <kblocks> <list t> -> t_exc | t_ref | t_adc | kx | ky | kz (k at the ADC sample times)
   | kx | ky | kz at the extra times t *)
let cmd_kfull r =
  let raster = rd_q r in
  let bs = rd_list rd_kblock r in
  let ts = rd_list rd_q r in
  let evs = rf_events { qnum = Z0; qden = XH } bs in
  let te = times_of Exc evs and tr = times_of Ref evs in
  let ta = adc_times { qnum = Z0; qden = XH } bs in
  String.concat " | "
    ([pr_list tok_of_q te; pr_list tok_of_q tr; pr_list tok_of_q ta]
     @ List.map (fun ch -> pr_list tok_of_q (kspace_at raster bs ch ta)) chans
     @ List.map (fun ch -> pr_list tok_of_q (kspace_at raster bs ch ts)) chans)

let () =
  Driver.register "export.wave" cmd_wave;
  Driver.register "export.range" cmd_range;
  Driver.register "export.render" cmd_render;
  Driver.register "export.starts" cmd_starts;
  Driver.register "kspace.full" cmd_kfull
