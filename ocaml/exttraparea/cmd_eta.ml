(* cmd_eta.ml — eta.* commands for Model/ExtTrapArea.v
   argument order of every command:  max_grad max_slew raster grad_start grad_end area ... *)
open Model
open Io

let rd_args r =
  let mg = rd_q r in
  let ms = rd_q r in
  let ra = rd_q r in
  let gs = rd_q r in
  let ge = rd_q r in
  let ar = rd_q r in
  { e_sys = { s_max_grad = mg; s_max_slew = ms; s_raster = ra }; e_gs = gs; e_ge = ge; e_area = ar }

let err_name = function
  | OutOfFuel -> "OutOfFuel" | NoneSolution -> "NoneSolution" | ETimesZero -> "ETimesZero"
  | ETimesOrder -> "ETimesOrder" | ERaster -> "ERaster" | EFirst -> "EFirst" | ESlew -> "ESlew"
  | EAmp -> "EAmp" | EArea -> "EArea"

let pr_cand c =
  Printf.sprintf "%s %s %s %s %s" (tok_of_z c.c_up) (tok_of_z c.c_flat) (tok_of_z c.c_down)
    (tok_of_q c.c_amp) (tok_of_q (cost c))

(* eta.run <args> fuel_doubling fuel_binary
   -> OK dur up flat down amp cost area | ntimes times.. | namps amps..   or   ERR class *)
let run_with f r =
  let a = rd_args r in
  let fd = rd_nat r in
  let fb = rd_nat r in
  match f fd fb a with
  | Err e -> "ERR " ^ err_name e
  | OK o ->
    Printf.sprintf "OK %s %s %s %s %s %s %s" (tok_of_z o.o_dur) (pr_cand o.o_cand) (tok_of_q o.o_grad.g_area)
      (tok_of_z (min_duration a)) (tok_of_z (lin_max a))
      (pr_list tok_of_q o.o_grad.g_tt) (pr_list tok_of_q o.o_grad.g_wave)

(* eta.find <args> n d1 .. dn  ->  per duration: 0 | 1 up flat down amp cost *)
let cmd_find r =
  let a = rd_args r in
  let ds = rd_list rd_z r in
  String.concat " " (List.map (fun d -> match find_solution a d with
    | None -> "0"
    | Some c -> "1 " ^ pr_cand c) ds)

(* eta.bounds <args> -> min_duration lin_max *)
let cmd_bounds r =
  let a = rd_args r in
  Printf.sprintf "%s %s %s" (tok_of_z (min_duration a)) (tok_of_z (lin_max a)) (tok_of_z (shortest_conceivable a))

let cmd_run r = run_with eta r
(* eta.old: the search without the rescan (before repair 7df2246) *)
let cmd_old r = run_with eta_old r

(* eta.arb <args> fuel_doubling fuel_binary   (convert_to_arbitrary=True)
   -> OK dur first last area shape_dur | n samples..   or   ERR class *)
let cmd_arb r =
  let a = rd_args r in
  let fd = rd_nat r in
  let fb = rd_nat r in
  match eta_arb fd fb a with
  | Err e -> "ERR " ^ err_name e
  | OK o ->
    let g = o.oa_grad in
    Printf.sprintf "OK %s %s %s %s %s %s" (tok_of_z o.oa_dur) (tok_of_q g.a_first) (tok_of_q g.a_last)
      (tok_of_q g.a_area) (tok_of_q g.a_shape_dur) (pr_list tok_of_q g.a_wave)

let () =
  Driver.register "eta.arb" cmd_arb;
  Driver.register "eta.run" cmd_run;
  Driver.register "eta.old" cmd_old;
  Driver.register "eta.find" cmd_find;
  Driver.register "eta.bounds" cmd_bounds
