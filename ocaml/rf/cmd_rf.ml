(* cmd_rf.ml — rf.* commands for Model/Rf.v (C13) *)
open Model
open Io

let rd_sys r =
  let dead = rd_q r in let ring = rd_q r in let rfr = rd_q r in
  let gr = rd_q r in let mg = rd_q r in let ms = rd_q r in
  { s_rf_dead = dead; s_rf_ring = ring; s_rf_raster = rfr; s_grad_raster = gr; s_max_grad = mg; s_max_slew = ms }

let err_name = function
  | EUse -> "EUse" | EDur -> "EDur" | EZeroDiv -> "EZeroDiv" | EThick -> "EThick" | EBandwidth -> "EBandwidth"
  | EArgs -> "EArgs" | EGradAmp -> "EGradAmp" | ESlewUp -> "ESlewUp" | ESlewDown -> "ESlewDown"
  | EEnvLen -> "EEnvLen" | ETrapTimes -> "ETrapTimes"

(* unreduced printing of the long lists (the harness reduces; Coq's gcd on the inductive [positive] is slow) *)
let tok_raw (x : q) : string =
  match x.qden with
  | XH -> tok_of_z x.qnum
  | d -> tok_of_z x.qnum ^ "/" ^ hex_of_pos d

let pr_rf (x : rf) =
  String.concat " " [
    pr_list tok_raw x.r_signal; pr_list tok_raw x.r_t; tok_of_q x.r_shape_dur; tok_of_q x.r_freq;
    tok_of_q x.r_phase; tok_of_q x.r_dead; tok_of_q x.r_ring; tok_of_q x.r_delay;
    pr_opt (fun n -> string_of_int (int_of_nat n)) x.r_use; tok_of_q (rf_end x) ]

let pr_trap (g : trap) =
  String.concat " " [
    tok_of_q g.g_amp; tok_of_q g.g_rise; tok_of_q g.g_flat; tok_of_q g.g_fall; tok_of_q g.g_area;
    tok_of_q g.g_flat_area; tok_of_q g.g_delay; tok_of_q (trap_end g) ]

let pr_pair = function
  | None -> "0"
  | Some (gz, gzr) -> "1 " ^ pr_trap gz ^ " " ^ pr_trap gzr

(* rf.shaped gauss sys pi w flip delay duration dwell center freq phase bandwidth tbw return_gz thick mg ms use *)
let cmd_shaped_gen direct r =
  let gauss = rd_bool r in
  let s = rd_sys r in
  let pi = rd_q r in
  let w = rd_list rd_q r in
  let flip = rd_q r in let delay = rd_q r in let duration = rd_q r in let dwell = rd_q r in
  let center = rd_q r in let freq = rd_q r in let phase = rd_q r in let bw = rd_q r in let tbw = rd_q r in
  let rgz = rd_bool r in
  let thick = rd_q r in let mg = rd_q r in let ms = rd_q r in
  let use = rd_nat r in
  (* fast forms (proved equal to the specification forms: C13_fast_form_shaped); [direct] runs the specification *)
  let f = if direct then (if gauss then make_gauss else make_sinc)
          else (if gauss then make_gauss_fast else make_sinc_fast) in
  match f s pi w flip delay duration dwell center freq phase bw tbw rgz thick mg ms use with
  | Err e -> "ERR " ^ err_name e
  | Ok (x, g) -> "OK " ^ pr_rf x ^ " " ^ pr_pair g

(* rf.block sys pi flip delay duration? bandwidth? tbw? freq phase use *)
let cmd_block r =
  let s = rd_sys r in
  let pi = rd_q r in
  let flip = rd_q r in let delay = rd_q r in
  let duration = rd_opt rd_q r in let bw = rd_opt rd_q r in let tbw = rd_opt rd_q r in
  let freq = rd_q r in let phase = rd_q r in
  let use = rd_nat r in
  match make_block s pi flip delay duration bw tbw freq phase use with
  | Err e -> "ERR " ^ err_name e
  | Ok x -> "OK " ^ pr_rf x

(* rf.arb sys pi w flip bandwidth delay dwell freq phase noscale mg ms return_gz thick tbw use *)
let cmd_arb_gen direct r =
  let s = rd_sys r in
  let pi = rd_q r in
  let w = rd_list rd_q r in
  let flip = rd_q r in let bw = rd_q r in let delay = rd_q r in let dwell = rd_q r in
  let freq = rd_q r in let phase = rd_q r in
  let noscale = rd_bool r in
  let mg = rd_q r in let ms = rd_q r in
  let rgz = rd_bool r in
  let thick = rd_q r in let tbw = rd_q r in
  let use = rd_nat r in
  match (if direct then make_arbitrary else make_arbitrary_fast) s pi w flip bw delay dwell freq phase noscale mg ms rgz thick tbw use with
  | Err e -> "ERR " ^ err_name e
  | Ok (x, None) -> "OK " ^ pr_rf x ^ " 0"
  | Ok (x, Some gz) -> "OK " ^ pr_rf x ^ " 1 " ^ pr_trap gz

(* rf.adia sys delay duration dwell? freq phase return_gz thick bandwidth center use *)
let cmd_adia r =
  let s = rd_sys r in
  let delay = rd_q r in let duration = rd_q r in
  let dwell = rd_opt rd_q r in
  let freq = rd_q r in let phase = rd_q r in
  let rgz = rd_bool r in
  let thick = rd_q r in let bw = rd_q r in let center = rd_q r in
  let use = rd_nat r in
  match make_adiabatic_timing s delay duration dwell freq phase rgz thick bw center use with
  | Err e -> "ERR " ^ err_name e
  | Ok (x, g) -> "OK " ^ pr_rf x ^ " " ^ pr_pair g

let () =
  Driver.register "rf.shaped" (cmd_shaped_gen false);
  Driver.register "rf.shaped_direct" (cmd_shaped_gen true);
  Driver.register "rf.arb_direct" (cmd_arb_gen true);
  Driver.register "rf.block" cmd_block;
  Driver.register "rf.arb" (cmd_arb_gen false);
  Driver.register "rf.adia" cmd_adia
