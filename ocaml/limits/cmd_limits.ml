(* cmd_limits.ml — lim.* commands for Model/Limits.v *)
open Model
open Io

let err_name = function
  | ELen -> "ELen" | EAllZero -> "EAllZero" | ENotAscending -> "ENotAscending"
  | ELastRaster -> "ELastRaster" | EConnectPrev -> "EConnectPrev" | ENotOnRaster -> "ENotOnRaster"
  | EShort -> "EShort" | ESlew -> "ESlew" | EGrad -> "EGrad"

let pr_res = function
  | LErr e -> "ERR " ^ err_name e
  | LOK g -> Printf.sprintf "OK %s %s %s %s %s" (tok_of_q g.cg_delay) (pr_list tok_of_q g.cg_tt)
               (pr_list tok_of_q g.cg_wave) (tok_of_q g.cg_first) (tok_of_q g.cg_last)

let rd_sys r =
  let g = rd_q r in let s = rd_q r in let ra = rd_q r in
  { s_max_grad = g; s_max_slew = s; s_raster = ra }

(* lim.ext <sys: G S raster> <times> <amps> <max_grad> <max_slew> <skip_check> *)
let cmd_ext r =
  let sys = rd_sys r in
  let times = rd_list rd_q r in let amps = rd_list rd_q r in
  let mg = rd_q r in let ms = rd_q r in let skip = rd_bool r in
  pr_res (make_ext_trap sys times amps mg ms skip)

(* lim.arb <sys> <wave> <first?> <last?> <delay> <max_grad?> <max_slew?> *)
let cmd_arb r =
  let sys = rd_sys r in
  let wave = rd_list rd_q r in
  let first = rd_opt rd_q r in let last = rd_opt rd_q r in let delay = rd_q r in
  let mg = rd_opt rd_q r in let ms = rd_opt rd_q r in
  pr_res (make_arb sys wave first last delay mg ms)

(* lim.conv <pi> <gamma> <x> <from index> <to index>: indices into all_units *)
let cmd_conv r =
  let pi = rd_q r in let gamma = rd_q r in let x = rd_q r in
  let fi = rd_int r in let ti = rd_int r in
  tok_of_q (convert pi gamma x (List.nth all_units fi) (List.nth all_units ti))

let cmd_opts r =
  let pi = rd_q r in let gamma = rd_q r in let x = rd_q r in let fi = rd_int r in
  tok_of_q (opts_limit pi gamma x (List.nth all_units fi))

let () =
  Driver.register "lim.ext" cmd_ext;
  Driver.register "lim.arb" cmd_arb;
  Driver.register "lim.conv" cmd_conv;
  Driver.register "lim.opts" cmd_opts
