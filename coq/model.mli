
val negb : bool -> bool

type nat =
| O
| S of nat

val option_map : ('a1 -> 'a2) -> 'a1 option -> 'a2 option

val snd : ('a1 * 'a2) -> 'a2

val length : 'a1 list -> nat

val app : 'a1 list -> 'a1 list -> 'a1 list

type comparison =
| Eq
| Lt
| Gt

val compOpp : comparison -> comparison

val add : nat -> nat -> nat

type positive =
| XI of positive
| XO of positive
| XH

type z =
| Z0
| Zpos of positive
| Zneg of positive

module Nat :
 sig
  val eqb : nat -> nat -> bool

  val leb : nat -> nat -> bool

  val ltb : nat -> nat -> bool
 end

module Pos :
 sig
  type mask =
  | IsNul
  | IsPos of positive
  | IsNeg
 end

module Coq_Pos :
 sig
  val succ : positive -> positive

  val add : positive -> positive -> positive

  val add_carry : positive -> positive -> positive

  val pred_double : positive -> positive

  type mask = Pos.mask =
  | IsNul
  | IsPos of positive
  | IsNeg

  val succ_double_mask : mask -> mask

  val double_mask : mask -> mask

  val double_pred_mask : positive -> mask

  val sub_mask : positive -> positive -> mask

  val sub_mask_carry : positive -> positive -> mask

  val sub : positive -> positive -> positive

  val mul : positive -> positive -> positive

  val size_nat : positive -> nat

  val compare_cont : comparison -> positive -> positive -> comparison

  val compare : positive -> positive -> comparison

  val eqb : positive -> positive -> bool

  val ggcdn : nat -> positive -> positive -> positive * (positive * positive)

  val ggcd : positive -> positive -> positive * (positive * positive)

  val iter_op : ('a1 -> 'a1 -> 'a1) -> positive -> 'a1 -> 'a1

  val to_nat : positive -> nat

  val of_succ_nat : nat -> positive
 end

module Z :
 sig
  val double : z -> z

  val succ_double : z -> z

  val pred_double : z -> z

  val pos_sub : positive -> positive -> z

  val add : z -> z -> z

  val opp : z -> z

  val sub : z -> z -> z

  val mul : z -> z -> z

  val compare : z -> z -> comparison

  val sgn : z -> z

  val leb : z -> z -> bool

  val ltb : z -> z -> bool

  val eqb : z -> z -> bool

  val abs : z -> z

  val to_nat : z -> nat

  val of_nat : nat -> z

  val to_pos : z -> positive

  val pos_div_eucl : positive -> z -> z * z

  val div_eucl : z -> z -> z * z

  val div : z -> z -> z

  val even : z -> bool

  val ggcd : z -> z -> z * (z * z)
 end

val zeq_bool : z -> z -> bool

val flat_map : ('a1 -> 'a2 list) -> 'a1 list -> 'a2 list

val repeat : 'a1 -> nat -> 'a1 list

type q = { qnum : z; qden : positive }

val inject_Z : z -> q

val qcompare : q -> q -> comparison

val qeq_bool : q -> q -> bool

val qle_bool : q -> q -> bool

val qplus : q -> q -> q

val qmult : q -> q -> q

val qopp : q -> q

val qminus : q -> q -> q

val qinv : q -> q

val qdiv : q -> q -> q

val qred : q -> q

val qfloor : q -> z

val qhalf : q

val rnd_he : q -> z

val quant_factor : q

val short_shape_threshold : nat

val rl_offset : z

val quant_go : q -> z -> z -> bool -> q list -> z list

val quantise : q list -> z list

val runs : z list -> (z * nat) list

val qv : z -> q

val cnt : nat -> q

val pack_run : (z * nat) -> q list

val pack_runs : (z * nat) list -> q list

val pack : z list -> q list

val count_of : q -> nat option

val unpack_go : q list -> nat -> q list option

val cumsumQ_go : q -> q list -> q list

val cumsumQ : q list -> q list

type cshape = { num_samples : nat; cdata : q list }

val compress : bool -> q list -> cshape

val decompress : bool -> cshape -> q list option
