(* Props/C15.v — duplicate removal changes ids only, never content.
   Statements only (proofs in Proofs/DedupProofs.v and Proofs/RoundProofs.v).
   Model: EventLibrary.remove_duplicates = lib_remove_duplicates (Model/EventLib.v), generic in the
   key type and the rounding function; Sequence.remove_duplicates = dedup_core (Model/Seq.v); the
   rounding functions rnd_*_key (Model/Dedup.v) are built from the digit tuples that the translator
   reads from sequence.py (Gen/GenDedup.v). *)
From Coq Require Import List Bool ZArith QArith Qcanon Qabs.
From PV Require Import Base.AList Base.QUtil Base.Round Gen.GenDedup Model.EventLib Model.Seq Model.Dedup
     Model.File Proofs.RoundProofs Proofs.DedupProofs Proofs.RoundVsPrint.
Import ListNotations.
Open Scope Z_scope.

(* ---- (a) one library, any key type with a correct equality test, ANY rounding function ---------- *)
(* [first_member K rnd l i k]: entry i (data k) has the smallest id among the entries of l whose
   rounded data equal rnd k.  Hypothesis of all: ids are unique dict keys. *)

(* the returned mapping is total on the old ids, points to an existing new id, and the new
   library holds exactly the rounded old data there: content changes by the rounding only *)
Theorem C15_dedup_data_is_rounded : forall (K : Type) (keqb : K -> K -> bool),
  (forall a b, keqb a b = true <-> a = b) -> forall (rnd : K -> K) (l : lib K),
  NoDup (akeys (ldata l)) -> forall i k, lib_get l i = Some k ->
  exists j, aget Z.eqb (snd (lib_remove_duplicates keqb rnd l)) i = Some j /\
            lib_get (fst (lib_remove_duplicates keqb rnd l)) j = Some (rnd k).
Proof. exact dedup_data_is_rounded. Qed.
Print Assumptions C15_dedup_data_is_rounded.

(* two entries are merged IF AND ONLY IF their rounded data are equal: nothing that differs by
   more than the rounding is ever merged *)
Theorem C15_merge_iff_round_equal : forall (K : Type) (keqb : K -> K -> bool),
  (forall a b, keqb a b = true <-> a = b) -> forall (rnd : K -> K) (l : lib K),
  NoDup (akeys (ldata l)) -> forall i1 i2 k1 k2, lib_get l i1 = Some k1 -> lib_get l i2 = Some k2 ->
  (aget Z.eqb (snd (lib_remove_duplicates keqb rnd l)) i1 = aget Z.eqb (snd (lib_remove_duplicates keqb rnd l)) i2
   <-> rnd k1 = rnd k2).
Proof. exact merge_iff_round_equal. Qed.
Print Assumptions C15_merge_iff_round_equal.

(* new ids are exactly 1..n, next_free_ID = n+1, and they are handed out in ascending order of the
   old ids of the class representatives *)
Theorem C15_dedup_dense_ascending : forall (K : Type) (keqb : K -> K -> bool),
  (forall a b, keqb a b = true <-> a = b) -> forall (rnd : K -> K) (l : lib K),
  NoDup (akeys (ldata l)) ->
  (exists n, akeys (ldata (fst (lib_remove_duplicates keqb rnd l))) = map (fun i => 1 + Z.of_nat i) (seq 0 n) /\
             lnext (fst (lib_remove_duplicates keqb rnd l)) = 1 + Z.of_nat n) /\
  (forall i1 i2 k1 k2 j1 j2, first_member K rnd l i1 k1 -> first_member K rnd l i2 k2 -> i1 < i2 ->
     aget Z.eqb (snd (lib_remove_duplicates keqb rnd l)) i1 = Some j1 ->
     aget Z.eqb (snd (lib_remove_duplicates keqb rnd l)) i2 = Some j2 -> j1 < j2).
Proof. exact dedup_dense_ascending. Qed.
Print Assumptions C15_dedup_dense_ascending.

(* every new entry is the image of the first member of its class and carries that member's type tag *)
Theorem C15_dedup_onto : forall (K : Type) (keqb : K -> K -> bool),
  (forall a b, keqb a b = true <-> a = b) -> forall (rnd : K -> K) (l : lib K),
  NoDup (akeys (ldata l)) -> forall j k', lib_get (fst (lib_remove_duplicates keqb rnd l)) j = Some k' ->
  exists i k, first_member K rnd l i k /\ aget Z.eqb (snd (lib_remove_duplicates keqb rnd l)) i = Some j /\
              k' = rnd k /\ lib_type (fst (lib_remove_duplicates keqb rnd l)) j = tag_view (lib_type l i).
Proof. exact dedup_onto. Qed.
Print Assumptions C15_dedup_onto.

(* the mapping knows only 0 and the old ids, and maps 0 (no event) to 0 *)
Theorem C15_dedup_map_domain : forall (K : Type) (keqb : K -> K -> bool),
  (forall a b, keqb a b = true <-> a = b) -> forall (rnd : K -> K) (l : lib K),
  NoDup (akeys (ldata l)) ->
  (forall i, aget Z.eqb (snd (lib_remove_duplicates keqb rnd l)) i <> None -> i = 0 \/ lib_get l i <> None) /\
  (lib_get l 0 = None -> aget Z.eqb (snd (lib_remove_duplicates keqb rnd l)) 0 = Some 0).
Proof. intros K keqb Hk rnd l N. split; [apply dedup_map_domain; assumption|apply dedup_map_zero; assumption]. Qed.
Print Assumptions C15_dedup_map_domain.

(* the result is a well-formed library: keymap and data mirror each other, 0 < id < next_free_ID,
   no duplicate ids, type tags only on existing ids *)
Theorem C15_dedup_lib_invariant : forall (K : Type) (keqb : K -> K -> bool),
  (forall a b, keqb a b = true <-> a = b) -> forall (rnd : K -> K) (l : lib K),
  NoDup (akeys (ldata l)) ->
  let nl := fst (lib_remove_duplicates keqb rnd l) in
  (forall k j, aget keqb (lkeymap nl) k = Some j <-> lib_get nl j = Some k) /\
  (forall j k, lib_get nl j = Some k -> 0 < j < lnext nl) /\
  NoDup (akeys (ldata nl)) /\
  (forall j t, lib_type nl j = Some t -> lib_get nl j <> None /\ t <> 0).
Proof. exact dedup_lib_invariant. Qed.
Print Assumptions C15_dedup_lib_invariant.

(* ---- (b) repeated application ----------------------------------------------------------------------- *)
(* for an idempotent rounding a second pass returns the SAME library (Leibniz equality of data,
   type, keymap, next_free_ID) and the identity mapping *)
Theorem C15_dedup_idempotent : forall (K : Type) (keqb : K -> K -> bool),
  (forall a b, keqb a b = true <-> a = b) -> forall (rnd : K -> K) (l : lib K),
  (forall k, rnd (rnd k) = rnd k) -> NoDup (akeys (ldata l)) ->
  let nl := fst (lib_remove_duplicates keqb rnd l) in
  lib_remove_duplicates keqb rnd nl = (nl, (0, 0) :: map (fun p => (fst p, fst p)) (ldata nl)).
Proof. exact dedup_idempotent. Qed.
Print Assumptions C15_dedup_idempotent.

(* ---- (c) the rounding itself ------------------------------------------------------------------------ *)
Theorem C15_round_dec_idem : forall n d, round_dec n (round_dec n d) = round_dec n d.
Proof. exact round_dec_idem. Qed.
Print Assumptions C15_round_dec_idem.

Theorem C15_round_dec_err : forall n d, (Qabs (round_dec n d - d) <= (1 # 2) * pow10 (- n))%Q.
Proof. exact round_dec_err. Qed.
Print Assumptions C15_round_dec_err.

(* columns with dig <= 0 (times: 1 us, 1 ns; integers): absolute error half a unit, idempotent *)
Theorem C15_round_spec_err_dec : forall dig d, dig <= 0 -> (Qabs (round_spec dig d - d) <= (1 # 2) * pow10 dig)%Q.
Proof. exact round_spec_err_dec. Qed.
Print Assumptions C15_round_spec_err_dec.

Theorem C15_round_spec_idem_dec : forall dig d, dig <= 0 -> round_spec dig (round_spec dig d) = round_spec dig d.
Proof. exact round_spec_idem_dec. Qed.
Print Assumptions C15_round_spec_idem_dec.

(* columns with dig > 0 (significant digits): relative error 5*10^-dig of |d| + 1e-12 *)
Theorem C15_round_spec_err_sig : forall dig d, 0 < dig ->
  (Qabs (round_spec dig d - d) <= (5 # 1) * pow10 (- dig) * (Qabs d + log_offset))%Q.
Proof. exact round_spec_err_sig. Qed.
Print Assumptions C15_round_spec_err_sig.

(* the significant-digit rounding is idempotent for EVERY rational, including the case where rounding
   carries to the next power of ten (the result then is exactly +-10^e, its exponent e+1, and 10^e lies
   on the coarser grid too).  No value is excluded: beyond the search range of the exponent (|d| > 10^387)
   the exponent is capped at 388 for the input and for the result alike. *)
Theorem C15_round_spec_idem : forall dig d, round_spec dig (round_spec dig d) = round_spec dig d.
Proof. exact round_spec_idem. Qed.
Print Assumptions C15_round_spec_idem.

(* the carry case spelled out *)
Theorem C15_round_sig_carry : forall dig d e e' r,
  0 < dig -> e = sig_exp d -> r = round_dec (dig - e) d -> e' = sig_exp r -> e < e' ->
  e' = e + 1 /\ exists s : Z, (s = 1 \/ s = -1) /\ (r == inject_Z (s * 10 ^ (dig - 1)) * pow10 (- (dig - (e + 1))))%Q.
Proof. exact round_sig_carry. Qed.
Print Assumptions C15_round_sig_carry.

(* ---- the digit tuples of the source ---------------------------------------------------------------- *)
Theorem C15_digits_as_declared :
  dedup_digits_grad = [6; -6; -6; -6; -6; -6] /\ dedup_digits_rf = [6; 0; 0; 0; 6; 6; 6] /\
  dedup_digits_adc = [0; -9; -6; 6; 6; 6].
Proof. exact digits_as_declared. Qed.
Print Assumptions C15_digits_as_declared.

Theorem C15_digits_are_declared :
  dedup_digits_shape = 9 /\ Forall declared_digit dedup_digits_grad /\
  Forall declared_digit dedup_digits_rf /\ Forall declared_digit dedup_digits_adc.
Proof. exact digits_are_declared. Qed.
Print Assumptions C15_digits_are_declared.

Theorem C15_time_columns_idempotent :
  Forall (fun dg => dg <= 0 -> forall d, round_spec dg (round_spec dg d) = round_spec dg d)
         (dedup_digits_grad ++ dedup_digits_rf ++ dedup_digits_adc).
Proof. exact time_columns_idempotent. Qed.
Print Assumptions C15_time_columns_idempotent.

(* every column of a rounded gradient / RF / ADC row is within the rounding its digit entry declares *)
Theorem C15_row_columns_within_rounding : forall digs k n dg d,
  nth_error digs n = Some dg -> nth_error k n = Some d ->
  exists r, nth_error (qc_row (round_row digs) k) n = Some r /\ col_err_ok dg (this d) (this r).
Proof. exact qc_row_nth. Qed.
Print Assumptions C15_row_columns_within_rounding.

(* the four row roundings built from the source tuples are idempotent, unconditionally *)
Theorem C15_rnd_keys_idem :
  (forall k, rnd_grad_key (rnd_grad_key k) = rnd_grad_key k) /\
  (forall k, rnd_rf_key (rnd_rf_key k) = rnd_rf_key k) /\
  (forall k, rnd_adc_key (rnd_adc_key k) = rnd_adc_key k) /\
  (forall k, rnd_shape_key (rnd_shape_key k) = rnd_shape_key k).
Proof. exact (conj rnd_grad_key_idem (conj rnd_rf_key_idem (conj rnd_adc_key_idem rnd_shape_key_idem))). Qed.
Print Assumptions C15_rnd_keys_idem.

(* hence EventLibrary.remove_duplicates with the digits of the source: the second pass is the identity
   (same library, identity mapping) for every library with unique ids *)
Theorem C15_dedup_idempotent_source : forall l : klib, NoDup (akeys (ldata l)) ->
  second_pass_identity rnd_shape_key l /\ second_pass_identity rnd_grad_key l /\
  second_pass_identity rnd_rf_key l /\ second_pass_identity rnd_adc_key l.
Proof. exact source_dedup_idempotent. Qed.
Print Assumptions C15_dedup_idempotent_source.

(* ---- duplicate removal vs. the printer (the link left open by C02) --------------------------------- *)
(* sig_range dig x : x == 0, or 10^(dig-12) <= |x| and |x| + 1e-12 <= 10^387.  On that range the rounding of
   duplicate removal (round_spec, with the code's 1e-12 offset) and the value printed by '{:g}' / '{:.9g}'
   (fmt_sig of Model/File.v) are the same function ... *)
Theorem C15_round_spec_eq_fmt_sig : forall dig x,
  1 <= dig -> sig_range dig x -> round_spec dig x = fmt_sig dig x.
Proof. exact round_spec_eq_fmt_sig. Qed.
Print Assumptions C15_round_spec_eq_fmt_sig.

(* ... so two values are identified by duplicate removal exactly when they print identically
   (6 significant digits: |x| >= 1e-6; 9 significant digits: |x| >= 1e-3; or 0) *)
Theorem C15_dedup_classes_refine_print_classes_sig : forall dig x y,
  1 <= dig -> sig_range dig x -> sig_range dig y ->
  (round_spec dig x = round_spec dig y <-> fmt_sig dig x = fmt_sig dig y).
Proof. exact dedup_classes_refine_print_classes_sig. Qed.
Print Assumptions C15_dedup_classes_refine_print_classes_sig.

(* below that range the implication is FALSE (the offset makes duplicate removal coarser than the printer):
   1e-7 - 4e-13 and 1e-7 (6 digits), 1e-4 - 4e-13 and 1e-4 (9 digits), 1e-20 and 2e-20 *)
Theorem C15_dedup_classes_refine_print_classes_sig_refuted :
  (exists x y, (Qabs x < pow10 (6 - 12))%Q /\ round_spec 6 x = round_spec 6 y /\ fmt_sig 6 x <> fmt_sig 6 y) /\
  (exists x y, (Qabs x < pow10 (9 - 12))%Q /\ round_spec 9 x = round_spec 9 y /\ fmt_sig 9 x <> fmt_sig 9 y) /\
  (exists x y, round_spec 6 x = round_spec 6 y /\ fmt_sig 6 x <> fmt_sig 6 y /\
               (Qabs x < log_offset)%Q /\ (Qabs y < log_offset)%Q).
Proof. exact dedup_classes_refine_print_classes_sig_refuted. Qed.
Print Assumptions C15_dedup_classes_refine_print_classes_sig_refuted.

(* ---- (d) the whole sequence: Sequence.remove_duplicates = dedup_core ---------------------------------- *)
(* StoreWf c   : ids of the shape/gradient/RF/ADC libraries are unique positive keys, no empty type tag stored.
   RefsExist c : every block entry is 0 or an existing id of its library; every gradient is typed 't' or 'g';
                 every 'g' gradient row and every RF row has its shape-id columns and they are 0 or existing
                 shape ids.
   KeepIds2/3  : the rounding of gradient / RF rows keeps integer shape-id columns (proved below for the
                 digit tuples of the source).
   TagsAgree c : rows that become equal by rounding carry the same type tag (for gradients this follows
                 from the row lengths, C15_tags_agree_intro; for RF rows it is necessary, see
                 C15_rf_use_merge_refuted).
   round_dblock: the decoded block with every gradient / RF / ADC row replaced by its rounded row (shape-id
                 columns renumbered by the shape mapping) and every shape payload by its rounded payload;
                 duration and extension chain untouched.
   For ANY four rounding functions: *)
Theorem C15_dedup_decodes_rounded : forall (r1 r2 r3 r4 : key -> key) c,
  StoreWf c -> RefsExist c -> KeepIds2 r2 -> KeepIds3 r3 -> TagsAgree r1 r2 r3 c ->
  exists c', dedup_core r1 r2 r3 r4 c = Some c' /\
    akeys (blocks c') = akeys (blocks c) /\ durs c' = durs c /\
    forall i b, decode c i = Some b -> decode c' i = Some (round_dblock r1 r2 r3 r4 c b).
Proof. exact dedup_decodes_rounded. Qed.
Print Assumptions C15_dedup_decodes_rounded.

(* afterwards every id referenced by a block exists in its library and every shape id referenced by an
   RF or gradient row exists in the shape library; the libraries are well formed *)
Theorem C15_dedup_refs_exist : forall (r1 r2 r3 r4 : key -> key) c,
  StoreWf c -> RefsExist c -> KeepIds2 r2 -> KeepIds3 r3 ->
  exists c', dedup_core r1 r2 r3 r4 c = Some c' /\ StoreWf c' /\ RefsExist c'.
Proof. exact dedup_refs_exist. Qed.
Print Assumptions C15_dedup_refs_exist.

(* the roundings built from the generated digit tuples keep the shape-id columns *)
Theorem C15_rnd_keeps_shape_ids : KeepIds2 rnd_grad_key /\ KeepIds3 rnd_rf_key.
Proof. exact (conj rnd_grad_keeps_shape_ids rnd_rf_keeps_shape_ids). Qed.
Print Assumptions C15_rnd_keeps_shape_ids.

(* trapezoid rows have 5 entries, arbitrary-gradient rows 6, the rounding keeps the length: gradients of
   different kind are never merged; RF rows: sufficient if all carry the same tag *)
Theorem C15_tags_agree_intro : forall (r1 r3 : key -> key) c,
  StoreWf c -> RefsExist c -> GradRowsShaped c -> RfTagsUniform c -> TagsAgree r1 rnd_grad_key r3 c.
Proof. exact tags_agree_intro. Qed.
Print Assumptions C15_tags_agree_intro.

(* with the digit tuples of the source *)
Theorem C15_seq_dedup_decodes_rounded : forall c,
  StoreWf c -> RefsExist c -> TagsAgree rnd_shape_key rnd_grad_key rnd_rf_key c ->
  exists c', seq_dedup c = Some c' /\ StoreWf c' /\ RefsExist c' /\
    akeys (blocks c') = akeys (blocks c) /\ durs c' = durs c /\
    forall i b, decode c i = Some b ->
      decode c' i = Some (round_dblock rnd_shape_key rnd_grad_key rnd_rf_key rnd_adc_key c b).
Proof. exact seq_dedup_decodes_rounded. Qed.
Print Assumptions C15_seq_dedup_decodes_rounded.

(* non-vacuity: a store built by add_block (two near-equal trapezoids, two arbitrary gradients whose
   shapes differ in the 11th digit, RF, ADC) satisfies every hypothesis, and remove_duplicates merges
   both pairs *)
Theorem C15_dedup_example :
  StoreWf ex_c /\ RefsExist ex_c /\ TagsAgree rnd_shape_key rnd_grad_key rnd_rf_key ex_c /\
  option_map blocks (seq_dedup ex_c) =
    Some [(1, [0; 0; 1; 0; 0; 0; 0]); (2, [0; 0; 1; 0; 0; 0; 0]); (3, [0; 0; 0; 2; 0; 0; 0]);
          (4, [0; 0; 0; 2; 0; 0; 0]); (5, [0; 1; 0; 0; 0; 1; 0])].
Proof. exact dedup_example. Qed.
Print Assumptions C15_dedup_example.

(* TagsAgree is necessary for RF rows (finding C15/rf-use-merged): two RF rows within the rounding but
   with different `use` are merged; block 2 decodes with use 'e' (101) instead of 'r' (114) *)
Theorem C15_rf_use_merge_refuted :
  exists c c' i, StoreWf c /\ RefsExist c /\ seq_dedup c = Some c' /\
    rf_use_of (decode c i) = Some (Some 114) /\ rf_use_of (decode c' i) = Some (Some 101).
Proof. exact rf_use_merge_refuted. Qed.
Print Assumptions C15_rf_use_merge_refuted.

(* no block fails to decode: with valid references, the mandatory shapes present (ShapesPresent: waveform of
   every arbitrary gradient, magnitude and phase of every RF row) and a duration and walkable extension chain
   for every block (BlocksComplete; neither is touched by remove_duplicates), decode never returns None ... *)
Theorem C15_refs_decode : forall c i,
  RefsExist c -> ShapesPresent c -> BlocksComplete c -> In i (akeys (blocks c)) -> decode c i <> None.
Proof. exact refs_decode. Qed.
Print Assumptions C15_refs_decode.

(* ... so every block decodes before AND after duplicate removal, and to the rounded block *)
Theorem C15_seq_dedup_every_block_decodes : forall c,
  StoreWf c -> RefsExist c -> ShapesPresent c -> BlocksComplete c ->
  TagsAgree rnd_shape_key rnd_grad_key rnd_rf_key c ->
  exists c', seq_dedup c = Some c' /\
    forall i, In i (akeys (blocks c')) ->
      exists b, decode c i = Some b /\
                decode c' i = Some (round_dblock rnd_shape_key rnd_grad_key rnd_rf_key rnd_adc_key c b).
Proof. exact seq_dedup_every_block_decodes. Qed.
Print Assumptions C15_seq_dedup_every_block_decodes.

Theorem C15_example_complete : ShapesPresent ex_c /\ BlocksComplete ex_c.
Proof. exact (conj ex_shapes ex_complete). Qed.
Print Assumptions C15_example_complete.

(* stores that come from read() have RF rows WITHOUT a type entry: remove_duplicates passes the empty tag for them,
   get_block decodes them as 'undefined' (tag_u) before and after; such a store satisfies every hypothesis above *)
Theorem C15_untyped_rf_example :
  StoreWf ex_untyped /\ RefsExist ex_untyped /\ TagsAgree rnd_shape_key rnd_grad_key rnd_rf_key ex_untyped /\
  lib_type (rf_l ex_untyped) 1 = None /\
  rf_use_of (decode ex_untyped 5) = Some (Some tag_u) /\
  (exists c', seq_dedup ex_untyped = Some c' /\ lib_type (rf_l c') 1 = None /\ rf_use_of (decode c' 5) = Some (Some tag_u)).
Proof. exact untyped_rf_example. Qed.
Print Assumptions C15_untyped_rf_example.

(* ---- (e) copy vs in place ---------------------------------------------------------------------------- *)
Theorem C15_dedup_copy_leaves_original : forall cache_on abs_fix r1 r2 r3 r4 s,
  fst (step cache_on abs_fix r1 r2 r3 r4 s DedupCopy) = s.
Proof. exact dedup_copy_leaves_original. Qed.
Print Assumptions C15_dedup_copy_leaves_original.

Theorem C15_dedup_in_place_eq_copy : forall cache_on abs_fix r1 r2 r3 r4 s c' i,
  snd (step cache_on abs_fix r1 r2 r3 r4 s DedupCopy) = OCore (Some c') ->
  fst (step cache_on abs_fix r1 r2 r3 r4 s DedupInPlace) = mkState c' [] /\
  snd (step cache_on abs_fix r1 r2 r3 r4 (fst (step cache_on abs_fix r1 r2 r3 r4 s DedupInPlace)) (GetBlock i))
  = OBlock (decode c' i).
Proof. exact dedup_in_place_eq_copy. Qed.
Print Assumptions C15_dedup_in_place_eq_copy.

(* ---- (f) KF-5: the RF delay column is rounded to 6 significant digits, not to 1 us ----------------- *)
(* two RF rows whose delays are 1.234567 s and 1.234568 s are merged, and the stored delay moves by
   more than 1 us; below 1 s the significant-digit rounding is at least as fine as 0.5 us *)
Theorem C15_rf_delay_merge_refuted :
  exists a b da db,
    nth_error a 4 = Some da /\ nth_error b 4 = Some db /\
    (this db - this da == 1 # 1000000)%Q /\
    rnd_rf_key a = rnd_rf_key b /\
    (exists r, nth_error (rnd_rf_key a) 4 = Some r /\ ((1 # 1000000) < Qabs (this r - this da))%Q).
Proof. exact rf_delay_merge_refuted. Qed.
Print Assumptions C15_rf_delay_merge_refuted.

Theorem C15_rf_delay_fine_below_1s : forall d,
  (Qabs d + log_offset <= 1)%Q -> (Qabs (round_spec 6 d - d) <= (1 # 2) * pow10 (-6))%Q.
Proof. exact rf_delay_fine_below_1s. Qed.
Print Assumptions C15_rf_delay_fine_below_1s.
