(* Props/C08.v — Exported gradient waveforms equal an event-by-event rendering.
   Only statements, each closed by [exact] of a lemma from Proofs/ExportProofs.v, with Print Assumptions. *)
From Coq Require Import ZArith QArith Qabs List Bool Arith Lia Lqa.
From PV Require Import Base.QUtil Base.PWL Gen.GenExport Model.Export Proofs.ExportProofs Proofs.ExportBlocks Proofs.ExportRange Proofs.ExportEvents Proofs.ExportArea.
Import ListNotations.
Open Scope Q_scope.

(* For EVERY list of pieces (any number of blocks, any corner counts) that is edge consistent
   (every piece has corner times at least eps apart; consecutive pieces either touch and agree in value
   there, or are more than eps apart and zero at the facing ends), the joined corner list built by
   Sequence.waveforms() — including the dropped duplicate boundary sample — evaluates, at every time
   inside a piece, to that piece, and to zero at every time that is inside no piece. *)
Theorem C08_waveform_is_rendering : forall ps : list pwl, EdgeConsistent ps ->
  (forall q, In q ps -> forall t, inside q t -> eval (join ps) t == eval q t) /\
  (forall t, (forall q, In q ps -> ~ inside q t) -> eval (join ps) t == 0).
Proof. exact join_is_rendering. Qed.
Print Assumptions C08_waveform_is_rendering.

(* ... and each piece is the straightforward rendering of its event (trapezoid formula / interpolated
   corner list, 0 outside), shifted by the block start. *)
Theorem C08_piece_is_rendering : forall raster start g p,
  piece raster start g = Some p -> grad_wf g -> forall t, eval p t == render raster g (t - start).
Proof. exact piece_is_rendering. Qed.
Print Assumptions C08_piece_is_rendering.

(* The code's own monotonicity check never fires on an edge-consistent sequence, and the exported
   times are strictly increasing. *)
Theorem C08_waveform_times_strict : forall ps : list pwl, EdgeConsistent ps ->
  mono_ok (times (join ps)) = true /\ sorted_strict (times (join ps)).
Proof. exact join_times_strict. Qed.
Print Assumptions C08_waveform_times_strict.

(* The same at the level of the model function [waveform] (the whole export of one channel) and of the
   blocks: whenever the pieces of the channel are edge consistent, the export succeeds (no monotonicity
   error), has strictly increasing times, equals render (g) (t - block start) at every time inside the
   piece of the gradient g of block i, and is zero at every time inside no piece. *)
Theorem C08_waveform_is_rendering_blocks : forall raster bs ch,
  EdgeConsistent (pieces raster 0 bs ch) ->
  (forall b g, In b bs -> bgrad b ch = Some g -> grad_wf g) ->
  exists w, waveform raster bs ch = WOk w /\
    sorted_strict (times w) /\
    (forall i g p, piece_of raster 0 bs ch p i g -> forall t, inside p t ->
       eval w t == render raster g (t - nth i (starts 0 bs) 0)) /\
    (forall t, (forall i g p, piece_of raster 0 bs ch p i g -> ~ inside p t) -> eval w t == 0).
Proof. exact waveform_is_rendering. Qed.
Print Assumptions C08_waveform_is_rendering_blocks.

(* block start times (curr_dur in every consumer) are the prefix sums of the stored block durations *)
Theorem C08_starts_are_prefix_sums : forall bs s i, (i < length bs)%nat ->
  nth i (starts s bs) 0 == s + sum_durs (firstn i bs).
Proof. exact starts_are_prefix_sums. Qed.
Print Assumptions C08_starts_are_prefix_sums.

(* The main statement on EVENTS (input level).  [Connected raster ch None bs] says, in relative times only:
   every gradient of the channel is timing valid inside its block ([gwf]: non-negative delay, ramps / corner
   spacings of at least eps, event ends inside the block) and consecutive gradients connect as add_block
   demands (C05): a gradient starts exactly where the previous one ended — previous one ends at its block end,
   this one has delay 0, no time in between — with the same value (last of block i == first of block i+1),
   or more than eps later with both values zero.  Then the export succeeds, its times increase strictly, it
   equals render(g)(t - block start) whenever the gradient g of block i is active at t, and it is zero when no
   gradient is active. *)
Theorem C08_waveform_is_rendering_events : forall raster bs ch, Connected raster ch None bs ->
  exists w, waveform raster bs ch = WOk w /\
    sorted_strict (times w) /\
    (forall i g t, active raster bs ch i g t -> eval w t == render raster g (t - nth i (starts 0 bs) 0)) /\
    (forall t, (forall i g, ~ active raster bs ch i g t) -> eval w t == 0).
Proof. exact waveform_is_rendering_events. Qed.
Print Assumptions C08_waveform_is_rendering_events.

Theorem C08_connected_edge_consistent : forall raster ch bs start,
  Connected raster ch None bs -> EdgeConsistent (pieces raster start bs ch).
Proof. exact connected_edge_consistent. Qed.
Print Assumptions C08_connected_edge_consistent.

(* get_gradients: the two zero samples teps and 2 teps before / after the waveform are invisible inside the
   waveform, and from teps outside on the padded function is zero (PPoly extrapolates the zero segments) *)
Theorem C08_padding_invisible : forall w t, w <> [] -> sorted_strict (times w) ->
  (inside w t -> eval (padded w) t == eval w t) /\
  (t <= tfirst w - teps \/ tlast w + teps <= t -> eval (padded w) t == 0).
Proof. intros w t Hn Hs. split; [apply eval_padded_inside|apply eval_padded_outside]; assumption. Qed.
Print Assumptions C08_padding_invisible.

(* time_range = [a, c]: for non-negative block durations the two searchsorted calls select exactly the
   blocks overlapping the closed range (block end >= a and block start <= c), and the restricted export is
   the export of exactly those blocks started at the true start time of the first of them — so by
   C08_waveform_is_rendering_blocks it is again the rendering of those blocks' events. *)
Theorem C08_time_range_selects_overlapping : forall bs a c i, durs_nonneg bs -> (i < length bs)%nat ->
  ((fst (range_blocks bs a c) <= i < snd (range_blocks bs a c))%nat <->
   (a <= sum_durs (firstn (S i) bs) /\ sum_durs (firstn i bs) <= c)).
Proof. exact range_selects_overlapping. Qed.
Print Assumptions C08_time_range_selects_overlapping.

Theorem C08_time_range_is_restriction : forall raster bs a c ch,
  (fst (range_blocks bs a c) < length bs)%nat ->
  waveform_range raster bs a c ch =
  waveform_from raster
    (Qred (sum_durs (firstn (S (fst (range_blocks bs a c))) bs)
           - b_dur (nth (fst (range_blocks bs a c)) bs (mkBlock 0 []))))
    (firstn (snd (range_blocks bs a c) - fst (range_blocks bs a c)) (skipn (fst (range_blocks bs a c)) bs)) ch.
Proof. exact waveform_range_is_export_of_selection. Qed.
Print Assumptions C08_time_range_is_restriction.

(* Non-vacuity at block level: a delayed trapezoid followed by a second block; value on the flat top *)
Example C08_waveform_example :
  exists w, waveform (1 # 100000)
              [mkBlock (1 # 1000) [Some (Trap 1000 (1 # 10000) (2 # 10000) (1 # 10000) (1 # 10000)); None; None];
               mkBlock (1 # 1000) [Some (Trap (-500) (1 # 10000) 0 (1 # 10000) 0); None; None]] 0 = WOk w
            /\ eval w (3 # 10000) == 1000 /\ eval w (11 # 10000) == -500 /\ eval w (8 # 10000) == 0.
Proof. eexists. split; [vm_compute; reflexivity|]. repeat split; vm_compute; reflexivity. Qed.

(* Non-vacuity: an edge-consistent list with a non-zero junction and a gap; the duplicate is dropped. *)
Example C08_join_example :
  join [[(0, 0); (1, 5)]; [(1, 5); (2, 0)]; [(3, 0); (4, 1)]] = [(0, 0); (1, 5); (2, 0); (3, 0); (4, 1)].
Proof. vm_compute. reflexivity. Qed.

Example C08_edge_consistent_example :
  EdgeConsistent [[(0, 0); (1, 5)]; [(1, 5); (2, 0)]; [(3, 0); (4, 1)]].
Proof.
  split.
  - repeat constructor; unfold eps; cbn; try lia; try (unfold Qle; cbn; lia).
  - cbn [chain]. split; [left|split; [right|exact I]]; unfold tlast, tfirst, vlast, vfirst, eps; cbn;
      repeat split; try reflexivity; try (unfold Qlt; cbn; lia).
Qed.

(* Non-vacuity of the input-level condition: an extended trapezoid ending at 5 at its block end, continued
   from 5 by the next block, then (after an empty block) a delayed trapezoid *)
Example C08_connected_example :
  Connected (1 # 100000) 0 None
    [mkBlock (2 # 10000) [Some (Corners 0 [0; 1 # 10000; 2 # 10000] [0; 3; 5] 0 5)];
     mkBlock (1 # 10000) [Some (Corners 0 [0; 1 # 10000] [5; 0] 5 0)];
     mkBlock (1 # 10000) [None];
     mkBlock (1 # 1000) [Some (Trap 7 (1 # 10000) (2 # 10000) (1 # 10000) (1 # 10000))]].
Proof.
  cbn [Connected bgrad nth b_g b_dur bump]. unfold gwf, link_in, g_begin_r, g_end_r, g_first_val, g_last_val.
  assert (E1 : is_arb (1 # 100000) [0; 1 # 10000; 2 # 10000] = false) by (vm_compute; reflexivity).
  assert (E2 : is_arb (1 # 100000) [0; 1 # 10000] = false) by (vm_compute; reflexivity).
  rewrite E1, E2. unfold spaced, qlast, eps. cbn [all_consec length hd last].
  repeat split; try lia; try (unfold Qle, Qlt; cbn; lia).
  - left. split; reflexivity.
  - right. repeat split; try reflexivity.
Qed.

(* Where the statement would be false without the hypothesis: pieces that touch at different values
   (what add_block must refuse, C05) are NOT rendered faithfully — the later event's first value is lost. *)
Theorem C08_inconsistent_edge_refuted :
  exists ps q t, In q ps /\ inside q t /\ ~ eval (join ps) t == eval q t.
Proof.
  exists [[(0, 0); (1, 5)]; [(1, 7); (2, 0)]], [(1, 7); (2, 0)], 1.
  split; [right; left; reflexivity|]. split; [split; unfold tfirst, tlast; cbn; unfold Qle; cbn; lia|].
  vm_compute. discriminate.
Qed.
Print Assumptions C08_inconsistent_edge_refuted.
