(* Props/C08.v — Exported gradient waveforms equal an event-by-event rendering. *)
From Coq Require Import ZArith QArith Qabs List Bool Arith.
From PV Require Import Base.QUtil Base.PWL Gen.GenExport Model.Export.
Import ListNotations.
Open Scope Q_scope.

Example C08_join_example :
  join [[(0, 0); (1, 5)]; [(1, 5); (2, 0)]; [(3, 0); (4, 1)]] = [(0, 0); (1, 5); (2, 0); (3, 0); (4, 1)].
Proof. vm_compute. reflexivity. Qed.
