(* Props/C08.v — Exported gradient waveforms equal an event-by-event rendering.
   Only statements, each closed by [exact] of a lemma from Proofs/ExportProofs.v, with Print Assumptions. *)
From Coq Require Import ZArith QArith Qabs List Bool Arith Lia Lqa.
From PV Require Import Base.QUtil Base.PWL Gen.GenExport Model.Export Proofs.ExportProofs.
Import ListNotations.
Open Scope Q_scope.

(* For EVERY list of pieces (any number of blocks, any corner counts) that is edge consistent
   (every piece has corner times at least eps apart; consecutive pieces either touch and agree in value
   there, or are more than eps apart and zero at the facing ends), the joined corner list built by
   Sequence.waveforms() — including the dropped duplicate boundary sample — evaluates, at every time
   inside a piece, to that piece, and to zero at every time that is inside no piece. *)
Theorem C08_waveform_is_rendering : forall ps : list pwl, EdgeConsistent ps ->
  (forall q, In q ps -> forall t, inside q t -> eval (join ps) t == eval q t) /\
  (forall t, (forall q, In q ps -> ~ inside q t) -> eval (join ps) t == 0).
Proof. exact join_is_rendering. Qed.
Print Assumptions C08_waveform_is_rendering.

(* ... and each piece is the straightforward rendering of its event (trapezoid formula / interpolated
   corner list, 0 outside), shifted by the block start. *)
Theorem C08_piece_is_rendering : forall raster start g p,
  piece raster start g = Some p -> grad_wf g -> forall t, eval p t == render raster g (t - start).
Proof. exact piece_is_rendering. Qed.
Print Assumptions C08_piece_is_rendering.

(* The code's own monotonicity check never fires on an edge-consistent sequence, and the exported
   times are strictly increasing. *)
Theorem C08_waveform_times_strict : forall ps : list pwl, EdgeConsistent ps ->
  mono_ok (times (join ps)) = true /\ sorted_strict (times (join ps)).
Proof. exact join_times_strict. Qed.
Print Assumptions C08_waveform_times_strict.

(* Non-vacuity: an edge-consistent list with a non-zero junction and a gap; the duplicate is dropped. *)
Example C08_join_example :
  join [[(0, 0); (1, 5)]; [(1, 5); (2, 0)]; [(3, 0); (4, 1)]] = [(0, 0); (1, 5); (2, 0); (3, 0); (4, 1)].
Proof. vm_compute. reflexivity. Qed.

Example C08_edge_consistent_example :
  EdgeConsistent [[(0, 0); (1, 5)]; [(1, 5); (2, 0)]; [(3, 0); (4, 1)]].
Proof.
  split.
  - repeat constructor; unfold eps; cbn; try lia; try (unfold Qle; cbn; lia).
  - cbn [chain]. split; [left|split; [right|exact I]]; unfold tlast, tfirst, vlast, vfirst, eps; cbn;
      repeat split; try reflexivity; try (unfold Qlt; cbn; lia).
Qed.

(* Where the statement would be false without the hypothesis: pieces that touch at different values
   (what add_block must refuse, C05) are NOT rendered faithfully — the later event's first value is lost. *)
Theorem C08_inconsistent_edge_refuted :
  exists ps q t, In q ps /\ inside q t /\ ~ eval (join ps) t == eval q t.
Proof.
  exists [[(0, 0); (1, 5)]; [(1, 7); (2, 0)]], [(1, 7); (2, 0)], 1.
  split; [right; left; reflexivity|]. split; [split; unfold tfirst, tlast; cbn; unfold Qle; cbn; lia|].
  vm_compute. discriminate.
Qed.
Print Assumptions C08_inconsistent_edge_refuted.
