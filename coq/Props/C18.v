(* Props/C18.v — scale, split and align change only what they promise.
   Only statements, each closed by [exact] of a lemma of Proofs/GradOpsProofs.v, with Print
   Assumptions.  [to_pwl r g] is the rendering of a gradient event (corner list in block time) and
   [eval] the piecewise-linear function of Base/PWL.v; all constants (raster rounding, t_eps, the 6
   decimals, the order of the alignment options) come from Gen/GenGradOps.v.
   mod_grad_axis / flip_grad_axis are modelled on the store of Model/Seq.v (Model/ModAxis.v, last section).
   "Arguments are not modified" is checked on the implementation by harness/props/C18.py (object
   identity and aliasing are not expressible in the model). *)
From Coq Require Import ZArith QArith Qabs List Bool.
From PV Require Import Base.QUtil Base.Round Base.PWL Gen.GenGradOps Model.GradOps Proofs.GradOpsProofs
  Proofs.SplitOffRaster.
From Coq Require Import Qcanon.
From RecordUpdate Require Import RecordSet.
From PV Require Import Base.AList Model.EventLib Model.Seq Model.ModAxis Proofs.ModAxisProofs.
Import RecordSetNotations.
Import ListNotations.
Open Scope Q_scope.

(* ---- scale_grad ------------------------------------------------------------------------------ *)
(* the rendered waveform is multiplied by the factor at EVERY time, for every kind of gradient *)
Theorem C18_scale_eval : forall r g k t, eval (to_pwl r (scale_grad g k)) t == k * eval (to_pwl r g) t.
Proof. exact scale_eval. Qed.
Print Assumptions C18_scale_eval.

(* amplitude/area/flat_area (trap) resp. waveform/first/last/area (grad) are multiplied, every other
   field is equal, the id is dropped *)
Theorem C18_scale_fields : forall g k, scale_fields_spec g (scale_grad g k) k.
Proof. exact scale_fields. Qed.
Print Assumptions C18_scale_fields.

(* ---- split_gradient -------------------------------------------------------------------------- *)
(* the three parts add up to the (raster-rounded) trapezoid at every time except the two junctions,
   where both neighbouring parts carry the plateau value; the argument becomes the rounded trapezoid.
   Hypothesis: the rounding leaves the total duration unchanged (true for on-raster input). *)
Theorem C18_split_sum : forall s t up flat down t',
  let r := raster s in
  split_gradient s (GTrap t) = (OK (up, flat, down), t') ->
  let tr := round_trap r t in
  0 < t_rise tr -> 0 < t_flat tr -> 0 < t_fall tr ->
  t_delay t + t_rise t + t_flat t + t_fall t == t_delay tr + t_rise tr + t_flat tr + t_fall tr ->
  let j1 := t_delay tr + t_rise tr in
  let j2 := j1 + t_flat tr in
  t' = GTrap tr /\
  (forall x, ~ x == j1 -> ~ x == j2 ->
     eval (to_pwl r (GExt up)) x + eval (to_pwl r (GExt flat)) x + eval (to_pwl r (GExt down)) x
     == eval (to_pwl r (GTrap tr)) x) /\
  (eval (to_pwl r (GExt up)) j1 == t_amp t /\ eval (to_pwl r (GExt flat)) j1 == t_amp t /\
   eval (to_pwl r (GExt down)) j1 == 0 /\ eval (to_pwl r (GTrap tr)) j1 == t_amp t) /\
  (eval (to_pwl r (GExt up)) j2 == 0 /\ eval (to_pwl r (GExt flat)) j2 == t_amp t /\
   eval (to_pwl r (GExt down)) j2 == t_amp t /\ eval (to_pwl r (GTrap tr)) j2 == t_amp t).
Proof. exact split3_sum. Qed.
Print Assumptions C18_split_sum.

(* off-raster input (the documented rounding then really changes the argument): the ramp-down part is
   placed with the UNROUNDED total duration (split_gradient.py:50,79), so away from the junctions the
   three parts miss the raster-rounded trapezoid by exactly the displacement of the ramp-down by
   d = total - rounded total:   ramp(x - j2 - d) - ramp(x - j2),  ramp = [(0, amp); (fall', 0)] *)
Theorem C18_split_discrepancy : forall s t up flat down t',
  let r := raster s in
  split_gradient s (GTrap t) = (OK (up, flat, down), t') ->
  let tr := round_trap r t in
  0 < t_rise tr -> 0 < t_flat tr -> 0 < t_fall tr ->
  let j1 := t_delay tr + t_rise tr in
  let j2 := j1 + t_flat tr in
  let ramp := eval [(0, t_amp t); (t_fall tr, 0)] in
  let d := split_total_shift r t in
  forall x, ~ x == j1 -> ~ x == j2 ->
    eval (to_pwl r (GExt up)) x + eval (to_pwl r (GExt flat)) x + eval (to_pwl r (GExt down)) x
    - eval (to_pwl r (GTrap tr)) x == ramp (x - j2 - d) - ramp (x - j2).
Proof. exact split3_discrepancy. Qed.
Print Assumptions C18_split_discrepancy.

(* the parts add up to the rounded trapezoid (at all non-junction times) IF AND ONLY IF the rounding
   leaves the total duration unchanged (amplitude not zero) *)
Theorem C18_split_adds_up_iff : forall s t up flat down t',
  let r := raster s in
  split_gradient s (GTrap t) = (OK (up, flat, down), t') ->
  let tr := round_trap r t in
  0 < t_rise tr -> 0 < t_flat tr -> 0 < t_fall tr -> ~ t_amp t == 0 ->
  (split_total_shift r t == 0 <->
   forall x, ~ x == t_delay tr + t_rise tr -> ~ x == t_delay tr + t_rise tr + t_flat tr ->
     eval (to_pwl r (GExt up)) x + eval (to_pwl r (GExt flat)) x + eval (to_pwl r (GExt down)) x
     == eval (to_pwl r (GTrap tr)) x).
Proof.
  intros s t up flat down t' r H tr Hr Hf Hl HA. split.
  - intro Hd. exact (split3_adds_up_if s t up flat down t' H Hr Hf Hl Hd).
  - intro Hall. destruct (Qeq_dec (split_total_shift r t) 0) as [E|E]; [exact E|exfalso].
    destruct (split3_adds_up_only_if s t up flat down t' H Hr Hf Hl HA E) as (x & N1 & N2 & N3).
    apply N3. apply Hall; assumption.
Qed.
Print Assumptions C18_split_adds_up_iff.

(* witness: rise 23 us, flat 104 us, fall 23 us, delay 0 on a 10 us raster: accepted, rounded to
   20/100/20 us, total 150 us vs rounded total 140 us: the ramp-down starts 10 us late *)
Theorem C18_split_off_raster_refuted : exists s t up flat down t',
  split_gradient s (GTrap t) = (OK (up, flat, down), t') /\
  Qeq_bool (split_total_shift (raster s) t) (1 # 100000) = true /\
  Qeq_bool (e_delay down) (13 # 100000) = true.
Proof.
  exists (mkSys (1 # 100000) 2000000 20000000000).
  exists (mkTrap 0 100000 (23 # 1000000) (104 # 1000000) (23 # 1000000) 0 0 0 None).
  eexists. eexists. eexists. eexists. split; [vm_compute; reflexivity|]. split; vm_compute; reflexivity.
Qed.
Print Assumptions C18_split_off_raster_refuted.

(* on-raster values are fixed points of the raster rounding *)
Theorem C18_raster_rounding_id : forall r x k, 0 < r -> x == inject_Z k * r -> to_raster r x == x.
Proof. exact to_raster_id. Qed.
Print Assumptions C18_raster_rounding_id.

(* a triangle (flat_time = 0) is rejected: known finding C18/split-triangle *)
Theorem C18_split_triangle_refuted : exists s t,
  0 < t_rise t /\ t_flat t == 0 /\ 0 < t_fall t /\ fst (split_gradient s (GTrap t)) = Err EAllZero.
Proof.
  exists (mkSys (1 # 100000) 2000000 20000000000),
         (mkTrap 0 100000 (1 # 10000) 0 (1 # 10000) 0 10 0 None).
  split; [reflexivity|split; [reflexivity|split; [reflexivity|vm_compute; reflexivity]]].
Qed.
Print Assumptions C18_split_triangle_refuted.

(* ---- split_gradient_at ----------------------------------------------------------------------- *)
(* trapezoids and triangles, any delay, cut inside the gradient or inside its delay: the two parts
   add up to the input away from the cut, both carry the input's value at the cut, the first part
   ends and the second part starts exactly at the requested (raster-rounded) time.
   Hypotheses: raster is a whole number of microseconds (the round(.,6) work-arounds are then the
   identity), positive ramps, the cut is later than t_eps and not exactly at the start of the
   gradient (the code raises there), every corner is either at the cut or more than t_eps away. *)
Theorem C18_split_at_trap : forall s t tp g1 g2,
  let r := raster s in
  let t' := round_trap r t in
  let c := split_time_point r tp in
  us r -> 0 < t_rise t' -> 0 <= t_flat t' -> 0 < t_fall t' -> 0 <= t_delay t' ->
  split_t_eps < c -> ~ c == t_delay t' -> no_near c (to_pwl r (GTrap t')) ->
  split_gradient_at s (GTrap t) tp = OK (STwo g1 g2) ->
  (forall x, ~ x == c ->
     eval (to_pwl r (GExt g1)) x + eval (to_pwl r (GExt g2)) x == eval (to_pwl r (GTrap t')) x) /\
  (forall x, x == c -> eval (to_pwl r (GExt g1)) x == eval (to_pwl r (GTrap t')) x /\
                       eval (to_pwl r (GExt g2)) x == eval (to_pwl r (GTrap t')) x) /\
  e_delay g1 + e_sdur g1 == c /\ e_delay g2 + hd 0 (e_tt g2) == c.
Proof. exact split_at_trap_sum. Qed.
Print Assumptions C18_split_at_trap.

(* extended trapezoids; additionally the C05 rule: a non-zero first value implies zero delay *)
Theorem C18_split_at_ext : forall s e tp g1 g2,
  let r := raster s in
  let c := split_time_point r tp in
  let corners := combine (e_tt e) (e_wf e) in
  arb_test r (e_tt e) = false -> is_arb r (e_tt e) = false ->
  corners <> [] -> sorted_strict (times corners) -> tfirst corners == 0 ->
  us r -> us (e_delay e) -> Forall us (times corners) -> 0 <= e_delay e ->
  split_t_eps < c -> ~ c == e_delay e ->
  (vfirst corners == 0 \/ e_delay e == 0) ->
  no_near c (to_pwl r (GExt e)) ->
  split_gradient_at s (GExt e) tp = OK (STwo g1 g2) ->
  (forall x, ~ x == c ->
     eval (to_pwl r (GExt g1)) x + eval (to_pwl r (GExt g2)) x == eval (to_pwl r (GExt e)) x) /\
  (forall x, x == c -> eval (to_pwl r (GExt g1)) x == eval (to_pwl r (GExt e)) x /\
                       eval (to_pwl r (GExt g2)) x == eval (to_pwl r (GExt e)) x) /\
  e_delay g1 + e_sdur g1 == c /\ e_delay g2 + hd 0 (e_tt g2) == c.
Proof. exact split_at_ext_sum. Qed.
Print Assumptions C18_split_at_ext.

(* the mask-based cut of the code is the restriction pair of Base/PWL.v *)
Theorem C18_cut_sum : forall c p t,
  sorted_strict (times p) -> tfirst p <= c -> c < tlast p -> no_near c p ->
  (~ t == c -> eval (before_cut c p ++ [(c, np_interp c p)]) t
               + eval ((c, np_interp c p) :: after_cut c p) t == eval p t) /\
  (t == c -> eval (before_cut c p ++ [(c, np_interp c p)]) t == eval p t /\
             eval ((c, np_interp c p) :: after_cut c p) t == eval p t).
Proof. exact cut_sum. Qed.
Print Assumptions C18_cut_sum.

(* non-vacuity: trapezoid with delay 50 us cut at 150 us (FIX-7), at 20 us inside the delay (FIX-8) *)
Example C18_split_at_example :
  let s := mkSys (1 # 100000) 2000000 20000000000 in
  let t := mkTrap 0 100000 (2 # 100000) (1 # 1000) (2 # 100000) (5 # 100000) 102 100 None in
  (exists g1 g2, split_gradient_at s (GTrap t) (15 # 100000) = OK (STwo g1 g2) /\
                 Qeq_bool (e_delay g2) (15 # 100000) = true /\ Qeq_bool (e_delay g1) (5 # 100000) = true) /\
  (exists g1 g2, split_gradient_at s (GTrap t) (2 # 100000) = OK (STwo g1 g2) /\
                 Qeq_bool (e_delay g2) (2 # 100000) = true /\ Qeq_bool (e_delay g1) 0 = true) /\
  split_gradient_at s (GTrap t) (109 # 100000) = Err EAfterEnd.
Proof.
  cbv zeta. split; [|split].
  - eexists. eexists. split; [vm_compute; reflexivity|]. split; vm_compute; reflexivity.
  - eexists. eexists. split; [vm_compute; reflexivity|]. split; vm_compute; reflexivity.
  - vm_compute. reflexivity.
Qed.

(* arbitrary gradients: the arbitrary branch is unreachable for more than one sample and the
   extended-trapezoid path rejects the half-raster times: known finding KF-9 *)
Theorem C18_split_at_arbitrary_refuted : exists s e tp,
  is_arb (raster s) (e_tt e) = true /\ split_gradient_at s (GExt e) tp = Err ERaster.
Proof.
  exists (mkSys (1 # 100000) 2000000 20000000000),
         (mkEg 2 0 [5 # 1000000; 15 # 1000000; 25 # 1000000] [0; 1000; 0] (3 # 100000) 0 0 None None),
         (2 # 100000).
  split; vm_compute; reflexivity.
Qed.
Print Assumptions C18_split_at_arbitrary_refuted.

(* ---- mod_grad_axis / flip_grad_axis on the sequence store ------------------------------------------ *)
(* mod_grad_axis_decodes_scaled: after a successful call EVERY block decodes to the decode of the input
   with the gradient on the chosen channel rescaled (same type, same shapes, row rescaled); the other
   channels, RF, ADC, extensions and the duration are those of the input; a block that did not decode
   still does not *)
Theorem C18_mod_grad_axis_decodes_scaled : forall c ch m c',
  mod_grad_axis c ch m = (c', None) ->
  forall i, decode c' i = option_map (scale_dblock ch m) (decode c i).
Proof. exact mod_grad_axis_decodes_scaled. Qed.
Print Assumptions C18_mod_grad_axis_decodes_scaled.

(* the rescaled row: amplitude (column 0) times m; for 'g' rows also first and last (columns 4, 5) *)
Theorem C18_mod_grad_axis_row : forall ty m data j, (j < length data)%nat ->
  knth (scale_row ty m data) j =
  if (Nat.eqb j 0 || ((ty =? tag_g)%Z && (Nat.eqb j 4 || Nat.eqb j 5)))%bool then (knth data j * m)%Qc else knth data j.
Proof. exact scale_row_spec. Qed.
Print Assumptions C18_mod_grad_axis_row.

Theorem C18_flip_grad_axis_decodes_negated : forall c ch c',
  flip_grad_axis c ch = (c', None) ->
  forall i, decode c' i = option_map (scale_dblock ch (Q2Qc (-1))) (decode c i).
Proof. intros c ch c' H. exact (mod_grad_axis_decodes_scaled c ch (Q2Qc (-1)) c' H). Qed.
Print Assumptions C18_flip_grad_axis_decodes_negated.

(* only the gradient library changes; a refused call changes nothing *)
Theorem C18_mod_grad_axis_frame : forall c ch m c' e, mod_grad_axis c ch m = (c', e) ->
  exists gl', c' = c <| grad_l := gl' |> /\
    (e = Some MAAxis \/ e = Some MAEmpty \/ e = Some MAShared -> gl' = grad_l c).
Proof. exact mod_grad_axis_frame. Qed.
Print Assumptions C18_mod_grad_axis_frame.

(* an id used on the chosen channel and on another channel: RuntimeError, nothing changed *)
Theorem C18_mod_grad_axis_refuses_shared : forall c ch m o b1 b2 id,
  (ch < 3)%nat -> (o < 3)%nat -> o <> ch -> id <> 0%Z ->
  In b1 (blocks c) -> In b2 (blocks c) ->
  nth (2 + ch) (snd b1) 0%Z = id -> nth (2 + o) (snd b2) 0%Z = id ->
  mod_grad_axis c ch m = (c, Some MAShared).
Proof. exact mod_grad_axis_refuses_shared. Qed.
Print Assumptions C18_mod_grad_axis_refuses_shared.

(* key collisions: decode does not read the key map / next id of the gradient library, so the entries
   lost or overwritten there when a rescaled row equals another row cannot change any block *)
Theorem C18_decode_ignores_keymap : forall c km nx i,
  decode (c <| grad_l := mkLib (ldata (grad_l c)) (ltype (grad_l c)) km nx |>) i = decode c i.
Proof. exact decode_keymap_indep. Qed.
Print Assumptions C18_decode_ignores_keymap.

(* on the object (with or without block cache, whatever the cache held before): get_block after a
   successful call returns the rescaled decode, because the call empties the cache *)
Theorem C18_mod_grad_axis_get_block : forall cache_on s ch m s' i,
  mod_grad_axis_state s ch m = (s', None) ->
  snd (do_get cache_on s' i) = option_map (scale_dblock ch m) (decode (st_core s) i).
Proof. exact mod_grad_axis_state_get. Qed.
Print Assumptions C18_mod_grad_axis_get_block.

(* non-vacuity with a key collision: x gradients +A (id 1) and -A (id 2); after the flip the key map has
   lost an entry (2 rows, 1 key), yet both blocks decode to the negated rows *)
Example C18_mod_grad_axis_collision_example :
  let A := zq 1000 in let nA := zq (-1000) in let t := zq 1 in
  let row a := [a; t; t; t; qc0] in
  let gl := mkLib [(1, row A); (2, row nA)]%Z [(1, tag_t); (2, tag_t)]%Z [(row A, 1); (row nA, 2)]%Z 3%Z in
  let c := (core_init t t t t) <| grad_l := gl |>
             <| blocks := [(1, [0; 0; 1; 0; 0; 0; 0]); (2, [0; 0; 2; 0; 0; 0; 0])]%Z |>
             <| durs := [(1, t); (2, t)]%Z |> in
  match mod_grad_axis c 0 (Q2Qc (-1)) with
  | (c', None) =>
      (length (lkeymap (grad_l c')) =? 1)%nat && (length (ldata (grad_l c')) =? 2)%nat &&
      match decode c' 1, decode c' 2 with
      | Some b1, Some b2 =>
          match d_g b1, d_g b2 with
          | [Some g1; None; None], [Some g2; None; None] =>
              key_eqb (dg_data g1) (row nA) && key_eqb (dg_data g2) (row A)
          | _, _ => false
          end
      | _, _ => false
      end
  | _ => false
  end = true.
Proof. vm_compute. reflexivity. Qed.

(* ---- align ------------------------------------------------------------------------------------ *)
(* the common duration is the longest delay+length (and at least 0) *)
Theorem C18_common_duration : forall l : list aev,
  0 <= calc_duration l /\ (forall e, In e l -> ev_duration e <= calc_duration l) /\
  (calc_duration l = 0 \/ exists e, In e l /\ calc_duration l = ev_duration e).
Proof. exact calc_duration_is_max. Qed.
Print Assumptions C18_common_duration.

(* align_delays + align_only_delays + align_right_nonneg: on success the output has the same events
   in the same order, the delays are 0 / (D - len)/2 / D - len, length and every other field are
   untouched EXCEPT the library id, which the copies drop (they are new events: with the id of the input,
   add_block would store the input event with its old delay), and a right-aligned delay is not negative.  Hypothesis: no event ends before t = 0
   (calc_duration of a single event clamps at 0 otherwise). *)
Theorem C18_align_spec : forall l out,
  Forall (fun se => 0 <= ev_duration (snd se)) l ->
  align l = OK out ->
  let D := calc_duration (map snd l) in
  Forall2 (fun se e' => a_delay e' == align_target D (fst se) (snd se) /\
                        a_len e' = a_len (snd se) /\ a_tag e' = a_tag (snd se) /\ a_id e' = None /\
                        (fst se = align_right -> 0 <= a_delay e')) l out.
Proof. exact align_spec. Qed.
Print Assumptions C18_align_spec.

(* with valid specs and non-negative delays and lengths align never raises *)
Theorem C18_align_total : forall l,
  Forall (fun se => (fst se <= 2)%nat /\ 0 <= a_delay (snd se) /\ 0 <= a_len (snd se)) l ->
  exists out, align l = OK out.
Proof. exact align_total. Qed.
Print Assumptions C18_align_total.

(* the clamp makes the formula fail for an event that ends before t = 0 *)
Theorem C18_align_negative_total_refuted : exists l out,
  align l = OK out /\
  ~ Forall2 (fun se e' => a_delay e' == align_target (calc_duration (map snd l)) (fst se) (snd se)) l out.
Proof.
  exists [(1%nat, mkAev 1 (-3) 0 None)], [mkAev 1 (-(3 # 2)) 0 None]. split; [vm_compute; reflexivity|].
  intro H. inversion H; subst. vm_compute in H3. discriminate.
Qed.
Print Assumptions C18_align_negative_total_refuted.

(* FIX-10 example: center alignment of a delayed short trapezoid (delay 100 us, length 400 us) with a
   long one (1200 us): the new delays are (1200-400)/2 = 400 us and 0 *)
Example C18_align_center_example :
  match align [(1%nat, mkAev (4 # 10000) (1 # 10000) 0 (Some 7%Z)); (1%nat, mkAev (12 # 10000) 0 1 None)] with
  | OK [a; b] => Qeq_bool (a_delay a) (4 # 10000) && Qeq_bool (a_delay b) 0 &&
                 match a_id a with None => true | Some _ => false end
  | _ => false
  end = true.
Proof. vm_compute. reflexivity. Qed.
