(* Props/C18.v — scale, split and align change only what they promise (statements only). *)
From Coq Require Import ZArith QArith Qabs List Bool.
From PV Require Import Base.QUtil Base.PWL Gen.GenGradOps Model.GradOps.
Import ListNotations.
Open Scope Q_scope.

Theorem C18_scale_keeps_channel : forall g k, g_ch (scale_grad g k) = g_ch g.
Proof. intros [t|e] k; reflexivity. Qed.
Print Assumptions C18_scale_keeps_channel.
