(* Props/C18.v — scale, split and align change only what they promise.
   Only statements, each closed by [exact] of a lemma of Proofs/GradOpsProofs.v, with Print
   Assumptions.  [to_pwl r g] is the rendering of a gradient event (corner list in block time) and
   [eval] the piecewise-linear function of Base/PWL.v; all constants (raster rounding, t_eps, the 6
   decimals, the order of the alignment options) come from Gen/GenGradOps.v.
   mod_grad_axis / flip_grad_axis and "arguments are not modified" are checked on the implementation
   by harness/props/C18.py (object identity and aliasing are not expressible in the model). *)
From Coq Require Import ZArith QArith Qabs List Bool.
From PV Require Import Base.QUtil Base.Round Base.PWL Gen.GenGradOps Model.GradOps Proofs.GradOpsProofs
  Proofs.SplitOffRaster.
Import ListNotations.
Open Scope Q_scope.

(* ---- scale_grad ------------------------------------------------------------------------------ *)
(* the rendered waveform is multiplied by the factor at EVERY time, for every kind of gradient *)
Theorem C18_scale_eval : forall r g k t, eval (to_pwl r (scale_grad g k)) t == k * eval (to_pwl r g) t.
Proof. exact scale_eval. Qed.
Print Assumptions C18_scale_eval.

(* amplitude/area/flat_area (trap) resp. waveform/first/last/area (grad) are multiplied, every other
   field is equal, the id is dropped *)
Theorem C18_scale_fields : forall g k, scale_fields_spec g (scale_grad g k) k.
Proof. exact scale_fields. Qed.
Print Assumptions C18_scale_fields.

(* ---- split_gradient -------------------------------------------------------------------------- *)
(* the three parts add up to the (raster-rounded) trapezoid at every time except the two junctions,
   where both neighbouring parts carry the plateau value; the argument becomes the rounded trapezoid.
   Hypothesis: the rounding leaves the total duration unchanged (true for on-raster input). *)
Theorem C18_split_sum : forall s t up flat down t',
  let r := raster s in
  split_gradient s (GTrap t) = (OK (up, flat, down), t') ->
  let tr := round_trap r t in
  0 < t_rise tr -> 0 < t_flat tr -> 0 < t_fall tr ->
  t_delay t + t_rise t + t_flat t + t_fall t == t_delay tr + t_rise tr + t_flat tr + t_fall tr ->
  let j1 := t_delay tr + t_rise tr in
  let j2 := j1 + t_flat tr in
  t' = GTrap tr /\
  (forall x, ~ x == j1 -> ~ x == j2 ->
     eval (to_pwl r (GExt up)) x + eval (to_pwl r (GExt flat)) x + eval (to_pwl r (GExt down)) x
     == eval (to_pwl r (GTrap tr)) x) /\
  (eval (to_pwl r (GExt up)) j1 == t_amp t /\ eval (to_pwl r (GExt flat)) j1 == t_amp t /\
   eval (to_pwl r (GExt down)) j1 == 0 /\ eval (to_pwl r (GTrap tr)) j1 == t_amp t) /\
  (eval (to_pwl r (GExt up)) j2 == 0 /\ eval (to_pwl r (GExt flat)) j2 == t_amp t /\
   eval (to_pwl r (GExt down)) j2 == t_amp t /\ eval (to_pwl r (GTrap tr)) j2 == t_amp t).
Proof. exact split3_sum. Qed.
Print Assumptions C18_split_sum.

(* off-raster input (the documented rounding then really changes the argument): the ramp-down part is
   placed with the UNROUNDED total duration (split_gradient.py:50,79), so away from the junctions the
   three parts miss the raster-rounded trapezoid by exactly the displacement of the ramp-down by
   d = total - rounded total:   ramp(x - j2 - d) - ramp(x - j2),  ramp = [(0, amp); (fall', 0)] *)
Theorem C18_split_discrepancy : forall s t up flat down t',
  let r := raster s in
  split_gradient s (GTrap t) = (OK (up, flat, down), t') ->
  let tr := round_trap r t in
  0 < t_rise tr -> 0 < t_flat tr -> 0 < t_fall tr ->
  let j1 := t_delay tr + t_rise tr in
  let j2 := j1 + t_flat tr in
  let ramp := eval [(0, t_amp t); (t_fall tr, 0)] in
  let d := split_total_shift r t in
  forall x, ~ x == j1 -> ~ x == j2 ->
    eval (to_pwl r (GExt up)) x + eval (to_pwl r (GExt flat)) x + eval (to_pwl r (GExt down)) x
    - eval (to_pwl r (GTrap tr)) x == ramp (x - j2 - d) - ramp (x - j2).
Proof. exact split3_discrepancy. Qed.
Print Assumptions C18_split_discrepancy.

(* the parts add up to the rounded trapezoid (at all non-junction times) IF AND ONLY IF the rounding
   leaves the total duration unchanged (amplitude not zero) *)
Theorem C18_split_adds_up_iff : forall s t up flat down t',
  let r := raster s in
  split_gradient s (GTrap t) = (OK (up, flat, down), t') ->
  let tr := round_trap r t in
  0 < t_rise tr -> 0 < t_flat tr -> 0 < t_fall tr -> ~ t_amp t == 0 ->
  (split_total_shift r t == 0 <->
   forall x, ~ x == t_delay tr + t_rise tr -> ~ x == t_delay tr + t_rise tr + t_flat tr ->
     eval (to_pwl r (GExt up)) x + eval (to_pwl r (GExt flat)) x + eval (to_pwl r (GExt down)) x
     == eval (to_pwl r (GTrap tr)) x).
Proof.
  intros s t up flat down t' r H tr Hr Hf Hl HA. split.
  - intro Hd. exact (split3_adds_up_if s t up flat down t' H Hr Hf Hl Hd).
  - intro Hall. destruct (Qeq_dec (split_total_shift r t) 0) as [E|E]; [exact E|exfalso].
    destruct (split3_adds_up_only_if s t up flat down t' H Hr Hf Hl HA E) as (x & N1 & N2 & N3).
    apply N3. apply Hall; assumption.
Qed.
Print Assumptions C18_split_adds_up_iff.

(* witness: rise 23 us, flat 104 us, fall 23 us, delay 0 on a 10 us raster: accepted, rounded to
   20/100/20 us, total 150 us vs rounded total 140 us: the ramp-down starts 10 us late *)
Theorem C18_split_off_raster_refuted : exists s t up flat down t',
  split_gradient s (GTrap t) = (OK (up, flat, down), t') /\
  Qeq_bool (split_total_shift (raster s) t) (1 # 100000) = true /\
  Qeq_bool (e_delay down) (13 # 100000) = true.
Proof.
  exists (mkSys (1 # 100000) 2000000 20000000000).
  exists (mkTrap 0 100000 (23 # 1000000) (104 # 1000000) (23 # 1000000) 0 0 0 None).
  eexists. eexists. eexists. eexists. split; [vm_compute; reflexivity|]. split; vm_compute; reflexivity.
Qed.
Print Assumptions C18_split_off_raster_refuted.

(* on-raster values are fixed points of the raster rounding *)
Theorem C18_raster_rounding_id : forall r x k, 0 < r -> x == inject_Z k * r -> to_raster r x == x.
Proof. exact to_raster_id. Qed.
Print Assumptions C18_raster_rounding_id.

(* a triangle (flat_time = 0) is rejected: known finding C18/split-triangle *)
Theorem C18_split_triangle_refuted : exists s t,
  0 < t_rise t /\ t_flat t == 0 /\ 0 < t_fall t /\ fst (split_gradient s (GTrap t)) = Err EAllZero.
Proof.
  exists (mkSys (1 # 100000) 2000000 20000000000),
         (mkTrap 0 100000 (1 # 10000) 0 (1 # 10000) 0 10 0 None).
  split; [reflexivity|split; [reflexivity|split; [reflexivity|vm_compute; reflexivity]]].
Qed.
Print Assumptions C18_split_triangle_refuted.

(* ---- split_gradient_at ----------------------------------------------------------------------- *)
(* trapezoids and triangles, any delay, cut inside the gradient or inside its delay: the two parts
   add up to the input away from the cut, both carry the input's value at the cut, the first part
   ends and the second part starts exactly at the requested (raster-rounded) time.
   Hypotheses: raster is a whole number of microseconds (the round(.,6) work-arounds are then the
   identity), positive ramps, the cut is later than t_eps and not exactly at the start of the
   gradient (the code raises there), every corner is either at the cut or more than t_eps away. *)
Theorem C18_split_at_trap : forall s t tp g1 g2,
  let r := raster s in
  let t' := round_trap r t in
  let c := split_time_point r tp in
  us r -> 0 < t_rise t' -> 0 <= t_flat t' -> 0 < t_fall t' -> 0 <= t_delay t' ->
  split_t_eps < c -> ~ c == t_delay t' -> no_near c (to_pwl r (GTrap t')) ->
  split_gradient_at s (GTrap t) tp = OK (STwo g1 g2) ->
  (forall x, ~ x == c ->
     eval (to_pwl r (GExt g1)) x + eval (to_pwl r (GExt g2)) x == eval (to_pwl r (GTrap t')) x) /\
  (forall x, x == c -> eval (to_pwl r (GExt g1)) x == eval (to_pwl r (GTrap t')) x /\
                       eval (to_pwl r (GExt g2)) x == eval (to_pwl r (GTrap t')) x) /\
  e_delay g1 + e_sdur g1 == c /\ e_delay g2 + hd 0 (e_tt g2) == c.
Proof. exact split_at_trap_sum. Qed.
Print Assumptions C18_split_at_trap.

(* extended trapezoids; additionally the C05 rule: a non-zero first value implies zero delay *)
Theorem C18_split_at_ext : forall s e tp g1 g2,
  let r := raster s in
  let c := split_time_point r tp in
  let corners := combine (e_tt e) (e_wf e) in
  arb_test r (e_tt e) = false -> is_arb r (e_tt e) = false ->
  corners <> [] -> sorted_strict (times corners) -> tfirst corners == 0 ->
  us r -> us (e_delay e) -> Forall us (times corners) -> 0 <= e_delay e ->
  split_t_eps < c -> ~ c == e_delay e ->
  (vfirst corners == 0 \/ e_delay e == 0) ->
  no_near c (to_pwl r (GExt e)) ->
  split_gradient_at s (GExt e) tp = OK (STwo g1 g2) ->
  (forall x, ~ x == c ->
     eval (to_pwl r (GExt g1)) x + eval (to_pwl r (GExt g2)) x == eval (to_pwl r (GExt e)) x) /\
  (forall x, x == c -> eval (to_pwl r (GExt g1)) x == eval (to_pwl r (GExt e)) x /\
                       eval (to_pwl r (GExt g2)) x == eval (to_pwl r (GExt e)) x) /\
  e_delay g1 + e_sdur g1 == c /\ e_delay g2 + hd 0 (e_tt g2) == c.
Proof. exact split_at_ext_sum. Qed.
Print Assumptions C18_split_at_ext.

(* the mask-based cut of the code is the restriction pair of Base/PWL.v *)
Theorem C18_cut_sum : forall c p t,
  sorted_strict (times p) -> tfirst p <= c -> c < tlast p -> no_near c p ->
  (~ t == c -> eval (before_cut c p ++ [(c, np_interp c p)]) t
               + eval ((c, np_interp c p) :: after_cut c p) t == eval p t) /\
  (t == c -> eval (before_cut c p ++ [(c, np_interp c p)]) t == eval p t /\
             eval ((c, np_interp c p) :: after_cut c p) t == eval p t).
Proof. exact cut_sum. Qed.
Print Assumptions C18_cut_sum.

(* non-vacuity: trapezoid with delay 50 us cut at 150 us (FIX-7), at 20 us inside the delay (FIX-8) *)
Example C18_split_at_example :
  let s := mkSys (1 # 100000) 2000000 20000000000 in
  let t := mkTrap 0 100000 (2 # 100000) (1 # 1000) (2 # 100000) (5 # 100000) 102 100 None in
  (exists g1 g2, split_gradient_at s (GTrap t) (15 # 100000) = OK (STwo g1 g2) /\
                 Qeq_bool (e_delay g2) (15 # 100000) = true /\ Qeq_bool (e_delay g1) (5 # 100000) = true) /\
  (exists g1 g2, split_gradient_at s (GTrap t) (2 # 100000) = OK (STwo g1 g2) /\
                 Qeq_bool (e_delay g2) (2 # 100000) = true /\ Qeq_bool (e_delay g1) 0 = true) /\
  split_gradient_at s (GTrap t) (109 # 100000) = Err EAfterEnd.
Proof.
  cbv zeta. split; [|split].
  - eexists. eexists. split; [vm_compute; reflexivity|]. split; vm_compute; reflexivity.
  - eexists. eexists. split; [vm_compute; reflexivity|]. split; vm_compute; reflexivity.
  - vm_compute. reflexivity.
Qed.

(* arbitrary gradients: the arbitrary branch is unreachable for more than one sample and the
   extended-trapezoid path rejects the half-raster times: known finding KF-9 *)
Theorem C18_split_at_arbitrary_refuted : exists s e tp,
  is_arb (raster s) (e_tt e) = true /\ split_gradient_at s (GExt e) tp = Err ERaster.
Proof.
  exists (mkSys (1 # 100000) 2000000 20000000000),
         (mkEg 2 0 [5 # 1000000; 15 # 1000000; 25 # 1000000] [0; 1000; 0] (3 # 100000) 0 0 None None),
         (2 # 100000).
  split; vm_compute; reflexivity.
Qed.
Print Assumptions C18_split_at_arbitrary_refuted.

(* ---- align ------------------------------------------------------------------------------------ *)
(* the common duration is the longest delay+length (and at least 0) *)
Theorem C18_common_duration : forall l : list aev,
  0 <= calc_duration l /\ (forall e, In e l -> ev_duration e <= calc_duration l) /\
  (calc_duration l = 0 \/ exists e, In e l /\ calc_duration l = ev_duration e).
Proof. exact calc_duration_is_max. Qed.
Print Assumptions C18_common_duration.

(* align_delays + align_only_delays + align_right_nonneg: on success the output has the same events
   in the same order, the delays are 0 / (D - len)/2 / D - len, length and every other field are
   untouched, and a right-aligned delay is not negative.  Hypothesis: no event ends before t = 0
   (calc_duration of a single event clamps at 0 otherwise). *)
Theorem C18_align_spec : forall l out,
  Forall (fun se => 0 <= ev_duration (snd se)) l ->
  align l = OK out ->
  let D := calc_duration (map snd l) in
  Forall2 (fun se e' => a_delay e' == align_target D (fst se) (snd se) /\
                        a_len e' = a_len (snd se) /\ a_tag e' = a_tag (snd se) /\
                        (fst se = align_right -> 0 <= a_delay e')) l out.
Proof. exact align_spec. Qed.
Print Assumptions C18_align_spec.

(* with valid specs and non-negative delays and lengths align never raises *)
Theorem C18_align_total : forall l,
  Forall (fun se => (fst se <= 2)%nat /\ 0 <= a_delay (snd se) /\ 0 <= a_len (snd se)) l ->
  exists out, align l = OK out.
Proof. exact align_total. Qed.
Print Assumptions C18_align_total.

(* the clamp makes the formula fail for an event that ends before t = 0 *)
Theorem C18_align_negative_total_refuted : exists l out,
  align l = OK out /\
  ~ Forall2 (fun se e' => a_delay e' == align_target (calc_duration (map snd l)) (fst se) (snd se)) l out.
Proof.
  exists [(1%nat, mkAev 1 (-3) 0)], [mkAev 1 (-(3 # 2)) 0]. split; [vm_compute; reflexivity|].
  intro H. inversion H; subst. vm_compute in H3. discriminate.
Qed.
Print Assumptions C18_align_negative_total_refuted.

(* FIX-10 example: center alignment of a delayed short trapezoid (delay 100 us, length 400 us) with a
   long one (1200 us): the new delays are (1200-400)/2 = 400 us and 0 *)
Example C18_align_center_example :
  match align [(1%nat, mkAev (4 # 10000) (1 # 10000) 0); (1%nat, mkAev (12 # 10000) 0 1)] with
  | OK [a; b] => Qeq_bool (a_delay a) (4 # 10000) && Qeq_bool (a_delay b) 0
  | _ => false
  end = true.
Proof. vm_compute. reflexivity. Qed.
