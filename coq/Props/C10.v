(* Props/C10.v — check_timing reports exactly the raster and dead-time violations.
   Only statements, each closed by [exact] of a lemma from Proofs/TimingProofs.v.
   [check_timing] is the model of check_timing.py driven by the tables of Gen/GenTiming.v (re-read
   from the source on every run); [TimingValid], [Violates], [OnRaster] are the declarative
   predicates of Proofs/TimingSpec.v written from the property text with literal tolerances. *)
From Coq Require Import ZArith QArith Qabs List Bool.
From PV Require Import Base.QUtil Model.TimingSyntax Gen.GenTiming Model.Timing Proofs.TimingSpec
  Proofs.TimingProofs.
Import ListNotations.
Open Scope Q_scope.

(* the divisibility test (divide, round half-even, compare with the tolerance) accepts t exactly
   when t/raster is within 1e-6 of SOME integer; for a positive raster: |t - k*raster| < 1e-6*raster *)
Theorem C10_div_check_spec : forall t raster : Q,
  div_ok t raster = true <-> exists k : Z, Qabs (t / raster - inject_Z k) < 1 # 1000000.
Proof. exact div_check_spec. Qed.
Print Assumptions C10_div_check_spec.

Theorem C10_div_check_spec_abs : forall t raster : Q, 0 < raster ->
  (div_ok t raster = true <-> exists k : Z, Qabs (t - inject_Z k * raster) < (1 # 1000000) * raster).
Proof. exact div_check_spec_abs. Qed.
Print Assumptions C10_div_check_spec_abs.

(* "block duration" used by the checks = calc_duration of the decoded block = least upper bound of
   the stored duration and all event end times *)
Theorem C10_block_duration_spec : forall b : block, IsBlockDuration b (block_duration b).
Proof. exact block_duration_spec. Qed.
Print Assumptions C10_block_duration_spec.

(* [raster_on_stored] records which variant of check_timing.py is being verified (read from the
   source): false = the block-raster test is applied to calc_duration(block) (source as it is),
   true = to the stored duration (the repaired source, see C10_ok_write_clean_refuted).  The
   declarative predicates take it as a parameter; everything else is identical. *)

(* for ALL systems and ALL block lists: an entry (block, event, field, kind) is in the report iff
   that clause of the property is violated at that block / event / field *)
Theorem C10_report_complete_sound : forall sys bs (e : err),
  In e (check_timing sys bs) <-> Violates raster_on_stored sys bs e.
Proof. exact report_complete_sound. Qed.
Print Assumptions C10_report_complete_sound.

(* ... and it is in the report exactly once (block ids are the distinct keys of seq.block_events), so
   the report as a multiset is the set of violated clauses *)
Theorem C10_report_no_dup : forall sys bs, NoDup (map b_id bs) -> NoDup (check_timing sys bs).
Proof. exact report_no_dup. Qed.
Print Assumptions C10_report_no_dup.

(* empty report iff every clause holds *)
Theorem C10_check_ok_iff : forall sys bs,
  check_timing sys bs = [] <-> TimingValid raster_on_stored sys bs.
Proof. exact check_ok_iff. Qed.
Print Assumptions C10_check_ok_iff.

(* the same with the RF clause read as in the property text (RF end = delay + shape duration, plus
   ring-down, fits in the stored duration), for decoded RF events (t[-1] <= shape_dur) *)
Theorem C10_check_ok_iff_text : forall sys bs, DecodedRf bs ->
  (check_timing sys bs = [] <-> TimingValid_text raster_on_stored sys bs).
Proof. exact check_ok_iff_text. Qed.
Print Assumptions C10_check_ok_iff_text.

(* ... and WITHOUT extra hypothesis for blocks as get_block decodes them: the decoded RF time axis
   (sequence.py rf_from_lib_data: regular half-raster grid with shape_dur = n*raster, or explicit times
   with shape_dur = ceil((t[-1] - eps)/raster)*raster) always satisfies t[-1] <= shape_dur + eps *)
Theorem C10_decoded_rf_invariant : forall raster sh, 0 < raster ->
  decode_rf_tlast raster sh <= decode_rf_shape_dur raster sh + spec_eps.
Proof. exact decoded_rf_invariant. Qed.
Print Assumptions C10_decoded_rf_invariant.

Theorem C10_check_ok_iff_text_decoded : forall sys bs, 0 < s_rf_raster sys -> DecodedBy sys bs ->
  (check_timing sys bs = [] <-> TimingValid_text raster_on_stored sys bs).
Proof. exact check_ok_iff_text_decoded. Qed.
Print Assumptions C10_check_ok_iff_text_decoded.

(* the same bound for an RF event as the makers return it: premises are the conclusions of
   C13_sample_times_centres (t_last == shape_dur - dwell/2) in Props/C13.v *)
Theorem C10_rf_maker_grid_invariant : forall tlast shape_dur dwell : Q,
  0 <= dwell -> tlast == shape_dur - dwell / (2 # 1) -> tlast <= shape_dur + spec_eps.
Proof. exact rf_maker_grid_invariant. Qed.
Print Assumptions C10_rf_maker_grid_invariant.

(* structural fact: the explicit ring-down test (on the last sample t[-1]) never fires alone *)
Theorem C10_ringdown_implies_mismatch : forall sys b r,
  b_rf b = Some r -> e_kind r = KRf -> e_tlast r <= e_shape_dur r + spec_eps ->
  In (b_id b, SRf, A_duration, RF_RINGDOWN_TIME) (check_block sys b) ->
  In (b_id b, SBlock, A_duration, BLOCK_DURATION_MISMATCH) (check_block sys b).
Proof. exact ringdown_error_implies_mismatch. Qed.
Print Assumptions C10_ringdown_implies_mismatch.

(* the clause table spelled out for the event kinds that occur in decoded blocks *)
Theorem C10_EventValid_trap : forall sys e, e_kind e = KTrap ->
  (EventValid sys e <-> NonNeg (e_delay e) /\ OnRaster (e_delay e) (s_grad_raster sys) /\
     OnRaster (e_rise e) (s_grad_raster sys) /\ OnRaster (e_flat e) (s_grad_raster sys) /\
     OnRaster (e_fall e) (s_grad_raster sys)).
Proof. exact EventValid_trap. Qed.
Print Assumptions C10_EventValid_trap.
Theorem C10_EventValid_adc : forall sys e, e_kind e = KAdc ->
  (EventValid sys e <-> NonNeg (e_delay e) /\ OnRaster (e_delay e) (s_rf_raster sys) /\
                        OnRaster (e_dwell e) (s_adc_raster sys)).
Proof. exact EventValid_adc. Qed.
Print Assumptions C10_EventValid_adc.
Theorem C10_EventValid_rf : forall sys e, e_kind e = KRf ->
  (EventValid sys e <-> NonNeg (e_delay e) /\ OnRaster (e_delay e) (s_rf_raster sys)).
Proof. exact EventValid_rf. Qed.
Print Assumptions C10_EventValid_rf.
Theorem C10_EventValid_grad : forall sys e, e_kind e = KGrad ->
  (EventValid sys e <-> NonNeg (e_delay e) /\ OnRaster (e_delay e) (s_grad_raster sys)).
Proof. exact EventValid_grad. Qed.
Print Assumptions C10_EventValid_grad.

(* "whenever it returns ok, write() succeeds without a timing warning": the writer's assertion on
   the [BLOCKS] duration column holds when the stored durations cover the block contents, and
   unconditionally for the repaired source ... *)
Theorem C10_ok_implies_write_clean : forall sys bs,
  check_timing sys bs = [] ->
  (raster_on_stored = true \/ Forall (fun b => block_duration b <= b_stored b) bs) ->
  Forall (fun b => write_assert_ok sys b = true) bs.
Proof. exact ok_implies_write_clean. Qed.
Print Assumptions C10_ok_implies_write_clean.

(* ... and is FALSE for the source as it is without that hypothesis (the mismatch test tolerates
   1 ns, the writer 1e-6 raster): stored duration 0.5 ns below an on-raster content.  Reproduced on
   the implementation (known finding C10/ok-but-write-raises). *)
Theorem C10_ok_write_clean_refuted : raster_on_stored = false ->
  exists sys bs, check_timing sys bs = [] /\ exists b, In b bs /\ write_assert_ok sys b = false.
Proof. exact ok_write_clean_refuted. Qed.
Print Assumptions C10_ok_write_clean_refuted.

(* non-vacuity: a valid block exists; a block with an off-raster rise time yields exactly the two
   entries the code returns for it *)
Example C10_examples :
  TimingValid raster_on_stored cex_sys [ex_block_ok] /\
  check_timing cex_sys [ex_block_ok; ex_block_bad] =
    [(2%Z, SBlock, A_duration, RASTER); (2%Z, SGx, A_rise_time, RASTER)].
Proof. exact timing_examples. Qed.
