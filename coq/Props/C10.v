(* Props/C10.v — check_timing reports exactly the raster and dead-time violations. *)
From Coq Require Import ZArith QArith Qabs List Bool.
From PV Require Import Base.QUtil Model.TimingSyntax Gen.GenTiming Model.Timing Proofs.TimingProofs.
Import ListNotations.
Open Scope Q_scope.

Theorem C10_nil : forall sys, check_timing sys [] = [].
Proof. exact check_timing_nil. Qed.
Print Assumptions C10_nil.
