(* Props/C12.v — make_extended_trapezoid_area (stub, theorems follow) *)
From Coq Require Import ZArith QArith Qabs List Bool.
From PV Require Import Base.QUtil Gen.GenExtTrapArea Model.ExtTrapArea.
Import ListNotations.
Open Scope Q_scope.

Definition ex_sys : etaSys := {| s_max_grad := 1703000; s_max_slew := 7237920000; s_raster := 1 # 100000 |}.
Example C12_example_run :
  match eta 40 200 {| e_sys := ex_sys; e_gs := 0; e_ge := 0; e_area := 100 |} with
  | OK o => o_dur o = 24%Z
  | Err _ => False
  end.
Proof. vm_compute. reflexivity. Qed.
