(* Props/C12.v — make_extended_trapezoid_area: exact area, end points, no shorter ramp pair.
   Only statements, each closed by [exact] of a lemma from Proofs/ExtTrapAreaProofs.v, with Print Assumptions.
   [eta fd fb a] is the model of make_extended_trapezoid_area(area, channel, grad_start, grad_end, system)
   ([fd]/[fb] = fuel of the doubling loop / binary search; running out of fuel is the error value OutOfFuel,
   so every statement of the form [eta fd fb a = OK o -> ...] holds for every fuel).
   No well-formedness hypothesis on the system is needed for the first four theorems: an accepted result
   forces a positive raster.  mgrad / mslew are 99 percent of the system limits (factor read from the source). *)
From Coq Require Import ZArith QArith Qabs List Bool Sorted.
From PV Require Import Base.QUtil Gen.GenExtTrapArea Model.ExtTrapArea Proofs.ExtTrapAreaProofs.
Import ListNotations.
Open Scope Q_scope.

(* first amplitude = grad_start, last amplitude = grad_end, times start at 0, one amplitude per time *)
Theorem eta_endpoints : forall fd fb a o, eta fd fb a = OK o ->
  let g := o_grad o in
  hd_error (g_wave g) = Some (e_gs a) /\ last (g_wave g) 0 = e_ge a /\
  (exists t r, g_tt g = t :: r /\ t == 0) /\ length (g_tt g) = length (g_wave g).
Proof. exact eta_endpoints_lem. Qed.
Print Assumptions eta_endpoints.

(* every corner time is an integer multiple of the gradient raster; the multiples are strictly increasing,
   start at 0 and end at the returned duration; the times themselves are strictly increasing *)
Theorem eta_on_raster : forall fd fb a o, eta fd fb a = OK o ->
  let g := o_grad o in
  0 < rast a /\
  exists ks : list Z,
    Forall2 (fun t k => t == inject_Z k * rast a) (g_tt g) ks /\
    StronglySorted Z.lt ks /\ hd_error ks = Some 0%Z /\ last ks 0%Z = o_dur o /\
    increasing (g_tt g).
Proof. exact eta_on_raster_lem. Qed.
Print Assumptions eta_on_raster.

(* the area enclosed by the returned polyline (trapezoid rule over its corners, as the code computes it)
   EQUALS the requested area — not merely to 1e-8; so does the area attribute of the event *)
Theorem eta_area_exact : forall fd fb a o, eta fd fb a = OK o ->
  (1 # 2) * trap_area (g_tt (o_grad o)) (g_wave (o_grad o)) == e_area a /\ g_area (o_grad o) == e_area a.
Proof. exact eta_area_exact_lem. Qed.
Print Assumptions eta_area_exact.

(* every amplitude is within max_grad (+eps), every slope within max_slew*(1+eps) (the checks of
   make_extended_trapezoid), and the plateau amplitude / both ramps are within 99 percent of the limits
   plus the 1e-8 tolerances of the filter in _find_solution *)
Theorem eta_within_limits : forall fd fb a o, eta fd fb a = OK o ->
  let g := o_grad o in let c := o_cand o in
  Forall (fun w => Qabs w <= s_max_grad (e_sys a) + eta_eps) (g_wave g) /\
  Forall (fun sl => Qabs sl <= s_max_slew (e_sys a) * (1 + eta_eps)) (slews (g_tt g) (g_wave g)) /\
  within a (mgrad a + eta_amp_tol) (mslew a + eta_slew1_tol) (mslew a + eta_slew2_tol)
         (c_up c) (c_down c) (c_amp c).
Proof. exact eta_within_limits_lem. Qed.
Print Assumptions eta_within_limits.

(* completeness of the per-duration search for plateau-free gradients: if _find_solution(d) is None there is
   NO pair of raster ramps (ru, rd), ru + rd = d, and NO amplitude ga such that the polyline
   (0, grad_start) (ru R, ga) (d R, grad_end) encloses the area with |ga| <= 0.99 max_grad + 1e-8 and both
   slopes <= 0.99 max_slew + 1e-8 — exactly the limits the code enforces (so a fortiori none within 99 percent) *)
Theorem find_solution_complete_two_ramp : forall a d, 0 < rast a -> find_solution a d = None ->
  forall ru rd ga, (ru + rd = d)%Z ->
    ~ two_ramp a (mgrad a + eta_amp_tol) (mslew a + eta_slew1_tol) (mslew a + eta_slew2_tol) ru rd ga.
Proof. exact find_solution_complete_two_ramp_lem. Qed.
Print Assumptions find_solution_complete_two_ramp.

(* the candidate returned for a duration has the least selection cost (slew_rate1 + slew_rate2) among all
   enumerated candidates that pass the limit filter *)
Theorem find_solution_least_cost : forall a d c, find_solution a d = Some c ->
  forall p, In p (cands a d) -> valid a (eval_cand a d p) = true -> cost c <= cost (eval_cand a d p).
Proof. exact find_solution_min_cost. Qed.
Print Assumptions find_solution_least_cost.

(* UNCONDITIONAL minimality at search level, both phases (repaired source: rescan after the binary search):
   for end points within 99 percent of max_grad (+ the filter tolerance) the returned duration is the LEAST
   duration >= min_duration for which _find_solution succeeds.  The proof uses the area bound behind
   `shortest_conceivable`: a candidate accepted by the filter encloses at most d * raster * (max_grad + 1e-8).
   Caveat kept explicit: termination of the doubling loop is not proved (fuel; OutOfFuel is not OK). *)
Theorem eta_smallest_feasible : forall fd fb a o, eta fd fb a = OK o ->
  Qabs (e_gs a) <= mgrad a + eta_amp_tol -> Qabs (e_ge a) <= mgrad a + eta_amp_tol ->
  find_solution a (o_dur o) <> None /\ (min_duration a <= o_dur o)%Z /\
  forall d', (min_duration a <= d' < o_dur o)%Z -> find_solution a d' = None.
Proof. exact eta_smallest_feasible_lem. Qed.
Print Assumptions eta_smallest_feasible.

(* the linear-search phase needs no hypothesis on the end points *)
Theorem eta_linear_smallest_feasible : forall fd fb a o, eta fd fb a = OK o -> (o_dur o <= lin_max a)%Z ->
  find_solution a (o_dur o) <> None /\ (min_duration a <= o_dur o)%Z /\
  forall d', (min_duration a <= d' < o_dur o)%Z -> find_solution a d' = None.
Proof. exact eta_linear_smallest_feasible_lem. Qed.
Print Assumptions eta_linear_smallest_feasible.

(* the area bound itself: whatever duration has a solution is at least `shortest_conceivable` *)
Theorem feasible_not_below_shortest_conceivable : forall a d c, 0 < rast a -> find_solution a d = Some c ->
  Qabs (e_gs a) <= mgrad a + eta_amp_tol -> Qabs (e_ge a) <= mgrad a + eta_amp_tol ->
  (shortest_conceivable a <= d)%Z.
Proof. exact feasible_ge_shortest_conceivable. Qed.
Print Assumptions feasible_not_below_shortest_conceivable.

(* UNCONDITIONAL "no shorter ramp pair" (the property's last sentence), both phases:
   (i) no two-ramp gradient within 99 percent of the limits with fewer raster steps, and
   (ii) none within the limits the code enforces (99 percent + 1e-8) from the search's lower bound upwards. *)
Theorem eta_minimal : forall fd fb a o, eta fd fb a = OK o -> 0 < s_max_slew (e_sys a) ->
  Qabs (e_gs a) <= mgrad a + eta_amp_tol -> Qabs (e_ge a) <= mgrad a + eta_amp_tol ->
  no_shorter_two_ramp a (o_dur o) /\ no_shorter_two_ramp_tol a (o_dur o).
Proof. exact eta_minimal_lem. Qed.
Print Assumptions eta_minimal.

(* linear-search phase: no hypothesis on the end points *)
Theorem eta_minimal_linear_range : forall fd fb a o, eta fd fb a = OK o -> 0 < s_max_slew (e_sys a) ->
  (o_dur o <= lin_max a)%Z -> no_shorter_two_ramp a (o_dur o).
Proof. exact eta_minimal_linear_range_lem. Qed.
Print Assumptions eta_minimal_linear_range.

(* ---- convert_to_arbitrary=True: the raster-sampled form returned by make_extended_trapezoid_area ----
   [eta_arb] = same search, then points_to_waveform (np.interp at the raster centres) + make_arbitrary_grad +
   the first/last assignment of make_extended_trapezoid. *)

(* the sampled event starts at grad_start and ends at grad_end (fields first / last) *)
Theorem eta_arb_endpoints : forall fd fb a o, eta_arb fd fb a = OK o ->
  a_first (oa_grad o) = e_gs a /\ a_last (oa_grad o) = e_ge a.
Proof. exact eta_arb_endpoints_lem. Qed.
Print Assumptions eta_arb_endpoints.

(* there is exactly one sample per raster step of the returned duration, sample i sits at the raster centre
   (i + 1/2) * raster and equals the corner list (0, grad_start) (up R, amp) ((up+flat) R, amp) (D R, grad_end)
   evaluated there ([arb_sample_spec]: the three linear pieces in closed form); the duration is that of the
   solution found, which is the least feasible one by eta_smallest_feasible (same search) *)
Theorem eta_arb_samples : forall fd fb a o, eta_arb fd fb a = OK o ->
  let g := oa_grad o in let c := oa_cand o in let D := oa_dur o in
  0 < rast a /\ find_solution a D = Some c /\
  (0 < c_up c /\ 0 <= c_flat c /\ 0 < c_down c /\ c_up c + c_flat c + c_down c = D)%Z /\
  length (a_wave g) = Z.to_nat D /\ length (a_tt g) = Z.to_nat D /\
  (forall i, (i < Z.to_nat D)%nat -> nth i (a_wave g) 0 == arb_sample_spec a c (Z.of_nat i)) /\
  (forall i, (i < Z.to_nat D)%nat -> nth i (a_tt g) 0 == (inject_Z (Z.of_nat i) + (1 # 2)) * rast a) /\
  a_shape_dur g == inject_Z D * rast a /\
  a_area g == qsum (map (fun w => w * rast a) (a_wave g)) /\
  Qabs (a_area g - e_area a) < eta_area_tol.
Proof. exact eta_arb_samples_lem. Qed.
Print Assumptions eta_arb_samples.

(* the area of the sampled form (sum of the samples times the raster, as make_arbitrary_grad computes it) EQUALS the
   requested area: the midpoint rule is exact for a polyline whose corners lie on raster boundaries; hence the final
   `abs(grad.area - area) < 1e-8` test can never fail on this path either *)
Theorem eta_arb_area_exact : forall fd fb a o, eta_arb fd fb a = OK o ->
  qsum (map (fun w => w * rast a) (a_wave (oa_grad o))) == e_area a /\ a_area (oa_grad o) == e_area a.
Proof. exact eta_arb_area_exact_lem. Qed.
Print Assumptions eta_arb_area_exact.

(* ---- TERMINATION / TOTAL CORRECTNESS ----
   in_domain a : raster > 0, 99 percent max_slew > 0, |grad_start|, |grad_end| <= 99 percent max_grad.
   Every duration from [d_feasible a] (computable: max of 2, ceil(2|area| / (raster * 1e-8)) and
   ceil(2 (2*0.99 max_grad + 1e-8) / (0.99 max_slew * raster)) + 2) upwards has a solution: the symmetric ramp pair
   d/2 + (d - d/2) passes the filter. *)
Theorem find_solution_eventually_feasible : forall a d, in_domain a -> (d_feasible a <= d)%Z ->
  find_solution a d <> None.
Proof. exact eventually_feasible'. Qed.
Print Assumptions find_solution_eventually_feasible.

(* hence the doubling loop stops, the binary search ends on a solution (neither OutOfFuel nor NoneSolution), the
   construction passes every check of make_extended_trapezoid and the final area test: for in-domain inputs, systems
   with sys_ok (the 1e-8 tolerances fit between 99 percent and 100 percent (+eps) of the limits, i.e. max_slew and
   max_grad above ~1e-6) and fuel S kd / S kb with  d_feasible <= lin_max * 2^(S kd) <= 2^kb  a gradient IS returned.
   Together with the theorems above: it has the requested end points, raster times, exact area, is within the limits
   and no ramp pair is shorter. *)
Theorem eta_total : forall a kd kb, in_domain a -> sys_ok a ->
  (d_feasible a <= lin_max a * 2 ^ Z.of_nat (S kd))%Z ->
  (lin_max a * 2 ^ Z.of_nat (S kd) <= 2 ^ Z.of_nat kb)%Z ->
  exists o, eta (S kd) (S kb) a = OK o.
Proof. exact eta_total_lem. Qed.
Print Assumptions eta_total.

(* REFUTED for the algorithm before repair 7df2246 ([eta_old]: binary-search result without rescan):
   on Opts(max_grad=10 mT/m, max_slew=200 T/m/s), grad_start = grad_end = -399118.9, area = -9.94 it returns
   18 raster steps although the ramp pair 8 + 8 exists (a dead space above the linear range: the doubling
   jumps 5 -> 10 -> 20, the binary search looks in (10, 20], 17 is infeasible, 16 is feasible). *)
Definition old_sys : etaSys := {| s_max_grad := 425760; s_max_slew := 8515200000; s_raster := 1 # 100000 |}.
Definition old_args : etaArgs :=
  {| e_sys := old_sys; e_gs := - (3991189 # 10); e_ge := - (3991189 # 10); e_area := - (497 # 50) |}.
Theorem eta_old_minimal_refuted :
  exists a o, eta_old 40 200 a = OK o /\ 0 < s_max_slew (e_sys a) /\
              Qabs (e_gs a) <= mgrad a /\ Qabs (e_ge a) <= mgrad a /\ ~ no_shorter_two_ramp a (o_dur o).
Proof.
  destruct (eta_old 40 200 old_args) as [o|e] eqn:E; [|vm_compute in E; discriminate].
  exists old_args, o. repeat split; try exact E; try reflexivity; try (apply Qle_bool_iff; vm_compute; reflexivity).
  intro H.
  assert (D : o_dur o = 18%Z) by (vm_compute in E; injection E as <-; reflexivity).
  apply (H 8 8 (amp_of old_args 16 8 8))%Z; [rewrite D; reflexivity|].
  apply two_ramp_b_sound. vm_compute. reflexivity.
Qed.
Print Assumptions eta_old_minimal_refuted.

(* the repaired algorithm returns the 16 steps on the same input *)
Example C12_reproducer_repaired :
  match eta 40 200 old_args with OK o => o_dur o = 16%Z | Err _ => False end.
Proof. vm_compute. reflexivity. Qed.

(* the one-step-ramp input of the default system ((-700000, 845000, 19.165): 21 + 1 steps): the sampled form ends at
   grad_end although its last two samples lie on different ramps (their extrapolation would give 863920) *)
Definition onestep_args : etaArgs :=
  {| e_sys := {| s_max_grad := 1703040; s_max_slew := 7237920000; s_raster := 1 # 100000 |};
     e_gs := -700000; e_ge := 845000; e_area := 3833 # 200 |}.
Example C12_arb_onestep_example :
  match eta_arb 40 200 onestep_args with
  | OK o => oa_dur o = 22%Z /\ c_down (oa_cand o) = 1%Z /\ a_last (oa_grad o) = 845000 /\
            length (a_wave (oa_grad o)) = 22%nat /\
            ~ (3 * nth 21 (a_wave (oa_grad o)) 0 - nth 20 (a_wave (oa_grad o)) 0) * (1 # 2) == 845000
  | Err _ => False
  end.
Proof. vm_compute. repeat split; try reflexivity. intro H. discriminate H. Qed.

(* the constants read from the source are the ones the property text names: 99 percent of both limits, area to
   1e-8, filter tolerances not above 1e-8 (a changed factor or tolerance in the source breaks this obligation) *)
Example C12_constants_as_in_property_text :
  eta_slew_factor == 99 # 100 /\ eta_grad_factor == 99 # 100 /\ eta_area_tol <= 1 # 100000000 /\
  eta_amp_tol <= 1 # 100000000 /\ eta_slew1_tol <= 1 # 100000000 /\ eta_slew2_tol <= 1 # 100000000 /\
  eta_min_dur = 2%Z /\ eta_amp_tol <= eta_sc_tol.
Proof. repeat split; try reflexivity; discriminate. Qed.

(* ---- non-vacuity: concrete argument sets (the repository's test zoo on a default-like system) ---- *)
Definition ex_sys : etaSys := {| s_max_grad := 1703000; s_max_slew := 7237920000; s_raster := 1 # 100000 |}.
Definition ex_args (gs ge ar : Q) : etaArgs := {| e_sys := ex_sys; e_gs := gs; e_ge := ge; e_area := ar |}.
Definition dur_of (r : result etaOut) : option (Z * list Z) :=
  match r with OK o => Some (o_dur o, [c_up (o_cand o); c_flat (o_cand o); c_down (o_cand o)]) | Err _ => None end.

(* binary-search phase (lin_max = 2): a triangle of 24 rasters *)
Example C12_example_triangle : dur_of (eta 40 200 (ex_args 0 0 100)) = Some (24, [12; 0; 12])%Z
  /\ lin_max (ex_args 0 0 100) = 2%Z.
Proof. vm_compute. split; reflexivity. Qed.

(* a trapezoid with a flat top at the 99 percent limit *)
Example C12_example_trapezoid : dur_of (eta 40 200 (ex_args 0 0 1000)) = Some (84, [24; 36; 24])%Z.
Proof. vm_compute. reflexivity. Qed.

(* both ends at the 99 percent limit, small negative area: linear search fails up to 24, then doubling *)
Example C12_example_limit_ends :
  dur_of (eta 40 200 (ex_args 1685970 1685970 (-1))) = Some (97, [48; 1; 48])%Z
  /\ lin_max (ex_args 1685970 1685970 (-1)) = 24%Z.
Proof. vm_compute. split; reflexivity. Qed.

(* linear-search phase with a dead zone behind the result: duration 26 has a solution, 39 has none *)
Definition dz_args : etaArgs :=
  {| e_sys := {| s_max_grad := 2434500; s_max_slew := 20388540700; s_raster := 1 # 250000 |};
     e_gs := -2410155; e_ge := -2410155; e_area := -(2506561 # 10000) |}.
Example C12_dead_zone_example :
  dur_of (eta 40 200 dz_args) = Some (26, [13; 0; 13])%Z /\ (26 <= lin_max dz_args)%Z /\
  find_solution dz_args 26 <> None /\ find_solution dz_args 39 = None.
Proof. vm_compute. repeat split; try discriminate. Qed.

(* the hypotheses of the minimality theorem are satisfiable on the examples: positive slew limit, end points
   within 99 percent; and the result on the triangle example is indeed the least feasible duration *)
Example C12_example_hypotheses :
  0 < s_max_slew ex_sys /\
  Qabs (e_gs (ex_args 1685970 1685970 (-1))) <= mgrad (ex_args 1685970 1685970 (-1)) + eta_amp_tol /\
  forallb (fun i => let d := (2 + Z.of_nat i)%Z in
             match find_solution (ex_args 0 0 100) d with None => (d <? 24)%Z | Some _ => (24 <=? d)%Z end)
          (seq 0 40) = true.
Proof. split; [reflexivity|split; [apply Qle_bool_iff; vm_compute; reflexivity|vm_compute; reflexivity]]. Qed.

(* non-vacuity of eta_total: its hypotheses hold for the triangle example with 51 doublings / 53 bisection steps
   (d_feasible is about 2e15 raster steps because of the 1e-8 tolerance, but the fuel is its logarithm) *)
Example C12_total_example :
  in_domain (ex_args 0 0 100) /\ sys_ok (ex_args 0 0 100) /\
  (d_feasible (ex_args 0 0 100) <= lin_max (ex_args 0 0 100) * 2 ^ Z.of_nat 51)%Z /\
  (lin_max (ex_args 0 0 100) * 2 ^ Z.of_nat 51 <= 2 ^ Z.of_nat 52)%Z /\
  exists o, eta 51 53 (ex_args 0 0 100) = OK o.
Proof.
  assert (D : in_domain (ex_args 0 0 100)).
  { unfold in_domain. repeat split; try reflexivity; apply Qle_bool_iff; vm_compute; reflexivity. }
  assert (S : sys_ok (ex_args 0 0 100)).
  { unfold sys_ok. repeat split; apply Qle_bool_iff; vm_compute; reflexivity. }
  assert (B1 : (d_feasible (ex_args 0 0 100) <= lin_max (ex_args 0 0 100) * 2 ^ Z.of_nat 51)%Z)
    by (vm_compute; discriminate).
  assert (B2 : (lin_max (ex_args 0 0 100) * 2 ^ Z.of_nat 51 <= 2 ^ Z.of_nat 52)%Z) by (vm_compute; discriminate).
  repeat split; try assumption; try apply D; try apply S.
  exact (eta_total_lem _ 50%nat 52%nat D S B1 B2).
Qed.

