(* Props/C11.v — make_trapezoid realises the requested area, amplitude and timing.
   Only statements, each closed by [exact] of a lemma from Proofs/TrapProofs.v, with Print Assumptions.
   The model [make_trap] (Model/Trap.v) is the whole argument lattice of make_trapezoid over Q;
   [eps] is pypulseq.eps as re-read from the source by the translator (Gen/GenTrap.v).
   Every theorem holds for ALL argument records and ALL systems: [make_trap a = OK g] already implies
   that the effective limits and the raster are positive (the model returns [Err E_unmodelled] otherwise). *)
From Coq Require Import ZArith QArith Qround Qabs Bool List.
From PV Require Import Base.QUtil Base.PWL Gen.GenTrap Model.Trap Model.TrapWave.
From PV Require Import Proofs.TrapProofs Proofs.TrapRobust Proofs.TrapMinimal Proofs.TrapWaveProofs.
Open Scope Q_scope.

(* the exact least n with (n*r)^2 >= x that stands for math.ceil(math.sqrt(x)/r) *)
Theorem ceil_sqrt_div_characterised : forall (x r : Q) (m : Z), 0 < r -> 0 <= x -> (0 <= m)%Z ->
  ((ceil_sqrt_div x r <= m)%Z <-> x <= (inject_Z m * r) * (inject_Z m * r)).
Proof. exact ceil_sqrt_div_iff. Qed.
Print Assumptions ceil_sqrt_div_characterised.

(* requested area: the waveform integral amplitude*(rise/2 + flat + fall/2) equals it exactly
   (all four area branches, symmetric or asymmetric ramps, either sign, zero).  The hypothesis excludes
   only a NEGATIVE requested flat_time: one in (-eps, 0) is treated as rounding noise and replaced by 0
   (then the area changes by amplitude*|flat_time|), anything below is rejected. *)
Theorem trap_area_exact : forall a g A, make_trap a = OK g -> a_area a = Some A ->
  (forall t, a_flat_time a = Some t -> 0 <= t) ->
  t_amplitude g * (t_rise g / 2 + t_flat g + t_fall g / 2) == A.
Proof. exact trap_area_exact_l. Qed.
Print Assumptions trap_area_exact.

Theorem trap_flat_area_exact : forall a g FA, make_trap a = OK g -> a_flat_area a = Some FA ->
  (forall t, a_flat_time a = Some t -> 0 <= t) ->
  t_amplitude g * t_flat g == FA.
Proof. exact trap_flat_area_exact_l. Qed.
Print Assumptions trap_flat_area_exact.

Theorem trap_amplitude_exact : forall a g h, make_trap a = OK g -> a_amplitude a = Some h ->
  t_amplitude g = h.
Proof. exact trap_amplitude_exact_l. Qed.
Print Assumptions trap_amplitude_exact.

(* requested timing.  [supplied_timing a] excludes only the area-only call, for which the code documents
   (with a warning) that rise_time / fall_time are ignored; a ramp given as 0 counts as not given
   (Python `rise_time or fall_time`).  A requested flat_time >= 0 is returned unchanged (one in (-eps, 0)
   becomes 0).  With a requested duration the three parts add up to it exactly whenever the two ramps fit
   into it, always when the function chooses the ramps of an area request, and — as long as the area +
   duration feasibility test is the exact one (Gen constant trap_possible_tolerant = false, the form the
   repository has today) — on every area path; the amplitude+duration path (and the area path once the
   proposed eps-tolerant test is adopted) tolerates a duration up to eps shorter than the two ramps and then
   returns flat_time = 0 (anything shorter is rejected: defect 14). *)
Theorem trap_timing_as_requested : forall a g, make_trap a = OK g ->
  (forall t, a_flat_time a = Some t ->
     (0 <= t /\ t_flat g = t) \/ (- eps < t /\ t < 0 /\ t_flat g = 0)) /\
  (forall d, a_duration a = Some d -> a_flat_time a = None ->
     d <= t_rise g + t_flat g + t_fall g /\ t_rise g + t_flat g + t_fall g <= d + eps /\
     (t_rise g + t_fall g <= d -> t_rise g + t_flat g + t_fall g == d) /\
     (a_amplitude a = None -> por (a_rise a) (a_fall a) = None -> t_rise g + t_flat g + t_fall g == d) /\
     (trap_possible_tolerant = false -> a_amplitude a = None -> t_rise g + t_flat g + t_fall g == d)) /\
  (supplied_timing a ->
     (forall r, a_rise a = Some r -> ~ r == 0 -> t_rise g = r /\ (a_fall a = None -> t_fall g = r)) /\
     (forall f, a_fall a = Some f -> ~ f == 0 -> t_fall g = f /\ (a_rise a = None -> t_rise g = f))).
Proof. exact trap_timing_as_requested_l. Qed.
Print Assumptions trap_timing_as_requested.

(* area + flat_time + ramps with a `duration` on top (over-determined request).  The repository today
   IGNORES the duration (finding of round 2, proposed repair /tmp/c11_fixC.patch); once the code checks it
   (Gen constant trap_flat_checks_duration = true) every returned event honours it within eps. *)
Theorem trap_duration_with_flat_time_consistent : forall a g A d t,
  trap_flat_checks_duration = true -> make_trap a = OK g ->
  a_area a = Some A -> a_duration a = Some d -> a_flat_time a = Some t -> 0 <= t ->
  Qabs (d - (t_rise g + t_flat g + t_fall g)) <= eps.
Proof. exact trap_flat_duration_l. Qed.
Print Assumptions trap_duration_with_flat_time_consistent.

(* the derived fields are the waveform integrals *)
Theorem trap_area_field : forall a g, make_trap a = OK g ->
  t_area g = t_amplitude g * (t_flat g + t_rise g / 2 + t_fall g / 2) /\
  t_flat_area g = t_amplitude g * t_flat g.
Proof. exact trap_area_field_l. Qed.
Print Assumptions trap_area_field.

(* ramps chosen by the function (no non-zero rise/fall supplied, or the area-only call) are equal and a
   positive integer multiple of the gradient raster; the flat time chosen for an area-only call is a
   non-negative multiple *)
Theorem trap_chosen_on_raster_positive : forall a g, make_trap a = OK g -> chosen_ramps a ->
  exists k, (1 <= k)%Z /\ t_rise g == inject_Z k * raster_of a /\ t_fall g = t_rise g.
Proof. exact trap_chosen_on_raster_positive_l. Qed.
Print Assumptions trap_chosen_on_raster_positive.

Theorem trap_area_only_flat_on_raster : forall a g A, make_trap a = OK g ->
  a_area a = Some A -> a_duration a = None -> a_flat_time a = None ->
  exists m, (0 <= m)%Z /\ t_flat g == inject_Z m * raster_of a.
Proof. exact trap_area_only_flat_raster_l. Qed.
Print Assumptions trap_area_only_flat_on_raster.

(* every returned event is well formed: the flat time is never negative (defect 14: the final timing
   validation) and both ramps are strictly positive — for ALL accepted arguments, no side condition *)
Theorem trap_flat_nonneg : forall a g, make_trap a = OK g -> 0 <= t_flat g.
Proof. exact trap_flat_nonneg_l. Qed.
Print Assumptions trap_flat_nonneg.

Theorem trap_wellformed : forall a g, make_trap a = OK g -> 0 < t_rise g /\ 0 <= t_flat g /\ 0 < t_fall g.
Proof. exact trap_wellformed_l. Qed.
Print Assumptions trap_wellformed.

(* effective limits (override if given, else system) up to the code's slack *)
Theorem trap_within_limits : forall a g, make_trap a = OK g ->
  Qabs (t_amplitude g) <= eff_max_grad a + eps /\
  0 < t_rise g /\ 0 < t_fall g /\
  Qabs (t_amplitude g) / t_rise g <= eff_max_slew a * (1 + eps) /\
  Qabs (t_amplitude g) / t_fall g <= eff_max_slew a * (1 + eps).
Proof. exact trap_within_limits_l. Qed.
Print Assumptions trap_within_limits.

(* an area-only request never fails on a system with positive limits: the shortest-parameter routine never
   yields a negative flat time (plateau branch: rise <= first-guess rise < effective time, a nonlinear
   argument) and its result passes the timing, amplitude and slew checks that follow *)
Theorem trap_area_only_total : forall a A, a_channel_ok a = true -> a_area a = Some A ->
  a_flat_area a = None -> a_amplitude a = None -> a_duration a = None -> a_flat_time a = None ->
  0 < eff_max_grad a -> 0 < eff_max_slew a -> 0 < raster_of a ->
  exists g, make_trap a = OK g.
Proof. exact trap_area_only_total_l. Qed.
Print Assumptions trap_area_only_total.

(* area-only request: at most two rasters longer than ANY continuous-time trapezoid (plateau c, ramps rc
   and flc, flat fc; not necessarily on the raster) that has the area and respects the limits *)
Theorem trap_near_optimal : forall a g A, make_trap a = OK g ->
  a_area a = Some A -> a_duration a = None -> a_flat_time a = None ->
  forall c rc fc flc : Q,
    0 < rc -> 0 < flc -> 0 <= fc ->
    Qabs c <= eff_max_grad a -> Qabs c / rc <= eff_max_slew a -> Qabs c / flc <= eff_max_slew a ->
    c * (rc / 2 + fc + flc / 2) == A ->
    t_rise g + t_flat g + t_fall g <= rc + fc + flc + 2 * raster_of a.
Proof. exact trap_near_optimal_l. Qed.
Print Assumptions trap_near_optimal.

Theorem trap_delay_returned : forall a g, make_trap a = OK g ->
  t_delay g = match a_delay a with Some v => v | None => trap_default_delay end.
Proof. exact trap_delay_l. Qed.
Print Assumptions trap_delay_returned.

(* ---- binary64 in front of math.ceil (round 2) --------------------------------------------------------
   The code evaluates math.ceil on a computed value v with a relative error delta; the model on the exact
   value.  The integer can differ by at most one, and only when the exact argument lies in an explicit band
   next to an integer / a perfect square.  The correspondence harness evaluates exactly these bands. *)
Theorem ceil_robust_band : forall q v delta : Q,
  0 <= delta -> Qabs (v - q) <= delta * Qabs q -> delta * Qabs q <= 1 ->
  let n := Qceiling q in
  let m := Qceiling v in
  m = n \/
  (m = (n + 1)%Z /\ q <= inject_Z n /\ inject_Z n < q + delta * Qabs q) \/
  (m = (n - 1)%Z /\ q - delta * Qabs q <= inject_Z (n - 1) /\ inject_Z (n - 1) < q).
Proof. exact ceil_robust. Qed.
Print Assumptions ceil_robust_band.

(* v >= 0 with v^2 within (1 +- delta)^2 of x/r^2 is "sqrt(x)/r computed with relative error delta" *)
Theorem ceil_sqrt_div_robust_band : forall x r v delta : Q,
  0 < r -> 0 <= x -> 0 <= delta -> delta < 1 -> 0 <= v ->
  let y := x / (r * r) in
  let n := ceil_sqrt_div x r in
  (1 - delta) * (1 - delta) * y <= v * v -> v * v <= (1 + delta) * (1 + delta) * y ->
  inject_Z n * delta <= 1 ->
  let m := Qceiling v in
  m = n \/
  (m = (n + 1)%Z /\ y <= inject_Z n * inject_Z n /\ inject_Z n * inject_Z n < (1 + delta) * (1 + delta) * y) \/
  (m = (n - 1)%Z /\ (1 - delta) * (1 - delta) * y <= inject_Z (n - 1) * inject_Z (n - 1) /\
                    inject_Z (n - 1) * inject_Z (n - 1) < y).
Proof. exact ceil_sqrt_div_robust. Qed.
Print Assumptions ceil_sqrt_div_robust_band.

(* ---- minimality of the ramps the function chooses on the other argument sets (round 2) -------------- *)
(* amplitude / flat_area requests without ramps: the ramp respects max_slew exactly (no eps slack) and is
   the shortest positive raster multiple that does *)
Theorem trap_chosen_ramp_minimal : forall a g, make_trap a = OK g ->
  por (a_rise a) (a_fall a) = None -> a_area a = None ->
  Qabs (t_amplitude g) <= eff_max_slew a * t_rise g /\
  forall k : Z, (1 <= k)%Z -> Qabs (t_amplitude g) <= eff_max_slew a * (inject_Z k * raster_of a) ->
    t_rise g <= inject_Z k * raster_of a /\ t_fall g <= inject_Z k * raster_of a.
Proof. exact trap_chosen_ramp_minimal_l. Qed.
Print Assumptions trap_chosen_ramp_minimal.

(* area requests whose ramps are chosen (area-only; area + duration without ramps): never longer than the
   shortest raster multiple k*raster whose triangle of that area respects max_slew *)
Theorem trap_area_ramp_minimal : forall a g A, make_trap a = OK g -> a_area a = Some A -> chosen_ramps a ->
  forall k : Z, (1 <= k)%Z ->
    Qabs A <= eff_max_slew a * ((inject_Z k * raster_of a) * (inject_Z k * raster_of a)) ->
    t_rise g <= inject_Z k * raster_of a.
Proof. exact trap_area_ramp_minimal_l. Qed.
Print Assumptions trap_area_ramp_minimal.

(* area-only with a plateau: shortest raster multiple for the returned amplitude *)
Theorem trap_area_only_plateau_ramp_minimal : forall a g A, make_trap a = OK g ->
  a_area a = Some A -> a_duration a = None -> a_flat_time a = None -> 0 < t_flat g ->
  forall k : Z, (1 <= k)%Z -> Qabs (t_amplitude g) <= eff_max_slew a * (inject_Z k * raster_of a) ->
    t_rise g <= inject_Z k * raster_of a.
Proof. exact trap_area_only_plateau_ramp_minimal_l. Qed.
Print Assumptions trap_area_only_plateau_ramp_minimal.

(* area + duration without ramps: exactly the ramps of the shortest design, which fits into the duration *)
Theorem trap_area_duration_ramps_of_shortest_design : forall a g A d, make_trap a = OK g ->
  a_area a = Some A -> a_duration a = Some d -> a_flat_time a = None -> por (a_rise a) (a_fall a) = None ->
  exists amp0 fl0, shortest_params A (eff_max_slew a) (eff_max_grad a) (raster_of a)
                   = (amp0, t_rise g, fl0, t_fall g) /\ t_rise g + fl0 + t_fall g <= d.
Proof. exact trap_area_duration_ramps_l. Qed.
Print Assumptions trap_area_duration_ramps_of_shortest_design.

(* ... and therefore NOT always the shortest ramp for the (smaller) returned amplitude *)
Theorem trap_area_duration_ramp_minimal_for_returned_amplitude_refuted :
  exists a g (k : Z), make_trap a = OK g /\ a_duration a <> None /\ por (a_rise a) (a_fall a) = None /\
    (1 <= k)%Z /\ Qabs (t_amplitude g) <= eff_max_slew a * (inject_Z k * raster_of a) /\
    inject_Z k * raster_of a < t_rise g.
Proof. exact area_duration_ramp_not_minimal_witness. Qed.
Print Assumptions trap_area_duration_ramp_minimal_for_returned_amplitude_refuted.

(* ---- the rendered waveform (Base/PWL.v) at every time (round 2) -------------------------------------- *)
Theorem trap_wave_sorted : forall a g, make_trap a = OK g -> sorted_strict (times (trap_to_pwl g)).
Proof. exact wave_sorted. Qed.
Print Assumptions trap_wave_sorted.

(* the integral of the rendered waveform is the area field *)
Theorem trap_wave_area : forall a g, make_trap a = OK g -> area (trap_to_pwl g) == t_area g.
Proof. exact wave_area. Qed.
Print Assumptions trap_wave_area.

(* amplitude bound at every time and slope bound between any two times of the event *)
Theorem trap_wave_safe_at_every_time : forall a g, make_trap a = OK g ->
  (forall t, Qabs (eval (trap_to_pwl g) t) <= eff_max_grad a + eps) /\
  (forall t u, inside (trap_to_pwl g) t -> inside (trap_to_pwl g) u ->
     Qabs (eval (trap_to_pwl g) t - eval (trap_to_pwl g) u) <= eff_max_slew a * (1 + eps) * Qabs (t - u)).
Proof. exact wave_everywhere. Qed.
Print Assumptions trap_wave_safe_at_every_time.

(* it lives on [delay, delay + rise + flat + fall], starts and ends at 0 and reaches the amplitude *)
Theorem trap_wave_support : forall a g, make_trap a = OK g ->
  tfirst (trap_to_pwl g) = t_delay g /\
  tlast (trap_to_pwl g) = t_delay g + t_rise g + t_flat g + t_fall g /\
  eval (trap_to_pwl g) (t_delay g) == 0 /\
  eval (trap_to_pwl g) (t_delay g + t_rise g + t_flat g + t_fall g) == 0 /\
  eval (trap_to_pwl g) (t_delay g + t_rise g) == t_amplitude g /\
  (forall t, ~ inside (trap_to_pwl g) t -> eval (trap_to_pwl g) t == 0).
Proof. exact wave_support. Qed.
Print Assumptions trap_wave_support.

(* ---- non-vacuity: each supported argument set returns an event on the default system ------------- *)
Example ex_area_triangle : is_ok (make_trap (with_area ex_args 1)) = true.
Proof. vm_compute. reflexivity. Qed.
Example ex_area_plateau_negative : is_ok (make_trap (with_area ex_args (-3406080))) = true.
Proof. vm_compute. reflexivity. Qed.
Example ex_area_zero : is_ok (make_trap (with_area ex_args 0)) = true.
Proof. vm_compute. reflexivity. Qed.
Example ex_area_override : is_ok (make_trap (with_max_slew (with_area ex_args 100) 1000000000)) = true.
Proof. vm_compute. reflexivity. Qed.
Example ex_area_duration : is_ok (make_trap (with_duration (with_area ex_args 1) 1)) = true.
Proof. vm_compute. reflexivity. Qed.
Example ex_area_duration_exactly_minimal : is_ok (make_trap (with_duration (with_area ex_args 1) (us 40))) = true.
Proof. vm_compute. reflexivity. Qed.
Example ex_area_duration_rise_fall :
  is_ok (make_trap (with_fall (with_rise (with_duration (with_area ex_args (-1)) (us 1000)) (us 100)) (us 200))) = true.
Proof. vm_compute. reflexivity. Qed.
Example ex_area_flat_time_rise_fall :
  is_ok (make_trap (with_fall (with_rise (with_flat_time (with_area ex_args (2808 # 100)) (us 368)) (us 92)) (us 80))) = true.
Proof. vm_compute. reflexivity. Qed.
Example ex_amplitude_duration : is_ok (make_trap (with_duration (with_amplitude ex_args 1000000) (us 400))) = true.
Proof. vm_compute. reflexivity. Qed.
Example ex_amplitude_duration_triangle :
  is_ok (make_trap (with_rise (with_duration (with_amplitude ex_args (-50000)) (us 40)) (us 20))) = true.
Proof. vm_compute. reflexivity. Qed.
Example ex_amplitude_flat_time_fall :
  is_ok (make_trap (with_fall (with_flat_time (with_amplitude ex_args 1000000) (us 1000)) (us 300))) = true.
Proof. vm_compute. reflexivity. Qed.
Example ex_flat_area_flat_time : is_ok (make_trap (with_flat_time (with_flat_area ex_args (-100)) (us 1000))) = true.
Proof. vm_compute. reflexivity. Qed.
(* the reproducer of defect 14 is rejected by the repaired code (final timing validation), as are
   requests beyond a limit *)
Example ex_defect14_rejected :
  err_is (make_trap (with_duration (with_amplitude ex_args 1000000) (us 100))) E_timing = true.
Proof. vm_compute. reflexivity. Qed.
Example ex_too_short_rejected :
  err_is (make_trap (with_duration (with_area ex_args 1) (us 30))) E_min_duration = true.
Proof. vm_compute. reflexivity. Qed.
Example ex_negative_flat_time_rejected :
  err_is (make_trap (with_flat_time (with_amplitude ex_args 1000) (- us 100))) E_timing = true.
Proof. vm_compute. reflexivity. Qed.
Example ex_negative_rise_rejected :
  err_is (make_trap (with_rise (with_flat_time (with_amplitude ex_args 1000) (us 100)) (- us 100))) E_timing = true.
Proof. vm_compute. reflexivity. Qed.
Example ex_slew_rejected :
  err_is (make_trap (with_rise (with_flat_time (with_amplitude ex_args 1000000) (us 1000)) (us 100))) E_slew_rise = true.
Proof. vm_compute. reflexivity. Qed.
(* a competitor for trap_near_optimal exists: the hypotheses of that theorem are satisfiable *)
Example ex_competitor : let a := with_area ex_args 1 in
  Qabs 50000 <= eff_max_grad a /\ Qabs 50000 / us 20 <= eff_max_slew a /\
  50000 * (us 20 / 2 + 0 + us 20 / 2) == 1.
Proof. vm_compute. repeat split; discriminate. Qed.
