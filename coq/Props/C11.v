(* Props/C11.v — make_trapezoid realises the requested area, amplitude and timing. *)
From Coq Require Import ZArith QArith Qabs Bool.
From PV Require Import Base.QUtil Gen.GenTrap Model.Trap Proofs.TrapProofs.
Open Scope Q_scope.
