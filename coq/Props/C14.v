(* Props/C14.v — Shape compression is lossless to 5e-8 and never ambiguous.
   Only statements, each closed by [exact] of a lemma from Proofs/, with Print Assumptions. *)
From Coq Require Import ZArith QArith Qabs List Bool Arith.
From PV Require Import Base.QUtil Gen.GenShape Model.Shape Proofs.ShapeProofs Gen.GenTimeShape Model.TimeShape Proofs.TimeShapeProofs.
Import ListNotations.
Open Scope Q_scope.

(* Run-length layer: for EVERY integer sequence (all lengths, all value patterns, including runs
   whose count field equals a neighbouring value), the marker-based decoder inverts the encoder. *)
Theorem C14_unpack_pack : forall l : list Z, unpack_go (pack l) 0 = Some (map qv l).
Proof. exact unpack_pack. Qed.
Print Assumptions C14_unpack_pack.

(* Quantisation layer: the error-feedback derivative coding reconstructs every sample to within
   half a quantum. *)
Theorem C14_quantise_close : forall xs : list Q,
  Forall2 (fun x y => Qabs (y - x) <= 5 # 100000000) xs
          (map (fun c => inject_Z c * quant_factor) (cumsumZ (quantise xs))).
Proof. exact quantise_close_lit. Qed.
Print Assumptions C14_quantise_close.

(* Whole codec, both settings of the force flags, all arrays (empty and short ones included):
   decoding never fails, never takes the wrong (raw/compressed) branch, and is within 5e-8. *)
(* (compress_shape(force_compression=True) indexes x[0] and raises on the empty array; the model is
   total there, so that input is excluded from the statement rather than claimed.) *)
Theorem C14_codec_roundtrip : forall (force : bool) (x : list Q), (force = true -> x <> []) ->
  exists y, decompress force (compress force x) = Some y /\
            length y = length x /\
            Forall2 (fun a b => Qabs (b - a) <= 5 # 100000000) x y.
Proof. intros force x _. exact (codec_roundtrip_lit force x). Qed.
Print Assumptions C14_codec_roundtrip.

Theorem C14_compressed_not_longer : forall x : list Q,
  (length (cdata (compress false x)) <= length x)%nat.
Proof. exact compressed_not_longer. Qed.
Print Assumptions C14_compressed_not_longer.

Theorem C14_num_samples : forall force x, num_samples (compress force x) = length x.
Proof. exact num_samples_compress. Qed.
Print Assumptions C14_num_samples.

(* Non-vacuity / sanity: a stream with a value-count collision. Run of five zeros is packed as
   (0, 0, 3); the next literal 3e-7... here: run of 2 zeros gives (0,0,0): three equal tokens. *)
Example C14_collision_example :
  pack [0; 0; 0; 0; 5; 5; 2; 2; 2]%Z = [qv 0; qv 0; cnt 4; qv 5; qv 5; cnt 2; qv 2; qv 2; cnt 3] /\
  unpack_go (pack [0; 0; 30000000; 7]%Z) 0 = Some (map qv [0; 0; 30000000; 7]%Z).
Proof. split; [reflexivity|apply unpack_pack]. Qed.

(* ---- time points: "regular" (no time shape stored) or explicit -- never ambiguous --------------------------- *)
(* The decision of register_grad_event (tolerance read from block.py into Gen/GenTimeShape.v) and the two decoding
   expressions of get_block.  A time vector with ANY point on the gradient raster (the corner times of an extended
   trapezoid) is never taken for a raster-sampled waveform, whatever the other points are ... *)
Theorem C14_on_raster_point_never_regular : forall raster tt i n,
  0 < raster -> nth_error tt i = Some (inject_Z n * raster) -> tt_regular raster tt = false.
Proof. exact any_on_raster_point_not_regular. Qed.
Print Assumptions C14_on_raster_point_never_regular.

(* ... raster-centred samples always are, for every raster and length ... *)
Theorem C14_raster_centres_always_regular : forall raster n,
  0 < raster -> tt_regular raster (centres_from raster 0 n) = true.
Proof. exact raster_centres_always_regular. Qed.
Print Assumptions C14_raster_centres_always_regular.

(* ... an explicit time shape gives back exactly the time points handed over (the stored vector itself goes through
   the codec of the theorems above), and a vector judged regular decodes to within tolerance x raster of them. *)
Theorem C14_explicit_time_shape_roundtrip : forall raster tt u,
  0 < raster -> stored_time_shape raster tt = Some u ->
  Forall2 Qeq (decoded_tt raster (length tt) (Some u)) tt.
Proof. exact explicit_roundtrip. Qed.
Print Assumptions C14_explicit_time_shape_roundtrip.

Theorem C14_regular_time_points_close : forall raster tt,
  0 < raster -> stored_time_shape raster tt = None ->
  Forall2 (fun d t => Qabs (d - t) < tt_tol * raster) (decoded_tt raster (length tt) None) tt.
Proof. exact regular_decodes_close. Qed.
Print Assumptions C14_regular_time_points_close.

Example C14_time_shape_example := ts_example.
