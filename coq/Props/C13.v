(* Props/C13.v — RF pulse makers deliver the flip angle, timing and slice gradient asked for.
   Only statements, each closed by [exact]/[apply] of lemmas from Proofs/RfProofs.v, with Print Assumptions.

   Conventions (Model/Rf.v): the un-normalised envelope [w] (window * sinc, window * gauss; for make_arbitrary_rf
   the user's signal) and [pi] are ARBITRARY arguments; the arithmetic expressions are the functions of Gen/GenRf.v,
   regenerated from the source on every run.  [eff_dwell Sy dwell0] = dwell0, or the RF raster when dwell0 = 0.
   All theorems are about calls that return an event ([... = Ok ...]); the error branches mirror the raises. *)
From Coq Require Import String ZArith QArith Qabs List Bool Arith.
From PV Require Import Base.QUtil Gen.GenRf Model.Rf Proofs.RfProofs.
Import ListNotations.
Open Scope Q_scope.

(* ---- flip angle ------------------------------------------------------------------------------------------- *)
(* sinc / gauss: 2*pi * sum(signal) * dwell = flip angle, for every envelope whose samples do not sum to zero *)
Theorem C13_sinc_flip_exact :
  forall Sy pi w flip delay duration dwell0 cp fo po bw0 tbw rgz th mg ms use r g,
  make_sinc Sy pi w flip delay duration dwell0 cp fo po bw0 tbw rgz th mg ms use = Ok (r, g) ->
  ~ sumQ w == 0 -> 0 < pi ->
  2 * pi * eff_dwell Sy dwell0 * sumQ (r_signal r) == flip.
Proof. intros. eapply (shaped_flip false sinc_x sinc_spec); eassumption. Qed.
Print Assumptions C13_sinc_flip_exact.

Theorem C13_gauss_flip_exact :
  forall Sy pi w flip delay duration dwell0 cp fo po bw0 tbw rgz th mg ms use r g,
  make_gauss Sy pi w flip delay duration dwell0 cp fo po bw0 tbw rgz th mg ms use = Ok (r, g) ->
  ~ sumQ w == 0 -> 0 < pi ->
  2 * pi * eff_dwell Sy dwell0 * sumQ (r_signal r) == flip.
Proof. intros. eapply (shaped_flip true gauss_x gauss_spec); eassumption. Qed.
Print Assumptions C13_gauss_flip_exact.

(* the bare normalisation, as named in the design *)
Theorem C13_flip_exact : forall w flip dwell pi,
  ~ sumQ w == 0 -> 0 < dwell -> 0 < pi ->
  2 * pi * dwell * sumQ (shaped_signal sinc_x w flip dwell pi) == flip /\
  2 * pi * dwell * sumQ (shaped_signal gauss_x w flip dwell pi) == flip.
Proof.
  intros w flip dwell pi Hs Hd Hp.
  assert (~ dwell == 0) by (intro E; rewrite E in Hd; discriminate).
  assert (~ pi == 0) by (intro E; rewrite E in Hp; discriminate).
  split; apply shaped_flip_exact; auto using sinc_spec, gauss_spec.
Qed.
Print Assumptions C13_flip_exact.

(* block pulse with a duration on the RF raster: two end points [0, duration], constant amplitude s with
   2*pi*s*duration = flip; shape_dur = N*raster = duration *)
Theorem C13_block_flip_exact : forall Sy pi flip delay dur fo po use r (N : Z),
  make_block Sy pi flip delay (Some dur) None None fo po use = Ok r ->
  0 < pi -> dur == inject_Z N * s_rf_raster Sy ->
  exists s t0 t1, r_signal r = [s; s] /\ r_t r = [t0; t1] /\ t0 == 0 /\ t1 == dur /\
    r_shape_dur r == dur /\ r_shape_dur r == inject_Z N * s_rf_raster Sy /\
    2 * pi * (s * (t1 - t0)) == flip.
Proof. exact block_flip. Qed.
Print Assumptions C13_block_flip_exact.

(* make_arbitrary_rf with scaling: the flip angle for a user signal of positive sum; MINUS the flip angle for a
   negative sum (the scaling divides by abs(sum)); the magnitude in general *)
Theorem C13_arbitrary_flip_exact :
  forall Sy pi w flip bw0 delay dwell0 fo po mg ms rgz th tbw use r g,
  make_arbitrary Sy pi w flip bw0 delay dwell0 fo po false mg ms rgz th tbw use = Ok (r, g) ->
  0 < eff_dwell Sy dwell0 -> 0 < pi ->
  (0 < sumQ w -> 2 * pi * eff_dwell Sy dwell0 * sumQ (r_signal r) == flip) /\
  (sumQ w < 0 -> 2 * pi * eff_dwell Sy dwell0 * sumQ (r_signal r) == - flip) /\
  (~ sumQ w == 0 -> Qabs (2 * pi * eff_dwell Sy dwell0 * sumQ (r_signal r)) == Qabs flip).
Proof. intros. eapply arb_flip; eauto. Qed.
Print Assumptions C13_arbitrary_flip_exact.

(* the literal statement "integral = flip angle for every user signal" is false of the code: witness *)
Theorem C13_arbitrary_flip_negative_sum_refuted :
  exists Sy pi w flip r,
    make_arbitrary Sy pi w flip 0 0 0 0 0 false 0 0 false 0 0 0%nat = Ok (r, None) /\ 0 < pi /\
    ~ 2 * pi * eff_dwell Sy 0 * sumQ (r_signal r) == flip.
Proof.
  exists (mkSys 0 0 (1 # 1000000) (1 # 100000) 1000000 1000000000), (22 # 7), [- (1); - (1)], 1.
  eexists. split; [vm_compute; reflexivity|]. split; [reflexivity|]. vm_compute. discriminate.
Qed.
Print Assumptions C13_arbitrary_flip_negative_sum_refuted.

(* scaling linearity: multiplying the flip angle by c multiplies every sample by c *)
Theorem C13_flip_linear_sinc :
  forall Sy pi w c flip delay duration dwell0 cp fo po bw0 tbw rgz th mg ms use r1 g1 r2 g2,
  make_sinc Sy pi w flip delay duration dwell0 cp fo po bw0 tbw rgz th mg ms use = Ok (r1, g1) ->
  make_sinc Sy pi w (c * flip) delay duration dwell0 cp fo po bw0 tbw rgz th mg ms use = Ok (r2, g2) ->
  Forall2 (fun x y => x == c * y) (r_signal r2) (r_signal r1).
Proof. intros. eapply (shaped_linear_in_flip false sinc_x sinc_spec); eassumption. Qed.
Print Assumptions C13_flip_linear_sinc.

Theorem C13_flip_linear_gauss :
  forall Sy pi w c flip delay duration dwell0 cp fo po bw0 tbw rgz th mg ms use r1 g1 r2 g2,
  make_gauss Sy pi w flip delay duration dwell0 cp fo po bw0 tbw rgz th mg ms use = Ok (r1, g1) ->
  make_gauss Sy pi w (c * flip) delay duration dwell0 cp fo po bw0 tbw rgz th mg ms use = Ok (r2, g2) ->
  Forall2 (fun x y => x == c * y) (r_signal r2) (r_signal r1).
Proof. intros. eapply (shaped_linear_in_flip true gauss_x gauss_spec); eassumption. Qed.
Print Assumptions C13_flip_linear_gauss.

Theorem C13_flip_linear_arbitrary :
  forall Sy pi w c flip bw0 delay dwell0 fo po mg ms rgz th tbw use r1 g1 r2 g2,
  make_arbitrary Sy pi w flip bw0 delay dwell0 fo po false mg ms rgz th tbw use = Ok (r1, g1) ->
  make_arbitrary Sy pi w (c * flip) bw0 delay dwell0 fo po false mg ms rgz th tbw use = Ok (r2, g2) ->
  Forall2 (fun x y => x == c * y) (r_signal r2) (r_signal r1).
Proof. exact arb_linear_in_flip. Qed.
Print Assumptions C13_flip_linear_arbitrary.

(* ---- sample grid and shape_dur ---------------------------------------------------------------------------- *)
(* N = round(duration/dwell) samples, t_i = (i + 1/2)*dwell (centres of consecutive dwell cells: first = dwell/2,
   spacing exactly dwell, hence strictly increasing for dwell > 0), last = shape_dur - dwell/2 *)
Theorem C13_sample_times_centres :
  forall gauss Sy pi w flip delay duration dwell0 cp fo po bw0 tbw rgz th mg ms use r g,
  make_shaped gauss (if gauss then gauss_x else sinc_x) Sy pi w flip delay duration dwell0 cp fo po bw0 tbw rgz th mg ms use
    = Ok (r, g) ->
  let dwell := eff_dwell Sy dwell0 in
  let N := Z.to_nat (rnd_he (duration / dwell)) in
  length (r_t r) = length (r_signal r) /\ length (r_signal r) = N /\
  (forall i, (i < N)%nat -> nth i (r_t r) 0 == (inject_Z (Z.of_nat i) + (1 # 2)) * dwell) /\
  (forall i, (S i < N)%nat -> nth (S i) (r_t r) 0 - nth i (r_t r) 0 == dwell) /\
  ((0 < N)%nat -> nth (N - 1) (r_t r) 0 == r_shape_dur r - dwell / 2).
Proof.
  intros gauss Sy pi w flip delay duration dwell0 cp fo po bw0 tbw rgz th mg ms use r g H dwell N.
  assert (SP : shaped_spec (if gauss then gauss_x else sinc_x)) by (destruct gauss; [apply gauss_spec|apply sinc_spec]).
  destruct (shaped_grid _ _ SP _ _ _ _ _ _ _ _ _ _ _ _ _ _ _ _ _ _ _ H) as (A & B & C & D).
  repeat split; auto.
  intro P. eapply (shaped_last _ _ SP); eauto.
Qed.
Print Assumptions C13_sample_times_centres.

(* shape_dur = N*dwell; and = duration whenever the duration is a multiple of dwell *)
Theorem C13_shape_dur_is_n_dwell :
  forall gauss Sy pi w flip delay duration dwell0 cp fo po bw0 tbw rgz th mg ms use r g,
  make_shaped gauss (if gauss then gauss_x else sinc_x) Sy pi w flip delay duration dwell0 cp fo po bw0 tbw rgz th mg ms use
    = Ok (r, g) ->
  let dwell := eff_dwell Sy dwell0 in
  (0 <= duration / dwell -> r_shape_dur r == inject_Z (Z.of_nat (length (r_signal r))) * dwell) /\
  (forall N : Z, duration == inject_Z N * dwell ->
     rnd_he (duration / dwell) = N /\ r_shape_dur r == duration).
Proof.
  intros gauss Sy pi w flip delay duration dwell0 cp fo po bw0 tbw rgz th mg ms use r g H dwell.
  assert (SP : shaped_spec (if gauss then gauss_x else sinc_x)) by (destruct gauss; [apply gauss_spec|apply sinc_spec]).
  destruct (shaped_shape_dur _ _ SP _ _ _ _ _ _ _ _ _ _ _ _ _ _ _ _ _ _ _ H) as (_ & B & C).
  split; assumption.
Qed.
Print Assumptions C13_shape_dur_is_n_dwell.

Theorem C13_arbitrary_grid :
  forall Sy pi w flip bw0 delay dwell0 fo po noscale mg ms rgz th tbw use r g,
  make_arbitrary Sy pi w flip bw0 delay dwell0 fo po noscale mg ms rgz th tbw use = Ok (r, g) ->
  let dwell := eff_dwell Sy dwell0 in
  length (r_t r) = length w /\ (noscale = false -> length (r_signal r) = length w) /\
  (forall i, (i < length w)%nat -> nth i (r_t r) 0 == (inject_Z (Z.of_nat i) + (1 # 2)) * dwell) /\
  r_shape_dur r == inject_Z (Z.of_nat (length w)) * dwell.
Proof. intros. eapply arb_grid; eauto. Qed.
Print Assumptions C13_arbitrary_grid.

Theorem C13_adiabatic_grid :
  forall Sy delay duration dwell0 fo po rgz th bw tc use r g,
  make_adiabatic_timing Sy delay duration dwell0 fo po rgz th bw tc use = Ok (r, g) ->
  let dwell := adia_dwell Sy dwell0 in
  let nz := rnd_he (duration / dwell + rf_eps) in
  length (r_t r) = Z.to_nat nz /\ r_shape_dur r == inject_Z nz * dwell /\
  (forall i, (i < Z.to_nat nz)%nat -> nth i (r_t r) 0 == (inject_Z (Z.of_nat i) + (1 # 2)) * dwell).
Proof.
  intros Sy delay duration dwell0 fo po rgz th bw tc use r g H dwell nz.
  destruct (adia_grid _ _ _ _ _ _ _ _ _ _ _ _ _ H) as (A & B).
  destruct (adia_fields _ _ _ _ _ _ _ _ _ _ _ _ _ H) as (_ & SD & _).
  repeat split; assumption.
Qed.
Print Assumptions C13_adiabatic_grid.

(* ---- dead time, pass-through ------------------------------------------------------------------------------- *)
(* whatever delay was asked for, the returned RF delay is at least the RF dead time and at least the request;
   without a slice gradient it is exactly max(delay, dead time); offsets, use, dead time and ring-down fields
   are passed through *)
Theorem C13_delay_ge_dead_time_and_passthrough_shaped :
  forall gauss Sy pi w flip delay duration dwell0 cp fo po bw0 tbw rgz th mg ms use r g,
  make_shaped gauss (if gauss then gauss_x else sinc_x) Sy pi w flip delay duration dwell0 cp fo po bw0 tbw rgz th mg ms use
    = Ok (r, g) ->
  s_rf_dead Sy <= r_delay r /\ delay <= r_delay r /\
  (g = None -> r_delay r == Qmax delay (s_rf_dead Sy)) /\
  r_freq r = fo /\ r_phase r = po /\ r_use r = use_field use /\ (use <= rf_uses_count)%nat /\
  r_dead r = s_rf_dead Sy /\ r_ring r = s_rf_ring Sy /\
  rf_end r == r_delay r + r_shape_dur r + s_rf_ring Sy.
Proof.
  intros gauss Sy pi w flip delay duration dwell0 cp fo po bw0 tbw rgz th mg ms use r g H.
  assert (SP : shaped_spec (if gauss then gauss_x else sinc_x)) by (destruct gauss; [apply gauss_spec|apply sinc_spec]).
  destruct (shaped_fields _ _ SP _ _ _ _ _ _ _ _ _ _ _ _ _ _ _ _ _ _ _ H) as (_ & _ & _ & F & P & D & R & U & UL & DL & DN & _).
  pose proof (dead_time_rule_ge_dead (s_rf_dead Sy) delay). pose proof (dead_time_rule_ge_delay (s_rf_dead Sy) delay).
  repeat split; auto.
  - eapply Qle_trans; eassumption.
  - eapply Qle_trans; eassumption.
  - intro G. rewrite (DN G). apply dead_time_rule_is_max.
  - unfold rf_end, rf_event_end. rewrite R. reflexivity.
Qed.
Print Assumptions C13_delay_ge_dead_time_and_passthrough_shaped.

Theorem C13_delay_ge_dead_time_and_passthrough_block :
  forall Sy pi flip delay duration bandwidth tbw fo po use r,
  make_block Sy pi flip delay duration bandwidth tbw fo po use = Ok r ->
  s_rf_dead Sy <= r_delay r /\ r_delay r == Qmax delay (s_rf_dead Sy) /\
  r_freq r = fo /\ r_phase r = po /\ r_use r = use_field use /\ (use <= rf_uses_count)%nat /\
  r_dead r = s_rf_dead Sy /\ r_ring r = s_rf_ring Sy.
Proof.
  intros Sy pi flip delay duration bandwidth tbw fo po use r H.
  apply make_block_inv in H. destruct H as (d & _ & _ & _ & U & _ & _ & _ & F & P & D & R & DL & UF).
  rewrite DL. repeat split; auto.
  - apply dead_time_rule_ge_dead.
  - apply dead_time_rule_is_max.
Qed.
Print Assumptions C13_delay_ge_dead_time_and_passthrough_block.

Theorem C13_delay_ge_dead_time_and_passthrough_arbitrary :
  forall Sy pi w flip bw0 delay dwell0 fo po noscale mg ms rgz th tbw use r g,
  make_arbitrary Sy pi w flip bw0 delay dwell0 fo po noscale mg ms rgz th tbw use = Ok (r, g) ->
  s_rf_dead Sy <= r_delay r /\ delay <= r_delay r /\
  (g = None -> r_delay r == Qmax delay (s_rf_dead Sy)) /\
  r_freq r = fo /\ r_phase r = po /\ r_use r = use_field use /\ (use <= rf_uses_count)%nat /\
  r_dead r = s_rf_dead Sy /\ r_ring r = s_rf_ring Sy.
Proof.
  intros Sy pi w flip bw0 delay dwell0 fo po noscale mg ms rgz th tbw use r g H.
  destruct (arb_fields _ _ _ _ _ _ _ _ _ _ _ _ _ _ _ _ _ _ H) as (_ & _ & _ & F & P & D & R & U & UL & DL & DN).
  pose proof (dead_time_rule_ge_dead (s_rf_dead Sy) delay). pose proof (dead_time_rule_ge_delay (s_rf_dead Sy) delay).
  repeat split; auto.
  - eapply Qle_trans; eassumption.
  - eapply Qle_trans; eassumption.
  - intro G. rewrite (DN G). apply dead_time_rule_is_max.
Qed.
Print Assumptions C13_delay_ge_dead_time_and_passthrough_arbitrary.

Theorem C13_delay_ge_dead_time_and_passthrough_adiabatic :
  forall Sy delay duration dwell0 fo po rgz th bw tc use r g,
  make_adiabatic_timing Sy delay duration dwell0 fo po rgz th bw tc use = Ok (r, g) ->
  s_rf_dead Sy <= r_delay r /\ delay <= r_delay r /\
  r_freq r = fo /\ r_phase r = po /\ r_use r = Some (adia_use use) /\
  r_dead r = s_rf_dead Sy /\ r_ring r = s_rf_ring Sy.
Proof.
  intros Sy delay duration dwell0 fo po rgz th bw tc use r g H.
  destruct (adia_fields _ _ _ _ _ _ _ _ _ _ _ _ _ H) as (_ & _ & F & P & D & R & U & UL & DL & DN).
  pose proof (dead_time_rule_ge_dead (s_rf_dead Sy) delay). pose proof (dead_time_rule_ge_delay (s_rf_dead Sy) delay).
  repeat split; auto; eapply Qle_trans; eassumption.
Qed.
Print Assumptions C13_delay_ge_dead_time_and_passthrough_adiabatic.

(* ---- slice-select gradient -------------------------------------------------------------------------------- *)
(* sinc / gauss with return_gz: flat top = pulse duration with amplitude bandwidth/thickness (bandwidth =
   tbw/duration, or the bandwidth argument of make_gauss_pulse); symmetric ramps on the gradient raster; the RF
   starts EXACTLY at the start of the flat top (so never before it); gz.delay is a non-negative multiple of the
   gradient raster and less than one raster later than necessary; the amplitude respects max_grad (+eps);
   rephaser area = -(flat area after the centre + half the ramp area) = the code's formula; for centre 1/2 it is
   minus half of the slice-select area.  Hypotheses: positive gradient raster not below eps = 1e-9 s (make_trapezoid
   snaps a flat time in (-eps, 0) to 0), positive max_grad, non-negative duration (make_gauss_pulse accepts
   negative ones). *)
Theorem C13_slice_select_shaped :
  forall gauss Sy pi w flip delay duration dwell0 cp fo po bw0 tbw rgz th mg ms use r gz gzr,
  make_shaped gauss (if gauss then gauss_x else sinc_x) Sy pi w flip delay duration dwell0 cp fo po bw0 tbw rgz th mg ms use
    = Ok (r, Some (gz, gzr)) ->
  rf_eps <= s_grad_raster Sy -> 0 < s_grad_raster Sy -> 0 < override mg (s_max_grad Sy) -> 0 <= duration ->
  let bandwidth := shaped_bandwidth gauss bw0 tbw duration in
  (* gz_flat_top *)
  g_flat gz = duration /\ g_amp gz == bandwidth / th /\ g_flat_area gz == bandwidth / th * duration /\
  g_fall gz = g_rise gz /\
  (* gz_delay_on_raster *)
  (exists k : Z, (1 <= k)%Z /\ g_rise gz = inject_Z k * s_grad_raster Sy) /\
  (exists k : Z, (0 <= k)%Z /\ g_delay gz == inject_Z k * s_grad_raster Sy) /\
  g_delay gz < Qmax (dead_time_rule (s_rf_dead Sy) delay - g_rise gz) 0 + s_grad_raster Sy /\
  (* rf_not_before_flat, in its exact form *)
  r_delay r == g_delay gz + g_rise gz /\ g_delay gz + g_rise gz <= r_delay r /\
  Qabs (g_amp gz) <= override mg (s_max_grad Sy) + rf_eps /\
  (* gzr_area *)
  g_area gzr == - (g_amp gz * duration * (1 - cp) + g_amp gz * g_fall gz / 2) /\
  g_area gzr == - (g_flat_area gz) * (1 - cp) - (1 # 2) * (g_area gz - g_flat_area gz) /\
  (cp == 1 # 2 -> g_area gzr == - (g_area gz / 2)).
Proof.
  intros gauss Sy pi w flip delay duration dwell0 cp fo po bw0 tbw rgz th mg ms use r gz gzr H Hre Hr Hmg Hdur bandwidth.
  assert (SP : shaped_spec (if gauss then gauss_x else sinc_x)) by (destruct gauss; [apply gauss_spec|apply sinc_spec]).
  destruct (shaped_gz _ _ SP _ _ _ _ _ _ _ _ _ _ _ _ _ _ _ _ _ _ _ H gz gzr eq_refl Hre Hr Hmg Hdur)
    as (_ & _ & A & B & C & D & E & F & G & I & J & K & L & M).
  repeat split; auto. rewrite F. apply Qle_refl.
Qed.
Print Assumptions C13_slice_select_shaped.

Theorem C13_slice_select_arbitrary :
  forall Sy pi w flip bw0 delay dwell0 fo po noscale mg ms rgz th tbw use r gz,
  make_arbitrary Sy pi w flip bw0 delay dwell0 fo po noscale mg ms rgz th tbw use = Ok (r, Some gz) ->
  0 < s_grad_raster Sy -> 0 <= eff_dwell Sy dwell0 ->
  let duration := arb_duration (inject_Z (Z.of_nat (length w))) (eff_dwell Sy dwell0) in
  g_flat gz = duration /\ r_shape_dur r = duration /\ g_amp gz == arb_bandwidth bw0 tbw duration / th /\
  g_fall gz = g_rise gz /\
  (exists k : Z, (1 <= k)%Z /\ g_rise gz = inject_Z k * s_grad_raster Sy) /\
  (exists k : Z, (0 <= k)%Z /\ g_delay gz == inject_Z k * s_grad_raster Sy) /\
  r_delay r == g_delay gz + g_rise gz.
Proof.
  intros Sy pi w flip bw0 delay dwell0 fo po noscale mg ms rgz th tbw use r gz H Hr Hdw duration.
  assert (Hdur : 0 <= duration).
  { unfold duration, arb_duration. apply Qmult_le_0_compat; [|exact Hdw].
    change 0 with (inject_Z 0). rewrite <- Zle_Qle. apply Nat2Z.is_nonneg. }
  destruct (arb_gz _ _ _ _ _ _ _ _ _ _ _ _ _ _ _ _ _ _ H gz eq_refl Hr Hdur) as (_ & _ & A & B & C & D & E & F & _).
  destruct (arb_fields _ _ _ _ _ _ _ _ _ _ _ _ _ _ _ _ _ _ H) as (_ & _ & SD & _).
  repeat split; auto.
Qed.
Print Assumptions C13_slice_select_arbitrary.

(* adiabatic pulse: same flat top and coupling; the rephaser area as the code computes it, and the statement
   "minus the area after the pulse centre" under the hypothesis that the centre position handed to the formula is
   the FRACTION time_centre/duration *)
Theorem C13_slice_select_adiabatic :
  forall Sy delay duration dwell0 fo po rgz th bw tc use r gz gzr,
  make_adiabatic_timing Sy delay duration dwell0 fo po rgz th bw tc use = Ok (r, Some (gz, gzr)) ->
  rf_eps <= s_grad_raster Sy -> 0 < s_grad_raster Sy -> 0 < s_max_grad Sy -> 0 <= duration ->
  g_flat gz = duration /\ g_amp gz == bw / th /\ g_fall gz = g_rise gz /\
  (exists k : Z, (1 <= k)%Z /\ g_rise gz = inject_Z k * s_grad_raster Sy) /\
  (exists k : Z, (0 <= k)%Z /\ g_delay gz == inject_Z k * s_grad_raster Sy) /\
  r_delay r == g_delay gz + g_rise gz /\
  g_area gzr == - (g_flat_area gz) * (1 - adia_center_pos tc duration) - (1 # 2) * (g_area gz - g_flat_area gz) /\
  (adia_center_pos tc duration == tc / duration ->
     g_area gzr == - (g_amp gz * (duration - tc) + g_amp gz * g_fall gz / 2)).
Proof.
  intros Sy delay duration dwell0 fo po rgz th bw tc use r gz gzr H Hre Hr Hmg Hdur.
  destruct (adia_gz _ _ _ _ _ _ _ _ _ _ _ _ _ H gz gzr eq_refl Hre Hr Hmg Hdur) as (_ & _ & A & B & C & D & E & F & G & I).
  repeat split; auto.
Qed.
Print Assumptions C13_slice_select_adiabatic.

(* On the source as it is, calc_rf_center's TIME (seconds) is used as that fraction: then the rephaser is NOT minus
   the area after the centre.  Stated so that it stays provable after the one-line repair (its hypothesis then
   fails): if the generated centre expression returns the time itself, the following call is a counterexample. *)
Theorem C13_adiabatic_gzr_area_refuted_while_centre_is_a_time :
  adia_center_pos (1 # 200) (1 # 100) == 1 # 200 ->
  exists Sy delay duration dwell0 th bw tc r gz gzr,
    make_adiabatic_timing Sy delay duration dwell0 0 0 true th bw tc 0 = Ok (r, Some (gz, gzr)) /\
    0 < tc /\ tc < duration /\
    ~ g_area gzr == - (g_amp gz * (duration - tc) + g_amp gz * g_fall gz / 2).
Proof.
  intro Hc.
  destruct (Qeq_bool (adia_center_pos (1 # 200) (1 # 100)) (1 # 200)) eqn:E;
    [|apply Qeq_bool_iff in Hc; rewrite Hc in E; discriminate E].
  first [ (vm_compute in E; discriminate E)
        | (exists (mkSys (1 # 10000) 0 (1 # 1000000) (1 # 100000) 1700000 7000000000), 0, (1 # 100), None, (1 # 100),
                 1248, (1 # 200);
           eexists; eexists; eexists; split; [vm_compute; reflexivity|];
           split; [reflexivity|]; split; [reflexivity|]; vm_compute; discriminate) ].
Qed.
Print Assumptions C13_adiabatic_gzr_area_refuted_while_centre_is_a_time.

(* ---- round 2 ------------------------------------------------------------------------------------------------ *)
(* (1) The runner executes fast forms (normalisation factor computed once, dyadic summation); they return the same
   result as the specification forms above: same error, same gradients, same RF event except that the signal samples
   are pointwise == .  So every theorem about make_sinc / make_gauss / make_arbitrary transfers to what is run. *)
Theorem C13_fast_form_shaped :
  forall gauss Sy pi w flip delay duration dwell0 cp fo po bw0 tbw rgz th mg ms use,
  same_up_to_signal
    (make_shaped_fast gauss (if gauss then gauss_x else sinc_x) Sy pi w flip delay duration dwell0 cp fo po bw0 tbw rgz th mg ms use)
    (make_shaped gauss (if gauss then gauss_x else sinc_x) Sy pi w flip delay duration dwell0 cp fo po bw0 tbw rgz th mg ms use).
Proof.
  intros gauss. intros. apply make_shaped_fast_correct. destruct gauss; [apply gauss_spec|apply sinc_spec].
Qed.
Print Assumptions C13_fast_form_shaped.

Theorem C13_fast_form_arbitrary :
  forall Sy pi w flip bw0 delay dwell0 fo po ns mg ms rgz th tbw use,
  same_up_to_signal
    (make_arbitrary_fast Sy pi w flip bw0 delay dwell0 fo po ns mg ms rgz th tbw use)
    (make_arbitrary Sy pi w flip bw0 delay dwell0 fo po ns mg ms rgz th tbw use).
Proof. exact make_arbitrary_fast_correct. Qed.
Print Assumptions C13_fast_form_arbitrary.

Theorem C13_fast_signal_forms : forall w flip dwell pi ns,
  Forall2 Qeq (shaped_signal_fast sinc_x w flip dwell pi) (shaped_signal sinc_x w flip dwell pi) /\
  Forall2 Qeq (shaped_signal_fast gauss_x w flip dwell pi) (shaped_signal gauss_x w flip dwell pi) /\
  Forall2 Qeq (arb_signal_fast w ns flip dwell pi) (arb_signal w ns flip dwell pi) /\
  sumQ_fast w == sumQ w.
Proof.
  intros. split; [apply shaped_signal_fast_correct, sinc_spec|].
  split; [apply shaped_signal_fast_correct, gauss_spec|].
  split; [apply arb_signal_fast_correct|apply sumQ_fast_correct].
Qed.
Print Assumptions C13_fast_signal_forms.

(* (2) binary64 ceil threshold.  The code evaluates k = ceil((rf.delay - gz.rise_time)/raster) (and the test
   rf.delay > gz.rise_time) in binary64, the model exactly; near an integer quotient they may differ by one raster.
   For EVERY integer k in the delta-bracket around e = max(rf.delay - gz.rise_time, 0)
       0 <= k   and   e - delta*raster <= k*raster < e + raster + delta*raster
   (every ceil of a quotient perturbed by at most delta) the coupling with gz.delay = k*raster satisfies all clauses:
   RF not before the flat top (and at most delta*raster after its start), gz.delay a non-negative raster multiple,
   less than (1+delta) raster later than necessary, RF delay never decreased.  The harness accepts a one-raster
   disagreement only after checking that the implementation's k lies in this bracket with delta = 1e-6. *)
Theorem C13_ceil_threshold_bracket : forall k fr raster delta r gz r' gz',
  rf_delay_spec fr -> 0 < raster -> 0 <= delta ->
  in_bracket delta raster r gz k ->
  couple_with k fr raster r gz = (r', gz') ->
  g_delay gz' + g_rise gz' <= r_delay r' /\
  r_delay r' - (g_delay gz' + g_rise gz') <= delta * raster /\
  g_delay gz' = inject_Z k * raster /\ (0 <= k)%Z /\
  g_delay gz' < Qmax (r_delay r - g_rise gz) 0 + raster + delta * raster /\
  r_delay r <= r_delay r' /\
  r_delay r' < g_rise gz + Qmax (r_delay r - g_rise gz) 0 + raster + delta * raster /\
  g_rise gz' = g_rise gz /\ g_flat gz' = g_flat gz /\ g_amp gz' = g_amp gz /\ r_signal r' = r_signal r /\ r_t r' = r_t r.
Proof. exact couple_with_bracket. Qed.
Print Assumptions C13_ceil_threshold_bracket.

(* the model's own (exact) choice is the delta = 0 member of that family, for each maker's coupling expressions *)
Theorem C13_model_choice_in_bracket : forall raster r gz r' gz',
  0 < raster -> g_delay gz == 0 ->
  (couple sinc_gz_delay sinc_rf_delay raster r gz = (r', gz') \/
   couple gauss_gz_delay gauss_rf_delay raster r gz = (r', gz') \/
   couple arb_gz_delay arb_rf_delay raster r gz = (r', gz') \/
   couple adia_gz_delay adia_rf_delay raster r gz = (r', gz')) ->
  exists k : Z, in_bracket 0 raster r gz k /\ g_delay gz' == inject_Z k * raster /\
    r_delay r' == g_rise gz + inject_Z k * raster.
Proof.
  intros raster r gz r' gz' Hr D0 [H|[H|[H|H]]].
  - eapply couple_in_bracket; eauto. apply sinc_gz_delay_spec. intros a b; reflexivity.
  - eapply couple_in_bracket; eauto. apply gauss_gz_delay_spec. intros a b; reflexivity.
  - eapply couple_in_bracket; eauto. apply arb_gz_delay_spec. apply arb_rf_delay_spec.
  - eapply couple_in_bracket; eauto. apply adia_gz_delay_spec. apply adia_rf_delay_spec.
Qed.
Print Assumptions C13_model_choice_in_bracket.

(* (3) block pulse for ALL accepted argument sets (duration given, or derived from bandwidth / time_bw_product and then
   in general off the RF raster): with N = round(duration/raster) the pulse lasts N*raster and delivers exactly
   flip * N*raster/duration; the deviation from the requested flip angle is at most |flip| * raster/(2*duration).
   C13_block_flip_exact above is the case duration = N*raster. *)
Theorem C13_block_flip_general : forall Sy pi flip delay duration bandwidth tbw fo po use r,
  make_block Sy pi flip delay duration bandwidth tbw fo po use = Ok r -> 0 < pi ->
  exists dur s t0 t1,
    block_duration duration bandwidth tbw = Ok dur /\ 0 < dur /\
    r_signal r = [s; s] /\ r_t r = [t0; t1] /\ t0 == 0 /\
    let N := rnd_he (dur / s_rf_raster Sy) in
    t1 == inject_Z N * s_rf_raster Sy /\ r_shape_dur r == inject_Z N * s_rf_raster Sy /\
    2 * pi * (s * (t1 - t0)) == flip * (inject_Z N * s_rf_raster Sy / dur) /\
    (0 < s_rf_raster Sy ->
       Qabs (2 * pi * (s * (t1 - t0)) - flip) <= Qabs flip * (s_rf_raster Sy / (2 * dur))).
Proof. exact block_flip_general. Qed.
Print Assumptions C13_block_flip_general.

(* (5) for every RF event returned by a maker (non-negative dwell and duration) the last sample time does not exceed
   shape_dur: t[-1] = shape_dur - dwell/2 for the shaped pulses, t[-1] = shape_dur for the block pulse.
   (Used by C10: its DecodedRf hypothesis e_tlast <= e_shape_dur holds for maker-built events.) *)
Theorem C13_rf_t_last_le_shape_dur : forall r, rf_from_maker r -> last (r_t r) 0 <= r_shape_dur r.
Proof. exact rf_t_last_le_shape_dur. Qed.
Print Assumptions C13_rf_t_last_le_shape_dur.

Example C13_bracket_nonempty :
  in_bracket (1 # 1000000) (1 # 100000) (mkRf [] [] 0 0 0 0 0 (1 # 10000) None) (mkTrap 1 (3 # 100000) 1 (3 # 100000) 1 1 0) 7 /\
  in_bracket (1 # 1000000) (1 # 100000) (mkRf [] [] 0 0 0 0 0 (1 # 10000) None) (mkTrap 1 (3 # 100000) 1 (3 # 100000) 1 1 0) 8 /\
  ~ in_bracket (1 # 1000000) (1 # 100000) (mkRf [] [] 0 0 0 0 0 (1 # 10000) None) (mkTrap 1 (3 # 100000) 1 (3 # 100000) 1 1 0) 9.
Proof.
  unfold in_bracket. cbn [r_delay g_rise]. repeat split; try (vm_compute; discriminate); try (vm_compute; reflexivity).
  intros (_ & _ & H). vm_compute in H. discriminate H.
Qed.

(* ---- non-vacuity: the hypotheses are satisfiable (a call that returns all three events) --------------------- *)
Example C13_sinc_call_exists :
  exists r gz gzr,
    make_sinc (mkSys (1 # 10000) (3 # 100000) (1 # 1000000) (1 # 100000) 1700000 7000000000) (355 # 113)
              [1 # 4; 1; 1; 1 # 4] 1 0 (4 # 1000000) 0 (1 # 2) 0 0 0 4 true (1 # 1) 0 0 1%nat = Ok (r, Some (gz, gzr)) /\
    r_delay r == g_delay gz + g_rise gz /\ length (r_t r) = 4%nat /\ g_area gzr == - (g_area gz / 2).
Proof.
  eexists _, _, _. split; [vm_compute; reflexivity|]. split; [|split]; vm_compute; reflexivity.
Qed.

Example C13_rf_uses_count : length rf_uses = rf_uses_count /\ nth_error rf_uses (adia_default_use - 1) = Some "inversion"%string.
Proof. split; reflexivity. Qed.
