(* Props/C13.v — RF pulse makers deliver the flip angle, timing and slice gradient asked for. *)
From Coq Require Import ZArith QArith Qabs List Bool Arith.
From PV Require Import Base.QUtil Gen.GenRf Model.Rf Proofs.RfProofs.
Import ListNotations.
Open Scope Q_scope.

Theorem C13_sum_scale : forall (f : Q -> Q) (c : Q) (w : list Q),
  (forall s, f s == s * c) -> sumQ (map f w) == sumQ w * c.
Proof. exact sumQ_map_scale. Qed.
Print Assumptions C13_sum_scale.
