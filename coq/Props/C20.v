(* Props/C20.v — PNS prediction equals the SAFE model applied to the sequence gradients.
   Only statements, each closed by [exact] of a lemma from Proofs/PnsProofs.v, with Print Assumptions.
   [leq] is list equality up to Qeq.  All statements hold for EVERY sample list (any length), every
   hardware record (weights, time constants, limits), every gamma, dt, padding and tap count. *)
From Coq Require Import ZArith QArith Qabs List Bool Arith.
From PV Require Import Base.QUtil Gen.GenPns Model.Pns Proofs.PnsProofs Proofs.PnsE2E Proofs.PnsMod.
Import ListNotations.
Open Scope Q_scope.

(* safe_tau_lowpass = alpha * conv(x, (1-alpha)^k) truncated to n taps.  When the tap count covers
   the signal it IS the recursive first-order low-pass y_k = alpha x_k + (1-alpha) y_{k-1}. *)
Theorem C20_fir_full_is_iir : forall alpha n x, (length x <= n)%nat ->
  leq (lowpass_fir alpha n x) (lowpass_iir alpha x).
Proof. exact fir_full_is_iir. Qed.
Print Assumptions C20_fir_full_is_iir.

(* Otherwise the truncation error of every output sample is at most M (1-alpha)^n. *)
Theorem C20_fir_truncation_bound : forall alpha n x M k,
  0 <= alpha -> alpha <= 1 -> Forall (fun v => Qabs v <= M) x -> (k < length x)%nat ->
  Qabs (nth k (lowpass_fir alpha n x) 0 - nth k (lowpass_iir alpha x) 0) <= M * (1 - alpha) ^ (Z.of_nat n).
Proof. exact fir_truncation_bound. Qed.
Print Assumptions C20_fir_truncation_bound.

(* The form of the truncated filter that the extracted runner uses for larger cases is the same
   function (so the correspondence run with it validates the convolution form). *)
Theorem C20_fast_form_is_fir : forall alpha n x, leq (lowpass_fast alpha n x) (lowpass_fir alpha n x).
Proof. exact fir_fast_eq. Qed.
Print Assumptions C20_fast_form_is_fir.
Theorem C20_fast_form_axis : forall h gamma dt p1 p2 taps g,
  leq (pns_axis lowpass_fast h gamma dt p1 p2 taps g) (pns_axis lowpass_fir h gamma dt p1 p2 taps g).
Proof. exact pns_axis_fast_eq. Qed.
Print Assumptions C20_fast_form_axis.

(* Sampling: sample k of a channel is the gradient at the centre (k + 1/2) dt of raster interval k. *)
Theorem C20_sample_at_centres : forall f dt nt k, (k < nt)%nat ->
  nth k (sample f dt nt) 0 = f ((inject_Z (Z.of_nat k) + centre_offset) * dt) /\ centre_offset == 1 # 2.
Proof. intros f dt nt k H. split; [exact (sample_nth f dt nt k H)|exact centre_offset_half]. Qed.
Print Assumptions C20_sample_at_centres.

(* Zero padding (pad1 before, pad2 after) and its removal through the NaN mask of the exported rf
   vector are invisible whenever pad1 >= 1: the returned column equals the SAFE chain applied to
   the slew rate of the un-padded waveform preceded by a single zero sample ... *)
Theorem C20_unpad_indices : forall h gamma dt p p2 taps g,
  leq (pns_axis lowpass_fir h gamma dt (S p) p2 taps g) (pns_direct lowpass_fir h gamma dt taps g).
Proof. exact unpad_indices. Qed.
Print Assumptions C20_unpad_indices.
(* ... whose sample k is (g_k - g_{k-1}) / gamma / dt with g_{-1} = 0 (Hz/m -> T/m by /gamma). *)
Theorem C20_slew_samples : forall dt gamma g k, (k < length g)%nat ->
  nth k (dgdt dt (0 :: to_tesla gamma g)) 0
  == (nth k g 0 - match k with O => 0 | S j => nth j g 0 end) / gamma / dt.
Proof. exact slew_samples. Qed.
Print Assumptions C20_slew_samples.
(* pad1 = 0 (longest time constant below dt/2) is NOT covered: the code then returns one value
   fewer than raster intervals (and shifted by one); kernel-checked witness on the faithful model. *)
Definition hw_example : hwax := mkHw (1#5) (3#100) 3 (2#5) (1#10) (1#2) 30 24 (35#100).
Theorem C20_unpad_pad1_zero_refuted : exists h gamma dt p2 taps g,
  length (pns_axis lowpass_fir h gamma dt 0 p2 taps g) <> length g.
Proof. exists hw_example, 1, 1, 2%nat, [5%nat; 5%nat; 5%nat], [1; 2; 3]. vm_compute. discriminate. Qed.
Print Assumptions C20_unpad_pad1_zero_refuted.

(* One output value per raster interval from time zero to the end of the last gradient event:
   the PPoly of a channel ends at (last corner time) + 2 teps; if the latest such end is N dt,
   N samples are taken (any raster dt > 9.8e-11 s), and each axis returns N values. *)
Theorem C20_pns_count_is_raster_intervals :
  (forall p pts, pp_end (p :: pts) = fst (last (p :: pts) (0, 0)) + 2 * teps) /\
  (forall N dt, (0 < N)%Z -> maxt_slack - 2 * teps < dt ->
     num_samples (inject_Z N * dt + 2 * teps) dt = Z.to_nat N) /\
  (forall f dt nt, length (sample f dt nt) = nt) /\
  (forall h gamma dt p p2 taps g, length (pns_axis lowpass_fir h gamma dt (S p) p2 taps g) = length g).
Proof. exact (conj pp_end_spec (conj num_samples_raster (conj length_sample pns_count))). Qed.
Print Assumptions C20_pns_count_is_raster_intervals.

(* Scaling all gradient samples of a channel by c scales its prediction by |c| (any padding, any
   tap counts).  Needs that every branch of safe_pns_model contains an abs(): checked on the branch
   table read from the source. *)
Theorem C20_pns_homogeneous : forall h gamma dt p1 p2 taps c g,
  leq (pns_axis lowpass_fir h gamma dt p1 p2 taps (map (Qmult c) g))
      (map (Qmult (Qabs c)) (pns_axis lowpass_fir h gamma dt p1 p2 taps g)).
Proof. exact pns_homogeneous. Qed.
Print Assumptions C20_pns_homogeneous.

(* Each returned component is the per-axis chain applied to that channel's own samples and that
   axis' own hardware record only; the norm is taken over the three components. *)
Theorem C20_pns_channel_independent : forall lp gamma dt hx hy hz wx wy wz tx ty tz o,
  calc_pns lp gamma dt hx hy hz wx wy wz tx ty tz = OK o ->
  exists nt,
    o_x o = pns_axis lp hx gamma dt (pad1_of hx hy hz dt) (pad2_of hx hy hz dt) tx (opt_sample wx dt nt) /\
    o_y o = pns_axis lp hy gamma dt (pad1_of hx hy hz dt) (pad2_of hx hy hz dt) ty (opt_sample wy dt nt) /\
    o_z o = pns_axis lp hz gamma dt (pad1_of hx hy hz dt) (pad2_of hx hy hz dt) tz (opt_sample wz dt nt) /\
    o_normsq o = normsq3 (o_x o) (o_y o) (o_z o) /\
    o_ok o = ok_of (o_normsq o).
Proof. exact calc_pns_structure. Qed.
Print Assumptions C20_pns_channel_independent.

(* ok is true exactly when every squared norm is below 1, i.e. (for the non-negative root n of the
   squared norm, whatever sqrt returns) exactly when the norm is below 1; the squared norm is the
   sum of the squares of the three components. *)
Theorem C20_ok_iff_normsq_lt_1 :
  (forall nsq, ok_of nsq = true <-> Forall (fun s => s < 1) nsq) /\
  (forall n s, 0 <= n -> n * n == s -> (n < 1 <-> s < 1)) /\
  (forall x y z k, length y = length x -> length z = length x -> (k < length x)%nat ->
     nth k (normsq3 x y z) 0 == nth k x 0 * nth k x 0 + nth k y 0 * nth k y 0 + nth k z 0 * nth k z 0).
Proof. exact (conj ok_iff (conj norm_lt_1_iff normsq3_nth)). Qed.
Print Assumptions C20_ok_iff_normsq_lt_1.

(* The percent factor of safe_pns_model and the 0.01 of calc_pns cancel exactly. *)
Theorem C20_percent_factors_cancel : pct * unpct == 1.
Proof. exact pct_cancel. Qed.
Print Assumptions C20_percent_factors_cancel.

(* ---- round 2 ------------------------------------------------------------------------------- *)
(* The whole pipeline in one statement, all axes: if calculate_pns (model: calc_pns with the code's
   convolution filter) returns o, then with nt the number of raster intervals
   - the gradient of every channel is sampled at the raster centres (k + 1/2) dt (0 for an absent channel),
   - every returned component has nt values and its value k differs from the SAFE reference
     [safe_axis] (recursive first-order low-pass filters, weights, / stim_limit * g_scale, on the slew
     rate (g_k - g_{k-1}) / gamma / dt of the centre-sampled gradient, g_{-1} = 0) by at most
     |g_scale / stim_limit| * sum over the truncated filters of |a_i| M (1 - alpha_i)^(n_i),
     M any bound of the slew rate; filters whose tap count covers the signal contribute 0,
   - normsq is the sum of squares of the three components and ok holds exactly when all are < 1.
   Uses pad1 >= 1, which holds for every hardware since the repaired code takes max(round(..), 1). *)
Theorem C20_calc_pns_is_safe_model : forall gamma dt hx hy hz wx wy wz tx ty tz o,
  calc_pns lowpass_fir gamma dt hx hy hz wx wy wz tx ty tz = OK o ->
  0 < dt -> taus_nonneg hx -> taus_nonneg hy -> taus_nonneg hz ->
  exists nt,
    (forall w k, (k < nt)%nat ->
       nth k (opt_sample w dt nt) 0
       = match w with Some pts => grad_pp pts ((inject_Z (Z.of_nat k) + centre_offset) * dt) | None => 0 end) /\
    (forall w, length (opt_sample w dt nt) = nt) /\
    axis_close hx gamma dt tx (opt_sample wx dt nt) (o_x o) /\
    axis_close hy gamma dt ty (opt_sample wy dt nt) (o_y o) /\
    axis_close hz gamma dt tz (opt_sample wz dt nt) (o_z o) /\
    o_normsq o = normsq3 (o_x o) (o_y o) (o_z o) /\
    (o_ok o = true <-> Forall (fun s => s < 1) (o_normsq o)).
Proof. exact calc_pns_is_safe_model. Qed.
Print Assumptions C20_calc_pns_is_safe_model.

(* the per-axis core of it, spelled out (axis_close unfolded) *)
Theorem C20_axis_is_safe_model : forall h gamma dt p p2 taps g M k,
  0 < dt -> 0 <= tau1 h -> 0 <= tau2 h -> 0 <= tau3 h ->
  Forall (fun v => Qabs v <= M) (dgdt dt (0 :: to_tesla gamma g)) -> (k < length g)%nat ->
  Qabs (nth k (pns_axis lowpass_fir h gamma dt (S p) p2 taps g) 0 - nth k (safe_axis h gamma dt g) 0)
  <= Qabs (g_scale h / stim_limit h) * trunc_bound h (dt * ms_factor) branches taps (length g) M.
Proof. exact axis_is_safe_model. Qed.
Print Assumptions C20_axis_is_safe_model.

(* Tap count of safe_tau_lowpass, n = min(round(log eps / log(1-alpha)), N): np.log is outside the
   model, so n is tied to (alpha, eps, N) by the decidable condition tap_count_ok
   (1 <= n <= N and (n = N or (1-alpha)^(n+1) <= eps)), evaluated by the harness on the n the
   implementation really uses, on every case.  Under it, and for time constants >= dt, the error of
   calculate_pns against the SAFE recursive model is at most |g_scale/stim_limit| 2 eps M sum|a_i|
   (eps = 1e-16 read from the source): a statement about calculate_pns itself. *)
Theorem C20_tap_count_ok_spec : forall n N alpha eps, tap_count_ok n N alpha eps = true ->
  (n <= N)%nat /\ (n = N \/ (1 - alpha) ^ (Z.of_nat (S n)) <= eps).
Proof. exact tap_count_ok_spec. Qed.
Print Assumptions C20_tap_count_ok_spec.
Theorem C20_axis_error_under_tap_count : forall h gamma dt p p2 taps N g M k,
  0 < dt -> dt * ms_factor <= tau1 h -> dt * ms_factor <= tau2 h -> dt * ms_factor <= tau3 h ->
  taps_ok h (dt * ms_factor) branches taps N = true -> (length g <= N)%nat ->
  Forall (fun v => Qabs v <= M) (dgdt dt (0 :: to_tesla gamma g)) -> (k < length g)%nat ->
  Qabs (nth k (pns_axis lowpass_fir h gamma dt (S p) p2 taps g) 0 - nth k (safe_axis h gamma dt g) 0)
  <= Qabs (g_scale h / stim_limit h) * (2 * lowpass_eps * M * weight_sum h branches).
Proof. exact axis_error_eps. Qed.
Print Assumptions C20_axis_error_under_tap_count.

(* Homogeneity, sign case: a negative factor scales by -c; flipping all gradients changes nothing.
   (Linear superposition is NOT claimed: the abs() inside the branches makes the chain non-additive.) *)
Theorem C20_pns_homogeneous_negative : forall h gamma dt p1 p2 taps c g, c < 0 ->
  leq (pns_axis lowpass_fir h gamma dt p1 p2 taps (map (Qmult c) g))
      (map (Qmult (- c)) (pns_axis lowpass_fir h gamma dt p1 p2 taps g)).
Proof. exact pns_homogeneous_neg. Qed.
Print Assumptions C20_pns_homogeneous_negative.
Theorem C20_pns_sign_invariant : forall h gamma dt p1 p2 taps g,
  leq (pns_axis lowpass_fir h gamma dt p1 p2 taps (map (Qmult (-1)) g))
      (pns_axis lowpass_fir h gamma dt p1 p2 taps g).
Proof. exact pns_sign_invariant. Qed.
Print Assumptions C20_pns_sign_invariant.
Example C20_not_additive : exists g1 g2,
  ~ leq (pns_direct lowpass_fir hw_example 1 1 [5%nat; 5%nat; 5%nat] (zipw Qplus g1 g2))
        (zipw Qplus (pns_direct lowpass_fir hw_example 1 1 [5%nat; 5%nat; 5%nat] g1)
                    (pns_direct lowpass_fir hw_example 1 1 [5%nat; 5%nat; 5%nat] g2)).
Proof.
  exists [1], [-1]. intro H. inversion H as [|a b l1 l2 E _]; subst. vm_compute in E. discriminate E.
Qed.

(* Time-shift invariance: delaying the gradient of a channel by m raster steps (m leading zero samples)
   delays its prediction by m samples (m leading zeros), for the same tap counts. *)
Theorem C20_pns_time_shift : forall h gamma dt p p2 taps m g,
  leq (pns_axis lowpass_fir h gamma dt (S p) p2 taps (zeros m ++ g))
      (zeros m ++ pns_axis lowpass_fir h gamma dt (S p) p2 taps g).
Proof. exact pns_time_shift. Qed.
Print Assumptions C20_pns_time_shift.

(* non-vacuity of the tap-count condition: alpha = 1/2, eps = 1e-16: the code's n = 53 satisfies it,
   n = 51 does not (2^-52 > 1e-16) *)
Example C20_tap_count_example :
  tap_count_ok 53 100 (1#2) lowpass_eps = true /\ tap_count_tight 53 (1#2) lowpass_eps = true /\
  tap_count_ok 51 100 (1#2) lowpass_eps = false /\ tap_count_ok 100 100 (1#301) lowpass_eps = true.
Proof. vm_compute. repeat split. Qed.

(* ---- round 4 ------------------------------------------------------------------------------- *)
(* Sequence.mod_grad_axis(axis, c) / flip_grad_axis (c = -1) multiply every amplitude of the axis'
   waveform by c and leave the corner times alone [scale_pts].  For the whole model: the gradient
   function scales by c at every time, and if calculate_pns succeeds on the sequence, it succeeds on
   the modified one, with the same number of samples, that axis' component scaled by |c| and the two
   other components unchanged -- the exact expectation for predict / modify / predict again on one
   object (the block cache itself is runtime state outside the model: history stream of the check). *)
Theorem C20_grad_scales_pointwise : forall c pts t, grad_pp (scale_pts c pts) t == c * grad_pp pts t.
Proof. exact grad_pp_scale. Qed.
Print Assumptions C20_grad_scales_pointwise.
Theorem C20_mod_grad_axis :
  (forall gamma dt hx hy hz px wy wz tx ty tz c o,
     calc_pns lowpass_fir gamma dt hx hy hz (Some px) wy wz tx ty tz = OK o ->
     exists o', calc_pns lowpass_fir gamma dt hx hy hz (Some (scale_pts c px)) wy wz tx ty tz = OK o' /\
       leq (o_x o') (map (Qmult (Qabs c)) (o_x o)) /\ o_y o' = o_y o /\ o_z o' = o_z o) /\
  (forall gamma dt hx hy hz wx py wz tx ty tz c o,
     calc_pns lowpass_fir gamma dt hx hy hz wx (Some py) wz tx ty tz = OK o ->
     exists o', calc_pns lowpass_fir gamma dt hx hy hz wx (Some (scale_pts c py)) wz tx ty tz = OK o' /\
       leq (o_y o') (map (Qmult (Qabs c)) (o_y o)) /\ o_x o' = o_x o /\ o_z o' = o_z o) /\
  (forall gamma dt hx hy hz wx wy pz tx ty tz c o,
     calc_pns lowpass_fir gamma dt hx hy hz wx wy (Some pz) tx ty tz = OK o ->
     exists o', calc_pns lowpass_fir gamma dt hx hy hz wx wy (Some (scale_pts c pz)) tx ty tz = OK o' /\
       leq (o_z o') (map (Qmult (Qabs c)) (o_z o)) /\ o_x o' = o_x o /\ o_y o' = o_y o).
Proof. exact (conj calc_pns_mod_x (conj calc_pns_mod_y calc_pns_mod_z)). Qed.
Print Assumptions C20_mod_grad_axis.
(* the per-axis chain is a function of the samples up to rational equality *)
Theorem C20_pns_axis_respects_equality : forall h gamma dt p1 p2 taps g1 g2, leq g1 g2 ->
  leq (pns_axis lowpass_fir h gamma dt p1 p2 taps g1) (pns_axis lowpass_fir h gamma dt p1 p2 taps g2).
Proof. exact pns_axis_leq. Qed.
Print Assumptions C20_pns_axis_respects_equality.

(* Non-vacuity: a really truncated filter differs from the recursive one (so the bound says
   something), and a complete run of the model returns OK with three components. *)
Example C20_truncated_differs :
  ~ nth 2 (lowpass_fir (1#2) 2 [1; 1; 1]) 0 == nth 2 (lowpass_iir (1#2) [1; 1; 1]) 0 /\
  Qabs (nth 2 (lowpass_fir (1#2) 2 [1; 1; 1]) 0 - nth 2 (lowpass_iir (1#2) [1; 1; 1]) 0) <= 1 * (1 - (1#2)) ^ 2.
Proof. split; vm_compute; intro H; discriminate H. Qed.
Example C20_model_runs :
  match calc_pns lowpass_fir 42576000 (1#100000) hw_example hw_example hw_example
          (Some [(0, 0); (2#100000, 425760); (4#100000, 0)]) None None
          [5%nat; 5%nat; 5%nat] [5%nat; 5%nat; 5%nat] [5%nat; 5%nat; 5%nat] with
  | OK o => length (o_x o) = 4%nat /\ length (o_normsq o) = 4%nat /\ o_ok o = true /\ 0 < nth 1 (o_x o) 0
  | Err _ => False
  end.
Proof. vm_compute. repeat split. Qed.
