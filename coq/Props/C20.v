(* Props/C20.v — PNS prediction equals the SAFE model applied to the sequence gradients. *)
From Coq Require Import ZArith QArith Qabs List Bool Arith.
From PV Require Import Base.QUtil Gen.GenPns Model.Pns Proofs.PnsProofs.
Import ListNotations.
Open Scope Q_scope.

Theorem C20_percent_factors_cancel : pct * unpct == 1.
Proof. exact pct_cancel. Qed.
Print Assumptions C20_percent_factors_cancel.
