(* Props/C07.v — block durations and the block timeline are consistent everywhere.
   Only statements, each closed by [exact] of a lemma from Proofs/TimingProofs.v. *)
From Coq Require Import ZArith QArith Qabs List Bool.
From PV Require Import Base.QUtil Model.TimingSyntax Gen.GenTiming Model.Timing Proofs.TimingSpec
  Proofs.TimingProofs.
Import ListNotations.
Open Scope Q_scope.

(* the duration stored by set_block (block.py:46-155,268; end-time table read from the source) is
   the latest end time over its arguments, with the end times of the property text; for events of
   the sequence's own system (gradient shapes ending on the gradient raster) *)
Theorem C07_stored_is_max_end : forall graster (l : list arg), 0 < graster -> OwnArgs graster l ->
  IsMaxEnd l (set_block_duration graster l).
Proof. exact stored_is_max_end. Qed.
Print Assumptions C07_stored_is_max_end.

(* ... equals calc_duration of the same events, and calc_duration of the decoded block (whose first
   field is the stored duration) returns the stored duration *)
Theorem C07_stored_eq_calc_duration : forall graster (evs : list event), 0 < graster ->
  OwnArgs graster (map AEv evs) ->
  set_block_duration graster (map AEv evs) == calc_duration (map AEv evs) /\
  forall s, s == set_block_duration graster (map AEv evs) ->
            calc_duration (ADur s :: map AEv evs) == s.
Proof. exact stored_eq_calc_duration. Qed.
Print Assumptions C07_stored_eq_calc_duration.

(* block start number i = running sum of the first i stored durations *)
Theorem C07_starts_are_prefix_sums : forall bs i, (i < length bs)%nat ->
  nth i (starts bs) 0 == prefix_sum bs i.
Proof. exact starts_are_prefix_sums. Qed.
Print Assumptions C07_starts_are_prefix_sums.

(* one lemma per consumer: its `curr_dur` accumulator visits exactly [starts] *)
Theorem C07_starts_adc_times : forall bs, adc_times bs = at_starts adc_local 0 bs.
Proof. exact starts_adc. Qed.
Print Assumptions C07_starts_adc_times.
Theorem C07_starts_rf_times : forall bs, rf_times bs = at_starts rf_local 0 bs.
Proof. exact starts_rf. Qed.
Print Assumptions C07_starts_rf_times.
Theorem C07_starts_waveforms : forall graster ch bs,
  wave_pieces graster ch bs = at_starts (wave_local graster ch) 0 bs.
Proof. exact starts_wave. Qed.
Print Assumptions C07_starts_waveforms.
(* time_range variants: cumsum(bd)[i] - bd[i] *)
Theorem C07_starts_time_range : forall bs i, (i < length bs)%nat -> tr_start bs i == prefix_sum bs i.
Proof. exact time_range_start_agree. Qed.
Print Assumptions C07_starts_time_range.

(* duration(), TotalDuration (= calculate_kspace's total) and the running sum after the last block *)
Theorem C07_total_duration_agree : forall bs,
  seq_duration bs == total_duration bs /\ total_duration bs == prefix_sum bs (length bs).
Proof. exact total_duration_agree. Qed.
Print Assumptions C07_total_duration_agree.

(* [BLOCKS] duration column: for a stored duration on the block raster the written integer times
   the raster is the duration *)
Theorem C07_blocks_column_agree : forall sys b (k : Z), 0 < s_block_raster sys ->
  b_stored b == inject_Z k * s_block_raster sys ->
  blocks_column sys b = k /\ inject_Z (blocks_column sys b) * s_block_raster sys == b_stored b.
Proof. exact blocks_column_agree. Qed.
Print Assumptions C07_blocks_column_agree.

(* ---- round 2 ---------------------------------------------------------------------------------- *)
(* OwnArgs follows from what the gradient constructors guarantee: arbitrary gradients (samples at the
   raster-cell centres, shape_dur = n*raster) and extended trapezoids (shape_dur = tt[-1] on the raster);
   trapezoids, RF, ADC, delays and triggers need no side condition (Props/C11.v, Props/C04.v give the
   premises for accepted constructor calls) *)
Theorem C07_own_args_from_constructors : forall g (l : list arg), 0 < g ->
  (forall e, In (AEv e) l -> e_kind e = KGrad ->
     (exists n, e_shape_dur e == inject_Z n * g /\ e_tlast e == (inject_Z n - (1 # 2)) * g) \/
     (exists k, e_shape_dur e == inject_Z k * g /\ e_tlast e == e_shape_dur e)) ->
  OwnArgs g l.
Proof. exact own_args_from_constructors. Qed.
Print Assumptions C07_own_args_from_constructors.

(* time_range variants: the result is, up to Qeq of the times, a contiguous segment of the result
   without time_range — the selected blocks sit at the block starts of the full timeline *)
Theorem C07_adc_times_time_range : forall bs lo hi, (begin_block bs lo < length bs)%nat ->
  exists pre mid post, adc_times bs = pre ++ mid ++ post /\ Forall2 Rq (adc_times_tr bs lo hi) mid.
Proof. exact adc_times_time_range. Qed.
Print Assumptions C07_adc_times_time_range.
Theorem C07_rf_times_time_range : forall bs lo hi, (begin_block bs lo < length bs)%nat ->
  exists pre mid post, rf_times bs = pre ++ mid ++ post /\ Forall2 Rzq (rf_times_tr bs lo hi) mid.
Proof. exact rf_times_time_range. Qed.
Print Assumptions C07_rf_times_time_range.
Theorem C07_waveforms_time_range : forall g ch bs lo hi, (begin_block bs lo < length bs)%nat ->
  exists pre mid post, wave_pieces g ch bs = pre ++ mid ++ post /\
                       Forall2 Rqq (wave_pieces_tr g ch bs lo hi) mid.
Proof. exact waveforms_time_range. Qed.
Print Assumptions C07_waveforms_time_range.

(* sequences read from file: on-raster durations written as integers and multiplied back give the
   same running sums (block starts of every consumer) and the same total *)
Theorem C07_reread_same_timeline : forall sys bs, 0 < s_block_raster sys ->
  (forall b, In b bs -> exists k : Z, b_stored b == inject_Z k * s_block_raster sys) ->
  (forall i, prefix_sum (map (reread_block sys) bs) i == prefix_sum bs i) /\
  total_duration (map (reread_block sys) bs) == total_duration bs.
Proof. exact reread_same_timeline. Qed.
Print Assumptions C07_reread_same_timeline.

(* duration(): every event counter lies between 0 and the number of blocks *)
Theorem C07_event_count_le : forall bs,
  Forall (fun c => (0 <= c <= Z.of_nat (length bs))%Z) (event_count bs).
Proof. exact event_count_le. Qed.
Print Assumptions C07_event_count_le.

(* ---- round 4: the two block tables ---------------------------------------------------------------- *)
(* for EVERY history of set_block / add_block (OpSet) and read (OpRead, file with distinct block numbers) on one
   object: block_events and block_durations carry the same keys in the same order, and duration() (walks the
   keys of block_events, looks the durations up) equals sum(block_durations.values()) (TotalDuration, the total
   of calculate_kspace, the time_range tables) *)
Theorem C07_history_totals_agree : forall ops, Forall op_ok ops ->
  TlInv (tl_run ops) /\ tl_duration (tl_run ops) = Some (tl_sum (tl_run ops)).
Proof. exact tl_history_totals_agree. Qed.
Print Assumptions C07_history_totals_agree.

(* ... which fails for a read() that merges the file into the old duration table: used object with blocks 1, 2,
   file with block 1 only: duration() = 1 ms, sum(block_durations) = 3 ms *)
Theorem C07_merging_read_disagrees :
  exists st file, TlInv st /\ NoDup (map fst file) /\
    tl_duration (tl_read_merging file st) = Some (1 # 1000) /\ tl_sum (tl_read_merging file st) == 3 # 1000.
Proof. exact tl_merging_read_disagrees. Qed.
Print Assumptions C07_merging_read_disagrees.

(* non-vacuity: an own-system argument list; the stored value is the latest end *)
Example C07_example :
  OwnArgs (1 # 100000) [AEv ex_trap; ADur (3 # 10000)] /\
  set_block_duration (1 # 100000) [AEv ex_trap; ADur (3 # 10000)] == 1 # 1000.
Proof. exact c07_example. Qed.
