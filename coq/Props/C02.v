(* Props/C02.v — placeholder, replaced below *)
From Coq Require Import ZArith QArith List.
From PV Require Import Model.File.
Example fmt_sig_idem_runs : fmt_sig 6 (fmt_sig 6 (1234567 # 1)) = fmt_sig 6 (1234567 # 1).
Proof. vm_compute. reflexivity. Qed.
Print Assumptions fmt_sig_idem_runs.
