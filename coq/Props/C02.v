(* Props/C02.v — serialisation is deterministic, side-effect free and a fixed point.
   Determinism is immediate for a Gallina function; the content is the fixed point
   write(read(write s)) = write s, built from print idempotence column by column.
   The relation between duplicate removal's rounding and the printer is proved column by column
   (dedup_classes_refine_print_classes): integer-type columns for all rationals, the 6/9-significant-digit columns
   on the magnitude range of C15's round_spec_eq_fmt_sig (|x| >= 10^(dig-12); false below, see C15).
   Side-effect freedom of write() (deepcopy / aliasing) is checked by snapshots in harness/props/C02.py. *)
From Coq Require Import List ZArith QArith Qabs Lia.
From PV Require Import Base.QUtil Base.Round Proofs.RoundProofs Gen.GenFile Gen.GenDedup Model.File Proofs.FileProofs Proofs.FileDedup Proofs.RoundVsPrint.
Import ListNotations.
Open Scope Q_scope.

Theorem round_sig_idem : forall n x, (1 <= n)%Z -> fmt_sig n (fmt_sig n x) = fmt_sig n x.
Proof. exact fmt_sig_idem. Qed.
Print Assumptions round_sig_idem.

(* fmt (read (fmt x)) = fmt x for every column format (RF delay: when the printed delay is on the raster) *)
Theorem print_idempotent : forall rfr c x, col_ok c = true -> on_raster rfr c (wcol rfr c x) ->
  wcol rfr c (rcol c (wcol rfr c x)) = wcol rfr c x.
Proof. exact col_print_idem. Qed.
Print Assumptions print_idempotent.

(* the hypothesis holds whenever the raster-rounded delay prints exactly (below 1 s on a 1 us raster) *)
Theorem rf_delay_on_raster : forall rfr c x, is_raster_col c = true -> ~ rfr == 0 ->
  fmt_sig (c_fmt c) (inject_Z (rnd_he (x / rfr)) * rfr * c_mult c) == inject_Z (rnd_he (x / rfr)) * rfr * c_mult c ->
  on_raster rfr c (wcol rfr c x).
Proof. exact on_raster_exact. Qed.
Print Assumptions rf_delay_on_raster.

Theorem print_idempotent_row : forall rfr cs, cols_ok cs = true -> forall r,
  row_on_raster rfr cs (write_row rfr cs r) ->
  write_row rfr cs (read_row cs (write_row rfr cs r)) = write_row rfr cs r.
Proof. exact rewrite_row. Qed.
Print Assumptions print_idempotent_row.

Theorem print_idempotent_lib : forall rfr cs, cols_ok cs = true -> forall l,
  Forall (row_on_raster rfr cs) (map (write_row rfr cs) l) ->
  map (write_row rfr cs) (map (read_row cs) (map (write_row rfr cs) l)) = map (write_row rfr cs) l.
Proof. exact rewrite_lib. Qed.
Print Assumptions print_idempotent_lib.

Theorem print_idempotent_block : forall br b, ~ br == 0 ->
  write_block br (read_block br (write_block br b)) = write_block br b.
Proof. exact rewrite_block. Qed.
Print Assumptions print_idempotent_block.

Theorem print_idempotent_defs : forall d, write_defs (write_defs d) = write_defs d.
Proof. intro d. apply rewrite_defs. vm_compute. discriminate. Qed.
Print Assumptions print_idempotent_defs.

(* the whole file.  Hypotheses: the rasters decoded from the re-read definitions are those the writer used
   (the sequence's raster attributes agree with its [DEFINITIONS] and print exactly with 9 digits), the block
   raster is not 0, printed RF delays are on the RF raster, ADC rows have all their fields. *)
Theorem write_read_write_partial : forall sy s,
  let s' := read_rows sy (write_rows s) in
  f_braster s' == f_braster s -> ~ f_braster s == 0 -> f_rfraster s' == f_rfraster s ->
  Forall (row_on_raster (f_rfraster s) sec_rf) (map (write_row (f_rfraster s) sec_rf) (f_rf s)) ->
  adc_rows_full s ->
  write_rows s' = write_rows s.
Proof. exact FileProofs.write_read_write_partial. Qed.
Print Assumptions write_read_write_partial.

(* the same with hypotheses on the INPUT state only: the raster attributes are the values of the raster definitions
   (distinct keys, as in a dict) and print exactly with 9 digits; the rasters are not 0; every RF delay, rounded to
   the RF raster, prints exactly with 6 digits (below 1 s on a 1 us raster: KF-5 otherwise); ADC rows are complete.
   What the reading system is does not matter. *)
Theorem write_read_write : forall sy s,
  rasters_in_defs s -> ~ f_braster s == 0 -> ~ f_rfraster s == 0 -> rf_delays_exact s -> adc_rows_full s ->
  write_rows (read_rows sy (write_rows s)) = write_rows s.
Proof. exact FileProofs.write_read_write. Qed.
Print Assumptions write_read_write.

Definition wrw_example : fstate :=
  mkF [(key_rf_raster, [1 # 1000000]); (key_block_raster, [1 # 100000]); ([70; 79; 86]%Z, [1 # 4; 1 # 4; 3 # 1000])]
      [[1; 3 # 1000; 1; 0; 0; 0; 0; 0]] [[1; 123456789 # 1000; 1; 2; 0; 100 # 1000000; 0; 1 # 3]]
      [(tag_t, [1; 1234567 # 1; 1 # 10000; 1 # 1000; 1 # 10000; 0])] [[1; 256; 1 # 100000; 1 # 50000; 0; 0; 1 # 100000]] [] [] [] []
      [[1; 2; 1; 1 # 3]; [2; 2; 0; 0]] (1 # 100000) (1 # 1000000) (1 # 100000) (1 # 10000000).
Example write_read_write_hypotheses_hold :
  rasters_in_defs wrw_example /\ ~ f_braster wrw_example == 0 /\ ~ f_rfraster wrw_example == 0 /\
  rf_delays_exact wrw_example /\ adc_rows_full wrw_example.
Proof.
  split; [|split; [|split; [|split]]].
  - constructor.
    + cbn. repeat constructor; cbn; intuition discriminate.
    + exists (1 # 100000). repeat split; vm_compute; reflexivity.
    + exists (1 # 1000000). repeat split; vm_compute; reflexivity.
  - intro H. discriminate H.
  - intro H. discriminate H.
  - unfold rf_delays_exact. cbn [f_rf wrw_example f_rfraster]. constructor; [|constructor].
    cbn [row_exact sec_rf]. repeat split; intro R; try (vm_compute in R; discriminate R).
  - unfold adc_rows_full. cbn. constructor; [cbn; lia|constructor].
Qed.

(* duplicate removal vs printing, column by column over the generated digit tuples and formats:
   1 = printed on exactly the grid duplicate removal rounds to, 2 = id column, 3 = same number of significant
   digits on both sides, 4 = RF delay (raster rounding + scaling in between).  A changed digit tuple or format
   changes these lists and the examples below stop checking. *)
Example kinds_rf : refine_kinds dedup_digits_rf (tl sec_rf) = [3; 1; 1; 1; 4; 3; 3]%Z.
Proof. vm_compute. reflexivity. Qed.
Example kinds_grad : refine_kinds dedup_digits_grad (tl sec_grad) = [3; 2; 2; 1]%Z.
Proof. vm_compute. reflexivity. Qed.
Example kinds_trap : refine_kinds dedup_digits_grad (tl sec_trap) = [3; 1; 1; 1; 1]%Z.
Proof. vm_compute. reflexivity. Qed.
Example kinds_adc : refine_kinds dedup_digits_adc (tl sec_adc) = [1; 1; 1; 3; 3]%Z.
Proof. vm_compute. reflexivity. Qed.
Example kinds_shape : (dedup_digits_shape =? shape_sample_fmt)%Z = true.
Proof. vm_compute. reflexivity. Qed.

(* column by column: values identified by duplicate removal print identically.
   kind 1 (integer us/ns/count columns): all rationals.  kind 2 (id columns): integers.  kind 3 (amplitudes,
   offsets, shape samples): on the common magnitude range sig_range (|x| >= 10^(dig-12), C15 round_spec_eq_fmt_sig),
   where the converse holds too.  kind 4 (RF delay): delays on the RF raster, same range.  Every column of every
   deduplicated library has one of these kinds (examples kinds_* above: no 0).  Below the range the statement is
   false (C15 dedup_classes_refine_print_classes_sig_refuted). *)
Theorem dedup_classes_refine_print_classes : forall rfr dig c x y,
  ~ x == neg_zero -> ~ y == neg_zero -> round_spec dig x = round_spec dig y ->
  (refine_kind dig c = 1%Z -> wcol rfr c x = wcol rfr c y) /\
  (refine_kind dig c = 2%Z -> is_int x -> is_int y -> wcol rfr c x = wcol rfr c y) /\
  (refine_kind dig c = 3%Z -> sig_range dig x -> sig_range dig y -> wcol rfr c x = wcol rfr c y) /\
  (refine_kind dig c = 4%Z -> forall j, c_mult c == p10 j -> ~ rfr == 0 ->
     (exists N, x == inject_Z N * rfr) -> (exists N, y == inject_Z N * rfr) ->
     sig_range dig x -> sig_range dig y -> wcol rfr c x = wcol rfr c y).
Proof.
  intros rfr dig c x y NX NY H. split; [|split; [|split]].
  - intro K. exact (dedup_refines_print_grid rfr dig c x y K NX NY H).
  - intros K IX IY. exact (dedup_refines_print_ids rfr dig c x y K IX IY NX NY H).
  - intros K RX RY. apply (dedup_classes_eq_print_classes_sig rfr dig c x y K RX RY). exact H.
  - intros K j M NZ GX GY RX RY. exact (dedup_refines_print_raster rfr dig c j x y K M NZ GX GY RX RY H).
Qed.
Print Assumptions dedup_classes_refine_print_classes.

(* kind 3: duplicate removal identifies EXACTLY what prints identically (no merge on re-read, no lost merge) *)
Theorem dedup_classes_eq_print_classes : forall rfr dig c x y,
  refine_kind dig c = 3%Z -> sig_range dig x -> sig_range dig y ->
  (round_spec dig x = round_spec dig y <-> wcol rfr c x = wcol rfr c y).
Proof. exact dedup_classes_eq_print_classes_sig. Qed.
Print Assumptions dedup_classes_eq_print_classes.

(* shape samples are multiples of 1e-7 below 100 in magnitude: for those (and every other quantised value with
   room for its decimals) duplicate removal's rounding IS the printer's rounding, down to 0 — the part of the
   shape library that lies below sig_range 9 *)
Theorem shape_sample_dedup_is_print : forall m x,
  x == inject_Z m * pow10 (-7) -> Qabs x + log_offset <= pow10 2 -> Qeq_bool x neg_zero = false ->
  round_spec dedup_digits_shape x = fmt_sig shape_sample_fmt x.
Proof.
  intros m x G U NN. change dedup_digits_shape with 9%Z. change shape_sample_fmt with 9%Z.
  exact (quantised_dedup_is_print 9 7 m x ltac:(lia) ltac:(lia) G U NN).
Qed.
Print Assumptions shape_sample_dedup_is_print.

Example rf_delay_mult_is_power_of_ten : c_mult (nth 5 sec_rf (1, 0%Z, 0%Z, 1)) == p10 6.
Proof. vm_compute. reflexivity. Qed.
Example sig_range_example : sig_range 6 (123456789 # 1000) /\ sig_range 6 0 /\ sig_range 9 (1 # 1000).
Proof.
  unfold sig_range. split; [right; split; apply Qle_bool_iff; vm_compute; reflexivity|]. split; [left; reflexivity|].
  right; split; apply Qle_bool_iff; vm_compute; reflexivity.
Qed.

(* without the integrality hypothesis the id columns (kind 2) do not refine *)
Theorem id_column_refuted : exists x y, round_spec (-6) x = round_spec (-6) y /\
  ~ wcol 1 (nth 2 sec_grad (1, 0%Z, 0%Z, 1)) x = wcol 1 (nth 2 sec_grad (1, 0%Z, 0%Z, 1)) y.
Proof.
  exists (4999996 # 10000000), (5000004 # 10000000). split.
  - vm_compute. reflexivity.
  - intro H. vm_compute in H. discriminate H.
Qed.
Print Assumptions id_column_refuted.

(* KF-5: two delays on the microsecond grid, 1 us apart, are one dedup class and one print class *)
Definition rf_delay_col : col := nth 5 sec_rf (1, 0%Z, 0%Z, 1).
Theorem rf_delay_merge_refuted : exists x y,
  is_int (x * (1000000 # 1)) /\ is_int (y * (1000000 # 1)) /\ ~ x == y /\
  round_spec (nth 4 dedup_digits_rf 0%Z) x = round_spec (nth 4 dedup_digits_rf 0%Z) y /\
  wcol (1 # 1000000) rf_delay_col x = wcol (1 # 1000000) rf_delay_col y.
Proof.
  exists (1234567 # 1000000), (1234568 # 1000000).
  split; [|split; [|split; [|split]]].
  - exists 1234567%Z. reflexivity.
  - exists 1234568%Z. reflexivity.
  - intro H. vm_compute in H. discriminate H.
  - vm_compute. reflexivity.
  - vm_compute. reflexivity.
Qed.
Print Assumptions rf_delay_merge_refuted.

(* KF-15: two arbitrary-gradient rows that differ only in `first` are different for duplicate removal and
   identical in the file *)
Theorem edge_twins_refuted : exists g1 g2 : list Q,
  round_row dedup_digits_grad g1 <> round_row dedup_digits_grad g2 /\
  write_row (1 # 1000000) sec_grad (7 :: g1) = write_row (1 # 1000000) sec_grad (7 :: g2).
Proof.
  exists [100000; 1; 0; 0; 0; 0], [100000; 1; 0; 0; 5000; 0]. split.
  - intro H. vm_compute in H. discriminate H.
  - vm_compute. reflexivity.
Qed.
Print Assumptions edge_twins_refuted.

(* non-vacuity of the hypotheses of write_read_write_partial *)
Example on_raster_example :
  row_on_raster (1 # 1000000) sec_rf (write_row (1 # 1000000) sec_rf [3; 123456 # 1000; 1; 2; 0; 100 # 1000000; 0; 1 # 2]).
Proof. vm_compute. repeat split. Qed.
Example fixed_point_example :
  let s := mkF [(key_block_raster, [1 # 100000]); (key_rf_raster, [1 # 1000000])]
               [[1; 3 # 1000; 1; 0; 0; 0; 0; 0]] [[1; 123456789 # 1000; 1; 2; 0; 100 # 1000000; 0; 1 # 3]]
               [(tag_t, [1; 1234567 # 1; 1 # 10000; 1 # 1000; 1 # 10000; 0])] [] [] [] [] []
               [[1; 2; 1; 1 # 3]; [2; 2; 0; 0]] (1 # 100000) (1 # 1000000) (1 # 100000) (1 # 10000000) in
  write_rows (read_rows (mkSys (1 # 50000) (1 # 500000) (1 # 50000) (1 # 10000000) 0) (write_rows s)) = write_rows s.
Proof. vm_compute. reflexivity. Qed.

(* ---- [DEFINITIONS] values (Model/Defs.v): which values are fixed points of print . parse . print -------------------
   Character-level model of write_seq.py:58-77 and read_seq.py::__read_definitions.  The statements hold for ANY
   white-space predicate that contains the blank, ANY number printer whose texts contain no blank and end in a
   non-white-space character, and ANY float() that reads a printed 9-digit decimal back as that decimal (the actual
   str.strip / '{:0.9g}' / float are instances; sampled by the definitions stream of harness/props/C02.py).
   Classes that survive: every list of numbers — Python ints and floats of any magnitude are printed by the same
   9-digit format, so a 12-digit int is rounded on the FIRST write and stable afterwards —, and every text that is
   non-empty, has no white space at either end and has a blank-separated piece that float() rejects.
   Classes that do not (known findings, each with a reproducer in the check): the empty text, white space at an end,
   numeric-looking texts.  (Line breaks inside a text break the line structure itself and are outside this model.) *)
From PV Require Import Gen.GenDefs Model.Defs Proofs.DefsProofs.

Example defs_separator_is_blank : defs_separator = blank.
Proof. reflexivity. Qed.

Theorem defs_fixed_point_numbers : forall (is_ws : Z -> bool) render numeric_tok,
  is_ws blank = true ->
  (forall q, no_blank (render q)) -> (forall q, ends_solid is_ws (render q)) ->
  (forall q, numeric_tok (render (fmt_sig def_fmt q)) = Some (fmt_sig def_fmt q)) ->
  forall l, print_val render (parse_val is_ws numeric_tok (print_val render (DNum l))) = print_val render (DNum l).
Proof. exact defs_fixed_point_num. Qed.
Print Assumptions defs_fixed_point_numbers.

Theorem defs_fixed_point_text : forall (is_ws : Z -> bool) render numeric_tok,
  is_ws blank = true ->
  forall s, starts_solid is_ws s -> ends_solid is_ws s -> all_numeric numeric_tok (split_blank s) = None ->
  print_val render (parse_val is_ws numeric_tok (print_val render (DStr s))) = print_val render (DStr s).
Proof. intros is_ws render numeric_tok BW. exact (defs_fixed_point_str is_ws render numeric_tok BW). Qed.
Print Assumptions defs_fixed_point_text.

Theorem defs_empty_text_refuted : forall (is_ws : Z -> bool) render numeric_tok, is_ws blank = true ->
  print_val render (parse_val is_ws numeric_tok (print_val render (DStr []))) <> print_val render (DStr []).
Proof. exact empty_string_not_fixed. Qed.
Print Assumptions defs_empty_text_refuted.

Theorem defs_leading_blank_refuted : forall (is_ws : Z -> bool) render numeric_tok, is_ws blank = true ->
  forall s, starts_solid is_ws s -> ends_solid is_ws s -> all_numeric numeric_tok (split_blank (blank :: s)) = None ->
  print_val render (parse_val is_ws numeric_tok (print_val render (DStr (blank :: s)))) <> print_val render (DStr (blank :: s)).
Proof. exact leading_blank_not_fixed. Qed.
Print Assumptions defs_leading_blank_refuted.

Theorem defs_numeric_looking_text_refuted : forall (is_ws : Z -> bool) render numeric_tok, is_ws blank = true ->
  forall s q, no_blank s -> ends_solid is_ws s -> numeric_tok s = Some q -> render (fmt_sig def_fmt q) <> s ->
  print_val render (parse_val is_ws numeric_tok (print_val render (DStr s))) <> print_val render (DStr s).
Proof. exact numeric_looking_not_fixed. Qed.
Print Assumptions defs_numeric_looking_text_refuted.

(* non-vacuity: a concrete instance of the parameters on a two-word text with a run of blanks and on the text "1e5" *)
Definition ex_ws (c : Z) : bool := ((c =? 32) || (c =? 9))%Z.
Definition ex_render (q : Q) : list Z := if Qeq_bool q 100000 then [49; 48; 48; 48; 48; 48]%Z else [48]%Z.
Definition ex_float (t : list Z) : option Q :=
  match t with [49; 101; 53]%Z => Some 100000 | [49; 48; 48; 48; 48; 48]%Z => Some 100000 | _ => None end.
Example defs_text_example :
  parse_val ex_ws ex_float (print_val ex_render (DStr [97; 32; 32; 98]%Z)) = DStr [97; 32; 32; 98]%Z /\
  parse_val ex_ws ex_float (print_val ex_render (DStr [49; 101; 53]%Z)) = DNum [100000] /\
  print_val ex_render (DNum [100000]) = [49; 48; 48; 48; 48; 48; 32]%Z.
Proof. repeat split; vm_compute; reflexivity. Qed.
