(* Props/C17.v — rotate applies a rotation matrix to the gradient vector at every time.
   Only statements, closed by [exact] of lemmas of Proofs/RotateProofs.v.
   [render r ch evs t] = sum of the waveforms of the gradient events of [evs] on channel [ch] at time t.
   [axes_of axis = Some (a0, a1)]: the two axes left after removing the rotation axis from [x;y;z]
   (x: (y,z), y: (x,z), z: (x,y)) — table, signs and the 1e-6 factor come from Gen/GenGradOps.v.
   [c], [s] are arbitrary rationals (the code's np.cos / np.sin).  add_gradients is a function [add]
   with the hypothesis [AddIsSumP] = property C16 (rendering of the sum = pointwise sum, channel of the
   first summand).  [NoDrop]: every scaled component and both per-channel sums reach the elimination
   threshold 1e-6 * max_mag. *)
From Coq Require Import ZArith QArith Qabs List Bool.
From PV Require Import Base.QUtil Base.PWL Gen.GenGradOps Model.GradOps Proofs.GradOpsProofs Proofs.RotateProofs.
Import ListNotations.
Open Scope Q_scope.

(* sign convention of rotate.py: (g_a0', g_a1') = (c*g_a0 - s*g_a1, s*g_a0 + c*g_a1) *)
Theorem C17_rotate_matrix : forall r add, AddIsSumP r add ->
  forall c s axis evs out a0 a1,
  axes_of axis = Some (a0, a1) -> NoDrop add c s axis evs -> rotate add c s axis evs = OK out ->
  forall t, render r a0 out t == c * render r a0 evs t - s * render r a1 evs t /\
            render r a1 out t == s * render r a0 evs t + c * render r a1 evs t.
Proof. exact rotate_matrix. Qed.
Print Assumptions C17_rotate_matrix.

Theorem C17_axes_table :
  axes_of 0 = Some (1, 2)%nat /\ axes_of 1 = Some (0, 2)%nat /\ axes_of 2 = Some (0, 1)%nat /\
  forall n, axes_of (3 + n) = None.
Proof. repeat split. Qed.
Print Assumptions C17_axes_table.

(* the channel along the axis, every other channel and all non-gradient events are returned
   unchanged, first and in order; at most one new gradient per rotated axis follows *)
Theorem C17_rotate_axis_and_others_unchanged : forall r add, AddIsSumP r add ->
  forall c s axis evs out a0 a1,
  axes_of axis = Some (a0, a1) -> NoDrop add c s axis evs -> rotate add c s axis evs = OK out ->
  (exists new, out = filter (is_bypass axis a0 a1) evs ++ map RG new /\ (length new <= 2)%nat /\
               forall g, In g new -> g_ch g = a0 \/ g_ch g = a1) /\
  (forall ch, ch <> a0 -> ch <> a1 -> grads_on ch out = grads_on ch evs) /\
  non_grads out = non_grads evs.
Proof. exact rotate_others_unchanged. Qed.
Print Assumptions C17_rotate_axis_and_others_unchanged.

Theorem C17_rotate_inverse : forall r add, AddIsSumP r add ->
  forall c s axis evs out1 out2 a0 a1,
  c * c + s * s == 1 -> axes_of axis = Some (a0, a1) ->
  NoDrop add c s axis evs -> rotate add c s axis evs = OK out1 ->
  NoDrop add c (- s) axis out1 -> rotate add c (- s) axis out1 = OK out2 ->
  forall t, render r a0 out2 t == render r a0 evs t /\ render r a1 out2 t == render r a1 evs t.
Proof. exact rotate_inverse. Qed.
Print Assumptions C17_rotate_inverse.

Theorem C17_rotate_norm_preserved : forall r add, AddIsSumP r add ->
  forall c s axis evs out a0 a1,
  c * c + s * s == 1 -> axes_of axis = Some (a0, a1) ->
  NoDrop add c s axis evs -> rotate add c s axis evs = OK out ->
  forall t, render r a0 out t * render r a0 out t + render r a1 out t * render r a1 out t
            == render r a0 evs t * render r a0 evs t + render r a1 evs t * render r a1 evs t.
Proof. exact rotate_norm. Qed.
Print Assumptions C17_rotate_norm_preserved.

(* dropped components: a component is dropped only when its magnitude is below the threshold; the
   magnitude bounds the waveform of trapezoids and extended trapezoids at every time, so dropping moves
   the channel sum by at most (number of components) * threshold.
   PARTIAL: the bound is proved for the elimination step ([drop_small]) and not yet threaded through
   [rotate] as one statement; arbitrary shapes are excluded because their rendering contains the edge
   values first/last, which the magnitude test of the code ignores. *)
Theorem C17_magnitude_bounds_waveform : forall r g t, not_arb r g -> Qabs (gev r g t) <= gmag g.
Proof. exact mag_bound. Qed.
Print Assumptions C17_magnitude_bounds_waveform.

Theorem C17_dropped_bound_partial : forall r thr l t,
  0 <= thr -> (forall g, In g l -> Qabs (gev r g t) <= gmag g) ->
  Qabs (gsum r l t - gsum r (drop_small thr l) t) <= inject_Z (Z.of_nat (length l)) * thr.
Proof. exact drop_bound. Qed.
Print Assumptions C17_dropped_bound_partial.

(* non-vacuity: add_gradients restricted to one summand (a copy) satisfies the hypothesis *)
Example C17_add_single_is_sum : forall r, AddIsSumP r add_single.
Proof.
  intros r l g Hne H. destruct l as [|x [|y l]]; try discriminate. inversion H; subst x.
  split; [intro t; cbn [gsum]; ring|reflexivity].
Qed.

(* one x trapezoid rotated about z by (c, s) = (3/5, 4/5): 3/5 on x, 4/5 on y *)
Example C17_rotate_example :
  let g := GTrap (mkTrap 0 1000 (1 # 10000) (1 # 1000) (1 # 10000) 0 0 0 None) in
  match rotate add_single (3 # 5) (4 # 5) 2 [RO 7; RG g] with
  | OK [RO 7; RG (GTrap a); RG (GTrap b)] =>
      Qeq_bool (t_amp a) 600 && Qeq_bool (t_amp b) 800 && Nat.eqb (t_ch a) 0 && Nat.eqb (t_ch b) 1
  | _ => false
  end = true.
Proof. vm_compute. reflexivity. Qed.
