(* Props/C17.v — rotate applies a rotation matrix (statements only). *)
From Coq Require Import ZArith QArith Qabs List Bool.
From PV Require Import Base.QUtil Base.PWL Gen.GenGradOps Model.GradOps.
Import ListNotations.
Open Scope Q_scope.

Theorem C17_set_ch : forall g c, g_ch (set_ch g c) = c.
Proof. intros [t|e] c; reflexivity. Qed.
Print Assumptions C17_set_ch.
