(* Props/C17.v — rotate applies a rotation matrix to the gradient vector at every time.
   Only statements, closed by [exact] of lemmas of Proofs/RotateProofs.v.
   [render r ch evs t] = sum of the waveforms of the gradient events of [evs] on channel [ch] at time t.
   [axes_of axis = Some (a0, a1)]: the two axes left after removing the rotation axis from [x;y;z]
   (x: (y,z), y: (x,z), z: (x,y)) — table, signs and the 1e-6 factor come from Gen/GenGradOps.v.
   [c], [s] are arbitrary rationals (the code's np.cos / np.sin).  add_gradients is a function [add]
   with the hypothesis [AddIsSumP] = property C16 (rendering of the sum = pointwise sum, channel of the
   first summand).  [NoDrop]: every scaled component and both per-channel sums reach the elimination
   threshold 1e-6 * max_mag.  The second half of the file drops both hypotheses: C17_rotate_matrix_up_to_drop
   (all inputs, budget of the dropped components) and C17_rotate_c16_matrix_up_to_drop (add_gradients
   instantiated by the model of property C16). *)
From Coq Require Import ZArith QArith Qabs List Bool Lqa Lia.
From PV Require Import Base.QUtil Base.PWL Gen.GenGradOps Model.GradOps Proofs.GradOpsProofs Proofs.RotateProofs
  Proofs.RotateDrop Proofs.RotateC16 Model.GradBridge.
From PV Require Model.AddGrad Proofs.AddGradLegal.
Import ListNotations.
Open Scope Q_scope.

(* sign convention of rotate.py: (g_a0', g_a1') = (c*g_a0 - s*g_a1, s*g_a0 + c*g_a1) *)
Theorem C17_rotate_matrix : forall r add, AddIsSumP r add ->
  forall c s axis evs out a0 a1,
  axes_of axis = Some (a0, a1) -> NoDrop add c s axis evs -> rotate add c s axis evs = OK out ->
  forall t, render r a0 out t == c * render r a0 evs t - s * render r a1 evs t /\
            render r a1 out t == s * render r a0 evs t + c * render r a1 evs t.
Proof. exact rotate_matrix. Qed.
Print Assumptions C17_rotate_matrix.

Theorem C17_axes_table :
  axes_of 0 = Some (1, 2)%nat /\ axes_of 1 = Some (0, 2)%nat /\ axes_of 2 = Some (0, 1)%nat /\
  forall n, axes_of (3 + n) = None.
Proof. repeat split. Qed.
Print Assumptions C17_axes_table.

(* the channel along the axis, every other channel and all non-gradient events are returned
   unchanged, first and in order; at most one new gradient per rotated axis follows *)
Theorem C17_rotate_axis_and_others_unchanged : forall r add, AddIsSumP r add ->
  forall c s axis evs out a0 a1,
  axes_of axis = Some (a0, a1) -> NoDrop add c s axis evs -> rotate add c s axis evs = OK out ->
  (exists new, out = filter (is_bypass axis a0 a1) evs ++ map RG new /\ (length new <= 2)%nat /\
               forall g, In g new -> g_ch g = a0 \/ g_ch g = a1) /\
  (forall ch, ch <> a0 -> ch <> a1 -> grads_on ch out = grads_on ch evs) /\
  non_grads out = non_grads evs.
Proof. exact rotate_others_unchanged. Qed.
Print Assumptions C17_rotate_axis_and_others_unchanged.

Theorem C17_rotate_inverse : forall r add, AddIsSumP r add ->
  forall c s axis evs out1 out2 a0 a1,
  c * c + s * s == 1 -> axes_of axis = Some (a0, a1) ->
  NoDrop add c s axis evs -> rotate add c s axis evs = OK out1 ->
  NoDrop add c (- s) axis out1 -> rotate add c (- s) axis out1 = OK out2 ->
  forall t, render r a0 out2 t == render r a0 evs t /\ render r a1 out2 t == render r a1 evs t.
Proof. exact rotate_inverse. Qed.
Print Assumptions C17_rotate_inverse.

Theorem C17_rotate_norm_preserved : forall r add, AddIsSumP r add ->
  forall c s axis evs out a0 a1,
  c * c + s * s == 1 -> axes_of axis = Some (a0, a1) ->
  NoDrop add c s axis evs -> rotate add c s axis evs = OK out ->
  forall t, render r a0 out t * render r a0 out t + render r a1 out t * render r a1 out t
            == render r a0 evs t * render r a0 evs t + render r a1 evs t * render r a1 evs t.
Proof. exact rotate_norm. Qed.
Print Assumptions C17_rotate_norm_preserved.

(* ---- dropped components, ALL inputs -------------------------------------------------------------------
   [rot_parts c s a0 a1 evs] = (R1, R2, thr): the scaled components destined for the two rotated axes
   and the elimination threshold 1e-6 * max_mag.  [chan_budget r thr add R] = sum over the components of
   R below the threshold of max(thr, edge) + the same for the per-channel sum when IT is below the
   threshold; edge = max(|first|,|last|) for an arbitrary shape (its rendering contains these values,
   the magnitude test of the code does not look at them) and 0 for trapezoids / extended trapezoids. *)

(* |g(t)| <= max(magnitude tested by rotate, edge) for every kind of gradient, arbitrary shapes included *)
Theorem C17_peak_bound : forall r g t, Qabs (gev r g t) <= Qmax (gmag g) (gedge r g).
Proof. exact peak_bound. Qed.
Print Assumptions C17_peak_bound.

Theorem C17_magnitude_bounds_waveform : forall r g t, not_arb r g -> Qabs (gev r g t) <= gmag g.
Proof. exact mag_bound. Qed.
Print Assumptions C17_magnitude_bounds_waveform.

(* rotate_matrix_up_to_drop: for ALL event lists, all rational c and s, all axes, no NoDrop hypothesis.
   add_gradients is any function that is the sum up to e on the lists P it is applied to. *)
Theorem C17_rotate_matrix_up_to_drop : forall r add (P : list grad -> Prop) e, 0 <= e ->
  (forall l g, l <> [] -> P l -> add l = OK g ->
     (forall t, Qabs (gev r g t - gsum r l t) <= e) /\ g_ch g = g_ch (hd g l)) ->
  forall c s axis evs out a0 a1,
  axes_of axis = Some (a0, a1) -> rotate add c s axis evs = OK out ->
  let '(R1, R2, thr) := rot_parts c s a0 a1 evs in
  (drop_small thr R1 <> [] -> P (drop_small thr R1)) ->
  (drop_small thr R2 <> [] -> P (drop_small thr R2)) ->
  forall t,
    Qabs (render r a0 out t - (c * render r a0 evs t - s * render r a1 evs t)) <= chan_budget r thr add R1 + e /\
    Qabs (render r a1 out t - (s * render r a0 evs t + c * render r a1 evs t)) <= chan_budget r thr add R2 + e.
Proof. exact rotate_matrix_up_to_drop. Qed.
Print Assumptions C17_rotate_matrix_up_to_drop.

(* (number of dropped components) * threshold, when no edge value exceeds the threshold *)
Theorem C17_budget_is_count_times_threshold : forall r thr add R, 0 <= thr ->
  (forall g, In g R -> gedge r g <= thr) ->
  (forall sg, add (drop_small thr R) = OK sg -> gedge r sg <= thr) ->
  chan_budget r thr add R <= inject_Z (Z.of_nat (n_dropped thr add R)) * thr.
Proof. exact chan_budget_count. Qed.
Print Assumptions C17_budget_is_count_times_threshold.

(* ---- with the REAL add_gradients (model of property C16, Model/AddGrad.v) ---------------------------------
   [add_c16 s] converts the events to the records of Model/AddGrad.v, calls its add_gradients with the
   system limits and converts the result back.  [LegalList s D l]: the events are trapezoids / extended
   trapezoids that one block of duration D can hold (C05Legal of property C16: timings on the raster,
   non-negative delays, a gradient away from zero at its start has zero delay, at its end ends at D).
   No hypothesis about add_gradients remains: the equal-timing path (C16_add_trap_path_sum), the
   corner-union path (C16_add_ext_path_sum_legal) and the single-summand path are used as proved. *)
Theorem C17_add_c16_is_sum : forall s D l g, l <> [] -> LegalList s D l -> add_c16 s l = OK g ->
  (forall t, Qabs (gev (raster s) g t - gsum (raster s) l t) <= AddGrad.eps) /\
  g_ch g = g_ch (hd g l) /\ not_arb (raster s) g.
Proof. exact add_c16_approx. Qed.
Print Assumptions C17_add_c16_is_sum.

Theorem C17_rotate_c16_matrix_up_to_drop : forall s D c sn axis evs out a0 a1,
  axes_of axis = Some (a0, a1) ->
  (grads_on a0 evs ++ grads_on a1 evs <> [] -> LegalList s D (grads_on a0 evs ++ grads_on a1 evs)) ->
  rotate (add_c16 s) c sn axis evs = OK out ->
  let r := raster s in
  let '(R1, R2, thr) := rot_parts c sn a0 a1 evs in
  forall t,
    Qabs (render r a0 out t - (c * render r a0 evs t - sn * render r a1 evs t))
      <= inject_Z (Z.of_nat (n_dropped thr (add_c16 s) R1)) * thr + AddGrad.eps /\
    Qabs (render r a1 out t - (sn * render r a0 evs t + c * render r a1 evs t))
      <= inject_Z (Z.of_nat (n_dropped thr (add_c16 s) R2)) * thr + AddGrad.eps.
Proof. exact rotate_c16_matrix_up_to_drop. Qed.
Print Assumptions C17_rotate_c16_matrix_up_to_drop.

(* the "no raster-sampled shape" part of LegalList is not an extra assumption: it follows from C05Legal
   (corner times on the raster make add_gradients' arbitrary-shape test false) ... *)
Theorem C17_c05_legal_is_legal_list : forall s D l,
  AddGradLegal.C05Legal (ag_sys s) D (map to_ag l) -> LegalList s D l.
Proof. exact c05_legal_is_legal_list. Qed.
Print Assumptions C17_c05_legal_is_legal_list.

(* ... so the final statement needs C05Legal of property C16 only *)
Theorem C17_rotate_c16_matrix_up_to_drop_legal : forall s D c sn axis evs out a0 a1,
  axes_of axis = Some (a0, a1) ->
  (grads_on a0 evs ++ grads_on a1 evs <> [] ->
   AddGradLegal.C05Legal (ag_sys s) D (map to_ag (grads_on a0 evs ++ grads_on a1 evs))) ->
  rotate (add_c16 s) c sn axis evs = OK out ->
  let r := raster s in
  let '(R1, R2, thr) := rot_parts c sn a0 a1 evs in
  forall t,
    Qabs (render r a0 out t - (c * render r a0 evs t - sn * render r a1 evs t))
      <= inject_Z (Z.of_nat (n_dropped thr (add_c16 s) R1)) * thr + AddGrad.eps /\
    Qabs (render r a1 out t - (sn * render r a0 evs t + c * render r a1 evs t))
      <= inject_Z (Z.of_nat (n_dropped thr (add_c16 s) R2)) * thr + AddGrad.eps.
Proof. exact rotate_c16_matrix_up_to_drop_legal. Qed.
Print Assumptions C17_rotate_c16_matrix_up_to_drop_legal.

(* non-vacuity: x and y trapezoids with the same timing (equal-timing path of add_gradients) and an
   extended trapezoid on y, rotated about z by (3/5, 4/5): legal, and rotate returns two events *)
Definition c17_ex_sys := mkSys 1 1000000 1000000.
Definition c17_ex_evs :=
  [RG (GTrap (mkTrap 0 1000 1 2 1 0 3000 2000 None)); RO 5;
   RG (GTrap (mkTrap 1 (-500) 1 2 1 0 (-1500) (-1000) None));
   RG (GExt (mkEg 1 1 [0; 2; 4] [0; 300; 0] 4 0 0 (Some 600) None))].

Example C17_c16_example_legal : LegalList c17_ex_sys 5 (grads_on 0 c17_ex_evs ++ grads_on 1 c17_ex_evs).
Proof.
  split; [|vm_compute; reflexivity]. constructor.
  - discriminate.
  - intros g [<-|[<-|[<-|[]]]]; cbn; repeat split; try lra; try discriminate; reflexivity.
  - vm_compute. discriminate.
  - intros g c [<-|[<-|[<-|[]]]] Hc; cbn in Hc; repeat (destruct Hc as [<-|Hc]); try destruct Hc;
      first [exists 0%Z; reflexivity | exists 1%Z; reflexivity | exists 2%Z; reflexivity
            | exists 3%Z; reflexivity | exists 4%Z; reflexivity | exists 5%Z; reflexivity].
  - intros g [<-|[<-|[<-|[]]]]; cbn; lra.
  - intros g [<-|[<-|[<-|[]]]]; cbn; lra.
  - intros g [<-|[<-|[<-|[]]]] Hn; cbn in *; try reflexivity; exfalso; apply Hn; reflexivity.
  - intros g [<-|[<-|[<-|[]]]] Hn; cbn in *; exfalso; apply Hn; reflexivity.
Qed.

Example C17_c16_example_runs :
  match rotate (add_c16 c17_ex_sys) (3 # 5) (4 # 5) 2 c17_ex_evs with
  | OK [RO 5; RG gx; RG gy] => Nat.eqb (g_ch gx) 0 && Nat.eqb (g_ch gy) 1
  | _ => false
  end = true.
Proof. vm_compute. reflexivity. Qed.

(* non-vacuity: add_gradients restricted to one summand (a copy) satisfies the hypothesis *)
Example C17_add_single_is_sum : forall r, AddIsSumP r add_single.
Proof.
  intros r l g Hne H. destruct l as [|x [|y l]]; try discriminate. inversion H; subst x.
  split; [intro t; cbn [gsum]; ring|reflexivity].
Qed.

(* one x trapezoid rotated about z by (c, s) = (3/5, 4/5): 3/5 on x, 4/5 on y *)
Example C17_rotate_example :
  let g := GTrap (mkTrap 0 1000 (1 # 10000) (1 # 1000) (1 # 10000) 0 0 0 None) in
  match rotate add_single (3 # 5) (4 # 5) 2 [RO 7; RG g] with
  | OK [RO 7; RG (GTrap a); RG (GTrap b)] =>
      Qeq_bool (t_amp a) 600 && Qeq_bool (t_amp b) 800 && Nat.eqb (t_ch a) 0 && Nat.eqb (t_ch b) 1
  | _ => false
  end = true.
Proof. vm_compute. reflexivity. Qed.
