(* Props/C09.v — The k-space trajectory is the running integral of the gradients.
   Only statements, each closed by [exact] of a lemma from Proofs/KSpaceProofs.v, with Print Assumptions. *)
From Coq Require Import ZArith QArith Qabs List Bool Arith Lia Lqa.
From PV Require Import Base.QUtil Base.PWL Gen.GenExport Model.Export Model.KSpace Proofs.KSpaceProofs Proofs.PrimProofs.
Import ListNotations.
Open Scope Q_scope.

(* For ANY moment function M and ANY list of RF pulses (excitation / refocusing / other), the dk
   recurrence of calculate_kspace (dk := -M(t_exc); dk := -2 M(t_ref) - dk; k = M(t) + dk) equals the
   specification fold: k grows by the increment of M between pulses, is reset to 0 by an excitation and
   negated by a refocusing pulse. *)
Theorem C09_kspace_recurrence : forall (M : Q -> Q) (evs : list ev) (t : Q),
  impl_k M evs t == spec_k M evs t.
Proof. exact kspace_recurrence. Qed.
Print Assumptions C09_kspace_recurrence.

(* what the specification fold says, pulse by pulse *)
Theorem C09_spec_no_pulse : forall M t, spec_k M [] t == M t - M 0.
Proof. exact spec_no_pulse. Qed.
Print Assumptions C09_spec_no_pulse.
Theorem C09_spec_after_excitation : forall M evs te t, spec_k M (evs ++ [(te, Exc)]) t == M t - M te.
Proof. exact spec_after_excitation. Qed.
Print Assumptions C09_spec_after_excitation.
Theorem C09_spec_after_refocusing : forall M evs tr t,
  spec_k M (evs ++ [(tr, Ref)]) t == - spec_k M evs tr + (M t - M tr).
Proof. exact spec_after_refocusing. Qed.
Print Assumptions C09_spec_after_refocusing.

(* pulses whose use is neither excitation nor refocusing do not change k at any time *)
Theorem C09_other_uses_ignored : forall M evs t, k_at M (filter is_pulse evs) t = k_at M evs t.
Proof. exact other_uses_ignored. Qed.
Print Assumptions C09_other_uses_ignored.

(* the period table of the code (one pass over the pulses, lookup of the period containing t) is the
   fold over the pulses at or before t, for every time-sorted pulse list *)
Theorem C09_period_table : forall M evs t, ev_sorted evs -> k_tab M evs t = k_at M evs t.
Proof. exact k_tab_is_k_at. Qed.
Print Assumptions C09_period_table.

Theorem C09_adc_times_formula : forall start a i, (i < adc_n a)%nat ->
  length (adc_sample_times start a) = adc_n a /\
  nth i (adc_sample_times start a) 0
  == start + adc_delay a + (inject_Z (Z.of_nat i) + (1 # 2)) * adc_dwell a.
Proof. exact adc_times_formula. Qed.
Print Assumptions C09_adc_times_formula.

(* the antiderivative used for the moments is the exact integral of the corner list: at c it is the area of
   the part of p to the left of c (cut_left inserts the interpolated corner at c); hence differences of
   prim are areas between two cuts; 0 left of the first corner, the whole area right of the last *)
Theorem C09_prim_is_integral : forall p a b, sorted_strict (times p) ->
  prim p b - prim p a == area (cut_left b p) - area (cut_left a p).
Proof. exact prim_is_integral. Qed.
Print Assumptions C09_prim_is_integral.
Theorem C09_prim_cut : forall p c, sorted_strict (times p) -> prim p c == area (cut_left c p).
Proof. exact prim_cut. Qed.
Print Assumptions C09_prim_cut.
Theorem C09_prim_total : forall p t, sorted_strict (times p) -> tlast p <= t -> prim p t == area p.
Proof. exact prim_total. Qed.
Print Assumptions C09_prim_total.

(* PARTIAL (name kept): without excitation / refocusing pulses the final k is the area of the (padded)
   exported waveform.  Missing for the full statement "sum of the areas of all gradient events":
   area (padded w) == area w for zero end values, and area (join ps) == sum of the piece areas for an
   edge-consistent chain (both are checked on the implementation by the oracle: C09/final-k-no-rf). *)
Theorem C09_no_rf_final_is_sum_of_areas_partial : forall w T, w <> [] ->
  sorted_strict (times (padded w)) -> tlast (padded w) <= T -> 0 <= tfirst (padded w) ->
  k_at (moment w) [] T == area (padded w).
Proof. exact no_rf_final_is_area. Qed.
Print Assumptions C09_no_rf_final_is_sum_of_areas_partial.

(* Non-vacuity / sanity *)
Example C09_classify_example :
  classify None = Exc /\ classify (Some rf_use_refocusing) = Ref /\ classify (Some [105%Z]) = Other.
Proof. vm_compute. repeat split. Qed.

Example C09_spin_echo_example :
  (* M(t) = t; excitation at 1, refocusing at 3: k(4) = -(3 - 1) + (4 - 3) = -1 *)
  k_at (fun t => t) [(1, Exc); (2, Other); (3, Ref)] 4 == -(1).
Proof. vm_compute. reflexivity. Qed.
