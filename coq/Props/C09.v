(* Props/C09.v — The k-space trajectory is the running integral of the gradients. *)
From Coq Require Import ZArith QArith Qabs List Bool Arith.
From PV Require Import Base.QUtil Base.PWL Gen.GenExport Model.Export Model.KSpace.
Import ListNotations.
Open Scope Q_scope.

Example C09_classify_example :
  classify None = Exc /\ classify (Some rf_use_refocusing) = Ref /\ classify (Some [105%Z]) = Other.
Proof. vm_compute. repeat split. Qed.
