(* Props/C09.v — The k-space trajectory is the running integral of the gradients.
   Only statements, each closed by [exact] of a lemma from Proofs/KSpaceProofs.v, with Print Assumptions. *)
From Coq Require Import ZArith QArith Qabs List Bool Arith Lia Lqa.
From PV Require Import Base.QUtil Base.PWL Gen.GenExport Model.Export Model.KSpace Proofs.KSpaceProofs Proofs.PrimProofs Proofs.ExportProofs Proofs.ExportArea Proofs.KSpaceFinal Proofs.KSpaceBridge Proofs.KSpaceEvents.
Import ListNotations.
Open Scope Q_scope.

(* For ANY moment function M and ANY list of RF pulses (excitation / refocusing / other), the dk
   recurrence of calculate_kspace (dk := -M(t_exc); dk := -2 M(t_ref) - dk; k = M(t) + dk) equals the
   specification fold: k grows by the increment of M between pulses, is reset to 0 by an excitation and
   negated by a refocusing pulse. *)
Theorem C09_kspace_recurrence : forall (M : Q -> Q) (evs : list ev) (t : Q),
  impl_k M evs t == spec_k M evs t.
Proof. exact kspace_recurrence. Qed.
Print Assumptions C09_kspace_recurrence.

(* what the specification fold says, pulse by pulse *)
Theorem C09_spec_no_pulse : forall M t, spec_k M [] t == M t - M 0.
Proof. exact spec_no_pulse. Qed.
Print Assumptions C09_spec_no_pulse.
Theorem C09_spec_after_excitation : forall M evs te t, spec_k M (evs ++ [(te, Exc)]) t == M t - M te.
Proof. exact spec_after_excitation. Qed.
Print Assumptions C09_spec_after_excitation.
Theorem C09_spec_after_refocusing : forall M evs tr t,
  spec_k M (evs ++ [(tr, Ref)]) t == - spec_k M evs tr + (M t - M tr).
Proof. exact spec_after_refocusing. Qed.
Print Assumptions C09_spec_after_refocusing.

(* pulses whose use is neither excitation nor refocusing do not change k at any time *)
Theorem C09_other_uses_ignored : forall M evs t, k_at M (filter is_pulse evs) t = k_at M evs t.
Proof. exact other_uses_ignored. Qed.
Print Assumptions C09_other_uses_ignored.

(* the period table of the code (one pass over the pulses, lookup of the period containing t) is the
   fold over the pulses at or before t, for every time-sorted pulse list *)
Theorem C09_period_table : forall M evs t, ev_sorted evs -> k_tab M evs t = k_at M evs t.
Proof. exact k_tab_is_k_at. Qed.
Print Assumptions C09_period_table.

(* The loop of calculate_kspace as the code writes it — two separate sorted lists t_excitation / t_refocusing
   (pulses of other uses are in neither), period starts = 0 and the union of both lists, one pointer per list
   advanced with min(len - 1, ii + 1), excitation tested before refocusing — equals, for every strictly
   time-sorted pulse list with positive times, the fold over the pulses at or before t, and therefore the
   specification "integral since the last excitation, negated at each refocusing". *)
Theorem C09_period_loop : forall M evs t, ev_sorted_strict evs -> Forall (fun e => 0 < fst e) evs ->
  k_loop M evs t = k_at M evs t.
Proof. exact k_loop_is_k_at. Qed.
Print Assumptions C09_period_loop.
Theorem C09_period_loop_is_spec : forall M evs t, ev_sorted_strict evs -> Forall (fun e => 0 < fst e) evs ->
  k_loop M evs t == spec_k M (upto t evs) t.
Proof. exact k_loop_is_spec. Qed.
Print Assumptions C09_period_loop_is_spec.

(* ... and those hypotheses follow from an input-level condition on the blocks: the pulse list rf_times collects
   block by block (start + RF delay + RF centre) is strictly time-sorted with positive times whenever block
   durations are non-negative and every RF centre lies inside its block (0 < delay + centre <= block duration).
   So for every such block list the code's loop equals the specification. *)
Theorem C09_rf_events_sorted : forall bs start, rf_inside bs ->
  ev_sorted_strict (rf_events start bs) /\ Forall (fun e : ev => start < fst e) (rf_events start bs).
Proof. intros bs start H. split; [apply rf_events_sorted|apply rf_events_after]; exact H. Qed.
Print Assumptions C09_rf_events_sorted.
Theorem C09_period_loop_blocks : forall M bs t, rf_inside bs ->
  k_loop M (rf_events 0 bs) t == spec_k M (upto t (rf_events 0 bs)) t.
Proof. exact k_loop_blocks_is_spec. Qed.
Print Assumptions C09_period_loop_blocks.

Theorem C09_adc_times_formula : forall start a i, (i < adc_n a)%nat ->
  length (adc_sample_times start a) = adc_n a /\
  nth i (adc_sample_times start a) 0
  == start + adc_delay a + (inject_Z (Z.of_nat i) + (1 # 2)) * adc_dwell a.
Proof. exact adc_times_formula. Qed.
Print Assumptions C09_adc_times_formula.

(* the antiderivative used for the moments is the exact integral of the corner list: at c it is the area of
   the part of p to the left of c (cut_left inserts the interpolated corner at c); hence differences of
   prim are areas between two cuts; 0 left of the first corner, the whole area right of the last *)
Theorem C09_prim_is_integral : forall p a b, sorted_strict (times p) ->
  prim p b - prim p a == area (cut_left b p) - area (cut_left a p).
Proof. exact prim_is_integral. Qed.
Print Assumptions C09_prim_is_integral.
Theorem C09_prim_cut : forall p c, sorted_strict (times p) -> prim p c == area (cut_left c p).
Proof. exact prim_cut. Qed.
Print Assumptions C09_prim_cut.
Theorem C09_prim_total : forall p t, sorted_strict (times p) -> tlast p <= t -> prim p t == area p.
Proof. exact prim_total. Qed.
Print Assumptions C09_prim_total.

(* ... and in the composed form: between a <= b the antiderivative grows by the area of p restricted to [a, b] *)
Theorem C09_prim_is_integral_restricted : forall p a b, sorted_strict (times p) -> a <= b ->
  prim p b - prim p a == area (cut_right a (cut_left b p)).
Proof. exact prim_is_integral_restricted. Qed.
Print Assumptions C09_prim_is_integral_restricted.

(* the joined export of an edge-consistent channel has the sum of the areas of its pieces; the get_gradients
   padding adds (vfirst + vlast) * teps / 2, i.e. nothing for a waveform that starts and ends at zero; the area
   of a trapezoid piece is amplitude * (rise/2 + flat + fall/2) *)
Theorem C09_area_join : forall ps, EdgeConsistent ps -> area (join ps) == sum_areas ps.
Proof. exact area_join. Qed.
Print Assumptions C09_area_join.
Theorem C09_area_padded : forall w, w <> [] -> area (padded w) == area w + (vfirst w + vlast w) * teps * (1 # 2).
Proof. exact area_padded. Qed.
Print Assumptions C09_area_padded.
Theorem C09_area_trap_piece : forall raster start amp rise flat fall delay p,
  piece raster start (Trap amp rise flat fall delay) = Some p -> (flat == 0 \/ eps < flat) ->
  area p == amp * (rise * (1 # 2) + flat + fall * (1 # 2)).
Proof. exact area_trap_piece. Qed.
Print Assumptions C09_area_trap_piece.

(* For a sequence without excitation / refocusing pulses (pulses of other uses allowed) the final k-space
   position of a channel — calculate_kspace's recurrence on the antiderivative of the padded export, at any
   time T at or after the end of the padding — is the sum of the areas of all gradient pieces of the channel,
   for every edge-consistent channel that starts at t >= 0 from zero and ends at zero. *)
Theorem C09_no_rf_final_is_sum_of_areas : forall ps evs T, EdgeConsistent ps -> ps <> [] ->
  filter is_pulse evs = [] ->
  vfirst (hd [] ps) == 0 -> vlast (last ps []) == 0 -> 0 <= tfirst (hd [] ps) ->
  tlast (last ps []) + 2 * teps <= T ->
  k_at (moment (join ps)) evs T == sum_areas ps.
Proof. exact no_rf_final_is_sum_of_areas. Qed.
Print Assumptions C09_no_rf_final_is_sum_of_areas.

(* Non-vacuity / sanity *)
Example C09_classify_example :
  classify None = Exc /\ classify (Some rf_use_refocusing) = Ref /\ classify (Some [105%Z]) = Other.
Proof. vm_compute. repeat split. Qed.

Example C09_loop_example :
  (* the literal loop on the same pulses, incl. the pointer that stays on the last excitation *)
  k_loop (fun t => t) [(1, Exc); (2, Other); (3, Ref); (5, Ref)] 6 == 1 /\
  loop_table (fun t => t) [(1, Exc); (3, Ref)] = [(0, - 0); (1, - (1)); (3, - (2) * 3 - - (1))].
Proof. split; [vm_compute; reflexivity|reflexivity]. Qed.

Example C09_spin_echo_example :
  (* M(t) = t; excitation at 1, refocusing at 3: k(4) = -(3 - 1) + (4 - 3) = -1 *)
  k_at (fun t => t) [(1, Exc); (2, Other); (3, Ref)] 4 == -(1).
Proof. vm_compute. reflexivity. Qed.
