(* Props/C05.v — block assembly only admits gradients that are continuous across blocks.
   Statements only (proofs in Proofs/SeqCont.v).  Model/Seq.v transcribes set_block's gradient
   checks (block.py:193-265) with the comparison form read from the source (Gen/GenBlock.v).
   `Cont c` : on every channel, along the block order, each block starts within one slew step of
   where the previous block ended, and the first block starts within one step of zero. *)
From Coq Require Import List Bool ZArith QArith Qcanon.
From PV Require Import Base.AList Base.QUtil Gen.GenBlock Model.EventLib Model.Seq Proofs.SeqSpec Proofs.SeqCont.
Import ListNotations.
Open Scope Z_scope.

(* The source currently uses the magnitude of the final amplitude in the alignment rule (the
   theorems below are about that form; GenBlock is regenerated from block.py on every run). *)
Theorem C05_source_uses_abs : align_check_uses_abs = true.
Proof. reflexivity. Qed.
Print Assumptions C05_source_uses_abs.

(* Acceptance of a block on one channel is EXACTLY the conjunction of the property's rules
   (soundness and completeness of the check, any neighbours, any index). *)
Theorem C05_accept_iff_rules : forall c i dur ch k prev next,
  1 < next_block c -> neighbours c i = Some (prev, next) ->
  (check_channel true c i dur ch k = None <-> channel_rules c i dur ch k prev next).
Proof. exact check_channel_iff. Qed.
Print Assumptions C05_accept_iff_rules.

Theorem C05_accept_iff_rules_first_block : forall c i dur ch k,
  next_block c <= 1 ->
  (check_channel true c i dur ch k = None <->
   (within_step c (ck_first k) /\
    (within_step c (ck_last k) \/
     Qcltb (Q2Qc (1 # 10000000)) (Qcabs' (ck_stop_t k - dur)%Qc) = false))).
Proof. exact check_channel_first_iff. Qed.
Print Assumptions C05_accept_iff_rules_first_block.

(* The alignment rule is symmetric in the sign of the final amplitude. *)
Theorem C05_align_sign_symmetric : forall c i dur ch s f t l,
  (next_block c <= 1 \/ exists prev, neighbours c i = Some (prev, None)) ->
  check_channel true c i dur ch (mkChk s f t (- l)%Qc) = check_channel true c i dur ch (mkChk s f t l).
Proof. exact align_rule_sign_symmetric. Qed.
Print Assumptions C05_align_sign_symmetric.

(* One operation preserves continuity … *)
Theorem C05_step_preserves_continuity : forall cache_on r1 r2 r3 r4 s o,
  block_op_ok o -> reg_ok o -> gwf (st_core s) -> table_inv (st_core s) -> Cont (st_core s) ->
  Cont (st_core (fst (step cache_on true r1 r2 r3 r4 s o))).
Proof. exact step_cont_partial. Qed.
Print Assumptions C05_step_preserves_continuity.

(* … hence EVERY history of add_block / set_block (append, overwrite anywhere, non-contiguous ids)
   interleaved with get_block, register_*, write leaves a continuous block table. *)
Theorem C05_every_history_continuous : forall cache_on r1 r2 r3 r4 ops g sr sl e,
  Forall block_op_ok ops -> Forall reg_ok ops ->
  Cont (st_core (fst (run cache_on true r1 r2 r3 r4 (mkState (core_init g sr sl e) []) ops))).
Proof. exact cont_reachable_partial. Qed.
Print Assumptions C05_every_history_continuous.

(* Non-vacuity: a three-block chain 0 -> A -> A -> 0 is accepted and continuous, a jump is refused. *)
Example C05_example := cont_example.
(* The hypothesis reg_ok (no stand-alone registration with a one-element shape-id list) cannot be
   dropped: kernel-checked counterexamples. *)
Example C05_needs_reg_ok := cont_reachable_refuted.
Example C05_step_needs_reg_ok := step_cont_refuted.
(* With the comparison as it was before the repair (no magnitude) a block ending at -A in the
   middle of the block is accepted. *)
Example C05_unrepaired_form_refuted := align_refuted_without_fix.
