(* Props/C16.v — add_gradients is the pointwise sum of its inputs.
   Only statements, each closed by [exact] of a lemma from Proofs/, with Print Assumptions. *)
From Coq Require Import ZArith QArith Qabs List Bool.
From PV Require Import Base.QUtil Base.PWL Gen.GenAddGrad Model.AddGrad Proofs.AddGradProofs.
Import ListNotations.
Open Scope Q_scope.

(* a single input is returned unchanged, whatever the limits *)
Theorem C16_add_single_is_identity : forall s mg ms g, add_gradients s mg ms [g] = OK (P_single, g).
Proof. exact add_single_is_identity. Qed.
Print Assumptions C16_add_single_is_identity.
