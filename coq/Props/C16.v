(* Props/C16.v — add_gradients is the pointwise sum of its inputs.
   Only statements, each closed by [exact] of a lemma from Proofs/, with Print Assumptions.
   Model: Model/AddGrad.v (add_gradients.py with the makers it calls), library: Base/PWL.v.
   [to_pwl g] is the rendering of one gradient (including its delay) as a piecewise-linear function,
   [sum_eval (map to_pwl grads) t] the sum of the input renderings at time t. *)
From Coq Require Import ZArith QArith Qabs List Bool Lqa.
From PV Require Import Base.QUtil Base.PWL Gen.GenAddGrad Model.AddGrad Proofs.AddGradProofs.
Import ListNotations.
Open Scope Q_scope.

(* a single input is returned unchanged, whatever the limits *)
Theorem C16_add_single_is_identity : forall s mg ms g, add_gradients s mg ms [g] = OK (P_single, g).
Proof. exact add_single_is_identity. Qed.
Print Assumptions C16_add_single_is_identity.

(* Equal-timing trapezoids, ANY number of inputs: the returned trapezoid renders, at EVERY time, to
   the sum of the inputs plus the code's `+ eps` on the amplitude (eps * unit trapezoid) ... *)
Theorem C16_add_trap_path_sum : forall s mg ms grads g,
  add_gradients s mg ms grads = OK (P_trap, g) -> (forall x, In x grads -> WF x) ->
  exists t0, hd_error grads = Some (GTrap t0) /\
  forall t, eval (to_pwl g) t == sum_eval (map to_pwl grads) t + eps * eval (unit_trap t0) t.
Proof. exact add_trap_path_sum. Qed.
Print Assumptions C16_add_trap_path_sum.

(* ... hence it is within eps = 1e-9 Hz/m of the exact sum everywhere *)
Theorem C16_add_trap_path_sum_eps : forall s mg ms grads g,
  add_gradients s mg ms grads = OK (P_trap, g) -> (forall x, In x grads -> WF x) ->
  forall t, Qabs (eval (to_pwl g) t - sum_eval (map to_pwl grads) t) <= eps.
Proof. exact add_trap_path_sum_eps. Qed.
Print Assumptions C16_add_trap_path_sum_eps.

(* Trapezoids and extended trapezoids, ANY number of inputs, any delays / shared corner times:
   union of corner times, interpolation of every input on the common grid, summation and
   make_extended_trapezoid give a gradient equal to the sum of the inputs at EVERY time.
   ExtInputsOk: inputs well formed; distinct corner times >= eps apart (dead `merge` code);
   StartsOk/EndsOk (an input away from zero at its start starts first and not after eps, at its end
   ends last — the block rule of C05; otherwise the `tt[0] += eps` hack / np.interp(right=0) make the
   result deliberately differ, see C16_add_ext_path_sum_needs_StartsOk); common start on the raster. *)
Theorem C16_add_ext_path_sum : forall s mg ms grads g,
  add_gradients s mg ms grads = OK (P_ext, g) -> ExtInputsOk s grads ->
  forall t, eval (to_pwl g) t == sum_eval (map to_pwl grads) t.
Proof. exact add_ext_path_sum. Qed.
Print Assumptions C16_add_ext_path_sum.

(* Raster path (_partial): the result starts at the smallest delay, every returned sample is the sum
   of the input sample lists (points_to_waveform at raster centres, zero-padded by the delay
   difference) at the same index, first/last are the sums over the inputs that start first / end
   last.  Missing for the full statement: the identification of the k-th input sample with
   [eval (to_pwl g_i)] at the k-th raster centre (index arithmetic of points_to_waveform); it is
   checked by the exact oracle of harness/props/C16.py on every generated case. *)
Theorem C16_add_raster_path_sum_at_centres_partial : forall s mg ms grads g,
  add_gradients s mg ms grads = OK (P_raster, g) ->
  let cd := minl (map g_delay grads) in
  exists e, g = GExt e /\ eg_delay e = cd /\
    (forall k, nth k (eg_wf e) 0 == sumQ (map (fun gi => nth k (raster_samples s cd gi) 0) grads)) /\
    eg_first e = sumQ (map g_first (filter (fun g => same_time (g_delay g) cd) grads)) /\
    eg_last e = sumQ (map g_last (filter (fun g => same_time (g_dur g) (maxl (map g_dur grads))) grads)).
Proof. exact add_raster_path_sum_at_centres_partial. Qed.
Print Assumptions C16_add_raster_path_sum_at_centres_partial.

(* Limits (_partial: maker level for the trapezoid path, add_gradients level for the raster path):
   the call raises exactly when the sum exceeds max_grad + eps or max_slew * (1 + eps) of the limits
   that the code forwards (ag_*_passes_limits are read from the source on every run). *)
Theorem C16_make_trap_amp_raises_iff : forall mg ms amp rise flat fall delay,
  ~ rise == 0 -> ~ fall == 0 ->
  ((exists e, make_trap_amp mg ms amp rise flat fall delay = Err e) <->
   (mg + eps < Qabs amp \/ ms * (1 + eps) < Qabs amp / rise \/ ms * (1 + eps) < Qabs amp / fall)).
Proof. exact make_trap_amp_raises_iff. Qed.
Print Assumptions C16_make_trap_amp_raises_iff.

Theorem C16_add_raises_iff_over_limit_raster_partial : forall s mga msa grads,
  (2 <= length grads)%nat -> same_timing grads = false ->
  forallb (fun g => is_trap g || negb (is_arb s g)) grads = false ->
  diffs (raster_sum s grads) <> [] ->
  let mg := if Qle_bool mga 0 then s_max_grad s else mga in
  let ms := if Qle_bool msa 0 then s_max_slew s else msa in
  let mg3 := if ag_arb_passes_limits then mg else s_max_grad s in
  let ms3 := if ag_arb_passes_limits then ms else s_max_slew s in
  ((exists e, add_gradients s mga msa grads = Err e) <->
   (ms3 * (1 + eps) < max_absl (map (fun x => x / s_raster s) (diffs (raster_sum s grads))) \/
    mg3 + eps < max_absl (raster_sum s grads))).
Proof. exact add_raster_raises_iff. Qed.
Print Assumptions C16_add_raises_iff_over_limit_raster_partial.

(* ---------- non-vacuity ---------- *)
Definition ex_sys := mkSys 1000 1000 1.
Definition ex_grads := [GTrap (mkTrap 100 1 1 1 0); GExt (mkEG 0 [0; 2; 4] [10; 50; 0] 10 0 4)].

Example C16_ext_path_reached : exists g, add_gradients ex_sys 0 0 ex_grads = OK (P_ext, g).
Proof. eexists. vm_compute. reflexivity. Qed.

Example C16_ExtInputsOk_satisfiable : ExtInputsOk ex_sys ex_grads.
Proof.
  constructor.
  - intros g [<-|[<-|[]]]; cbn; repeat split; try lra; try discriminate.
  - vm_compute. intuition discriminate.
  - intros g [<-|[<-|[]]]; [left; reflexivity|right; vm_compute; intuition discriminate].
  - intros g [<-|[<-|[]]]; left; reflexivity.
  - split; [reflexivity|exists 0%Z; reflexivity].
Qed.

Example C16_trap_path_reached :
  exists g, add_gradients ex_sys 0 0 [GTrap (mkTrap 100 1 1 1 0); GTrap (mkTrap (-30) 1 1 1 0)] = OK (P_trap, g).
Proof. eexists. vm_compute. reflexivity. Qed.

(* ---------- the StartsOk hypothesis is necessary (the model is faithful to the `tt[0] += eps` hack):
   an extended trapezoid that starts at 50 after a delay of one raster, added to a trapezoid: the
   result at the start time of the second gradient is 100, the sum of the inputs is 150 ---------- *)
Definition bad_grads := [GTrap (mkTrap 100 1 1 1 0); GExt (mkEG 1 [0; 2] [50; 0] 50 0 2)].

Theorem C16_add_ext_path_sum_needs_StartsOk_refuted :
  exists g, add_gradients ex_sys 0 0 bad_grads = OK (P_ext, g) /\ (forall x, In x bad_grads -> WF x) /\
            eval (to_pwl g) 1 == 100 /\ sum_eval (map to_pwl bad_grads) 1 == 150.
Proof.
  eexists. split; [vm_compute; reflexivity|]. split.
  - intros g [<-|[<-|[]]]; cbn; repeat split; try lra; try discriminate.
  - split; vm_compute; reflexivity.
Qed.
Print Assumptions C16_add_ext_path_sum_needs_StartsOk_refuted.

(* Duration / first / last.  Extended-trapezoid path: the result's first (last) value is the sum of
   the input renderings at the earliest (latest) corner time of all inputs — i.e. the sum of the
   firsts (lasts) of the inputs that start (end) there, the others being 0 there — and its duration
   is that latest corner time (the longest input duration). *)
Theorem C16_add_first_last_duration_ext : forall s mg ms grads g,
  add_gradients s mg ms grads = OK (P_ext, g) -> ExtInputsOk s grads ->
  g_first g == sum_eval (map to_pwl grads) (hd 0 (T0 grads)) /\
  g_last g == sum_eval (map to_pwl grads) (last (T0 grads) 0) /\
  g_dur g == last (T0 grads) 0.
Proof. exact add_ext_first_last_duration. Qed.
Print Assumptions C16_add_first_last_duration_ext.

(* Equal-timing path: every input has the duration of the result (so it is the maximum), and
   first = last = 0 for the result and for every input. *)
Theorem C16_add_duration_first_last_trap : forall s mg ms grads g,
  add_gradients s mg ms grads = OK (P_trap, g) -> (forall x, In x grads -> WF x) ->
  g_first g = 0 /\ g_last g = 0 /\
  forall x, In x grads -> g_dur x == g_dur g /\ g_first x = 0 /\ g_last x = 0.
Proof. exact add_trap_duration_first_last. Qed.
Print Assumptions C16_add_duration_first_last_trap.
