(* Props/C16.v — add_gradients is the pointwise sum of its inputs.
   Only statements, each closed by [exact] of a lemma from Proofs/, with Print Assumptions.
   Model: Model/AddGrad.v (add_gradients.py with the makers it calls), library: Base/PWL.v.
   [to_pwl g] is the rendering of one gradient (including its delay) as a piecewise-linear function,
   [sum_eval (map to_pwl grads) t] the sum of the input renderings at time t. *)
From Coq Require Import ZArith QArith Qabs List Bool Lqa Lia.
From PV Require Import Base.QUtil Base.PWL Gen.GenAddGrad Model.AddGrad Proofs.AddGradProofs
                       Proofs.AddGradRaster Proofs.AddGradLegal Proofs.AddGradLimits.
Import ListNotations.
Open Scope Q_scope.

(* a single input is returned unchanged, whatever the limits *)
Theorem C16_add_single_is_identity : forall s mg ms g, add_gradients s mg ms [g] = OK (P_single, g).
Proof. exact add_single_is_identity. Qed.
Print Assumptions C16_add_single_is_identity.

(* Equal-timing trapezoids, ANY number of inputs: the returned trapezoid renders, at EVERY time, to
   the sum of the inputs plus the code's `+ eps` on the amplitude (eps * unit trapezoid) ... *)
Theorem C16_add_trap_path_sum : forall s mg ms grads g,
  add_gradients s mg ms grads = OK (P_trap, g) -> (forall x, In x grads -> WF x) ->
  exists t0, hd_error grads = Some (GTrap t0) /\
  forall t, eval (to_pwl g) t == sum_eval (map to_pwl grads) t + eps * eval (unit_trap t0) t.
Proof. exact add_trap_path_sum. Qed.
Print Assumptions C16_add_trap_path_sum.

(* ... hence it is within eps = 1e-9 Hz/m of the exact sum everywhere *)
Theorem C16_add_trap_path_sum_eps : forall s mg ms grads g,
  add_gradients s mg ms grads = OK (P_trap, g) -> (forall x, In x grads -> WF x) ->
  forall t, Qabs (eval (to_pwl g) t - sum_eval (map to_pwl grads) t) <= eps.
Proof. exact add_trap_path_sum_eps. Qed.
Print Assumptions C16_add_trap_path_sum_eps.

(* Trapezoids and extended trapezoids, ANY number of inputs, any delays / shared corner times:
   union of corner times, interpolation of every input on the common grid, summation and
   make_extended_trapezoid give a gradient equal to the sum of the inputs at EVERY time.
   ExtInputsOk: inputs well formed; distinct corner times >= eps apart (dead `merge` code);
   StartsOk/EndsOk (an input away from zero at its start starts first and not after eps, at its end
   ends last — the block rule of C05; otherwise the `tt[0] += eps` hack / np.interp(right=0) make the
   result deliberately differ, see C16_add_ext_path_sum_needs_StartsOk); common start on the raster. *)
Theorem C16_add_ext_path_sum : forall s mg ms grads g,
  add_gradients s mg ms grads = OK (P_ext, g) -> ExtInputsOk s grads ->
  forall t, eval (to_pwl g) t == sum_eval (map to_pwl grads) t.
Proof. exact add_ext_path_sum. Qed.
Print Assumptions C16_add_ext_path_sum.

(* Raster path, ANY number of inputs of any kind (trapezoids, extended trapezoids, raster-sampled
   gradients), all timings on the gradient raster (RasterInputsOk): the result starts at the smallest
   delay cd and, at EVERY raster centre cd + (k + 1/2) raster (all k >= 0, also beyond its end), its
   rendering equals the sum of the input renderings.  (A peak between two centres is not
   representable in a raster-sampled event, so this is the full statement for this path.) *)
Theorem C16_add_raster_path_sum_at_centres : forall s mg ms grads g,
  add_gradients s mg ms grads = OK (P_raster, g) -> RasterInputsOk s grads ->
  let cd := minl (map g_delay grads) in
  g_delay g = cd /\
  forall k : nat, eval (to_pwl g) (cd + ctr (s_raster s) k)
                  == sum_eval (map to_pwl grads) (cd + ctr (s_raster s) k).
Proof. exact add_raster_path_sum_at_centres_eval. Qed.
Print Assumptions C16_add_raster_path_sum_at_centres.

(* the same in terms of the stored samples, plus first / last *)
Theorem C16_add_raster_samples_first_last : forall s mg ms grads g,
  add_gradients s mg ms grads = OK (P_raster, g) -> RasterInputsOk s grads ->
  let cd := minl (map g_delay grads) in
  (exists e, g = GExt e /\ eg_delay e = cd /\
     forall k, nth k (eg_wf e) 0 == sum_eval (map to_pwl grads) (cd + ctr (s_raster s) k)) /\
  (exists e, g = GExt e /\
     eg_first e = sumQ (map g_first (filter (fun g => same_time (g_delay g) cd) grads)) /\
     eg_last e = sumQ (map g_last (filter (fun g => same_time (g_dur g) (maxl (map g_dur grads))) grads))).
Proof. exact add_raster_samples_first_last. Qed.
Print Assumptions C16_add_raster_samples_first_last.

(* Limits (maker level first; the add_gradients-level statements for the three paths follow):
   the call raises exactly when the sum exceeds max_grad + eps or max_slew * (1 + eps) of the limits
   that the code forwards (ag_*_passes_limits are read from the source on every run). *)
Theorem C16_make_trap_amp_raises_iff : forall mg ms amp rise flat fall delay,
  ~ rise == 0 -> ~ fall == 0 ->
  ((exists e, make_trap_amp mg ms amp rise flat fall delay = Err e) <->
   (mg + eps < Qabs amp \/ ms * (1 + eps) < Qabs amp / rise \/ ms * (1 + eps) < Qabs amp / fall)).
Proof. exact make_trap_amp_raises_iff. Qed.
Print Assumptions C16_make_trap_amp_raises_iff.

Theorem C16_add_raises_iff_over_limit_raster : forall s mga msa grads,
  (2 <= length grads)%nat -> same_timing grads = false ->
  forallb (fun g => is_trap g || negb (is_arb s g)) grads = false ->
  diffs (raster_sum s grads) <> [] ->
  let mg := if Qle_bool mga 0 then s_max_grad s else mga in
  let ms := if Qle_bool msa 0 then s_max_slew s else msa in
  let mg3 := if ag_arb_passes_limits then mg else s_max_grad s in
  let ms3 := if ag_arb_passes_limits then ms else s_max_slew s in
  ((exists e, add_gradients s mga msa grads = Err e) <->
   (ms3 * (1 + eps) < max_absl (map (fun x => x / s_raster s) (diffs (raster_sum s grads))) \/
    mg3 + eps < max_absl (raster_sum s grads))).
Proof. exact add_raster_raises_iff. Qed.
Print Assumptions C16_add_raises_iff_over_limit_raster.

(* Equal-timing path, add_gradients level *)
Theorem C16_add_raises_iff_over_limit_trap : forall s mga msa t0 rest,
  (1 <= length rest)%nat -> same_timing (GTrap t0 :: rest) = true ->
  ~ tr_rise t0 == 0 -> ~ tr_fall t0 == 0 ->
  let A := sumQ (map amp_of (GTrap t0 :: rest)) + eps in
  ((exists e, add_gradients s mga msa (GTrap t0 :: rest) = Err e) <->
   (trap_max_grad s mga + eps < Qabs A \/
    trap_max_slew s msa * (1 + eps) < Qabs A / tr_rise t0 \/
    trap_max_slew s msa * (1 + eps) < Qabs A / tr_fall t0)).
Proof. exact add_trap_raises_iff_over_limit. Qed.
Print Assumptions C16_add_raises_iff_over_limit_trap.

(* Extended-trapezoid path, for every input list one block can hold (C05Legal): add_gradients raises
   EXACTLY when the sum on the common grid ([ext_sum grads], whose rendering is the sum of the
   inputs at every time by C16_add_ext_path_sum) exceeds max_grad + eps at a corner or
   max_slew (1 + eps) on a segment; no other error class can occur. *)
Theorem C16_add_raises_iff_over_limit_ext : forall s D mga msa grads,
  C05Legal s D grads -> (2 <= length (T0 grads))%nat ->
  (2 <= length grads)%nat -> same_timing grads = false ->
  forallb (fun g => is_trap g || negb (is_arb s g)) grads = true ->
  0 <= ext_max_grad s mga -> 0 <= ext_max_slew s msa ->
  ((exists e, add_gradients s mga msa grads = Err e) <->
   ~ (corner_bound (ext_max_grad s mga + eps) (ext_sum grads) /\
      seg_bound (ext_max_slew s msa * (1 + eps)) (ext_sum grads))).
Proof. exact add_ext_raises_iff_over_limit. Qed.
Print Assumptions C16_add_raises_iff_over_limit_ext.

(* ... and when it returns, the SUM OF THE INPUTS is within these limits at EVERY time (amplitude) and
   between any two times of the common support (slew) — Base/PWL.v within_corners_implies_everywhere *)
Theorem C16_add_ext_sum_within_everywhere : forall s D mga msa grads g,
  C05Legal s D grads -> (2 <= length (T0 grads))%nat ->
  (2 <= length grads)%nat -> same_timing grads = false ->
  forallb (fun g => is_trap g || negb (is_arb s g)) grads = true ->
  0 <= ext_max_grad s mga -> 0 <= ext_max_slew s msa ->
  add_gradients s mga msa grads = OK (P_ext, g) ->
  (forall t, Qabs (sum_eval (map to_pwl grads) t) <= ext_max_grad s mga + eps) /\
  (forall t u, hd 0 (T0 grads) <= t <= last (T0 grads) 0 -> hd 0 (T0 grads) <= u <= last (T0 grads) 0 ->
     Qabs (sum_eval (map to_pwl grads) t - sum_eval (map to_pwl grads) u)
     <= ext_max_slew s msa * (1 + eps) * Qabs (t - u)).
Proof. exact add_ext_sum_within_everywhere. Qed.
Print Assumptions C16_add_ext_sum_within_everywhere.

(* StartsOk / EndsOk are not extra assumptions for real sequences: every input list that one block
   can hold (timings on the raster, a gradient starting away from zero has zero delay, one ending
   away from zero ends at the block end D) satisfies ExtInputsOk ... *)
Theorem C16_c05_legal_inputs_ok : forall s D grads, C05Legal s D grads -> ExtInputsOk s grads.
Proof. exact c05_legal_inputs_ok. Qed.
Print Assumptions C16_c05_legal_inputs_ok.

(* ... so the pointwise-sum theorem holds for all of them *)
Theorem C16_add_ext_path_sum_legal : forall s D mg ms grads g,
  add_gradients s mg ms grads = OK (P_ext, g) -> C05Legal s D grads ->
  forall t, eval (to_pwl g) t == sum_eval (map to_pwl grads) t.
Proof. exact add_ext_path_sum_legal. Qed.
Print Assumptions C16_add_ext_path_sum_legal.

(* Duration = the longest input duration, on all three paths *)
Theorem C16_add_duration_is_max_trap : forall s mg ms grads g,
  add_gradients s mg ms grads = OK (P_trap, g) -> (forall x, In x grads -> WF x) ->
  g_dur g == maxl (map g_dur grads).
Proof. exact add_duration_is_max_trap. Qed.
Print Assumptions C16_add_duration_is_max_trap.

Theorem C16_add_duration_is_max_ext : forall s D mg ms grads g,
  add_gradients s mg ms grads = OK (P_ext, g) -> C05Legal s D grads ->
  g_dur g == maxl (map g_dur grads).
Proof. exact add_duration_is_max_ext. Qed.
Print Assumptions C16_add_duration_is_max_ext.

Theorem C16_add_duration_is_max_raster : forall s mg ms grads g,
  add_gradients s mg ms grads = OK (P_raster, g) -> RasterInputsOk s grads ->
  (forall x, In x grads -> FieldsOk x) ->
  g_dur g == maxl (map g_dur grads).
Proof. exact add_duration_is_max_raster. Qed.
Print Assumptions C16_add_duration_is_max_raster.

(* ---------- non-vacuity ---------- *)
Definition ex_sys := mkSys 1000 1000 1.
Definition ex_grads := [GTrap (mkTrap 100 1 1 1 0); GExt (mkEG 0 [0; 2; 4] [10; 50; 0] 10 0 4)].

Example C16_ext_path_reached : exists g, add_gradients ex_sys 0 0 ex_grads = OK (P_ext, g).
Proof. eexists. vm_compute. reflexivity. Qed.

Example C16_ExtInputsOk_satisfiable : ExtInputsOk ex_sys ex_grads.
Proof.
  constructor.
  - intros g [<-|[<-|[]]]; cbn; repeat split; try lra; try discriminate.
  - vm_compute. intuition discriminate.
  - intros g [<-|[<-|[]]]; [left; reflexivity|right; vm_compute; intuition discriminate].
  - intros g [<-|[<-|[]]]; left; reflexivity.
  - split; [reflexivity|exists 0%Z; reflexivity].
Qed.

Example C16_trap_path_reached :
  exists g, add_gradients ex_sys 0 0 [GTrap (mkTrap 100 1 1 1 0); GTrap (mkTrap (-30) 1 1 1 0)] = OK (P_trap, g).
Proof. eexists. vm_compute. reflexivity. Qed.

Ltac on_raster_1 :=
  first [exists 0%Z; reflexivity | exists 1%Z; reflexivity | exists 2%Z; reflexivity
        | exists 3%Z; reflexivity | exists 4%Z; reflexivity].

Example C16_C05Legal_satisfiable : C05Legal ex_sys 4 ex_grads.
Proof.
  constructor.
  - discriminate.
  - intros g [<-|[<-|[]]]; cbn; repeat split; try lra; try discriminate; reflexivity.
  - vm_compute. discriminate.
  - intros g c [<-|[<-|[]]] Hc; cbn in Hc; repeat (destruct Hc as [<-|Hc]); try destruct Hc; on_raster_1.
  - intros g [<-|[<-|[]]]; cbn; lra.
  - intros g [<-|[<-|[]]]; cbn; lra.
  - intros g [<-|[<-|[]]] Hn; cbn in *; reflexivity.
  - intros g [<-|[<-|[]]] Hn; cbn in *; exfalso; apply Hn; reflexivity.
Qed.

Definition ex_raster_grads :=
  [GTrap (mkTrap 100 1 1 1 1); GExt (mkEG 0 [1 # 2; 3 # 2] [5; 7] 0 0 2)].

Example C16_raster_path_reached : exists g, add_gradients ex_sys 0 0 ex_raster_grads = OK (P_raster, g).
Proof. eexists. vm_compute. reflexivity. Qed.

Example C16_RasterInputsOk_satisfiable : RasterInputsOk ex_sys ex_raster_grads.
Proof.
  constructor; [reflexivity|discriminate|].
  intros g [<-|[<-|[]]].
  - split; [exists 1%Z; reflexivity|]. split; [cbn; repeat split; lra|exists 3%Z; reflexivity].
  - split; [exists 0%Z; reflexivity|].
    assert (E : is_arb ex_sys (GExt (mkEG 0 [1 # 2; 3 # 2] [5; 7] 0 0 2)) = true) by (vm_compute; reflexivity).
    rewrite E. repeat split; cbn [eg_tt eg_wf eg_shape_dur length]; try lia; try reflexivity.
    intros j Hj. destruct j as [|[|j]]; [reflexivity|reflexivity|lia].
Qed.

(* ---------- the StartsOk hypothesis is necessary (the model is faithful to the `tt[0] += eps` hack):
   an extended trapezoid that starts at 50 after a delay of one raster, added to a trapezoid: the
   result at the start time of the second gradient is 100, the sum of the inputs is 150 ---------- *)
Definition bad_grads := [GTrap (mkTrap 100 1 1 1 0); GExt (mkEG 1 [0; 2] [50; 0] 50 0 2)].

Theorem C16_add_ext_path_sum_needs_StartsOk_refuted :
  exists g, add_gradients ex_sys 0 0 bad_grads = OK (P_ext, g) /\ (forall x, In x bad_grads -> WF x) /\
            eval (to_pwl g) 1 == 100 /\ sum_eval (map to_pwl bad_grads) 1 == 150.
Proof.
  eexists. split; [vm_compute; reflexivity|]. split.
  - intros g [<-|[<-|[]]]; cbn; repeat split; try lra; try discriminate.
  - split; vm_compute; reflexivity.
Qed.
Print Assumptions C16_add_ext_path_sum_needs_StartsOk_refuted.

(* Duration / first / last.  Extended-trapezoid path: the result's first (last) value is the sum of
   the input renderings at the earliest (latest) corner time of all inputs — i.e. the sum of the
   firsts (lasts) of the inputs that start (end) there, the others being 0 there — and its duration
   is that latest corner time (the longest input duration). *)
Theorem C16_add_first_last_duration_ext : forall s mg ms grads g,
  add_gradients s mg ms grads = OK (P_ext, g) -> ExtInputsOk s grads ->
  g_first g == sum_eval (map to_pwl grads) (hd 0 (T0 grads)) /\
  g_last g == sum_eval (map to_pwl grads) (last (T0 grads) 0) /\
  g_dur g == last (T0 grads) 0.
Proof. exact add_ext_first_last_duration. Qed.
Print Assumptions C16_add_first_last_duration_ext.

(* Equal-timing path: every input has the duration of the result (so it is the maximum), and
   first = last = 0 for the result and for every input. *)
Theorem C16_add_duration_first_last_trap : forall s mg ms grads g,
  add_gradients s mg ms grads = OK (P_trap, g) -> (forall x, In x grads -> WF x) ->
  g_first g = 0 /\ g_last g = 0 /\
  forall x, In x grads -> g_dur x == g_dur g /\ g_first x = 0 /\ g_last x = 0.
Proof. exact add_trap_duration_first_last. Qed.
Print Assumptions C16_add_duration_first_last_trap.
