(* Props/C19.v — labels and triggers are stored, evaluated and reloaded faithfully.
   Statements only (proofs in Proofs/LabelProofs.v and Proofs/ExtProofs.v). *)
From Coq Require Import List Bool ZArith QArith Qcanon Permutation.
From PV Require Import Base.AList Model.EventLib Model.Seq Model.Labels Model.LabelEval Proofs.LabelProofs.
Import ListNotations.
Open Scope Z_scope.

(* ---- evaluate_labels ----------------------------------------------------------------------------- *)
(* For EVERY label program (any number of operations per label and block), every init dictionary and
   every evolution mode, the entry of label l in the dictionary returned by evaluate_labels is what the
   label-by-label interpreter computes: SET assigns, INC adds (an unset label counts as 0), operations of
   one block are applied in the order get_block returns them, one row per emitting block; the entry is
   absent iff l is neither in init nor touched. *)
Theorem C19_eval_labels_is_seq_interpreter : forall init m bs l,
  aget Z.eqb (fst (evaluate_labels init m bs)) l = interp_seq init m bs l.
Proof. exact eval_labels_is_seq_interpreter. Qed.
Print Assumptions C19_eval_labels_is_seq_interpreter.

(* The property's form: with at most one operation per label in each block, evaluate_labels equals the
   interpreter that looks up THE operation on l in each block (no order involved). *)
Theorem C19_eval_labels_is_interpreter : forall init m bs l,
  forallb one_op_per_label bs = true ->
  aget Z.eqb (fst (evaluate_labels init m bs)) l = interp init m bs l.
Proof. exact eval_labels_is_interpreter. Qed.
Print Assumptions C19_eval_labels_is_interpreter.

(* Consequently the order in which the store returns the labels of a block (ascending library id, ties
   decided by NumPy's sort) is not observable through evaluate_labels on such programs. *)
Theorem C19_eval_labels_order_irrelevant : forall init m bs bs' l,
  Forall2 same_up_to_order bs bs' -> forallb one_op_per_label bs = true ->
  aget Z.eqb (fst (evaluate_labels init m bs)) l = aget Z.eqb (fst (evaluate_labels init m bs')) l.
Proof. exact eval_labels_order_irrelevant. Qed.
Print Assumptions C19_eval_labels_order_irrelevant.

(* ... and it IS observable with two operations on one label (SET 5 then INC 1 gives 6, INC 1 then SET 5
   gives 5): the restriction in the property is necessary. *)
Theorem C19_eval_labels_order_matters_refuted :
  exists (init : env) (m : emode) (b b' : lblock) (l : Z), same_up_to_order b b' /\
    (aget Z.eqb (fst (evaluate_labels init m [b])) l <> aget Z.eqb (fst (evaluate_labels init m [b'])) l).
Proof. exact eval_labels_order_matters_refuted. Qed.
Print Assumptions C19_eval_labels_order_matters_refuted.

(* arrays are returned iff some block emitted a row (otherwise the final values as scalars, also in the
   modes 'adc' / 'label' / 'blocks' when no block qualifies) *)
Theorem C19_eval_labels_array_flag : forall init m bs,
  snd (evaluate_labels init m bs) = existsb (emits m) bs.
Proof. exact eval_labels_array_flag. Qed.
Print Assumptions C19_eval_labels_array_flag.

(* non-vacuity: a program satisfying the hypothesis, evaluated in 'label' mode with an init *)
Example C19_eval_example :
  let bs := [mkLBlock [mkLop false 8 1; mkLop true 1 3] false; mkLBlock [] true; mkLBlock [mkLop false 8 2] true] in
  forallb one_op_per_label bs = true /\
  evaluate_labels [(8, 10)] ELabel bs = ([(8, [11; 13]); (1, [3; 3])], true) /\
  interp [(8, 10)] EAdc bs 8 = Some [11; 13] /\ interp [(8, 10)] EAdc bs 2 = None.
Proof. vm_compute. repeat split; reflexivity. Qed.
