(* Props/C19.v — labels and triggers are stored, evaluated and reloaded faithfully.
   Statements only (proofs in Proofs/LabelProofs.v, Proofs/ExtProofs.v, Proofs/ExtStore.v, Proofs/LabelTables.v).
   Model: Model/Seq.v (set_block / get_block, extension library), Model/Labels.v (evaluate_labels),
   Model/LabelEval.v (chain walk with explicit out-of-fuel result, reference interpreter). *)
From Coq Require Import List Bool ZArith QArith Qcanon Qabs Permutation String.
From RecordUpdate Require Import RecordSet.
From PV Require Import Base.AList Gen.GenLabels Model.EventLib Model.Seq Model.Labels Model.LabelEval
                       Proofs.SeqSpec Proofs.SeqCache Proofs.LabelProofs Proofs.ExtProofs Proofs.ExtStore
                       Proofs.LabelTables Gen.GenFile Model.File Model.ExtFile Proofs.FileProofs Proofs.ExtFileProofs
                       Proofs.ExtFileInv Proofs.ExtFileReuse.
Import ListNotations RecordSetNotations.
Open Scope Z_scope.

(* ---- evaluate_labels ----------------------------------------------------------------------------- *)
(* For EVERY label program (any number of operations per label and block), every init dictionary and
   every evolution mode, the entry of label l in the dictionary returned by evaluate_labels is what the
   label-by-label interpreter computes: SET assigns, INC adds (an unset label counts as 0), operations of
   one block are applied in the order get_block returns them, one row per emitting block; the entry is
   absent iff l is neither in init nor touched. *)
Theorem C19_eval_labels_is_seq_interpreter : forall init m bs l,
  aget Z.eqb (fst (evaluate_labels init m bs)) l = interp_seq init m bs l.
Proof. exact eval_labels_is_seq_interpreter. Qed.
Print Assumptions C19_eval_labels_is_seq_interpreter.

(* The property's form: with at most one operation per label in each block, evaluate_labels equals the
   interpreter that looks up THE operation on l in each block (no order involved). *)
Theorem C19_eval_labels_is_interpreter : forall init m bs l,
  forallb one_op_per_label bs = true ->
  aget Z.eqb (fst (evaluate_labels init m bs)) l = interp init m bs l.
Proof. exact eval_labels_is_interpreter. Qed.
Print Assumptions C19_eval_labels_is_interpreter.

(* Consequently the order in which the store returns the labels of a block (ascending library id, ties
   decided by NumPy's sort) is not observable through evaluate_labels on such programs. *)
Theorem C19_eval_labels_order_irrelevant : forall init m bs bs' l,
  Forall2 same_up_to_order bs bs' -> forallb one_op_per_label bs = true ->
  aget Z.eqb (fst (evaluate_labels init m bs)) l = aget Z.eqb (fst (evaluate_labels init m bs')) l.
Proof. exact eval_labels_order_irrelevant. Qed.
Print Assumptions C19_eval_labels_order_irrelevant.

(* ... and it IS observable with two operations on one label (SET 5 then INC 1 gives 6, INC 1 then SET 5
   gives 5): the restriction in the property is necessary. *)
Theorem C19_eval_labels_order_matters_refuted :
  exists (init : env) (m : emode) (b b' : lblock) (l : Z), same_up_to_order b b' /\
    (aget Z.eqb (fst (evaluate_labels init m [b])) l <> aget Z.eqb (fst (evaluate_labels init m [b'])) l).
Proof. exact eval_labels_order_matters_refuted. Qed.
Print Assumptions C19_eval_labels_order_matters_refuted.

(* arrays are returned iff some block emitted a row (otherwise the final values as scalars, also in the
   modes 'adc' / 'label' / 'blocks' when no block qualifies) *)
Theorem C19_eval_labels_array_flag : forall init m bs,
  snd (evaluate_labels init m bs) = existsb (emits m) bs.
Proof. exact eval_labels_array_flag. Qed.
Print Assumptions C19_eval_labels_array_flag.

(* non-vacuity: a program satisfying the hypothesis, evaluated in 'label' mode with an init *)
Example C19_eval_example :
  let bs := [mkLBlock [mkLop false 8 1; mkLop true 1 3] false; mkLBlock [] true; mkLBlock [mkLop false 8 2] true] in
  forallb one_op_per_label bs = true /\
  evaluate_labels [(8, 10)] ELabel bs = ([(8, [11; 13]); (1, [3; 3])], true) /\
  interp [(8, 10)] EAdc bs 8 = Some [11; 13] /\ interp [(8, 10)] EAdc bs 2 = None.
Proof. vm_compute. repeat split; reflexivity. Qed.

(* ==== the extension library ========================================================================== *)
(* [ext_wf l]: every entry of the extension library is a row (type, ref, next) with 0 <= next < own id and
   next = 0 or an existing entry; keymap and data agree in both directions (so no two ids hold the same
   row).  [ext_walk] is get_block's while loop with a three-valued result: ok / KeyError / out of fuel. *)

(* The invariant holds in EVERY state reachable from a well-formed store by ANY history of add_block,
   set_block (also failing ones), get_block, register_*_event, remove_duplicates, write and read of a file
   whose extension section is well formed — by induction over the operation list. *)
Theorem C19_ext_inv_histories : forall cache_on abs_fix r1 r2 r3 r4 ops s0,
  ext_wf (ext_l (st_core s0)) -> ops_ext_wf ops ->
  ext_wf (ext_l (st_core (fst (run cache_on abs_fix r1 r2 r3 r4 s0 ops)))).
Proof. exact run_ext_wf. Qed.
Print Assumptions C19_ext_inv_histories.

(* Well-founded chains: under the invariant the walk from any id never runs out of the fuel the model of
   get_block uses (one more than the number of entries); from a valid id it succeeds and visits at most
   as many entries as the library has. *)
Theorem C19_ext_walk_terminates : forall l eid, ext_wf l -> ext_walk l (S (List.length (ldata l))) eid <> WFuel.
Proof. exact ext_walk_terminates. Qed.
Print Assumptions C19_ext_walk_terminates.

Theorem C19_ext_walk_total : forall l eid, ext_wf l -> ext_valid l eid ->
  exists ids, ext_walk l (S (List.length (ldata l))) eid = WOk ids /\ (List.length ids <= List.length (ldata l))%nat.
Proof. exact ext_walk_total. Qed.
Print Assumptions C19_ext_walk_total.

(* Both together, from the empty Sequence: next pointers strictly decrease and the walk terminates in
   every reachable state. *)
Theorem C19_ext_walk_terminates_histories : forall cache_on abs_fix r1 r2 r3 r4 ops g s sl e eid,
  ops_ext_wf ops ->
  let c := st_core (fst (run cache_on abs_fix r1 r2 r3 r4 (mkState (core_init g s sl e) []) ops)) in
  ext_walk (ext_l c) (S (List.length (ldata (ext_l c)))) eid <> WFuel /\
  (forall id k, lib_get (ext_l c) id = Some k -> 0 <= qz (knth k 2) < id).
Proof. exact ext_walk_terminates_run. Qed.
Print Assumptions C19_ext_walk_terminates_histories.

(* For ANY store (no invariant needed): more fuel than the model's never changes get_block's answer. *)
Theorem C19_dec_ext_fuel_irrelevant : forall c f eid,
  (S (List.length (ldata (ext_l c))) <= f)%nat ->
  dec_ext c f eid = dec_ext c (S (List.length (ldata (ext_l c)))) eid.
Proof. exact dec_ext_fuel_irrelevant. Qed.
Print Assumptions C19_dec_ext_fuel_irrelevant.

(* Under the invariant the chain of a valid id is a definite list of (type id, ref) pairs and get_block's
   result is the per-entry payload lookup over it: it can fail only through a missing referenced event or
   an unknown extension type, never through the chain itself. *)
Theorem C19_dec_ext_fails_only_on_payload : forall c eid,
  ext_wf (ext_l c) -> ext_valid (ext_l c) eid ->
  exists xs, ext_list (ext_l c) (S (List.length (ldata (ext_l c)))) eid = Some xs /\
             dec_ext c (S (List.length (ldata (ext_l c)))) eid = map_opt (ext_payload c) xs.
Proof. exact dec_ext_fails_only_on_payload. Qed.
Print Assumptions C19_dec_ext_fails_only_on_payload.

(* Round trip of one registration (block.py:160-188 then 383-436), for every store satisfying the
   invariant, every list of (type id, ref) pairs and every tie order of the sort: get_block's walk of the
   returned id yields exactly the payloads of the sorted list, in reverse (walk) order, and the sorted
   list is a permutation of what was added. *)
Theorem C19_ext_roundtrip : forall hint c exts,
  ext_wf (ext_l c) ->
  let el := fst (ext_register hint (ext_l c) exts) in
  let id := snd (ext_register hint (ext_l c) exts) in
  let c' := c <| ext_l := el |> in
  dec_ext c' (S (List.length (ldata el))) id = map_opt (ext_payload c) (rev (sort_exts hint exts)) /\
  Permutation (rev (sort_exts hint exts)) exts.
Proof. exact ext_roundtrip. Qed.
Print Assumptions C19_ext_roundtrip.

Theorem C19_sort_is_permutation : forall hint exts, Permutation (sort_exts hint exts) exts.
Proof. exact sort_exts_perm. Qed.
Print Assumptions C19_sort_is_permutation.

(* Sharing: a second block whose sorted list is the same gets the same id and adds nothing. *)
Theorem C19_ext_register_shares : forall h1 h2 (l : klib) e1 e2,
  ext_wf l -> sort_exts h2 e2 = sort_exts h1 e1 ->
  let l1 := fst (ext_register h1 l e1) in
  ext_register h2 l1 e2 = (l1, snd (ext_register h1 l e1)).
Proof. exact ext_register_shares. Qed.
Print Assumptions C19_ext_register_shares.

(* Injectivity: two ids that stand for the same list are the same id — so blocks with different sorted
   lists never share an id, and blocks sharing an id decode identically. *)
Theorem C19_ext_list_injective : forall l, ext_wf l -> forall xs f1 f2 id1 id2,
  ext_list l f1 id1 = Some xs -> ext_list l f2 id2 = Some xs -> id1 = id2.
Proof. exact ext_list_injective. Qed.
Print Assumptions C19_ext_list_injective.

(* ==== whole blocks ===================================================================================== *)
(* [lab_inv c]: library ids below next_free_ID, [ext_wf], keymap -> data consistency of the trigger and the
   two label libraries, extension type table without duplicate numeric ids and of equal lengths.
   Kept along every history whose block operations pass label/trigger events by value. *)
Theorem C19_lab_inv_histories : forall cache_on abs_fix r1 r2 r3 r4 ops s0,
  lab_inv (st_core s0) -> Forall op_lab_ok ops ->
  lab_inv (st_core (fst (run cache_on abs_fix r1 r2 r3 r4 s0 ops))).
Proof. exact run_lab_inv. Qed.
Print Assumptions C19_lab_inv_histories.

Theorem C19_lab_inv_init : forall g s sl e, lab_inv (core_init g s sl e).
Proof. exact lab_inv_init. Qed.
Print Assumptions C19_lab_inv_init.

(* set_block on any store satisfying the invariant: the stored row's extension chain decodes (the very
   expression decode uses) to a permutation of the (extension string, library row) pairs of the label and
   trigger events in the argument list. *)
Theorem C19_set_block_ext_roundtrip : forall abs_fix c i evs hint c' clr,
  lab_inv c -> Forall ev_ok evs -> Forall ext_by_value evs ->
  set_block_core abs_fix c i evs hint = (c', clr, None) ->
  exists ext, stored_ext c' i = Some ext /\ Permutation ext (flat_map ext_event_payload evs).
Proof. exact set_block_ext_roundtrip. Qed.
Print Assumptions C19_set_block_ext_roundtrip.

(* The property's first sentence for the model: after ANY history from the empty Sequence, a successful
   add_block followed by get_block of that block returns labels (SET/INC, label id, value) and trigger rows
   (type, channel, delay, duration) that are permutations of the ones added. *)
Theorem C19_add_block_get_block_labels_triggers :
  forall cache_on abs_fix r1 r2 r3 r4 ops g sr sl e evs hint b,
  Forall op_lab_ok ops -> Forall ev_ok evs -> Forall ext_by_value evs ->
  let s := fst (run cache_on abs_fix r1 r2 r3 r4 (mkState (core_init g sr sl e) []) ops) in
  let res := step cache_on abs_fix r1 r2 r3 r4 s (AddBlock evs hint) in
  snd res = ONone ->
  decode (st_core (fst res)) (next_block (st_core s)) = Some b ->
  Permutation (labels_of_ext (d_ext b)) (event_labels evs) /\
  Permutation (trigs_of_ext (d_ext b)) (event_trigs evs).
Proof. exact add_block_get_block_labels_triggers. Qed.
Print Assumptions C19_add_block_get_block_labels_triggers.

(* non-vacuity: a concrete history (two blocks with the same extension set added in different order, one
   with a subset) satisfies the hypotheses; both blocks share one extension id; the decoded labels come
   back in ascending library-id order whatever the order of addition *)
Definition ex_ev1 : list mevent :=
  [MLabel None false (zq 1) 8; MDelay (zq 1); MLabel None false (zq (-3)) 1; MLabel None false (zq 7) 2].
Definition ex_ev2 : list mevent :=
  [MLabel None false (zq 7) 2; MLabel None false (zq (-3)) 1; MLabel None false (zq 1) 8].
Definition ex_ev3 : list mevent := [MLabel None false (zq 1) 8; MCtl None 2 1 (zq 0) (zq 1)].
Definition ex_ops : list op := [AddBlock ex_ev1 []; AddBlock ex_ev2 []; AddBlock ex_ev3 []; GetBlock 1].
Definition ex_core : core :=
  st_core (fst (run true true (fun k => k) (fun k => k) (fun k => k) (fun k => k)
                    (mkState (core_init qc0 qc0 qc0 qc0) []) ex_ops)).

Example C19_history_example :
  Forall op_lab_ok ex_ops /\
  option_map (fun r => nth 6 r 0) (aget Z.eqb (blocks ex_core) 1) = Some 3 /\
  option_map (fun r => nth 6 r 0) (aget Z.eqb (blocks ex_core) 2) = Some 3 /\
  option_map (fun r => nth 6 r 0) (aget Z.eqb (blocks ex_core) 3) = Some 4 /\
  option_map labels_of_ext (stored_ext ex_core 1) = Some [mkLop false 8 1; mkLop false 1 (-3); mkLop false 2 7] /\
  option_map labels_of_ext (stored_ext ex_core 2) = Some [mkLop false 8 1; mkLop false 1 (-3); mkLop false 2 7] /\
  option_map (fun x => List.length (trigs_of_ext x)) (stored_ext ex_core 3) = Some 1%nat /\
  ext_walk (ext_l ex_core) (S (List.length (ldata (ext_l ex_core)))) 3 = WOk [3; 2; 1] /\
  ext_walk (ext_l ex_core) (S (List.length (ldata (ext_l ex_core)))) 4 = WOk [4; 1].
Proof.
  split; [repeat constructor|]. vm_compute. repeat split; reflexivity.
Qed.

(* ==== the extension type table across read() ========================================================= *)
(* A name seen for the first time gets a number that is not in use — for ANY list of numbers, in
   particular one that read() filled in file-section order (TRIGGERS, LABELSET, LABELINC), e.g. [2; 1]. *)
Theorem C19_ext_type_id_fresh : forall c s,
  index_of s (ext_str c) = None -> ~ In (snd (ext_type_id c s)) (ext_num c).
Proof. exact ext_type_id_fresh. Qed.
Print Assumptions C19_ext_type_id_fresh.

(* a known name keeps its number *)
Theorem C19_ext_type_id_known : forall c ty s,
  xt_inv c -> ext_type_str c ty = Some s -> ext_type_id c s = (c, ty).
Proof. exact ext_type_id_known. Qed.
Print Assumptions C19_ext_type_id_known.

(* the variant `1 + extension_numeric_idx[-1]` is refuted on the store a re-read sequence has when LABELINC
   was used before LABELSET: the new TRIGGERS type receives the number of LABELSET *)
Theorem C19_ext_type_id_last_refuted :
  exists c s, xt_inv c /\ index_of s (ext_str c) = None /\
    In (snd (ext_type_id_last c s)) (ext_num c) /\
    ext_type_str (fst (ext_type_id_last c s)) (snd (ext_type_id_last c s)) <> Some s.
Proof. exact ext_type_id_last_refuted. Qed.
Print Assumptions C19_ext_type_id_last_refuted.

(* the same two facts for the rule as the translator reads it from get_extension_type_ID *)
Theorem C19_ext_new_id_fresh : forall l, ~ In (ext_new_id l) l.
Proof. exact ext_new_id_fresh. Qed.
Print Assumptions C19_ext_new_id_fresh.

Theorem C19_ext_new_id_is_model : forall l, Forall (fun x => 0 <= x) l ->
  ext_new_id l = match l with [] => 1 | _ => 1 + max_list l end.
Proof. exact ext_new_id_is_model. Qed.
Print Assumptions C19_ext_new_id_is_model.

(* ==== "also after write and read" ======================================================================= *)
(* Model/ExtFile.v: write_ext / read_ext over the column tables of Gen/GenFile.v (sec_ext, sec_trig, sec_lset,
   sec_linc: multiplier, np.round, format, read scale — regenerated from write_seq.py / read_seq.py).
   [file_ready c]: extension type table without duplicates, [ext_wf], ids unique and non-zero, trigger rows
   (type, channel, delay, duration) with integer codes, label rows (integer value, label id). *)

(* it holds in every state reachable from the empty Sequence (events by value, integer label values) *)
Theorem C19_file_ready_histories : forall cache_on abs_fix r1 r2 r3 r4 ops g s sl e,
  Forall op_file_ok ops ->
  file_ready (st_core (fst (run cache_on abs_fix r1 r2 r3 r4 (mkState (core_init g s sl e) []) ops))).
Proof. exact run_file_ready. Qed.
Print Assumptions C19_file_ready_histories.

(* the microsecond rounding of the writer: within half a microsecond, exact on whole microseconds *)
Theorem C19_round_us_spec : forall x : Qc,
  (Qabs (this (round_us x) - this x) <= 1 # 2000000)%Q /\ (is_int (this x * us)%Q -> round_us x = x).
Proof. exact round_us_spec. Qed.
Print Assumptions C19_round_us_spec.

(* file_roundtrip_ext: write, then read into a fresh Sequence: the reader does not raise; every
   [EXTENSIONS] row and every label row comes back as it was; every trigger row comes back with delay and
   duration rounded to whole microseconds; every number <-> name pair of a kind that has events survives *)
Theorem C19_file_roundtrip_ext : forall c0 c, file_ready c -> (read_resets_ext_library = false -> ext_l c0 = lib_empty) ->
  exists c', reread_ext c0 c = Some c' /\
    (forall id, lib_get (ext_l c') id = lib_get (ext_l c) id) /\
    (forall id, lib_get (lset_l c') id = lib_get (lset_l c) id) /\
    (forall id, lib_get (linc_l c') id = lib_get (linc_l c) id) /\
    (forall id, lib_get (trig_l c') id = option_map file_trig_row (lib_get (trig_l c) id)) /\
    (forall ty s, ext_type_str c ty = Some s -> lib_for c s = true -> ext_type_str c' ty = Some s) /\
    xt_inv c'.
Proof. exact file_roundtrip_ext. Qed.
Print Assumptions C19_file_roundtrip_ext.

(* get_block's chain walk on the re-read store: the same entries in the same order *)
Theorem C19_dec_ext_reread : forall c0 c c', file_ready c -> (read_resets_ext_library = false -> ext_l c0 = lib_empty) -> reread_ext c0 c = Some c' ->
  forall f eid r, dec_ext c f eid = Some r ->
    dec_ext c' f eid = Some (map file_payload r) /\
    labels_of_ext (map file_payload r) = labels_of_ext r /\
    trigs_of_ext (map file_payload r) = map file_trig_row (trigs_of_ext r).
Proof.
  intros c0 c c' FR E0 R f eid r H. split; [exact (dec_ext_reread c0 c c' FR E0 R f eid r H)|].
  split; [apply labels_file_payload|apply trigs_file_payload].
Qed.
Print Assumptions C19_dec_ext_reread.

(* evaluate_labels after write + read: the label program read off the block table is literally the same
   (pypulseq keeps the library ids in the file, so not even the order inside a block changes), hence the
   result is the same for EVERY program, init and mode.  ([BLOCKS] rows are integers: C01.) *)
Theorem C19_eval_labels_reread : forall c0 c c' init m x,
  file_ready c -> (read_resets_ext_library = false -> ext_l c0 = lib_empty) -> reread_ext c0 c = Some c' -> blocks c' = blocks c ->
  eval_table c init m = Some x -> eval_table c' init m = Some x.
Proof. exact eval_labels_reread. Qed.
Print Assumptions C19_eval_labels_reread.

Theorem C19_eval_store_is_eval_table : forall c init m x,
  eval_store c init m = Some x -> eval_table c init m = Some x.
Proof. exact eval_store_is_eval_table. Qed.
Print Assumptions C19_eval_store_is_eval_table.

(* Should a reader or writer renumber the label libraries, the labels of a block come back in another
   order: C19_eval_labels_order_irrelevant covers that under the property's one-operation-per-label
   hypothesis, C19_eval_labels_order_matters_refuted shows it fails without it. *)

(* non-vacuity: the history example above, written and re-read into a fresh store *)
Example C19_reread_example :
  match reread_ext (core_init qc0 qc0 qc0 qc0) ex_core with
  | Some c' =>
    ext_num c' = [2; 1] /\ ext_str c' = [XS_TRIGGERS; XS_LABELINC] /\
    option_map (map (fun kv => fst kv)) (Some (ldata (ext_l c'))) = Some [1; 2; 3; 4] /\
    option_map labels_of_ext (dec_ext c' 5 4) = option_map labels_of_ext (dec_ext ex_core 5 4) /\
    option_map (fun x => map (map qz) (trigs_of_ext x)) (dec_ext c' 5 4) = Some [[2; 1; 0; 1]] /\
    snd (ext_type_id c' XS_LABELSET) = 3
  | None => False
  end.
Proof. vm_compute. repeat split; reflexivity. Qed.

(* ==== read() onto an object that is not fresh ============================================================ *)
(* Model/ExtFile.v [read_ext c0 f] for ANY receiving core c0 (C19_reread_ext_spec states the store): the trigger
   and the two label libraries and both extension type lists are re-created from the file.  The extension library:
   [read_resets_ext_library] is read from read_seq.py — true since /repo 9f51bed (re-created like the others);
   before that commit the OLD library survived, data and keymap, whenever the file had no [EXTENSIONS] section.
   All theorems of this section are proved for both values of the flag: the old behaviour left unused stale rows
   in the library (and in the next written file — the C02 finding) but could not make get_block wrong. *)
Theorem C19_reread_ext_spec : forall c0 c, xt_inv c ->
  exists c', reread_ext c0 c = Some c' /\
    ext_l c' = (if nonempty (ext_l c) then lib_of_rows lib_empty (map (read_row sec_ext) (wrows sec_ext (ext_l c)))
                else if read_resets_ext_library then lib_empty else ext_l c0) /\
    trig_l c' = lib_of_rows lib_empty (map (read_row sec_trig) (wrows sec_trig (trig_l c))) /\
    lset_l c' = lib_of_rows lib_empty (map (read_row sec_lset) (wrows sec_lset (lset_l c))) /\
    linc_l c' = lib_of_rows lib_empty (map (read_row sec_linc) (wrows sec_linc (linc_l c))) /\
    (forall ty s, ext_type_str c ty = Some s -> lib_for c s = true -> ext_type_str c' ty = Some s) /\
    NoDup (ext_num c') /\ NoDup (ext_str c') /\ List.length (ext_num c') = List.length (ext_str c').
Proof. exact reread_ext_spec. Qed.
Print Assumptions C19_reread_ext_spec.

(* the invariant survives: the re-created libraries are built by insert(key_id, data) into a fresh library from rows
   with distinct non-zero ids (no stale path remains there: keymap -> data is consistent, and for extension rows
   also data -> keymap); a surviving extension library (old reader) is internally consistent, its entries are looked
   up by their full content and decoded against the current tables.  So no stale keymap entry can make a later
   add_block resolve to a wrong id: *)
Theorem C19_read_onto_lab_inv : forall c0 c c',
  lab_inv c0 -> fr_inv c -> reread_ext c0 c = Some c' -> lab_inv c'.
Proof. exact read_onto_lab_inv. Qed.
Print Assumptions C19_read_onto_lab_inv.

(* and it is again ready to be written: histories may contain read() of files written by write(), onto any
   object, any number of times *)
Theorem C19_read_onto_fr_inv : forall c0 c c',
  fr_inv c0 -> fr_inv c -> reread_ext c0 c = Some c' -> fr_inv c'.
Proof. exact read_onto_fr_inv. Qed.
Print Assumptions C19_read_onto_fr_inv.

Theorem C19_add_block_after_read_onto : forall abs_fix c0 c c1 i evs hint c2 clr,
  lab_inv c0 -> fr_inv c -> reread_ext c0 c = Some c1 ->
  Forall ev_ok evs -> Forall ext_by_value evs ->
  set_block_core abs_fix c1 i evs hint = (c2, clr, None) ->
  exists ext, stored_ext c2 i = Some ext /\ Permutation ext (flat_map ext_event_payload evs).
Proof. exact add_block_after_read_onto. Qed.
Print Assumptions C19_add_block_after_read_onto.

(* ... whereas a reader that does not re-create the TRIGGER library is refuted: the object holds a physio1
   trigger of 2 ms under id 1, the file an osc0 output of 100 us under id 1; after the read the old
   content -> id entry is still in the keymap, and adding the 2 ms trigger again stores a block that decodes
   to the output pulse.  With the reader as it is the same steps return the trigger. *)
Definition rx_run (evs : list mevent) : core :=
  st_core (fst (run true true (fun k => k) (fun k => k) (fun k => k) (fun k => k)
                    (mkState (core_init qc0 qc0 qc0 qc0) []) [AddBlock evs []])).
Definition rx_trig : mevent := MCtl None 2 1 qc0 (Q2Qc (2 # 1000)).
Definition rx_old : core := rx_run [MLabel None false (zq 1) 8; rx_trig].
Definition rx_file : core := rx_run [MCtl None 1 1 qc0 (Q2Qc (1 # 10000))].
Definition rx_codes (ext : list (Z * key)) : list (list Z) := map (fun k => map qz (firstn 2 k)) (trigs_of_ext ext).
Definition rx_after (c : core) : option (list (list Z)) :=
  option_map rx_codes (stored_ext (fst (fst (set_block_core true c 9 [rx_trig] []))) 9).

Theorem C19_read_keep_trig_refuted :
  match read_ext rx_old (snd (write_ext rx_file)), read_ext_keep_trig rx_old (snd (write_ext rx_file)) with
  | Some cr, Some cv =>
    rx_after cr = Some [[2; 1]] /\                                     (* trigger, physio1: what was added *)
    rx_after cv = Some [[1; 1]] /\                                     (* output, osc0: the event of the file *)
    aget key_eqb (lkeymap (trig_l cv)) [zq 2; zq 1; qc0; Q2Qc (2 # 1000)] = Some 1 /\
    option_map (fun k => map qz (firstn 2 k)) (lib_get (trig_l cv) 1) = Some [1; 1]
  | _, _ => False
  end.
Proof. vm_compute. repeat split; reflexivity. Qed.
Print Assumptions C19_read_keep_trig_refuted.

(* ==== events passed by id ================================================================================= *)
(* `ev.id = seq.register_label_event(ev)` and then add_block(ev) many times: set_block trusts the id.  With the
   id register_* returned for THIS store, storing by id is storing by value (so the by-value theorems above
   cover the idiom) ... *)
Theorem C19_label_by_value_eq_by_id : forall abs_fix c i s v l hint,
  let '(c1, id, _) := register_label c s v l in
  fst (fst (set_block_core abs_fix c i [MLabel None s v l] hint)) =
  fst (fst (set_block_core abs_fix c1 i [MLabel (Some id) s v l] hint)).
Proof. exact label_by_value_eq_by_id. Qed.
Print Assumptions C19_label_by_value_eq_by_id.

Theorem C19_ctl_by_value_eq_by_id : forall abs_fix c i ty ch d du hint,
  let '(c1, id, _) := register_ctl c ty ch d du in
  fst (fst (set_block_core abs_fix c i [MCtl None ty ch d du] hint)) =
  fst (fst (set_block_core abs_fix c1 i [MCtl (Some id) ty ch d du] hint)).
Proof. exact ctl_by_value_eq_by_id. Qed.
Print Assumptions C19_ctl_by_value_eq_by_id.

(* ... whereas an id obtained from ANOTHER Sequence object is refuted: `INC LIN 1` is registered in a first store
   (id 1); a second store holds `INC SLC 5` under id 1; adding the event with the foreign id to the second store
   decodes to `INC SLC 5`.  This is why an event constructor must hand out fresh objects: an event returned by a
   later call with equal arguments must not carry the id an earlier use attached. *)
Definition by_id_first : core := fst (fst (register_label (core_init qc0 qc0 qc0 qc0) false (zq 1) 8)).
Definition by_id_second : core := fst (fst (register_label (core_init qc0 qc0 qc0 qc0) false (zq 5) 1)).
Theorem C19_foreign_id_refuted :
  snd (fst (register_label (core_init qc0 qc0 qc0 qc0) false (zq 1) 8)) = 1 /\
  option_map labels_of_ext
    (stored_ext (fst (fst (set_block_core true by_id_second 1 [MLabel (Some 1) false (zq 1) 8] []))) 1)
  = Some [mkLop false 1 5] /\
  option_map labels_of_ext
    (stored_ext (fst (fst (set_block_core true by_id_second 1 [MLabel None false (zq 1) 8] []))) 1)
  = Some [mkLop false 8 1].
Proof. vm_compute. repeat split; reflexivity. Qed.
Print Assumptions C19_foreign_id_refuted.

(* ==== tables read from the source (Gen/GenLabels.v) ================================================ *)
Theorem C19_labels_table : List.length supported_labels = 21%nat /\ NoDup supported_labels.
Proof. exact labels_table. Qed.
Print Assumptions C19_labels_table.

(* register (+1) / decode (-1) / write (-1) / read (+1) of the label id compose to the identity *)
Theorem C19_label_id_roundtrip : forall l, In l supported_labels ->
  exists n, idx l supported_labels = Some n /\
    nth_error supported_labels (Z.to_nat (Z.of_nat n + label_id_offset_register - label_id_offset_decode)) = Some l /\
    Forall (fun o => nth_error supported_labels (Z.to_nat (Z.of_nat n + o - label_id_offset_decode)) = Some l)
           label_id_offset_read.
Proof. exact label_id_roundtrip. Qed.
Print Assumptions C19_label_id_roundtrip.

(* trigger type / channel lists: the ones used for encoding (register_control_event), for decoding
   (get_block) and accepted by the makers coincide and have no duplicates *)
Theorem C19_ctl_tables :
  ctl_types_enc = ctl_types_dec /\ ctl_output_channels_enc = ctl_output_channels_dec /\
  ctl_trigger_channels_enc = ctl_trigger_channels_dec /\
  maker_output_channels = ctl_output_channels_enc /\ maker_trigger_channels = ctl_trigger_channels_enc /\
  NoDup ctl_types_enc /\ NoDup ctl_output_channels_enc /\ NoDup ctl_trigger_channels_enc.
Proof. exact ctl_tables. Qed.
Print Assumptions C19_ctl_tables.

(* extension names: set_block, get_block, the writer's header lines and the reader's prefixes use the
   same three names; the reader's slice lengths are the lengths of the prefixes it compares with *)
Theorem C19_ext_name_tables :
  NoDup ext_names_set_block /\ ext_names_get_block = ext_names_set_block /\
  (forall n, In n (map snd ext_headers_write) <-> In n ext_names_set_block) /\
  map snd ext_headers_write = map snd ext_headers_read /\
  Forall write_header_ok ext_headers_write /\ Forall read_header_ok ext_headers_read.
Proof. exact ext_name_tables. Qed.
Print Assumptions C19_ext_name_tables.

Theorem C19_trig_scales : Forall2 (fun m s => (m * s == 1)%Q) trig_write_mult trig_read_scale.
Proof. exact trig_scales. Qed.
Print Assumptions C19_trig_scales.

Theorem C19_row_formats :
  fmt_labelset_row = "{:.0f} {:.0f} {}"%string /\ fmt_labelinc_row = fmt_labelset_row /\
  fmt_extensions_row = "{:.0f} {:.0f} {:.0f} {:.0f}"%string /\
  fmt_triggers_row = "{:.0f} {:.0f} {:.0f} {:.0f} {:.0f}"%string /\
  label_value_is_int_coerced = true /\ label_type_strings = ["SET"; "INC"]%string.
Proof. exact row_formats. Qed.
Print Assumptions C19_row_formats.
