(* Props/C01.v — write then read reproduces every block within .seq precision.
   Statements over the column tables of Gen/GenFile.v (regenerated from write_seq.py / read_seq.py).
   Not covered by theorem (checked by the oracle of harness/props/C01.py): decoding of blocks from the
   libraries (get_block), the first/last reconstruction scan of read_seq.py:256-327 and duplicate removal
   after reading.  The RF-delay column is exact only while the delay in microseconds has at most 6
   significant digits (KF-5): col_sim states the bound that does hold, rf_delay_exact_refuted the witness. *)
From Coq Require Import List ZArith QArith Qabs.
From PV Require Import Base.QUtil Gen.GenFile Model.File Proofs.FileProofs.
Import ListNotations.
Open Scope Q_scope.

(* every column of every section: write multiplier x read scale = 1 *)
Theorem scale_inverse : forall sec c, In sec all_sections -> In c sec -> c_mult c * c_scale c == 1.
Proof. exact FileProofs.scale_inverse. Qed.
Print Assumptions scale_inverse.

(* '{:g}' / '{:.9g}' as exact decimal rounding: half a unit of the n-th significant digit, all rationals *)
Theorem round_sig_err : forall n x, Qabs (fmt_sig n x - x) <= (1 # 2) * p10 (1 - n) * Qabs x.
Proof. exact fmt_sig_err. Qed.
Print Assumptions round_sig_err.

(* a decimal whose mantissa has at most n digits is printed exactly (shape samples: multiples of 1e-7
   below 100 with n = 9; integer run lengths and time samples below 10^9) *)
Theorem sig_print_exact : forall n m j, (1 <= n)%Z -> (Z.abs m < 10 ^ n)%Z ->
  fmt_sig n (inject_Z m * p10 (- j)) == inject_Z m * p10 (- j).
Proof. exact fmt_sig_exact_decimal. Qed.
Print Assumptions sig_print_exact.

Theorem shape_print_exact : forall m, (Z.abs m < 10 ^ 9)%Z ->
  fmt_sig shape_sample_fmt (inject_Z m * (1 # 10000000)) == inject_Z m * (1 # 10000000).
Proof. intros m H. exact (fmt_sig_exact_decimal shape_sample_fmt m 7 ltac:(vm_compute; discriminate) H). Qed.
Print Assumptions shape_print_exact.

(* one column, any rational: integer columns within half a unit and exact on the grid; significant-digit
   columns within half a unit of the last digit and exact when the value prints exactly *)
Theorem col_roundtrip : forall rfr c x, col_ok c = true -> col_sim rfr c (rcol c (wcol rfr c x)) x.
Proof. exact FileProofs.col_roundtrip. Qed.
Print Assumptions col_roundtrip.

Theorem tables_ok : forall sec, In sec all_sections -> cols_ok sec = true.
Proof. exact section_cols_ok. Qed.
Print Assumptions tables_ok.

(* rows and libraries, by induction *)
Theorem C01_roundtrip_row : forall rfr cs, cols_ok cs = true -> forall r,
  row_sim rfr cs (read_row cs (write_row rfr cs r)) r.
Proof. exact roundtrip_row. Qed.
Print Assumptions C01_roundtrip_row.

Theorem C01_roundtrip_lib : forall rfr cs, cols_ok cs = true -> forall l,
  Forall2 (row_sim rfr cs) (map (read_row cs) (map (write_row rfr cs) l)) l.
Proof. exact roundtrip_lib. Qed.
Print Assumptions C01_roundtrip_lib.

Theorem C01_roundtrip_block : forall br id dur evs, 0 < br ->
  match read_block br (write_block br (id :: dur :: evs)) with
  | id' :: dur' :: evs' =>
      (is_int id -> id' == id) /\ Qabs (dur' - dur) <= (1 # 2) * br /\ (is_int (dur / br) -> dur' == dur)
      /\ evs' = map fmt_int evs
  | _ => False
  end.
Proof. exact roundtrip_block. Qed.
Print Assumptions C01_roundtrip_block.

(* the whole library state, every section, whatever the reading system *)
Theorem C01_roundtrip_state : forall sy s,
  let s' := read_rows sy (write_rows s) in
  let rfr := f_rfraster s in
  Forall2 (row_sim rfr sec_rf) (f_rf s') (f_rf s) /\
  Forall2 (row_sim rfr sec_grad) (grads_of tag_g (f_grad s')) (grads_of tag_g (f_grad s)) /\
  Forall2 (row_sim rfr sec_trap) (grads_of tag_t (f_grad s')) (grads_of tag_t (f_grad s)) /\
  Forall2 (fun r' r => exists body, r' = body ++ [s_adc_dead sy] /\ row_sim rfr sec_adc body r) (f_adc s') (f_adc s) /\
  Forall2 (row_sim rfr sec_ext) (f_ext s') (f_ext s) /\
  Forall2 (row_sim rfr sec_trig) (f_trig s') (f_trig s) /\
  Forall2 (row_sim rfr sec_lset) (f_lset s') (f_lset s) /\
  Forall2 (row_sim rfr sec_linc) (f_linc s') (f_linc s).
Proof. exact roundtrip_state. Qed.
Print Assumptions C01_roundtrip_state.

(* the file carries its own rasters: with the four raster keys present the decoded rasters do not depend
   on the reading system (fails to type-check when the reader assigns a key to another attribute) *)
Theorem raster_from_file : forall sy1 sy2 f, has_rasters f ->
  f_braster (read_rows sy1 f) = f_braster (read_rows sy2 f) /\
  f_rfraster (read_rows sy1 f) = f_rfraster (read_rows sy2 f) /\
  f_gradraster (read_rows sy1 f) = f_gradraster (read_rows sy2 f) /\
  f_adcraster (read_rows sy1 f) = f_adcraster (read_rows sy2 f).
Proof. exact FileProofs.raster_from_file. Qed.
Print Assumptions raster_from_file.

(* KF-5: the RF delay column does not reproduce every delay on the microsecond grid *)
Definition rf_delay_col : col := nth 5 sec_rf (1, 0%Z, 0%Z, 1).
Theorem rf_delay_exact_refuted : exists x,
  is_int (x * (1000000 # 1)) /\ ~ rcol rf_delay_col (wcol (1 # 1000000) rf_delay_col x) == x.
Proof.
  exists (1234567 # 1000000). split.
  - exists 1234567%Z. reflexivity.
  - intro H. vm_compute in H. discriminate H.
Qed.
Print Assumptions rf_delay_exact_refuted.

(* non-vacuity *)
Example rf_delay_col_is_raster : is_raster_col rf_delay_col = true.
Proof. vm_compute. reflexivity. Qed.
Example rf_row_roundtrip_exact :
  map Qred (read_row sec_rf (write_row (1 # 1000000) sec_rf [3; 123456 # 1000; 1; 2; 0; 100 # 1000000; 0; 1 # 2]))
  = map Qred [3; 123456 # 1000; 1; 2; 0; 1 # 10000; 0; 1 # 2].
Proof. vm_compute. reflexivity. Qed.
Example trap_row_half_us : map Qred (read_row sec_trap (write_row (1 # 1000000) sec_trap [1; 1234567 # 1; 3 # 2000000; 0; 0; 0]))
  = map Qred [1; 1234570 # 1; 2 # 1000000; 0; 0; 0].
Proof. vm_compute. reflexivity. Qed.
Example has_rasters_example : has_rasters (mkR [(key_adc_raster, [1 # 10000000]); (key_block_raster, [1 # 100000]);
  (key_grad_raster, [1 # 100000]); (key_rf_raster, [1 # 1000000])] [] [] [] [] [] [] [] [] [] []).
Proof. unfold has_rasters. cbn. repeat split; discriminate. Qed.

(* ---- the reader's first/last reconstruction scan (read_seq.py:256-327, Model/Scan.v) --------------------------
   For every block table that is continuous (C05 invariant, exact: every shape-based gradient event starts at the
   value the previous block ended at on its channel, at 0 when it has a delay, and an event ending before the
   block end ends at 0) and for EVERY history of re-use of events (same id in several blocks, on several channels
   of one block), the scan as the source has it now gives every event (first, last) = (the value it started at,
   its own end value).  F is the map id -> first value; its existence is what continuity with re-use means. *)
From PV Require Import Gen.GenScan Model.Scan Model.ScanGen Proofs.ScanProofs.

Theorem first_last_reconstruction : forall lib F bs, Cont scan_eps lib F [0; 0; 0] bs ->
  forall b id, In b bs -> In id (b_ids b) -> is_grad lib id ->
  zlookup (snd (scan_file lib bs)) id = Some (F id, wl lib id).
Proof.
  unfold scan_file. change scan_sets_prev_on_done with true. change scan_fix_shared with true.
  intros lib F. exact (first_last_reconstruction_gen scan_eps lib F).
Qed.
Print Assumptions first_last_reconstruction.

Ltac solve_cont :=
  repeat match goal with
  | |- _ /\ _ => split
  | |- Forall2 _ _ _ => constructor
  | |- chan_ok _ _ _ _ _ _ => let g := fresh "g" in let H := fresh "H" in
        intros g ? H ?; vm_compute in H; first [discriminate H|inversion H; subst; split; [reflexivity|let X := fresh "X" in intro X; vm_compute in X; first [discriminate X|reflexivity]]]
  | |- True => exact I
  | |- _ = _ => reflexivity
  end.

(* the scan as it was before repair 8ae658b: one event on two channels of block 1 (x and y ramp up together),
   two different events in block 2 — the y event is reconstructed with first = 0 instead of 100000 *)
Definition w_lib : list (Z * gev) :=
  [(1%Z, mkG false 0 (1 # 2000) 100000); (2%Z, mkG false 0 (1 # 2000) 0); (3%Z, mkG false 0 (1 # 2000) 0)].
Definition w_F (id : Z) : Q := if (id =? 1)%Z then 0 else 100000.
Definition w_blocks : list sblock := [mkB (1 # 2000) [1; 1; 0]%Z; mkB (1 # 2000) [2; 3; 0]%Z].
Theorem scan_shared_event_refuted : exists lib F bs,
  Cont scan_eps lib F [0; 0; 0] bs /\
  exists b id, In b bs /\ In id (b_ids b) /\ is_grad lib id /\
  zlookup (snd (scan_blocks true false scan_eps lib bs)) id <> Some (F id, wl lib id).
Proof.
  exists w_lib, w_F, w_blocks. split.
  - unfold w_blocks. cbn [Cont b_ids b_dur map]. solve_cont.
  - exists (mkB (1 # 2000) [2; 3; 0]%Z), 3%Z. split; [right; left; reflexivity|]. split; [right; left; reflexivity|].
    split; [split; [discriminate|eexists; split; reflexivity]|]. intro H. vm_compute in H. discriminate H.
Qed.
Print Assumptions scan_shared_event_refuted.

(* the variant that does not refresh the running value at an already reconstructed event:
   ramp-up / plateau A / ramp-down / the same ramp-up again / plateau B — plateau B gets first = 0 *)
Definition v_lib : list (Z * gev) :=
  [(1%Z, mkG false 0 (1 # 2000) 100000); (2%Z, mkG false 0 (1 # 1000) 100000); (3%Z, mkG false 0 (1 # 2000) 0);
   (4%Z, mkG false 0 (3 # 2000) 100000)].
Definition v_F (id : Z) : Q := if (id =? 1)%Z then 0 else 100000.
Definition v_blocks : list sblock :=
  [mkB (1 # 2000) [1; 0; 0]%Z; mkB (1 # 1000) [2; 0; 0]%Z; mkB (1 # 2000) [3; 0; 0]%Z; mkB (1 # 2000) [1; 0; 0]%Z;
   mkB (3 # 2000) [4; 0; 0]%Z].
Theorem scan_skip_reconstructed_refuted : exists lib F bs,
  Cont scan_eps lib F [0; 0; 0] bs /\
  exists b id, In b bs /\ In id (b_ids b) /\ is_grad lib id /\
  zlookup (snd (scan_blocks false true scan_eps lib bs)) id <> Some (F id, wl lib id).
Proof.
  exists v_lib, v_F, v_blocks. split.
  - unfold v_blocks. cbn [Cont b_ids b_dur map]. solve_cont.
  - exists (mkB (3 # 2000) [4; 0; 0]%Z), 4%Z. split; [do 4 right; left; reflexivity|]. split; [left; reflexivity|].
    split; [split; [discriminate|eexists; split; reflexivity]|]. intro H. vm_compute in H. discriminate H.
Qed.
Print Assumptions scan_skip_reconstructed_refuted.

(* the same two histories are reconstructed correctly by the scan as it is now *)
Example scan_now_on_witnesses :
  zlookup (snd (scan_file w_lib w_blocks)) 3%Z = Some (100000, 0) /\ zlookup (snd (scan_file v_lib v_blocks)) 4%Z = Some (100000, 100000).
Proof. split; vm_compute; reflexivity. Qed.

(* ---- get_block level (Model/Decode.v): what a block decodes to, original vs written-and-re-read ------------------
   Partial in this sense: the decoding of one event from its library row and shape rows is modelled (decompression,
   amplitude scaling, trapezoid fields); the assembly of a whole block from the block table, time shapes/rasters and
   the RF phase factor exp(2 pi i phase) are not.  Hypothesis shape_printable: the packed samples are decimals that
   '%.9g' prints exactly — every sample of a shape that compress_shape stored compressed (multiples of 1e-7 below
   100, run lengths below 10^9: lemmas qv_printable, cnt_printable); raw-stored short shapes need not be. *)
From PV Require Import Gen.GenShape Model.Shape Model.Decode Proofs.ShapeProofs Proofs.DecodeProofs.

Definition grad_amp_col : col := nth 1 sec_grad (1, 0%Z, 0%Z, 1).
Definition rf_amp_col : col := nth 1 sec_rf (1, 0%Z, 0%Z, 1).
Example amp_cols_are_6_digits :
  is_sig_col grad_amp_col = true /\ c_fmt grad_amp_col = 6%Z /\ is_sig_col rf_amp_col = true /\ c_fmt rf_amp_col = 6%Z.
Proof. repeat split; vm_compute; reflexivity. Qed.

(* the normalised shape decodes to the same samples before and after the file *)
Theorem C01_shape_decoding_unchanged : forall sh y, shape_printable sh -> decode_shape sh = Some y ->
  exists y', decode_shape (read_shape (write_shape sh)) = Some y' /\ Forall2 Qeq y y'.
Proof. exact decode_shape_reread. Qed.
Print Assumptions C01_shape_decoding_unchanged.

(* gradient waveform / RF magnitude: every decoded sample within 5e-6 relative (half a unit of the 6th digit of
   the amplitude) of the decoded sample of the original block *)
Theorem C01_getblock_wave_partial : forall rfr c amp sh w,
  is_sig_col c = true -> shape_printable sh -> decode_wave amp sh = Some w ->
  exists w', decode_wave (rcol c (wcol rfr c amp)) (read_shape (write_shape sh)) = Some w' /\
             Forall2 (fun a b => Qabs (b - a) <= (1 # 2) * p10 (1 - c_fmt c) * Qabs a) w w'.
Proof. exact getblock_wave_roundtrip. Qed.
Print Assumptions C01_getblock_wave_partial.

(* composed with the shape codec bound of C14: distance of the re-read samples to the waveform amp * g that was
   handed to add_block (g normalised, stored by compress_shape): amplitude rounding plus 5e-8 of full scale *)
Theorem C01_getblock_vs_user_waveform_partial : forall rfr c amp id (g : list Q),
  is_sig_col c = true ->
  let cs := compress false g in
  let sh := id :: inject_Z (Z.of_nat (num_samples cs)) :: cdata cs in
  shape_printable sh ->
  exists w', decode_wave (rcol c (wcol rfr c amp)) (read_shape (write_shape sh)) = Some w' /\
             Forall2 (fun gi b => Qabs (b - amp * gi) <=
                        Qabs amp * ((1 # 2) * p10 (1 - c_fmt c) * (Qabs gi + (5 # 100000000)) + (5 # 100000000))) g w'.
Proof. exact getblock_vs_user_waveform. Qed.
Print Assumptions C01_getblock_vs_user_waveform_partial.

Theorem C01_getblock_trap : forall rfr id a r f fl d,
  is_int (r * (1000000 # 1)) -> is_int (f * (1000000 # 1)) -> is_int (fl * (1000000 # 1)) -> is_int (d * (1000000 # 1)) ->
  match decode_trap (read_row sec_trap (write_row rfr sec_trap [id; a; r; f; fl; d])) with
  | Some t => Qabs (t_amp t - a) <= (1 # 2) * p10 (-5) * Qabs a /\
              t_rise t == r /\ t_flat t == f /\ t_fall t == fl /\ t_delay t == d /\
              Qabs (t_area t - a * (f + r / (2 # 1) + fl / (2 # 1))) <= (1 # 2) * p10 (-5) * Qabs (a * (f + r / (2 # 1) + fl / (2 # 1))) /\
              Qabs (t_flat_area t - a * f) <= (1 # 2) * p10 (-5) * Qabs (a * f)
  | None => False
  end.
Proof.
  intros rfr id a r f fl d IR IF IFL ID.
  apply (getblock_trap_roundtrip rfr id a r f fl d IR IF IFL ID). apply section_cols_ok. unfold all_sections. cbn [In]. tauto.
Qed.
Print Assumptions C01_getblock_trap.

Theorem packed_values_printable : forall v n, (Z.abs v < 10 ^ 9)%Z -> (Z.of_nat n < 10 ^ 9)%Z ->
  fmt_sig shape_sample_fmt (qv v) == qv v /\ fmt_sig shape_sample_fmt (cnt n) == cnt n.
Proof. intros v n Hv Hn. split; [apply qv_printable; exact Hv|apply cnt_printable; exact Hn]. Qed.
Print Assumptions packed_values_printable.

(* non-vacuity: a ramp of 8 samples is stored compressed and its row is printable *)
Example printable_example :
  let cs := compress false [0; 1 # 8; 2 # 8; 3 # 8; 4 # 8; 5 # 8; 6 # 8; 7 # 8] in
  cdata cs = [qv 0; qv 1250000; qv 1250000; cnt 7] /\
  shape_printable (1 :: inject_Z (Z.of_nat (num_samples cs)) :: cdata cs).
Proof.
  cbv zeta. split; [vm_compute; reflexivity|].
  assert (E : cdata (compress false [0; 1 # 8; 2 # 8; 3 # 8; 4 # 8; 5 # 8; 6 # 8; 7 # 8]) = [qv 0; qv 1250000; qv 1250000; cnt 7])
    by (vm_compute; reflexivity).
  rewrite E. cbn [shape_printable]. split; [eexists; reflexivity|].
  repeat constructor; try (apply qv_printable; vm_compute; reflexivity); apply cnt_printable; vm_compute; reflexivity.
Qed.

(* duplicate removal (applied by write() before printing) rounds every time column on exactly the grid the file
   prints it on, and every amplitude/offset column to the printed number of digits: a coarser digit in the tuples of
   Sequence.remove_duplicates (Gen/GenDedup.v) would lose precision the format has, and these examples stop checking *)
From PV Require Import Gen.GenDedup Proofs.FileDedup.
Example C01_dedup_digits_match_columns :
  refine_kinds dedup_digits_rf (tl sec_rf) = [3; 1; 1; 1; 4; 3; 3]%Z /\
  refine_kinds dedup_digits_grad (tl sec_grad) = [3; 2; 2; 1]%Z /\
  refine_kinds dedup_digits_grad (tl sec_trap) = [3; 1; 1; 1; 1]%Z /\
  refine_kinds dedup_digits_adc (tl sec_adc) = [1; 1; 1; 3; 3]%Z /\
  (dedup_digits_shape =? shape_sample_fmt)%Z = true.
Proof. repeat split; vm_compute; reflexivity. Qed.
