(* Props/C01.v — write then read reproduces every block within .seq precision.
   Statements over the column tables of Gen/GenFile.v (regenerated from write_seq.py / read_seq.py).
   Not covered by theorem (checked by the oracle of harness/props/C01.py): decoding of blocks from the
   libraries (get_block), the first/last reconstruction scan of read_seq.py:256-327 and duplicate removal
   after reading.  The RF-delay column is exact only while the delay in microseconds has at most 6
   significant digits (KF-5): col_sim states the bound that does hold, rf_delay_exact_refuted the witness. *)
From Coq Require Import List ZArith QArith Qabs.
From PV Require Import Base.QUtil Gen.GenFile Model.File Proofs.FileProofs.
Import ListNotations.
Open Scope Q_scope.

(* every column of every section: write multiplier x read scale = 1 *)
Theorem scale_inverse : forall sec c, In sec all_sections -> In c sec -> c_mult c * c_scale c == 1.
Proof. exact FileProofs.scale_inverse. Qed.
Print Assumptions scale_inverse.

(* '{:g}' / '{:.9g}' as exact decimal rounding: half a unit of the n-th significant digit, all rationals *)
Theorem round_sig_err : forall n x, Qabs (fmt_sig n x - x) <= (1 # 2) * p10 (1 - n) * Qabs x.
Proof. exact fmt_sig_err. Qed.
Print Assumptions round_sig_err.

(* a decimal whose mantissa has at most n digits is printed exactly (shape samples: multiples of 1e-7
   below 100 with n = 9; integer run lengths and time samples below 10^9) *)
Theorem sig_print_exact : forall n m j, (1 <= n)%Z -> (Z.abs m < 10 ^ n)%Z ->
  fmt_sig n (inject_Z m * p10 (- j)) == inject_Z m * p10 (- j).
Proof. exact fmt_sig_exact_decimal. Qed.
Print Assumptions sig_print_exact.

Theorem shape_print_exact : forall m, (Z.abs m < 10 ^ 9)%Z ->
  fmt_sig shape_sample_fmt (inject_Z m * (1 # 10000000)) == inject_Z m * (1 # 10000000).
Proof. intros m H. exact (fmt_sig_exact_decimal shape_sample_fmt m 7 ltac:(vm_compute; discriminate) H). Qed.
Print Assumptions shape_print_exact.

(* one column, any rational: integer columns within half a unit and exact on the grid; significant-digit
   columns within half a unit of the last digit and exact when the value prints exactly *)
Theorem col_roundtrip : forall rfr c x, col_ok c = true -> col_sim rfr c (rcol c (wcol rfr c x)) x.
Proof. exact FileProofs.col_roundtrip. Qed.
Print Assumptions col_roundtrip.

Theorem tables_ok : forall sec, In sec all_sections -> cols_ok sec = true.
Proof. exact section_cols_ok. Qed.
Print Assumptions tables_ok.

(* rows and libraries, by induction *)
Theorem C01_roundtrip_row : forall rfr cs, cols_ok cs = true -> forall r,
  row_sim rfr cs (read_row cs (write_row rfr cs r)) r.
Proof. exact roundtrip_row. Qed.
Print Assumptions C01_roundtrip_row.

Theorem C01_roundtrip_lib : forall rfr cs, cols_ok cs = true -> forall l,
  Forall2 (row_sim rfr cs) (map (read_row cs) (map (write_row rfr cs) l)) l.
Proof. exact roundtrip_lib. Qed.
Print Assumptions C01_roundtrip_lib.

Theorem C01_roundtrip_block : forall br id dur evs, 0 < br ->
  match read_block br (write_block br (id :: dur :: evs)) with
  | id' :: dur' :: evs' =>
      (is_int id -> id' == id) /\ Qabs (dur' - dur) <= (1 # 2) * br /\ (is_int (dur / br) -> dur' == dur)
      /\ evs' = map fmt_int evs
  | _ => False
  end.
Proof. exact roundtrip_block. Qed.
Print Assumptions C01_roundtrip_block.

(* the whole library state, every section, whatever the reading system *)
Theorem C01_roundtrip_state : forall sy s,
  let s' := read_rows sy (write_rows s) in
  let rfr := f_rfraster s in
  Forall2 (row_sim rfr sec_rf) (f_rf s') (f_rf s) /\
  Forall2 (row_sim rfr sec_grad) (grads_of tag_g (f_grad s')) (grads_of tag_g (f_grad s)) /\
  Forall2 (row_sim rfr sec_trap) (grads_of tag_t (f_grad s')) (grads_of tag_t (f_grad s)) /\
  Forall2 (fun r' r => exists body, r' = body ++ [s_adc_dead sy] /\ row_sim rfr sec_adc body r) (f_adc s') (f_adc s) /\
  Forall2 (row_sim rfr sec_ext) (f_ext s') (f_ext s) /\
  Forall2 (row_sim rfr sec_trig) (f_trig s') (f_trig s) /\
  Forall2 (row_sim rfr sec_lset) (f_lset s') (f_lset s) /\
  Forall2 (row_sim rfr sec_linc) (f_linc s') (f_linc s).
Proof. exact roundtrip_state. Qed.
Print Assumptions C01_roundtrip_state.

(* the file carries its own rasters: with the four raster keys present the decoded rasters do not depend
   on the reading system (fails to type-check when the reader assigns a key to another attribute) *)
Theorem raster_from_file : forall sy1 sy2 f, has_rasters f ->
  f_braster (read_rows sy1 f) = f_braster (read_rows sy2 f) /\
  f_rfraster (read_rows sy1 f) = f_rfraster (read_rows sy2 f) /\
  f_gradraster (read_rows sy1 f) = f_gradraster (read_rows sy2 f) /\
  f_adcraster (read_rows sy1 f) = f_adcraster (read_rows sy2 f).
Proof. exact FileProofs.raster_from_file. Qed.
Print Assumptions raster_from_file.

(* KF-5: the RF delay column does not reproduce every delay on the microsecond grid *)
Definition rf_delay_col : col := nth 5 sec_rf (1, 0%Z, 0%Z, 1).
Theorem rf_delay_exact_refuted : exists x,
  is_int (x * (1000000 # 1)) /\ ~ rcol rf_delay_col (wcol (1 # 1000000) rf_delay_col x) == x.
Proof.
  exists (1234567 # 1000000). split.
  - exists 1234567%Z. reflexivity.
  - intro H. vm_compute in H. discriminate H.
Qed.
Print Assumptions rf_delay_exact_refuted.

(* non-vacuity *)
Example rf_delay_col_is_raster : is_raster_col rf_delay_col = true.
Proof. vm_compute. reflexivity. Qed.
Example rf_row_roundtrip_exact :
  map Qred (read_row sec_rf (write_row (1 # 1000000) sec_rf [3; 123456 # 1000; 1; 2; 0; 100 # 1000000; 0; 1 # 2]))
  = map Qred [3; 123456 # 1000; 1; 2; 0; 1 # 10000; 0; 1 # 2].
Proof. vm_compute. reflexivity. Qed.
Example trap_row_half_us : map Qred (read_row sec_trap (write_row (1 # 1000000) sec_trap [1; 1234567 # 1; 3 # 2000000; 0; 0; 0]))
  = map Qred [1; 1234570 # 1; 2 # 1000000; 0; 0; 0].
Proof. vm_compute. reflexivity. Qed.
Example has_rasters_example : has_rasters (mkR [(key_adc_raster, [1 # 10000000]); (key_block_raster, [1 # 100000]);
  (key_grad_raster, [1 # 100000]); (key_rf_raster, [1 # 1000000])] [] [] [] [] [] [] [] [] [] []).
Proof. unfold has_rasters. cbn. repeat split; discriminate. Qed.

(* ---- the reader's first/last reconstruction scan (read_seq.py:256-327, Model/Scan.v) --------------------------
   For every block table that is continuous (C05 invariant, exact: every shape-based gradient event starts at the
   value the previous block ended at on its channel, at 0 when it has a delay, and an event ending before the
   block end ends at 0) and for EVERY history of re-use of events (same id in several blocks, on several channels
   of one block), the scan as the source has it now gives every event (first, last) = (the value it started at,
   its own end value).  F is the map id -> first value; its existence is what continuity with re-use means. *)
From PV Require Import Gen.GenScan Model.Scan Model.ScanGen Proofs.ScanProofs.

Theorem first_last_reconstruction : forall lib F bs, Cont scan_eps lib F [0; 0; 0] bs ->
  forall b id, In b bs -> In id (b_ids b) -> is_grad lib id ->
  zlookup (snd (scan_file lib bs)) id = Some (F id, wl lib id).
Proof.
  unfold scan_file. change scan_sets_prev_on_done with true. change scan_fix_shared with true.
  intros lib F. exact (first_last_reconstruction_gen scan_eps lib F).
Qed.
Print Assumptions first_last_reconstruction.

Ltac solve_cont :=
  repeat match goal with
  | |- _ /\ _ => split
  | |- Forall2 _ _ _ => constructor
  | |- chan_ok _ _ _ _ _ _ => let g := fresh "g" in let H := fresh "H" in
        intros g ? H ?; vm_compute in H; first [discriminate H|inversion H; subst; split; [reflexivity|let X := fresh "X" in intro X; vm_compute in X; first [discriminate X|reflexivity]]]
  | |- True => exact I
  | |- _ = _ => reflexivity
  end.

(* the scan as it was before repair 8ae658b: one event on two channels of block 1 (x and y ramp up together),
   two different events in block 2 — the y event is reconstructed with first = 0 instead of 100000 *)
Definition w_lib : list (Z * gev) :=
  [(1%Z, mkG false 0 (1 # 2000) 100000); (2%Z, mkG false 0 (1 # 2000) 0); (3%Z, mkG false 0 (1 # 2000) 0)].
Definition w_F (id : Z) : Q := if (id =? 1)%Z then 0 else 100000.
Definition w_blocks : list sblock := [mkB (1 # 2000) [1; 1; 0]%Z; mkB (1 # 2000) [2; 3; 0]%Z].
Theorem scan_shared_event_refuted : exists lib F bs,
  Cont scan_eps lib F [0; 0; 0] bs /\
  exists b id, In b bs /\ In id (b_ids b) /\ is_grad lib id /\
  zlookup (snd (scan_blocks true false scan_eps lib bs)) id <> Some (F id, wl lib id).
Proof.
  exists w_lib, w_F, w_blocks. split.
  - unfold w_blocks. cbn [Cont b_ids b_dur map]. solve_cont.
  - exists (mkB (1 # 2000) [2; 3; 0]%Z), 3%Z. split; [right; left; reflexivity|]. split; [right; left; reflexivity|].
    split; [split; [discriminate|eexists; split; reflexivity]|]. intro H. vm_compute in H. discriminate H.
Qed.
Print Assumptions scan_shared_event_refuted.

(* the variant that does not refresh the running value at an already reconstructed event:
   ramp-up / plateau A / ramp-down / the same ramp-up again / plateau B — plateau B gets first = 0 *)
Definition v_lib : list (Z * gev) :=
  [(1%Z, mkG false 0 (1 # 2000) 100000); (2%Z, mkG false 0 (1 # 1000) 100000); (3%Z, mkG false 0 (1 # 2000) 0);
   (4%Z, mkG false 0 (3 # 2000) 100000)].
Definition v_F (id : Z) : Q := if (id =? 1)%Z then 0 else 100000.
Definition v_blocks : list sblock :=
  [mkB (1 # 2000) [1; 0; 0]%Z; mkB (1 # 1000) [2; 0; 0]%Z; mkB (1 # 2000) [3; 0; 0]%Z; mkB (1 # 2000) [1; 0; 0]%Z;
   mkB (3 # 2000) [4; 0; 0]%Z].
Theorem scan_skip_reconstructed_refuted : exists lib F bs,
  Cont scan_eps lib F [0; 0; 0] bs /\
  exists b id, In b bs /\ In id (b_ids b) /\ is_grad lib id /\
  zlookup (snd (scan_blocks false true scan_eps lib bs)) id <> Some (F id, wl lib id).
Proof.
  exists v_lib, v_F, v_blocks. split.
  - unfold v_blocks. cbn [Cont b_ids b_dur map]. solve_cont.
  - exists (mkB (3 # 2000) [4; 0; 0]%Z), 4%Z. split; [do 4 right; left; reflexivity|]. split; [left; reflexivity|].
    split; [split; [discriminate|eexists; split; reflexivity]|]. intro H. vm_compute in H. discriminate H.
Qed.
Print Assumptions scan_skip_reconstructed_refuted.

(* the same two histories are reconstructed correctly by the scan as it is now *)
Example scan_now_on_witnesses :
  zlookup (snd (scan_file w_lib w_blocks)) 3%Z = Some (100000, 0) /\ zlookup (snd (scan_file v_lib v_blocks)) 4%Z = Some (100000, 100000).
Proof. split; vm_compute; reflexivity. Qed.
