(* Props/C04.v — gradient constructors never return an event beyond the hardware limits.
   Statements only (proofs in Proofs/LimitsProofs.v; the make_trapezoid and
   make_extended_trapezoid_area parts are in Props/C11.v and Props/C12.v).
   Model/Limits.v transcribes make_extended_trapezoid / make_arbitrary_grad — the two checked
   constructors that add_gradients, split_gradient(_at) and rotate funnel every result through —
   with the comparison forms and slacks read from the source (Gen/GenLimits.v), and convert.py is
   translated expression by expression into Gen/GenUnits.v on every run. *)
From Coq Require Import List Bool ZArith QArith Qabs.
From PV Require Import Base.QUtil Gen.GenUnits Gen.GenLimits Model.Limits Proofs.LimitsProofs.
From PV Require Model.Trap Proofs.TrapProofs.
From PV Require Import Base.PWL Proofs.LimitsPWL.
Import ListNotations.
Open Scope Q_scope.

(* make_extended_trapezoid, every argument list, every system, both override conventions: a returned
   event has strictly increasing times, every corner within max_grad + eps and every segment within
   max_slew (1 + eps) — the effective limits being the overrides when positive, else the system's. *)
Theorem C04_ext_trap_safe : forall sys times amps mg ms skip g,
  make_ext_trap sys times amps mg ms skip = LOK g ->
  let G := eff_pos mg (s_max_grad sys) in
  let S := eff_pos ms (s_max_slew sys) in
  cg_wave g = amps /\ length (cg_tt g) = length amps /\ (2 <= length amps)%nat /\
  strictly_increasing (cg_tt g) /\
  within (G + pp_eps) (S * (1 + pp_eps)) (ext_corners g).
Proof. exact ext_trap_safe. Qed.
Print Assumptions C04_ext_trap_safe.

(* … which is inside the property's relative slack 1e-6 for every limit of at least 1e-3 Hz/m *)
Theorem C04_ext_trap_within_relative_slack : forall sys times amps mg ms skip g,
  make_ext_trap sys times amps mg ms skip = LOK g ->
  let G := eff_pos mg (s_max_grad sys) in
  let S := eff_pos ms (s_max_slew sys) in
  (1 # 1000) <= G -> 0 <= S ->
  strictly_increasing (cg_tt g) /\ within (G * (1 + rel_slack)) (S * (1 + rel_slack)) (ext_corners g).
Proof. exact ext_trap_within_relative. Qed.
Print Assumptions C04_ext_trap_within_relative_slack.

(* … and therefore AT EVERY TIME (Base/PWL.v: a piecewise-linear function is bounded by its corner values and
   its segment slopes): the rendered waveform of a returned extended trapezoid never exceeds max_grad + eps and
   never changes faster than max_slew (1 + eps). *)
Theorem C04_ext_trap_safe_at_every_time : forall sys times amps mg ms skip g,
  make_ext_trap sys times amps mg ms skip = LOK g ->
  let G := eff_pos mg (s_max_grad sys) in
  let S := eff_pos ms (s_max_slew sys) in
  (forall t, Qabs (eval (ext_corners g) t) <= G + pp_eps) /\
  (forall t u, inside (ext_corners g) t -> inside (ext_corners g) u ->
     Qabs (eval (ext_corners g) t - eval (ext_corners g) u) <= S * (1 + pp_eps) * Qabs (t - u)).
Proof. exact ext_trap_safe_everywhere. Qed.
Print Assumptions C04_ext_trap_safe_at_every_time.

(* make_arbitrary_grad: all samples and all raster steps of a returned event are within the limits *)
Theorem C04_arb_interior_safe : forall sys wave first last delay mg ms g,
  0 < s_raster sys ->
  make_arb sys wave first last delay mg ms = LOK g ->
  let G := eff_opt mg (s_max_grad sys) in
  let S := eff_opt ms (s_max_slew sys) in
  cg_wave g = wave /\ cg_delay g = delay /\ (2 <= length wave)%nat /\
  Forall (fun w => Qabs w <= G + pp_eps) wave /\
  (forall i, (Datatypes.S i < length wave)%nat ->
     Qabs (nth (Datatypes.S i) wave 0 - nth i wave 0) <= S * (1 + pp_eps) * s_raster sys).
Proof. exact arb_interior_safe. Qed.
Print Assumptions C04_arb_interior_safe.

(* with the default (extrapolated) edge value the half-raster edge segment obeys the same slew bound *)
Theorem C04_arb_default_edge_slew_safe : forall sys wave last delay mg ms g,
  0 < s_raster sys ->
  make_arb sys wave None last delay mg ms = LOK g ->
  let S := eff_opt ms (s_max_slew sys) in
  Qabs (nth 0 wave 0 - cg_first g) <= S * (1 + pp_eps) * (s_raster sys * (1 # 2)).
Proof. exact arb_default_first_edge_slew. Qed.
Print Assumptions C04_arb_default_edge_slew_safe.

(* PARTIAL for the edge amplitude: the extrapolated edge value is only bounded by the limit plus half
   a slew step; the full statement (edge within max_grad) is FALSE of the code — next two theorems. *)
Theorem C04_arb_default_edge_amp_partial : forall sys wave last delay mg ms g,
  0 < s_raster sys ->
  make_arb sys wave None last delay mg ms = LOK g ->
  let G := eff_opt mg (s_max_grad sys) in
  let S := eff_opt ms (s_max_slew sys) in
  Qabs (cg_first g) <= (G + pp_eps) + S * (1 + pp_eps) * (s_raster sys * (1 # 2)).
Proof. exact arb_default_first_edge_amp. Qed.
Print Assumptions C04_arb_default_edge_amp_partial.

(* Known finding C04/make_arbitrary_grad/edge (KF-13): first/last are never checked. *)
Theorem C04_arb_explicit_edge_refuted :
  exists g, make_arb kf_sys [1000; 1000; 1000] (Some 0) (Some 0) 0 None None = LOK g /\
            segs_within_b (s_max_slew kf_sys * (1 + rel_slack)) (arb_corners (s_raster kf_sys) g) = false.
Proof. exact arb_explicit_edge_refuted. Qed.
Print Assumptions C04_arb_explicit_edge_refuted.
Theorem C04_arb_default_edge_amp_refuted :
  exists g, make_arb kf_sys [1000; 995; 990] None (Some 0) 0 None None = LOK g /\
            corners_within_b (s_max_grad kf_sys * (1 + rel_slack)) (arb_corners (s_raster kf_sys) g) = false.
Proof. exact arb_default_edge_amp_refuted. Qed.
Print Assumptions C04_arb_default_edge_amp_refuted.

(* ---- units: over convert.py as translated from the source, any pi > 0 and gamma > 0 ---- *)
Theorem C04_convert_roundtrip : forall pi gamma, 0 < pi -> 0 < gamma -> forall u v x,
  convert pi gamma (convert pi gamma x u v) v u == x.
Proof. exact convert_roundtrip. Qed.
Print Assumptions C04_convert_roundtrip.

Theorem C04_convert_strictly_monotone : forall pi gamma, 0 < pi -> 0 < gamma -> forall u x y,
  x < y -> to_standard pi gamma u x < to_standard pi gamma u y.
Proof. exact to_standard_strict_mono. Qed.
Print Assumptions C04_convert_strictly_monotone.

(* a limit x stated in unit u admits exactly the amplitudes that, expressed in u, are within x *)
Theorem C04_limit_same_in_any_unit : forall pi gamma, 0 < pi -> 0 < gamma -> forall u a x,
  a <= to_standard pi gamma u x <-> from_standard pi gamma u a <= x.
Proof. exact limit_same_in_any_unit. Qed.
Print Assumptions C04_limit_same_in_any_unit.

(* what Opts stores for a limit given in unit u is the physical limit in Hz/m (or Hz/m/s) *)
Theorem C04_opts_limit_is_standard : forall pi gamma u x, 0 < pi -> ~ gamma == 0 ->
  opts_limit pi gamma x u == unit_factor pi (Qabs gamma) u * x.
Proof. exact opts_limit_is_standard. Qed.
Print Assumptions C04_opts_limit_is_standard.

Example C04_nonvacuous := ext_trap_example.

(* ---- make_trapezoid (model and proofs of C11, Model/Trap.v): every returned trapezoid, for every
   argument record, is well formed and within the effective limits (overrides if given) ---- *)
Theorem C04_make_trapezoid_safe : forall a g, Trap.make_trap a = Trap.OK g ->
  (0 < Trap.t_rise g /\ 0 <= Trap.t_flat g /\ 0 < Trap.t_fall g) /\
  Qabs (Trap.t_amplitude g) <= Trap.eff_max_grad a + Trap.eps /\
  Qabs (Trap.t_amplitude g) / Trap.t_rise g <= Trap.eff_max_slew a * (1 + Trap.eps) /\
  Qabs (Trap.t_amplitude g) / Trap.t_fall g <= Trap.eff_max_slew a * (1 + Trap.eps).
Proof.
  intros a g H. split; [exact (TrapProofs.trap_wellformed_l a g H)|].
  destruct (TrapProofs.trap_within_limits_l a g H) as [A [_ [_ [B C]]]]. auto.
Qed.
Print Assumptions C04_make_trapezoid_safe.
