(* Props/C03.v — The [SIGNATURE] hash is the MD5 of exactly the preceding file content.
   Statements only (proofs in Proofs/SignatureProofs.v).  The digest function is arbitrary (MD5 in
   the implementation); the literal bytes of the signature block are read from write_seq.py. *)
From Coq Require Import List Bool ZArith.
From PV Require Import Gen.GenSignature Model.Signature Proofs.SignatureProofs.
Import ListNotations.

(* For every body that does not contain the section name and every digest without whitespace:
   the reader recovers exactly (hashed content, "md5", digest) from the signed file. *)
Theorem C03_signature_roundtrip : forall h body,
  no_sub sig_tag body = true -> clean h -> split_sig (sign h body) = Some (body, MD5, h).
Proof. exact signature_roundtrip. Qed.
Print Assumptions C03_signature_roundtrip.

(* The bytes that precede the newline in front of [SIGNATURE] are exactly the hashed content. *)
Theorem C03_signed_prefix_is_body : forall h body, no_sub sig_tag body = true ->
  exists k, find_sub sig_marker (sign h body) = Some k /\ firstn k (sign h body) = body.
Proof. exact signed_prefix_is_body. Qed.
Print Assumptions C03_signed_prefix_is_body.

(* write(create_signature=True) returns the digest it wrote; the reader stores the same one. *)
Theorem C03_write_contract : forall digest body,
  no_sub sig_tag body = true -> clean (digest body) ->
  let '(f, ret) := write_file true digest body in
  ret = Some (digest body) /\ split_sig f = Some (body, MD5, digest body).
Proof. exact write_file_contract. Qed.
Print Assumptions C03_write_contract.

(* create_signature=False: no section, None returned. *)
Theorem C03_unsigned : forall digest body, no_sub sig_tag body = true ->
  write_file false digest body = (body, None) /\ split_sig body = None.
Proof. exact write_file_unsigned_contract. Qed.
Print Assumptions C03_unsigned.

(* the hypothesis on the body cannot be dropped (witness evaluated in the kernel) *)
Example C03_collision_refuted_without_hypothesis :
  exists h body, split_sig (sign h body) <> Some (body, MD5, h).
Proof.
  exists ex_hash, bad_body. intro H. pose proof sig_collision_refuted as R.
  rewrite H in R. revert R. vm_compute. intuition congruence.
Qed.
