(* Props/C03.v — The [SIGNATURE] hash is the MD5 of exactly the preceding file content.
   Statements only (proofs in Proofs/SignatureProofs.v and Proofs/Md5Proofs.v).  The first group holds for an
   arbitrary digest function; the second group instantiates it with MD5 itself (Model/Md5.v, RFC 1321, validated in
   the kernel on the RFC's test suite and on every run against the Hash lines the implementation writes).  The
   literal bytes of the signature block are read from write_seq.py. *)
From Coq Require Import List Bool ZArith.
From PV Require Import Gen.GenSignature Model.Signature Proofs.SignatureProofs Model.Md5 Proofs.Md5Proofs.
Import ListNotations.

(* For every body that does not contain the section name and every digest without whitespace:
   the reader recovers exactly (hashed content, "md5", digest) from the signed file. *)
Theorem C03_signature_roundtrip : forall h body,
  no_sub sig_tag body = true -> clean h -> split_sig (sign h body) = Some (body, MD5, h).
Proof. exact signature_roundtrip. Qed.
Print Assumptions C03_signature_roundtrip.

(* The bytes that precede the newline in front of [SIGNATURE] are exactly the hashed content. *)
Theorem C03_signed_prefix_is_body : forall h body, no_sub sig_tag body = true ->
  exists k, find_sub sig_marker (sign h body) = Some k /\ firstn k (sign h body) = body.
Proof. exact signed_prefix_is_body. Qed.
Print Assumptions C03_signed_prefix_is_body.

(* write(create_signature=True) returns the digest it wrote; the reader stores the same one. *)
Theorem C03_write_contract : forall digest body,
  no_sub sig_tag body = true -> clean (digest body) ->
  let '(f, ret) := write_file true digest body in
  ret = Some (digest body) /\ split_sig f = Some (body, MD5, digest body).
Proof. exact write_file_contract. Qed.
Print Assumptions C03_write_contract.

(* create_signature=False: no section, None returned. *)
Theorem C03_unsigned : forall digest body, no_sub sig_tag body = true ->
  write_file false digest body = (body, None) /\ split_sig body = None.
Proof. exact write_file_unsigned_contract. Qed.
Print Assumptions C03_unsigned.

(* the hypothesis on the body cannot be dropped (witness evaluated in the kernel) *)
Example C03_collision_refuted_without_hypothesis :
  exists h body, split_sig (sign h body) <> Some (body, MD5, h).
Proof.
  exists ex_hash, bad_body. intro H. pose proof sig_collision_refuted as R.
  rewrite H in R. revert R. vm_compute. intuition congruence.
Qed.

(* ---- with MD5 itself as the digest (Model/Md5.v) --------------------------------------------------- *)

(* The executable MD5 of the model reproduces the RFC 1321 test suite (one-block, padding-spill and
   two-block messages), evaluated by the kernel. *)
Theorem C03_md5_rfc1321_test_suite :
  md5_hex [] = [100; 52; 49; 100; 56; 99; 100; 57; 56; 102; 48; 48; 98; 50; 48; 52; 101; 57; 56; 48; 48; 57; 57; 56; 101; 99; 102; 56; 52; 50; 55; 101]%Z /\
  md5_hex [97; 98; 99]%Z = [57; 48; 48; 49; 53; 48; 57; 56; 51; 99; 100; 50; 52; 102; 98; 48; 100; 54; 57; 54; 51; 102; 55; 100; 50; 56; 101; 49; 55; 102; 55; 50]%Z /\
  md5_hex alnum = [100; 49; 55; 52; 97; 98; 57; 56; 100; 50; 55; 55; 100; 57; 102; 53; 97; 53; 54; 49; 49; 99; 50; 99; 57; 102; 52; 49; 57; 100; 57; 102]%Z /\
  md5_hex digits80 = [53; 55; 101; 100; 102; 52; 97; 50; 50; 98; 101; 51; 99; 57; 53; 53; 97; 99; 52; 57; 100; 97; 50; 101; 50; 49; 48; 55; 98; 54; 55; 97]%Z.
Proof. exact (conj md5_rfc_empty (conj md5_rfc_abc (conj md5_rfc_alnum md5_rfc_digits80))). Qed.
Print Assumptions C03_md5_rfc1321_test_suite.

(* The Hash value is always 32 characters from 0-9a-f: never empty, never white space (the hypothesis `clean` of
   the theorems above holds for the digest the implementation uses, for every content). *)
Theorem C03_md5_hex_shape : forall m,
  length (md5_hex m) = 32%nat /\ (forall c, In c (md5_hex m) -> (48 <= c <= 57 \/ 97 <= c <= 102)%Z) /\ clean (md5_hex m).
Proof. intro m. exact (conj (md5_hex_length m) (conj (md5_hex_charset m) (md5_hex_clean m))). Qed.
Print Assumptions C03_md5_hex_shape.

(* The message is hashed in whole 64-byte blocks and is a prefix of what is hashed. *)
Theorem C03_md5_padding : forall m,
  (Z.of_nat (length (md5_pad m)) mod 64 = 0)%Z /\ firstn (length m) (md5_pad m) = m.
Proof. intro m. exact (conj (md5_pad_whole_blocks m) (md5_pad_prefix m)). Qed.
Print Assumptions C03_md5_padding.

(* write(create_signature=True) with MD5: for every content free of the section name, the value returned is the MD5 of
   the content, the reader recovers (content, "md5", that MD5), and the content is exactly what precedes the newline in
   front of [SIGNATURE].  No hypothesis on the digest is left. *)
Theorem C03_write_contract_md5 : forall body,
  no_sub sig_tag body = true ->
  let '(f, ret) := write_signed_md5 body in
  ret = Some (md5_hex body) /\ split_sig f = Some (body, MD5, md5_hex body) /\
  exists k, find_sub sig_marker f = Some k /\ firstn k f = body.
Proof. exact write_signed_md5_contract. Qed.
Print Assumptions C03_write_contract_md5.
