(* Props/C06.v — get_block returns what was last stored at that index; caching is invisible.
   Statements only (proofs in Proofs/SeqCache.v).  The model (Model/Seq.v) transcribes set_block /
   get_block / register_* / remove_duplicates; `run cache_on …` folds `step` over any operation list.
   The four rounding functions of duplicate removal are arbitrary here. *)
From Coq Require Import List Bool ZArith QArith Qcanon.
From PV Require Import Base.AList Base.QUtil Gen.GenCache Model.EventLib Model.Seq Proofs.SeqSpec Proofs.SeqCache Proofs.SeqStored Proofs.SeqStoredRf Proofs.SeqStoredGrad.
Import ListNotations.
Open Scope Z_scope.

(* The points where the source consults, fills and invalidates the block cache are the ones `step` hard-wires
   (Gen/GenCache.v is regenerated from block.py / sequence.py on every run and fails closed when one of them moves). *)
Theorem C06_source_cache_points :
  set_block_evicts_overwritten_index = true /\ read_clears_cache_before_reading = true /\
  dedup_in_place_clears_cache = true /\ dedup_copy_is_deep = true.
Proof. repeat split; reflexivity. Qed.
Print Assumptions C06_source_cache_points.

(* For EVERY interleaving of add_block, set_block, get_block, register_*_event, remove_duplicates
   (in place or copy), write (= get_block of every block) and read (= Load of a well-formed store),
   the cache-on and the cache-off object produce the same outputs and the same store. *)
Theorem C06_cache_invisible : forall abs_fix r1 r2 r3 r4 ops c0,
  core_inv c0 -> ops_wf ops ->
  let on := run true abs_fix r1 r2 r3 r4 (mkState c0 []) ops in
  let off := run false abs_fix r1 r2 r3 r4 (mkState c0 []) ops in
  snd on = snd off /\ st_core (fst on) = st_core (fst off).
Proof. exact cache_invisible. Qed.
Print Assumptions C06_cache_invisible.

(* In every reachable state each cached block is what decoding the current store yields, and
   library ids stay below next_free_ID. *)
Theorem C06_cache_sound : forall abs_fix r1 r2 r3 r4 ops c0,
  core_inv c0 -> ops_wf ops ->
  let s := fst (run true abs_fix r1 r2 r3 r4 (mkState c0 []) ops) in
  core_inv (st_core s) /\ cache_ok (st_core s) (st_cache s) /\ NoDup (akeys (st_cache s)).
Proof. exact run_cache_ok. Qed.
Print Assumptions C06_cache_sound.

(* get_block(i) after any history = decode of the block stored at i now. *)
Theorem C06_get_block_is_decode : forall abs_fix r1 r2 r3 r4 ops c0 i,
  core_inv c0 -> ops_wf ops ->
  let s := fst (run true abs_fix r1 r2 r3 r4 (mkState c0 []) ops) in
  snd (step true abs_fix r1 r2 r3 r4 s (GetBlock i)) = OBlock (decode (st_core s) i).
Proof. exact get_block_is_decode. Qed.
Print Assumptions C06_get_block_is_decode.

(* The initial object satisfies the invariant (non-vacuity of the hypotheses). *)
Theorem C06_init_ok : forall g s sl e, core_inv (core_init g s sl e).
Proof. exact core_inv_init. Qed.
Print Assumptions C06_init_ok.

(* Decoding is monotone under library growth: what a block decodes to cannot be changed by later
   registrations (the reason cached blocks stay valid). *)
Theorem C06_decode_mono : forall c c' i b, core_le c c' -> decode c i = Some b -> decode c' i = Some b.
Proof. exact decode_mono. Qed.
Print Assumptions C06_decode_mono.

(* Storing by value or through the id returned by register_* gives the same store. *)
Theorem C06_trap_by_value_eq_by_id : forall abs_fix c i ch a r f fl d hint,
  let '(c1, id, _) := register_trap c a r f fl d in
  fst (fst (set_block_core abs_fix c i [MTrap ch None a r f fl d] hint)) =
  fst (fst (set_block_core abs_fix c1 i [MTrap ch (Some id) a r f fl d] hint)).
Proof. exact trap_by_value_eq_by_id. Qed.
Print Assumptions C06_trap_by_value_eq_by_id.

Theorem C06_adc_by_value_eq_by_id : forall abs_fix c i n dw de fr ph dd hint,
  let '(c1, id, _) := register_adc c n dw de fr ph dd in
  fst (fst (set_block_core abs_fix c i [MAdc None n dw de fr ph dd] hint)) =
  fst (fst (set_block_core abs_fix c1 i [MAdc (Some id) n dw de fr ph dd] hint)).
Proof. exact adc_by_value_eq_by_id. Qed.
Print Assumptions C06_adc_by_value_eq_by_id.

(* Equal events share one library entry … *)
Theorem C06_equal_share_one_entry : forall (l : klib) k ty,
  let '(l1, id1, _) := kfoi l k ty in kfoi l1 k ty = (l1, id1, true).
Proof. exact kfoi_idempotent. Qed.
Print Assumptions C06_equal_share_one_entry.

(* … and distinct events never share one. *)
Theorem C06_distinct_never_share : forall (l : klib) k1 k2 ty1 ty2,
  lib_inv l ->
  (forall k id, aget key_eqb (lkeymap l) k = Some id -> lib_get l id = Some k) ->
  k1 <> k2 ->
  let '(l1, id1, _) := kfoi l k1 ty1 in
  let '(l2, id2, _) := kfoi l1 k2 ty2 in id1 <> id2.
Proof. exact kfoi_distinct. Qed.
Print Assumptions C06_distinct_never_share.

(* ---- get_block returns what was stored (trapezoids and ADC events, handed over by value) ------------- *)
(* After ANY history of block writes, block reads, registrations and write() on a fresh sequence: when
   set_block(i, ...) succeeds, the block decoded at i carries on the channel of every trapezoid of the call exactly
   that trapezoid's (amplitude, rise, flat, fall, delay), tagged as a trapezoid, and as ADC exactly the ADC of the call. *)
Theorem C06_set_block_stored_is_returned : forall cache_on abs_fix r1 r2 r3 r4 ops g sr sl e i evs hint b,
  Forall op_plain ops -> Forall ev_ok evs ->
  let s := fst (run cache_on abs_fix r1 r2 r3 r4 (mkState (core_init g sr sl e) []) ops) in
  let res := step cache_on abs_fix r1 r2 r3 r4 s (SetBlock i evs hint) in
  snd res = ONone ->
  decode (st_core (fst res)) i = Some b ->
  (forall ch amp rise flat fall delay, In (MTrap ch None amp rise flat fall delay) evs ->
     nth ch (d_g b) None = Some (mkDGrad tag_t [amp; rise; flat; fall; delay] [])) /\
  (forall num dwell delay freq phoff dead, In (MAdc None num dwell delay freq phoff dead) evs ->
     d_adc b = Some [num; dwell; delay; freq; phoff; dead]).
Proof. exact set_block_then_decode. Qed.
Print Assumptions C06_set_block_stored_is_returned.

Theorem C06_add_block_stored_is_returned : forall cache_on abs_fix r1 r2 r3 r4 ops g sr sl e evs hint b,
  Forall op_plain ops -> Forall ev_ok evs ->
  let s := fst (run cache_on abs_fix r1 r2 r3 r4 (mkState (core_init g sr sl e) []) ops) in
  let res := step cache_on abs_fix r1 r2 r3 r4 s (AddBlock evs hint) in
  snd res = ONone ->
  decode (st_core (fst res)) (next_block (st_core s)) = Some b ->
  (forall ch amp rise flat fall delay, In (MTrap ch None amp rise flat fall delay) evs ->
     nth ch (d_g b) None = Some (mkDGrad tag_t [amp; rise; flat; fall; delay] [])) /\
  (forall num dwell delay freq phoff dead, In (MAdc None num dwell delay freq phoff dead) evs ->
     d_adc b = Some [num; dwell; delay; freq; phoff; dead]).
Proof. exact add_block_then_decode. Qed.
Print Assumptions C06_add_block_stored_is_returned.

(* The same for RF events handed over by value with their shapes: the decoded RF row carries the amplitude, delay,
   frequency and phase offsets of the call, and the shapes decoded through the row's shape ids are exactly the
   magnitude, phase and (if any) time shape of the call.  The `use` tag is not claimed (known finding
   C06/rf-use-shared-entry: events equal except for `use` share one entry). *)
Theorem C06_set_block_stored_rf_is_returned : forall cache_on abs_fix r1 r2 r3 r4 ops g sr sl e i evs hint b
                                                     amp mag phase tshape delay freq phoff use sd rd,
  Forall op_plain ops ->
  let s := fst (run cache_on abs_fix r1 r2 r3 r4 (mkState (core_init g sr sl e) []) ops) in
  let res := step cache_on abs_fix r1 r2 r3 r4 s (SetBlock i evs hint) in
  snd res = ONone ->
  decode (st_core (fst res)) i = Some b ->
  In (MRf None None amp mag phase tshape delay freq phoff use sd rd) evs ->
  exists id1 id2 id3 u,
    d_rf b = Some ([amp; zq id1; zq id2; zq id3; delay; freq; phoff], u, rf_shapes mag phase tshape).
Proof. exact set_block_then_decode_rf. Qed.
Print Assumptions C06_set_block_stored_rf_is_returned.

Theorem C06_add_block_stored_rf_is_returned : forall cache_on abs_fix r1 r2 r3 r4 ops g sr sl e evs hint b
                                                     amp mag phase tshape delay freq phoff use sd rd,
  Forall op_plain ops ->
  let s := fst (run cache_on abs_fix r1 r2 r3 r4 (mkState (core_init g sr sl e) []) ops) in
  let res := step cache_on abs_fix r1 r2 r3 r4 s (AddBlock evs hint) in
  snd res = ONone ->
  decode (st_core (fst res)) (next_block (st_core s)) = Some b ->
  In (MRf None None amp mag phase tshape delay freq phoff use sd rd) evs ->
  exists id1 id2 id3 u,
    d_rf b = Some ([amp; zq id1; zq id2; zq id3; delay; freq; phoff], u, rf_shapes mag phase tshape).
Proof. exact add_block_then_decode_rf. Qed.
Print Assumptions C06_add_block_stored_rf_is_returned.

(* ... and for arbitrary / extended-trapezoid gradients handed over by value with their shapes: the decoded row is
   tagged 'g', carries the amplitude, delay, first and last of the call, and the shapes decoded through its shape ids
   are exactly the waveform shape and (if any) time shape of the call.  (Labels and triggers: C19.) *)
Theorem C06_set_block_stored_grad_is_returned : forall cache_on abs_fix r1 r2 r3 r4 ops g sr sl e i evs hint b
                                                       ch amp ws tshape delay first last t0 tl,
  Forall op_plain ops -> Forall ev_ok evs ->
  let s := fst (run cache_on abs_fix r1 r2 r3 r4 (mkState (core_init g sr sl e) []) ops) in
  let res := step cache_on abs_fix r1 r2 r3 r4 s (SetBlock i evs hint) in
  snd res = ONone ->
  decode (st_core (fst res)) i = Some b ->
  In (MGrad ch None None amp ws tshape delay first last t0 tl) evs ->
  exists id1 id2,
    nth ch (d_g b) None = Some (mkDGrad tag_g [amp; zq id1; zq id2; delay; first; last] (grad_shapes ws tshape)).
Proof. exact set_block_then_decode_grad. Qed.
Print Assumptions C06_set_block_stored_grad_is_returned.

Theorem C06_add_block_stored_grad_is_returned : forall cache_on abs_fix r1 r2 r3 r4 ops g sr sl e evs hint b
                                                       ch amp ws tshape delay first last t0 tl,
  Forall op_plain ops -> Forall ev_ok evs ->
  let s := fst (run cache_on abs_fix r1 r2 r3 r4 (mkState (core_init g sr sl e) []) ops) in
  let res := step cache_on abs_fix r1 r2 r3 r4 s (AddBlock evs hint) in
  snd res = ONone ->
  decode (st_core (fst res)) (next_block (st_core s)) = Some b ->
  In (MGrad ch None None amp ws tshape delay first last t0 tl) evs ->
  exists id1 id2,
    nth ch (d_g b) None = Some (mkDGrad tag_g [amp; zq id1; zq id2; delay; first; last] (grad_shapes ws tshape)).
Proof. exact add_block_then_decode_grad. Qed.
Print Assumptions C06_add_block_stored_grad_is_returned.

(* ... and it stays what get_block decodes there until index i is written again ("most recently stored"):
   no later block write to another index, block read, registration or write() changes it. *)
Theorem C06_stored_until_overwritten : forall cache_on abs_fix r1 r2 r3 r4 s o i b,
  core_inv (st_core s) -> op_plain o -> ~ writes_index s o i ->
  decode (st_core s) i = Some b ->
  decode (st_core (fst (step cache_on abs_fix r1 r2 r3 r4 s o))) i = Some b.
Proof. exact step_keeps_stored. Qed.
Print Assumptions C06_stored_until_overwritten.

(* the invariant these rest on (faithful lookups of the gradient and ADC libraries) holds in every such state *)
Theorem C06_lookup_invariant_reachable : forall cache_on abs_fix r1 r2 r3 r4 ops g sr sl e,
  Forall op_plain ops ->
  ga_inv (st_core (fst (run cache_on abs_fix r1 r2 r3 r4 (mkState (core_init g sr sl e) []) ops))).
Proof. exact run_ga_inv. Qed.
Print Assumptions C06_lookup_invariant_reachable.

Example C06_stored_example := stored_example.

(* The one-step invariant needs duplicate-free cache keys (always true of reachable caches): a
   kernel-checked counterexample for the version without it. *)
Example C06_step_needs_nodup_keys := step_cache_ok_counterexample.
