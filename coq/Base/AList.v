(* Base/AList.v — insertion-ordered association lists (Python dict / OrderedDict semantics):
   assignment to an existing key overwrites in place, a new key is appended, deletion keeps order. *)
From Coq Require Import List Bool ZArith Lia.
Import ListNotations.

Section AList.
Context {K V : Type}.
Variable eqb : K -> K -> bool.
Hypothesis eqb_spec : forall a b, eqb a b = true <-> a = b.

Fixpoint aget (l : list (K * V)) (k : K) : option V :=
  match l with
  | [] => None
  | (k', v) :: r => if eqb k' k then Some v else aget r k
  end.

Fixpoint aset (l : list (K * V)) (k : K) (v : V) : list (K * V) :=
  match l with
  | [] => [(k, v)]
  | (k', v') :: r => if eqb k' k then (k', v) :: r else (k', v') :: aset r k v
  end.

Fixpoint adel (l : list (K * V)) (k : K) : list (K * V) :=
  match l with
  | [] => []
  | (k', v') :: r => if eqb k' k then r else (k', v') :: adel r k
  end.

Definition amem (l : list (K * V)) (k : K) : bool :=
  match aget l k with Some _ => true | None => false end.

Definition akeys (l : list (K * V)) : list K := map fst l.

Lemma eqb_refl k : eqb k k = true.
Proof. apply eqb_spec. reflexivity. Qed.

Lemma eqb_neq a b : a <> b -> eqb a b = false.
Proof. intro H. destruct (eqb a b) eqn:E; [apply eqb_spec in E; contradiction|reflexivity]. Qed.

Lemma aget_aset_same l k v : aget (aset l k v) k = Some v.
Proof.
  induction l as [|[k' v'] r IH]; cbn.
  - rewrite eqb_refl. reflexivity.
  - destruct (eqb k' k) eqn:E; cbn; rewrite E; [reflexivity|exact IH].
Qed.

Lemma aget_aset_other l k v k2 : k2 <> k -> aget (aset l k v) k2 = aget l k2.
Proof.
  intro N. induction l as [|[k' v'] r IH]; cbn.
  - rewrite eqb_neq by congruence. reflexivity.
  - destruct (eqb k' k) eqn:E; cbn.
    + apply eqb_spec in E. subst k'. rewrite eqb_neq by congruence. reflexivity.
    + destruct (eqb k' k2); [reflexivity|exact IH].
Qed.

Lemma aget_adel_other l k k2 : k2 <> k -> aget (adel l k) k2 = aget l k2.
Proof.
  intro N. induction l as [|[k' v'] r IH]; cbn; [reflexivity|].
  destruct (eqb k' k) eqn:E; cbn.
  - apply eqb_spec in E. subst k'. rewrite eqb_neq by congruence. reflexivity.
  - destruct (eqb k' k2); [reflexivity|exact IH].
Qed.

Lemma aget_In l k v : aget l k = Some v -> In (k, v) l.
Proof.
  induction l as [|[k' v'] r IH]; cbn; [discriminate|].
  destruct (eqb k' k) eqn:E.
  - apply eqb_spec in E. subst. intro H. injection H as ->. left. reflexivity.
  - intro H. right. apply IH. exact H.
Qed.

Lemma aget_None_notin l k : aget l k = None -> ~ In k (akeys l).
Proof.
  induction l as [|[k' v'] r IH]; cbn; [tauto|].
  destruct (eqb k' k) eqn:E; [discriminate|].
  intros H [H1|H2].
  - subst. rewrite eqb_refl in E. discriminate.
  - exact (IH H H2).
Qed.

Lemma aget_Some_in l k v : aget l k = Some v -> In k (akeys l).
Proof. intro H. apply aget_In in H. apply (in_map fst) in H. exact H. Qed.

Lemma akeys_aset_in l k v : aget l k <> None -> akeys (aset l k v) = akeys l.
Proof.
  induction l as [|[k' v'] r IH]; cbn; [congruence|].
  destruct (eqb k' k) eqn:E; cbn; [reflexivity|]. intro H. f_equal. apply IH. exact H.
Qed.

Lemma akeys_aset_new l k v : aget l k = None -> akeys (aset l k v) = akeys l ++ [k].
Proof.
  induction l as [|[k' v'] r IH]; cbn; [reflexivity|].
  destruct (eqb k' k) eqn:E; cbn; [discriminate|]. intro H. f_equal. apply IH. exact H.
Qed.

End AList.

Arguments aget {K V} eqb l k.
Arguments aset {K V} eqb l k v.
Arguments adel {K V} eqb l k.
Arguments amem {K V} eqb l k.
Arguments akeys {K V} l.
