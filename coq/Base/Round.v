(* Base/Round.v — decimal rounding as done by EventLibrary.remove_duplicates and by the .seq
   writer: round half to even to n decimals, and to n significant digits with the code's 1e-12
   offset inside the logarithm.  Executable definitions; lemmas are in Proofs/RoundProofs.v. *)
From Coq Require Import ZArith QArith Qround Qabs List Bool.
From PV Require Import Base.QUtil.
Import ListNotations.
Open Scope Q_scope.

Definition pow10 (n : Z) : Q :=
  if (0 <=? n)%Z then inject_Z (10 ^ n) else 1 # Z.to_pos (10 ^ (- n)).

(* round(d, n): n decimals (n may be negative), half to even on the exact value *)
Definition round_dec (n : Z) (d : Q) : Q :=
  Qred (inject_Z (rnd_he (d * pow10 n)) * pow10 (- n)).

(* ceil(log10(x)) for x > 0: the least e in [lo, lo+fuel] with x <= 10^e.  [pw] carries 10^e
   (multiplied by 10 at each step) so that no power is recomputed. *)
Fixpoint clog_search (x : Q) (e : Z) (pw : Q) (fuel : nat) : Z :=
  match fuel with
  | O => e
  | S f => if Qle_bool x pw then e else clog_search x (e + 1)%Z (pw * (10 # 1)) f
  end.
Definition log_offset : Q := 1 # 1000000000000.          (* the `+ 1e-12` of event_lib.py *)
Definition ceil_log10 (x : Q) : Z := clog_search x (-12)%Z (1 # 1000000000000) 400.

(* one entry rounded according to its digit specification (event_lib.py:271-292):
   dig > 0: dig significant digits; otherwise -dig decimals *)
(* IEEE -0.0 inside NumPy shape rows (keys are compared as bytes, so -0.0 and 0.0 are different
   keys): the harness encodes it as this non-representable tiny negative rational; every rounding
   maps it to itself, as np.round does. *)
Definition neg_zero : Q := (-1) # (2 ^ 1075).
Definition round_spec (dig : Z) (d : Q) : Q :=
  if Qeq_bool d neg_zero then d else
  if (0 <? dig)%Z then round_dec (dig - ceil_log10 (Qabs d + log_offset)) d
  else round_dec (- dig) d.

Fixpoint round_row (digs : list Z) (row : list Q) : list Q :=
  match digs, row with
  | dg :: ds, d :: r => round_spec dg d :: round_row ds r
  | _, _ => []                                             (* zip() stops at the shorter one *)
  end.
Definition round_all (dig : Z) (row : list Q) : list Q := map (round_spec dig) row.
