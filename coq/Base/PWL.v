(* Base/PWL.v — piecewise-linear functions over Q (shared library, DESIGN.md section 6).
   Executable definitions AND their lemmas.  Standard library only.

   INDEX
   -----
   Types / definitions
     pwl                      := list (Q * Q)            corner list (time, value)
     times p, values p        := map fst p, map snd p
     all_consec R l           R holds for every pair of consecutive elements of l
     sorted_strict l          := all_consec Qlt l        (use as  sorted_strict (times p))
     sorted_strictb l         boolean checker;  sorted_strictb_spec : ... = true <-> sorted_strict l
     slope t0 v0 t1 v1        := (v1 - v0) / (t1 - t0)   (0 when t1 == t0, because /0 = 0 in Q)
     interp t0 v0 t1 v1 t     := v0 + slope * (t - t0)
     eval p t                 0 outside [tfirst p, tlast p], linear interpolation inside,
                              corner value at a corner
     tfirst vfirst tlast vlast   first/last corner time/value (0 for the empty list)
     inside p t               := tfirst p <= t <= tlast p
     area p                   sum of trapezoids
     scale c p, neg p, shift d p      value scaling, negation, time shift (t + d)
     max_abs p                max |value| over corners
     max_slope p              max |slope| over segments
     tabulate f T             := map (fun t => (t, f t)) T
     resample T p             := tabulate (eval p) T
     padd p q                 pointwise sum of values of two lists on the SAME time grid
     InQ a l                  membership up to ==
     adjacent T a b           a < b are neighbours in T
     affine_on f a b          f is of the form m*t + c on [a, b]
     cut_left c p / cut_right c p     restriction of p to (-inf, c] / [c, +inf)
     pwl_eq p q               corner-wise == of times and values

   Lemmas (all for arbitrary lists, by induction)
     sorted: sorted_cons2 sorted_tail sorted_lt_all sorted_hd_le sorted_le_last
             sorted_strictb_spec sorted_shift sorted_times_scale ...
     eval:   eval_nil eval_single eval_cons2 eval_Proper (eval p respects == in t)
             eval_pwl_eq  (eval respects pwl_eq)
             eval_outside_left  : t < tfirst p -> eval p t == 0
             eval_outside_right : sorted -> tlast p < t -> eval p t == 0
             eval_outside       : sorted -> ~ inside p t -> eval p t == 0
             eval_at_first eval_at_last eval_at_corner : sorted -> In (a,v) p -> eval p a == v
             eval_tail          : sorted ((t0,v0)::(t1,v1)::r) -> t1 <= t -> eval .. t == eval ((t1,v1)::r) t
             eval_between       : sorted (p ++ (t0,v0)::(t1,v1)::r) -> t0 <= t <= t1 ->
                                  eval (p ++ (t0,v0)::(t1,v1)::r) t == interp t0 v0 t1 v1 t
             eval_scale eval_neg eval_shift
             amp_bound          : Qabs (eval p t) <= max_abs p            (no hypothesis needed)
             slope_bound        : sorted -> inside p t -> inside p u ->
                                  Qabs (eval p t - eval p u) <= max_slope p * Qabs (t - u)
             eval_tabulate      : tabulating a function that is affine between neighbours of T
             eval_affine_on     : eval p is affine on an interval without interior corner
             eval_resample      : sorted p -> sorted T -> corner times of p in T (up to ==) ->
                                  (vfirst p == 0 \/ tfirst p <= hd 0 T) ->
                                  (vlast p == 0 \/ last T 0 <= tlast p) ->
                                  forall t, eval (resample T p) t == eval p t
             eval_resample_incl : the same with  incl (times p) T
             times_resample times_padd times_scale times_shift times_neg
             eval_padd          : times p = times q -> eval (padd p q) t == eval p t + eval q t
             eval_concat_left   : sorted (p ++ (a,v)::q) -> t <= a -> eval (p ++ (a,v)::q) t == eval (p ++ [(a,v)]) t
             eval_concat_right  : sorted (p ++ (a,v)::q) -> a <= t -> eval (p ++ (a,v)::q) t == eval ((a,v)::q) t
             eval_concat_gap    : tlast p < tfirst q, both zero at the junction: eval (p++q) = eval p + eval q
             eval_cut_left      : (t <= c -> eval (cut_left c p) t == eval p t) /\ (c < t -> ... == 0)
             eval_cut_right     : (c <= t -> eval (cut_right c p) t == eval p t) /\ (t < c -> ... == 0)
             eval_cut           : ~ t == c -> eval (cut_left c p) t + eval (cut_right c p) t == eval p t
             sorted_cut_left sorted_cut_right
             eval_single_at eval_single_off eval_zero_on
     n-ary:  zero_on T, psum_on T ps (fold of padd over resample T p), sum_eval ps t,
             times_psum_on, eval_psum_on : eval (psum_on T ps) t == sum_eval ps t
     area:   area_scale area_neg area_shift area_padd area_app area_cut
     tactics: qb (destruct every Qltb/Qle_bool/Qeq_bool of the goal into Props),
              case_ltb a b E / case_leb a b E / case_eqb a b E
*)
From Coq Require Import ZArith QArith Qabs Lia Lqa List Bool Setoid Morphisms.
From PV Require Import Base.QUtil.
Import ListNotations.
Open Scope Q_scope.

(* ------------------------------------------------------------------------------------------ *)
(* boolean comparisons -> Props *)

Lemma Qltb_ge a b : Qltb a b = false <-> b <= a.
Proof.
  unfold Qltb. rewrite negb_false_iff. apply Qle_bool_iff.
Qed.

Lemma Qleb_gt a b : Qle_bool a b = false <-> b < a.
Proof.
  split; intro H.
  - apply Qnot_le_lt. intro Hle. apply Qle_bool_iff in Hle. congruence.
  - destruct (Qle_bool a b) eqn:E; [|reflexivity]. apply Qle_bool_iff in E. lra.
Qed.

Lemma Qeqb_neq a b : Qeq_bool a b = false <-> ~ a == b.
Proof.
  split; intro H.
  - intro E. apply Qeq_bool_iff in E. congruence.
  - destruct (Qeq_bool a b) eqn:E; [|reflexivity]. apply Qeq_bool_iff in E. contradiction.
Qed.

Ltac qb1 :=
  match goal with
  | |- context [Qltb ?a ?b] =>
      let E := fresh "E" in destruct (Qltb a b) eqn:E; [apply Qltb_lt in E | apply Qltb_ge in E]
  | |- context [Qle_bool ?a ?b] =>
      let E := fresh "E" in destruct (Qle_bool a b) eqn:E; [apply Qle_bool_iff in E | apply Qleb_gt in E]
  | |- context [Qeq_bool ?a ?b] =>
      let E := fresh "E" in destruct (Qeq_bool a b) eqn:E; [apply Qeq_bool_iff in E | apply Qeqb_neq in E]
  end.
Ltac qb := repeat qb1.

Global Instance Qltb_Proper : Proper (Qeq ==> Qeq ==> eq) Qltb.
Proof.
  intros a b H c d H'. destruct (Qltb b d) eqn:E.
  - apply Qltb_lt in E. apply Qltb_lt. lra.
  - apply Qltb_ge in E. apply Qltb_ge. lra.
Qed.
Global Instance Qle_bool_Proper : Proper (Qeq ==> Qeq ==> eq) Qle_bool.
Proof.
  intros a b H c d H'. destruct (Qle_bool b d) eqn:E.
  - apply Qle_bool_iff in E. apply Qle_bool_iff. lra.
  - apply Qleb_gt in E. apply Qleb_gt. lra.
Qed.
Global Instance Qeq_bool_Proper : Proper (Qeq ==> Qeq ==> eq) Qeq_bool.
Proof.
  intros a b H c d H'. destruct (Qeq_bool b d) eqn:E.
  - apply Qeq_bool_iff in E. apply Qeq_bool_iff. lra.
  - apply Qeqb_neq in E. apply Qeqb_neq. lra.
Qed.

Lemma Qmax_le_iff a b c : Qmax a b <= c <-> a <= c /\ b <= c.
Proof.
  pose proof (Qmax_ub_l a b). pose proof (Qmax_ub_r a b).
  split.
  - intro. split; lra.
  - intros [? ?]. destruct (Qmax_case a b) as [E|E]; rewrite E; assumption.
Qed.

(* ------------------------------------------------------------------------------------------ *)
(* definitions *)

Definition pwl := list (Q * Q).
Definition times (p : pwl) : list Q := map fst p.
Definition values (p : pwl) : list Q := map snd p.

Fixpoint all_consec (R : Q -> Q -> Prop) (l : list Q) : Prop :=
  match l with
  | a :: l' => match l' with
               | b :: _ => R a b /\ all_consec R l'
               | [] => True
               end
  | [] => True
  end.

Definition sorted_strict (l : list Q) : Prop := all_consec Qlt l.

Fixpoint sorted_strictb (l : list Q) : bool :=
  match l with
  | a :: l' => match l' with
               | b :: _ => Qltb a b && sorted_strictb l'
               | [] => true
               end
  | [] => true
  end.

Definition slope (t0 v0 t1 v1 : Q) : Q := (v1 - v0) * / (t1 - t0).
Definition interp (t0 v0 t1 v1 t : Q) : Q := v0 + slope t0 v0 t1 v1 * (t - t0).

Fixpoint eval (p : pwl) (t : Q) : Q :=
  match p with
  | [] => 0
  | (t0, v0) :: r =>
    match r with
    | [] => if Qeq_bool t t0 then v0 else 0
    | (t1, v1) :: _ =>
      if Qltb t t0 then 0
      else if Qle_bool t t1 then interp t0 v0 t1 v1 t
      else eval r t
    end
  end.

Definition tfirst (p : pwl) : Q := match p with [] => 0 | (t, _) :: _ => t end.
Definition vfirst (p : pwl) : Q := match p with [] => 0 | (_, v) :: _ => v end.
Definition tlast (p : pwl) : Q := fst (last p (0, 0)).
Definition vlast (p : pwl) : Q := snd (last p (0, 0)).
Definition inside (p : pwl) (t : Q) : Prop := tfirst p <= t /\ t <= tlast p.

Fixpoint area (p : pwl) : Q :=
  match p with
  | (t0, v0) :: r =>
    match r with
    | (t1, v1) :: _ => (v0 + v1) * (t1 - t0) * (1 # 2) + area r
    | [] => 0
    end
  | [] => 0
  end.

Definition scale (c : Q) (p : pwl) : pwl := map (fun tv => (fst tv, c * snd tv)) p.
Definition neg (p : pwl) : pwl := map (fun tv => (fst tv, - snd tv)) p.
Definition shift (d : Q) (p : pwl) : pwl := map (fun tv => (fst tv + d, snd tv)) p.

Fixpoint max_abs (p : pwl) : Q :=
  match p with
  | [] => 0
  | (_, v) :: r => Qmax (Qabs v) (max_abs r)
  end.

Fixpoint max_slope (p : pwl) : Q :=
  match p with
  | (t0, v0) :: r =>
    match r with
    | (t1, v1) :: _ => Qmax (Qabs (slope t0 v0 t1 v1)) (max_slope r)
    | [] => 0
    end
  | [] => 0
  end.

Definition tabulate (f : Q -> Q) (T : list Q) : pwl := map (fun t => (t, f t)) T.
Definition resample (T : list Q) (p : pwl) : pwl := tabulate (eval p) T.

Fixpoint padd (p q : pwl) : pwl :=
  match p, q with
  | (t, v) :: p', (_, w) :: q' => (t, v + w) :: padd p' q'
  | _, _ => []
  end.

Definition InQ (a : Q) (l : list Q) : Prop := exists b, In b l /\ a == b.
Definition adjacent (T : list Q) (a b : Q) : Prop :=
  In a T /\ In b T /\ a < b /\ forall x, In x T -> ~ (a < x /\ x < b).
Definition affine_on (f : Q -> Q) (a b : Q) : Prop :=
  exists m c, forall t, a <= t -> t <= b -> f t == m * t + c.

Fixpoint cut_left (c : Q) (p : pwl) : pwl :=
  match p with
  | [] => []
  | (t0, v0) :: r =>
    if Qltb c t0 then []
    else if Qeq_bool c t0 then [(t0, v0)]
    else match r with
         | [] => [(t0, v0)]
         | (t1, v1) :: _ =>
           if Qle_bool t1 c then (t0, v0) :: cut_left c r
           else [(t0, v0); (c, interp t0 v0 t1 v1 c)]
         end
  end.

Fixpoint cut_right (c : Q) (p : pwl) : pwl :=
  match p with
  | [] => []
  | (t0, v0) :: r =>
    if Qle_bool c t0 then p
    else match r with
         | [] => []
         | (t1, v1) :: _ =>
           if Qle_bool t1 c then cut_right c r
           else (c, interp t0 v0 t1 v1 c) :: r
         end
  end.

Definition pwl_eq (p q : pwl) : Prop :=
  Forall2 (fun a b => fst a == fst b /\ snd a == snd b) p q.

(* ------------------------------------------------------------------------------------------ *)
(* sortedness *)

Lemma all_consec_cons2 R a b l : all_consec R (a :: b :: l) <-> R a b /\ all_consec R (b :: l).
Proof. reflexivity. Qed.

Lemma sorted_cons2 a b l : sorted_strict (a :: b :: l) <-> a < b /\ sorted_strict (b :: l).
Proof. reflexivity. Qed.

Lemma sorted_tail a l : sorted_strict (a :: l) -> sorted_strict l.
Proof. destruct l as [|b l]; [intros; exact I|]. intros [_ H]. exact H. Qed.

Lemma sorted_lt_all l : forall a, sorted_strict (a :: l) -> forall x, In x l -> a < x.
Proof.
  induction l as [|b l IH]; intros a H x Hx; [destruct Hx|].
  destruct H as [Hab Hs]. destruct Hx as [<-|Hx]; [exact Hab|].
  specialize (IH b Hs x Hx). lra.
Qed.

Lemma sorted_hd_le l : sorted_strict l -> forall x, In x l -> hd 0 l <= x.
Proof.
  destruct l as [|a l]; intros H x Hx; [destruct Hx|].
  cbn [hd]. destruct Hx as [<-|Hx]; [lra|].
  pose proof (sorted_lt_all l a H x Hx). lra.
Qed.

Lemma last_cons2 {A} (a b : A) l d : last (a :: b :: l) d = last (b :: l) d.
Proof. reflexivity. Qed.

Lemma sorted_le_last l : sorted_strict l -> forall x, In x l -> x <= last l 0.
Proof.
  induction l as [|a l IH]; intros H x Hx; [destruct Hx|].
  destruct l as [|b l].
  - destruct Hx as [<-|[]]. cbn. lra.
  - rewrite last_cons2. destruct H as [Hab Hs].
    destruct Hx as [<-|Hx].
    + specialize (IH Hs b (or_introl eq_refl)). lra.
    + apply IH; assumption.
Qed.

Lemma sorted_strictb_spec l : sorted_strictb l = true <-> sorted_strict l.
Proof.
  induction l as [|a l IH]; [cbn; tauto|].
  destruct l as [|b l]; [cbn; tauto|].
  change (sorted_strictb (a :: b :: l)) with (Qltb a b && sorted_strictb (b :: l)).
  rewrite sorted_cons2, andb_true_iff, Qltb_lt, IH. tauto.
Qed.

Lemma all_consec_impl (R R' : Q -> Q -> Prop) l :
  (forall a b, R a b -> R' a b) -> all_consec R l -> all_consec R' l.
Proof.
  intro HR. induction l as [|a l IH]; [trivial|].
  destruct l as [|b l]; [trivial|]. intros [H1 H2]. split; [apply HR, H1|apply IH, H2].
Qed.

Lemma times_cons t v (p : pwl) : times ((t, v) :: p) = t :: times p.
Proof. reflexivity. Qed.

Lemma sorted_times_tail a (p : pwl) : sorted_strict (times (a :: p)) -> sorted_strict (times p).
Proof. exact (sorted_tail (fst a) (times p)). Qed.

Lemma sorted_app_r l1 : forall l2, sorted_strict (l1 ++ l2) -> sorted_strict l2.
Proof.
  induction l1 as [|a l1 IH]; intros l2 H; [exact H|].
  apply IH. apply (sorted_tail a). exact H.
Qed.

Lemma sorted_app_l l1 : forall l2, sorted_strict (l1 ++ l2) -> sorted_strict l1.
Proof.
  induction l1 as [|a l1 IH]; intros l2 H; [exact I|].
  destruct l1 as [|b l1]; [exact I|].
  cbn [app] in H. destruct H as [Hab Hs]. split; [exact Hab|]. apply (IH l2). exact Hs.
Qed.

(* ------------------------------------------------------------------------------------------ *)
(* interp *)

Lemma interp_left t0 v0 t1 v1 : interp t0 v0 t1 v1 t0 == v0.
Proof. unfold interp. ring. Qed.

Lemma interp_right t0 v0 t1 v1 : ~ t1 == t0 -> interp t0 v0 t1 v1 t1 == v1.
Proof. intro H. unfold interp, slope. field. lra. Qed.

Lemma interp_diff t0 v0 t1 v1 t u :
  interp t0 v0 t1 v1 t - interp t0 v0 t1 v1 u == slope t0 v0 t1 v1 * (t - u).
Proof. unfold interp. ring. Qed.

Lemma interp_affine t0 v0 t1 v1 t :
  interp t0 v0 t1 v1 t == slope t0 v0 t1 v1 * t + (v0 - slope t0 v0 t1 v1 * t0).
Proof. unfold interp. ring. Qed.

Global Instance slope_Proper : Proper (Qeq ==> Qeq ==> Qeq ==> Qeq ==> Qeq) slope.
Proof. intros a a' Ha b b' Hb c c' Hc d d' Hd. unfold slope. rewrite Ha, Hb, Hc, Hd. reflexivity. Qed.

Global Instance interp_Proper : Proper (Qeq ==> Qeq ==> Qeq ==> Qeq ==> Qeq ==> Qeq) interp.
Proof.
  intros a a' Ha b b' Hb c c' Hc d d' Hd e e' He. unfold interp.
  rewrite Ha, Hb, Hc, Hd, He. reflexivity.
Qed.

Lemma interp_const t0 v t1 t : interp t0 v t1 v t == v.
Proof. unfold interp, slope. ring. Qed.

Lemma interp_degenerate t0 v0 t1 v1 t : t1 == t0 -> interp t0 v0 t1 v1 t == v0.
Proof.
  intro H. unfold interp, slope.
  assert (E : / (t1 - t0) == 0).
  { setoid_replace (t1 - t0) with 0 by lra. reflexivity. }
  rewrite E. ring.
Qed.

(* the interpolation parameter *)
Lemma lambda_range t0 t1 t : t0 < t1 -> t0 <= t -> t <= t1 ->
  0 <= (t - t0) * / (t1 - t0) /\ (t - t0) * / (t1 - t0) <= 1.
Proof.
  intros H01 H0 H1.
  assert (Hd : 0 < / (t1 - t0)) by (apply Qinv_lt_0_compat; lra).
  split.
  - apply Qmult_le_0_compat; lra.
  - assert (E : (t1 - t0) * / (t1 - t0) == 1) by (field; lra).
    rewrite <- E. apply Qmult_le_compat_r; lra.
Qed.

Lemma interp_abs_bound t0 v0 t1 v1 t M :
  t0 <= t -> t <= t1 -> Qabs v0 <= M -> Qabs v1 <= M -> Qabs (interp t0 v0 t1 v1 t) <= M.
Proof.
  intros H0 H1 A0 A1.
  destruct (Qeq_dec t1 t0) as [E|N].
  - rewrite (interp_degenerate _ _ _ _ _ E). exact A0.
  - assert (H01 : t0 < t1) by lra.
    destruct (lambda_range t0 t1 t H01 H0 H1) as [L0 L1].
    set (l := (t - t0) * / (t1 - t0)) in *.
    assert (EI : interp t0 v0 t1 v1 t == v0 + (v1 - v0) * l).
    { unfold interp, slope, l. ring. }
    rewrite EI. apply Qabs_Qle_condition in A0. apply Qabs_Qle_condition in A1.
    apply Qabs_Qle_condition.
    assert (P1 : 0 <= l * (M - v1)) by (apply Qmult_le_0_compat; lra).
    assert (P2 : 0 <= (1 - l) * (M - v0)) by (apply Qmult_le_0_compat; lra).
    assert (P3 : 0 <= l * (M + v1)) by (apply Qmult_le_0_compat; lra).
    assert (P4 : 0 <= (1 - l) * (M + v0)) by (apply Qmult_le_0_compat; lra).
    split; lra.
Qed.

(* ------------------------------------------------------------------------------------------ *)
(* eval: unfolding, Proper *)

Lemma eval_nil t : eval [] t = 0.
Proof. reflexivity. Qed.

Lemma eval_single t0 v0 t : eval [(t0, v0)] t = if Qeq_bool t t0 then v0 else 0.
Proof. reflexivity. Qed.

Lemma eval_cons2 t0 v0 t1 v1 r t :
  eval ((t0, v0) :: (t1, v1) :: r) t =
  if Qltb t t0 then 0
  else if Qle_bool t t1 then interp t0 v0 t1 v1 t
  else eval ((t1, v1) :: r) t.
Proof. reflexivity. Qed.

Global Instance eval_Proper p : Proper (Qeq ==> Qeq) (eval p).
Proof.
  induction p as [|[t0 v0] r IH]; intros x y H; [reflexivity|].
  destruct r as [|[t1 v1] r].
  - rewrite !eval_single. rewrite H. reflexivity.
  - rewrite !eval_cons2.
    assert (E1 : Qltb x t0 = Qltb y t0) by (rewrite H; reflexivity).
    assert (E2 : Qle_bool x t1 = Qle_bool y t1) by (rewrite H; reflexivity).
    rewrite E1, E2. pose proof (IH x y H) as IHxy.
    destruct (Qltb y t0); [reflexivity|]. destruct (Qle_bool y t1); [|exact IHxy].
    rewrite H. reflexivity.
Qed.

Lemma tlast_cons2 a b (r : pwl) : tlast (a :: b :: r) = tlast (b :: r).
Proof. reflexivity. Qed.
Lemma vlast_cons2 a b (r : pwl) : vlast (a :: b :: r) = vlast (b :: r).
Proof. reflexivity. Qed.

Lemma tlast_in_times (p : pwl) : p <> [] -> In (tlast p) (times p).
Proof.
  induction p as [|a p IH]; [congruence|]. intros _.
  destruct p as [|b p]; [left; reflexivity|].
  rewrite tlast_cons2. right. apply IH. discriminate.
Qed.

Lemma tfirst_le_tlast (p : pwl) : sorted_strict (times p) -> tfirst p <= tlast p.
Proof.
  destruct p as [|[t0 v0] p]; [cbn; lra|]. intro H.
  pose proof (sorted_le_last _ H t0 (or_introl eq_refl)) as HL.
  unfold tlast. cbn [tfirst].
  replace (fst (last ((t0, v0) :: p) (0, 0))) with (last (times ((t0, v0) :: p)) 0); [exact HL|].
  generalize (t0, v0). clear. induction p as [|b p IH]; intro a; [reflexivity|].
  rewrite last_cons2. change (times (a :: b :: p)) with (fst a :: times (b :: p)).
  change (times (b :: p)) with (fst b :: times p). rewrite last_cons2.
  change (fst b :: times p) with (times (b :: p)). apply IH.
Qed.

Lemma tlast_times (p : pwl) : tlast p = last (times p) 0.
Proof.
  unfold tlast. induction p as [|a p IH]; [reflexivity|].
  destruct p as [|b p]; [reflexivity|].
  rewrite last_cons2. change (times (a :: b :: p)) with (fst a :: fst b :: times p).
  rewrite last_cons2. exact IH.
Qed.

Lemma tfirst_times (p : pwl) : tfirst p = hd 0 (times p).
Proof. destruct p as [|[t v] p]; reflexivity. Qed.

(* ------------------------------------------------------------------------------------------ *)
(* eval outside the support, at corners *)

Lemma eval_outside_left p t : t < tfirst p -> eval p t == 0.
Proof.
  destruct p as [|[t0 v0] [|[t1 v1] r]]; cbn [tfirst]; intro H.
  - reflexivity.
  - rewrite eval_single. qb; [lra|reflexivity].
  - rewrite eval_cons2. qb; try reflexivity; lra.
Qed.

Lemma eval_outside_right p : sorted_strict (times p) -> forall t, tlast p < t -> eval p t == 0.
Proof.
  induction p as [|[t0 v0] r IH]; intros Hs t H; [reflexivity|].
  destruct r as [|[t1 v1] r].
  - rewrite eval_single. cbn in H. qb; [lra|reflexivity].
  - rewrite tlast_cons2 in H. rewrite eval_cons2.
    pose proof (tfirst_le_tlast _ (sorted_times_tail _ _ Hs)) as HL. cbn [tfirst] in HL.
    destruct Hs as [H01 Hs].
    qb; try reflexivity; try lra.
    apply IH; assumption.
Qed.

Lemma eval_outside p t : sorted_strict (times p) -> ~ inside p t -> eval p t == 0.
Proof.
  intros Hs Hn. destruct (Qlt_le_dec t (tfirst p)) as [H|H].
  - apply eval_outside_left; assumption.
  - destruct (Qlt_le_dec (tlast p) t) as [H'|H'].
    + apply eval_outside_right; assumption.
    + exfalso. apply Hn. split; assumption.
Qed.

Lemma eval_at_first p : sorted_strict (times p) -> eval p (tfirst p) == vfirst p.
Proof.
  destruct p as [|[t0 v0] [|[t1 v1] r]]; intro Hs; cbn [tfirst vfirst].
  - reflexivity.
  - rewrite eval_single. qb; [reflexivity|]. exfalso. apply E. reflexivity.
  - rewrite eval_cons2. destruct Hs as [H01 _]. cbn [fst] in H01.
    qb; try lra. apply interp_left.
Qed.

Lemma eval_tail t0 v0 t1 v1 r t :
  sorted_strict (times ((t0, v0) :: (t1, v1) :: r)) -> t1 <= t ->
  eval ((t0, v0) :: (t1, v1) :: r) t == eval ((t1, v1) :: r) t.
Proof.
  intros Hs H. destruct Hs as [H01 Hs]. cbn [fst] in H01.
  rewrite eval_cons2. qb; try lra; try reflexivity.
  assert (Et : t == t1) by lra. rewrite Et.
  rewrite interp_right by lra.
  symmetry. apply (eval_at_first ((t1, v1) :: r)). exact Hs.
Qed.

Lemma eval_at_corner p : sorted_strict (times p) -> forall a v, In (a, v) p -> eval p a == v.
Proof.
  induction p as [|[t0 v0] r IH]; intros Hs a v Hin; [destruct Hin|].
  destruct Hin as [E|Hin].
  - inversion E; subst. apply (eval_at_first ((a, v) :: r)). exact Hs.
  - destruct r as [|[t1 v1] r]; [destruct Hin|].
    rewrite eval_tail; [|exact Hs|].
    + apply IH; [apply (sorted_times_tail _ _ Hs)|exact Hin].
    + apply (sorted_hd_le (times ((t1, v1) :: r)) (sorted_times_tail _ _ Hs) a).
      apply (in_map fst) in Hin. exact Hin.
Qed.


Lemma last_in {A} (l : list A) d : l <> [] -> In (last l d) l.
Proof.
  induction l as [|a l IH]; [congruence|]. intros _.
  destruct l as [|b l]; [left; reflexivity|].
  rewrite last_cons2. right. apply IH. discriminate.
Qed.

Lemma eval_at_last p : sorted_strict (times p) -> eval p (tlast p) == vlast p.
Proof.
  destruct p as [|a p]; [reflexivity|]. intro Hs.
  apply eval_at_corner; [exact Hs|].
  unfold tlast, vlast. rewrite <- surjective_pairing.
  apply last_in. discriminate.
Qed.

(* explicit interpolation formula between two consecutive corners anywhere in the list *)
Lemma eval_between p : forall t0 v0 t1 v1 r t,
  sorted_strict (times (p ++ (t0, v0) :: (t1, v1) :: r)) -> t0 <= t -> t <= t1 ->
  eval (p ++ (t0, v0) :: (t1, v1) :: r) t == interp t0 v0 t1 v1 t.
Proof.
  induction p as [|[a w] p IH]; intros t0 v0 t1 v1 r t Hs H0 H1.
  - cbn [app]. rewrite eval_cons2. qb; try lra; reflexivity.
  - destruct p as [|[b x] p].
    + cbn [app] in *. rewrite eval_tail; [|exact Hs|exact H0].
      apply (IH t0 v0 t1 v1 r t); [apply (sorted_times_tail _ _ Hs)|exact H0|exact H1].
    + change (((a, w) :: (b, x) :: p) ++ (t0, v0) :: (t1, v1) :: r)
        with ((a, w) :: (b, x) :: (p ++ (t0, v0) :: (t1, v1) :: r)) in *.
      assert (Hb : b <= t0).
      { apply (sorted_hd_le (times ((b, x) :: p ++ (t0, v0) :: (t1, v1) :: r))
                 (sorted_times_tail _ _ Hs) t0).
        unfold times. rewrite map_cons, map_app. right. apply in_or_app. right. left. reflexivity. }
      rewrite eval_tail; [|exact Hs|lra].
      apply (IH t0 v0 t1 v1 r t); [apply (sorted_times_tail _ _ Hs)|exact H0|exact H1].
Qed.

(* ------------------------------------------------------------------------------------------ *)
(* scale, neg, shift *)

Lemma times_scale c p : times (scale c p) = times p.
Proof. unfold times, scale. rewrite map_map. reflexivity. Qed.
Lemma times_neg p : times (neg p) = times p.
Proof. unfold times, neg. rewrite map_map. reflexivity. Qed.
Lemma times_shift d p : times (shift d p) = map (fun t => t + d) (times p).
Proof. unfold times, shift. rewrite !map_map. reflexivity. Qed.

Lemma sorted_map_plus d l : sorted_strict l -> sorted_strict (map (fun t => t + d) l).
Proof.
  induction l as [|a l IH]; [trivial|]. destruct l as [|b l]; [trivial|].
  intros [Hab Hs]. split; [lra|]. apply IH. exact Hs.
Qed.

Lemma sorted_shift d p : sorted_strict (times p) -> sorted_strict (times (shift d p)).
Proof. rewrite times_shift. apply sorted_map_plus. Qed.
Lemma sorted_times_scale c p : sorted_strict (times p) -> sorted_strict (times (scale c p)).
Proof. rewrite times_scale. trivial. Qed.
Lemma sorted_times_neg p : sorted_strict (times p) -> sorted_strict (times (neg p)).
Proof. rewrite times_neg. trivial. Qed.

Lemma eval_scale c p t : eval (scale c p) t == c * eval p t.
Proof.
  induction p as [|[t0 v0] r IH]; [cbn; ring|].
  destruct r as [|[t1 v1] r].
  - cbn [scale map fst snd]. rewrite !eval_single. qb; ring.
  - change (scale c ((t0, v0) :: (t1, v1) :: r))
      with ((t0, c * v0) :: (t1, c * v1) :: scale c r).
    rewrite !eval_cons2.
    change ((t1, c * v1) :: scale c r) with (scale c ((t1, v1) :: r)).
    qb; [ring | unfold interp, slope; ring | apply IH].
Qed.


Lemma eval_neg p t : eval (neg p) t == - eval p t.
Proof.
  induction p as [|[t0 v0] r IH]; [cbn; ring|].
  destruct r as [|[t1 v1] r].
  - cbn [neg map fst snd]. rewrite !eval_single. qb; ring.
  - change (neg ((t0, v0) :: (t1, v1) :: r))
      with ((t0, - v0) :: (t1, - v1) :: neg r).
    rewrite !eval_cons2.
    change ((t1, - v1) :: neg r) with (neg ((t1, v1) :: r)).
    qb; [ring | unfold interp, slope; ring | apply IH].
Qed.

Lemma eval_shift d p t : eval (shift d p) t == eval p (t - d).
Proof.
  induction p as [|[t0 v0] r IH]; [reflexivity|].
  destruct r as [|[t1 v1] r].
  - cbn [shift map fst snd]. rewrite !eval_single. qb; try reflexivity; lra.
  - change (shift d ((t0, v0) :: (t1, v1) :: r))
      with ((t0 + d, v0) :: (t1 + d, v1) :: shift d r).
    rewrite !eval_cons2.
    change ((t1 + d, v1) :: shift d r) with (shift d ((t1, v1) :: r)).
    qb; try reflexivity; try lra.
    unfold interp, slope.
    setoid_replace (t1 + d - (t0 + d)) with (t1 - t0) by ring.
    ring.
Qed.

(* ------------------------------------------------------------------------------------------ *)
(* amplitude bound *)

Lemma max_abs_nonneg p : 0 <= max_abs p.
Proof.
  destruct p as [|[t v] r]; cbn [max_abs]; [lra|].
  pose proof (Qmax_ub_l (Qabs v) (max_abs r)). pose proof (Qabs_nonneg v). lra.
Qed.

Lemma max_abs_in p : forall a v, In (a, v) p -> Qabs v <= max_abs p.
Proof.
  induction p as [|[t w] r IH]; intros a v Hin; [destruct Hin|].
  cbn [max_abs]. destruct Hin as [E|Hin].
  - inversion E; subst. apply Qmax_ub_l.
  - pose proof (IH a v Hin). pose proof (Qmax_ub_r (Qabs w) (max_abs r)). lra.
Qed.

Theorem amp_bound p t : Qabs (eval p t) <= max_abs p.
Proof.
  induction p as [|[t0 v0] r IH]; [cbn; lra|].
  destruct r as [|[t1 v1] r].
  - rewrite eval_single. qb.
    + cbn [max_abs]. apply Qmax_ub_l.
    + change (Qabs 0) with 0. apply max_abs_nonneg.
  - rewrite eval_cons2. qb.
    + change (Qabs 0) with 0. apply max_abs_nonneg.
    + apply interp_abs_bound; try lra.
      * apply (max_abs_in _ t0 v0). left. reflexivity.
      * apply (max_abs_in _ t1 v1). right. left. reflexivity.
    + change (max_abs ((t0, v0) :: (t1, v1) :: r))
        with (Qmax (Qabs v0) (max_abs ((t1, v1) :: r))).
      pose proof (Qmax_ub_r (Qabs v0) (max_abs ((t1, v1) :: r))). lra.
Qed.

(* the form asked for by DESIGN.md (the sortedness hypothesis is not needed) *)
Corollary amp_bound_sorted p t : sorted_strict (times p) -> Qabs (eval p t) <= max_abs p.
Proof. intros _. apply amp_bound. Qed.

(* ------------------------------------------------------------------------------------------ *)
(* slope bound *)

Lemma max_slope_cons2 t0 v0 t1 v1 r :
  max_slope ((t0, v0) :: (t1, v1) :: r) =
  Qmax (Qabs (slope t0 v0 t1 v1)) (max_slope ((t1, v1) :: r)).
Proof. reflexivity. Qed.

Lemma max_slope_nonneg p : 0 <= max_slope p.
Proof.
  destruct p as [|[t0 v0] [|[t1 v1] r]]; [cbn; lra|cbn; lra|].
  rewrite max_slope_cons2.
  pose proof (Qmax_ub_l (Qabs (slope t0 v0 t1 v1)) (max_slope ((t1, v1) :: r))).
  pose proof (Qabs_nonneg (slope t0 v0 t1 v1)). lra.
Qed.

Lemma slope_bound_le p : sorted_strict (times p) -> forall t u,
  tfirst p <= t -> t <= u -> u <= tlast p ->
  Qabs (eval p t - eval p u) <= max_slope p * (u - t).
Proof.
  induction p as [|[t0 v0] r IH]; intros Hs t u H0 Htu H1.
  - cbn. lra.
  - destruct r as [|[t1 v1] r].
    + cbn in H0, H1. assert (E : t == u) by lra. rewrite E.
      setoid_replace (eval [(t0, v0)] u - eval [(t0, v0)] u) with 0 by ring.
      cbn. lra.
    + cbn [tfirst] in H0. rewrite tlast_cons2 in H1.
      pose proof Hs as Hs'. destruct Hs' as [H01 Hst]. cbn [fst] in H01.
      rewrite max_slope_cons2.
      set (s := slope t0 v0 t1 v1).
      set (S1 := max_slope ((t1, v1) :: r)).
      pose proof (Qmax_ub_l (Qabs s) S1) as HS0.
      pose proof (Qmax_ub_r (Qabs s) S1) as HS1.
      set (S := Qmax (Qabs s) S1) in *.
      assert (Hseg : forall x y, Qabs (interp t0 v0 t1 v1 x - interp t0 v0 t1 v1 y) == Qabs s * Qabs (x - y)).
      { intros x y. rewrite interp_diff. apply Qabs_Qmult. }
      destruct (Qlt_le_dec t1 u) as [Hu|Hu].
      * (* u beyond the first segment *)
        rewrite (eval_tail t0 v0 t1 v1 r u Hs) by lra.
        destruct (Qlt_le_dec t t1) as [Ht|Ht].
        -- (* t in the first segment: go through the corner t1 *)
           assert (Et : eval ((t0, v0) :: (t1, v1) :: r) t == interp t0 v0 t1 v1 t).
           { rewrite eval_cons2. qb; try lra; reflexivity. }
           rewrite Et.
           assert (Ec : eval ((t1, v1) :: r) t1 == v1) by (apply (eval_at_first ((t1, v1) :: r)); exact Hst).
           assert (Ei : interp t0 v0 t1 v1 t1 == v1) by (apply interp_right; lra).
           setoid_replace (interp t0 v0 t1 v1 t - eval ((t1, v1) :: r) u)
             with ((interp t0 v0 t1 v1 t - interp t0 v0 t1 v1 t1)
                   + (eval ((t1, v1) :: r) t1 - eval ((t1, v1) :: r) u))
             by (rewrite Ec, Ei; ring).
           eapply Qle_trans; [apply Qabs_triangle|].
           rewrite Hseg.
           assert (IH1 := IH Hst t1 u (Qle_refl _) (Qlt_le_weak _ _ Hu) H1).
           fold S1 in IH1.
           rewrite (Qabs_neg (t - t1)) by lra.
           assert (P1 : Qabs s * - (t - t1) <= S * - (t - t1)) by (apply Qmult_le_compat_r; lra).
           assert (P2 : S1 * (u - t1) <= S * (u - t1)) by (apply Qmult_le_compat_r; lra).
           lra.
        -- rewrite (eval_tail t0 v0 t1 v1 r t Hs) by lra.
           assert (IH1 := IH Hst t u Ht Htu H1). fold S1 in IH1.
           assert (P2 : S1 * (u - t) <= S * (u - t)) by (apply Qmult_le_compat_r; lra).
           lra.
      * (* both in the first segment *)
        assert (Et : eval ((t0, v0) :: (t1, v1) :: r) t == interp t0 v0 t1 v1 t).
        { rewrite eval_cons2. qb; try lra; reflexivity. }
        assert (Eu : eval ((t0, v0) :: (t1, v1) :: r) u == interp t0 v0 t1 v1 u).
        { rewrite eval_cons2. qb; try lra; reflexivity. }
        rewrite Et, Eu, Hseg.
        rewrite (Qabs_neg (t - u)) by lra.
        assert (P1 : Qabs s * - (t - u) <= S * - (t - u)) by (apply Qmult_le_compat_r; lra).
        lra.
Qed.

Theorem slope_bound p t u : sorted_strict (times p) -> inside p t -> inside p u ->
  Qabs (eval p t - eval p u) <= max_slope p * Qabs (t - u).
Proof.
  intros Hs [Ht0 Ht1] [Hu0 Hu1].
  destruct (Qlt_le_dec u t) as [H|H].
  - rewrite (Qabs_pos (t - u)) by lra.
    setoid_replace (eval p t - eval p u) with (- (eval p u - eval p t)) by ring.
    rewrite Qabs_opp. apply slope_bound_le; try assumption. lra.
  - rewrite (Qabs_neg (t - u)) by lra.
    setoid_replace (- (t - u)) with (u - t) by ring.
    apply slope_bound_le; assumption.
Qed.

(* ------------------------------------------------------------------------------------------ *)
(* tabulate / resample *)

Lemma times_tabulate f T : times (tabulate f T) = T.
Proof. unfold times, tabulate. rewrite map_map. cbn. apply map_id. Qed.

Lemma times_resample T p : times (resample T p) = T.
Proof. apply times_tabulate. Qed.

Lemma length_resample T p : length (resample T p) = length T.
Proof. unfold resample, tabulate. apply map_length. Qed.

Lemma affine_interp (f : Q -> Q) a b :
  a < b -> affine_on f a b -> forall t, a <= t -> t <= b -> f t == interp a (f a) b (f b) t.
Proof.
  intros Hab (m & c & H) t Ha Hb.
  rewrite (H t Ha Hb), (H a) by lra. rewrite (H b) by lra.
  unfold interp, slope. field. lra.
Qed.

Lemma tabulate_cons f a T : tabulate f (a :: T) = (a, f a) :: tabulate f T.
Proof. reflexivity. Qed.

Lemma eval_tabulate_from (f : Q -> Q) : Proper (Qeq ==> Qeq) f ->
  forall T, T <> [] -> sorted_strict T ->
  (forall a b, adjacent T a b -> affine_on f a b) ->
  (forall t, last T 0 < t -> f t == 0) ->
  forall t, hd 0 T <= t -> eval (tabulate f T) t == f t.
Proof.
  intros Hf T. induction T as [|a T IH]; intros Hne Hs Hadj Hout t Ht; [congruence|].
  destruct T as [|b T].
  - cbn [tabulate map]. rewrite eval_single. cbn [hd] in Ht. qb.
    + rewrite E. reflexivity.
    + symmetry. apply Hout. cbn. lra.
  - rewrite !tabulate_cons. rewrite eval_cons2. rewrite <- tabulate_cons.
    cbn [hd] in Ht. destruct Hs as [Hab Hs].
    qb; try lra.
    + symmetry. apply affine_interp; try lra.
      apply Hadj. split; [left; reflexivity|]. split; [right; left; reflexivity|].
      split; [exact Hab|]. intros x Hx [Hx1 Hx2].
      destruct Hx as [<-|[<-|Hx]]; try lra.
      pose proof (sorted_lt_all _ _ Hs x Hx). lra.
    + apply IH; try discriminate; try assumption.
      * intros a' b' (Ha' & Hb' & Hlt & Hno). apply Hadj.
        split; [right; exact Ha'|]. split; [right; exact Hb'|]. split; [exact Hlt|].
        intros x Hx [Hx1 Hx2]. destruct Hx as [<-|Hx].
        -- pose proof (sorted_hd_le _ Hs a' Ha') as HH. cbn [hd] in HH. lra.
        -- apply (Hno x Hx). split; assumption.
      * cbn [hd]. lra.
Qed.

Lemma tfirst_tabulate f T : tfirst (tabulate f T) = hd 0 T.
Proof. destruct T; reflexivity. Qed.

Lemma eval_tabulate (f : Q -> Q) : Proper (Qeq ==> Qeq) f ->
  forall T, T <> [] -> sorted_strict T ->
  (forall a b, adjacent T a b -> affine_on f a b) ->
  (forall t, t < hd 0 T -> f t == 0) ->
  (forall t, last T 0 < t -> f t == 0) ->
  forall t, eval (tabulate f T) t == f t.
Proof.
  intros Hf T Hne Hs Hadj Hl Hr t.
  destruct (Qlt_le_dec t (hd 0 T)) as [H|H].
  - rewrite eval_outside_left by (rewrite tfirst_tabulate; exact H).
    symmetry. apply Hl. exact H.
  - apply eval_tabulate_from; assumption.
Qed.

(* eval p is affine on every interval that has no corner of p strictly inside and over which
   p has no jump at its ends *)
Lemma eval_affine_on p : sorted_strict (times p) -> forall a b, a < b ->
  (forall c, In c (times p) -> ~ (a < c /\ c < b)) ->
  (vfirst p == 0 \/ tfirst p <= a) ->
  (vlast p == 0 \/ b <= tlast p) ->
  affine_on (eval p) a b.
Proof.
  induction p as [|[t0 v0] r IH]; intros Hs a b Hab Hno Hf Hl.
  - exists 0, 0. intros. cbn. ring.
  - destruct r as [|[t1 v1] r].
    + cbn in Hf, Hl.
      assert (Hv : v0 == 0) by (destruct Hf, Hl; try assumption; lra).
      exists 0, 0. intros t _ _. rewrite eval_single. qb; [rewrite Hv|]; ring.
    + pose proof Hs as Hs'. destruct Hs' as [H01 Hst]. cbn [fst] in H01.
      cbn [tfirst vfirst] in Hf. rewrite tlast_cons2, vlast_cons2 in Hl.
      destruct (Qlt_le_dec a t0) as [Ha|Ha].
      * (* interval left of the support *)
        assert (Hb : b <= t0).
        { destruct (Qlt_le_dec t0 b) as [Hb|Hb]; [|exact Hb].
          exfalso. apply (Hno t0); [left; reflexivity|]. split; assumption. }
        assert (Hv : v0 == 0) by (destruct Hf; [assumption|lra]).
        exists 0, 0. intros t Hta Htb. rewrite eval_cons2. qb; try ring; try lra.
        assert (Et : t == t0) by lra. rewrite Et, interp_left, Hv. ring.
      * destruct (Qlt_le_dec t1 b) as [Hb|Hb].
        -- (* interval right of the first segment *)
           assert (Ha1 : t1 <= a).
           { destruct (Qlt_le_dec a t1) as [Ha1|Ha1]; [|exact Ha1].
             exfalso. apply (Hno t1); [right; left; reflexivity|]. split; assumption. }
           destruct (IH Hst a b Hab) as (m & c & Hmc).
           ++ intros x Hx. apply Hno. right. exact Hx.
           ++ right. exact Ha1.
           ++ exact Hl.
           ++ exists m, c. intros t Hta Htb. rewrite eval_tail; [|exact Hs|lra].
              apply Hmc; assumption.
        -- exists (slope t0 v0 t1 v1), (v0 - slope t0 v0 t1 v1 * t0).
           intros t Hta Htb. rewrite eval_cons2. qb; try lra.
           apply interp_affine.
Qed.

Theorem eval_resample T p :
  sorted_strict (times p) -> sorted_strict T ->
  (forall c, In c (times p) -> InQ c T) ->
  (vfirst p == 0 \/ tfirst p <= hd 0 T) ->
  (vlast p == 0 \/ last T 0 <= tlast p) ->
  forall t, eval (resample T p) t == eval p t.
Proof.
  intros Hp HT Hin Hf Hl t.
  destruct T as [|a0 T0].
  - destruct p as [|[t0 v0] p]; [reflexivity|].
    destruct (Hin t0 (or_introl eq_refl)) as (b & [] & _).
  - set (T := a0 :: T0) in *.
    assert (Hne : T <> []) by discriminate.
    unfold resample. apply eval_tabulate; try assumption.
    + apply eval_Proper.
    + intros a b (Ha & Hb & Hab & Hno).
      apply eval_affine_on; try assumption.
      * intros c Hc [Hc1 Hc2]. destruct (Hin c Hc) as (c' & Hc' & Ec).
        apply (Hno c' Hc'). split; lra.
      * destruct Hf as [Hf|Hf]; [left; exact Hf|right].
        pose proof (sorted_hd_le T HT a Ha). lra.
      * destruct Hl as [Hl|Hl]; [left; exact Hl|right].
        pose proof (sorted_le_last T HT b Hb). lra.
    + intros u Hu. destruct p as [|[t0 v0] p]; [reflexivity|].
      apply eval_outside_left. cbn [tfirst].
      destruct (Hin t0 (or_introl eq_refl)) as (c' & Hc' & Ec).
      pose proof (sorted_hd_le T HT c' Hc'). lra.
    + intros u Hu. destruct p as [|q p]; [reflexivity|].
      apply eval_outside_right; [exact Hp|].
      assert (Hq : In (tlast (q :: p)) (times (q :: p))) by (apply tlast_in_times; discriminate).
      destruct (Hin _ Hq) as (c' & Hc' & Ec).
      pose proof (sorted_le_last T HT c' Hc'). lra.
Qed.

Corollary eval_resample_incl T p :
  sorted_strict (times p) -> sorted_strict T -> incl (times p) T ->
  (vfirst p == 0 \/ tfirst p <= hd 0 T) ->
  (vlast p == 0 \/ last T 0 <= tlast p) ->
  forall t, eval (resample T p) t == eval p t.
Proof.
  intros Hp HT Hin. apply eval_resample; try assumption.
  intros c Hc. exists c. split; [apply Hin, Hc|reflexivity].
Qed.

(* ------------------------------------------------------------------------------------------ *)
(* pointwise sum on a common grid *)

Lemma times_padd p : forall q, times p = times q -> times (padd p q) = times p.
Proof.
  induction p as [|[t v] p IH]; intros [|[t' w] q] H; try discriminate; [reflexivity|].
  cbn in H. inversion H. cbn [padd]. rewrite !times_cons. f_equal. apply IH. assumption.
Qed.

Theorem eval_padd p : forall q t, times p = times q -> eval (padd p q) t == eval p t + eval q t.
Proof.
  induction p as [|[t0 v0] r IH]; intros [|[t0' w0] r'] t H; try discriminate; [cbn; ring|].
  cbn in H. inversion H as [[H0 Hr]]. subst t0'.
  destruct r as [|[t1 v1] r]; destruct r' as [|[t1' w1] r']; try discriminate.
  - cbn [padd]. rewrite !eval_single. qb; ring.
  - cbn in Hr. inversion Hr as [[H1 Hr']]. subst t1'.
    change (padd ((t0, v0) :: (t1, v1) :: r) ((t0, w0) :: (t1, w1) :: r'))
      with ((t0, v0 + w0) :: padd ((t1, v1) :: r) ((t1, w1) :: r')).
    change (padd ((t1, v1) :: r) ((t1, w1) :: r')) with ((t1, v1 + w1) :: padd r r') at 1.
    rewrite !eval_cons2.
    change ((t1, v1 + w1) :: padd r r') with (padd ((t1, v1) :: r) ((t1, w1) :: r')).
    qb; [ring | unfold interp, slope; ring |].
    apply IH. cbn; f_equal; exact Hr'.
Qed.

(* ------------------------------------------------------------------------------------------ *)
(* pwl_eq *)

Lemma pwl_eq_cons_inv a b (p q : pwl) :
  pwl_eq (a :: p) (b :: q) -> (fst a == fst b /\ snd a == snd b) /\ pwl_eq p q.
Proof. intro H. inversion H; subst. split; assumption. Qed.

Lemma eval_pwl_eq p : forall q t, pwl_eq p q -> eval p t == eval q t.
Proof.
  induction p as [|[t0 v0] r IH]; intros q t H.
  - inversion H. reflexivity.
  - destruct q as [|[t0' v0'] r']; [inversion H|].
    apply pwl_eq_cons_inv in H. destruct H as [[Ht Hv] Hr]. cbn [fst snd] in Ht, Hv.
    destruct r as [|[t1 v1] r]; destruct r' as [|[t1' v1'] r']; try (inversion Hr; fail).
    + rewrite !eval_single. rewrite Ht. destruct (Qeq_bool t t0'); [exact Hv|reflexivity].
    + pose proof Hr as Hr2. apply pwl_eq_cons_inv in Hr2. destruct Hr2 as [[Ht1 Hv1] _].
      cbn [fst snd] in Ht1, Hv1. rewrite !eval_cons2.
      pose proof (IH _ t Hr) as IHr.
      rewrite Ht, Ht1. destruct (Qltb t t0'); [reflexivity|].
      destruct (Qle_bool t t1'); [|exact IHr].
      rewrite Ht, Hv, Ht1, Hv1. reflexivity.
Qed.

Lemma pwl_eq_refl p : pwl_eq p p.
Proof. induction p; constructor; [split; reflexivity|assumption]. Qed.

(* ------------------------------------------------------------------------------------------ *)
(* area *)

Lemma area_cons2 t0 v0 t1 v1 r :
  area ((t0, v0) :: (t1, v1) :: r) = (v0 + v1) * (t1 - t0) * (1 # 2) + area ((t1, v1) :: r).
Proof. reflexivity. Qed.

Lemma area_scale c p : area (scale c p) == c * area p.
Proof.
  induction p as [|[t0 v0] r IH]; [cbn; ring|].
  destruct r as [|[t1 v1] r]; [cbn; ring|].
  change (scale c ((t0, v0) :: (t1, v1) :: r)) with ((t0, c * v0) :: (t1, c * v1) :: scale c r).
  rewrite !area_cons2.
  change ((t1, c * v1) :: scale c r) with (scale c ((t1, v1) :: r)). rewrite IH. ring.
Qed.

Lemma area_neg p : area (neg p) == - area p.
Proof.
  induction p as [|[t0 v0] r IH]; [cbn; ring|].
  destruct r as [|[t1 v1] r]; [cbn; ring|].
  change (neg ((t0, v0) :: (t1, v1) :: r)) with ((t0, - v0) :: (t1, - v1) :: neg r).
  rewrite !area_cons2.
  change ((t1, - v1) :: neg r) with (neg ((t1, v1) :: r)). rewrite IH. ring.
Qed.

Lemma area_shift d p : area (shift d p) == area p.
Proof.
  induction p as [|[t0 v0] r IH]; [cbn; ring|].
  destruct r as [|[t1 v1] r]; [cbn; ring|].
  change (shift d ((t0, v0) :: (t1, v1) :: r)) with ((t0 + d, v0) :: (t1 + d, v1) :: shift d r).
  rewrite !area_cons2.
  change ((t1 + d, v1) :: shift d r) with (shift d ((t1, v1) :: r)). rewrite IH. ring.
Qed.

Lemma area_padd p : forall q, times p = times q -> area (padd p q) == area p + area q.
Proof.
  induction p as [|[t0 v0] r IH]; intros [|[t0' w0] r'] H; try discriminate; [cbn; ring|].
  cbn in H. inversion H as [[H0 Hr]]. subst t0'.
  destruct r as [|[t1 v1] r]; destruct r' as [|[t1' w1] r']; try discriminate; [cbn; ring|].
  cbn in Hr. inversion Hr as [[H1 Hr']]. subst t1'.
  change (padd ((t0, v0) :: (t1, v1) :: r) ((t0, w0) :: (t1, w1) :: r'))
    with ((t0, v0 + w0) :: (t1, v1 + w1) :: padd r r').
  rewrite !area_cons2.
  change ((t1, v1 + w1) :: padd r r') with (padd ((t1, v1) :: r) ((t1, w1) :: r')).
  rewrite (IH ((t1, w1) :: r')) by (cbn; f_equal; exact Hr'). ring.
Qed.

(* area of a concatenation that shares the junction corner *)
Lemma area_app p : forall a v q, area (p ++ (a, v) :: q) == area (p ++ [(a, v)]) + area ((a, v) :: q).
Proof.
  induction p as [|[t0 v0] r IH]; intros a v q; [cbn [app area]; ring|].
  destruct r as [|[t1 v1] r].
  - cbn [app]. rewrite !area_cons2. cbn [area]. ring.
  - change (((t0, v0) :: (t1, v1) :: r) ++ (a, v) :: q)
      with ((t0, v0) :: (t1, v1) :: (r ++ (a, v) :: q)).
    change (((t0, v0) :: (t1, v1) :: r) ++ [(a, v)])
      with ((t0, v0) :: (t1, v1) :: (r ++ [(a, v)])).
    rewrite !area_cons2.
    change ((t1, v1) :: r ++ (a, v) :: q) with (((t1, v1) :: r) ++ (a, v) :: q).
    change ((t1, v1) :: r ++ [(a, v)]) with (((t1, v1) :: r) ++ [(a, v)]).
    rewrite (IH a v q). ring.
Qed.

(* ------------------------------------------------------------------------------------------ *)
(* concatenation *)

(* two pieces sharing the corner (a, v): left of a the whole is the left piece ... *)
Lemma eval_concat_left p : forall a v q t,
  sorted_strict (times (p ++ (a, v) :: q)) -> t <= a ->
  eval (p ++ (a, v) :: q) t == eval (p ++ [(a, v)]) t.
Proof.
  induction p as [|[t0 v0] p IH]; intros a v q t Hs Ht.
  - cbn [app] in *. destruct (Qlt_le_dec t a) as [H|H].
    + rewrite !eval_outside_left by (cbn [tfirst]; exact H). reflexivity.
    + assert (E : t == a) by lra. rewrite E.
      rewrite (eval_at_first ((a, v) :: q) Hs). rewrite eval_single. qb; [reflexivity|].
      exfalso. apply E0. reflexivity.
  - destruct p as [|[t1 v1] p].
    + cbn [app] in *. rewrite !eval_cons2. qb; try reflexivity. lra.
    + change (((t0, v0) :: (t1, v1) :: p) ++ (a, v) :: q)
        with ((t0, v0) :: (t1, v1) :: (p ++ (a, v) :: q)) in *.
      change (((t0, v0) :: (t1, v1) :: p) ++ [(a, v)])
        with ((t0, v0) :: (t1, v1) :: (p ++ [(a, v)])).
      rewrite !eval_cons2. qb; try reflexivity.
      apply (IH a v q t); [apply (sorted_times_tail _ _ Hs)|exact Ht].
Qed.

(* ... and right of a it is the right piece *)
Lemma eval_concat_right p : forall a v q t,
  sorted_strict (times (p ++ (a, v) :: q)) -> a <= t ->
  eval (p ++ (a, v) :: q) t == eval ((a, v) :: q) t.
Proof.
  induction p as [|[t0 v0] p IH]; intros a v q t Hs Ht; [reflexivity|].
  destruct p as [|[t1 v1] p].
  - cbn [app] in *. apply eval_tail; assumption.
  - change (((t0, v0) :: (t1, v1) :: p) ++ (a, v) :: q)
      with ((t0, v0) :: (t1, v1) :: (p ++ (a, v) :: q)) in *.
    assert (Hb : t1 <= a).
    { apply (sorted_hd_le (times ((t1, v1) :: p ++ (a, v) :: q)) (sorted_times_tail _ _ Hs) a).
      unfold times. rewrite map_cons, map_app. right. apply in_or_app. right. left. reflexivity. }
    rewrite eval_tail; [|exact Hs|lra].
    apply (IH a v q t); [apply (sorted_times_tail _ _ Hs)|exact Ht].
Qed.

Lemma tlast_ge_times (p : pwl) : sorted_strict (times p) -> forall x, In x (times p) -> x <= tlast p.
Proof. intros Hs x Hx. rewrite tlast_times. apply sorted_le_last; assumption. Qed.

(* two pieces separated by a gap (or touching), both zero at the junction: the sum *)
Lemma eval_concat_gap p : forall q t,
  sorted_strict (times p) -> sorted_strict (times q) ->
  p <> [] -> q <> [] -> tlast p < tfirst q -> vlast p == 0 -> vfirst q == 0 ->
  eval (p ++ q) t == eval p t + eval q t.
Proof.
  induction p as [|[t0 v0] p IH]; intros q t Hp Hq Hpn Hqn Hgap Hvl Hvf; [congruence|].
  destruct q as [|[b w] q]; [congruence|]. cbn [tfirst vfirst] in *.
  assert (Hqb : forall u, u <= b -> eval ((b, w) :: q) u == 0).
  { intros u Hu. destruct (Qlt_le_dec u b) as [H|H].
    - apply eval_outside_left. exact H.
    - assert (E : u == b) by lra. rewrite E.
      rewrite (eval_at_first ((b, w) :: q) Hq). exact Hvf. }
  destruct p as [|[t1 v1] p].
  - cbn in Hgap, Hvl. cbn [app]. rewrite eval_cons2, eval_single.
    qb; try lra.
    + rewrite Hqb by lra. ring.
    + rewrite Hqb by lra. unfold interp, slope. rewrite Hvl, Hvf. ring.
    + rewrite Hqb by lra. unfold interp, slope. rewrite Hvl, Hvf. ring.
  - rewrite tlast_cons2 in Hgap. rewrite vlast_cons2 in Hvl.
    change (((t0, v0) :: (t1, v1) :: p) ++ (b, w) :: q)
      with ((t0, v0) :: (t1, v1) :: (p ++ (b, w) :: q)).
    rewrite !eval_cons2.
    assert (H1b : t1 < b).
    { pose proof (tlast_ge_times ((t1, v1) :: p) (sorted_times_tail _ _ Hp) t1 (or_introl eq_refl)).
      lra. }
    pose proof Hp as Hp'. destruct Hp' as [H01 _]. cbn [fst] in H01.
    qb.
    + rewrite Hqb by lra. ring.
    + rewrite Hqb by lra. ring.
    + change ((t1, v1) :: p ++ (b, w) :: q) with (((t1, v1) :: p) ++ (b, w) :: q).
      apply IH; try assumption; try discriminate.
      apply (sorted_times_tail _ _ Hp).
Qed.

(* ------------------------------------------------------------------------------------------ *)
(* cuts *)

Lemma cut_left_head c t1 v1 r : t1 <= c -> exists s, cut_left c ((t1, v1) :: r) = (t1, v1) :: s.
Proof.
  intro H. cbn [cut_left]. qb; try lra.
  - exists []. reflexivity.
  - destruct r as [|[t2 v2] r]; [exists []; reflexivity|].
    qb; eexists; reflexivity.
Qed.

Lemma cut_left_cons2 c t0 v0 t1 v1 r :
  cut_left c ((t0, v0) :: (t1, v1) :: r) =
  if Qltb c t0 then []
  else if Qeq_bool c t0 then [(t0, v0)]
  else if Qle_bool t1 c then (t0, v0) :: cut_left c ((t1, v1) :: r)
  else [(t0, v0); (c, interp t0 v0 t1 v1 c)].
Proof. reflexivity. Qed.

Lemma cut_right_cons2 c t0 v0 t1 v1 r :
  cut_right c ((t0, v0) :: (t1, v1) :: r) =
  if Qle_bool c t0 then (t0, v0) :: (t1, v1) :: r
  else if Qle_bool t1 c then cut_right c ((t1, v1) :: r)
  else (c, interp t0 v0 t1 v1 c) :: (t1, v1) :: r.
Proof. reflexivity. Qed.

Lemma interp_cut_l t0 v0 t1 v1 c t : t0 < c -> c < t1 ->
  interp t0 v0 c (interp t0 v0 t1 v1 c) t == interp t0 v0 t1 v1 t.
Proof. intros. unfold interp, slope. field. split; lra. Qed.

Lemma interp_cut_r t0 v0 t1 v1 c t : t0 < c -> c < t1 ->
  interp c (interp t0 v0 t1 v1 c) t1 v1 t == interp t0 v0 t1 v1 t.
Proof. intros. unfold interp, slope. field. split; lra. Qed.

Ltac case_ltb a b E := destruct (Qltb a b) eqn:E; [apply Qltb_lt in E | apply Qltb_ge in E].
Ltac case_leb a b E := destruct (Qle_bool a b) eqn:E; [apply Qle_bool_iff in E | apply Qleb_gt in E].
Ltac case_eqb a b E := destruct (Qeq_bool a b) eqn:E; [apply Qeq_bool_iff in E | apply Qeqb_neq in E].

Lemma eval_single_at t0 v0 t : t == t0 -> eval [(t0, v0)] t == v0.
Proof. intro H. rewrite eval_single. case_eqb t t0 E; [reflexivity|contradiction]. Qed.

Lemma eval_single_off t0 v0 t : ~ t == t0 -> eval [(t0, v0)] t == 0.
Proof. intro H. rewrite eval_single. case_eqb t t0 E; [contradiction|reflexivity]. Qed.

Lemma eval_cut_left c p : sorted_strict (times p) -> forall t,
  (t <= c -> eval (cut_left c p) t == eval p t) /\ (c < t -> eval (cut_left c p) t == 0).
Proof.
  induction p as [|[t0 v0] r IH]; intros Hs t; [split; reflexivity|].
  destruct r as [|[t1 v1] r].
  - cbn [cut_left]. case_ltb c t0 E0; [|case_eqb c t0 E1]; split; intro Ht; try reflexivity.
    + symmetry. apply eval_outside_left. cbn [tfirst]. lra.
    + apply eval_single_off. lra.
    + apply eval_single_off. lra.
  - pose proof Hs as Hs'. destruct Hs' as [H01 Hst]. cbn [fst] in H01.
    rewrite cut_left_cons2. case_ltb c t0 E0; [|case_eqb c t0 E1; [|case_leb t1 c E2]].
    + split; intro Ht; [|reflexivity]. symmetry. apply eval_outside_left. cbn [tfirst]. lra.
    + split; intro Ht.
      * destruct (Qlt_le_dec t t0) as [H|H].
        -- rewrite !eval_outside_left by (cbn [tfirst]; exact H). reflexivity.
        -- assert (Et : t == t0) by lra. rewrite Et.
           rewrite (eval_at_first ((t0, v0) :: (t1, v1) :: r) Hs).
           apply eval_single_at. reflexivity.
      * apply eval_single_off. lra.
    + destruct (cut_left_head c t1 v1 r E2) as [s Es]. rewrite Es.
      destruct (IH Hst t) as [IH1 IH2]. rewrite Es in IH1, IH2.
      rewrite !eval_cons2. split; intro Ht.
      * case_ltb t t0 E3; [reflexivity|]. case_leb t t1 E4; [reflexivity|]. apply IH1. exact Ht.
      * case_ltb t t0 E3; [lra|]. case_leb t t1 E4; [lra|]. apply IH2. exact Ht.
    + assert (H0c : t0 < c) by lra.
      split; intro Ht.
      * rewrite !eval_cons2. case_ltb t t0 E3; [reflexivity|].
        case_leb t c E4; [|lra]. case_leb t t1 E5; [|lra].
        apply interp_cut_l; assumption.
      * rewrite eval_cons2. case_ltb t t0 E3; [lra|]. case_leb t c E4; [lra|].
        apply eval_single_off. lra.
Qed.

Lemma eval_cut_right c p : sorted_strict (times p) -> forall t,
  (c <= t -> eval (cut_right c p) t == eval p t) /\ (t < c -> eval (cut_right c p) t == 0).
Proof.
  induction p as [|[t0 v0] r IH]; intros Hs t; [split; reflexivity|].
  destruct r as [|[t1 v1] r].
  - cbn [cut_right]. case_leb c t0 E0; split; intro Ht; try reflexivity.
    + apply eval_outside_left. cbn [tfirst]. lra.
    + symmetry. apply eval_single_off. lra.
  - pose proof Hs as Hs'. destruct Hs' as [H01 Hst]. cbn [fst] in H01.
    rewrite cut_right_cons2. case_leb c t0 E0; [|case_leb t1 c E1].
    + split; intro Ht; [reflexivity|]. apply eval_outside_left. cbn [tfirst]. lra.
    + destruct (IH Hst t) as [IH1 IH2]. split; intro Ht.
      * rewrite IH1 by exact Ht. symmetry. apply eval_tail; [exact Hs|lra].
      * apply IH2. exact Ht.
    + split; intro Ht.
      * rewrite !eval_cons2. case_ltb t c E3; [lra|]. case_ltb t t0 E4; [lra|].
        case_leb t t1 E5; [|reflexivity].
        apply interp_cut_r; lra.
      * apply eval_outside_left. cbn [tfirst]. exact Ht.
Qed.

Theorem eval_cut c p t : sorted_strict (times p) -> ~ t == c ->
  eval (cut_left c p) t + eval (cut_right c p) t == eval p t.
Proof.
  intros Hs Hn. destruct (eval_cut_left c p Hs t) as [L1 L2].
  destruct (eval_cut_right c p Hs t) as [R1 R2].
  destruct (Qlt_le_dec t c) as [H|H].
  - rewrite L1, R2 by lra. ring.
  - rewrite L2, R1 by lra. ring.
Qed.

Theorem area_cut c p : sorted_strict (times p) ->
  area (cut_left c p) + area (cut_right c p) == area p.
Proof.
  induction p as [|[t0 v0] r IH]; intros Hs; [cbn; ring|].
  destruct r as [|[t1 v1] r].
  - cbn [cut_left cut_right]. case_ltb c t0 E0; [|case_eqb c t0 E1]; case_leb c t0 E2;
      try lra; cbn; ring.
  - pose proof Hs as Hs'. destruct Hs' as [H01 Hst]. cbn [fst] in H01.
    rewrite cut_left_cons2, cut_right_cons2.
    case_ltb c t0 E0; [|case_eqb c t0 E1; [|case_leb t1 c E2]]; case_leb c t0 E3; try lra.
    + cbn [area]. ring.
    + cbn [area]. ring.
    + destruct (cut_left_head c t1 v1 r E2) as [s Es]. specialize (IH Hst).
      rewrite Es in *. rewrite !area_cons2. rewrite <- IH. ring.
    + case_leb t1 c E4; [lra|].
      rewrite !area_cons2. cbn [area]. unfold interp, slope. field. lra.
Qed.

Lemma sorted_cut_right c p : sorted_strict (times p) -> sorted_strict (times (cut_right c p)).
Proof.
  induction p as [|[t0 v0] r IH]; intros Hs; [exact I|].
  destruct r as [|[t1 v1] r].
  - cbn [cut_right]. case_leb c t0 E0; [exact Hs|exact I].
  - pose proof Hs as Hs'. destruct Hs' as [H01 Hst]. cbn [fst] in H01.
    rewrite cut_right_cons2. case_leb c t0 E0; [exact Hs|]. case_leb t1 c E1.
    + apply IH. exact Hst.
    + split; [exact E1|exact Hst].
Qed.

Lemma sorted_cut_left c p : sorted_strict (times p) -> sorted_strict (times (cut_left c p)).
Proof.
  induction p as [|[t0 v0] r IH]; intros Hs; [exact I|].
  destruct r as [|[t1 v1] r].
  - cbn [cut_left]. case_ltb c t0 E0; [exact I|]. case_eqb c t0 E1; exact I.
  - pose proof Hs as Hs'. destruct Hs' as [H01 Hst]. cbn [fst] in H01.
    rewrite cut_left_cons2. case_ltb c t0 E0; [exact I|]. case_eqb c t0 E1; [exact I|].
    case_leb t1 c E2.
    + destruct (cut_left_head c t1 v1 r E2) as [s Es]. specialize (IH Hst). rewrite Es in *.
      split; [exact H01|exact IH].
    + split; [cbn [fst]; lra|exact I].
Qed.

(* n-ary pointwise sum on a common grid T: fold of padd over resampled inputs *)
Definition zero_on (T : list Q) : pwl := tabulate (fun _ => 0) T.

Definition psum_on (T : list Q) (ps : list pwl) : pwl :=
  fold_right (fun p acc => padd (resample T p) acc) (zero_on T) ps.

Definition sum_eval (ps : list pwl) (t : Q) : Q :=
  fold_right (fun p acc => eval p t + acc) 0 ps.

Lemma eval_zero_on T t : eval (zero_on T) t == 0.
Proof.
  unfold zero_on. induction T as [|a T IH]; [reflexivity|].
  destruct T as [|b T].
  - cbn [tabulate map]. rewrite eval_single. qb; reflexivity.
  - change (tabulate (fun _ : Q => 0) (a :: b :: T))
      with ((a, 0) :: (b, 0) :: tabulate (fun _ : Q => 0) T).
    rewrite eval_cons2.
    change ((b, 0) :: tabulate (fun _ : Q => 0) T) with (tabulate (fun _ : Q => 0) (b :: T)).
    qb; [reflexivity|apply interp_const|exact IH].
Qed.

Lemma times_zero_on T : times (zero_on T) = T.
Proof. apply times_tabulate. Qed.

Lemma times_psum_on T ps : times (psum_on T ps) = T.
Proof.
  induction ps as [|p ps IH]; [apply times_zero_on|].
  cbn [psum_on fold_right]. fold (psum_on T ps).
  rewrite times_padd; rewrite times_resample; [reflexivity|symmetry; exact IH].
Qed.

(* the sum of resampled inputs is the pointwise sum, for any number of inputs *)
Theorem eval_psum_on T ps :
  sorted_strict T ->
  (forall p, In p ps ->
     sorted_strict (times p) /\ (forall c, In c (times p) -> InQ c T) /\
     (vfirst p == 0 \/ tfirst p <= hd 0 T) /\ (vlast p == 0 \/ last T 0 <= tlast p)) ->
  forall t, eval (psum_on T ps) t == sum_eval ps t.
Proof.
  intros HT. induction ps as [|p ps IH]; intros H t.
  - cbn [psum_on sum_eval fold_right]. apply eval_zero_on.
  - cbn [psum_on sum_eval fold_right]. fold (psum_on T ps). fold (sum_eval ps t).
    rewrite eval_padd by (rewrite times_resample, times_psum_on; reflexivity).
    destruct (H p (or_introl eq_refl)) as (H1 & H2 & H3 & H4).
    rewrite eval_resample by assumption.
    rewrite IH; [reflexivity|]. intros q Hq. apply H. right. exact Hq.
Qed.

(* ========================================================================================== *)
(* ROUND 2 ADDITIONS (append only)

   Antiderivative
     antideriv p t            := area (cut_left t p)     the integral of p from -inf to t
                                 (Model/KSpace.v has an executable [prim] with
                                  PrimProofs.prim_cut : prim p c == area (cut_left c p) = antideriv p c)
     area_between a b p       := area (cut_right a (cut_left b p))
     cut_left_lt_first, cut_left_first, cut_left_all, area_cut_left_twice
     antideriv_before : t <= tfirst p -> antideriv p t == 0
     antideriv_total  : sorted -> tlast p <= t -> antideriv p t == area p
     antideriv_diff   : sorted -> a <= b -> antideriv p b - antideriv p a == area_between a b p
   Corner-level bounds lifted to all times (same shape as Limits.corners_within / Limits.segs_within)
     corner_bound G p         := Forall (fun tv => Qabs (snd tv) <= G) p
     seg_bound S p            every segment has |v1 - v0| <= S * (t1 - t0)
     max_abs_le, max_slope_le, seg_bound_nonneg
     corner_bound_everywhere  : 0 <= G -> corner_bound G p -> forall t, Qabs (eval p t) <= G
     corner_bound_everywhere_ne : p <> [] -> corner_bound G p -> forall t, Qabs (eval p t) <= G
     seg_bound_everywhere     : sorted -> seg_bound S p -> inside p t -> inside p u ->
                                Qabs (eval p t - eval p u) <= S * Qabs (t - u)
     within_corners_implies_everywhere : both together
*)

Lemma cut_left_lt_first c p : c < tfirst p -> cut_left c p = [].
Proof.
  destruct p as [|[t0 v0] r]; [reflexivity|]. cbn [tfirst cut_left]. intro H.
  case_ltb c t0 E; [reflexivity|lra].
Qed.

Lemma cut_left_first c p : cut_left c p = [] \/ tfirst (cut_left c p) = tfirst p.
Proof.
  destruct p as [|[t0 v0] r]; [left; reflexivity|]. cbn [cut_left].
  case_ltb c t0 E0; [left; reflexivity|]. right.
  case_eqb c t0 E1; [reflexivity|].
  destruct r as [|[t1 v1] r]; [reflexivity|]. case_leb t1 c E2; reflexivity.
Qed.

Lemma cut_left_all p : forall t, sorted_strict (times p) -> tlast p <= t -> cut_left t p = p.
Proof.
  induction p as [|[t0 v0] r IH]; intros t Hs Ht; [reflexivity|].
  destruct r as [|[t1 v1] r].
  - cbn in Ht. cbn [cut_left]. case_ltb t t0 E0; [lra|]. case_eqb t t0 E1; reflexivity.
  - rewrite tlast_cons2 in Ht. pose proof Hs as Hs'. destruct Hs' as [H01 Hst]. cbn [fst] in H01.
    pose proof (tfirst_le_tlast _ Hst) as HL. cbn [tfirst] in HL.
    rewrite cut_left_cons2. case_ltb t t0 E0; [lra|]. case_eqb t t0 E1; [lra|].
    case_leb t1 t E2; [|lra]. rewrite (IH t Hst Ht). reflexivity.
Qed.

Lemma area_single tv : area [tv] = 0.
Proof. destruct tv. reflexivity. Qed.

Lemma area_cut_left_twice p : forall a b, sorted_strict (times p) -> a <= b ->
  area (cut_left a (cut_left b p)) == area (cut_left a p).
Proof.
  induction p as [|[t0 v0] r IH]; intros a b Hs Hab; [reflexivity|].
  destruct (Qlt_le_dec a t0) as [A0|A0].
  { (* a left of everything *)
    rewrite (cut_left_lt_first a ((t0, v0) :: r)) by (cbn [tfirst]; exact A0).
    destruct (cut_left_first b ((t0, v0) :: r)) as [E|E].
    - rewrite E. reflexivity.
    - rewrite cut_left_lt_first; [reflexivity|]. rewrite E. cbn [tfirst]. exact A0. }
  destruct (cut_left_head b t0 v0 r ltac:(lra)) as [s Es].
  destruct (Qeq_dec a t0) as [A1|A1].
  { (* a at the first corner: both sides are the single corner *)
    rewrite Es.
    assert (E1 : cut_left a ((t0, v0) :: s) = [(t0, v0)]).
    { cbn [cut_left]. case_ltb a t0 E; [lra|]. case_eqb a t0 E'; [reflexivity|contradiction]. }
    assert (E2 : cut_left a ((t0, v0) :: r) = [(t0, v0)]).
    { cbn [cut_left]. case_ltb a t0 E; [lra|]. case_eqb a t0 E'; [reflexivity|contradiction]. }
    rewrite E1, E2. reflexivity. }
  assert (A2 : t0 < a) by lra.
  destruct r as [|[t1 v1] r].
  { (* single corner *)
    cbn [cut_left]. case_ltb b t0 B0; [lra|]. case_eqb b t0 B1; [lra|].
    cbn [cut_left]. reflexivity. }
  pose proof Hs as Hs'. destruct Hs' as [H01 Hst]. cbn [fst] in H01.
  rewrite (cut_left_cons2 b), (cut_left_cons2 a).
  case_ltb b t0 B0; [lra|]. case_eqb b t0 B1; [lra|].
  case_ltb a t0 A3; [lra|]. case_eqb a t0 A4; [contradiction|].
  case_leb t1 b B2.
  - destruct (cut_left_head b t1 v1 r B2) as [s1 Es1]. rewrite Es1.
    rewrite cut_left_cons2. case_ltb a t0 A5; [lra|]. case_eqb a t0 A6; [contradiction|].
    case_leb t1 a A7; [|reflexivity].
    destruct (cut_left_head a t1 v1 s1 A7) as [s2 Es2].
    destruct (cut_left_head a t1 v1 r A7) as [s3 Es3].
    specialize (IH a b Hst Hab). rewrite Es1, Es2, Es3 in IH.
    rewrite Es2, Es3, !area_cons2, IH. reflexivity.
  - (* b inside the first segment, hence a too *)
    case_leb t1 a A7; [lra|].
    rewrite cut_left_cons2. case_ltb a t0 A5; [lra|]. case_eqb a t0 A6; [contradiction|].
    case_leb b a A8.
    + assert (Eab : a == b) by lra.
      assert (E1 : cut_left a [(b, interp t0 v0 t1 v1 b)] = [(b, interp t0 v0 t1 v1 b)]).
      { cbn [cut_left]. case_ltb a b E; [lra|]. case_eqb a b E'; [reflexivity|contradiction]. }
      rewrite E1, !area_cons2, !area_single. rewrite Eab. reflexivity.
    + rewrite !area_cons2, !area_single. rewrite interp_cut_l by lra. reflexivity.
Qed.

Definition antideriv (p : pwl) (t : Q) : Q := area (cut_left t p).
Definition area_between (a b : Q) (p : pwl) : Q := area (cut_right a (cut_left b p)).

Theorem antideriv_before p t : t <= tfirst p -> antideriv p t == 0.
Proof.
  unfold antideriv. destruct p as [|[t0 v0] r]; [reflexivity|]. cbn [tfirst cut_left]. intro H.
  case_ltb t t0 E0; [reflexivity|]. case_eqb t t0 E1; [reflexivity|lra].
Qed.

Theorem antideriv_total p t : sorted_strict (times p) -> tlast p <= t -> antideriv p t == area p.
Proof. intros Hs Ht. unfold antideriv. rewrite (cut_left_all p t Hs Ht). reflexivity. Qed.

(* prim_diff of DESIGN.md section 6 *)
Theorem antideriv_diff p a b : sorted_strict (times p) -> a <= b ->
  antideriv p b - antideriv p a == area_between a b p.
Proof.
  intros Hs Hab. unfold antideriv, area_between.
  pose proof (area_cut a (cut_left b p) (sorted_cut_left b p Hs)) as H.
  rewrite (area_cut_left_twice p a b Hs Hab) in H. lra.
Qed.

(* ------------------------------------------------------------------------------------------ *)
(* corner-level bounds imply the bounds at every time *)

Definition corner_bound (G : Q) (p : pwl) : Prop := Forall (fun tv => Qabs (snd tv) <= G) p.

Fixpoint seg_bound (S : Q) (p : list (Q * Q)) : Prop :=
  match p with
  | (t0, v0) :: (((t1, v1) :: _) as r) => Qabs (v1 - v0) <= S * (t1 - t0) /\ seg_bound S r
  | _ => True
  end.

Lemma seg_bound_cons2 S t0 v0 t1 v1 r :
  seg_bound S ((t0, v0) :: (t1, v1) :: r) <->
  Qabs (v1 - v0) <= S * (t1 - t0) /\ seg_bound S ((t1, v1) :: r).
Proof. reflexivity. Qed.

Lemma max_abs_le G p : 0 <= G -> corner_bound G p -> max_abs p <= G.
Proof.
  intros HG H. induction H as [|[t v] r Hv Hr IH]; [exact HG|].
  cbn [max_abs]. apply Qmax_le_iff. split; [exact Hv|exact IH].
Qed.

Theorem corner_bound_everywhere G p : 0 <= G -> corner_bound G p -> forall t, Qabs (eval p t) <= G.
Proof.
  intros HG H t. eapply Qle_trans; [apply amp_bound|]. apply max_abs_le; assumption.
Qed.

Theorem corner_bound_everywhere_ne G p : p <> [] -> corner_bound G p -> forall t, Qabs (eval p t) <= G.
Proof.
  intros Hne H. apply corner_bound_everywhere; [|exact H].
  destruct p as [|[t v] r]; [congruence|]. inversion H; subst. cbn [snd] in *.
  pose proof (Qabs_nonneg v). lra.
Qed.

Lemma seg_slope_le S t0 v0 t1 v1 : t0 < t1 -> Qabs (v1 - v0) <= S * (t1 - t0) ->
  Qabs (slope t0 v0 t1 v1) <= S.
Proof.
  intros H01 H. unfold slope. rewrite Qabs_Qmult.
  assert (Hd : 0 < / (t1 - t0)) by (apply Qinv_lt_0_compat; lra).
  rewrite (Qabs_pos (/ (t1 - t0))) by lra.
  assert (E : S == S * (t1 - t0) * / (t1 - t0)) by (field; lra).
  rewrite E. apply Qmult_le_compat_r; lra.
Qed.

Lemma seg_bound_nonneg S t0 v0 t1 v1 r : t0 < t1 -> seg_bound S ((t0, v0) :: (t1, v1) :: r) -> 0 <= S.
Proof.
  intros H01 [H _]. pose proof (Qabs_nonneg (v1 - v0)) as Hn.
  destruct (Qlt_le_dec S 0) as [Hneg|Hpos]; [|exact Hpos].
  exfalso. assert (P : 0 < (- S) * (t1 - t0)) by (apply Qmult_lt_0_compat; lra). lra.
Qed.

Lemma max_slope_le S p : 0 <= S -> sorted_strict (times p) -> seg_bound S p -> max_slope p <= S.
Proof.
  intros HS. induction p as [|[t0 v0] r IH]; intros Hs H; [exact HS|].
  destruct r as [|[t1 v1] r]; [exact HS|].
  pose proof Hs as Hs'. destruct Hs' as [H01 Hst]. cbn [fst] in H01.
  apply seg_bound_cons2 in H. destruct H as [H1 H2].
  rewrite max_slope_cons2. apply Qmax_le_iff. split.
  - apply seg_slope_le; assumption.
  - apply IH; assumption.
Qed.

Theorem seg_bound_everywhere S p : sorted_strict (times p) -> seg_bound S p ->
  forall t u, inside p t -> inside p u -> Qabs (eval p t - eval p u) <= S * Qabs (t - u).
Proof.
  intros Hs H t u Ht Hu.
  destruct p as [|[t0 v0] [|[t1 v1] r]].
  - destruct Ht as [A B], Hu as [C D]. cbn in A, B, C, D.
    assert (E : t - u == 0) by lra. rewrite E, !eval_nil.
    setoid_replace (Qabs (0 - 0)) with 0 by reflexivity. change (Qabs 0) with 0. lra.
  - destruct Ht as [A B], Hu as [C D]. cbn in A, B, C, D.
    assert (E : t == u) by lra. rewrite E.
    setoid_replace (eval [(t0, v0)] u - eval [(t0, v0)] u) with 0 by ring.
    setoid_replace (u - u) with 0 by ring. change (Qabs 0) with 0. lra.
  - pose proof Hs as Hs'. destruct Hs' as [H01 _]. cbn [fst] in H01.
    pose proof (seg_bound_nonneg S _ _ _ _ _ H01 H) as HS.
    eapply Qle_trans; [apply slope_bound; assumption|].
    apply Qmult_le_compat_r; [|apply Qabs_nonneg].
    apply max_slope_le; assumption.
Qed.

Theorem within_corners_implies_everywhere G S p :
  0 <= G -> sorted_strict (times p) -> corner_bound G p -> seg_bound S p ->
  (forall t, Qabs (eval p t) <= G) /\
  (forall t u, inside p t -> inside p u -> Qabs (eval p t - eval p u) <= S * Qabs (t - u)).
Proof.
  intros HG Hs Hc Hseg. split.
  - apply corner_bound_everywhere; assumption.
  - apply seg_bound_everywhere; assumption.
Qed.
