(* Base/QUtil.v — rational helpers: rounding (half-to-even, floor, ceil), absolute value facts.
   Executable definitions AND their lemmas (small file, shared by every model). *)
From Coq Require Import ZArith QArith Qround Qabs Lia Lqa List Bool.
Import ListNotations.
Open Scope Q_scope.

Definition Qhalf : Q := 1 # 2.

(* round half to even: np.round / Python round() on a real number *)
Definition rnd_he (q : Q) : Z :=
  let f := Qfloor q in
  let r := q - inject_Z f in
  match Qcompare r Qhalf with
  | Lt => f
  | Gt => (f + 1)%Z
  | Eq => if Z.even f then f else (f + 1)%Z
  end.

(* round half away from zero is not used by the code base; ceil: *)
Definition ceilQ (q : Q) : Z := Qceiling q.
Definition floorQ (q : Q) : Z := Qfloor q.

Definition Qmax (a b : Q) : Q := if Qle_bool a b then b else a.
Definition Qmin (a b : Q) : Q := if Qle_bool a b then a else b.
Definition Qleb := Qle_bool.
Definition Qltb (a b : Q) : bool := negb (Qle_bool b a).
Definition Qeqb := Qeq_bool.

Lemma Qltb_lt a b : Qltb a b = true <-> a < b.
Proof.
  unfold Qltb. rewrite negb_true_iff. split; intro H.
  - apply Qnot_le_lt. intro Hle. apply Qle_bool_iff in Hle. congruence.
  - destruct (Qle_bool b a) eqn:E; [|reflexivity]. apply Qle_bool_iff in E. lra.
Qed.

Lemma Qleb_le a b : Qleb a b = true <-> a <= b.
Proof. apply Qle_bool_iff. Qed.

Lemma Qmax_ub_l a b : a <= Qmax a b.
Proof. unfold Qmax. destruct (Qle_bool a b) eqn:E; [apply Qle_bool_iff in E; lra|lra]. Qed.
Lemma Qmax_ub_r a b : b <= Qmax a b.
Proof. unfold Qmax. destruct (Qle_bool a b) eqn:E; [lra|].
  assert (~ a <= b) by (intro H; apply Qle_bool_iff in H; congruence). lra. Qed.
Lemma Qmax_case a b : Qmax a b = a \/ Qmax a b = b.
Proof. unfold Qmax. destruct (Qle_bool a b); auto. Qed.

Lemma Qfloor_frac (q : Q) : 0 <= q - inject_Z (Qfloor q) /\ q - inject_Z (Qfloor q) < 1.
Proof.
  pose proof (Qfloor_le q). pose proof (Qlt_floor q).
  rewrite inject_Z_plus in H0. change (inject_Z 1) with 1 in H0. lra.
Qed.

Lemma rnd_he_err (q : Q) : Qabs (q - inject_Z (rnd_he q)) <= Qhalf.
Proof.
  unfold rnd_he. pose proof (Qfloor_frac q) as [H0 H1].
  set (f := Qfloor q) in *. unfold Qhalf in *.
  destruct (Qcompare (q - inject_Z f) (1 # 2)) eqn:E.
  - apply Qeq_alt in E. destruct (Z.even f).
    + apply Qabs_Qle_condition. lra.
    + rewrite inject_Z_plus. change (inject_Z 1) with 1. apply Qabs_Qle_condition. lra.
  - apply Qlt_alt in E. apply Qabs_Qle_condition. lra.
  - apply Qgt_alt in E. rewrite inject_Z_plus. change (inject_Z 1) with 1.
    apply Qabs_Qle_condition. lra.
Qed.

Lemma Qfloor_unique (q : Q) (z : Z) : inject_Z z <= q -> q < inject_Z z + 1 -> Qfloor q = z.
Proof.
  intros H1 H2.
  pose proof (Qfloor_le q) as F1. pose proof (Qlt_floor q) as F2.
  rewrite inject_Z_plus in F2. change (inject_Z 1) with 1 in F2.
  assert (A : inject_Z (Qfloor q) < inject_Z z + 1) by lra.
  assert (B : inject_Z z < inject_Z (Qfloor q) + 1) by lra.
  change 1 with (inject_Z 1) in A, B. rewrite <- inject_Z_plus in A, B.
  rewrite <- Zlt_Qlt in A, B. lia.
Qed.

(* a value within 1/2 of zero rounds to zero (ties go to the even integer 0) *)
Lemma rnd_he_small (q : Q) : Qabs q <= Qhalf -> rnd_he q = 0%Z.
Proof.
  intro H. apply Qabs_Qle_condition in H. unfold Qhalf in *. destruct H as [Hl Hu].
  unfold rnd_he.
  destruct (Qlt_le_dec q 0) as [Hneg|Hpos].
  - assert (F : Qfloor q = (-1)%Z) by (apply Qfloor_unique; unfold inject_Z; lra).
    rewrite F. change (inject_Z (-1)) with (-1). unfold Qhalf.
    destruct (Qcompare (q - -1) (1 # 2)) eqn:E.
    + reflexivity.
    + apply Qlt_alt in E. lra.
    + reflexivity.
  - assert (F : Qfloor q = 0%Z) by (apply Qfloor_unique; unfold inject_Z; lra).
    rewrite F. change (inject_Z 0) with 0. unfold Qhalf.
    destruct (Qcompare (q - 0) (1 # 2)) eqn:E.
    + reflexivity.
    + reflexivity.
    + apply Qgt_alt in E. lra.
Qed.

Lemma rnd_he_inject (z : Z) : rnd_he (inject_Z z) = z.
Proof.
  unfold rnd_he. rewrite Qfloor_Z.
  assert (E : Qcompare (inject_Z z - inject_Z z) Qhalf = Lt).
  { apply Qlt_alt. setoid_replace (inject_Z z - inject_Z z) with 0 by ring. reflexivity. }
  rewrite E. reflexivity.
Qed.

Global Instance rnd_he_Proper : Proper (Qeq ==> eq) rnd_he.
Proof.
  intros a b H. unfold rnd_he. rewrite (Qfloor_comp _ _ H).
  assert (E : Qcompare (a - inject_Z (Qfloor b)) Qhalf = Qcompare (b - inject_Z (Qfloor b)) Qhalf).
  { apply Qcompare_comp; [rewrite H; reflexivity|reflexivity]. }
  rewrite E. reflexivity.
Qed.

(* integer translation invariance is NOT needed by C14; rnd_he_err and rnd_he_small are. *)

Lemma Qabs_le_iff (x y : Q) : Qabs x <= y <-> - y <= x /\ x <= y.
Proof. apply Qabs_Qle_condition. Qed.
