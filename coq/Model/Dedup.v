(* Model/Dedup.v — the rounding functions of Sequence.remove_duplicates instantiated with the
   digit tuples read from the source (Gen/GenDedup.v). *)
From Coq Require Import List ZArith QArith Qcanon.
From PV Require Import Base.QUtil Base.Round Gen.GenDedup Model.EventLib Model.Seq.
Import ListNotations.

Definition qc_row (f : list Q -> list Q) (k : key) : key := map Q2Qc (f (map this k)).
Definition rnd_shape_key : key -> key := qc_row (round_all dedup_digits_shape).
Definition rnd_grad_key : key -> key := qc_row (round_row dedup_digits_grad).
Definition rnd_rf_key : key -> key := qc_row (round_row dedup_digits_rf).
Definition rnd_adc_key : key -> key := qc_row (round_row dedup_digits_adc).

Definition seq_step (cache_on abs_fix : bool) := step cache_on abs_fix rnd_shape_key rnd_grad_key rnd_rf_key rnd_adc_key.
Definition seq_run (cache_on abs_fix : bool) := run cache_on abs_fix rnd_shape_key rnd_grad_key rnd_rf_key rnd_adc_key.
Definition seq_dedup := dedup_core rnd_shape_key rnd_grad_key rnd_rf_key rnd_adc_key.
