(* Model/Pns.v — Sequence/calc_pns.py + utils/safe_pns_prediction.py (SAFE model) as total functions
   over Q.  Executable definitions only; lemmas are in Proofs/PnsProofs.v.
   Constants (alpha expression, branch table of safe_pns_model, percent factors, padding arithmetic,
   raster-centre offset, slack, teps, strictness of `ok`) come from Gen/GenPns.v, re-read from the
   source on every run.
   Outside the model (inputs of the model, supplied by the harness): the corner lists of the
   gradient waveform (Sequence.waveforms, property C08), the tap counts
   n = min(round(log(eps)/log(1-alpha)), N) of safe_tau_lowpass (np.log), and sqrt (the model works
   with the squared norm). *)
From Coq Require Import ZArith QArith Qround Qabs List Bool Arith.
From PV Require Import Base.QUtil Gen.GenPns.
Import ListNotations.
Open Scope Q_scope.

(* ---------------------------------------------------------------------------------------------- *)
(* hardware description of one axis (safe_example_hw: hw.x / hw.y / hw.z) *)
Record hwax := mkHw {
  tau1 : Q; tau2 : Q; tau3 : Q;           (* ms *)
  a1 : Q; a2 : Q; a3 : Q;
  stim_limit : Q; stim_thresh : Q; g_scale : Q }.

Definition hw_a (h : hwax) (i : nat) : Q :=
  match i with 1%nat => a1 h | 2%nat => a2 h | 3%nat => a3 h | _ => 0 end.
Definition hw_tau (h : hwax) (i : nat) : Q :=
  match i with 1%nat => tau1 h | 2%nat => tau2 h | 3%nat => tau3 h | _ => 0 end.

Definition zeros (n : nat) : list Q := repeat 0 n.

Fixpoint zipw (f : Q -> Q -> Q) (l1 l2 : list Q) : list Q :=
  match l1, l2 with
  | a :: r1, b :: r2 => f a b :: zipw f r1 r2
  | _, _ => []
  end.
Definition ladd := zipw Qplus.

(* ---------------------------------------------------------------------------------------------- *)
(* get_gradients (sequence.py:779-789): zero flanks of width teps around the corner list, then a
   PPoly of linear pieces with extrapolate=True; the first and last piece are the constant 0. *)
Definition with_flanks (pts : list (Q * Q)) : list (Q * Q) :=
  match pts with
  | [] => []
  | (t0, _) :: _ =>
    let tl := fst (last pts (0, 0)) in
    (t0 - 2 * teps, 0) :: (t0 - teps, 0) :: pts ++ [(tl + teps, 0); (tl + 2 * teps, 0)]
  end.

(* PPoly evaluation: piece i is c0*(t - x_i) + c1 with c0 = diff(v)/diff(x), c1 = v_i, valid on
   [x_i, x_{i+1}); left of x_0 the first piece, right of the last break point the last piece. *)
Fixpoint ppoly_go (t0 v0 : Q) (rest : list (Q * Q)) (t : Q) : Q :=
  match rest with
  | [] => 0                                           (* unreachable: called with >= 1 piece *)
  | (t1, v1) :: rest' =>
    match rest' with
    | [] => (v1 - v0) / (t1 - t0) * (t - t0) + v0     (* last piece, also used beyond t1 *)
    | _ => if Qltb t t1 then (v1 - v0) / (t1 - t0) * (t - t0) + v0 else ppoly_go t1 v1 rest' t
    end
  end.
Definition ppoly_eval (pts : list (Q * Q)) (t : Q) : Q :=
  match pts with
  | [] => 0
  | (t0, v0) :: rest => ppoly_go t0 v0 rest t
  end.
Definition grad_pp (pts : list (Q * Q)) (t : Q) : Q := ppoly_eval (with_flanks pts) t.
Definition pp_end (pts : list (Q * Q)) : Q := fst (last (with_flanks pts) (0, 0)).   (* g.x[-1] *)

(* calc_pns.py:56-57: t = (arange(nt) + 0.5) * dt *)
Definition centre (dt : Q) (k : nat) : Q := (inject_Z (Z.of_nat k) + centre_offset) * dt.
Definition centres (dt : Q) (nt : nat) : list Q := map (centre dt) (seq 0 nt).
(* calc_pns.py:64-67: gw[:, i] = gw_pp[i](t) *)
Definition sample (f : Q -> Q) (dt : Q) (nt : nat) : list Q := map f (centres dt nt).

(* calc_pns.py:52,56: max_t = max(g.x[-1]) - 1e-10; nt = int(ceil(max_t / dt)) *)
Definition num_samples (xend dt : Q) : nat := Z.to_nat (Qceiling ((xend - maxt_slack) / dt)).

(* ---------------------------------------------------------------------------------------------- *)
(* safe_gwf_to_pns (safe_pns_prediction.py:310-320) *)
Definition to_tesla (gamma : Q) (g : list Q) : list Q := map (fun x => x / gamma) g.   (* gw / gamma *)
Definition pad (p1 p2 : nat) (g : list Q) : list Q := zeros p1 ++ g ++ zeros p2.        (* np.pad *)
Fixpoint diffq (l : list Q) : list Q :=                                                (* np.diff *)
  match l with
  | a :: ((b :: _) as t) => (b - a) :: diffq t
  | _ => []
  end.
Definition dgdt (dt : Q) (l : list Q) : list Q := map (fun d => d / dt) (diffq l).

Definition Qmax_list (l : list Q) : Q := fold_right Qmax 0 l.
(* safe_longest_time_const; all time constants are positive, so the fold's 0 start is invisible *)
Definition longest_tau (hx hy hz : hwax) : Q :=
  Qmax_list [tau1 hx; tau2 hx; tau3 hx; tau1 hy; tau2 hy; tau3 hy; tau1 hz; tau2 hz; tau3 hz].
Definition zpt (hx hy hz : hwax) : Q := longest_tau hx hy hz * zpt_mul / zpt_div.
(* Python round(): half to even; np.pad rejects negative widths (unreachable for positive taus) *)
(* padK_min is 0 for the plain `round(...)`; a repaired `max(round(...), m)` gives m *)
Definition pad1_of (hx hy hz : hwax) (dt : Q) : nat :=
  Nat.max (Z.to_nat (rnd_he (zpt hx hy hz / pad1_div / dt))) pad1_min.
Definition pad2_of (hx hy hz : hwax) (dt : Q) : nat :=
  Nat.max (Z.to_nat (rnd_he (zpt hx hy hz / pad2_div / dt))) pad2_min.

(* ---------------------------------------------------------------------------------------------- *)
(* safe_tau_lowpass (safe_pns_prediction.py:279-286):
     filt = (1 - alpha) ** arange(n);  alpha * np.convolve(x, filt)[:len x]
   np.convolve(x, w)[k] = sum_j w[j] * x[k-j]; [hist] is x[k], x[k-1], ..., x[0]. *)
Fixpoint powers_from (c r : Q) (n : nat) : list Q :=
  match n with O => [] | S n' => c :: powers_from (Qred (c * r)) r n' end.
Definition filt (alpha : Q) (n : nat) : list Q := powers_from 1 (1 - alpha) n.
Fixpoint dotp (w h : list Q) : Q :=
  match w, h with
  | a :: w', b :: h' => Qred (a * b + dotp w' h')       (* Qred: same rational, reduced (speed only) *)
  | _, _ => 0
  end.
(* causal scan: output k is f (x[k] :: x[k-1] :: ... :: x[0] ++ hist) *)
Fixpoint scan (f : list Q -> Q) (hist x : list Q) : list Q :=
  match x with
  | [] => []
  | a :: x' => f (a :: hist) :: scan f (a :: hist) x'
  end.
Definition lowpass_fir (alpha : Q) (n : nat) (x : list Q) : list Q :=
  scan (fun h => Qred (alpha * dotp (filt alpha n) h)) [] x.

(* the recursive first-order low-pass  y_k = alpha*x_k + (1-alpha)*y_{k-1},  y_{-1} = 0 *)
Fixpoint iir_go (alpha y : Q) (x : list Q) : list Q :=
  match x with
  | [] => []
  | a :: x' => let y' := Qred (alpha * a + (1 - alpha) * y) in y' :: iir_go alpha y' x'
  end.
Definition lowpass_iir (alpha : Q) (x : list Q) : list Q := iir_go alpha 0 x.

(* the same truncated FIR written as a difference of two recursive filters (proved equal to
   lowpass_fir for all inputs: PnsProofs.fir_fast_eq); used to run larger cases in the extracted
   model, where the convolution form is quadratic in big rationals *)
Definition shiftr (n : nat) (l : list Q) : list Q := firstn (length l) (zeros n ++ l).
Definition lowpass_fast (alpha : Q) (n : nat) (x : list Q) : list Q :=
  let y := lowpass_iir alpha x in
  let rn := Qred (Qpower (1 - alpha) (Z.of_nat n)) in
  zipw (fun a b => Qred (a - rn * b)) y (shiftr n y).

(* ---------------------------------------------------------------------------------------------- *)
(* safe_pns_model (safe_pns_prediction.py:244-250), one axis.  [lp] is the low-pass used. *)
Definition branch_out (lp : Q -> nat -> list Q -> list Q) (h : hwax) (dtms : Q) (b : branch) (n : nat)
           (x : list Q) : list Q :=
  let xin := if b_abs_in b then map Qabs x else x in
  let y := lp (alpha_of dtms (hw_tau h (b_tau b))) n xin in
  let yo := if b_abs_out b then map Qabs y else y in
  map (Qmult (hw_a h (b_weight b))) yo.

Fixpoint stim_sum (lp : Q -> nat -> list Q -> list Q) (h : hwax) (dtms : Q) (bs : list branch)
         (taps : list nat) (x : list Q) : list Q :=
  match bs with
  | [] => zeros (length x)
  | b :: bs' => ladd (branch_out lp h dtms b (hd O taps) x) (stim_sum lp h dtms bs' (tl taps) x)
  end.

Definition pns_model (lp : Q -> nat -> list Q -> list Q) (h : hwax) (dt : Q) (taps : list nat)
           (x : list Q) : list Q :=
  map (fun s => Qred (s / stim_limit h * g_scale h * pct)) (stim_sum lp h (dt * ms_factor) branches taps x).

(* calc_pns.py:82: rows i of pns with ~isfinite(rf_padded[i+1]); rf_padded = 0^pad1 nan^nt 0^pad2 *)
Definition rf_mask (p1 nt p2 : nat) : list bool :=
  tl (repeat false p1 ++ repeat true nt ++ repeat false p2).
Fixpoint select (mask : list bool) (l : list Q) : list Q :=
  match mask, l with
  | m :: mask', a :: l' => if m then a :: select mask' l' else select mask' l'
  | _, _ => []
  end.

(* one axis, from the sampled gradient (Hz/m) to the returned component column *)
Definition pns_axis (lp : Q -> nat -> list Q -> list Q) (h : hwax) (gamma dt : Q) (p1 p2 : nat)
           (taps : list nat) (g : list Q) : list Q :=
  let gw := pad p1 p2 (to_tesla gamma g) in
  let pns := pns_model lp h dt taps (dgdt dt gw) in
  map (Qmult unpct) (select (rf_mask p1 (length g) p2) pns).

(* the same without any padding: slew rate of the waveform preceded by one zero sample *)
Definition pns_direct (lp : Q -> nat -> list Q -> list Q) (h : hwax) (gamma dt : Q)
           (taps : list nat) (g : list Q) : list Q :=
  map (Qmult unpct) (pns_model lp h dt taps (dgdt dt (0 :: to_tesla gamma g))).

(* ---------------------------------------------------------------------------------------------- *)
(* calc_pns.py:85-86: pns_norm = sqrt(sum of squares); ok = all(pns_norm < 1).  The model keeps the
   square and compares with limit^2 (limit >= 0). *)
Fixpoint normsq3 (x y z : list Q) : list Q :=
  match x, y, z with
  | a :: x', b :: y', c :: z' => Qred (a * a + b * b + c * c) :: normsq3 x' y' z'
  | _, _, _ => []
  end.
Definition below (s : Q) : bool :=
  if ok_strict then Qltb s (ok_limit * ok_limit) else Qleb s (ok_limit * ok_limit).
Definition ok_of (nsq : list Q) : bool := forallb below nsq.

Inductive pns_err := ErrNoGradient | ErrWeights | ErrEmptyFilter.
Inductive result (A : Type) := OK (a : A) | Err (e : pns_err).
Arguments OK {A} _.
Arguments Err {A} _.

Record pns_out := mkOut { o_ok : bool; o_normsq : list Q; o_x : list Q; o_y : list Q; o_z : list Q }.

(* safe_hw_check (safe_pns_prediction.py:197-202) *)
Definition weights_bad (h : hwax) : bool := Qltb hw_weight_tol (Qabs (a1 h + a2 h + a3 h - 1)).

Definition opt_end (w : option (list (Q * Q))) : list Q :=
  match w with Some pts => [pp_end pts] | None => [] end.
Definition opt_sample (w : option (list (Q * Q))) (dt : Q) (nt : nat) : list Q :=
  match w with Some pts => sample (grad_pp pts) dt nt | None => zeros nt end.

(* calc_pns with time_range = None, do_plots = False, hardware given as an object.
   wx wy wz: corner lists of Sequence.waveforms() per channel (None: no gradient on the channel);
   tx ty tz: tap counts of the three filters of each axis. *)
Definition calc_pns (lp : Q -> nat -> list Q -> list Q) (gamma dt : Q) (hx hy hz : hwax)
           (wx wy wz : option (list (Q * Q))) (tx ty tz : list nat) : result pns_out :=
  match opt_end wx ++ opt_end wy ++ opt_end wz with
  | [] => Err ErrNoGradient                                (* max() of an empty sequence *)
  | e :: es =>
    let xend := fold_right Qmax e es in
    let nt := num_samples xend dt in
    if weights_bad hx || weights_bad hy || weights_bad hz then Err ErrWeights
    else if existsb (Nat.eqb 0) (firstn 3 tx ++ firstn 3 ty ++ firstn 3 tz) then Err ErrEmptyFilter
    else
      let p1 := pad1_of hx hy hz dt in
      let p2 := pad2_of hx hy hz dt in
      let cx := pns_axis lp hx gamma dt p1 p2 tx (opt_sample wx dt nt) in
      let cy := pns_axis lp hy gamma dt p1 p2 ty (opt_sample wy dt nt) in
      let cz := pns_axis lp hz gamma dt p1 p2 tz (opt_sample wz dt nt) in
      let nsq := normsq3 cx cy cz in
      OK (mkOut (ok_of nsq) nsq cx cy cz)
  end.

(* ---------------------------------------------------------------------------------------------- *)
(* Round 2: the SAFE reference, the tap count, the truncation bound of the whole chain *)

(* safe_tau_lowpass:282  n = min(round(np.log(eps) / np.log(1 - alpha)), N).  np.log is outside the
   model; n is characterised by a rational bracket instead.  With x = log eps / log r (r = 1-alpha,
   so r^x = eps) and |round(x) - x| <= 1/2:  r^(n0+1) <= eps <= r^(n0-1) for n0 = round(x); the code
   then takes n = min(n0, N) (N = length of the padded slew-rate vector).  [tap_count_ok] is the
   decidable half of it that the error bound needs; the harness evaluates it on the implementation's n for every case. *)
Definition tap_count_ok (n N : nat) (alpha eps : Q) : bool :=
  let r := 1 - alpha in
  Nat.leb 1 n && Nat.leb n N && (Nat.eqb n N || Qle_bool (Qpower r (Z.of_nat (S n))) eps).
(* the other side of the bracket (the code does not use more taps than the accuracy asks for); not
   needed by any bound, reported by the harness only *)
Definition tap_count_tight (n : nat) (alpha eps : Q) : bool :=
  Qle_bool eps (Qpower (1 - alpha) (Z.of_nat (n - 1))).

Fixpoint taps_ok (h : hwax) (dtms : Q) (bs : list branch) (taps : list nat) (N : nat) : bool :=
  match bs with
  | [] => true
  | b :: bs' => tap_count_ok (hd O taps) N (alpha_of dtms (hw_tau h (b_tau b))) lowpass_eps
                && taps_ok h dtms bs' (tl taps) N
  end.

(* the SAFE model of the property text: three first-order (recursive) low-pass filters of the slew
   rate combined with the hardware weights, / stim_limit * g_scale, on the slew rate of the
   gradient (T/m) preceded by one zero sample *)
Definition lp_iir (alpha : Q) (_ : nat) (x : list Q) : list Q := lowpass_iir alpha x.
Definition safe_axis (h : hwax) (gamma dt : Q) (g : list Q) : list Q :=
  map (fun s => s / stim_limit h * g_scale h)
      (stim_sum lp_iir h (dt * ms_factor) branches [] (dgdt dt (0 :: to_tesla gamma g))).

(* truncation error of the weighted sum for slew rates bounded by M and a signal of L samples:
   a branch whose tap count covers the signal contributes nothing *)
Fixpoint trunc_bound (h : hwax) (dtms : Q) (bs : list branch) (taps : list nat) (L : nat) (M : Q) : Q :=
  match bs with
  | [] => 0
  | b :: bs' =>
    (if Nat.leb L (hd O taps) then 0
     else Qabs (hw_a h (b_weight b)) * (M * Qpower (1 - alpha_of dtms (hw_tau h (b_tau b))) (Z.of_nat (hd O taps))))
    + trunc_bound h dtms bs' (tl taps) L M
  end.
Fixpoint weight_sum (h : hwax) (bs : list branch) : Q :=
  match bs with [] => 0 | b :: bs' => Qabs (hw_a h (b_weight b)) + weight_sum h bs' end.

(* ---------------------------------------------------------------------------------------------- *)
(* Round 4: Sequence.mod_grad_axis(axis, c) / flip_grad_axis seen on the waveform of the axis: every
   amplitude of the corner list is multiplied by c, the corner times are unchanged. *)
Definition scale_pts (c : Q) (pts : list (Q * Q)) : list (Q * Q) := map (fun p => (fst p, c * snd p)) pts.
