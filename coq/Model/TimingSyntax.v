(* Model/TimingSyntax.v — the small vocabulary in which the translator plug-in
   harness/gensec/timing.py describes what it reads from check_timing.py, calc_duration.py,
   Sequence/block.py and Sequence/write_seq.py (Gen/GenTiming.v is stated in these types).
   Definitions only. *)
From Coq Require Import ZArith QArith List.
Import ListNotations.

(* which raster of `seq.system` a value is compared against *)
Inductive raster_id := RBlock | RRf | RGrad | RAdc.

(* attributes of events that occur in timing expressions; [A_samples_dwell] is the product
   `num_samples * dwell`, [A_t_last] is `t[-1]` (rf) / `tt[-1]` (gradient) *)
Inductive attr :=
| A_delay | A_shape_dur | A_ringdown_time | A_dead_time | A_rise_time | A_flat_time | A_fall_time
| A_duration | A_dwell | A_samples_dwell | A_t_last.

(* `event.type` strings: 'rf' 'grad' 'trap' 'adc' 'delay' 'output'/'trigger' 'labelset'/'labelinc' *)
Inductive ekind := KRf | KGrad | KTrap | KAdc | KDelay | KTrig | KLabel.

Inductive cmp := CLt | CLe | CGt | CGe.

(* terms of the linear comparisons of check_timing.py *)
Inductive term :=
| TAttr (a : attr)          (* attribute of the event under test *)
| TDur                      (* the local variable `duration` *)
| TStored                   (* seq.block_durations[block_counter] *)
| TSysAdcDead               (* seq.system.adc_dead_time *)
| TEps.                     (* pypulseq.eps *)

(* a signed sum: (true, t) adds t, (false, t) subtracts it *)
Definition lin := list (bool * term).

(* `lhs cmp rhs`, optionally with abs() around lhs *)
Record lintest := { lt_abs : bool; lt_lhs : lin; lt_cmp : cmp; lt_rhs : lin }.

(* the per-event checks inside the loop over block.__dict__ *)
Inductive guard := GHas (a : attr) | GKind (k : ekind).
Inductive echeck :=
| CNeg (a : attr) (t : lintest)              (* NEGATIVE_DELAY style test on field a *)
| CDiv (a : attr) (r : option raster_id).    (* div_check(e.a, raster): None = raster of the kind *)

Inductive errkind :=
| RASTER | NEGATIVE_DELAY | BLOCK_DURATION_MISMATCH | RF_DEAD_TIME | RF_RINGDOWN_TIME
| ADC_DEAD_TIME | POST_ADC_DEAD_TIME.

Definition attr_eqb (a b : attr) : bool :=
  match a, b with
  | A_delay, A_delay | A_shape_dur, A_shape_dur | A_ringdown_time, A_ringdown_time
  | A_dead_time, A_dead_time | A_rise_time, A_rise_time | A_flat_time, A_flat_time
  | A_fall_time, A_fall_time | A_duration, A_duration | A_dwell, A_dwell
  | A_samples_dwell, A_samples_dwell | A_t_last, A_t_last => true
  | _, _ => false
  end.

Definition ekind_eqb (a b : ekind) : bool :=
  match a, b with
  | KRf, KRf | KGrad, KGrad | KTrap, KTrap | KAdc, KAdc | KDelay, KDelay | KTrig, KTrig
  | KLabel, KLabel => true
  | _, _ => false
  end.
