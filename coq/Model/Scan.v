(* Model/Scan.v — the first/last reconstruction scan of read_seq.py:256-327 as a total function.

   The .seq format does not store the edge values of shape-based gradients.  After the sections are
   read, the reader walks over the blocks in order and, per channel, keeps `grad_prev_last[j]` = the
   value the previous block ended at; the first time an event is met it receives first := that
   value and last := the end value of its own waveform, and the library row is extended.  What the
   scan reads of an event (decoded by get_block, outside this model) is abstracted into [gev].
   The two booleans are the statements that differed between versions of the scan (Gen/GenScan.v
   reads which one the source has).  Executable definitions only. *)
From Coq Require Import List Bool ZArith QArith.
From PV Require Import Base.QUtil.
Import ListNotations.
Open Scope Q_scope.

Record gev := mkG {
  g_trap : bool;       (* grad_library.type == 't' *)
  g_delay : Q;         (* grad.delay *)
  g_dur : Q;           (* grad.delay + grad.tt[-1]  |  grad.delay + len(waveform) * grad_raster_time *)
  g_wlast : Q          (* waveform[-1]  |  (3 * waveform[-1] - waveform[-2]) * 0.5 *)
}.

Fixpoint zlookup {A} (l : list (Z * A)) (k : Z) : option A :=
  match l with
  | [] => None
  | (k', v) :: r => if (k' =? k)%Z then Some v else zlookup r k
  end.

Record sblock := mkB { b_dur : Q; b_ids : list Z }.      (* block duration, gradient ids of gx gy gz *)
Definition fltab := list (Z * (Q * Q)).                   (* id -> (first, last) already reconstructed *)

Section Scan.
Variable sets_on_done : bool.     (* read_seq.py:278 `grad_prev_last[j] = grad.last` present *)
Variable fix_shared : bool.       (* repair 8ae658b present *)
Variable eps : Q.
Variable lib : list (Z * gev).

(* one channel of one block.  [done0] = what the block decoded at the top of the loop body saw (the
   library as it was BEFORE this block), [earlier] = (id, new running value) of the channels already
   handled in this block, [p] = grad_prev_last[j] on entry.  Returns grad_prev_last[j] on exit. *)
Definition scan_channel (done0 : fltab) (earlier : list (Z * Q)) (bdur : Q) (id : Z) (p : Q) (done : fltab)
  : Q * fltab :=
  if (id =? 0)%Z then (0, done) else                                   (* :268-270 grad is None *)
  match zlookup lib id with
  | None => (0, done)                                                  (* get_block raises first *)
  | Some g =>
    if g_trap g then (0, done) else                                    (* :326-327 *)
    let p1 := if Qltb 0 (g_delay g) then 0 else p in                   (* :273-274 *)
    match zlookup done0 id with
    | Some fl => (if sets_on_done then snd fl else p1, done)           (* :277-279 *)
    | None =>
      match zlookup earlier id with                                    (* :282-289 *)
      | Some pe => (if fix_shared then pe else p1, done)
      | None =>
        let p' := if Qltb (g_dur g + eps) bdur then 0 else g_wlast g in        (* :306-311 *)
        (p', done ++ [(id, (p1, g_wlast g))])                          (* :293-302, :314-324 *)
      end
    end
  end.

Fixpoint scan_chs (done0 : fltab) (bdur : Q) (earlier : list (Z * Q)) (ids : list Z) (prevs : list Q)
         (done : fltab) : list Q * fltab :=
  match ids, prevs with
  | id :: ids', p :: prevs' =>
    let '(p', done') := scan_channel done0 earlier bdur id p done in
    let '(rest, done'') := scan_chs done0 bdur (earlier ++ [(id, p')]) ids' prevs' done' in
    (p' :: rest, done'')
  | _, _ => ([], done)
  end.

Definition scan_block (st : list Q * fltab) (b : sblock) : list Q * fltab :=
  scan_chs (snd st) (b_dur b) [] (b_ids b) (fst st) (snd st).

Definition scan_blocks (bs : list sblock) : list Q * fltab := fold_left scan_block bs ([0; 0; 0], []).
End Scan.
