(* Model/AddGrad.v — add_gradients.py and the parts of make_trapezoid.py, make_extended_trapezoid.py,
   make_arbitrary_grad.py, points_to_waveform.py, calc_duration.py it executes, as total functions
   over Q.  Executable definitions only.  Constants (eps, which paths forward the limit overrides)
   come from Gen/GenAddGrad.v (translated from source).  One channel only (the channel test of
   add_gradients.py:91 is not modelled; the harness uses one channel). *)
From Coq Require Import ZArith QArith Qabs List Bool.
From PV Require Import Base.QUtil Base.PWL Gen.GenAddGrad.
Import ListNotations.
Open Scope Q_scope.

Record trap := mkTrap { tr_amp : Q; tr_rise : Q; tr_flat : Q; tr_fall : Q; tr_delay : Q }.
(* type 'grad': extended trapezoid (tt on raster edges, tt[0]=0) or arbitrary (tt at raster centres) *)
Record egrad := mkEG { eg_delay : Q; eg_tt : list Q; eg_wf : list Q; eg_first : Q; eg_last : Q;
                       eg_shape_dur : Q }.
Inductive grad := GTrap (t : trap) | GExt (e : egrad).
Record sys := mkSys { s_max_grad : Q; s_max_slew : Q; s_raster : Q }.

Inductive err :=
| E_none_given        (* add_gradients.py:50 *)
| E_amp               (* amplitude violation of any maker *)
| E_slew              (* slew violation of any maker *)
| E_all_zero          (* make_extended_trapezoid.py: all times zero *)
| E_not_ascending
| E_last_off_raster
| E_first_nonzero     (* times[0] > 0 and amplitudes[0] != 0 *)
| E_off_raster
| E_degenerate.       (* max() of an empty array etc. *)

Inductive agres (A : Type) := OK (a : A) | Err (e : err).
Arguments OK {A} a. Arguments Err {A} e.

Inductive path := P_single | P_trap | P_ext | P_raster.

Definition eps := ag_eps.
Definition Qgtb (a b : Q) : bool := Qltb b a.

(* ---------- per-gradient observables (add_gradients.py:88-101, calc_duration.py) ---------- *)
Definition g_delay g := match g with GTrap t => tr_delay t | GExt e => eg_delay e end.
Definition g_first g := match g with GTrap _ => 0 | GExt e => eg_first e end.
Definition g_last g := match g with GTrap _ => 0 | GExt e => eg_last e end.
Definition g_dur g := match g with
  | GTrap t => tr_delay t + tr_rise t + tr_flat t + tr_fall t
  | GExt e => eg_delay e + eg_shape_dur e end.
Definition is_trap g := match g with GTrap _ => true | GExt _ => false end.

Fixpoint zip_idx (k : Z) (l : list Q) : list (Z * Q) :=
  match l with [] => [] | x :: r => (k, x) :: zip_idx (k + 1) r end.

(* add_gradients.py:99-100 as written:  np.all(np.abs(tt_rast - arange)) < eps  — the comparison is
   applied to the boolean returned by np.all *)
Definition is_arb (s : sys) g : bool :=
  match g with
  | GTrap _ => false
  | GExt e =>
    let d := map (fun kt => snd kt / s_raster s - (1 # 2) - inject_Z (fst kt)) (zip_idx 0 (eg_tt e)) in
    let all_nonzero := forallb (fun x => negb (Qeq_bool (Qabs x) 0)) d in
    Qltb (if all_nonzero then 1 else 0) eps
  end.

(* ---------- rendering of one gradient as a piecewise-linear function of time ---------- *)
Definition trap_pwl (a rise flat fall d : Q) : pwl :=
  if Qgtb flat 0
  then [(d, 0); (d + rise, a); (d + rise + flat, a); (d + rise + flat + fall, 0)]
  else [(d, 0); (d + rise, a); (d + rise + fall, 0)].

Definition ext_pwl (e : egrad) : pwl := shift (eg_delay e) (combine (eg_tt e) (eg_wf e)).

(* as Sequence.waveforms_and_times: arbitrary gradients (first sample not at 0) are extended by
   (0, first) and (shape_dur, last) *)
Definition to_pwl g : pwl :=
  match g with
  | GTrap t => trap_pwl (tr_amp t) (tr_rise t) (tr_flat t) (tr_fall t) (tr_delay t)
  | GExt e =>
    if Qeq_bool (hd 0 (eg_tt e)) 0 then ext_pwl e
    else (eg_delay e, eg_first e) :: ext_pwl e ++ [(eg_delay e + eg_shape_dur e, eg_last e)]
  end.

(* ---------- make_trapezoid.py, amplitude + rise/flat/fall path ---------- *)
Definition make_trap_amp (mg ms amp rise flat fall delay : Q) : agres grad :=
  let rise' := if Qeq_bool rise 0 then fall else rise in      (* rise_time or fall_time *)
  let fall' := if Qeq_bool fall 0 then rise' else fall in
  if Qgtb (Qabs amp) (mg + eps) then Err E_amp
  else if Qgtb (Qabs amp / rise') (ms * (1 + eps)) then Err E_slew
  else if Qgtb (Qabs amp / fall') (ms * (1 + eps)) then Err E_slew
  else OK (GTrap (mkTrap amp rise' flat fall' delay)).

(* ---------- helpers ---------- *)
Definition sumQ (l : list Q) : Q := fold_right Qplus 0 l.
Fixpoint diffs (l : list Q) : list Q :=
  match l with a :: r => match r with b :: _ => (b - a) :: diffs r | [] => [] end | [] => [] end.
Definition max_absl (l : list Q) : Q := fold_right (fun x m => Qmax (Qabs x) m) 0 l.
Fixpoint div_lists (a b : list Q) : list Q :=
  match a, b with x :: a', y :: b' => (x / y) :: div_lists a' b' | _, _ => [] end.
Definition on_raster (r t : Q) : bool :=
  negb (Qgtb (Qabs (inject_Z (rnd_he (t / r)) * r - t)) eps).

(* np.unique: sort + exact dedup *)
Fixpoint insert_uniq (x : Q) (l : list Q) : list Q :=
  match l with
  | [] => [x]
  | a :: r => if Qltb x a then x :: l else if Qeq_bool x a then l else a :: insert_uniq x r
  end.
Definition sort_uniq (l : list Q) : list Q := fold_right insert_uniq [] l.

(* add_gradients.py:116-122: merge of times closer than eps, as written *)
Fixpoint merge_go (dtx : list Q) (mask : list bool) (del_this : bool) : list Q :=
  match dtx with
  | [] => []
  | x :: rest =>
    let m := hd false mask in
    let x' := if m then x + hd 0 rest else x in
    (if del_this then [] else [x']) ++ merge_go rest (tl mask) m
  end.
Fixpoint cumsumQ_from (acc : Q) (l : list Q) : list Q :=
  match l with [] => [] | x :: r => (acc + x) :: cumsumQ_from (acc + x) r end.
Definition merge_close (times : list Q) : list Q :=
  let dt := diffs times in
  let mask := map (fun d => Qltb d eps) dt in
  (* np.any(ieps): some NON-ZERO index is in ieps *)
  if existsb (fun b => b) (tl mask)
  then cumsumQ_from 0 (merge_go (hd 0 times :: dt) mask false)
  else times.

Definition trap_times (t : trap) : list Q :=
  [tr_delay t; tr_delay t + tr_rise t; tr_delay t + tr_rise t + tr_flat t;
   tr_delay t + tr_rise t + tr_flat t + tr_fall t].
Definition grad_times g : list Q :=
  match g with GTrap t => trap_times t | GExt e => map (fun x => eg_delay e + x) (eg_tt e) end.

(* add_gradients.py:126-137: (tt, waveform) of one gradient on the extended-trapezoid path *)
Definition ext_corners g : pwl :=
  match g with
  | GTrap t => trap_pwl (tr_amp t) (tr_rise t) (tr_flat t) (tr_fall t) (tr_delay t)
  | GExt e => combine (map (fun x => eg_delay e + x) (eg_tt e)) (eg_wf e)
  end.

(* np.argmin(np.abs(x - times)): first nearest element *)
Definition nearest (x : Q) (times : list Q) : Q :=
  match times with
  | [] => x
  | a :: l => fold_left (fun b c => if Qltb (Qabs (x - c)) (Qabs (x - b)) then c else b) l a
  end.
Definition snap (times : list Q) (x : Q) : Q :=
  let m := nearest x times in if Qltb (Qabs (x - m)) eps then m else x.

Definition set_first_time (f : Q -> Q) (p : pwl) : pwl :=
  match p with [] => [] | (t, v) :: r => (f t, v) :: r end.
Fixpoint set_last_time (f : Q -> Q) (p : pwl) : pwl :=
  match p with
  | [] => []
  | (t, v) :: r => match r with [] => [(f t, v)] | _ :: _ => (t, v) :: set_last_time f r end
  end.

(* add_gradients.py:139-150 *)
Definition prep (times : list Q) g : pwl :=
  let p0 := ext_corners g in
  let p1 := set_first_time (snap times) p0 in
  let p2 := set_last_time (snap times) p1 in
  if Qgtb (Qabs (vfirst p2)) eps && Qgtb (tfirst p2) eps
  then set_first_time (fun t => t + eps) p2
  else p2.

(* ---------- make_extended_trapezoid.py (convert_to_arbitrary=False, skip_check=False) ---------- *)
Definition make_ext_trap (s : sys) (mg ms : Q) (p : pwl) : agres grad :=
  let tms := times p in let amps := values p in
  let r := s_raster s in
  if forallb (fun t => Qeq_bool t 0) tms then Err E_all_zero
  else if existsb (fun d => Qle_bool d 0) (diffs tms) then Err E_not_ascending
  else if negb (on_raster r (last tms 0)) then Err E_last_off_raster
  else if Qgtb (hd 0 tms) 0 && negb (Qeq_bool (hd 0 amps) 0) then Err E_first_nonzero
  else if negb (forallb (on_raster r) tms) then Err E_off_raster
  else
    let delay := inject_Z (rnd_he (hd 0 tms / r)) * r in
    let tt := map (fun t => t - delay) tms in
    let slew := div_lists (diffs amps) (diffs tt) in
    match slew with
    | [] => Err E_degenerate
    | _ :: _ =>
      if Qgtb (max_absl slew) (ms * (1 + eps)) then Err E_slew
      else if Qgtb (max_absl amps) (mg + eps) then Err E_amp
      else OK (GExt (mkEG delay tt amps (hd 0 amps) (last amps 0) (last tt 0)))
    end.

(* ---------- points_to_waveform.py ---------- *)
Definition minl (l : list Q) : Q := match l with [] => 0 | a :: r => fold_left Qmin r a end.
Definition maxl (l : list Q) : Q := match l with [] => 0 | a :: r => fold_left Qmax r a end.
Fixpoint zrange (k : Z) (n : nat) : list Z :=
  match n with O => [] | S n' => k :: zrange (k + 1) n' end.
(* np.interp without left/right: clamped to the end values *)
Definition interp_clamp (p : pwl) (x : Q) : Q :=
  if Qltb x (tfirst p) then vfirst p else if Qltb (tlast p) x then vlast p else eval p x.
Definition p2w (r : Q) (p : pwl) : list Q :=
  match p with
  | [] => [0]
  | _ :: _ =>
    let k0 := rnd_he (minl (times p) / r) in
    let k1 := rnd_he (maxl (times p) / r) in
    map (fun k => interp_clamp p (inject_Z k * r + r / 2)) (zrange k0 (Z.to_nat (k1 - k0)))
  end.

(* ---------- raster path, add_gradients.py:162-241 ---------- *)
Definition raster_samples (s : sys) (cd : Q) g : list Q :=
  let r := s_raster s in
  let w := match g with
    | GExt e => if is_arb s g then eg_wf e else p2w r (combine (eg_tt e) (eg_wf e))
    | GTrap t => p2w r (trap_pwl (tr_amp t) (tr_rise t) (tr_flat t) (tr_fall t) (tr_delay t - cd))
    end in
  if Qgtb (g_delay g - cd) 0
  then repeat 0 (Z.to_nat (rnd_he ((g_delay g - cd) / r))) ++ w
  else w.

Fixpoint vadd (a b : list Q) : list Q :=
  match a, b with
  | x :: a', y :: b' => (x + y) :: vadd a' b'
  | [], _ => b
  | _, [] => a
  end.

Definition make_arb (s : sys) (mg ms : Q) (w : list Q) (delay first last : Q) : agres grad :=
  let r := s_raster s in
  match diffs w with
  | [] => Err E_degenerate
  | dw =>
    if Qgtb (max_absl (map (fun d => d / r) dw)) (ms * (1 + eps)) then Err E_slew
    else if Qgtb (max_absl w) (mg + eps) then Err E_amp
    else
      let tt := map (fun kx => (inject_Z (fst kx) + (1 # 2)) * r) (zip_idx 0 w) in
      OK (GExt (mkEG delay tt w first last (inject_Z (Z.of_nat (length w)) * r)))
  end.

(* ---------- add_gradients ---------- *)
Definition same_timing (grads : list grad) : bool :=
  match grads with
  | GTrap t0 :: _ =>
    forallb (fun g => match g with
      | GTrap t => Qeq_bool (tr_rise t) (tr_rise t0) && Qeq_bool (tr_flat t) (tr_flat t0)
                   && Qeq_bool (tr_fall t) (tr_fall t0) && Qeq_bool (tr_delay t) (tr_delay t0)
      | GExt _ => false end) grads
  | _ => false
  end.

Definition amp_of g := match g with GTrap t => tr_amp t | GExt _ => 0 end.

Definition ext_times (grads : list grad) : list Q :=
  merge_close (sort_uniq (flat_map grad_times grads)).

Definition ext_sum (grads : list grad) : pwl :=
  let T := ext_times grads in psum_on T (map (prep T) grads).

(* add_gradients.py:233-234: `delays == common_delay` / `durs == durs.max()` (ag_startend_tol = 0) or
   `np.abs(... - ...) < eps` (ag_startend_tol = eps), whichever the source has *)
Definition same_time (a b : Q) : bool :=
  if Qeq_bool ag_startend_tol 0 then Qeq_bool a b else Qltb (Qabs (a - b)) ag_startend_tol.

Definition raster_sum (s : sys) (grads : list grad) : list Q :=
  let cd := minl (map g_delay grads) in
  fold_left vadd (map (raster_samples s cd) grads) [].

Definition add_gradients (s : sys) (max_grad_arg max_slew_arg : Q) (grads : list grad)
  : agres (path * grad) :=
  let mg := if Qle_bool max_grad_arg 0 then s_max_grad s else max_grad_arg in
  let ms := if Qle_bool max_slew_arg 0 then s_max_slew s else max_slew_arg in
  match grads with
  | [] => Err E_none_given
  | [g] => OK (P_single, g)
  | g0 :: _ =>
    if same_timing grads then
      match g0 with
      | GTrap t0 =>
        let mg1 := if ag_trap_passes_limits then mg else s_max_grad s in
        let ms1 := if ag_trap_passes_limits then ms else s_max_slew s in
        match make_trap_amp mg1 ms1 (sumQ (map amp_of grads) + eps)
                (tr_rise t0) (tr_flat t0) (tr_fall t0) (tr_delay t0) with
        | OK g => OK (P_trap, g) | Err e => Err e end
      | GExt _ => Err E_degenerate
      end
    else if forallb (fun g => is_trap g || negb (is_arb s g)) grads then
      let mg2 := if ag_ext_passes_limits then mg else s_max_grad s in
      let ms2 := if ag_ext_passes_limits then ms else s_max_slew s in
      match make_ext_trap s mg2 ms2 (ext_sum grads) with
      | OK g => OK (P_ext, g) | Err e => Err e end
    else
      let mg3 := if ag_arb_passes_limits then mg else s_max_grad s in
      let ms3 := if ag_arb_passes_limits then ms else s_max_slew s in
      let cd := minl (map g_delay grads) in
      let dmax := maxl (map g_dur grads) in
      let first := sumQ (map g_first (filter (fun g => same_time (g_delay g) cd) grads)) in
      let last := sumQ (map g_last (filter (fun g => same_time (g_dur g) dmax) grads)) in
      match make_arb s mg3 ms3 (raster_sum s grads) cd first last with
      | OK g => OK (P_raster, g) | Err e => Err e end
  end.
