(* Model/Seq.v — the Sequence object's event store: libraries, block table, durations, block cache,
   set_block / add_block / get_block / register_* / remove_duplicates, as total functions.
   Follows Sequence/block.py and Sequence/sequence.py statement by statement (line references in
   comments).  Library keys are tuples of canonical rationals (Qc), so key equality is Leibniz.
   Executable definitions only. *)
From Coq Require Import List Bool ZArith QArith Qcanon Qround.
From RecordUpdate Require Import RecordSet.
From PV Require Import Base.AList Base.QUtil Model.EventLib.
Import ListNotations RecordSetNotations.
Open Scope Z_scope.

(* ---- atoms and keys ------------------------------------------------------------------------- *)
Definition key := list Qc.
(* canonical rationals are equal iff numerator and denominator are *)
Definition qc_eqb (a b : Qc) : bool :=
  Z.eqb (Qnum (this a)) (Qnum (this b)) && Pos.eqb (Qden (this a)) (Qden (this b)).
Fixpoint key_eqb (a b : key) : bool :=
  match a, b with
  | [], [] => true
  | x :: r, y :: s => qc_eqb x y && key_eqb r s
  | _, _ => false
  end.
Definition zq (z : Z) : Qc := Q2Qc (inject_Z z).
Definition qz (q : Qc) : Z := Qfloor (this q).
Definition qc0 : Qc := zq 0.
Definition Qcleb (a b : Qc) : bool := Qle_bool (this a) (this b).
Definition Qcltb (a b : Qc) : bool := negb (Qle_bool (this b) (this a)).
Definition Qcmax (a b : Qc) : Qc := if Qcleb a b then b else a.
Definition Qcabs' (a : Qc) : Qc := if Qcleb qc0 a then a else Qcopp a.
Definition knth (k : key) (n : nat) : Qc := nth n k qc0.

Definition klib := lib key.
Definition kfind := @lib_find key key_eqb.
Definition kfoi := @lib_find_or_insert key key_eqb.
Definition kins := @lib_insert key key_eqb.
Definition kupd := @lib_update key key_eqb.

(* type tags as character codes *)
Definition tag_t : Z := 116.  (* 't' *)
Definition tag_g : Z := 103.  (* 'g' *)
Definition tag_u : Z := 117.  (* 'u' *)

(* extension type strings as codes *)
Definition XS_TRIGGERS : Z := 1.
Definition XS_LABELSET : Z := 2.
Definition XS_LABELINC : Z := 3.

(* ---- the state without the cache ------------------------------------------------------------ *)
Record core := mkCore {
  rf_l : klib; grad_l : klib; adc_l : klib; trig_l : klib; lset_l : klib; linc_l : klib;
  ext_l : klib; shape_l : klib;
  blocks : list (Z * list Z);       (* block_events (OrderedDict): id -> 7 ints            *)
  durs : list (Z * Qc);             (* block_durations                                      *)
  next_block : Z;                   (* next_free_block_ID                                   *)
  ext_num : list Z;                 (* extension_numeric_idx                                *)
  ext_str : list Z;                 (* extension_string_idx (codes)                         *)
  grad_raster : Qc;                 (* self.grad_raster_time                                *)
  sys_raster : Qc;                  (* self.system.grad_raster_time                         *)
  max_slew : Qc;                    (* self.system.max_slew                                 *)
  eps_ : Qc                         (* pypulseq.eps                                         *)
}.
#[export] Instance etaCore : Settable _ :=
  settable! mkCore <rf_l; grad_l; adc_l; trig_l; lset_l; linc_l; ext_l; shape_l; blocks; durs;
                    next_block; ext_num; ext_str; grad_raster; sys_raster; max_slew; eps_>.

Definition core_init (graster sraster slew eps : Qc) : core :=
  mkCore lib_empty lib_empty lib_empty lib_empty lib_empty lib_empty lib_empty lib_empty
         [] [] 1 [] [] graster sraster slew eps.

(* ---- events as handed to set_block ---------------------------------------------------------- *)
Inductive mevent :=
| MRf (id : option Z) (sids : option (list Z)) (amp : Qc) (mag phase : key) (tshape : option key)
      (delay freq phoff : Qc) (use : Z) (shape_dur ringdown : Qc)
| MGrad (ch : nat) (id : option Z) (sids : option (list Z)) (amp : Qc) (wshape : key)
        (tshape : option key) (delay first last tt0 ttlast : Qc)
| MTrap (ch : nat) (id : option Z) (amp rise flat fall delay : Qc)
| MAdc (id : option Z) (num dwell delay freq phoff dead : Qc)
| MDelay (d : Qc)
| MCtl (id : option Z) (typ chan : Z) (delay dur : Qc)
| MLabel (id : option Z) (is_set : bool) (value : Qc) (lbl : Z)
| MDur (d : Qc).

Inductive err :=
| EMultiple        (* ValueError: multiple events of one kind                      *)
| EDelayNonzero    (* RuntimeError: delay on gradient starting at non-zero          *)
| EConnect         (* RuntimeError: consecutive gradients do not connect            *)
| EFirstNonzero    (* RuntimeError: first gradient of first block not at zero       *)
| EAlign           (* RuntimeError: gradient ending non-zero not aligned to the end *)
| EKey             (* KeyError / IndexError: a referenced id does not exist         *)
| EOther.

(* ---- register_* (block.py:447-689).  Each returns the new core, the id(s) and whether the block
   cache is cleared by the call (the caller applies it only when the cache is in use). ---------- *)
Definition reg_simple (l : klib) (k : key) (ty : Z) : klib * Z * bool :=
  let '(l', id, found) := kfoi l k ty in (l', id, found).

(* block.py:447-473 *)
Definition register_adc (c : core) (num dwell delay freq phoff dead : Qc) : core * Z * bool :=
  let '(l, id, found) := kfoi (adc_l c) [num; dwell; delay; freq; phoff; dead] 0 in
  (c <| adc_l := l |>, id, found).

(* block.py:476-507 *)
Definition register_ctl (c : core) (typ chan : Z) (delay dur : Qc) : core * Z * bool :=
  let '(l, id, found) := kfoi (trig_l c) [zq typ; zq chan; delay; dur] 0 in
  (c <| trig_l := l |>, id, found).

(* block.py:582-611 *)
Definition register_label (c : core) (is_set : bool) (value : Qc) (lbl : Z) : core * Z * bool :=
  if is_set then
    let '(l, id, found) := kfoi (lset_l c) [value; zq lbl] 0 in (c <| lset_l := l |>, id, found)
  else
    let '(l, id, found) := kfoi (linc_l c) [value; zq lbl] 0 in (c <| linc_l := l |>, id, found).

(* block.py:510-579 *)
Definition register_trap (c : core) (amp rise flat fall delay : Qc) : core * Z * bool :=
  let '(l, id, found) := kfoi (grad_l c) [amp; rise; flat; fall; delay] tag_t in
  (c <| grad_l := l |>, id, found).

Definition register_grad (c : core) (sids : option (list Z)) (amp : Qc) (wshape : key)
           (tshape : option key) (delay first last : Qc) : core * Z * list Z * bool :=
  let '(sl, ids, may_exist, any_changed) :=
    match sids with
    | Some ids => (shape_l c, ids, true, false)
    | None =>
      let '(sl1, id1, f1) := kfoi (shape_l c) wshape 0 in
      match tshape with
      | None => (sl1, [id1; 0], f1, f1)
      | Some ts =>
        let '(sl2, id2, f2) := kfoi sl1 ts 0 in (sl2, [id1; id2], f1 && f2, f1 || f2)
      end
    end in
  let data := [amp] ++ map zq ids ++ [delay; first; last] in
  if may_exist then
    let '(gl, gid, found) := kfoi (grad_l c) data tag_g in
    (c <| shape_l := sl |> <| grad_l := gl |>, gid, ids, any_changed || found)
  else
    let '(gl, gid) := kins (grad_l c) 0 data tag_g in
    (c <| shape_l := sl |> <| grad_l := gl |>, gid, ids, any_changed).

(* block.py:614-689 *)
Definition register_rf (c : core) (sids : option (list Z)) (amp : Qc) (mag phase : key)
           (tshape : option key) (delay freq phoff : Qc) (use : Z) : core * Z * list Z * bool :=
  let '(sl, ids, may_exist) :=
    match sids with
    | Some ids => (shape_l c, ids, true)
    | None =>
      let '(sl1, id1, f1) := kfoi (shape_l c) mag 0 in
      let '(sl2, id2, f2) := kfoi sl1 phase 0 in
      match tshape with
      | None => (sl2, [id1; id2; 0], f1 && f2)
      | Some ts =>
        let '(sl3, id3, f3) := kfoi sl2 ts 0 in (sl3, [id1; id2; id3], f1 && f2 && f3)
      end
    end in
  let data := [amp] ++ map zq ids ++ [delay; freq; phoff] in
  if may_exist then
    let '(rl, rid, found) := kfoi (rf_l c) data use in
    (c <| shape_l := sl |> <| rf_l := rl |>, rid, ids, found)
  else
    let '(rl, rid) := kins (rf_l c) 0 data use in
    (c <| shape_l := sl |> <| rf_l := rl |>, rid, ids, false).

(* ---- get_extension_type_ID (sequence.py:656-684) --------------------------------------------- *)
Fixpoint index_of (x : Z) (l : list Z) : option nat :=
  match l with
  | [] => None
  | y :: r => if x =? y then Some O else option_map S (index_of x r)
  end.
Definition max_list (l : list Z) : Z := fold_left Z.max l 0.
Definition ext_type_id (c : core) (s : Z) : core * Z :=
  match index_of s (ext_str c) with
  | Some n => (c, nth n (ext_num c) 0)
  | None =>
    let id := match ext_num c with [] => 1 | _ => 1 + max_list (ext_num c) end in
    (c <| ext_num := ext_num c ++ [id] |> <| ext_str := ext_str c ++ [s] |>, id)
  end.
(* get_extension_type_string (sequence.py:686-711) *)
Definition ext_type_str (c : core) (id : Z) : option Z :=
  match index_of id (ext_num c) with
  | Some n => nth_error (ext_str c) n
  | None => None
  end.

(* ---- set_block, phase 1: the event loop (block.py:55-155) ------------------------------------ *)
Record chk := mkChk { ck_start_t : Qc; ck_first : Qc; ck_stop_t : Qc; ck_last : Qc }.
Definition chk0 : chk := mkChk qc0 qc0 qc0 qc0.

Record acc := mkAcc {
  a_core : core;
  a_clear : bool;               (* some register_* call asked for block_cache.clear()      *)
  a_blk : list Z;               (* new_block, 7 entries                                    *)
  a_dur : Qc;
  a_chk : list chk;             (* check_g, 3 entries                                      *)
  a_exts : list (Z * Z)         (* (type id, ref) in event order                           *)
}.
#[export] Instance etaAcc : Settable _ := settable! mkAcc <a_core; a_clear; a_blk; a_dur; a_chk; a_exts>.

Fixpoint set_nth {A} (n : nat) (x : A) (l : list A) : list A :=
  match n, l with
  | _, [] => []
  | O, _ :: r => x :: r
  | S k, y :: r => y :: set_nth k x r
  end.

Definition floor_raster (t raster : Qc) (slack : Q) : Qc :=
  Qcmult (zq (Qfloor (this t / this raster + slack)%Q)) raster.
Definition ceil_raster (t raster : Qc) (slack : Q) : Qc :=
  Qcmult (zq (Qceiling (this t / this raster - slack)%Q)) raster.
Definition slack10 : Q := 1 # 10000000000.

Definition opt_id (id : option Z) : bool := match id with Some _ => true | None => false end.

Definition ev_step (a : acc) (e : mevent) : acc + err :=
  let c := a_core a in
  match e with
  | MRf id sids amp mag phase tshape delay freq phoff use shape_dur ringdown =>
    if negb (nth 1 (a_blk a) 0 =? 0) then inr EMultiple else
    let '(c', rid, clr) :=
      match id with
      | Some i => (c, i, false)
      | None => let '(c1, i, _, clr) := register_rf c sids amp mag phase tshape delay freq phoff use in (c1, i, clr)
      end in
    inl (a <| a_core := c' |> <| a_clear := a_clear a || clr |>
           <| a_blk := set_nth 1 rid (a_blk a) |>
           <| a_dur := Qcmax (a_dur a) (shape_dur + delay + ringdown)%Qc |>)
  | MGrad ch id sids amp wshape tshape delay first last tt0 ttlast =>
    let idx := (2 + ch)%nat in
    if negb (nth idx (a_blk a) 0 =? 0) then inr EMultiple else
    let gstart := (delay + floor_raster tt0 (grad_raster c) slack10)%Qc in
    let gdur := (delay + ceil_raster ttlast (grad_raster c) slack10)%Qc in
    let ck := mkChk gstart first gdur last in
    let '(c', gid, clr) :=
      match id with
      | Some i => (c, i, false)
      | None => let '(c1, i, _, clr) := register_grad c sids amp wshape tshape delay first last in (c1, i, clr)
      end in
    inl (a <| a_core := c' |> <| a_clear := a_clear a || clr |>
           <| a_blk := set_nth idx gid (a_blk a) |>
           <| a_dur := Qcmax (a_dur a) gdur |>
           <| a_chk := set_nth ch ck (a_chk a) |>)
  | MTrap ch id amp rise flat fall delay =>
    let idx := (2 + ch)%nat in
    if negb (nth idx (a_blk a) 0 =? 0) then inr EMultiple else
    let '(c', gid, clr) :=
      match id with
      | Some i => (c, i, false)
      | None => register_trap c amp rise flat fall delay
      end in
    inl (a <| a_core := c' |> <| a_clear := a_clear a || clr |>
           <| a_blk := set_nth idx gid (a_blk a) |>
           <| a_dur := Qcmax (a_dur a) (delay + rise + flat + fall)%Qc |>)
  | MAdc id num dwell delay freq phoff dead =>
    if negb (nth 5 (a_blk a) 0 =? 0) then inr EMultiple else
    let '(c', aid, clr) :=
      match id with
      | Some i => (c, i, false)
      | None => register_adc c num dwell delay freq phoff dead
      end in
    inl (a <| a_core := c' |> <| a_clear := a_clear a || clr |>
           <| a_blk := set_nth 5 aid (a_blk a) |>
           <| a_dur := Qcmax (a_dur a) (delay + num * dwell + dead)%Qc |>)
  | MDelay d => inl (a <| a_dur := Qcmax (a_dur a) d |>)
  | MCtl id typ chan delay dur =>
    let '(c1, eid, clr) :=
      match id with
      | Some i => (c, i, false)
      | None => register_ctl c typ chan delay dur
      end in
    let '(c2, tid) := ext_type_id c1 XS_TRIGGERS in
    inl (a <| a_core := c2 |> <| a_clear := a_clear a || clr |>
           <| a_exts := a_exts a ++ [(tid, eid)] |>
           <| a_dur := Qcmax (a_dur a) (delay + dur)%Qc |>)
  | MLabel id is_set value lbl =>
    let '(c1, lid, clr) :=
      match id with
      | Some i => (c, i, false)
      | None => register_label c is_set value lbl
      end in
    let '(c2, tid) := ext_type_id c1 (if is_set then XS_LABELSET else XS_LABELINC) in
    inl (a <| a_core := c2 |> <| a_clear := a_clear a || clr |>
           <| a_exts := a_exts a ++ [(tid, lid)] |>)
  | MDur d => inl (a <| a_dur := Qcmax (a_dur a) d |>)
  end.

Fixpoint ev_loop (a : acc) (evs : list mevent) : acc * option err :=
  match evs with
  | [] => (a, None)
  | e :: r => match ev_step a e with
              | inl a' => ev_loop a' r
              | inr x => (a, Some x)
              end
  end.

(* ---- set_block, phase 2: extension list (block.py:160-188) ----------------------------------- *)
(* stable sort by ref (np.argsort on short lists is an insertion sort) *)
Fixpoint ins_ref (x : Z * Z) (l : list (Z * Z)) : list (Z * Z) :=
  match l with
  | [] => [x]
  | y :: r => if snd x <? snd y then x :: l else y :: ins_ref x r
  end.
Definition sort_ref (l : list (Z * Z)) : list (Z * Z) := fold_left (fun acc x => ins_ref x acc) l [].

Fixpoint ext_probe (l : klib) (exts : list (Z * Z)) (eid : Z) : Z * bool :=
  match exts with
  | [] => (eid, true)
  | (ty, ref) :: r =>
    let '(id, found) := kfind l [zq ty; zq ref; zq eid] in
    if found then ext_probe l r id else (id, false)
  end.
Fixpoint ext_add (l : klib) (exts : list (Z * Z)) (eid : Z) : klib * Z :=
  match exts with
  | [] => (l, eid)
  | (ty, ref) :: r =>
    let data := [zq ty; zq ref; zq eid] in
    let '(id, found) := kfind l data in
    if found then ext_add l r id else ext_add (fst (kins l id data 0)) r id
  end.
(* np.argsort is not stable for equal refs (vectorised sort): the order among ties is supplied by
   the harness as a permutation [hint] of event positions, VALIDATED here (it must be a permutation
   that sorts the refs); otherwise the stable order is used. *)
Fixpoint nodup_nat (l : list nat) : bool :=
  match l with
  | [] => true
  | x :: r => negb (existsb (Nat.eqb x) r) && nodup_nat r
  end.
Fixpoint sorted_ref (l : list (Z * Z)) : bool :=
  match l with
  | x :: ((y :: _) as r) => (snd x <=? snd y) && sorted_ref r
  | _ => true
  end.
Definition apply_hint (hint : list nat) (exts : list (Z * Z)) : option (list (Z * Z)) :=
  if (length hint =? length exts)%nat && nodup_nat hint
     && forallb (fun i => (i <? length exts)%nat) hint then
    let l := map (fun i => nth i exts (0, 0)) hint in
    if sorted_ref l then Some l else None
  else None.
Definition sort_exts (hint : list nat) (exts : list (Z * Z)) : list (Z * Z) :=
  match apply_hint hint exts with Some l => l | None => sort_ref exts end.

Definition ext_register (hint : list nat) (l : klib) (exts : list (Z * Z)) : klib * Z :=
  let s := sort_exts hint exts in
  let '(id, all_found) := ext_probe l s 0 in
  if all_found then (l, id) else ext_add l s 0.

(* ---- set_block, phase 3: gradient checks (block.py:193-265) ---------------------------------- *)
Fixpoint last_key {V} (l : list (Z * V)) : option Z :=
  match l with
  | [] => None
  | [(k, _)] => Some k
  | _ :: r => last_key r
  end.
Fixpoint pos_of (x : Z) (l : list Z) (n : nat) : option nat :=
  match l with
  | [] => None
  | y :: r => if x =? y then Some n else pos_of x r (S n)
  end.

(* stored edge value of the gradient referenced by [gid]: field [fld] (4 = first, 5 = last) of an
   arbitrary gradient, 0 for a trapezoid or no gradient; None = KeyError / IndexError *)
Definition edge_value (c : core) (gid : Z) (fld : nat) : option Qc :=
  if gid =? 0 then Some qc0 else
  match lib_get (grad_l c) gid, lib_type (grad_l c) gid with
  | Some data, Some ty =>
    if ty =? tag_t then Some qc0
    else if ty =? tag_g then nth_error data fld
    else Some qc0
  | _, _ => None
  end.

Definition neighbours (c : core) (i : Z) : option (option Z * option Z) :=
  (* None = StopIteration (block table empty although next_free_block_ID > 1) *)
  let ks := akeys (blocks c) in
  if i =? next_block c then
    match last_key (blocks c) with Some p => Some (Some p, None) | None => None end
  else
    match pos_of i ks 0 with
    | Some n =>
      Some (match n with O => None | S m => nth_error ks m end,
            if (S n <? length ks)%nat then nth_error ks (S n) else None)
    | None =>
      match last_key (blocks c) with Some p => Some (Some p, None) | None => None end
    end.

Definition blk_field (c : core) (b : Z) (idx : nat) : Z :=
  match aget Z.eqb (blocks c) b with Some l => nth idx l 0 | None => 0 end.

(* [abs_fix] selects between the code as pinned (false: `stop[1] > step`) and the repaired
   comparison (true: `abs(stop[1]) > step`); the harness passes what the translator reads. *)
Definition check_channel (abs_fix : bool) (c : core) (i : Z) (dur : Qc) (ch : nat) (k : chk) : option err :=
  let step := (max_slew c * sys_raster c)%Qc in
  let idx := (2 + ch)%nat in
  if Qcltb step (Qcabs' (ck_first k)) && Qcltb (eps_ c) (ck_start_t k) then Some EDelayNonzero else
  let r1 :=
    if 1 <? next_block c then
      match neighbours c i with
      | None => Some EOther
      | Some (prev, next) =>
        let lastv := match prev with
                     | Some p => edge_value c (blk_field c p idx) 5
                     | None => Some qc0 end in
        match lastv with
        | None => Some EKey
        | Some lv =>
          if Qcltb step (Qcabs' (lv - ck_first k)%Qc) then Some EConnect else
          match next with
          | None => None
          | Some n =>
            match edge_value c (blk_field c n idx) 4 with
            | None => Some EKey
            | Some fv => if Qcltb step (Qcabs' (fv - ck_last k)%Qc) then Some EConnect else None
            end
          end
        end
      end
    else if Qcltb step (Qcabs' (ck_first k)) then Some EFirstNonzero else None in
  match r1 with
  | Some e => Some e
  | None =>
    let lastmag := if abs_fix then Qcabs' (ck_last k) else ck_last k in
    if Qcltb step lastmag && Qcltb (Q2Qc (1 # 10000000)) (Qcabs' (ck_stop_t k - dur)%Qc)
    then Some EAlign else None
  end.

Fixpoint check_channels (abs_fix : bool) (c : core) (i : Z) (dur : Qc) (ch : nat) (ks : list chk) : option err :=
  match ks with
  | [] => None
  | k :: r => match check_channel abs_fix c i dur ch k with
              | Some e => Some e
              | None => check_channels abs_fix c i dur (S ch) r
              end
  end.

(* ---- set_block as a whole: (new core, cache-clear flag, result) ------------------------------ *)
Definition set_block_core (abs_fix : bool) (c : core) (i : Z) (evs : list mevent) (hint : list nat) : core * bool * option err :=
  let a0 := mkAcc c false [0; 0; 0; 0; 0; 0; 0] qc0 [chk0; chk0; chk0] [] in
  let '(a, e) := ev_loop a0 evs in
  match e with
  | Some x => (a_core a, a_clear a, Some x)
  | None =>
    let c1 := a_core a in
    let '(c2, blk) :=
      match a_exts a with
      | [] => (c1, a_blk a)
      | exts => let '(el, eid) := ext_register hint (ext_l c1) exts in
                (c1 <| ext_l := el |>, set_nth 6 eid (a_blk a))
      end in
    match check_channels abs_fix c2 i (a_dur a) 0 (a_chk a) with
    | Some x => (c2, a_clear a, Some x)
    | None =>
      (c2 <| blocks := aset Z.eqb (blocks c2) i blk |> <| durs := aset Z.eqb (durs c2) i (a_dur a) |>,
       a_clear a, None)
    end
  end.

(* ---- get_block: what the returned block is computed from (block.py:271-444) ------------------ *)
(* The decoded block is represented by everything get_block reads: the library tuples of the
   referenced events, the payloads of the shapes they reference, the extension chain in walk order
   and the stored duration.  (Decompression and amplitude scaling are pure functions of these.) *)
Record dgrad := mkDGrad { dg_type : Z; dg_data : key; dg_shapes : list key }.
Record dblock := mkDBlock {
  d_dur : Qc;
  d_rf : option (key * Z * list key);          (* data, use tag, shape payloads *)
  d_g : list (option dgrad);
  d_adc : option key;
  d_ext : list (Z * key)                       (* (extension string code, referenced data) *)
}.

Definition opt_bind {A B} (o : option A) (f : A -> option B) : option B :=
  match o with Some a => f a | None => None end.

Definition get_shape (c : core) (sid : Z) : option key := lib_get (shape_l c) sid.

Definition dec_rf (c : core) (id : Z) : option (option (key * Z * list key)) :=
  if id <=? 0 then Some None else
  opt_bind (lib_get (rf_l c) id) (fun data =>
  let use := match lib_type (rf_l c) id with Some u => u | None => tag_u end in
  opt_bind (get_shape c (qz (knth data 1))) (fun mag =>
  opt_bind (get_shape c (qz (knth data 2))) (fun ph =>
  let tid := qz (knth data 3) in
  if 0 <? tid then
    opt_bind (get_shape c tid) (fun ts => Some (Some (data, use, [mag; ph; ts])))
  else Some (Some (data, use, [mag; ph]))))).

Definition dec_grad (c : core) (id : Z) : option (option dgrad) :=
  if id <=? 0 then Some None else
  opt_bind (lib_type (grad_l c) id) (fun ty =>
  opt_bind (lib_get (grad_l c) id) (fun data =>
  if ty =? tag_t then Some (Some (mkDGrad ty data []))
  else
    opt_bind (get_shape c (qz (knth data 1))) (fun ws =>
    let tid := qz (knth data 2) in
    if tid =? 0 then Some (Some (mkDGrad ty data [ws]))
    else opt_bind (get_shape c tid) (fun ts => Some (Some (mkDGrad ty data [ws; ts])))))).

Definition dec_adc (c : core) (id : Z) : option (option key) :=
  if id <=? 0 then Some None else
  opt_bind (lib_get (adc_l c) id) (fun data => Some (Some data)).

(* the while loop over the extension chain; fuel = number of library entries + 1 *)
Fixpoint dec_ext (c : core) (fuel : nat) (eid : Z) : option (list (Z * key)) :=
  if eid =? 0 then Some [] else
  match fuel with
  | O => None
  | S f =>
    opt_bind (lib_get (ext_l c) eid) (fun ed =>
    opt_bind (ext_type_str c (qz (knth ed 0))) (fun s =>
    let ref := qz (knth ed 1) in
    let payload :=
      if s =? XS_TRIGGERS then lib_get (trig_l c) ref
      else if s =? XS_LABELSET then lib_get (lset_l c) ref
      else if s =? XS_LABELINC then lib_get (linc_l c) ref
      else None in
    opt_bind payload (fun p =>
    opt_bind (dec_ext c f (qz (knth ed 2))) (fun rest => Some ((s, p) :: rest)))))
  end.

Definition decode (c : core) (i : Z) : option dblock :=
  opt_bind (aget Z.eqb (blocks c) i) (fun ev =>
  opt_bind (dec_rf c (nth 1 ev 0)) (fun rf =>
  opt_bind (dec_grad c (nth 2 ev 0)) (fun gx =>
  opt_bind (dec_grad c (nth 3 ev 0)) (fun gy =>
  opt_bind (dec_grad c (nth 4 ev 0)) (fun gz =>
  opt_bind (dec_adc c (nth 5 ev 0)) (fun adc =>
  opt_bind (if 0 <? nth 6 ev 0 then dec_ext c (S (length (ldata (ext_l c)))) (nth 6 ev 0) else Some []) (fun ext =>
  opt_bind (aget Z.eqb (durs c) i) (fun d =>
  Some (mkDBlock d rf [gx; gy; gz] adc ext))))))))).

(* ---- remove_duplicates (sequence.py:1109-1176) ------------------------------------------------ *)
Section Dedup.
(* rounding of one library row, per library (from the generated digit tuples) *)
Variables (rnd_shape rnd_grad rnd_rf rnd_adc : key -> key).

Definition map_id (mp : list (Z * Z)) (id : Z) : option Z := aget Z.eqb mp id.
Definition map_atom (mp : list (Z * Z)) (a : Qc) : option Qc := option_map zq (map_id mp (qz a)).

Fixpoint remap_rows (rows : list (Z * key)) (l : klib) (isg : Z -> bool) (f : key -> option key) : option klib :=
  match rows with
  | [] => Some l
  | (id, data) :: r =>
    if isg id then
      match f data with
      | None => None
      | Some nd => if key_eqb data nd then remap_rows r l isg f
                   else remap_rows r (kupd l id nd 0) isg f
      end
    else remap_rows r l isg f
  end.

Definition remap_grad_row (mp : list (Z * Z)) (d : key) : option key :=
  match d with
  | a :: s1 :: s2 :: rest =>
    match map_atom mp s1, map_atom mp s2 with
    | Some m1, Some m2 => Some (a :: m1 :: m2 :: rest)
    | _, _ => None
    end
  | _ => None
  end.
Definition remap_rf_row (mp : list (Z * Z)) (d : key) : option key :=
  match d with
  | a :: s1 :: s2 :: s3 :: rest =>
    match map_atom mp s1, map_atom mp s2, map_atom mp s3 with
    | Some m1, Some m2, Some m3 => Some (a :: m1 :: m2 :: m3 :: rest)
    | _, _, _ => None
    end
  | _ => None
  end.

Fixpoint remap_blocks (bl : list (Z * list Z)) (idxs : list nat) (mp : list (Z * Z)) : option (list (Z * list Z)) :=
  match bl with
  | [] => Some []
  | (b, ev) :: r =>
    let ev' := fold_left (fun (acc : option (list Z)) (ix : nat) =>
                 match acc with
                 | None => None
                 | Some e => match map_id mp (nth ix e 0) with
                             | Some v => Some (set_nth ix v e)
                             | None => None end
                 end) idxs (Some ev) in
    match ev', remap_blocks r idxs mp with
    | Some e, Some rest => Some ((b, e) :: rest)
    | _, _ => None
    end
  end.

(* None = KeyError raised by a dangling reference *)
Definition dedup_core (c : core) : option core :=
  let '(sl, smap) := lib_remove_duplicates key_eqb rnd_shape (shape_l c) in
  let is_g := fun id => match lib_type (grad_l c) id with Some t => t =? tag_g | None => false end in
  opt_bind (remap_rows (ldata (grad_l c)) (grad_l c) is_g (remap_grad_row smap)) (fun gl1 =>
  opt_bind (remap_rows (ldata (rf_l c)) (rf_l c) (fun _ => true) (remap_rf_row smap)) (fun rl1 =>
  let '(gl2, gmap) := lib_remove_duplicates key_eqb rnd_grad gl1 in
  opt_bind (remap_blocks (blocks c) [2%nat; 3%nat; 4%nat] gmap) (fun b1 =>
  let '(rl2, rmap) := lib_remove_duplicates key_eqb rnd_rf rl1 in
  opt_bind (remap_blocks b1 [1%nat] rmap) (fun b2 =>
  let '(al2, amap) := lib_remove_duplicates key_eqb rnd_adc (adc_l c) in
  opt_bind (remap_blocks b2 [5%nat] amap) (fun b3 =>
  Some (c <| shape_l := sl |> <| grad_l := gl2 |> <| rf_l := rl2 |> <| adc_l := al2 |> <| blocks := b3 |>)))))).
End Dedup.

(* ---- the object with its cache ---------------------------------------------------------------- *)
Record state := mkState { st_core : core; st_cache : list (Z * dblock) }.

Inductive op :=
| AddBlock (evs : list mevent) (hint : list nat)
| SetBlock (i : Z) (evs : list mevent) (hint : list nat)
| GetBlock (i : Z)
| RegRf (sids : option (list Z)) (amp : Qc) (mag phase : key) (tshape : option key) (delay freq phoff : Qc) (use : Z)
| RegGrad (sids : option (list Z)) (amp : Qc) (wshape : key) (tshape : option key) (delay first last : Qc)
| RegTrap (amp rise flat fall delay : Qc)
| RegAdc (num dwell delay freq phoff dead : Qc)
| RegLabel (is_set : bool) (value : Qc) (lbl : Z)
| DedupInPlace
| DedupCopy
| TouchAll                         (* write(): check_timing + last block, i.e. get_block of every block *)
| Load (c : core).                 (* read(): the libraries and block table built from a file *)

Inductive out :=
| ONone
| OErr (e : err)
| OId (id : Z) (sids : list Z)
| OBlock (b : option dblock)
| OCore (c : option core).

Section Step.
Variable cache_on : bool.
Variable abs_fix : bool.
Variables (rnd_shape rnd_grad rnd_rf rnd_adc : key -> key).

Definition apply_clear (clr : bool) (ch : list (Z * dblock)) : list (Z * dblock) :=
  if cache_on && clr then [] else ch.

Definition do_get (s : state) (i : Z) : state * option dblock :=
  match (if cache_on then aget Z.eqb (st_cache s) i else None) with
  | Some b => (s, Some b)
  | None =>
    match decode (st_core s) i with
    | Some b => (if cache_on then mkState (st_core s) (aset Z.eqb (st_cache s) i b) else s, Some b)
    | None => (s, None)
    end
  end.

Definition step (s : state) (o : op) : state * out :=
  let c := st_core s in
  match o with
  | AddBlock evs hint =>
    let '(c', clr, e) := set_block_core abs_fix c (next_block c) evs hint in
    match e with
    | Some x => (mkState c' (apply_clear clr (st_cache s)), OErr x)
    | None => (mkState (c' <| next_block := next_block c' + 1 |>)
                       (adel Z.eqb (apply_clear clr (st_cache s)) (next_block c)), ONone)
    end
  | SetBlock i evs hint =>
    let '(c', clr, e) := set_block_core abs_fix c i evs hint in
    match e with
    | Some x => (mkState c' (apply_clear clr (st_cache s)), OErr x)
    | None => (mkState (c' <| next_block := if next_block c' <=? i then i + 1 else next_block c' |>)
                       (adel Z.eqb (apply_clear clr (st_cache s)) i), ONone)
    end
  | GetBlock i => let '(s', b) := do_get s i in (s', OBlock b)
  | RegRf sids amp mag phase tshape delay freq phoff use =>
    let '(c', id, ids, clr) := register_rf c sids amp mag phase tshape delay freq phoff use in
    (mkState c' (apply_clear clr (st_cache s)), OId id ids)
  | RegGrad sids amp wshape tshape delay first last =>
    let '(c', id, ids, clr) := register_grad c sids amp wshape tshape delay first last in
    (mkState c' (apply_clear clr (st_cache s)), OId id ids)
  | RegTrap amp rise flat fall delay =>
    let '(c', id, clr) := register_trap c amp rise flat fall delay in
    (mkState c' (apply_clear clr (st_cache s)), OId id [])
  | RegAdc num dwell delay freq phoff dead =>
    let '(c', id, clr) := register_adc c num dwell delay freq phoff dead in
    (mkState c' (apply_clear clr (st_cache s)), OId id [])
  | RegLabel is_set value lbl =>
    let '(c', id, clr) := register_label c is_set value lbl in
    (mkState c' (apply_clear clr (st_cache s)), OId id [])
  | DedupInPlace =>
    match dedup_core rnd_shape rnd_grad rnd_rf rnd_adc c with
    | Some c' => (mkState c' [], ONone)
    | None => (s, OErr EKey)   (* the harness never produces dangling references before dedup *)
    end
  | DedupCopy => (s, OCore (dedup_core rnd_shape rnd_grad rnd_rf rnd_adc c))
  | TouchAll =>
    (fold_left (fun st i => fst (do_get st i)) (akeys (blocks c)) s, ONone)
  | Load c' => (mkState c' [], ONone)
  end.

Definition run (s0 : state) (ops : list op) : state * list out :=
  fold_left (fun (acc : state * list out) o =>
               let '(s', x) := step (fst acc) o in (s', snd acc ++ [x])) ops (s0, []).
End Step.
