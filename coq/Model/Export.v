(* Model/Export.v — Sequence.waveforms() / get_gradients() (Sequence/sequence.py:1392-1558, 713-790)
   as total functions over Q.  Executable definitions only.  Constants (eps, teps) come from
   Gen.GenExport (translated from source).  Corner lists are Base.PWL.pwl = list (time, value). *)
From Coq Require Import ZArith QArith Qabs List Bool Arith.
From PV Require Import Base.QUtil Base.PWL Gen.GenExport.
Import ListNotations.
Open Scope Q_scope.

(* A gradient event as get_block returns it (block.py): a trapezoid (type 'trap') or a corner list
   (type 'grad': extended trapezoid or raster-sampled arbitrary gradient). *)
Inductive grad :=
| Trap (amplitude rise flat fall delay : Q)
| Corners (delay : Q) (ts wf : list Q) (first last : Q).

(* one block: its stored duration and the gradient of each channel (gx, gy, gz) *)
Record block := mkBlock { b_dur : Q; b_g : list (option grad) }.
Definition bgrad (b : block) (ch : nat) : option grad := nth ch (b_g b) None.

(* sequence.py:1445-1446  tt_rast = ts/raster + 0.5; all(|tt_rast - arange(1, n+1)| < eps) *)
Fixpoint is_arb_from (raster : Q) (i : Z) (ts : list Q) : bool :=
  match ts with
  | [] => true
  | x :: r => Qltb (Qabs (x / raster + (1 # 2) - inject_Z i)) eps && is_arb_from raster (i + 1) r
  end.
Definition is_arb (raster : Q) (ts : list Q) : bool := is_arb_from raster 1 ts.

Definition qlast (l : list Q) : Q := last l 0.

(* utils/cumsum.py with 3 / 4 arguments *)
Definition cumsum3 (a b c : Q) : list Q := [a; a + b; a + b + c].
Definition cumsum4 (a b c d : Q) : list Q := [a; a + b; a + b + c; a + b + c + d].

(* sequence.py:1443-1509: the piece contributed by one gradient of a block starting at [start]
   (curr_dur); None = nothing appended ("empty" trapezoid). *)
Definition piece (raster start : Q) (g : grad) : option pwl :=
  match g with
  | Corners delay ts wf first last =>
    if is_arb raster ts then
      (* 1457-1467: [0] ++ tt ++ [tt[-1] + raster/2]  /  [first] ++ waveform ++ [last] *)
      Some (combine (map (fun x => start + delay + x) ([0] ++ ts ++ [qlast ts + raster / 2]))
                    ([first] ++ wf ++ [last]))
    else
      (* 1469-1477 extended trapezoid *)
      Some (combine (map (fun x => start + delay + x) ts) wf)
  | Trap amp rise flat fall delay =>
    if Qltb eps (Qabs flat) then
      Some (combine (cumsum4 (start + delay) rise flat fall) [amp * 0; amp * 1; amp * 1; amp * 0])
    else if Qltb eps (Qabs rise) && Qltb eps (Qabs fall) then
      Some (combine (cumsum3 (start + delay) rise fall) [amp * 0; amp * 1; amp * 0])
    else None
  end.

Definition block_piece (raster start : Q) (b : block) (ch : nat) : list pwl :=
  match bgrad b ch with
  | Some g => match piece raster start g with Some p => [p] | None => [] end
  | None => []
  end.

(* 1437-1534: the loop over blocks with curr_dur accumulating the stored block durations
   (Qred = identity on the rational; it only keeps the extracted fractions in lowest terms) *)
Fixpoint pieces (raster start : Q) (bs : list block) (ch : nat) : list pwl :=
  match bs with
  | [] => []
  | b :: r => block_piece raster start b ch ++ pieces raster (Qred (start + b_dur b)) r ch
  end.

(* block start times (prefix sums of the stored durations) *)
Fixpoint starts (start : Q) (bs : list block) : list Q :=
  match bs with
  | [] => []
  | b :: r => start :: starts (Qred (start + b_dur b)) r
  end.

(* 1547-1550: cur if prev[0,-1] + eps < cur[0,0] else cur[:,1:]   (prev = the ORIGINAL previous piece) *)
Definition join_step (prev cur : pwl) : pwl :=
  if Qltb (tlast prev + eps) (tfirst cur) then cur else tl cur.
Fixpoint join_from (prev : pwl) (rest : list pwl) : pwl :=
  match rest with
  | [] => []
  | cur :: r => join_step prev cur ++ join_from cur r
  end.
Definition join (ps : list pwl) : pwl :=
  match ps with
  | [] => []                       (* 1540-1542: np.zeros((2, 0)) *)
  | p :: r => p ++ join_from p r
  end.

(* 1554-1556: np.any(np.diff(t) < eps) -> raise Warning *)
Fixpoint mono_ok (l : list Q) : bool :=
  match l with
  | a :: l' => match l' with
               | b :: _ => negb (Qltb (b - a) eps) && mono_ok l'
               | [] => true
               end
  | [] => true
  end.

Inductive wres := WOk (w : pwl) | WErrMono | WErrIndex.

Definition waveform_from (raster start : Q) (bs : list block) (ch : nat) : wres :=
  let w := join (pieces raster start bs ch) in
  if mono_ok (times w) then WOk w else WErrMono.

(* the full export: blocks = self.block_events, curr_dur = 0 *)
Definition waveform (raster : Q) (bs : list block) (ch : nat) : wres := waveform_from raster 0 bs ch.

(* 1428-1435 time_range: bd = durations; t = cumsum(bd);
   begin_block = searchsorted(t, a)            = number of block END times  <  a
   end_block   = searchsorted(t - bd, b, right)= number of block START times <= b
   blocks[begin:end]; curr_dur = t[begin] - bd[begin] (IndexError when begin = number of blocks) *)
Fixpoint count_ends_lt (start a : Q) (bs : list block) : nat :=
  match bs with
  | [] => 0%nat
  | b :: r => if Qltb (start + b_dur b) a then S (count_ends_lt (start + b_dur b) a r) else 0%nat
  end.
Fixpoint count_starts_le (start c : Q) (bs : list block) : nat :=
  match bs with
  | [] => 0%nat
  | b :: r => if Qle_bool start c then S (count_starts_le (start + b_dur b) c r) else 0%nat
  end.
Fixpoint sum_durs (bs : list block) : Q :=
  match bs with [] => 0 | b :: r => b_dur b + sum_durs r end.

Definition range_blocks (bs : list block) (a c : Q) : nat * nat :=
  (count_ends_lt 0 a bs, count_starts_le 0 c bs).

Definition waveform_range (raster : Q) (bs : list block) (a c : Q) (ch : nat) : wres :=
  let '(bg, en) := range_blocks bs a c in
  if (bg <? length bs)%nat then
    let sel := firstn (en - bg) (skipn bg bs) in
    let t_bg := sum_durs (firstn (S bg) bs) in
    let start := Qred (t_bg - b_dur (nth bg bs (mkBlock 0 []))) in
    waveform_from raster start sel ch
  else WErrIndex.

(* get_gradients 779-782: two zero samples teps and 2*teps before the first and after the last corner *)
Definition padded (w : pwl) : pwl :=
  [(tfirst w - 2 * teps, 0); (tfirst w - teps, 0)] ++ w ++ [(tlast w + teps, 0); (tlast w + 2 * teps, 0)].

(* ------------------------------------------------------------------------------------------ *)
(* The specification side: straightforward per-event rendering, in block-relative time s. *)
Definition render_trap (amp rise flat fall delay s : Q) : Q :=
  let u := s - delay in
  if Qltb u 0 then 0
  else if Qle_bool u rise then amp * u / rise
  else if Qle_bool u (rise + flat) then amp
  else if Qle_bool u (rise + flat + fall) then amp * (rise + flat + fall - u) / fall
  else 0.

(* the corner list of a 'grad' event in block-relative time: (delay + tt_i, wf_i); for a raster-sampled
   arbitrary gradient the edge values first/last sit at the start and the end of the raster cell row *)
Definition corner_list (raster : Q) (delay : Q) (ts wf : list Q) (first last : Q) : pwl :=
  if is_arb raster ts then
    combine (map (fun x => delay + x) ([0] ++ ts ++ [qlast ts + raster / 2])) ([first] ++ wf ++ [last])
  else combine (map (fun x => delay + x) ts) wf.

Definition render (raster : Q) (g : grad) (s : Q) : Q :=
  match g with
  | Trap amp rise flat fall delay => render_trap amp rise flat fall delay s
  | Corners delay ts wf first last => eval (corner_list raster delay ts wf first last) s
  end.

(* support of an event in block-relative time *)
Definition g_begin_r (raster : Q) (g : grad) : Q :=
  match g with
  | Trap _ _ _ _ delay => delay
  | Corners delay ts _ _ _ => if is_arb raster ts then delay else delay + hd 0 ts
  end.
Definition g_end_r (raster : Q) (g : grad) : Q :=
  match g with
  | Trap _ rise flat fall delay => delay + rise + flat + fall
  | Corners delay ts _ _ _ => if is_arb raster ts then delay + (qlast ts + raster / 2) else delay + qlast ts
  end.
