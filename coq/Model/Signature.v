(* Model/Signature.v — the [SIGNATURE] contract of write_seq.py:233-256 and read_seq.py:94-100 at
   byte level.  A file is a list of byte codes; the digest function is a parameter (MD5 in the
   implementation).  The literal bytes of the signature block come from Gen/GenSignature.v.
   Executable definitions only. *)
From Coq Require Import List Bool ZArith.
From PV Require Import Gen.GenSignature.
Import ListNotations.
Open Scope Z_scope.

Definition bytes := list Z.
Definition NL : Z := 10.
Definition SP : Z := 32.

Fixpoint beqb (a b : bytes) : bool :=
  match a, b with
  | [], [] => true
  | x :: r, y :: s => (x =? y) && beqb r s
  | _, _ => false
  end.

Fixpoint prefixb (p s : bytes) : bool :=
  match p, s with
  | [], _ => true
  | x :: r, y :: t => (x =? y) && prefixb r t
  | _ :: _, [] => false
  end.

(* index of the first occurrence of p in s *)
Fixpoint find_sub (p s : bytes) : option nat :=
  if prefixb p s then Some O else
  match s with
  | [] => None
  | _ :: r => option_map S (find_sub p r)
  end.

(* ---- writer: write_seq.py:233-256 ------------------------------------------------------------- *)
Definition sign (h body : bytes) : bytes :=
  body ++ sig_marker ++ sig_after_marker ++ h ++ sig_tail.
Definition write_file (create_signature : bool) (digest : bytes -> bytes) (body : bytes) : bytes * option bytes :=
  if create_signature then (sign (digest body) body, Some (digest body)) else (body, None).

(* ---- reader: the definitions-style parsing of the lines after the section header ------------------ *)
Definition is_ws (b : Z) : bool := (b =? 32) || (b =? 9) || (b =? 13) || (b =? 10).
Fixpoint lstrip (l : bytes) : bytes :=
  match l with
  | b :: r => if is_ws b then lstrip r else l
  | [] => []
  end.
Definition strip (l : bytes) : bytes := rev (lstrip (rev (lstrip l))).

(* split at newlines; the piece after the last newline is a line only if it is non-empty (readline) *)
Fixpoint split_lines_go (cur : bytes) (s : bytes) : list bytes :=
  match s with
  | [] => match cur with [] => [] | _ => [rev cur] end
  | b :: r => if b =? NL then rev cur :: split_lines_go [] r else split_lines_go (b :: cur) r
  end.
Definition split_lines (s : bytes) : list bytes := split_lines_go [] s.

Definition is_comment_or_blank (l : bytes) : bool :=
  match l with [] => true | b :: _ => b =? 35 end.

Fixpoint skip_comments (ls : list bytes) : list bytes :=
  match ls with
  | l :: r => if is_comment_or_blank l then skip_comments r else ls
  | [] => []
  end.

Fixpoint take_key (l : bytes) : bytes * bytes :=
  match l with
  | [] => ([], [])
  | b :: r => if b =? SP then ([], r) else let '(k, v) := take_key r in (b :: k, v)
  end.

(* __read_definitions: key/value lines until a blank or comment line *)
Fixpoint read_defs (ls : list bytes) : list (bytes * bytes) :=
  match ls with
  | l :: r => if is_comment_or_blank l then []
              else let '(k, v) := take_key l in (k, strip v) :: read_defs r
  | [] => []
  end.

Fixpoint lookup (k : bytes) (d : list (bytes * bytes)) : option bytes :=
  match d with
  | [] => None
  | (k', v) :: r => if beqb k' k then Some v else lookup k r   (* later duplicates overwrite in a dict; the writer emits each key once *)
  end.

Definition KEY_TYPE : bytes := [84; 121; 112; 101].      (* "Type" *)
Definition KEY_HASH : bytes := [72; 97; 115; 104].       (* "Hash" *)
Definition MD5 : bytes := [109; 100; 53].                (* "md5" *)

(* (content that precedes the newline in front of [SIGNATURE], signature type, signature hash) *)
Definition split_sig (f : bytes) : option (bytes * bytes * bytes) :=
  match find_sub sig_marker f with
  | None => None
  | Some k =>
    let body := firstn k f in
    let trailer := skipn (k + length sig_marker) f in
    let defs := read_defs (skip_comments (map strip (split_lines trailer))) in
    match lookup KEY_TYPE defs, lookup KEY_HASH defs with
    | Some t, Some h => Some (body, t, h)
    | _, _ => None
    end
  end.

(* the section name without the surrounding newlines *)
Definition sig_tag : bytes := removelast (tl sig_marker).

(* [p] occurs nowhere in [s] *)
Fixpoint no_sub (p s : bytes) : bool :=
  negb (prefixb p s) && match s with [] => true | _ :: r => no_sub p r end.
