(* Model/ExtFile.v — C19: the extension part of a .seq file.

   write_seq.py:168-218  [EXTENSIONS] rows, then for each non-empty library the header line
                         `extension TRIGGERS|LABELSET|LABELINC <numeric id>` (the id comes from
                         get_extension_type_ID, which CREATES one if the name is still unknown) and the rows;
   read_seq.py:43-61     libraries and the two extension-type lists are re-created (extensions_library too since
                         /repo 9f51bed; the model takes that from Gen.GenLabels.read_resets_ext_library);
   read_seq.py:162-190   [EXTENSIONS] -> a new library; every header -> set_extension_string_ID (raises when the
                         name or the number is already taken) and a library built by insert(key_id, data).

   Rows and their columns (multiplier, np.round, format, read scale) are the generic ones of Model/File.v
   with the tables of Gen/GenFile.v (regenerated from the source): sec_ext, sec_trig, sec_lset, sec_linc.
   Library rows are `id :: data`; label names travel as their 1-based index (File.v convention).
   Executable definitions only. *)
From Coq Require Import List Bool ZArith QArith Qcanon Qround.
From RecordUpdate Require Import RecordSet.
From PV Require Import Base.AList Base.QUtil Gen.GenFile Gen.GenLabels Model.File Model.EventLib Model.Seq.
Import ListNotations RecordSetNotations.
Open Scope Z_scope.

(* `for k in lib.data: format(k, *lib.data[k])` *)
Definition lib_rows (l : klib) : list (list Q) :=
  map (fun kv => inject_Z (fst kv) :: map this (snd kv)) (ldata l).

(* __read_events / __read_and_parse_events: event_library.insert(key_id=int(row[0]), new_data=row[1:]) *)
Definition insert_row (l : klib) (r : list Q) : klib :=
  match r with
  | [] => l
  | id :: data => fst (kins l (Qfloor id) (map Q2Qc data) 0)
  end.
Definition lib_of_rows (l0 : klib) (rows : list (list Q)) : klib := fold_left insert_row rows l0.

Definition nonempty (l : klib) : bool := match ldata l with [] => false | _ => true end.

(* one `extension NAME id` section *)
Record xsec := mkXsec { xs_name : Z; xs_id : Z; xs_rows : list (list Q) }.

Record xfile := mkXfile {
  x_ext : option (list (list Q));       (* the [EXTENSIONS] section, present iff the library is non-empty *)
  x_secs : list xsec                    (* in file order: TRIGGERS, LABELSET, LABELINC (those present)     *)
}.

(* no raster column in these sections: the rf raster argument of write_row is irrelevant *)
Definition wrows (cs : list col) (l : klib) : list (list Q) := map (write_row 1 cs) (lib_rows l).

(* write_seq.py:168-218.  Returns the core as write() leaves it (type ids may have been created) *)
Definition write_sec (c : core) (name : Z) (cs : list col) (l : klib) (acc : list xsec) : core * list xsec :=
  if nonempty l then
    let '(c', id) := ext_type_id c name in (c', acc ++ [mkXsec name id (wrows cs l)])
  else (c, acc).

(* the three optional sections in the order write() emits them; the libraries are those of [c]
   (get_extension_type_ID touches only the two type lists) *)
Definition sec_specs (c : core) : list (Z * list col * klib) :=
  [(XS_TRIGGERS, sec_trig, trig_l c); (XS_LABELSET, sec_lset, lset_l c); (XS_LABELINC, sec_linc, linc_l c)].

Definition write_ext (c : core) : core * xfile :=
  let xe := if nonempty (ext_l c) then Some (wrows sec_ext (ext_l c)) else None in
  let r := fold_left (fun (acc : core * list xsec) (sp : Z * list col * klib) =>
                        write_sec (fst acc) (fst (fst sp)) (snd (fst sp)) (snd sp) (snd acc))
                     (sec_specs c) (c, []) in
  (fst r, mkXfile xe (snd r)).

(* sequence.py:1357-1378 set_extension_string_ID: None = ValueError('Numeric or string ID is not unique') *)
Definition set_ext_string_id (tabs : list Z * list Z) (name id : Z) : option (list Z * list Z) :=
  let '(nums, strs) := tabs in
  if existsb (Z.eqb name) strs || existsb (Z.eqb id) nums then None
  else Some (nums ++ [id], strs ++ [name]).

Definition cols_of (name : Z) : list col :=
  if name =? XS_TRIGGERS then sec_trig else if name =? XS_LABELSET then sec_lset else sec_linc.

(* one header + its rows, read into the receiving core *)
Definition read_sec (oc : option core) (s : xsec) : option core :=
  match oc with
  | None => None
  | Some c =>
    match set_ext_string_id (ext_num c, ext_str c) (xs_name s) (xs_id s) with
    | None => None
    | Some (nums, strs) =>
      let c1 := c <| ext_num := nums |> <| ext_str := strs |> in
      let rows := map (read_row (cols_of (xs_name s))) (xs_rows s) in
      Some (if xs_name s =? XS_TRIGGERS then c1 <| trig_l := lib_of_rows (trig_l c1) rows |>   (* event_library=self.trigger_library *)
            else if xs_name s =? XS_LABELSET then c1 <| lset_l := lib_of_rows lib_empty rows |>
            else c1 <| linc_l := lib_of_rows lib_empty rows |>)
    end
  end.

(* read() of the extension part into the core [c0] (any object, fresh or used).  read_seq.py:43-61 re-creates
   the trigger and the two label libraries and empties both extension type lists; whether extensions_library
   is re-created too is read from the source ([reset_ext] = Gen.GenLabels.read_resets_ext_library): if not, it
   is replaced only when the file has an [EXTENSIONS] section *)
Definition read_ext_gen (reset_ext : bool) (c0 : core) (f : xfile) : option core :=
  let c1 := c0 <| trig_l := lib_empty |> <| lset_l := lib_empty |> <| linc_l := lib_empty |>
               <| ext_num := [] |> <| ext_str := [] |> in
  let c1' := if reset_ext then c1 <| ext_l := lib_empty |> else c1 in
  let c2 := match x_ext f with
            | Some rows => c1' <| ext_l := lib_of_rows lib_empty (map (read_row sec_ext) rows) |>
            | None => c1'
            end in
  fold_left read_sec (x_secs f) (Some c2).
Definition read_ext : core -> xfile -> option core := read_ext_gen read_resets_ext_library.

Definition reread_ext (c0 c : core) : option core := read_ext c0 (snd (write_ext c)).

(* what a trigger row looks like after the file: delay and duration in whole microseconds *)
Definition us : Q := 1000000 # 1.
Definition round_us (x : Qc) : Qc := Q2Qc ((inject_Z (rnd_he (this x * us)) * (1 # 1000000))%Q).
Definition file_trig_row (k : key) : key :=
  match k with
  | [ty; ch; d; du] => [ty; ch; round_us d; round_us du]
  | _ => k
  end.
Definition file_payload (x : Z * key) : Z * key :=
  if fst x =? XS_TRIGGERS then (fst x, file_trig_row (snd x)) else x.

(* ---- a variant of read(), for the refutation in Props/C19.v: the trigger library is NOT re-created before
   the sections are loaded (rows of the file are inserted over the old ids, the old content -> id keymap
   entries stay) ------------------------------------------------------------------------------------------- *)
Definition read_ext_keep_trig (c0 : core) (f : xfile) : option core :=
  let c1 := c0 <| lset_l := lib_empty |> <| linc_l := lib_empty |> <| ext_num := [] |> <| ext_str := [] |> in
  let c2 := match x_ext f with
            | Some rows => c1 <| ext_l := lib_of_rows lib_empty (map (read_row sec_ext) rows) |>
            | None => c1
            end in
  fold_left read_sec (x_secs f) (Some c2).
