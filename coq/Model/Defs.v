(* Model/Defs.v — one line of [DEFINITIONS]: what write_seq.py:58-77 prints after "key " for a value, and what
   read_seq.py::__read_definitions (with __strip_line) makes of that text again.  Character level (code points),
   because what does and does not survive is a matter of blanks: the line is stripped, split at single blanks, read
   as numbers when EVERY piece is accepted by float(), and kept as the stripped rest of the line otherwise.
   Python ints and floats are both printed with '{:0.9g}' (a list prints its numbers one by one), so a value is
   either a list of numbers or a text.  Parameters (any functions; the theorems state what they need of them):
     is_ws        which characters str.strip() removes
     render       the text of '{:0.9g}' for a decimal value
     numeric_tok  float(token): Some value when the token is accepted
   The key is assumed non-empty and free of white space (the value part is then what follows the first blank).
   Executable definitions only. *)
From Coq Require Import List Bool ZArith QArith.
From PV Require Import Base.QUtil Gen.GenFile Model.File.
Import ListNotations.

Definition blank : Z := 32%Z.

Section Defs.
Variable is_ws : Z -> bool.
Variable render : Q -> list Z.
Variable numeric_tok : list Z -> option Q.

Inductive dval := DNum (l : list Q) | DStr (s : list Z).

(* write_seq.py:64-76 *)
Definition print_val (v : dval) : list Z :=
  match v with
  | DNum l => flat_map (fun q => render (fmt_sig def_fmt q) ++ [blank]) l
  | DStr s => s ++ [blank]
  end.

(* str.strip / str.split(' ') *)
Fixpoint lstrip (l : list Z) : list Z :=
  match l with
  | [] => []
  | c :: r => if is_ws c then lstrip r else l
  end.
Definition rstrip (l : list Z) : list Z := rev (lstrip (rev l)).
Definition strip (l : list Z) : list Z := lstrip (rstrip l).
Fixpoint split_blank (l : list Z) : list (list Z) :=
  match l with
  | [] => [[]]
  | c :: r => if (c =? blank)%Z then [] :: split_blank r
              else match split_blank r with t :: ts => (c :: t) :: ts | [] => [[c]] end
  end.

Fixpoint all_numeric (toks : list (list Z)) : option (list Q) :=
  match toks with
  | [] => Some []
  | t :: r => match numeric_tok t, all_numeric r with
              | Some q, Some l => Some (q :: l)
              | _, _ => None
              end
  end.

(* read_seq.py:372-383 on the text that followed "key " (the whole line was stripped by __strip_line, so a value part
   that is all white space leaves the bare key: tok[1:] is empty and the value becomes an empty array) *)
Definition parse_val (vp : list Z) : dval :=
  match rstrip vp with
  | [] => DNum []
  | body => match all_numeric (split_blank body) with
            | Some l => DNum l
            | None => DStr (strip body)
            end
  end.
End Defs.
