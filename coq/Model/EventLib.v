(* Model/EventLib.v — event_lib.py as total functions.  Generic in the key type K (the tuple /
   byte-string that identifies an event); Python dicts are insertion-ordered association lists.
   Executable definitions only. *)
From Coq Require Import List Bool ZArith.
From PV Require Import Base.AList.
Import ListNotations.
Open Scope Z_scope.

Section EventLib.
Variable K : Type.
Variable keqb : K -> K -> bool.

(* type tags ('t','g','e','r',… ) are modelled by their character code; 0 = str() = no type *)
Record lib := mkLib {
  ldata : list (Z * K);      (* self.data   : id  -> key      *)
  ltype : list (Z * Z);      (* self.type   : id  -> tag      *)
  lkeymap : list (K * Z);    (* self.keymap : key -> id       *)
  lnext : Z                  (* self.next_free_ID             *)
}.

Definition lib_empty : lib := mkLib [] [] [] 1.

Definition set_type (t : list (Z * Z)) (id ty : Z) : list (Z * Z) :=
  if ty =? 0 then t else aset Z.eqb t id ty.

(* event_lib.py:52-82 *)
Definition lib_find (l : lib) (k : K) : Z * bool :=
  match aget keqb (lkeymap l) k with
  | Some id => (id, true)
  | None => (lnext l, false)
  end.

(* event_lib.py:84-131 *)
Definition lib_find_or_insert (l : lib) (k : K) (ty : Z) : lib * Z * bool :=
  match aget keqb (lkeymap l) k with
  | Some id => (l, id, true)
  | None =>
    let id := lnext l in
    (mkLib (aset Z.eqb (ldata l) id k) (set_type (ltype l) id ty)
           (aset keqb (lkeymap l) k id) (id + 1), id, false)
  end.

(* event_lib.py:133-176 *)
Definition lib_insert (l : lib) (id0 : Z) (k : K) (ty : Z) : lib * Z :=
  let id := if id0 =? 0 then lnext l else id0 in
  (mkLib (aset Z.eqb (ldata l) id k) (set_type (ltype l) id ty)
         (aset keqb (lkeymap l) k id)
         (if lnext l <=? id then id + 1 else lnext l), id).

(* event_lib.py:213-230 *)
Definition lib_update (l : lib) (id : Z) (k : K) (ty : Z) : lib :=
  let km :=
    match aget Z.eqb (ldata l) id with
    | Some old => if amem keqb (lkeymap l) old then adel keqb (lkeymap l) old else lkeymap l
    | None => lkeymap l
    end in
  fst (lib_insert (mkLib (ldata l) (ltype l) km (lnext l)) id k ty).

Definition lib_get (l : lib) (id : Z) : option K := aget Z.eqb (ldata l) id.
Definition lib_type (l : lib) (id : Z) : option Z := aget Z.eqb (ltype l) id.

(* sorted(rounded_data.items()): insertion sort by id (ids are unique dict keys) *)
Fixpoint insert_sorted {V} (x : Z * V) (l : list (Z * V)) : list (Z * V) :=
  match l with
  | [] => [x]
  | y :: r => if fst x <=? fst y then x :: l else y :: insert_sorted x r
  end.
Definition sort_by_id {V} (l : list (Z * V)) : list (Z * V) := fold_right insert_sorted [] l.

(* event_lib.py:249-315: returns the new library and the id mapping (always containing 0 -> 0) *)
Definition lib_remove_duplicates (rnd : K -> K) (l : lib) : lib * list (Z * Z) :=
  fold_left
    (fun (acc : lib * list (Z * Z)) (kv : Z * K) =>
       let '(nl, mp) := acc in
       let ty := match lib_type l (fst kv) with Some t => t | None => 0 end in
       let '(nl', id, _) := lib_find_or_insert nl (rnd (snd kv)) ty in
       (nl', aset Z.eqb mp (fst kv) id))
    (sort_by_id (ldata l))
    (lib_empty, [(0, 0)]).

End EventLib.

Arguments mkLib {K}.
Arguments ldata {K}.
Arguments ltype {K}.
Arguments lkeymap {K}.
Arguments lnext {K}.
Arguments lib_empty {K}.
Arguments lib_find {K}.
Arguments lib_find_or_insert {K}.
Arguments lib_insert {K}.
Arguments lib_update {K}.
Arguments lib_get {K}.
Arguments lib_type {K}.
Arguments lib_remove_duplicates {K}.
