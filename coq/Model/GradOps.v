(* Model/GradOps.v — gradient helpers of pypulseq as total functions over Q:
     scale_grad.py, make_extended_trapezoid.py (as called by the splitters), split_gradient.py,
     split_gradient_at.py, calc_duration.py + align.py (over abstract events), rotate.py.
   Follows the Python source statement by statement (file:line in comments); the constants come
   from Gen/GenGradOps.v (re-read from the source on every run).  Executable definitions only.
   Exceptions of the code are the error classes [gerr]; objects are immutable records, the one
   function that mutates its argument (split_gradient) also returns the argument's new value. *)
From Coq Require Import ZArith QArith Qround Qabs List Bool.
From PV Require Import Base.QUtil Base.Round Base.PWL Gen.GenGradOps.
Import ListNotations.
Open Scope Q_scope.

(* ---- events ---------------------------------------------------------------------------------- *)
(* channels: 0 = 'x', 1 = 'y', 2 = 'z' *)
Record trap := mkTrap {
  t_ch : nat; t_amp : Q; t_rise : Q; t_flat : Q; t_fall : Q; t_delay : Q;
  t_area : Q; t_flat_area : Q; t_id : option Z }.

(* type 'grad': extended trapezoid (tt = corner times) or arbitrary gradient (tt = raster centres) *)
Record egrad := mkEg {
  e_ch : nat; e_delay : Q; e_tt : list Q; e_wf : list Q; e_sdur : Q;
  e_first : Q; e_last : Q; e_area : option Q; e_id : option Z }.

Inductive grad := GTrap (g : trap) | GExt (g : egrad).

Record sys := mkSys { raster : Q; max_grad : Q; max_slew : Q }.

Inductive gerr :=
| EChannel        (* ValueError: invalid channel                                              *)
| EAllZero        (* ValueError: at least one of the given times must be non-zero              *)
| ENotAscending   (* ValueError: times must be ascending and distinct                          *)
| ERaster         (* ValueError: time point(s) not on the gradient raster                      *)
| EConnect        (* ValueError: first amplitude non-zero must connect to previous block       *)
| ESlew           (* ValueError: slew rate violation                                           *)
| EGradAmp        (* ValueError: gradient amplitude violation                                  *)
| EEmptyMax       (* ValueError: max() of an empty sequence (single-corner "gradient")         *)
| EAfterEnd       (* ValueError: splitting at a time point after the end of the gradient       *)
| ENotImpl        (* ValueError: splitting of arbitrary gradients is not implemented           *)
| EBrokenArb      (* AttributeError: the arbitrary branch of split_gradient_at reads grad.t    *)
| ENegDelay       (* ValueError: align() attempts to set a negative delay                      *)
| EBadSpec        (* ValueError: invalid alignment spec                                        *)
| EAxis           (* ValueError: rotation axis not in the axis list                            *)
| EAdd.           (* add_gradients raised                                                      *)

Inductive res (A : Type) := OK (a : A) | Err (e : gerr).
Arguments OK {A}. Arguments Err {A}.

(* ---- small numeric helpers ------------------------------------------------------------------- *)
Fixpoint lmax (l : list Q) : Q := match l with [] => 0 | x :: r => Qmax x (lmax r) end.
Fixpoint diffs (l : list Q) : list Q :=
  match l with
  | a :: tl => match tl with b :: _ => (b - a) :: diffs tl | [] => [] end
  | [] => []
  end.
Fixpoint zipdiv (a b : list Q) : list Q :=
  match a, b with x :: a', y :: b' => (x / y) :: zipdiv a' b' | _, _ => [] end.
(* round(x / raster) * raster *)
Definition to_raster (r x : Q) : Q := inject_Z (rnd_he (x / r)) * r.
(* not (abs(round(t / raster) * raster - t) > eps) *)
Definition on_raster (r t : Q) : bool := Qle_bool (Qabs (to_raster r t - t)) pp_eps.

(* ---- rendering (Sequence.waveforms_and_times, sequence.py:1443-1486) ------------------------- *)
Definition trap_corners (g : trap) : pwl :=
  if Qeq_bool (t_flat g) 0
  then [(0, 0); (t_rise g, t_amp g); (t_rise g + t_fall g, 0)]
  else [(0, 0); (t_rise g, t_amp g); (t_rise g + t_flat g, t_amp g);
        (t_rise g + t_flat g + t_fall g, 0)].

Fixpoint is_arb_from (r : Q) (k : Z) (tt : list Q) : bool :=
  match tt with
  | [] => true
  | t :: tl => Qltb (Qabs (t / r + (1 # 2) - inject_Z k)) pp_eps && is_arb_from r (k + 1) tl
  end.
Definition is_arb (r : Q) (tt : list Q) : bool := is_arb_from r 1 tt.

Definition egrad_corners (r : Q) (e : egrad) : pwl :=
  if is_arb r (e_tt e)
  then (0, e_first e) :: combine (e_tt e) (e_wf e) ++ [(last (e_tt e) 0 + r / 2, e_last e)]
  else combine (e_tt e) (e_wf e).

Definition to_pwl (r : Q) (g : grad) : pwl :=
  match g with
  | GTrap t => shift (t_delay t) (trap_corners t)
  | GExt e => shift (e_delay e) (egrad_corners r e)
  end.

Definition g_ch (g : grad) : nat := match g with GTrap t => t_ch t | GExt e => e_ch e end.
Definition g_delay (g : grad) : Q := match g with GTrap t => t_delay t | GExt e => e_delay e end.

(* ---- scale_grad.py:22-37 ---------------------------------------------------------------------- *)
Definition scale_grad (g : grad) (k : Q) : grad :=
  match g with
  | GTrap t =>
    GTrap (mkTrap (t_ch t) (t_amp t * k) (t_rise t) (t_flat t) (t_fall t) (t_delay t)
                  (t_area t * k) (t_flat_area t * k) None)
  | GExt e =>
    GExt (mkEg (e_ch e) (e_delay e) (e_tt e) (map (fun w => w * k) (e_wf e)) (e_sdur e)
               (e_first e * k) (e_last e * k) (option_map (fun a => a * k) (e_area e)) None)
  end.

(* ---- make_extended_trapezoid.py:66-141 (convert_to_arbitrary=False, max_grad=max_slew=0).
   times/amplitudes travel as one list of pairs, so the length test (:81) cannot fail. ------------ *)
Definition make_ext_trap (s : sys) (ch : nat) (skip_check : bool) (p : pwl) : res egrad :=
  let tms := map fst p in
  let amps := map snd p in
  let r := raster s in
  if (3 <=? ch)%nat then Err EChannel                                             (* :75 *)
  else if forallb (fun t => Qeq_bool t 0) tms then Err EAllZero                   (* :84 *)
  else if existsb (fun d => Qle_bool d 0) (diffs tms) then Err ENotAscending      (* :87 *)
  else if negb (on_raster r (last tms 0)) then Err ERaster                        (* :90 *)
  else if negb skip_check && Qltb 0 (hd 0 tms) && negb (Qeq_bool (hd 0 amps) 0)
       then Err EConnect                                                          (* :93 *)
  else if negb (forallb (on_raster r) tms) then Err ERaster                       (* :115 *)
  else
    let d := to_raster r (hd 0 tms) in                                            (* :123 *)
    let tt := map (fun t => t - d) tms in                                         (* :124 *)
    let slews := zipdiv (diffs amps) (diffs tt) in                                (* :131 *)
    match slews with
    | [] => Err EEmptyMax                                                         (* :133 max([]) *)
    | _ =>
      if Qltb (max_slew s * (1 + pp_eps)) (lmax (map Qabs slews)) then Err ESlew  (* :133 *)
      else if Qltb (max_grad s + pp_eps) (lmax (map Qabs amps)) then Err EGradAmp (* :135 *)
      else OK (mkEg ch d tt amps (last tt 0) (hd 0 amps) (last amps 0)
                    (Some (area (combine tt amps))) None)                         (* :119-129 *)
    end.

Definition with_delay (e : egrad) (d : Q) : egrad :=
  mkEg (e_ch e) d (e_tt e) (e_wf e) (e_sdur e) (e_first e) (e_last e) (e_area e) (e_id e).

(* the four statements `grad.F = round(grad.F / raster) * raster` (split_gradient.py:54-57,
   split_gradient_at.py:92-95) *)
Definition round_trap (r : Q) (g : trap) : trap :=
  mkTrap (t_ch g) (t_amp g) (to_raster r (t_rise g)) (to_raster r (t_flat g)) (to_raster r (t_fall g))
         (to_raster r (t_delay g)) (t_area g) (t_flat_area g) (t_id g).

(* ---- split_gradient.py:46-103.  Returns the result and the argument as it is after the call
   (the trapezoid is rounded IN PLACE before anything can raise). ---------------------------------- *)
Definition split_gradient (s : sys) (g : grad) : res (egrad * egrad * egrad) * grad :=
  match g with
  | GTrap t =>
    let total := t_delay t + t_rise t + t_flat t + t_fall t in                      (* :50 *)
    let t' := round_trap (raster s) t in
    let ch := t_ch t in
    (match make_ext_trap s ch true [(0, 0); (t_rise t', t_amp t)] with              (* :59-67 *)
     | Err e => Err e
     | OK up =>
       match make_ext_trap s ch true [(0, t_amp t); (t_fall t', 0)] with            (* :70-78 *)
       | Err e => Err e
       | OK down =>
         match make_ext_trap s ch true [(0, t_amp t); (t_flat t', t_amp t)] with    (* :81-90 *)
         | Err e => Err e
         | OK flat =>
           OK (with_delay up (t_delay t'),                                          (* :68 *)
               with_delay flat (t_delay t' + t_rise t'),                            (* :91 *)
               with_delay down (total - t_fall t'))                                 (* :79 *)
         end
       end
     end, GTrap t')
  | GExt _ => (Err ENotImpl, g)                                                     (* :100 *)
  end.

(* ---- split_gradient_at.py --------------------------------------------------------------------- *)
(* np.interp(x, xp, fp) for one x: end values outside, linear inside *)
Fixpoint np_interp_go (x t0 v0 : Q) (r : pwl) : Q :=
  match r with
  | [] => v0
  | (t1, v1) :: r' => if Qle_bool x t1 then interp t0 v0 t1 v1 x else np_interp_go x t1 v1 r'
  end.
Definition np_interp (x : Q) (p : pwl) : Q :=
  match p with
  | [] => 0
  | (t0, v0) :: r => if Qle_bool x t0 then v0 else np_interp_go x t0 v0 r
  end.

Inductive split_out := SOne (g : grad) | STwo (g1 g2 : egrad).

(* split_gradient_at.py:63-65: note that the code tests tt[-1] (not tt[0]) against raster/2 *)
Definition arb_test (r : Q) (tt : list Q) : bool :=
  Qltb (Qabs (last tt 0 - (1 # 2) * r)) split_arb_tol
  && forallb (fun d => Qltb (Qabs (d - r)) split_arb_tol) (diffs tt).

Definition round_times (p : pwl) : pwl :=
  map (fun tv => (round_dec split_round_digits (fst tv), snd tv)) p.
Definition before_cut (tp : Q) (p : pwl) : pwl :=
  filter (fun tv => Qltb (fst tv) (tp - split_t_eps)) p.
Definition after_cut (tp : Q) (p : pwl) : pwl :=
  filter (fun tv => Qltb (tp + split_t_eps) (fst tv)) p.

(* :112-158; [delay] and [corners] describe the (rounded) input, [tp] the rounded time point *)
Definition split_core (s : sys) (ch : nat) (delay : Q) (corners : pwl) (tp : Q) : res split_out :=
  if Qle_bool (delay + tlast corners) tp then Err EAfterEnd                        (* :113 *)
  else
    let through := Qltb tp delay in                                                 (* :117 *)
    let corners1 := if through then (0, 0) :: shift delay corners else corners in   (* :118-119 *)
    let delay1 := if through then 0 else delay in                                   (* :120 *)
    let tp1 := if through then tp else tp - delay in                                (* :122 *)
    let cs := round_times corners1 in                                               (* :125 *)
    let a := np_interp tp1 cs in                                                    (* :128 *)
    let p1 := before_cut tp1 cs ++ [(tp1, a)] in                                    (* :130-131 *)
    let p2 := shift (- tp1) ((tp1, a) :: after_cut tp1 cs) in                       (* :132-133 *)
    match make_ext_trap s ch true p1 with                                           (* :136 *)
    | Err e => Err e
    | OK g1 =>
      match make_ext_trap s ch true p2 with                                         (* :144 *)
      | Err e => Err e
      | OK g2 => OK (STwo (with_delay g1 delay1) (with_delay g2 (delay1 + tp1)))    (* :143,151 *)
      end
    end.

Definition split_time_point (r tp : Q) : Q :=
  round_dec split_round_digits (inject_Z (rnd_he (tp / r)) * r).                    (* :56-58 *)

Definition split_gradient_at (s : sys) (g : grad) (tp : Q) : res split_out :=
  let r := raster s in
  let ti := rnd_he (tp / r) in                                                      (* :56 *)
  let tp' := split_time_point r tp in                                               (* :58 *)
  match g with
  | GExt e =>
    if arb_test r (e_tt e) then                                                     (* :63 *)
      if (ti =? 0)%Z || (Z.of_nat (length (e_tt e)) <=? ti)%Z then OK (SOne g)      (* :68 *)
      else Err EBrokenArb                                                           (* :71-86 *)
    else split_core s (e_ch e) (e_delay e) (combine (e_tt e) (e_wf e)) tp'          (* :89-90 *)
  | GTrap t =>
    let t' := round_trap r t in                                                     (* :92-95 *)
    split_core s (t_ch t) (t_delay t') (trap_corners t') tp'                        (* :98-108 *)
  end.

(* ---- calc_duration.py + align.py over abstract events ------------------------------------------
   Every event kind has duration = delay + (a length that does not depend on the delay):
   rf: shape_dur + ringdown_time, grad: shape_dur, adc: num_samples*dwell + dead_time,
   trap: rise + flat + fall, output/trigger: duration, delay: 0 (calc_duration.py:39-55).
   [a_tag] stands for all other fields of the event, [a_id] for the optional library id. *)
Record aev := mkAev { a_len : Q; a_delay : Q; a_tag : Z; a_id : option Z }.

Definition ev_duration (e : aev) : Q := a_delay e + a_len e.
(* calc_duration.py:29-58: duration = 0; duration = max(duration, ...) *)
Definition calc_duration (l : list aev) : Q :=
  fold_left (fun d e => Qmax d (ev_duration e)) l 0.

(* align.py:66-69: the copy drops the library id (it is a new event), then gets its delay *)
Definition set_delay (e : aev) (d : Q) : aev :=
  mkAev (a_len e) d (a_tag e) (if align_drops_id then None else a_id e).

(* align.py:65-75; calc_duration(objects[i]) of ONE event is max(0, delay + length) *)
Fixpoint align_go (dur : Q) (l : list (nat * aev)) : res (list aev) :=
  match l with
  | [] => OK []
  | (sp, e) :: r =>
    let nd :=
      if Nat.eqb sp align_left then OK 0                                            (* :66-67 *)
      else if Nat.eqb sp align_center
           then OK ((dur - calc_duration [e] + a_delay e) / 2)                          (* :68-69 *)
      else if Nat.eqb sp align_right then
             let d := dur - calc_duration [e] + a_delay e in                            (* :71 *)
             if Qltb d 0 then Err ENegDelay else OK d                               (* :72-75 *)
      else OK (a_delay e) in
    match nd with
    | Err x => Err x
    | OK d => match align_go dur r with Err x => Err x | OK r' => OK (set_delay e d :: r') end
    end
  end.

(* align.py:39-77; the keyword arguments are flattened to (spec, event) pairs in order *)
Definition align (l : list (nat * aev)) : res (list aev) :=
  if existsb (fun se => (2 <? fst se)%nat) l then Err EBadSpec                      (* :44-45 *)
  else align_go (calc_duration (map snd l)) l.                                      (* :59 *)

(* ---- rotate.py --------------------------------------------------------------------------------- *)
Inductive rev := RG (g : grad) | RO (tok : Z).     (* gradient event | any other event (opaque) *)

Definition set_ch (g : grad) (c : nat) : grad :=
  match g with
  | GTrap t => GTrap (mkTrap c (t_amp t) (t_rise t) (t_flat t) (t_fall t) (t_delay t) (t_area t)
                             (t_flat_area t) (t_id t))
  | GExt e => GExt (mkEg c (e_delay e) (e_tt e) (e_wf e) (e_sdur e) (e_first e) (e_last e)
                         (e_area e) (e_id e))
  end.

(* rotate.py:12-15 *)
Definition gmag (g : grad) : Q :=
  match g with GTrap t => Qabs (t_amp t) | GExt e => lmax (map Qabs (e_wf e)) end.

Fixpoint remove_first (a : nat) (l : list nat) : list nat :=
  match l with [] => [] | x :: r => if Nat.eqb x a then r else x :: remove_first a r end.

Record rot_pre := mkRotPre {
  rp_bypass : list rev; rp_rot1 : list grad; rp_rot2 : list grad; rp_thr : Q }.

(* rotate.py:57-69 *)
Fixpoint classify (axis a0 a1 : nat) (evs : list rev) : list rev * list grad * list grad :=
  match evs with
  | [] => ([], [], [])
  | ev :: r =>
    let '(b, r1, r2) := classify axis a0 a1 r in
    match ev with
    | RO _ => (ev :: b, r1, r2)
    | RG g =>
      if Nat.eqb (g_ch g) axis then (ev :: b, r1, r2)
      else if Nat.eqb (g_ch g) a0 then (b, g :: r1, r2)
      else if Nat.eqb (g_ch g) a1 then (b, r1, g :: r2)
      else (ev :: b, r1, r2)
    end
  end.

Definition drop_small (thr : Q) (l : list grad) : list grad :=
  filter (fun g => negb (Qltb (gmag g) thr)) l.

(* rotate.py:42-99: classification, cos/sin scaling with channel reassignment, first elimination *)
Definition rotate_pre (c s : Q) (axis : nat) (evs : list rev) : res rot_pre :=
  if negb (existsb (Nat.eqb axis) rot_axes) then Err EAxis                          (* :52 *)
  else
    match remove_first axis rot_axes with
    | [a0; a1] =>
      let '(byp, g1, g2) := classify axis a0 a1 evs in
      let tgt k := nth k [a0; a1] a0 in
      let rotated1 := map (fun g => scale_grad g c) g1                              (* :79 *)
                      ++ map (fun g => set_ch (scale_grad g (rot_cross2_sign * s))
                                              (tgt rot_cross2_target)) g2 in        (* :88-90 *)
      let rotated2 := map (fun g => set_ch (scale_grad g (rot_cross1_sign * s))
                                           (tgt rot_cross1_target)) g1              (* :80-82 *)
                      ++ map (fun g => scale_grad g c) g2 in                        (* :87 *)
      let max_mag := lmax (map gmag (g1 ++ g2)) in                                  (* :78,86 *)
      let thr := rot_elim_factor * max_mag in                                       (* :93 *)
      OK (mkRotPre byp (drop_small thr rotated1) (drop_small thr rotated2) thr)     (* :94-99 *)
    | _ => Err EAxis                                                                (* :54-55 *)
    end.

(* rotate.py:101-116: per-channel add_gradients, second elimination, export *)
Definition rotate_post (add : list grad -> res grad) (p : rot_pre) : res (list rev) :=
  let addl (l : list grad) : res (list grad) :=
    match l with [] => OK [] | _ => match add l with OK g => OK [g] | Err e => Err e end end in
  match addl (rp_rot1 p) with
  | Err e => Err e
  | OK s1 =>
    match addl (rp_rot2 p) with
    | Err e => Err e
    | OK s2 => OK (rp_bypass p ++ map RG (drop_small (rp_thr p) (s1 ++ s2)))
    end
  end.

Definition rotate (add : list grad -> res grad) (c s : Q) (axis : nat) (evs : list rev)
  : res (list rev) :=
  match rotate_pre c s axis evs with Err e => Err e | OK p => rotate_post add p end.

(* add_gradients.py:54-63: one gradient is returned as a copy *)
Definition add_single (l : list grad) : res grad :=
  match l with [g] => OK g | _ => Err EAdd end.
