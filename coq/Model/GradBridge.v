(* Model/GradBridge.v — conversion between the event records of Model/GradOps.v (rotate, scale, split)
   and of Model/AddGrad.v (add_gradients), and rotate's call of add_gradients through it.
   Executable definitions only. *)
From Coq Require Import ZArith QArith List Bool.
From PV Require Import Base.QUtil Base.PWL Model.GradOps.
From PV Require Model.AddGrad.
Import ListNotations.
Open Scope Q_scope.

Definition to_ag (g : grad) : AddGrad.grad :=
  match g with
  | GTrap t => AddGrad.GTrap (AddGrad.mkTrap (t_amp t) (t_rise t) (t_flat t) (t_fall t) (t_delay t))
  | GExt e => AddGrad.GExt (AddGrad.mkEG (e_delay e) (e_tt e) (e_wf e) (e_first e) (e_last e) (e_sdur e))
  end.

(* make_trapezoid computes area and flat_area from the amplitude (make_trapezoid.py:248-249) *)
Definition of_ag (ch : nat) (g : AddGrad.grad) : grad :=
  match g with
  | AddGrad.GTrap t =>
    let a := AddGrad.tr_amp t in
    GTrap (mkTrap ch a (AddGrad.tr_rise t) (AddGrad.tr_flat t) (AddGrad.tr_fall t) (AddGrad.tr_delay t)
                  (a * (AddGrad.tr_flat t + AddGrad.tr_rise t / 2 + AddGrad.tr_fall t / 2))
                  (a * AddGrad.tr_flat t) None)
  | AddGrad.GExt e =>
    (* make_extended_trapezoid.py:126 / make_arbitrary_grad.py: the makers also store an area; the
       trapezoid-rule value is the one of make_extended_trapezoid (the only maker reached from rotate on
       trapezoid / extended-trapezoid inputs) *)
    GExt (mkEg ch (AddGrad.eg_delay e) (AddGrad.eg_tt e) (AddGrad.eg_wf e) (AddGrad.eg_shape_dur e)
               (AddGrad.eg_first e) (AddGrad.eg_last e)
               (Some (area (combine (AddGrad.eg_tt e) (AddGrad.eg_wf e)))) None)
  end.

Definition ag_sys (s : sys) : AddGrad.sys := AddGrad.mkSys (max_grad s) (max_slew s) (raster s).

(* rotate.py:104,107: add_gradients(grads=..., system=system); the sum plays on the channel of the first *)
Definition add_c16 (s : sys) (l : list grad) : res grad :=
  match l with
  | [] => Err EAdd
  | [g0] => OK g0                                   (* add_gradients.py:54-63: a copy of the only summand *)
  | g0 :: _ =>
    match AddGrad.add_gradients (ag_sys s) 0 0 (map to_ag l) with
    | AddGrad.OK (_, g) => OK (of_ag (g_ch g0) g)
    | AddGrad.Err _ => Err EAdd
    end
  end.

