(* Model/TimeShape.v — how the time points of a shape-based gradient are stored and decoded
   (block.py: register_grad_event decides "regular" with the tolerance of Gen/GenTimeShape.v and stores a time
   shape in raster units otherwise; get_block decodes (k + 1/2) * raster for a regular vector and
   (decoded time shape) * raster otherwise).  Exact rationals; executable definitions only. *)
From Coq Require Import List Bool ZArith QArith Qabs.
From PV Require Import Gen.GenTimeShape.
Import ListNotations.
Open Scope Q_scope.

(* |tt_k / raster - 1/2 - k| < tol for every k, counting k from k0 *)
Fixpoint regular_from (raster tol : Q) (k0 : Z) (tt : list Q) : bool :=
  match tt with
  | [] => true
  | t :: r =>
    (if Qlt_le_dec (Qabs (t / raster - (1 # 2) - inject_Z k0)) tol then true else false)
    && regular_from raster tol (k0 + 1) r
  end.
Definition tt_regular (raster : Q) (tt : list Q) : bool := regular_from raster tt_tol 0 tt.

(* what is stored: nothing (time id 0) or the vector in raster units *)
Definition stored_time_shape (raster : Q) (tt : list Q) : option (list Q) :=
  if tt_regular raster tt then None else Some (map (fun t => t / raster) tt).

(* what get_block returns for n samples *)
Fixpoint centres_from (raster : Q) (k0 : Z) (n : nat) : list Q :=
  match n with
  | O => []
  | S m => ((inject_Z k0 + (1 # 2)) * raster) :: centres_from raster (k0 + 1) m
  end.
Definition decoded_tt (raster : Q) (n : nat) (ts : option (list Q)) : list Q :=
  match ts with
  | None => centres_from raster 0 n
  | Some u => map (fun x => x * raster) u
  end.
