(* Model/Trap.v — src/pypulseq/make_trapezoid.py as a total function over Q.
   Executable definitions only (lemmas are in Proofs/TrapProofs.v).  The tolerance [trap_eps] and the
   default delay come from Gen/GenTrap.v, which the translator regenerates from the source after
   comparing every transcribed expression with the text below (fail-closed).

   Line numbers refer to make_trapezoid.py after the two repairs of this round
   (area/(rise/2+fall/2+flat) on the area+flat_time branch; clamp of rounding noise and rejection of
   non-positive ramps / negative flat time after the limit checks, in front of the construction). *)
From Coq Require Import ZArith QArith Qround Qabs Bool.
From PV Require Import Base.QUtil Gen.GenTrap.
Open Scope Q_scope.

(* ---- exceptions, in source order ------------------------------------------------------------ *)
Inductive trap_err : Type :=
| E_channel            (* ValueError  'Invalid channel'                                   :122 *)
| E_ni_flat_area_amp   (* NotImplementedError 'Flat Area + Amplitude'                     :144 *)
| E_ni_amp_area        (* NotImplementedError 'Amplitude + Area'                          :146 *)
| E_must_supply        (* ValueError  "Must supply either 'area', 'flat_area' or ..."     :148 *)
| E_flat_time_needs    (* ValueError  'When `flat_time` is provided, ...'                 :151 *)
| E_min_duration       (* AssertionError 'Requested area is too large ... Minimum'        :165 *)
| E_dur_short_rise     (* ValueError  'The `duration` is too short for the given `rise_time`' :173 *)
| E_not_possible       (* AssertionError 'Requested area is too large ... Probably'       :181 *)
| E_must_rise          (* ValueError  'Must supply `rise_time` when `area` and `flat_time`' :190 (dead) *)
| E_dur_inconsistent   (* ValueError  'The `duration` is inconsistent ...' (proposed repair; only if trap_flat_checks_duration) *)
| E_ni_flat_area_dur   (* NotImplementedError 'Flat Area + Duration'                      :205 *)
| E_area_or_duration   (* ValueError  'Must supply area or duration.'                     :223 *)
| E_amp                (* ValueError  'Refined amplitude ... is larger than max'          :233 *)
| E_slew_rise          (* ValueError  'Refined slew rate ... for ramp up'                 :231 *)
| E_slew_fall          (* ValueError  'Refined slew rate ... for ramp down'               :236 *)
| E_timing             (* ValueError  'Invalid timing: rise_time ... must be positive and flat_time ...' :243 (repair of defect 14) *)
| E_unbound            (* UnboundLocalError: amplitude2 never assigned (flat_area without flat_time) *)
| E_zerodiv            (* ZeroDivisionError                                                     *)
| E_type               (* TypeError: arithmetic on None                                         *)
| E_unmodelled.        (* non-positive max_grad / max_slew / raster: outside the model          *)

Inductive tresult (A : Type) : Type :=
| OK (a : A)
| Err (e : trap_err).
Arguments OK {A} a.
Arguments Err {A} e.

Record tsys : Type := { s_max_grad : Q; s_max_slew : Q; s_raster : Q }.

Record targs : Type := {
  a_channel_ok : bool;            (* channel in ['x','y','z'] *)
  a_amplitude : option Q;
  a_area : option Q;
  a_delay : option Q;             (* None = parameter omitted (default 0) *)
  a_duration : option Q;
  a_fall : option Q;
  a_flat_area : option Q;
  a_flat_time : option Q;
  a_max_grad : option Q;
  a_max_slew : option Q;
  a_rise : option Q;
  a_sys : tsys
}.

Record trap : Type := {
  t_amplitude : Q; t_rise : Q; t_flat : Q; t_fall : Q; t_area : Q; t_flat_area : Q; t_delay : Q
}.

Definition eps : Q := trap_eps.

(* ---- arithmetic helpers --------------------------------------------------------------------- *)
(* Python `x or y` on Optional[float]: None and 0 are falsy *)
Definition por (x y : option Q) : option Q :=
  match x with
  | Some v => if Qeq_bool v 0 then y else x
  | None => y
  end.

(* math.ceil(t / raster) * raster *)
Definition ceil_raster (t r : Q) : Q := inject_Z (Qceiling (t / r)) * r.

(* math.ceil(math.sqrt(x) / r) for x >= 0, r > 0, computed exactly:
   the least n >= 0 with (n*r)^2 >= x, i.e. Z.sqrt_up (ceil (x / r^2)). *)
Definition ceil_sqrt_div (x r : Q) : Z := Z.sqrt_up (Qceiling (x / (r * r))).

Definition isz (q : Q) : bool := Qeq_bool q 0.

(* ---- calculate_shortest_params_for_area  (make_trapezoid.py:11-33) ------------------------------ *)
Definition shortest_params (area max_slew max_grad raster : Q) : Q * Q * Q * Q :=
  let rise1 := Qmax (inject_Z (ceil_sqrt_div (Qabs area / max_slew) raster) * raster) raster in  (* :15-16 *)
  let amp1 := area / rise1 in                                                                   (* :19 *)
  if Qltb (max_grad + eps) (Qabs amp1) then                                                     (* :23 *)
    let eff := ceil_raster (Qabs area / max_grad) raster in                                     (* :24 *)
    let amp := area / eff in                                                                    (* :25 *)
    let rise := Qmax (ceil_raster (Qabs amp / max_slew) raster) raster in                       (* :26-27 *)
    (amp, rise, eff - rise, rise)                                                               (* :30-33 *)
  else (amp1, rise1, rise1 - rise1, rise1).

(* calculate_shortest_rise_time (make_trapezoid.py:36-39) *)
Definition shortest_rise_time (amp max_slew raster : Q) : Q :=
  ceil_raster (Qmax (Qabs amp / max_slew) raster) raster.

(* ---- the three calculation paths: each yields (amplitude2, rise_time, flat_time, fall_time) ------ *)
Definition path_out : Type := (Q * option Q * Q * option Q)%type.

(* Two repairs are proposed but not necessarily in the repository; the translator reads which form the
   source has (Gen/GenTrap.v) and fails closed unless it is the expected one:
     trap_possible_tolerant    `duration >= rise + fall - eps` and flat_time = max(duration - rise - fall, 0.0)
                               instead of the exact test and the plain difference (:180, :185);
     trap_flat_checks_duration area + flat_time + ramps rejects a `duration` that differs from
                               rise + flat + fall by more than eps instead of ignoring it (:192). *)
Definition dur_tol : Q := if trap_possible_tolerant then eps else 0.
Definition dur_flat (d r f : Q) : Q :=
  if trap_possible_tolerant then Qmax (d - r - f) 0 else d - r - f.                             (* :185 *)

Definition area_path (area : Q) (dur ft rise0 fall0 : option Q) (max_grad max_slew raster : Q)
  : tresult path_out :=
  match dur, ft with
  | Some d, None =>                                                           (* :159 area and duration *)
    match rise0 with
    | None =>                                                                 (* :160 *)
      let '(_, r, fl, f) := shortest_params area max_slew max_grad raster in  (* :161 *)
      let min_dur := r + fl + f in                                            (* :164 *)
      if Qltb d min_dur then Err E_min_duration else                          (* :165 assert *)
      (* :170-171 compute a value that is overwritten at :186 (not modelled) *)
      let flat := dur_flat d r f in                                           (* :185 *)
      let den := r / 2 + f / 2 + flat in
      if isz den then Err E_zerodiv else
      OK (area / den, Some r, flat, Some f)                                   (* :186 *)
    | Some r =>
      if Qle_bool d (r + eps) then Err E_dur_short_rise else                  (* :173 *)
      let f := match fall0 with None => r | Some f => f end in                (* :176 *)
      let d1 := d - (1 # 2) * r - (1 # 2) * f in
      if isz d1 then Err E_zerodiv else
      let amp := area / d1 in                                                 (* :179 *)
      if negb (Qle_bool (r + f - dur_tol) d && Qle_bool (Qabs amp) max_grad)  (* :180 *)
      then Err E_not_possible else
      let flat := dur_flat d r f in                                           (* :185 *)
      let den := r / 2 + f / 2 + flat in
      if isz den then Err E_zerodiv else
      OK (area / den, Some r, flat, Some f)                                   (* :186 *)
    end
  | _, Some t =>                                                              (* :188 flat_time given *)
    match rise0 with
    | None => Err E_must_rise                                                 (* :190 *)
    | Some r =>
      match fall0 with
      | None => Err E_type
      | Some f =>
        if trap_flat_checks_duration &&
           match dur with Some d => Qltb eps (Qabs (d - (r + t + f))) | None => false end
        then Err E_dur_inconsistent else                                      (* proposed repair *)
        let den := r / 2 + f / 2 + t in                                       (* :192 (repaired) *)
        if isz den then Err E_zerodiv else OK (area / den, Some r, t, Some f)
      end
    end
  | None, None =>                                                             (* :194 area only *)
    let '(amp, r, fl, f) := shortest_params area max_slew max_grad raster in  (* :198 *)
    OK (amp, Some r, fl, Some f)
  end.

Definition flat_area_path (fa : Q) (dur ft rise0 fall0 : option Q) : tresult path_out :=
  match dur with
  | Some _ => Err E_ni_flat_area_dur                                          (* :205 *)
  | None =>
    match ft with
    | Some t => if isz t then Err E_zerodiv else OK (fa / t, rise0, t, fall0) (* :207 *)
    | None => Err E_unbound                                  (* amplitude2 is never bound: :226/:228 *)
    end
  end.

Definition amplitude_path (amp : Q) (dur ft rise0 fall0 : option Q) (max_slew raster : Q)
  : tresult path_out :=
  let '(rise, fall) :=
    match rise0 with
    | None =>                                                                 (* :210 *)
      let r0 := ceil_raster (Qabs amp / max_slew) raster in                   (* :211-212 *)
      let r := if isz r0 then raster else r0 in                               (* :213 *)
      (Some r, Some r)                                                        (* :215 *)
    | Some _ => (rise0, fall0)
    end in
  match dur, ft with
  | Some d, None =>                                                           (* :218 *)
    match rise, fall with
    | Some r, Some f => OK (amp, rise, d - r - f, fall)                       (* :219 (unchecked here) *)
    | _, _ => Err E_type
    end
  | None, Some t => OK (amp, rise, t, fall)                                   (* :220 *)
  | _, _ => Err E_area_or_duration                                            (* :223 *)
  end.

(* ---- the common tail: default ramps, limit checks, timing validation, the returned event (:225-263) *)
Definition clamp_flat (flat : Q) : Q :=
  if Qltb (- eps) flat && Qltb flat 0 then 0 else flat.                                     (* :241 *)

Definition finish (p : path_out) (max_grad max_slew raster delay : Q) : tresult trap :=
  let '(amp2, rise0, flat0, fall0) := p in
  let '(rise, fall) :=
    match rise0, fall0 with
    | None, None => let r := shortest_rise_time amp2 max_slew raster in (Some r, Some r)   (* :225 *)
    | _, _ => (rise0, fall0)
    end in
  if Qltb (max_grad + eps) (Qabs amp2) then Err E_amp else                                  (* :228 *)
  match rise with
  | None => Err E_type
  | Some r =>
    if isz r then Err E_zerodiv else
    if Qltb (max_slew * (1 + eps)) (Qabs amp2 / r) then Err E_slew_rise else                (* :231 *)
    match fall with
    | None => Err E_type
    | Some f =>
      if isz f then Err E_zerodiv else
      if Qltb (max_slew * (1 + eps)) (Qabs amp2 / f) then Err E_slew_fall else              (* :236 *)
      let flat := clamp_flat flat0 in                                                       (* :241 *)
      if Qle_bool r 0 || Qle_bool f 0 || Qltb flat 0 then Err E_timing else                 (* :243 *)
      OK {| t_amplitude := amp2; t_rise := r; t_flat := flat; t_fall := f;
            t_area := amp2 * (flat + r / 2 + f / 2);                                        (* :256 *)
            t_flat_area := amp2 * flat;                                                     (* :257 *)
            t_delay := delay |}
    end
  end.

Definition opt_default (o : option Q) (d : Q) : Q := match o with Some v => v | None => d end.

Definition eff_max_grad (a : targs) : Q := opt_default (a_max_grad a) (s_max_grad (a_sys a)).   (* :125 *)
Definition eff_max_slew (a : targs) : Q := opt_default (a_max_slew a) (s_max_slew (a_sys a)).   (* :128 *)
Definition raster_of (a : targs) : Q := s_raster (a_sys a).

Definition is_some {A} (o : option A) : bool := match o with Some _ => true | None => false end.

(* ---- make_trapezoid (:42-257) --------------------------------------------------------------- *)
Definition make_trap (a : targs) : tresult trap :=
  if negb (a_channel_ok a) then Err E_channel else                                          (* :122 *)
  let max_grad := eff_max_grad a in
  let max_slew := eff_max_slew a in
  let raster := raster_of a in
  if negb (Qltb 0 max_grad && Qltb 0 max_slew && Qltb 0 raster) then Err E_unmodelled else
  let rise0 := por (a_rise a) (a_fall a) in                                                 (* :132 *)
  let fall0 := por (a_fall a) rise0 in                                                      (* :133 *)
  let dur := a_duration a in
  let ft := a_flat_time a in
  let delay := opt_default (a_delay a) trap_default_delay in
  let needs := is_some ft && negb (is_some (a_flat_area a)) && negb (is_some (a_amplitude a))
               && (negb (is_some rise0) || negb (is_some (a_area a))) in                    (* :151 *)
  match a_area a, a_flat_area a, a_amplitude a with
  | Some area, None, None =>                                                                (* :137 *)
    if needs then Err E_flat_time_needs else
    match area_path area dur ft rise0 fall0 max_grad max_slew raster with
    | Err e => Err e
    | OK p => finish p max_grad max_slew raster delay
    end
  | None, Some fa, None =>                                                                  (* :139 *)
    if needs then Err E_flat_time_needs else
    match flat_area_path fa dur ft rise0 fall0 with
    | Err e => Err e
    | OK p => finish p max_grad max_slew raster delay
    end
  | None, None, Some amp =>                                                                 (* :141 *)
    if needs then Err E_flat_time_needs else
    match amplitude_path amp dur ft rise0 fall0 max_slew raster with
    | Err e => Err e
    | OK p => finish p max_grad max_slew raster delay
    end
  | None, Some _, Some _ => Err E_ni_flat_area_amp                                          (* :143 *)
  | Some _, None, Some _ => Err E_ni_amp_area                                               (* :145 *)
  | _, _, _ => Err E_must_supply                                                            (* :147 *)
  end.
