(* Model/Limits.v — C04: the two checked gradient constructors every other gradient function funnels
   through (make_extended_trapezoid.py, make_arbitrary_grad.py), the unit conversion used by Opts
   (Gen/GenUnits.v is convert.py translated expression by expression) and the notions "physically
   well formed" / "within the limits" on corner lists.  Executable definitions only. *)
From Coq Require Import List Bool ZArith QArith Qabs Qround.
From PV Require Import Base.QUtil Gen.GenUnits Gen.GenLimits.
Import ListNotations.
Open Scope Q_scope.

Record lsystem := mkLSys { s_max_grad : Q; s_max_slew : Q; s_raster : Q }.

Inductive lerr :=
| ELen            (* Times and amplitudes must have the same length                  *)
| EAllZero        (* At least one of the given times must be non-zero                *)
| ENotAscending   (* Times must be in ascending order and distinct                    *)
| ELastRaster     (* The last time point must be on a gradient raster                *)
| EConnectPrev    (* first amplitude non-zero at a positive time without skip_check   *)
| ENotOnRaster    (* All time points must be on a gradient raster                     *)
| EShort          (* fewer than two points: max() of an empty sequence                *)
| ESlew           (* Slew rate violation                                              *)
| EGrad.          (* Gradient amplitude violation                                     *)

Inductive lres (A : Type) := LOK (a : A) | LErr (e : lerr).
Arguments LOK {A}. Arguments LErr {A}.

(* a gradient given by corner points relative to its delay *)
Record cgrad := mkCGrad {
  cg_delay : Q; cg_tt : list Q; cg_wave : list Q; cg_first : Q; cg_last : Q }.

(* ---- list helpers ---- *)
Fixpoint diffs (l : list Q) : list Q :=
  match l with
  | a :: ((b :: _) as r) => (b - a) :: diffs r
  | _ => []
  end.
Definition all_zero (l : list Q) : bool := forallb (fun t => Qeq_bool t 0) l.
Definition any_nonpos (l : list Q) : bool := existsb (fun d => Qle_bool d 0) l.
Definition lastQ (l : list Q) : Q := last l 0.
Definition headQ (l : list Q) : Q := hd 0 l.

(* |round(t / r) * r - t| > eps *)
Definition off_raster (r t : Q) : bool := Qltb pp_eps (Qabs (inject_Z (rnd_he (t / r)) * r - t)).

(* max(abs(diff(w) / diff(t))) > S   <->   some segment has |dw| > S * dt  (dt > 0 is checked before) *)
Fixpoint any_slope_gt (S : Q) (tt ww : list Q) : bool :=
  match tt, ww with
  | t0 :: ((t1 :: _) as tr), w0 :: ((w1 :: _) as wr) =>
      Qltb S (Qabs ((w1 - w0) / (t1 - t0))) || any_slope_gt S tr wr
  | _, _ => false
  end.
Definition any_abs_gt (G : Q) (ww : list Q) : bool := existsb (fun w => Qltb G (Qabs w)) ww.

(* ---- make_extended_trapezoid (convert_to_arbitrary = False), make_extended_trapezoid.py:66-136 ---- *)
Definition eff_pos (override sysv : Q) : Q := if Qle_bool override 0 then sysv else override.

Definition make_ext_trap (sys : lsystem) (times amps : list Q) (max_grad max_slew : Q)
           (skip_check : bool) : lres cgrad :=
  if negb (Nat.eqb (length times) (length amps)) then LErr ELen else
  if all_zero times then LErr EAllZero else
  if any_nonpos (diffs times) then LErr ENotAscending else
  if off_raster (s_raster sys) (lastQ times) then LErr ELastRaster else
  if negb skip_check && Qltb 0 (headQ times) && negb (Qeq_bool (headQ amps) 0) then LErr EConnectPrev else
  let G := eff_pos max_grad (s_max_grad sys) in
  let S := eff_pos max_slew (s_max_slew sys) in
  if existsb (off_raster (s_raster sys)) times then LErr ENotOnRaster else
  let delay := inject_Z (rnd_he (headQ times / s_raster sys)) * s_raster sys in
  let tt := map (fun t => t - delay) times in
  if (length times <? 2)%nat then LErr EShort else
  if any_slope_gt (S * (1 + pp_eps)) tt amps then LErr ESlew else
  if any_abs_gt (G + pp_eps) amps then LErr EGrad else
  LOK (mkCGrad delay tt amps (headQ amps) (lastQ amps)).

(* ---- make_arbitrary_grad, make_arbitrary_grad.py:66-105 ---- *)
Definition eff_opt (override : option Q) (sysv : Q) : Q :=
  match override with
  | None => sysv
  | Some v => if Qeq_bool v 0 then sysv else v
  end.

Fixpoint centres (r : Q) (i : nat) (n : nat) : list Q :=
  match n with
  | O => []
  | S m => ((inject_Z (Z.of_nat i) + (1 # 2)) * r) :: centres r (S i) m
  end.

Fixpoint any_step_gt (S r : Q) (ww : list Q) : bool :=
  match ww with
  | w0 :: ((w1 :: _) as wr) => Qltb S (Qabs ((w1 - w0) / r)) || any_step_gt S r wr
  | _ => false
  end.

Definition edge_default (w0 w1 : Q) : Q := (arb_edge_c0 * w0 - w1) * arb_edge_c1.

Definition make_arb (sys : lsystem) (wave : list Q) (first last : option Q) (delay : Q)
           (max_grad max_slew : option Q) : lres cgrad :=
  let G := eff_opt max_grad (s_max_grad sys) in
  let S := eff_opt max_slew (s_max_slew sys) in
  match wave with
  | [] | [_] => LErr EShort
  | w0 :: w1 :: _ =>
    if any_step_gt (S * (1 + pp_eps)) (s_raster sys) wave then LErr ESlew else
    if any_abs_gt (G + pp_eps) wave then LErr EGrad else
    let f := match first with Some v => v | None => edge_default w0 w1 end in
    let rw := rev wave in
    let l := match last with Some v => v | None => edge_default (hd 0 rw) (hd 0 (tl rw)) end in
    LOK (mkCGrad delay (centres (s_raster sys) 0 (length wave)) wave f l)
  end.

(* ---- rendering as corner lists (time, value), relative to the start of the delay ---- *)
Definition ext_corners (g : cgrad) : list (Q * Q) := combine (cg_tt g) (cg_wave g).
(* arbitrary gradient: the edge values sit at 0 and at n * raster *)
Definition arb_corners (r : Q) (g : cgrad) : list (Q * Q) :=
  (0, cg_first g) :: combine (cg_tt g) (cg_wave g)
  ++ [(inject_Z (Z.of_nat (length (cg_wave g))) * r, cg_last g)].

(* ---- well-formedness and limits of a corner list ---- *)
Fixpoint strictly_increasing (l : list Q) : Prop :=
  match l with
  | a :: ((b :: _) as r) => a < b /\ strictly_increasing r
  | _ => True
  end.
(* every segment has |dv| <= S * dt and every corner has |v| <= G: for a piecewise-linear function
   this is equivalent to the bounds at every time (Base/PWL.v: amp_bound, slope_bound) *)
Fixpoint segs_within (S : Q) (p : list (Q * Q)) : Prop :=
  match p with
  | (t0, v0) :: (((t1, v1) :: _) as r) => Qabs (v1 - v0) <= S * (t1 - t0) /\ segs_within S r
  | _ => True
  end.
Definition corners_within (G : Q) (p : list (Q * Q)) : Prop := Forall (fun tv => Qabs (snd tv) <= G) p.
Definition within (G S : Q) (p : list (Q * Q)) : Prop := corners_within G p /\ segs_within S p.

(* boolean versions (used by the correspondence and the refutation witnesses) *)
Fixpoint segs_within_b (S : Q) (p : list (Q * Q)) : bool :=
  match p with
  | (t0, v0) :: (((t1, v1) :: _) as r) => Qle_bool (Qabs (v1 - v0)) (S * (t1 - t0)) && segs_within_b S r
  | _ => true
  end.
Definition corners_within_b (G : Q) (p : list (Q * Q)) : bool := forallb (fun tv => Qle_bool (Qabs (snd tv)) G) p.

(* the property's relative slack *)
Definition rel_slack : Q := 1 # 1000000.

(* ---- Opts: limits given in a unit (opts.py:93-104) ---- *)
Definition convert (pi gamma : Q) (x : Q) (from_u to_u : unit) : Q :=
  from_standard pi gamma to_u (to_standard pi gamma from_u x).
Definition opts_limit (pi gamma : Q) (x : Q) (u : unit) : Q := convert pi (Qabs gamma) x u opts_target_unit.
