(* Model/KSpace.v — Sequence.calculate_kspace (Sequence/sequence.py:263-432), rf_times (1244-1314),
   adc_times (113-164) and calc_rf_center.py as total functions over Q.  Executable definitions only.
   All times are assumed to lie on the 1e-10 grid of calculate_kspace (t_acc), where its
   np.round(t/t_acc)*t_acc is the identity; the np.unique/searchsorted index lookup then is "the grid
   point equal to that time", which the model expresses directly on times. *)
From Coq Require Import ZArith QArith Qabs List Bool Arith.
From PV Require Import Base.QUtil Base.PWL Gen.GenExport Model.Export.
Import ListNotations.
Open Scope Q_scope.

(* PPoly.antiderivative() of the piecewise-linear waveform, evaluated as the code does (390-403):
   0 before the first corner, the exact piecewise-quadratic integral inside, constant after the last. *)
Fixpoint prim (p : pwl) (t : Q) : Q :=
  match p with
  | (t0, v0) :: r =>
    match r with
    | (t1, v1) :: _ =>
      if Qle_bool t t0 then 0
      else if Qle_bool t t1 then (v0 + interp t0 v0 t1 v1 t) * (t - t0) * (1 # 2)
      else Qred ((v0 + v1) * (t1 - t0) * (1 # 2) + prim r t)   (* Qred: identity on the rational *)
    | [] => 0
    end
  | [] => 0
  end.

(* gradient moment of one channel: antiderivative of the padded export (get_gradients); a channel
   without any gradient has gw_pp = None and k_traj = 0 *)
Definition moment (w : pwl) (t : Q) : Q :=
  match w with [] => 0 | _ => prim (padded w) t end.

(* ---- RF events --------------------------------------------------------------------------- *)
Inductive rfkind := Exc | Ref | Other.

Fixpoint zlist_eqb (a b : list Z) : bool :=
  match a, b with
  | [], [] => true
  | x :: a', y :: b' => Z.eqb x y && zlist_eqb a' b'
  | _, _ => false
  end.

(* rf_times 1292-1300: no `use` attribute, or use in ['excitation', 'undefined'] -> excitation;
   use == 'refocusing' -> refocusing; anything else is not recorded at all *)
Definition classify (use : option (list Z)) : rfkind :=
  match use with
  | None => Exc
  | Some u => if existsb (zlist_eqb u) rf_use_excitation then Exc
              else if zlist_eqb u rf_use_refocusing then Ref else Other
  end.

(* calc_rf_center.py: rf_max = max|signal|; i_peak = where(|signal| >= rf_max*0.99999);
   time_center = (t[i_peak[0]] + t[i_peak[-1]]) / 2 *)
Fixpoint qmax_list (l : list Q) : Q :=
  match l with [] => 0 | x :: r => Qmax x (qmax_list r) end.
Definition peak_times (t mag : list Q) : list Q :=
  let m := qmax_list mag * rf_peak_threshold in
  map fst (filter (fun tm => Qle_bool m (snd tm)) (combine t mag)).
Definition rf_center (t mag : list Q) : Q :=
  let pk := peak_times t mag in (hd 0 pk + last pk 0) / 2.

Record rfev := mkRf { rf_delay : Q; rf_t : list Q; rf_mag : list Q; rf_use : option (list Z) }.
Record adcev := mkAdc { adc_delay : Q; adc_dwell : Q; adc_n : nat }.
Record kblock := mkK { kb : block; kb_rf : option rfev; kb_adc : option adcev }.

Definition ev := (Q * rfkind)%type.

(* rf_times: curr_dur + rf.delay + calc_rf_center(rf)[0], one entry per block with an RF event *)
Fixpoint rf_events (start : Q) (bs : list kblock) : list ev :=
  match bs with
  | [] => []
  | b :: r =>
    (match kb_rf b with
     | Some rf => [(start + (rf_delay rf + rf_center (rf_t rf) (rf_mag rf)), classify (rf_use rf))]
     | None => []
     end) ++ rf_events (Qred (start + b_dur (kb b))) r
  end.

(* adc_times 151: (arange(n) + 0.5) * dwell + delay + curr_dur *)
Definition adc_sample_times (start : Q) (a : adcev) : list Q :=
  map (fun i => (inject_Z (Z.of_nat i) + (1 # 2)) * adc_dwell a + adc_delay a + start) (seq 0 (adc_n a)).
Fixpoint adc_times (start : Q) (bs : list kblock) : list Q :=
  match bs with
  | [] => []
  | b :: r =>
    (match kb_adc b with Some a => adc_sample_times start a | None => [] end)
    ++ adc_times (Qred (start + b_dur (kb b))) r
  end.

Definition times_of (k : rfkind) (evs : list ev) : list Q :=
  map fst (filter (fun e => match snd e, k with Exc, Exc => true | Ref, Ref => true | _, _ => false end) evs).

(* ---- the period recurrence (405-429) ------------------------------------------------------
   dk starts as -k_traj[:,0] = -M(0) (the grid always contains 0 as its first point when no RF centre
   lies before 2 rf rasters); walking through the periods in time order:
     excitation at the period start:   dk := -M(t_exc)
     refocusing at the period start:   dk := -2*M(t_ref) - dk
   and every grid point of the period gets M(t) + dk.  Pulses of any other use never enter
   t_excitation / t_refocusing, so they leave dk unchanged. *)
Definition upd (M : Q -> Q) (dk : Q) (e : ev) : Q :=
  match snd e with
  | Exc => - M (fst e)
  | Ref => - (2) * M (fst e) - dk
  | Other => dk
  end.
Definition impl_dk (M : Q -> Q) (evs : list ev) : Q := fold_left (upd M) evs (- M 0).
(* [evs] = the events at or before t, in time order *)
Definition impl_k (M : Q -> Q) (evs : list ev) (t : Q) : Q := M t + impl_dk M evs.

Definition upto (t : Q) (evs : list ev) : list ev := filter (fun e => Qle_bool (fst e) t) evs.
Definition k_at (M : Q -> Q) (evs : list ev) (t : Q) : Q := impl_k M (upto t evs) t.

(* ---- specification: integral since the last excitation, negated at each refocusing --------
   state = (time of the last processed pulse, k immediately after it); between pulses k grows by
   the increment of the moment M; an excitation sets k to 0, a refocusing negates it. *)
Definition spec_step (M : Q -> Q) (s : Q * Q) (e : ev) : Q * Q :=
  let kb := snd s + (M (fst e) - M (fst s)) in
  (fst e, match snd e with Exc => 0 | Ref => - kb | Other => kb end).
Definition spec_state (M : Q -> Q) (evs : list ev) : Q * Q := fold_left (spec_step M) evs (0, 0).
Definition spec_k (M : Q -> Q) (evs : list ev) (t : Q) : Q :=
  let s := spec_state M evs in snd s + (M t - M (fst s)).

(* ---- the same recurrence as the code organises it: one pass over the pulses builds the table of
   (period start, dk of that period); a time t then takes the dk of the last period starting at or
   before t (405-429: k_traj[:, i_period:i_period_end] += dk).  Proofs/KSpaceProofs.v shows
   k_tab = k_at for time-sorted pulses. *)
Fixpoint dk_scan (M : Q -> Q) (dk : Q) (evs : list ev) : list (Q * Q) :=
  match evs with
  | [] => []
  | e :: r => let dk' := upd M dk e in (fst e, dk') :: dk_scan M dk' r
  end.
Fixpoint dk_lookup (tbl : list (Q * Q)) (dk : Q) (t : Q) : Q :=
  match tbl with
  | [] => dk
  | (te, dk') :: r => if Qle_bool te t then dk_lookup r dk' t else dk
  end.
Definition k_tab (M : Q -> Q) (evs : list ev) (t : Q) : Q :=
  M t + dk_lookup (dk_scan M (- M 0) evs) (- M 0) t.

(* ---- the loop of calculate_kspace 376-429 as the code writes it (on times instead of grid indices): TWO
   separate sorted lists t_excitation / t_refocusing (pulses of other uses never enter them), the period
   starts i_periods = unique([0, *i_excitation, *i_refocusing, last]) (all but the last are loop iterations),
   one "next" pointer into each list that is advanced with min(len - 1, ii + 1), excitation tested first,
   refocusing in the elif.  Proofs/KSpaceBridge.v shows that for time-sorted pulses this is k_at. *)
Definition hd_is (l : list Q) (tp : Q) : bool :=
  match l with x :: _ => Qeq_bool x tp | [] => false end.   (* ii_next >= 0 and t_list[ii_next] == t_period *)
Definition adv (l : list Q) : list Q :=
  match l with
  | [] => []
  | [x] => [x]               (* min(len - 1, ii + 1): the pointer stays on the last element *)
  | _ :: l' => l'
  end.
Fixpoint ploop (M : Q -> Q) (periods exc ref : list Q) (dk : Q) : list (Q * Q) :=
  match periods with
  | [] => []
  | tp :: rest =>
    if hd_is exc tp then let dk' := - M tp in (tp, dk') :: ploop M rest (adv exc) ref dk'
    else if hd_is ref tp then let dk' := - (2) * M tp - dk in (tp, dk') :: ploop M rest exc (adv ref) dk'
    else (tp, dk) :: ploop M rest exc ref dk
  end.
Definition pulse_times (evs : list ev) : list Q :=
  map fst (filter (fun e => match snd e with Other => false | _ => true end) evs).
Definition loop_table (M : Q -> Q) (evs : list ev) : list (Q * Q) :=
  ploop M (0 :: pulse_times evs) (times_of Exc evs) (times_of Ref evs) (- M 0).
Definition k_loop (M : Q -> Q) (evs : list ev) (t : Q) : Q :=
  M t + dk_lookup (loop_table M evs) (- M 0) t.

(* ---- whole pipeline for the correspondence ------------------------------------------------ *)
Definition wave_or_nil (r : wres) : pwl := match r with WOk w => w | _ => [] end.

Definition kspace_adc (raster : Q) (bs : list kblock) (ch : nat) : list Q :=
  let w := wave_or_nil (waveform raster (map kb bs) ch) in
  let evs := rf_events 0 bs in
  let dk0 := - moment w 0 in
  let tbl := dk_scan (moment w) dk0 evs in
  map (fun t => moment w t + dk_lookup tbl dk0 t) (adc_times 0 bs).

Definition kspace_at (raster : Q) (bs : list kblock) (ch : nat) (ts : list Q) : list Q :=
  let w := wave_or_nil (waveform raster (map kb bs) ch) in
  let evs := rf_events 0 bs in
  let dk0 := - moment w 0 in
  let tbl := loop_table (moment w) evs in
  map (fun t => moment w t + dk_lookup tbl dk0 t) ts.
