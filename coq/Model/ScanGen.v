(* Model/ScanGen.v — the first/last scan with the statements the source has now (Gen/GenScan.v). *)
From Coq Require Import List ZArith QArith.
From PV Require Import Gen.GenScan Model.Scan.
Definition scan_file (lib : list (Z * gev)) (bs : list sblock) : list Q * fltab :=
  scan_blocks scan_sets_prev_on_done scan_fix_shared scan_eps lib bs.
(* waveform end value of a raster-sampled gradient (read_seq.py:302) *)
Definition extrap_last (w1 w2 : Q) : Q := scan_extrap_a * w1 + scan_extrap_b * w2.
