(* Model/Md5.v — MD5 (RFC 1321) over byte lists, the digest function that write_seq.py:236-244 applies
   (hashlib.md5(...).hexdigest()).  Words are integers in [0, 2^32); the sine table and the shift
   table are the literal constants of the RFC.  Executable definitions only; the RFC's test suite is
   evaluated in Proofs/Md5Proofs.v, and every run of the C03 check compares md5_hex with the Hash
   line the implementation wrote. *)
From Coq Require Import List Bool ZArith.
From PV Require Import Model.Signature.
Import ListNotations.
Open Scope Z_scope.

Definition M32 : Z := 4294967296.
Definition add32 (a b : Z) : Z := (a + b) mod M32.
Definition not32 (x : Z) : Z := M32 - 1 - x.
(* rotate left by n (0 < n < 32) a word in [0, 2^32) *)
Definition rotl32 (x n : Z) : Z := (x * 2 ^ n) mod M32 + x / 2 ^ (32 - n).

Definition md5_K : list Z := [
   3614090360; 3905402710; 606105819; 3250441966;
   4118548399; 1200080426; 2821735955; 4249261313;
   1770035416; 2336552879; 4294925233; 2304563134;
   1804603682; 4254626195; 2792965006; 1236535329;
   4129170786; 3225465664; 643717713; 3921069994;
   3593408605; 38016083; 3634488961; 3889429448;
   568446438; 3275163606; 4107603335; 1163531501;
   2850285829; 4243563512; 1735328473; 2368359562;
   4294588738; 2272392833; 1839030562; 4259657740;
   2763975236; 1272893353; 4139469664; 3200236656;
   681279174; 3936430074; 3572445317; 76029189;
   3654602809; 3873151461; 530742520; 3299628645;
   4096336452; 1126891415; 2878612391; 4237533241;
   1700485571; 2399980690; 4293915773; 2240044497;
   1873313359; 4264355552; 2734768916; 1309151649;
   4149444226; 3174756917; 718787259; 3951481745 ].
Definition md5_S : list Z := [
   7; 12; 17; 22; 7; 12; 17; 22; 7; 12; 17; 22; 7; 12; 17; 22;
   5; 9; 14; 20; 5; 9; 14; 20; 5; 9; 14; 20; 5; 9; 14; 20;
   4; 11; 16; 23; 4; 11; 16; 23; 4; 11; 16; 23; 4; 11; 16; 23;
   6; 10; 15; 21; 6; 10; 15; 21; 6; 10; 15; 21; 6; 10; 15; 21 ].

Record md5_state := mkMd5 { m_a : Z; m_b : Z; m_c : Z; m_d : Z }.
Definition md5_init : md5_state := mkMd5 1732584193 4023233417 2562383102 271733878.

(* little-endian word of four bytes / four bytes of a word *)
Definition word_le (b0 b1 b2 b3 : Z) : Z := b0 + 256 * b1 + 65536 * b2 + 16777216 * b3.
Fixpoint words_le (l : bytes) : list Z :=
  match l with
  | b0 :: b1 :: b2 :: b3 :: r => word_le b0 b1 b2 b3 :: words_le r
  | _ => []
  end.
Definition le32 (x : Z) : bytes := [x mod 256; (x / 256) mod 256; (x / 65536) mod 256; (x / 16777216) mod 256].

Definition md5_f (i : nat) (b c d : Z) : Z :=
  match Nat.div i 16 with
  | 0%nat => Z.lor (Z.land b c) (Z.land (not32 b) d)
  | 1%nat => Z.lor (Z.land d b) (Z.land (not32 d) c)
  | 2%nat => Z.lxor b (Z.lxor c d)
  | _ => Z.lxor c (Z.lor b (not32 d))
  end.
Definition md5_g (i : nat) : nat :=
  match Nat.div i 16 with
  | 0%nat => i
  | 1%nat => Nat.modulo (5 * i + 1) 16
  | 2%nat => Nat.modulo (3 * i + 5) 16
  | _ => Nat.modulo (7 * i) 16
  end.

Definition md5_round (m : list Z) (st : md5_state) (i : nat) : md5_state :=
  let f := add32 (add32 (add32 (md5_f i (m_b st) (m_c st) (m_d st)) (m_a st)) (nth i md5_K 0)) (nth (md5_g i) m 0) in
  mkMd5 (m_d st) (add32 (m_b st) (rotl32 f (nth i md5_S 0))) (m_b st) (m_c st).

(* one 64-byte block *)
Definition md5_compress (st : md5_state) (block : bytes) : md5_state :=
  let m := words_le block in
  let r := fold_left (md5_round m) (seq 0 64) st in
  mkMd5 (add32 (m_a st) (m_a r)) (add32 (m_b st) (m_b r)) (add32 (m_c st) (m_c r)) (add32 (m_d st) (m_d r)).

(* absorb bytes, compressing whenever 64 have been collected ([buf] holds the open block reversed) *)
Fixpoint md5_absorb (st : md5_state) (buf : bytes) (n : nat) (l : bytes) : md5_state * bytes :=
  match l with
  | [] => (st, buf)
  | b :: r =>
    if Nat.eqb (S n) 64 then md5_absorb (md5_compress st (rev (b :: buf))) [] 0 r
    else md5_absorb st (b :: buf) (S n) r
  end.

Definition le64 (x : Z) : bytes := le32 (x mod M32) ++ le32 (x / M32).
(* RFC 1321 3.1-3.2: a one bit, zeros up to 56 mod 64, the bit length as a 64-bit little-endian integer *)
Definition md5_pad (m : bytes) : bytes :=
  let n := Z.of_nat (length m) in
  m ++ [128] ++ repeat 0 (Z.to_nat ((55 - n) mod 64)) ++ le64 ((8 * n) mod (M32 * M32)).

Definition md5 (m : bytes) : bytes :=
  let st := fst (md5_absorb md5_init [] 0 (md5_pad m)) in
  le32 (m_a st) ++ le32 (m_b st) ++ le32 (m_c st) ++ le32 (m_d st).

(* lower-case hexadecimal, as hexdigest() *)
Definition hex_digit (n : Z) : Z := if n <? 10 then 48 + n else 87 + n.
Definition hex_of_bytes (l : bytes) : bytes := flat_map (fun b => [hex_digit ((b / 16) mod 16); hex_digit (b mod 16)]) l.
Definition md5_hex (m : bytes) : bytes := hex_of_bytes (md5 m).

(* write(create_signature=True) with the digest the implementation uses *)
Definition write_signed_md5 (body : bytes) : bytes * option bytes := write_file true md5_hex body.
