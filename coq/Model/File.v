(* Model/File.v — the .seq file as data, the section writers of Sequence/write_seq.py and the
   section readers of Sequence/read_seq.py (version 1.4 branch) as total executable functions.

   A file is a record of rows; every field of a row is the EXACT DECIMAL that is printed (a
   canonical rational), e.g. the text `1.23457e+06` is the number 1234570.  The text rendering of
   such a decimal and its parsing by float() are outside the model (trusted, sampled by the
   harness with an independent tokenizer).  The per-section column tables (write multiplier,
   rounding applied before formatting, format, read scale) are NOT written here: they are
   Gen/GenFile.v, regenerated from the source on every run.  Executable definitions only. *)
From Coq Require Import List Bool ZArith QArith Qpower Qround Qabs Qreduction.
From PV Require Import Base.QUtil Gen.GenFile.
Import ListNotations.
Open Scope Q_scope.

(* ---- powers of ten and the decimal exponent ---------------------------------------------------- *)
Definition ten : Q := 10 # 1.
Definition p10 (z : Z) : Q := Qpower ten z.

(* largest e >= e0 with 10^e <= x, looking at most [fuel] decades above e0 *)
Fixpoint flog_search (x : Q) (e : Z) (fuel : nat) : Z :=
  match fuel with
  | O => e
  | S f => if Qle_bool (p10 (e + 1)) x then flog_search x (e + 1)%Z f else e
  end.

Definition in_decade (x : Q) (e : Z) : bool := Qle_bool (p10 e) x && negb (Qle_bool (p10 (e + 1)) x).

(* floor(log10 x) for x > 0.  With x = p/q, s_p and s_q the bit lengths: 2^(s_p-s_q-1) < x < 2^(s_p-s_q+1), hence
   (s_p-s_q-1)*0.30103 < log10 x < (s_p-s_q+1)*0.30103.  A window of four decades starting just below that
   estimate is tried first and its answer CHECKED (so nothing rests on the estimate); the wide window
   [-s_q, s_p] (always sufficient, see FileProofs.flog10_spec) is the fallback. *)
Definition flog10 (x : Q) : Z :=
  match Qnum x with
  | Zpos p =>
    let sp := Z.pos (Pos.size p) in
    let sq := Z.pos (Pos.size (Qden x)) in
    let lo := ((sp - sq - 1) * 30103 / 100000 - 1)%Z in
    let r := flog_search x lo 4 in
    if in_decade x r then r
    else flog_search x (- sq)%Z (Z.to_nat (sp + sq))
  | _ => 0%Z
  end.

(* ---- the conversions of str.format used by the writer ------------------------------------------ *)
(* '{:.0f}' / '{:d}' of a real number: nearest integer, ties to even (exact on the binary value) *)
Definition fmt_int (x : Q) : Q := inject_Z (rnd_he x).

(* '{:g}' (n = 6), '{:.9g}' (n = 9): the decimal with n significant digits nearest to x, ties to
   even; as a number.  With 10^e <= |x| < 10^(e+1) that is x rounded to n-1-e decimals. *)
Definition fmt_sig (n : Z) (x : Q) : Q :=
  if Qeq_bool x 0 then 0 else
  let k := (n - 1 - flog10 (Qabs x))%Z in
  Qred (inject_Z (rnd_he (x * p10 k)) * p10 (- k)).

(* ---- one column ---------------------------------------------------------------------------------- *)
Definition col := (Q * Z * Z * Q)%type.
Definition c_mult (c : col) : Q := fst (fst (fst c)).
Definition c_pre (c : col) : Z := snd (fst (fst c)).
Definition c_fmt (c : col) : Z := snd (fst c).
Definition c_scale (c : col) : Q := snd c.

(* what is handed to str.format: write_seq.py:109 (pre 2), :132/:146/:176/:186 (pre 1), else v*mult *)
Definition pre_apply (rfr : Q) (pre : Z) (mult x : Q) : Q :=
  if (pre =? 2)%Z then inject_Z (rnd_he (x / rfr)) * rfr * mult
  else if (pre =? 1)%Z then inject_Z (rnd_he (x * mult))
  else x * mult.
(* label strings (format -1) are carried as their 1-based index in the label table *)
Definition fmt_apply (f : Z) (y : Q) : Q := if (0 <? f)%Z then fmt_sig f y else fmt_int y.
Definition wcol (rfr : Q) (c : col) (x : Q) : Q := fmt_apply (c_fmt c) (pre_apply rfr (c_pre c) (c_mult c) x).
(* read_seq.py:492-494: float(token) * scale *)
Definition rcol (c : col) (t : Q) : Q := t * c_scale c.

(* str.format(k, *data): one conversion per argument; zip() semantics on a length mismatch (the
   harness compares lengths, a short row is an IndexError in the code) *)
Fixpoint write_row (rfr : Q) (cs : list col) (r : list Q) : list Q :=
  match cs, r with
  | c :: cs', x :: r' => wcol rfr c x :: write_row rfr cs' r'
  | _, _ => []
  end.
Fixpoint read_row (cs : list col) (t : list Q) : list Q :=
  match cs, t with
  | c :: cs', x :: t' => rcol c x :: read_row cs' t'
  | _, _ => []
  end.

(* ---- library state (what the section writers look at) and file rows ---------------------------- *)
(* a library row is the id followed by the data tuple *)
Record fstate := mkF {
  f_defs : list (list Z * list Q);      (* numeric [DEFINITIONS]: key (utf-8 codes) -> values      *)
  f_blocks : list (list Q);             (* block id, duration [s], rf gx gy gz adc ext             *)
  f_rf : list (list Q);
  f_grad : list (Z * list Q);           (* type tag ('g' = 103, 't' = 116), id :: data             *)
  f_adc : list (list Q);
  f_ext : list (list Q);
  f_trig : list (list Q);
  f_lset : list (list Q);
  f_linc : list (list Q);
  f_shape : list (list Q);              (* id, num_samples, packed samples                         *)
  f_braster : Q;                        (* self.block_duration_raster                              *)
  f_rfraster : Q;                       (* self.rf_raster_time                                     *)
  f_gradraster : Q;
  f_adcraster : Q
}.

Record frows := mkR {
  r_defs : list (list Z * list Q);
  r_blocks : list (list Q);
  r_rf : list (list Q);
  r_grad : list (list Q);
  r_trap : list (list Q);
  r_adc : list (list Q);
  r_ext : list (list Q);
  r_trig : list (list Q);
  r_lset : list (list Q);
  r_linc : list (list Q);
  r_shape : list (list Q)
}.

Definition tag_g : Z := 103.
Definition tag_t : Z := 116.

(* ---- [DEFINITIONS]: sorted keys (write_seq.py:60), every number as '{:0.9g}' -------------------- *)
Fixpoint key_leb (a b : list Z) : bool :=
  match a, b with
  | [], _ => true
  | _ :: _, [] => false
  | x :: a', y :: b' => if (x <? y)%Z then true else if (y <? x)%Z then false else key_leb a' b'
  end.
Fixpoint ins_def {V} (x : list Z * V) (l : list (list Z * V)) : list (list Z * V) :=
  match l with
  | [] => [x]
  | y :: r => if key_leb (fst x) (fst y) then x :: l else y :: ins_def x r
  end.
Definition sort_defs {V} (l : list (list Z * V)) : list (list Z * V) := fold_right ins_def [] l.
Definition write_defs (d : list (list Z * list Q)) : list (list Z * list Q) :=
  map (fun kv => (fst kv, map (fmt_sig def_fmt) (snd kv))) (sort_defs d).

(* ---- [BLOCKS] (write_seq.py:84-97): round(duration / raster), the ids as integers ---------------- *)
Definition write_block (br : Q) (b : list Q) : list Q :=
  match b with
  | id :: dur :: evs => fmt_int id :: fmt_int (dur / br) :: map fmt_int evs
  | _ => []
  end.
(* read_seq.py:447-456 *)
Definition read_block (br : Q) (t : list Q) : list Q :=
  match t with
  | id :: dur :: evs => id :: dur * br :: evs
  | _ => []
  end.

(* ---- [SHAPES] (write_seq.py:223-231) --------------------------------------------------------------- *)
Definition write_shape (s : list Q) : list Q :=
  match s with
  | id :: num :: data => fmt_int id :: fmt_int num :: map (fmt_sig shape_sample_fmt) data
  | _ => []
  end.
Definition read_shape (t : list Q) : list Q := t.

Definition grads_of (tag : Z) (l : list (Z * list Q)) : list (list Q) :=
  map snd (filter (fun g => (fst g =? tag)%Z) l).

(* ---- write_seq.write on the (already deduplicated) state ----------------------------------------- *)
Definition write_rows (s : fstate) : frows :=
  let rfr := f_rfraster s in
  mkR (write_defs (f_defs s))
      (map (write_block (f_braster s)) (f_blocks s))
      (map (write_row rfr sec_rf) (f_rf s))
      (map (write_row rfr sec_grad) (grads_of tag_g (f_grad s)))
      (map (write_row rfr sec_trap) (grads_of tag_t (f_grad s)))
      (map (write_row rfr sec_adc) (f_adc s))
      (map (write_row rfr sec_ext) (f_ext s))
      (map (write_row rfr sec_trig) (f_trig s))
      (map (write_row rfr sec_lset) (f_lset s))
      (map (write_row rfr sec_linc) (f_linc s))
      (map write_shape (f_shape s)).

(* ---- read_seq.read up to (not including) the first/last scan and duplicate removal ---------------- *)
Definition keyZ_eqb (a b : list Z) : bool := key_leb a b && key_leb b a.
Fixpoint def_lookup (d : list (list Z * list Q)) (k : list Z) : option Q :=
  match d with
  | [] => None
  | (k', v) :: r => if keyZ_eqb k' k then (match v with [x] => Some x | _ => None end) else def_lookup r k
  end.
(* read_seq.py:71-90: the raster is taken from the file iff the key is present AND the code assigns
   the right attribute (generated flag); otherwise the reading system's value stays *)
Definition raster_from (flag : bool) (d : list (list Z * list Q)) (k : list Z) (sysv : Q) : Q :=
  if flag then match def_lookup d k with Some v => v | None => sysv end else sysv.

Record rsys := mkSys { s_braster : Q; s_rfraster : Q; s_gradraster : Q; s_adcraster : Q; s_adc_dead : Q }.

Definition read_rows (sy : rsys) (f : frows) : fstate :=
  let d := r_defs f in
  let br := raster_from def_sets_block_raster d key_block_raster (s_braster sy) in
  mkF d
      (map (read_block br) (r_blocks f))
      (map (read_row sec_rf) (r_rf f))
      (map (fun t => (tag_g, read_row sec_grad t)) (r_grad f) ++ map (fun t => (tag_t, read_row sec_trap t)) (r_trap f))
      (map (fun t => read_row sec_adc t ++ [s_adc_dead sy]) (r_adc f))       (* append=adc_dead_time *)
      (map (read_row sec_ext) (r_ext f))
      (map (read_row sec_trig) (r_trig f))
      (map (read_row sec_lset) (r_lset f))
      (map (read_row sec_linc) (r_linc f))
      (map read_shape (r_shape f))
      br
      (raster_from def_sets_rf_raster d key_rf_raster (s_rfraster sy))
      (raster_from def_sets_grad_raster d key_grad_raster (s_gradraster sy))
      (raster_from def_sets_adc_raster d key_adc_raster (s_adcraster sy)).
