(* Model/Rf.v — the RF pulse makers (make_sinc_pulse, make_gauss_pulse, make_block_pulse, make_arbitrary_rf,
   timing / slice-gradient part of make_adiabatic_pulse) as total functions over Q.  Executable definitions only.

   The arithmetic expressions (normalisation, sample times, shape_dur, slice-gradient amplitude / area, rephaser
   area, the two delay-coupling assignments, block-pulse duration defaults) are NOT written here: they are the
   functions of Gen/GenRf.v, translated from the source on every run.  This file transcribes the control flow.

   The RF envelope (window * sinc, window * gauss) is outside the model: every maker takes the un-normalised
   envelope samples [w : list Q] as an argument (the theorems hold for ALL lists), and [pi] is an argument too.
   [use] is a number: 0 = '' (not given), k = the k-th entry of get_supported_rf_uses(), anything larger = an
   unsupported string.  Optional arguments whose Python default is 0 / "not given" are passed as 0. *)
From Coq Require Import ZArith QArith Qround Qabs List Bool Arith.
From PV Require Import Base.QUtil Gen.GenRf.
Import ListNotations.
Open Scope Q_scope.

(* ---- system (opts.py): only the fields the makers read *)
Record sys := mkSys {
  s_rf_dead : Q; s_rf_ring : Q; s_rf_raster : Q; s_grad_raster : Q; s_max_grad : Q; s_max_slew : Q }.

Inductive err :=
| EUse        (* ValueError: invalid use *)
| EDur        (* ValueError: RF pulse duration must be positive (sinc only) *)
| EZeroDiv    (* ZeroDivisionError of a Python float division *)
| EThick      (* ValueError: slice thickness must be provided *)
| EBandwidth  (* ValueError: bandwidth must be provided (arbitrary) *)
| EArgs       (* ValueError: block pulse duration/bandwidth combination *)
| EGradAmp    (* make_trapezoid: refined amplitude larger than max *)
| ESlewUp | ESlewDown   (* make_trapezoid: refined slew rate larger than max *)
| ETrapTimes  (* make_trapezoid: non-positive ramp time or negative flat time (only if the source has that check) *)
| EEnvLen.    (* model only: the envelope handed to the model does not have n_samples entries *)

Inductive res (A : Type) := Ok (a : A) | Err (e : err).
Arguments Ok {A} a.
Arguments Err {A} e.

Record trap := mkTrap {
  g_amp : Q; g_rise : Q; g_flat : Q; g_fall : Q; g_area : Q; g_flat_area : Q; g_delay : Q }.

Record rf := mkRf {
  r_signal : list Q; r_t : list Q; r_shape_dur : Q; r_freq : Q; r_phase : Q;
  r_dead : Q; r_ring : Q; r_delay : Q; r_use : option nat }.

Definition set_rf_delay (r : rf) (d : Q) : rf :=
  mkRf (r_signal r) (r_t r) (r_shape_dur r) (r_freq r) (r_phase r) (r_dead r) (r_ring r) d (r_use r).
Definition set_gz_delay (g : trap) (d : Q) : trap :=
  mkTrap (g_amp g) (g_rise g) (g_flat g) (g_fall g) (g_area g) (g_flat_area g) d.

(* np.sum — specification form *)
Fixpoint sumQ (l : list Q) : Q := match l with [] => 0 | x :: r => x + sumQ r end.

(* ---- fast forms used by the runner (proved equal to the specification forms in Proofs/RfProofs.v) ----
   Qred2 cancels the common factors 2 of numerator and denominator (binary64 inputs are dyadic, so sums of them
   become fully reduced); Qplus_c is Qplus with the products commuted so that Coq's binary multiplication recurses
   over the (power-of-two) denominators. *)
Fixpoint strip2 (n d : positive) : positive * positive :=
  match n, d with
  | xO n', xO d' => strip2 n' d'
  | _, _ => (n, d)
  end.
Definition Qred2 (q : Q) : Q :=
  match Qnum q with
  | Z0 => 0
  | Zpos n => let '(n', d') := strip2 n (Qden q) in Zpos n' # d'
  | Zneg n => let '(n', d') := strip2 n (Qden q) in Zneg n' # d'
  end.
Definition Qplus_c (x y : Q) : Q :=
  (QDen y * Qnum x + QDen x * Qnum y)%Z # (Qden x * Qden y).
Fixpoint sumQ_fast (l : list Q) : Q := match l with [] => 0 | x :: r => Qred2 (Qplus_c x (sumQ_fast r)) end.

Definition set_rf_signal (r : rf) (s : list Q) : rf :=
  mkRf s (r_t r) (r_shape_dur r) (r_freq r) (r_phase r) (r_dead r) (r_ring r) (r_delay r) (r_use r).

(* k, k+1, ..., k+n-1 *)
Fixpoint zrange (k : Z) (n : nat) : list Z :=
  match n with O => [] | S m => k :: zrange (k + 1) m end.

(* ------------------------------------------------------------------------------------------------
   local model of make_trapezoid (make_trapezoid.py), only the two argument sets the RF makers use.
   Both leave rise_time = fall_time = None on entry. *)

(* make_trapezoid.py, tail: limit checks, (if present in the source) the timing check, and the returned event *)
(* `if -eps < flat_time < 0: flat_time = 0.0` *)
Definition clamp_flat (flat : Q) : Q :=
  if (trap_rejects_bad_times && Qltb (- rf_eps) flat && Qltb flat 0)%bool then 0 else flat.

Definition trap_finish (max_grad max_slew amp rise flat fall : Q) : res trap :=
  if Qltb (max_grad + rf_eps) (Qabs amp) then Err EGradAmp
  else if Qltb (max_slew * (1 + rf_eps)) (Qabs amp / rise) then Err ESlewUp
  else if Qltb (max_slew * (1 + rf_eps)) (Qabs amp / fall) then Err ESlewDown
  else
    let flat' := clamp_flat flat in
    if (trap_rejects_bad_times && (Qleb rise 0 || Qleb fall 0 || Qltb flat' 0))%bool then Err ETrapTimes
    else Ok (mkTrap amp rise flat' fall
                    (amp * (flat' + rise / 2 + fall / 2))       (* grad.area *)
                    (amp * flat')                               (* grad.flat_area *)
                    0).                                         (* delay=0 *)

(* make_trapezoid.py:39 calculate_shortest_rise_time *)
Definition shortest_rise (amp max_slew raster : Q) : Q :=
  inject_Z (Qceiling (Qmax (Qabs amp / max_slew) raster / raster)) * raster.

(* make_trapezoid(channel='z', system, flat_time=, flat_area=): :202-207, :225-226 *)
Definition trap_flat_area (max_grad max_slew raster flat_time flat_area : Q) : res trap :=
  if Qeqb flat_time 0 then Err EZeroDiv else
  let amp := flat_area / flat_time in                                               (* :207 *)
  let rise := shortest_rise amp max_slew raster in                                  (* :226 *)
  trap_finish max_grad max_slew amp rise flat_time rise.

(* ceil(sqrt(x) / raster) for x >= 0, raster > 0: the least n >= 0 with (n*raster)^2 >= x *)
Definition ceil_sqrt_over (x raster : Q) : Z := Z.sqrt_up (Qceiling (x / (raster * raster))).

(* make_trapezoid(channel='z', system, area=): :194-200 and calculate_shortest_params_for_area :11-33 *)
Definition trap_area (max_grad max_slew raster area : Q) : res trap :=
  let rise0 := Qmax (inject_Z (ceil_sqrt_over (Qabs area / max_slew) raster) * raster) raster in  (* :15-16 *)
  let amp0 := area / rise0 in                                                       (* :19 *)
  if Qltb (max_grad + rf_eps) (Qabs amp0) then                                      (* :23 *)
    let eff := inject_Z (Qceiling (Qabs area / max_grad / raster)) * raster in      (* :24 *)
    let amp := area / eff in                                                        (* :25 *)
    let rise := Qmax (inject_Z (Qceiling (Qabs amp / max_slew / raster)) * raster) raster in  (* :26-27 *)
    trap_finish max_grad max_slew amp rise (eff - rise) rise                        (* :30-31 *)
  else trap_finish max_grad max_slew amp0 rise0 (rise0 - rise0) rise0.

(* ------------------------------------------------------------------------------------------------
   pieces shared by all makers *)

(* `if use != '' and use not in get_supported_rf_uses(): raise` *)
Definition use_ok (use : nat) : bool := Nat.leb use rf_uses_count.
(* `if use != '': rf.use = use` *)
Definition use_field (use : nat) : option nat := match use with O => None | S _ => Some use end.

(* `if rf.dead_time > rf.delay: rf.delay = rf.dead_time` *)
Definition dead_time_rule (dead delay : Q) : Q := if Qltb delay dead then dead else delay.

(* `if max_grad > 0: system = copy(system); system.max_grad = max_grad` *)
Definition override (given sysval : Q) : Q := if Qltb 0 given then given else sysval.

(* the delay coupling:
     if rf.delay > gz.rise_time: gz.delay = <f_gz_delay>
     if rf.delay < gz.rise_time + gz.delay: rf.delay = <f_rf_delay>                                  *)
Definition couple (f_gz_delay : Q -> Q -> Q -> Q) (f_rf_delay : Q -> Q -> Q) (raster : Q) (r : rf) (gz : trap)
  : rf * trap :=
  let gz' := if Qltb (g_rise gz) (r_delay r)
             then set_gz_delay gz (f_gz_delay (r_delay r) (g_rise gz) raster) else gz in
  let r' := if Qltb (r_delay r) (g_rise gz' + g_delay gz')
            then set_rf_delay r (f_rf_delay (g_rise gz') (g_delay gz')) else r in
  (r', gz').

(* event end times as calc_duration.py computes them *)
Definition rf_end (r : rf) : Q := rf_event_end (r_delay r) (r_shape_dur r) (r_ring r).
Definition trap_end (g : trap) : Q := trap_event_end (g_delay g) (g_rise g) (g_flat g) (g_fall g).

(* ------------------------------------------------------------------------------------------------
   make_sinc_pulse.py / make_gauss_pulse.py.  [gauss = false]: sinc. *)
Definition shaped_signal (X : rf_exprs) (w : list Q) (flip_angle dwell pi : Q) : list Q :=
  let flip := x_flip X (sumQ w) dwell pi in                           (* sinc :109, gauss :110 *)
  map (fun s => x_scale X s flip_angle flip) w.                       (* sinc :110, gauss :111 *)

(* fast form: the normalisation factor is computed once (x_scale is linear in the sample) *)
Definition shaped_signal_fast (X : rf_exprs) (w : list Q) (flip_angle dwell pi : Q) : list Q :=
  let flip := Qred (x_flip X (sumQ_fast w) dwell pi) in
  let c := Qred (x_scale X 1 flip_angle flip) in
  map (fun s => s * c) w.

Definition shaped_times (X : rf_exprs) (n : nat) (dwell : Q) : list Q :=
  map (fun k => x_t X (inject_Z k) dwell) (zrange 1 n).        (* sinc :105, gauss :106 *)

Definition make_shaped_gen (sigf : rf_exprs -> list Q -> Q -> Q -> Q -> list Q)
    (gauss : bool) (X : rf_exprs) (S : sys) (pi : Q) (w : list Q)
    (flip_angle delay duration dwell0 center_pos freq_offset phase_offset bandwidth0 time_bw_product : Q)
    (return_gz : bool) (slice_thickness max_grad max_slew : Q) (use : nat)
  : res (rf * option (trap * trap)) :=
  if negb (use_ok use) then Err EUse else                                           (* sinc :93, gauss :94 *)
  let dwell := if Qeqb dwell0 0 then s_rf_raster S else dwell0 in                   (* sinc :96, gauss :97 *)
  if (negb gauss && Qleb duration 0)%bool then Err EDur else                        (* sinc :99 *)
  if (Qeqb duration 0 && (negb gauss || Qeqb bandwidth0 0))%bool then Err EZeroDiv else
  let bandwidth := if (gauss && negb (Qeqb bandwidth0 0))%bool then bandwidth0
                   else time_bw_product / duration in                               (* sinc :102, gauss :100-103 *)
  if Qeqb dwell 0 then Err EZeroDiv else
  let nz := rnd_he (duration / dwell) in                                            (* sinc :104, gauss :105 *)
  let n := Z.to_nat nz in
  if negb (Nat.eqb (length w) n) then Err EEnvLen else
  let r0 := mkRf (sigf X w flip_angle dwell pi)
                 (shaped_times X n dwell)
                 (x_shape_dur X (inject_Z nz) dwell)                                (* sinc :116 *)
                 freq_offset phase_offset (s_rf_dead S) (s_rf_ring S)
                 (dead_time_rule (s_rf_dead S) delay)                               (* sinc :121-131 *)
                 (use_field use) in                                                 (* sinc :123 *)
  if return_gz then                                                                 (* sinc :133 *)
    if Qeqb slice_thickness 0 then Err EThick else                                  (* :134 *)
    let mg := override max_grad (s_max_grad S) in                                   (* :137 *)
    let ms := override max_slew (s_max_slew S) in                                   (* :141 *)
    let amplitude := x_amplitude X bandwidth slice_thickness in                     (* :145 *)
    let area := x_area X amplitude duration in                                      (* :146 *)
    match trap_flat_area mg ms (s_grad_raster S) duration area with                 (* :147 *)
    | Err e => Err e
    | Ok gz =>
      match trap_area mg ms (s_grad_raster S) (x_gzr_area X area center_pos (g_area gz)) with   (* :148-152 *)
      | Err e => Err e
      | Ok gzr =>
        let '(r1, gz1) := couple (x_gz_delay X) (x_rf_delay X) (s_grad_raster S) r0 gz in       (* :154-158 *)
        Ok (r1, Some (gz1, gzr))
      end
    end
  else Ok (r0, None).

Definition make_shaped := make_shaped_gen shaped_signal.             (* specification: direct transcription *)
Definition make_shaped_fast := make_shaped_gen shaped_signal_fast.   (* what the runner executes *)
Definition make_sinc := make_shaped false sinc_x.
Definition make_gauss := make_shaped true gauss_x.
Definition make_sinc_fast := make_shaped_fast false sinc_x.
Definition make_gauss_fast := make_shaped_fast true gauss_x.

(* ------------------------------------------------------------------------------------------------
   make_block_pulse.py *)
Definition block_duration (duration bandwidth time_bw_product : option Q) : res Q :=
  match duration, bandwidth with
  | None, None => Ok block_default_duration                                         (* :71-73 *)
  | Some d, Some b =>
      if Qltb 0 d then Err EArgs                                                    (* :74-76 *)
      else Err EArgs                                                                (* :86 (duration given, <= 0) *)
  | Some d, None => if Qltb 0 d then Ok d else Err EArgs                            (* :77, :86 *)
  | None, Some b =>
      if Qltb 0 b then                                                              (* :81 *)
        match time_bw_product with
        | Some tb => if Qltb 0 tb then Ok (block_dur_tbw tb b) else Ok (block_dur_bw b)   (* :82-85 *)
        | None => Ok (block_dur_bw b)
        end
      else Err EArgs
  end.

Definition make_block (S : sys) (pi : Q) (flip_angle delay : Q) (duration bandwidth time_bw_product : option Q)
    (freq_offset phase_offset : Q) (use : nat) : res rf :=
  if negb (use_ok use) then Err EUse else                                           (* :68 *)
  match block_duration duration bandwidth time_bw_product with
  | Err e => Err e
  | Ok dur =>
    if Qeqb (s_rf_raster S) 0 then Err EZeroDiv else
    let nz := rnd_he (dur / s_rf_raster S) in                                       (* :93 *)
    let t := [block_t 0 (s_rf_raster S); block_t (inject_Z nz) (s_rf_raster S)] in  (* :94 *)
    let s := block_signal flip_angle pi dur in                                      (* :95 *)
    Ok (mkRf [s; s] t
             (block_t (inject_Z nz) (s_rf_raster S))                                (* :101 t[-1] *)
             freq_offset phase_offset (s_rf_dead S) (s_rf_ring S)
             (dead_time_rule (s_rf_dead S) delay)                                   (* :106-116 *)
             (use_field use))
  end.

(* ------------------------------------------------------------------------------------------------
   make_arbitrary_rf.py: [w] is the user's (real) signal *)
Definition arb_signal (w : list Q) (no_signal_scaling : bool) (flip_angle dwell pi : Q) : list Q :=
  if no_signal_scaling then w                                                       (* :99 *)
  else map (fun s => arb_scale s (sumQ w) dwell flip_angle pi) w.                   (* :100 *)

Definition arb_signal_fast (w : list Q) (no_signal_scaling : bool) (flip_angle dwell pi : Q) : list Q :=
  if no_signal_scaling then w
  else let c := Qred (arb_scale 1 (Qred (sumQ_fast w)) dwell flip_angle pi) in map (fun s => s * c) w.

Definition arb_times (n : nat) (dwell : Q) : list Q :=
  map (fun k => arb_t (inject_Z k) dwell) (zrange 1 n).                             (* :104 *)

Definition make_arbitrary_gen (sigf : list Q -> bool -> Q -> Q -> Q -> list Q) (S : sys) (pi : Q) (w : list Q)
    (flip_angle bandwidth0 delay dwell0 freq_offset phase_offset : Q) (no_signal_scaling : bool)
    (max_grad max_slew : Q) (return_gz : bool) (slice_thickness time_bw_product : Q) (use : nat)
  : res (rf * option trap) :=
  if negb (use_ok use) then Err EUse else                                           (* :87 *)
  let dwell := if Qeqb dwell0 0 then s_rf_raster S else dwell0 in                   (* :92 *)
  let n := length w in                                                              (* :102 *)
  let duration := arb_duration (inject_Z (Z.of_nat n)) dwell in                     (* :103 *)
  let r0 := mkRf (sigf w no_signal_scaling flip_angle dwell pi)
                 (arb_times n dwell)
                 duration                                                           (* :110 *)
                 freq_offset phase_offset (s_rf_dead S) (s_rf_ring S)
                 (dead_time_rule (s_rf_dead S) delay)                               (* :115-125 *)
                 (use_field use) in
  if return_gz then
    if Qleb slice_thickness 0 then Err EThick else                                  (* :128 *)
    if Qleb bandwidth0 0 then Err EBandwidth else                                   (* :130 *)
    let mg := override max_grad (s_max_grad S) in
    let ms := override max_slew (s_max_slew S) in
    if (Qltb 0 time_bw_product && Qeqb duration 0)%bool then Err EZeroDiv else
    let bandwidth := if Qltb 0 time_bw_product then time_bw_product / duration else bandwidth0 in  (* :140 *)
    let amplitude := arb_amplitude bandwidth slice_thickness in                     (* :143 *)
    let area := arb_area amplitude duration in                                      (* :144 *)
    match trap_flat_area mg ms (s_grad_raster S) duration area with                 (* :145 *)
    | Err e => Err e
    | Ok gz =>
      let '(r1, gz1) := couple arb_gz_delay arb_rf_delay (s_grad_raster S) r0 gz in (* :147-152 *)
      Ok (r1, Some gz1)
    end
  else Ok (r0, None).

Definition make_arbitrary := make_arbitrary_gen arb_signal.            (* specification *)
Definition make_arbitrary_fast := make_arbitrary_gen arb_signal_fast.  (* what the runner executes *)

(* ------------------------------------------------------------------------------------------------
   make_adiabatic_pulse.py: timing and slice gradients only.  The signal is not modelled ([r_signal] = []);
   [bandwidth] is the value the code uses at :228-230 and [time_center] is what calc_rf_center returns at :232
   (both computed by the harness from the implementation). [dwell0 = None]: dwell not given. *)
Definition adia_times (n : nat) (dwell : Q) : list Q :=
  map (fun k => adia_t (inject_Z k) dwell) (zrange 0 n).                            (* :203 *)

Definition make_adiabatic_timing (S : sys) (delay duration : Q) (dwell0 : option Q)
    (freq_offset phase_offset : Q) (return_gz : bool) (slice_thickness bandwidth time_center : Q) (use : nat)
  : res (rf * option (trap * trap)) :=
  if (return_gz && Qleb slice_thickness 0)%bool then Err EThick else                (* :137 *)
  if negb (use_ok use) then Err EUse else                                           (* :144 *)
  let dwell := match dwell0 with None => s_rf_raster S | Some d => d end in         (* :147 *)
  if Qeqb dwell 0 then Err EZeroDiv else
  let nz := rnd_he (duration / dwell + rf_eps) in                                   (* :152, :200 *)
  let n := Z.to_nat nz in
  let r0 := mkRf [] (adia_times n dwell)
                 (adia_shape_dur (inject_Z nz) dwell)                               (* :209 *)
                 freq_offset phase_offset (s_rf_dead S) (s_rf_ring S)
                 (dead_time_rule (s_rf_dead S) delay)                               (* :214-221 *)
                 (Some (match use with O => adia_default_use | _ => use end)) in    (* :215 *)
  if return_gz then
    let center_pos := adia_center_pos time_center duration in                       (* :232 *)
    let amplitude := adia_amplitude bandwidth slice_thickness in                    (* :234 *)
    let area := adia_area amplitude duration in                                     (* :235 *)
    match trap_flat_area (s_max_grad S) (s_max_slew S) (s_grad_raster S) duration area with   (* :236 *)
    | Err e => Err e
    | Ok gz =>
      match trap_area (s_max_grad S) (s_max_slew S) (s_grad_raster S)
                      (adia_gzr_area area center_pos (g_area gz)) with              (* :244 *)
      | Err e => Err e
      | Ok gzr =>
        let '(r1, gz1) := couple adia_gz_delay adia_rf_delay (s_grad_raster S) r0 gz in   (* :252-256 *)
        Ok (r1, Some (gz1, gzr))
      end
    end
  else Ok (r0, None).
