(* Model/Decode.v — what get_block (Sequence/block.py:321-364, sequence.py::rf_from_lib_data) computes from a
   library row and the shape rows it references: the decompressed shape scaled by the amplitude, and the
   derived fields of a trapezoid.  Rows are as in Model/File.v (id first).  Executable definitions only. *)
From Coq Require Import List Bool ZArith QArith Qround.
From PV Require Import Base.QUtil Gen.GenShape Model.Shape.
Import ListNotations.
Open Scope Q_scope.

(* shape row = id :: num_samples :: packed samples (block.py:329-333) *)
Definition shape_of_row (sh : list Q) : option cshape :=
  match sh with
  | _ :: num :: data => Some {| num_samples := Z.to_nat (Qfloor num); cdata := data |}
  | _ => None
  end.
Definition decode_shape (sh : list Q) : option (list Q) :=
  match shape_of_row sh with Some c => decompress false c | None => None end.
(* block.py:335 `grad.waveform = amplitude * g`; sequence.py:1205-1213 magnitude `amplitude * mag` *)
Definition decode_wave (amp : Q) (sh : list Q) : option (list Q) := option_map (map (Qmult amp)) (decode_shape sh).

(* block.py:357-364 *)
Record dtrap := mkDT { t_amp : Q; t_rise : Q; t_flat : Q; t_fall : Q; t_delay : Q; t_area : Q; t_flat_area : Q }.
Definition decode_trap (row : list Q) : option dtrap :=
  match row with
  | [_; a; r; f; fl; d] => Some (mkDT a r f fl d (a * (f + r / (2 # 1) + fl / (2 # 1))) (a * f))
  | _ => None
  end.
