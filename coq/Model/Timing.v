(* Model/Timing.v — timing model for C10 (check_timing) and C07 (block durations / timeline).
   Executable definitions only; every constant, comparison operator, raster choice, checked-field
   list and end-time expression is taken from Gen/GenTiming.v (read from the source on every run).

   Objects: a decoded block is what Sequence.get_block returns (block.py:275-448), reduced to the
   attributes that the timing code reads.  Every event is one flat record; attributes that a kind
   does not have are ignored through [has_attr] (= Python's hasattr on the decoded object). *)
From Coq Require Import ZArith QArith Qround Qabs List Bool.
From PV Require Import Base.QUtil Model.TimingSyntax Gen.GenTiming.
Import ListNotations.
Open Scope Q_scope.

Record system := {
  s_block_raster : Q; s_rf_raster : Q; s_grad_raster : Q; s_adc_raster : Q;
  s_adc_dead : Q; s_rf_dead : Q; s_rf_ring : Q }.

Record event := {
  e_kind : ekind;
  e_delay : Q;
  e_shape_dur : Q;      (* rf, grad *)
  e_ring : Q;           (* rf.ringdown_time *)
  e_dead : Q;           (* rf.dead_time / adc.dead_time *)
  e_rise : Q; e_flat : Q; e_fall : Q;        (* trap *)
  e_duration : Q;       (* trigger / output *)
  e_dwell : Q; e_nsamp : Z;                  (* adc *)
  e_tlast : Q;          (* rf.t[-1] / grad.tt[-1] *)
  e_tfirst : Q;         (* grad.tt[0] *)
  e_center : Q;         (* calc_rf_center(rf)[0] *)
  e_use : Z;            (* rf.use: 0 = excitation / undefined / absent, 1 = refocusing, 2 = other *)
  e_regular : bool }.   (* grad.tt on the half-raster grid: "arbitrary" rather than extended trapezoid *)

Definition null_event : event :=
  {| e_kind := KLabel; e_delay := 0; e_shape_dur := 0; e_ring := 0; e_dead := 0; e_rise := 0;
     e_flat := 0; e_fall := 0; e_duration := 0; e_dwell := 0; e_nsamp := 0%Z; e_tlast := 0;
     e_tfirst := 0; e_center := 0; e_use := 0%Z; e_regular := false |}.

Definition attr_val (e : event) (a : attr) : Q :=
  match a with
  | A_delay => e_delay e | A_shape_dur => e_shape_dur e | A_ringdown_time => e_ring e
  | A_dead_time => e_dead e | A_rise_time => e_rise e | A_flat_time => e_flat e
  | A_fall_time => e_fall e | A_duration => e_duration e | A_dwell => e_dwell e
  | A_samples_dwell => inject_Z (e_nsamp e) * e_dwell e | A_t_last => e_tlast e
  end.

(* hasattr(e, a) on the objects built by get_block / rf_from_lib_data (block.py:308-411,
   sequence.py:1196-1226); the decoded adc has no `duration`, only triggers do *)
Definition has_attr (k : ekind) (a : attr) : bool :=
  match k, a with
  | KRf, (A_delay | A_shape_dur | A_ringdown_time | A_dead_time | A_t_last) => true
  | KGrad, (A_delay | A_shape_dur | A_t_last) => true
  | KTrap, (A_delay | A_rise_time | A_flat_time | A_fall_time) => true
  | KAdc, (A_delay | A_dwell | A_samples_dwell | A_dead_time) => true
  | KDelay, A_delay => true
  | KTrig, (A_delay | A_duration) => true
  | _, _ => false
  end.

Definition raster_of (s : system) (r : raster_id) : Q :=
  match r with
  | RBlock => s_block_raster s | RRf => s_rf_raster s | RGrad => s_grad_raster s
  | RAdc => s_adc_raster s
  end.

Definition cmp_holds (c : cmp) (a b : Q) : bool :=
  match c with CLt => Qltb a b | CLe => Qleb a b | CGt => Qltb b a | CGe => Qleb b a end.

(* ---------------------------------------------------------------- calc_duration.py:27-58 ---- *)
Inductive arg := AEv (e : event) | ADur (d : Q).   (* an event, or the float block_duration *)

Fixpoint sumQ (l : list Q) : Q := match l with [] => 0 | x :: r => x + sumQ r end.

Definition end_time (tbl : ekind -> option (list attr)) (e : event) : option Q :=
  match tbl (e_kind e) with Some l => Some (sumQ (map (attr_val e) l)) | None => None end.

(* calc_duration.py:31-34 (float: `assert duration <= event; duration = event`), :39-56 *)
Definition cd_step (dur : Q) (a : arg) : Q :=
  match a with
  | ADur d => d
  | AEv e => match end_time cd_end e with Some t => Qmax dur t | None => dur end
  end.
Definition calc_duration (l : list arg) : Q := fold_left cd_step l 0.

(* ------------------------------------------------ block.py:46,55-155,268 (set_block) -------- *)
Definition grad_end_sb (graster : Q) (e : event) : Q :=
  e_delay e + inject_Z (Qceiling (e_tlast e / graster - sb_ceil_guard)) * graster.   (* :81-83 *)
Definition sb_step (graster : Q) (dur : Q) (a : arg) : Q :=
  match a with
  | ADur d => Qmax dur d                                              (* :155 *)
  | AEv e =>
    match e_kind e with
    | KGrad => Qmax dur (grad_end_sb graster e)                       (* :96 *)
    | _ => match end_time sb_end e with Some t => Qmax dur t | None => dur end
    end
  end.
Definition set_block_duration (graster : Q) (l : list arg) : Q := fold_left (sb_step graster) l 0.

(* ---------------------------------------------------------------------- decoded blocks ------ *)
Record block := {
  b_id : Z;               (* key in seq.block_events *)
  b_stored : Q;           (* seq.block_durations[b_id] = block.block_duration *)
  b_rf : option event; b_gx : option event; b_gy : option event; b_gz : option event;
  b_adc : option event;
  b_ext : list event }.   (* labels and triggers (dict-valued attributes, flattened by block_to_events) *)

Inductive slot := SBlock | SRf | SGx | SGy | SGz | SAdc.
Definition err := (Z * slot * attr * errkind)%type.

Definition opt_slot (s : slot) (o : option event) : list (slot * event) :=
  match o with Some e => [(s, e)] | None => [] end.
(* block.__dict__ order (block.py:302): block_duration, rf, gx, gy, gz, adc, label, [trigger] *)
Definition block_slots (b : block) : list (slot * event) :=
  opt_slot SRf (b_rf b) ++ opt_slot SGx (b_gx b) ++ opt_slot SGy (b_gy b) ++ opt_slot SGz (b_gz b)
  ++ opt_slot SAdc (b_adc b).
Definition block_args (b : block) : list arg :=
  ADur (b_stored b) :: map AEv (map snd (block_slots b) ++ b_ext b).
Definition block_duration (b : block) : Q := calc_duration (block_args b).   (* check_timing.py:49 *)

(* ------------------------------------------------------------------ check_timing.py:22-43 ---- *)
Definition div_ok (t raster : Q) : bool :=
  let c := t / raster in
  cmp_holds div_cmp (Qabs (c - inject_Z (rnd_he c))) div_tol.
Definition div_errs (bid : Z) (sl : slot) (a : attr) (t raster : Q) : list err :=
  if div_ok t raster then [] else [(bid, sl, a, RASTER)].

Record env := { v_ev : event; v_dur : Q; v_stored : Q; v_sys : system }.
Definition term_val (E : env) (t : term) : Q :=
  match t with
  | TAttr a => attr_val (v_ev E) a | TDur => v_dur E | TStored => v_stored E
  | TSysAdcDead => s_adc_dead (v_sys E) | TEps => timing_eps
  end.
Fixpoint lin_val (E : env) (l : lin) : Q :=
  match l with
  | [] => 0
  | (true, t) :: r => term_val E t + lin_val E r
  | (false, t) :: r => - term_val E t + lin_val E r
  end.
Definition lintest_holds (E : env) (t : lintest) : bool :=
  let l := lin_val E (lt_lhs t) in
  cmp_holds (lt_cmp t) (if lt_abs t then Qabs l else l) (lin_val E (lt_rhs t)).

(* check_timing.py:68-115: one attribute of the decoded block *)
Definition guard_holds (e : event) (g : guard) : bool :=
  match g with GHas a => has_attr (e_kind e) a | GKind k => ekind_eqb (e_kind e) k end.
Definition echeck_errs (sys : system) (bid : Z) (sl : slot) (e : event) (c : echeck) : list err :=
  match c with
  | CNeg a t =>
    if lintest_holds {| v_ev := e; v_dur := 0; v_stored := 0; v_sys := sys |} t
    then [(bid, sl, a, NEGATIVE_DELAY)] else []
  | CDiv a r =>
    div_errs bid sl a (attr_val e a)
             (raster_of sys (match r with Some r' => r' | None => ct_kind_raster (e_kind e) end))
  end.
Definition group_errs (sys : system) (bid : Z) (sl : slot) (e : event) (g : guard * list echeck)
  : list err :=
  if guard_holds e (fst g) then flat_map (echeck_errs sys bid sl e) (snd g) else [].
Definition slot_errs (sys : system) (bid : Z) (se : slot * event) : list err :=
  flat_map (group_errs sys bid (fst se) (snd se)) ct_groups.

(* check_timing.py:117-171 *)
Definition dead_errs (sys : system) (bid : Z) (sl : slot) (e : event) (dur stored : Q)
           (tests : list (lintest * attr * errkind)) : list err :=
  flat_map (fun t : lintest * attr * errkind =>
              if lintest_holds {| v_ev := e; v_dur := dur; v_stored := stored; v_sys := sys |}
                               (fst (fst t))
              then [(bid, sl, snd (fst t), snd t)] else []) tests.

Definition mismatch (sys : system) (b : block) : bool :=                       (* :54 *)
  lintest_holds {| v_ev := null_event; v_dur := block_duration b; v_stored := b_stored b;
                   v_sys := sys |} ct_mismatch.
(* the local `duration` after line 65 *)
Definition eff_duration (sys : system) (b : block) : Q :=
  if mismatch sys b then b_stored b else block_duration b.

(* the value tested against the block raster (check_timing.py:50): the local `duration`, or the
   stored duration in the repaired variant of the source *)
Definition checked_duration (b : block) : Q :=
  match ct_block_dur_term with TStored => b_stored b | _ => block_duration b end.

Definition check_block (sys : system) (b : block) : list err :=
  div_errs (b_id b) SBlock A_duration (checked_duration b) (raster_of sys ct_block_raster)   (* :50 *)
  ++ (if mismatch sys b then [(b_id b, SBlock, A_duration, BLOCK_DURATION_MISMATCH)] else [])
  ++ flat_map (slot_errs sys (b_id b)) (block_slots b)
  ++ match b_rf b with
     | Some e => dead_errs sys (b_id b) SRf e (eff_duration sys b) (b_stored b) ct_rf_tests
     | None => [] end
  ++ match b_adc b with
     | Some e => dead_errs sys (b_id b) SAdc e (eff_duration sys b) (b_stored b) ct_adc_tests
     | None => [] end.

Definition check_timing (sys : system) (bs : list block) : list err :=
  flat_map (check_block sys) bs.
Definition check_ok (sys : system) (bs : list block) : bool :=
  match check_timing sys bs with [] => true | _ => false end.

(* write_seq.py:84-88: the [BLOCKS] duration column and its assertion *)
Definition blocks_column (sys : system) (b : block) : Z := rnd_he (b_stored b / s_block_raster sys).
Definition write_assert_ok (sys : system) (b : block) : bool :=
  let c := b_stored b / s_block_raster sys in
  cmp_holds write_cmp (Qabs (inject_Z (rnd_he c) - c)) write_tol.

(* ------------------------------------------------------------------------ the timeline ------ *)
(* `curr_dur += self.block_durations[block_counter]`: the running sum, kept in lowest terms (the value
   is the same rational; only the representation stays small when the model is executed) *)
Definition advance (cur : Q) (b : block) : Q := Qred (cur + b_stored b).

(* sequence.py:516-519 duration() *)
Fixpoint duration_go (acc : Q) (bs : list block) : Q :=
  match bs with [] => acc | b :: r => duration_go (advance acc b) r end.
Definition seq_duration (bs : list block) : Q := duration_go 0 bs.
(* sequence.py:1764 (TotalDuration) and :294 (calculate_kspace): sum(self.block_durations.values()) *)
Definition total_duration (bs : list block) : Q := fold_left Qplus (map b_stored bs) 0.

Definition zrange (n : Z) : list Z := map Z.of_nat (seq 0 (Z.to_nat n)).

(* sequence.py:151: (np.arange(n) + 0.5) * dwell + delay + curr_dur *)
Definition adc_local (cur : Q) (b : block) : list Q :=
  match b_adc b with
  | Some a => map (fun k => (inject_Z k + (1 # 2)) * e_dwell a + e_delay a + cur) (zrange (e_nsamp a))
  | None => []
  end.
Fixpoint adc_times_go (cur : Q) (bs : list block) : list Q :=              (* :128,147-154 *)
  match bs with
  | [] => []
  | b :: r => adc_local cur b ++ adc_times_go (advance cur b) r
  end.
Definition adc_times (bs : list block) : list Q := adc_times_go 0 bs.

(* sequence.py:1285-1296: t = rf.delay + centre; curr_dur + t, classified by rf.use *)
Definition rf_local (cur : Q) (b : block) : list (Z * Q) :=
  match b_rf b with
  | Some r => if (e_use r <? 2)%Z then [(e_use r, cur + (e_delay r + e_center r))] else []
  | None => []
  end.
Fixpoint rf_times_go (cur : Q) (bs : list block) : list (Z * Q) :=         (* :1263,1282-1298 *)
  match bs with
  | [] => []
  | b :: r => rf_local cur b ++ rf_times_go (advance cur b) r
  end.
Definition rf_times (bs : list block) : list (Z * Q) := rf_times_go 0 bs.

(* sequence.py:1436-1505: first and last time of the piece contributed by one gradient *)
Definition grad_of (ch : slot) (b : block) : option event :=
  match ch with SGx => b_gx b | SGy => b_gy b | SGz => b_gz b | _ => None end.
Definition wave_piece (graster : Q) (cur : Q) (g : event) : list (Q * Q) :=
  match e_kind g with
  | KGrad =>
    if e_regular g
    then [(cur + e_delay g + 0, cur + e_delay g + (e_tlast g + graster / (2 # 1)))]    (* :1457-1459 *)
    else [(cur + e_delay g + e_tfirst g, cur + e_delay g + e_tlast g)]                 (* :1469 *)
  | KTrap =>
    if Qltb timing_eps (Qabs (e_flat g))                                               (* :1475 *)
    then [(cur + e_delay g, cur + e_delay g + e_rise g + e_flat g + e_fall g)]         (* cumsum, 4 *)
    else if Qltb timing_eps (Qabs (e_rise g)) && Qltb timing_eps (Qabs (e_fall g))     (* :1490 *)
         then [(cur + e_delay g, cur + e_delay g + e_rise g + e_fall g)]               (* cumsum, 3 *)
         else []
  | _ => []
  end.
Definition wave_local (graster : Q) (ch : slot) (cur : Q) (b : block) : list (Q * Q) :=
  match grad_of ch b with Some g => wave_piece graster cur g | None => [] end.
Fixpoint wave_go (graster : Q) (ch : slot) (cur : Q) (bs : list block) : list (Q * Q) :=
  match bs with                                                             (* :1414,1433-1530 *)
  | [] => []
  | b :: r => wave_local graster ch cur b ++ wave_go graster ch (advance cur b) r
  end.
Definition wave_pieces (graster : Q) (ch : slot) (bs : list block) : list (Q * Q) :=
  wave_go graster ch 0 bs.

(* the block start times: running sum of the stored durations *)
Fixpoint starts_go (cur : Q) (bs : list block) : list Q :=
  match bs with [] => [] | b :: r => cur :: starts_go (advance cur b) r end.
Definition starts (bs : list block) : list Q := starts_go 0 bs.

(* time_range variant (sequence.py:138-145): t = cumsum(bd); start of block i = t[i] - bd[i] *)
Fixpoint cumsum_go (acc : Q) (l : list Q) : list Q :=
  match l with [] => [] | x :: r => Qred (acc + x) :: cumsum_go (Qred (acc + x)) r end.
Definition tr_start (bs : list block) (i : nat) : Q :=
  nth i (cumsum_go 0 (map b_stored bs)) 0 - nth i (map b_stored bs) 0.

(* ------------------------------------------------------- time_range variants (round 2) ------ *)
(* the shared shape of every timeline consumer: evaluate a per-block function at the running sum *)
Section Walk.
  Context {A : Type} (f : Q -> block -> list A).
  Fixpoint walk (cur : Q) (bs : list block) : list A :=
    match bs with [] => [] | b :: r => f cur b ++ walk (advance cur b) r end.
End Walk.

(* sequence.py:138-145 (adc_times), :1273-1280 (rf_times), :1424-1431 (waveforms):
     bd = block durations; t = cumsum(bd)
     begin_block = searchsorted(t, lo)                  = number of block END times  <  lo
     end_block   = searchsorted(t - bd, hi, 'right')    = number of block START times <= hi
     blocks = keys[begin_block:end_block]; curr_dur = t[begin_block] - bd[begin_block]
   (searchsorted = these counts because durations are >= 0, so both arrays are sorted) *)
Definition block_ends (bs : list block) : list Q := cumsum_go 0 (map b_stored bs).
Definition block_begins (bs : list block) : list Q :=
  map (fun p => fst p - snd p) (combine (block_ends bs) (map b_stored bs)).
Definition count_if (p : Q -> bool) (l : list Q) : nat := length (filter p l).
Definition begin_block (bs : list block) (lo : Q) : nat := count_if (fun t => Qltb t lo) (block_ends bs).
Definition end_block (bs : list block) (hi : Q) : nat := count_if (fun s => Qleb s hi) (block_begins bs).
Definition slice {A : Type} (b e : nat) (l : list A) : list A := firstn (e - b) (skipn b l).

Definition tr_blocks (bs : list block) (lo hi : Q) : list block :=
  slice (begin_block bs lo) (end_block bs hi) bs.
Definition adc_times_tr (bs : list block) (lo hi : Q) : list Q :=
  adc_times_go (tr_start bs (begin_block bs lo)) (tr_blocks bs lo hi).
Definition rf_times_tr (bs : list block) (lo hi : Q) : list (Z * Q) :=
  rf_times_go (tr_start bs (begin_block bs lo)) (tr_blocks bs lo hi).
Definition wave_pieces_tr (graster : Q) (ch : slot) (bs : list block) (lo hi : Q) : list (Q * Q) :=
  wave_go graster ch (tr_start bs (begin_block bs lo)) (tr_blocks bs lo hi).

(* ------------------------------------------------- duration(): event counting (:514-519) ----- *)
(* event_count += block_events[i] > 0, columns rf gx gy gz adc ext (column 0, the 1.3 delay id, stays 0) *)
Definition count_some (g : block -> bool) (bs : list block) : Z := Z.of_nat (length (filter g bs)).
Definition is_some {A : Type} (o : option A) : bool := match o with Some _ => true | None => false end.
Definition event_count (bs : list block) : list Z :=
  [ 0%Z; count_some (fun b => is_some (b_rf b)) bs; count_some (fun b => is_some (b_gx b)) bs;
    count_some (fun b => is_some (b_gy b)) bs; count_some (fun b => is_some (b_gz b)) bs;
    count_some (fun b => is_some (b_adc b)) bs;
    count_some (fun b => match b_ext b with [] => false | _ => true end) bs ].

(* ---------------------------------- decoding of the RF time axis (sequence.py:1210-1219) ----- *)
(* time_shape id 0: n samples at the centres of the rf raster cells; otherwise explicit sample times,
   stored in raster units, the last one being tl *)
Inductive rf_time_shape := RfRegular (n : Z) | RfTimes (tl : Q).
Definition decode_rf_tlast (raster : Q) (sh : rf_time_shape) : Q :=
  match sh with
  | RfRegular n => (inject_Z n - (1 # 2)) * raster           (* (arange(1, n+1) - 0.5) * raster, last *)
  | RfTimes tl => tl * raster                                 (* decompress_shape(...) * raster, last *)
  end.
Definition decode_rf_shape_dur (raster : Q) (sh : rf_time_shape) : Q :=
  match sh with
  | RfRegular n => inject_Z n * raster                        (* len(rf.signal) * raster *)
  | RfTimes tl =>                                              (* ceil((t[-1] - eps) / raster) * raster *)
    inject_Z (Qceiling ((tl * raster - timing_eps) / raster)) * raster
  end.

(* ------------------------------------------- write + read of the block durations ------------ *)
(* read_seq: duration = integer of the [BLOCKS] column * BlockDurationRaster *)
Definition with_stored (b : block) (d : Q) : block :=
  {| b_id := b_id b; b_stored := d; b_rf := b_rf b; b_gx := b_gx b; b_gy := b_gy b; b_gz := b_gz b;
     b_adc := b_adc b; b_ext := b_ext b |}.
Definition reread_block (sys : system) (b : block) : block :=
  with_stored b (inject_Z (blocks_column sys b) * s_block_raster sys).

(* ------------------------------------------- the two block tables of a Sequence (round 4) ---- *)
(* block_events and block_durations are two insertion-ordered dicts keyed by the block number;
   duration() walks the keys of block_events and looks each duration up, while TotalDuration,
   calculate_kspace and the time_range tables take block_durations.values() directly *)
Definition dur_table := list (Z * Q).
Fixpoint tbl_lookup (k : Z) (t : dur_table) : option Q :=
  match t with [] => None | (k', v) :: r => if Z.eqb k k' then Some v else tbl_lookup k r end.
(* d[k] = v on an insertion-ordered dict: overwrite in place, else append *)
Fixpoint tbl_set (k : Z) (v : Q) (t : dur_table) : dur_table :=
  match t with
  | [] => [(k, v)]
  | (k', v') :: r => if Z.eqb k k' then (k, v) :: r else (k', v') :: tbl_set k v r
  end.
Fixpoint keys_set (k : Z) (ks : list Z) : list Z :=
  match ks with [] => [k] | k' :: r => if Z.eqb k k' then k' :: r else k' :: keys_set k r end.

Record tl_state := { tl_keys : list Z; tl_durs : dur_table }.
Definition tl_empty : tl_state := {| tl_keys := []; tl_durs := [] |}.
(* block.py:267-268: self.block_events[i] = new_block; self.block_durations[i] = float(duration) *)
Definition tl_set_block (k : Z) (d : Q) (st : tl_state) : tl_state :=
  {| tl_keys := keys_set k (tl_keys st); tl_durs := tbl_set k d (tl_durs st) |}.
(* read_seq.py:59,130: both tables are REPLACED by the tables built from the [BLOCKS] section *)
Definition tl_read (file : dur_table) (st : tl_state) : tl_state :=
  {| tl_keys := map fst file; tl_durs := file |}.
(* the seeded / hypothetical variant that merges the file into the old duration table *)
Definition tl_read_merging (file : dur_table) (st : tl_state) : tl_state :=
  {| tl_keys := map fst file;
     tl_durs := fold_left (fun t kv => tbl_set (fst kv) (snd kv) t) file (tl_durs st) |}.

(* duration(): for block_counter in self.block_events: duration += self.block_durations[block_counter] *)
Fixpoint tl_duration_go (ks : list Z) (t : dur_table) (acc : Q) : option Q :=
  match ks with
  | [] => Some acc
  | k :: r => match tbl_lookup k t with Some v => tl_duration_go r t (acc + v) | None => None end
  end.
Definition tl_duration (st : tl_state) : option Q := tl_duration_go (tl_keys st) (tl_durs st) 0.
(* sum(self.block_durations.values()) *)
Definition tl_sum (st : tl_state) : Q := fold_left Qplus (map snd (tl_durs st)) 0.

Inductive tl_op := OpSet (k : Z) (d : Q) | OpRead (file : dur_table).
Definition tl_step (st : tl_state) (o : tl_op) : tl_state :=
  match o with OpSet k d => tl_set_block k d st | OpRead f => tl_read f st end.
Definition tl_run (ops : list tl_op) : tl_state := fold_left tl_step ops tl_empty.
