(* Model/ModAxis.v — Sequence.mod_grad_axis / flip_grad_axis (sequence.py:600-612, 828-872) on the
   library model of Model/Seq.v + Model/EventLib.v.  Executable definitions only.
   The modifier and the library rows are canonical rationals (Qc); channels 0,1,2 = 'x','y','z'. *)
From Coq Require Import List Bool ZArith QArith Qcanon.
From RecordUpdate Require Import RecordSet.
From PV Require Import Base.AList Base.QUtil Model.EventLib Model.Seq Gen.GenGradOps.
Import ListNotations RecordSetNotations.
Open Scope Z_scope.

Inductive maerr :=
| MAAxis        (* ValueError: invalid axis                                                    *)
| MAEmpty       (* IndexError: np.array([])[:, 2:5] on a sequence without blocks                 *)
| MAShared      (* RuntimeError: the same gradient event is used on multiple axes               *)
| MAKey.        (* KeyError: a gradient id of the block table is not in the gradient library    *)

(* np.unique of a column: sorted, without repetitions *)
Fixpoint ins_uniq (x : Z) (l : list Z) : list Z :=
  match l with
  | [] => [x]
  | y :: r => if x <? y then x :: l else if x =? y then l else y :: ins_uniq x r
  end.
Definition np_unique (l : list Z) : list Z := fold_right ins_uniq [] l.

(* all_grad_events[:, ch] : column 2+ch of every block row *)
Definition grad_col (ch : nat) (bl : list (Z * list Z)) : list Z :=
  map (fun b => nth (2 + ch) (snd b) 0) bl.

(* sequence.py:855-857 *)
Definition selected_ids (c : core) (ch : nat) : list Z :=
  filter (fun i => negb (i =? 0)) (np_unique (grad_col ch (blocks c))).
Definition other_ids (c : core) (ch : nat) : list Z :=
  np_unique (flat_map (fun o => if Nat.eqb o ch then [] else grad_col o (blocks c)) [0; 1; 2]%nat).

(* data[0] *= modifier; for 'g' rows also data[4], data[5] (sequence.py:863-869) *)
Fixpoint scale_at (m : Qc) (idx : list nat) (n : nat) (k : key) : key :=
  match k with
  | [] => []
  | x :: r => (if existsb (Nat.eqb n) idx then (x * m)%Qc else x) :: scale_at m idx (S n) r
  end.
Definition scale_row (ty : Z) (m : Qc) (data : key) : key :=
  scale_at m (if ty =? tag_g then ma_cols_all ++ ma_cols_g else ma_cols_all) 0 data.
(* the column lists are read from the source on every run (Gen/GenGradOps.v): currently [0] and [4; 5] *)

(* the loop `for grad_id in selected_events` (sequence.py:861-870); stops at the first KeyError *)
Fixpoint mod_loop (m : Qc) (gl : klib) (ids : list Z) : klib * option maerr :=
  match ids with
  | [] => (gl, None)
  | id :: r =>
    match lib_type gl id, lib_get gl id with
    | Some ty, Some data => mod_loop m (kupd gl id (scale_row ty m data) ty) r
    | _, _ => (gl, Some MAKey)
    end
  end.

(* sequence.py:846-871 (without the cache) *)
Definition mod_grad_axis (c : core) (ch : nat) (m : Qc) : core * option maerr :=
  if (3 <=? ch)%nat then (c, Some MAAxis)
  else match blocks c with
  | [] => (c, Some MAEmpty)
  | _ =>
    let sel := selected_ids c ch in
    let oth := other_ids c ch in
    if existsb (fun i => existsb (Z.eqb i) oth) sel then (c, Some MAShared)
    else let '(gl, e) := mod_loop m (grad_l c) sel in (c <| grad_l := gl |>, e)
  end.

Definition flip_grad_axis (c : core) (ch : nat) : core * option maerr :=
  mod_grad_axis c ch (Q2Qc (-1)).                                        (* sequence.py:612 *)

(* on the object: the block cache is cleared at the end of a call that did not raise (:871) *)
Definition mod_grad_axis_state (s : state) (ch : nat) (m : Qc) : state * option maerr :=
  let '(c', e) := mod_grad_axis (st_core s) ch m in
  match e with
  | None => (mkState c' [], None)
  | Some x => (mkState c' (st_cache s), Some x)
  end.

(* what every block must decode to afterwards: the gradient on channel ch with its row rescaled *)
Definition scale_dgrad (m : Qc) (g : dgrad) : dgrad :=
  mkDGrad (dg_type g) (scale_row (dg_type g) m (dg_data g)) (dg_shapes g).
Definition scale_dblock (ch : nat) (m : Qc) (b : dblock) : dblock :=
  mkDBlock (d_dur b) (d_rf b)
           (map (fun ng => if Nat.eqb (fst ng) ch then option_map (scale_dgrad m) (snd ng) else snd ng)
                (combine [0; 1; 2]%nat (d_g b)))
           (d_adc b) (d_ext b).
