(* Model/LabelEval.v — C19: the pieces that sit on top of Model/Seq.v and Model/Labels.v.

   1. the bare walk over an extension chain with a THREE-valued result (ok / KeyError / out of
      fuel), so that "the while loop of get_block terminates" is a statement that can be false;
   2. the (type id, ref) list a chain stands for, and the payload lookup get_block does per entry
      (block.py:383-436);
   3. what evaluate_labels sees of a decoded block (labels in reversed walk order, block.py:438-440;
      ADC presence) and evaluate_labels run on a whole store (sequence.py:563-566 iterate
      block_events in insertion order and call get_block);
   4. the reference interpreter of label programs, written label by label from the property text.

   Executable definitions only. *)
From Coq Require Import List Bool ZArith QArith Qcanon.
From PV Require Import Base.AList Model.EventLib Model.Seq Model.Labels.
Import ListNotations.
Open Scope Z_scope.

(* ---- 1. the chain walk ------------------------------------------------------------------------ *)
Inductive walk_res := WOk (ids : list Z) | WKey | WFuel.

(* block.py:385-387,433: next_ext_id = event_ind[6]; while next_ext_id != 0: ext_data = data[id];
   ...; next_ext_id = ext_data[2] *)
Fixpoint ext_walk (l : klib) (fuel : nat) (eid : Z) : walk_res :=
  if eid =? 0 then WOk [] else
  match fuel with
  | O => WFuel
  | S f =>
    match lib_get l eid with
    | None => WKey
    | Some ed =>
      match ext_walk l f (qz (knth ed 2)) with
      | WOk r => WOk (eid :: r)
      | x => x
      end
    end
  end.

(* ---- 2. the list of (type id, ref) pairs of a chain, in walk order ---------------------------- *)
Fixpoint ext_list (l : klib) (fuel : nat) (eid : Z) : option (list (Z * Z)) :=
  if eid =? 0 then Some [] else
  match fuel with
  | O => None
  | S f =>
    match lib_get l eid with
    | None => None
    | Some ed =>
      match ext_list l f (qz (knth ed 2)) with
      | Some r => Some ((qz (knth ed 0), qz (knth ed 1)) :: r)
      | None => None
      end
    end
  end.

(* what get_block reads for one chain entry: the extension string and the referenced library row *)
Definition ext_payload (c : core) (x : Z * Z) : option (Z * key) :=
  match ext_type_str c (fst x) with
  | None => None
  | Some s =>
    match (if s =? XS_TRIGGERS then lib_get (trig_l c) (snd x)
           else if s =? XS_LABELSET then lib_get (lset_l c) (snd x)
           else if s =? XS_LABELINC then lib_get (linc_l c) (snd x)
           else None) with
    | Some p => Some (s, p)
    | None => None
    end
  end.

Fixpoint map_opt {A B} (f : A -> option B) (l : list A) : option (list B) :=
  match l with
  | [] => Some []
  | x :: r => match f x, map_opt f r with
              | Some y, Some s => Some (y :: s)
              | _, _ => None
              end
  end.

(* ---- 3. from decoded blocks to label programs -------------------------------------------------- *)
(* block.py:415-431 per entry, 438-440 the reversal: labels of a block in the order of
   block.label.values() *)
Definition lop_of_ext (x : Z * key) : option lop :=
  if fst x =? XS_LABELSET then Some (mkLop true (qz (knth (snd x) 1)) (qz (knth (snd x) 0)))
  else if fst x =? XS_LABELINC then Some (mkLop false (qz (knth (snd x) 1)) (qz (knth (snd x) 0)))
  else None.
Fixpoint filter_map {A B} (f : A -> option B) (l : list A) : list B :=
  match l with
  | [] => []
  | x :: r => match f x with Some y => y :: filter_map f r | None => filter_map f r end
  end.
Definition labels_of_ext (ext : list (Z * key)) : list lop := rev (filter_map lop_of_ext ext).
Definition trigs_of_ext (ext : list (Z * key)) : list key :=
  filter_map (fun x => if fst x =? XS_TRIGGERS then Some (snd x) else None) ext.

Definition lblock_of (b : dblock) : lblock :=
  mkLBlock (labels_of_ext (d_ext b)) (match d_adc b with Some _ => true | None => false end).

(* all blocks in block_events order; None = some get_block raises *)
Definition store_lblocks (c : core) : option (list lblock) :=
  map_opt (fun i => option_map lblock_of (decode c i)) (akeys (blocks c)).

Definition eval_store (c : core) (init : env) (m : emode) : option (list (Z * list Z) * bool) :=
  option_map (evaluate_labels init m) (store_lblocks c).

(* ---- 4. the reference interpreter --------------------------------------------------------------- *)
(* does the block contribute a row to the evolution in mode m? (sequence.py:581-585) *)
Definition emits (m : emode) (b : lblock) : bool :=
  match m with
  | ENone => false
  | EAdc => b_adc b
  | ELabel => match b_labels b with [] => false | _ => true end
  | EBlocks => true
  end.

(* one operation seen from label l: SET assigns, INC adds, an unset label counts as 0 *)
Definition op_on (l : Z) (v : option Z) (o : lop) : option Z :=
  if l_lbl o =? l then
    Some (if l_set o then l_val o else (match v with Some x => x | None => 0 end) + l_val o)
  else v.
(* all operations of a block in the order get_block returns them (several per label allowed) *)
Definition lstep_seq (l : Z) (v : option Z) (b : lblock) : option Z := fold_left (op_on l) (b_labels b) v.

Definition val0 (v : option Z) : Z := match v with Some x => x | None => 0 end.

(* column of label l: final value and the emitted rows; [stp] is the per-block transition *)
Fixpoint interp_col (stp : Z -> option Z -> lblock -> option Z) (m : emode) (l : Z) (v : option Z)
         (bs : list lblock) : option Z * list Z :=
  match bs with
  | [] => (v, [])
  | b :: r =>
    let v' := stp l v b in
    let '(vf, rows) := interp_col stp m l v' r in
    (vf, if emits m b then val0 v' :: rows else rows)
  end.

(* the entry of label l in the returned dictionary: absent if l is neither in init nor touched;
   the final value when no row was emitted (a Python scalar, here a one-element list), else the rows *)
Definition interp_gen (stp : Z -> option Z -> lblock -> option Z) (init : env) (m : emode)
           (bs : list lblock) (l : Z) : option (list Z) :=
  let '(vf, rows) := interp_col stp m l (aget Z.eqb init l) bs in
  match vf with
  | None => None
  | Some x => Some (match rows with [] => [x] | _ => rows end)
  end.

(* the property's interpreter (at most one operation per label and block: the operation on l, if
   any, is THE operation on l) and the sequential one (any number of operations, in list order) *)
Definition interp := interp_gen spec_step.
Definition interp_seq := interp_gen lstep_seq.

(* at most one operation per label in every block *)
Fixpoint nodup_z (l : list Z) : bool :=
  match l with
  | [] => true
  | x :: r => negb (existsb (Z.eqb x) r) && nodup_z r
  end.
Definition one_op_per_label (b : lblock) : bool := nodup_z (map l_lbl (b_labels b)).

(* ---- 5. a variant of get_extension_type_ID, for the refutation in Props/C19.v --------------------- *)
(* `extension_id = 1 + self.extension_numeric_idx[-1]` instead of `1 + max(self.extension_numeric_idx)`:
   the same function as long as the id list is ascending (ids created in memory), different after a
   read() that lists the ids in file-section order *)
Definition ext_type_id_last (c : core) (s : Z) : core * Z :=
  match index_of s (ext_str c) with
  | Some n => (c, nth n (ext_num c) 0)
  | None =>
    let id := match ext_num c with [] => 1 | _ => 1 + last (ext_num c) 0 end in
    (mkCore (rf_l c) (grad_l c) (adc_l c) (trig_l c) (lset_l c) (linc_l c) (ext_l c) (shape_l c)
            (blocks c) (durs c) (next_block c) (ext_num c ++ [id]) (ext_str c ++ [s])
            (grad_raster c) (sys_raster c) (max_slew c) (eps_ c), id)
  end.
