(* Model/Shape.v — compress_shape.py / decompress_shape.py as total functions over Q.
   Executable definitions only.  Constants come from Gen.GenShape.v (translated from source). *)
From Coq Require Import ZArith QArith Qround List Bool Arith.
From PV Require Import Base.QUtil Gen.GenShape.
Import ListNotations.
Open Scope Q_scope.

(* compress_shape.py:36-42: derivative quantisation with error feedback.
   State carried along the array: previous scaled sample, cumsum of datq, previous round(qerr). *)
Fixpoint quant_go (prev_s : Q) (C : Z) (prev_rq : Z) (first : bool) (xs : list Q) : list Z :=
  match xs with
  | [] => []
  | x :: r =>
    let s := Qred (x / quant_factor) in
    let dq := rnd_he (s - prev_s) in
    let C' := (C + dq)%Z in
    let rq := rnd_he (s - inject_Z C') in
    let dd := if first then dq else (dq + (rq - prev_rq))%Z in
    dd :: quant_go s C' rq false r
  end.
Definition quantise (xs : list Q) : list Z := quant_go 0 0%Z 0%Z true xs.

(* compress_shape.py:44-47: maximal runs *)
Fixpoint runs (l : list Z) : list (Z * nat) :=
  match l with
  | [] => []
  | v :: r =>
    match runs r with
    | (w, n) :: t => if Z.eqb v w then (w, S n) :: t else (v, 1%nat) :: (w, n) :: t
    | [] => [(v, 1%nat)]
    end
  end.

Definition qv (v : Z) : Q := inject_Z v * quant_factor.
Definition cnt (n : nat) : Q := inject_Z (Z.of_nat n - rl_offset_enc).

(* compress_shape.py:49-56: (value, value, length-2) for runs longer than 1, else value *)
Definition pack_run (r : Z * nat) : list Q :=
  let '(v, n) := r in
  if (1 <? n)%nat then [qv v; qv v; cnt n] else [qv v].
Definition pack_runs (R : list (Z * nat)) : list Q := flat_map pack_run R.
Definition pack (l : list Z) : list Q := pack_runs (runs l).

(* decompress_shape.py:55: rep = int(data_pack[count_pack + 2] + 2); the model rejects
   non-integral or negative repeat counts (the code would truncate / mis-slice). *)
Definition count_of (c : Q) : option nat :=
  let z := Qfloor c in
  if Qeq_bool (inject_Z z) c then
    if (0 <=? z + rl_offset_dec)%Z then Some (Z.to_nat (z + rl_offset_dec)) else None
  else None.

(* decompress_shape.py:37-69 in one left-to-right pass.  [skip] = count_pack - position when
   positive: markers at such positions are the loop's rejected "false positives"; positions at or
   beyond count_pack are literal samples unless they are markers (equal to their successor). *)
Fixpoint unpack_go (l : list Q) (skip : nat) : option (list Q) :=
  match l with
  | [] => Some []
  | a :: tl =>
    match skip with
    | S k => unpack_go tl k
    | O =>
      match tl with
      | b :: r =>
        if Qeq_bool a b then
          match r with
          | c :: _ =>
            match count_of c with
            | Some rep => option_map (app (repeat a rep)) (unpack_go tl 2)
            | None => None
            end
          | [] => None
          end
        else option_map (cons a) (unpack_go tl 0)
      | [] => Some [a]
      end
    end
  end.

Fixpoint cumsumQ_go (acc : Q) (l : list Q) : list Q :=
  match l with
  | [] => []
  | a :: r => let acc' := Qred (acc + a) in acc' :: cumsumQ_go acc' r
  end.
Definition cumsumQ := cumsumQ_go 0.

Fixpoint cumsumZ_go (acc : Z) (l : list Z) : list Z :=
  match l with
  | [] => []
  | a :: r => let acc' := (acc + a)%Z in acc' :: cumsumZ_go acc' r
  end.
Definition cumsumZ := cumsumZ_go 0%Z.

Record cshape := { num_samples : nat; cdata : list Q }.

Definition compress (force : bool) (x : list Q) : cshape :=
  let n := length x in
  if negb force && (n <=? short_shape_threshold)%nat then {| num_samples := n; cdata := x |}
  else
    let v := pack (quantise x) in
    if force || (length v <? n)%nat then {| num_samples := n; cdata := v |}
    else {| num_samples := n; cdata := x |}.

Definition decompress (force : bool) (c : cshape) : option (list Q) :=
  if negb force && (num_samples c =? length (cdata c))%nat then Some (cdata c)
  else
    match unpack_go (cdata c) 0 with
    | Some d => if (length d =? num_samples c)%nat then Some (cumsumQ d) else None
    | None => None
    end.
