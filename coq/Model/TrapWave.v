(* Model/TrapWave.v — the waveform of a trapezoid event as a piecewise-linear function (Base/PWL.v):
   corners (delay, 0), (delay+rise, amplitude), (delay+rise+flat, amplitude), (delay+rise+flat+fall, 0);
   a triangular event (flat_time = 0) has three corners, so that the corner times stay strictly
   increasing.  Executable definition only (theorems: Proofs/TrapWaveProofs.v). *)
From Coq Require Import QArith List.
From PV Require Import Base.QUtil Base.PWL Model.Trap.
Import ListNotations.
Open Scope Q_scope.

Definition trap_to_pwl (g : trap) : pwl :=
  let t0 := t_delay g in
  let t1 := t0 + t_rise g in
  let t2 := t1 + t_flat g in
  let t3 := t2 + t_fall g in
  if isz (t_flat g)
  then [(t0, 0); (t1, t_amplitude g); (t3, 0)]
  else [(t0, 0); (t1, t_amplitude g); (t2, t_amplitude g); (t3, 0)].
