(* Model/ExtTrapArea.v — make_extended_trapezoid_area.py (and the checks of make_extended_trapezoid.py
   it runs into) as total executable functions over Q / Z.  Definitions only.
   Safety factors, tolerances, eps and the lower search bound come from Gen/GenExtTrapArea.v
   (re-read from the source on every run).  Line numbers refer to
   src/pypulseq/make_extended_trapezoid_area.py unless another file is named. *)
From Coq Require Import ZArith QArith Qround Qabs List Bool.
From PV Require Import Base.QUtil Gen.GenExtTrapArea.
Import ListNotations.
Open Scope Q_scope.

Record etaSys := { s_max_grad : Q; s_max_slew : Q; s_raster : Q }.
Record etaArgs := { e_sys : etaSys; e_gs : Q; e_ge : Q; e_area : Q }.

(* error classes: the exceptions of the code plus the model's own fuel exhaustion *)
Inductive etaErr :=
| OutOfFuel        (* model only: doubling loop / binary search ran out of fuel *)
| NoneSolution     (* binary_search returned None: `solution[0]` would raise TypeError (line 211) *)
| ETimesZero       (* make_extended_trapezoid.py:85 *)
| ETimesOrder      (* make_extended_trapezoid.py:88 *)
| ERaster          (* make_extended_trapezoid.py:91 / :119 *)
| EFirst           (* make_extended_trapezoid.py:94 *)
| ESlew            (* make_extended_trapezoid.py:137 *)
| EAmp             (* make_extended_trapezoid.py:139 *)
| EArea.           (* lines 241-242 *)
Inductive result (A : Type) := OK (x : A) | Err (e : etaErr).
Arguments OK {A} x.
Arguments Err {A} e.

(* lines 54-56 *)
Definition mslew (a : etaArgs) : Q := s_max_slew (e_sys a) * eta_slew_factor.
Definition mgrad (a : etaArgs) : Q := s_max_grad (e_sys a) * eta_grad_factor.
Definition rast (a : etaArgs) : Q := s_raster (e_sys a).

(* lines 58-62 *)
Definition to_raster (a : etaArgs) (t : Q) : Q := inject_Z (Qceiling (t / rast a)) * rast a.
Definition calc_ramp_time (a : etaArgs) (g1 g2 : Q) : Q := to_raster a (Qabs (g1 - g2) / mslew a).
(* the recurring `round(_calc_ramp_time(x, y) / raster_time)` *)
Definition ramp_cnt (a : etaArgs) (g1 g2 : Q) : Z := rnd_he (calc_ramp_time a g1 g2 / rast a).

(* ---- _find_solution (lines 64-161) ---- *)

Definition timing_ok (d ru rd : Z) : bool := (0 <? ru)%Z && (0 <? rd)%Z && (ru + rd <=? d)%Z.

(* lines 86-100: maximum-slew candidate towards +max_grad *)
Definition cand_pos (a : etaArgs) (d : Z) : list (Z * Z) :=
  let ms := mslew a in let R := rast a in
  let ru0 := rnd_he ((inject_Z d * ms * R - e_gs a + e_ge a) / (2 * ms * R)) in
  let p := if Qltb (mgrad a + eta_eps) (e_gs a + inject_Z ru0 * ms * R)
           then (ramp_cnt a (e_gs a) (mgrad a), ramp_cnt a (e_ge a) (mgrad a))
           else (ru0, (d - ru0)%Z) in
  if timing_ok d (fst p) (snd p) then [p] else [].

(* lines 104-118: maximum-slew candidate towards -max_grad *)
Definition cand_neg (a : etaArgs) (d : Z) : list (Z * Z) :=
  let ms := mslew a in let R := rast a in
  let ru0 := rnd_he ((inject_Z d * ms * R + e_gs a - e_ge a) / (2 * ms * R)) in
  let p := if Qltb (e_gs a - inject_Z ru0 * ms * R) (- mgrad a - eta_eps)
           then (ramp_cnt a (e_gs a) (- mgrad a), ramp_cnt a (e_ge a) (- mgrad a))
           else (ru0, (d - ru0)%Z) in
  if timing_ok d (fst p) (snd p) then [p] else [].

(* lines 123-125: every split with flat_time == 0; range(1, duration) *)
Definition cand_two_ramp (d : Z) : list (Z * Z) :=
  map (fun i => let k := (1 + Z.of_nat i)%Z in (k, (d - k)%Z)) (seq 0 (Z.to_nat (d - 1))).

Definition cands (a : etaArgs) (d : Z) : list (Z * Z) := cand_pos a d ++ cand_neg a d ++ cand_two_ramp d.

Record cand := { c_up : Z; c_flat : Z; c_down : Z; c_amp : Q; c_s1 : Q; c_s2 : Q }.

(* lines 131, 140-146 *)
Definition eval_cand (a : etaArgs) (d : Z) (p : Z * Z) : cand :=
  let ru := fst p in let rd := snd p in let R := rast a in
  let fl := (d - ru - rd)%Z in
  let ga := Qred (- (inject_Z ru * R * e_gs a + inject_Z rd * R * e_ge a - 2 * e_area a)
                  / (inject_Z (ru + 2 * fl + rd) * R)) in
  {| c_up := ru; c_flat := fl; c_down := rd; c_amp := ga;
     c_s1 := Qabs (e_gs a - ga) / (inject_Z ru * R);
     c_s2 := Qabs (e_ge a - ga) / (inject_Z rd * R) |}.
(* (Qred only normalises the representation of a rational: x == Qred x; it keeps the extracted model fast) *)

(* line 134 *)
Definition flat_ok (d : Z) (p : Z * Z) : bool := (0 <=? d - fst p - snd p)%Z.

(* lines 149-151 *)
Definition valid (a : etaArgs) (c : cand) : bool :=
  Qleb (Qabs (c_amp c)) (mgrad a + eta_amp_tol) &&
  Qleb (c_s1 c) (mslew a + eta_slew1_tol) &&
  Qleb (c_s2 c) (mslew a + eta_slew2_tol).

Definition cost (c : cand) : Q := c_s1 c + c_s2 c.

(* line 159: np.argmin returns the FIRST index of the minimum *)
Fixpoint argmin_first (best : option cand) (l : list cand) : option cand :=
  match l with
  | [] => best
  | c :: r =>
    match best with
    | None => argmin_first (Some c) r
    | Some b => if Qltb (cost c) (cost b) then argmin_first (Some c) r else argmin_first best r
    end
  end.

Definition find_solution (a : etaArgs) (d : Z) : option cand :=
  argmin_first None (filter (valid a) (map (eval_cand a d) (filter (flat_ok d) (cands a d)))).

(* ---- the search (lines 168-217 of the repaired source) ---- *)

Definition min_duration (a : etaArgs) : Z := Z.max (ramp_cnt a (e_ge a) (e_gs a)) eta_min_dur.
Definition lin_max (a : etaArgs) : Z :=
  Z.max (ramp_cnt a 0 (e_gs a)) (Z.max (ramp_cnt a 0 (e_ge a)) (min_duration a)).

(* lines 181-184: tries d, d+1, ..., d+n-1 *)
Fixpoint linear_search (a : etaArgs) (d : Z) (n : nat) : option (Z * cand) :=
  match n with
  | O => None
  | S k => match find_solution a d with
           | Some c => Some (d, c)
           | None => linear_search a (d + 1)%Z k
           end
  end.

(* lines 190-192: returns the first doubled duration that has a solution *)
Fixpoint doubling (a : etaArgs) (md : Z) (fuel : nat) : option Z :=
  match fuel with
  | O => None
  | S k => let md' := (md * 2)%Z in
           match find_solution a md' with
           | Some _ => Some md'
           | None => doubling a md' k
           end
  end.

(* lines 194-203 *)
Fixpoint bsearch (a : etaArgs) (lo hi : Z) (fuel : nat) : result (Z * cand) :=
  match fuel with
  | O => Err OutOfFuel
  | S k =>
    if (lo =? hi - 1)%Z then
      match find_solution a hi with Some c => OK (hi, c) | None => Err NoneSolution end
    else
      let t := ((hi + lo) / 2)%Z in
      match find_solution a t with
      | Some _ => bsearch a lo t k
      | None => bsearch a t hi k
      end
  end.

(* the search as it was before repair commit 7df2246 (no rescan after the binary search); kept as
   [search_old] / [eta_old] for the refutation witness in Props/C12.v *)
Definition search_old (fd fb : nat) (a : etaArgs) : result (Z * cand) :=
  let mn := min_duration a in
  let mx := lin_max a in
  match linear_search a mn (Z.to_nat (mx - mn + 1)) with
  | Some dc => OK dc
  | None =>
    match doubling a mx fd with
    | None => Err OutOfFuel
    | Some hi => bsearch a (hi / 2)%Z hi fb
    end
  end.

(* `shortest_conceivable = int(abs(area) / ((max_grad + 1e-8) * raster_time))`; int() of a non-negative
   float truncates = floor *)
Definition shortest_conceivable (a : etaArgs) : Z :=
  Qfloor (Qabs (e_area a) / ((mgrad a + eta_sc_tol) * rast a)).

(* the rescan `for duration in range(max(linear_search_end + 1, shortest_conceivable), sum(solution[:3]))`:
   first duration with a solution, else the result of the binary search *)
Definition rescan (a : etaArgs) (dc : Z * cand) : Z * cand :=
  let c := snd dc in
  let start := Z.max (lin_max a + 1) (shortest_conceivable a) in
  let stop := (c_up c + c_flat c + c_down c)%Z in
  match linear_search a start (Z.to_nat (stop - start)) with
  | Some dc' => dc'
  | None => dc
  end.

Definition search (fd fb : nat) (a : etaArgs) : result (Z * cand) :=
  let mn := min_duration a in
  let mx := lin_max a in
  match linear_search a mn (Z.to_nat (mx - mn + 1)) with
  | Some dc => OK dc
  | None =>
    match doubling a mx fd with
    | None => Err OutOfFuel
    | Some hi =>
      match bsearch a (hi / 2)%Z hi fb with
      | Err e => Err e
      | OK dc => OK (rescan a dc)
      end
    end
  end.

(* ---- make_extended_trapezoid.py, the path with convert_to_arbitrary=False, max_grad=max_slew=0,
        skip_check=False ---- *)

Fixpoint diffs (l : list Q) : list Q :=
  match l with
  | x :: ((y :: _) as r) => (y - x) :: diffs r
  | _ => []
  end.

Definition on_raster (R t : Q) : bool := Qleb (Qabs (inject_Z (rnd_he (t / R)) * R - t)) eta_eps.

Fixpoint trap_area (tt w : list Q) : Q :=
  match tt, w with
  | t0 :: ((t1 :: _) as tr), w0 :: ((w1 :: _) as wr) => (t1 - t0) * (w1 + w0) + trap_area tr wr
  | _, _ => 0
  end.

Fixpoint slews (tt w : list Q) : list Q :=
  match tt, w with
  | t0 :: ((t1 :: _) as tr), w0 :: ((w1 :: _) as wr) => ((w1 - w0) / (t1 - t0)) :: slews tr wr
  | _, _ => []
  end.

Record etaGrad := { g_tt : list Q; g_wave : list Q; g_area : Q; g_delay : Q }.

Definition make_ext_trap (s : etaSys) (times amps : list Q) : result etaGrad :=
  let R := s_raster s in
  if forallb (fun t => Qeq_bool t 0) times then Err ETimesZero                      (* :85 *)
  else if existsb (fun dt => Qleb dt 0) (diffs times) then Err ETimesOrder            (* :88 *)
  else if negb (on_raster R (last times 0)) then Err ERaster                          (* :91 *)
  else if Qltb 0 (hd 0 times) && negb (Qeq_bool (hd 0 amps) 0) then Err EFirst        (* :94 *)
  else if negb (forallb (on_raster R) times) then Err ERaster                         (* :119 *)
  else
    let delay := inject_Z (rnd_he (hd 0 times / R)) * R in                            (* :127 *)
    let tt := map (fun t => Qred (t - delay)) times in                                (* :128 *)
    let area := (1 # 2) * trap_area tt amps in                                        (* :130 *)
    if existsb (fun sl => Qltb (s_max_slew s * (1 + eta_eps)) (Qabs sl)) (slews tt amps)
    then Err ESlew                                                                    (* :137 *)
    else if existsb (fun w => Qltb (s_max_grad s + eta_eps) (Qabs w)) amps
    then Err EAmp                                                                     (* :139 *)
    else OK {| g_tt := tt; g_wave := amps; g_area := Qred area; g_delay := delay |}.

(* ---- lines 219-244 ---- *)
Record etaOut := { o_grad : etaGrad; o_dur : Z; o_cand : cand }.

Definition build_times (a : etaArgs) (c : cand) : list Q :=
  let R := rast a in
  let tu := inject_Z (c_up c) * R in
  let tf := inject_Z (c_flat c) * R in
  let td := inject_Z (c_down c) * R in
  if Qltb 0 tf then [0; 0 + tu; 0 + tu + tf; 0 + tu + tf + td]     (* cumsum(0, up, flat, down) *)
  else [0; 0 + tu; 0 + tu + td].

Definition build_amps (a : etaArgs) (c : cand) : list Q :=
  if Qltb 0 (inject_Z (c_flat c) * rast a)
  then [e_gs a; c_amp c; c_amp c; e_ge a]
  else [e_gs a; c_amp c; e_ge a].

Definition finish (a : etaArgs) (d : Z) (c : cand) : result etaOut :=
  match make_ext_trap (e_sys a) (build_times a c) (build_amps a c) with
  | Err e => Err e
  | OK g =>
    if Qltb (Qabs (g_area g - e_area a)) eta_area_tol                                  (* :241 *)
    then OK {| o_grad := g; o_dur := d; o_cand := c |}
    else Err EArea
  end.

Definition eta (fd fb : nat) (a : etaArgs) : result etaOut :=
  match search fd fb a with
  | Err e => Err e
  | OK (d, c) => finish a d c
  end.

Definition eta_old (fd fb : nat) (a : etaArgs) : result etaOut :=
  match search_old fd fb a with
  | Err e => Err e
  | OK (d, c) => finish a d c
  end.

(* ==================================================================================================
   convert_to_arbitrary=True: make_extended_trapezoid.py:103-113 (points_to_waveform + make_arbitrary_grad),
   then :132-140 (first/last from the corner amplitudes, slew / amplitude checks on the sampled form)
   ================================================================================================== *)

(* np.interp(x, xp, fp) for one x: end values outside [xp0, xpn], linear inside *)
Fixpoint eta_interp (tt w : list Q) (x : Q) : Q :=
  match tt, w with
  | t0 :: ((t1 :: _) as tr), w0 :: ((w1 :: _) as wr) =>
    if Qle_bool x t0 then w0
    else if Qle_bool x t1 then (w1 - w0) / (t1 - t0) * (x - t0) + w0
    else eta_interp tr wr x
  | [_], [w0] => w0
  | _, _ => 0
  end.

(* points_to_waveform.py:28-36: samples at the raster centres between round(min/R) and round(max/R).
   On this path the times passed the strictly-ascending check (:88), so np.min / np.max are the first / last element. *)
Definition eta_points_to_waveform (R : Q) (times amps : list Q) : list Q :=
  let k0 := rnd_he (hd 0 times / R) in
  let k1 := rnd_he (last times 0 / R) in
  map (fun i => eta_interp times amps (inject_Z (k0 + Z.of_nat i) * R + R / 2))
      (seq 0 (Z.to_nat (k1 - k0))).

Fixpoint qsum (l : list Q) : Q := match l with [] => 0 | x :: r => x + qsum r end.

Record etaArb := { a_wave : list Q; a_tt : list Q; a_first : Q; a_last : Q; a_area : Q; a_delay : Q;
                   a_shape_dur : Q }.

Definition make_ext_trap_arb (s : etaSys) (times amps : list Q) : result etaArb :=
  let R := s_raster s in
  if forallb (fun t => Qeq_bool t 0) times then Err ETimesZero                      (* :85 *)
  else if existsb (fun dt => Qleb dt 0) (diffs times) then Err ETimesOrder            (* :88 *)
  else if negb (on_raster R (last times 0)) then Err ERaster                          (* :91 *)
  else if Qltb 0 (hd 0 times) && negb (Qeq_bool (hd 0 amps) 0) then Err EFirst        (* :94 *)
  else
    let wf := eta_points_to_waveform R times amps in                                  (* :105 *)
    (* make_arbitrary_grad.py:79-83 *)
    if existsb (fun dw => Qltb (s_max_slew s * (1 + eta_eps)) (Qabs (dw / R))) (diffs wf) then Err ESlew
    else if existsb (fun w => Qltb (s_max_grad s + eta_eps) (Qabs w)) wf then Err EAmp
    else
      let n := length wf in
      let tt := map (fun i => (inject_Z (Z.of_nat i) + (1 # 2)) * R) (seq 0 n) in     (* make_arbitrary_grad.py:96 *)
      let area := qsum (map (fun w => w * R) wf) in                                    (* :100 *)
      (* make_extended_trapezoid.py:132-133 overwrite the extrapolated first / last *)
      let first := hd 0 amps in
      let lst := last amps 0 in
      (* :135-140 *)
      if existsb (fun sl => Qltb (s_max_slew s * (1 + eta_eps)) (Qabs sl)) (slews tt wf) then Err ESlew
      else if existsb (fun w => Qltb (s_max_grad s + eta_eps) (Qabs w)) wf then Err EAmp
      else OK {| a_wave := wf; a_tt := tt; a_first := first; a_last := lst; a_area := Qred area;
                 a_delay := hd 0 times; a_shape_dur := inject_Z (Z.of_nat n) * R |}.

Record etaArbOut := { oa_grad : etaArb; oa_dur : Z; oa_cand : cand }.

Definition finish_arb (a : etaArgs) (d : Z) (c : cand) : result etaArbOut :=
  match make_ext_trap_arb (e_sys a) (build_times a c) (build_amps a c) with
  | Err e => Err e
  | OK g =>
    if Qltb (Qabs (a_area g - e_area a)) eta_area_tol                                  (* :241 *)
    then OK {| oa_grad := g; oa_dur := d; oa_cand := c |}
    else Err EArea
  end.

(* make_extended_trapezoid_area(..., convert_to_arbitrary=True) *)
Definition eta_arb (fd fb : nat) (a : etaArgs) : result etaArbOut :=
  match search fd fb a with
  | Err e => Err e
  | OK (d, c) => finish_arb a d c
  end.
