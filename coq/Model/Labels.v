(* Model/Labels.v — Sequence.evaluate_labels (sequence.py:523-598) on the label content of the
   blocks as get_block returns it.  Labels are indices into the supported-label tuple; values are
   integers.  Python dicts are insertion-ordered association lists.  Executable definitions only. *)
From Coq Require Import List Bool ZArith.
From PV Require Import Base.AList.
Import ListNotations.
Open Scope Z_scope.

Record lop := mkLop { l_set : bool; l_lbl : Z; l_val : Z }.          (* SET / INC, label, value *)
Record lblock := mkLBlock { b_labels : list lop; b_adc : bool }.

Inductive emode := ENone | EAdc | ELabel | EBlocks.

Definition env := list (Z * Z).                                        (* the `labels` dict *)

(* sequence.py:571-579 *)
Definition apply_op (e : env) (o : lop) : env :=
  if l_set o then aset Z.eqb e (l_lbl o) (l_val o)
  else
    let e1 := match aget Z.eqb e (l_lbl o) with Some _ => e | None => aset Z.eqb e (l_lbl o) 0 end in
    match aget Z.eqb e1 (l_lbl o) with
    | Some v => aset Z.eqb e1 (l_lbl o) (v + l_val o)
    | None => e1
    end.
Definition apply_block (e : env) (b : lblock) : env := fold_left apply_op (b_labels b) e.

(* one block: new env and the snapshots appended to label_evolution (sequence.py:566-585) *)
Definition block_step (m : emode) (e : env) (b : lblock) : env * list env :=
  let e' := apply_block e b in
  let s1 := match b_labels b, m with
            | _ :: _, ELabel => [e']
            | _, _ => [] end in
  let s2 := match m with
            | EBlocks => [e']
            | EAdc => if b_adc b then [e'] else []
            | _ => [] end in
  (e', s1 ++ s2).

Fixpoint run_blocks (m : emode) (e : env) (bs : list lblock) : env * list env :=
  match bs with
  | [] => (e, [])
  | b :: r => let '(e1, s) := block_step m e b in
              let '(e2, s') := run_blocks m e1 r in (e2, s ++ s')
  end.

(* result: per label either the final value or the list of snapshot values (sequence.py:587-592) *)
Definition evaluate_labels (init : env) (m : emode) (bs : list lblock) : list (Z * list Z) * bool :=
  let '(e, evo) := run_blocks m init bs in
  match evo with
  | [] => (map (fun kv => (fst kv, [snd kv])) e, false)
  | _ => (map (fun kv => (fst kv, map (fun s => match aget Z.eqb s (fst kv) with Some v => v | None => 0 end) evo)) e, true)
  end.

(* ---- the specification: interpret the blocks in order, one label at a time ------------------------ *)
Fixpoint find_op (l : Z) (ops : list lop) : option lop :=
  match ops with
  | [] => None
  | o :: r => if l_lbl o =? l then Some o else find_op l r
  end.
Definition spec_step (l : Z) (v : option Z) (b : lblock) : option Z :=
  match find_op l (b_labels b) with
  | Some o => if l_set o then Some (l_val o)
              else Some (match v with Some x => x | None => 0 end + l_val o)
  | None => v
  end.
(* value of label l after the blocks (None = never mentioned, neither in init nor in a block) *)
Definition spec_value (init : env) (l : Z) (bs : list lblock) : option Z :=
  fold_left (spec_step l) bs (aget Z.eqb init l).
