
(** val negb : bool -> bool **)

let negb = function
| true -> false
| false -> true

type nat =
| O
| S of nat

(** val option_map : ('a1 -> 'a2) -> 'a1 option -> 'a2 option **)

let option_map f = function
| Some a -> Some (f a)
| None -> None

(** val snd : ('a1 * 'a2) -> 'a2 **)

let snd = function
| (_, y) -> y

(** val length : 'a1 list -> nat **)

let rec length = function
| [] -> O
| _ :: l' -> S (length l')

(** val app : 'a1 list -> 'a1 list -> 'a1 list **)

let rec app l m =
  match l with
  | [] -> m
  | a :: l1 -> a :: (app l1 m)

type comparison =
| Eq
| Lt
| Gt

(** val compOpp : comparison -> comparison **)

let compOpp = function
| Eq -> Eq
| Lt -> Gt
| Gt -> Lt

module Coq__1 = struct
 (** val add : nat -> nat -> nat **)
 let rec add n m =
   match n with
   | O -> m
   | S p -> S (add p m)
end
include Coq__1

type positive =
| XI of positive
| XO of positive
| XH

type z =
| Z0
| Zpos of positive
| Zneg of positive

module Nat =
 struct
  (** val eqb : nat -> nat -> bool **)

  let rec eqb n m =
    match n with
    | O -> (match m with
            | O -> true
            | S _ -> false)
    | S n' -> (match m with
               | O -> false
               | S m' -> eqb n' m')

  (** val leb : nat -> nat -> bool **)

  let rec leb n m =
    match n with
    | O -> true
    | S n' -> (match m with
               | O -> false
               | S m' -> leb n' m')

  (** val ltb : nat -> nat -> bool **)

  let ltb n m =
    leb (S n) m
 end

module Pos =
 struct
  type mask =
  | IsNul
  | IsPos of positive
  | IsNeg
 end

module Coq_Pos =
 struct
  (** val succ : positive -> positive **)

  let rec succ = function
  | XI p -> XO (succ p)
  | XO p -> XI p
  | XH -> XO XH

  (** val add : positive -> positive -> positive **)

  let rec add x y =
    match x with
    | XI p ->
      (match y with
       | XI q0 -> XO (add_carry p q0)
       | XO q0 -> XI (add p q0)
       | XH -> XO (succ p))
    | XO p ->
      (match y with
       | XI q0 -> XI (add p q0)
       | XO q0 -> XO (add p q0)
       | XH -> XI p)
    | XH -> (match y with
             | XI q0 -> XO (succ q0)
             | XO q0 -> XI q0
             | XH -> XO XH)

  (** val add_carry : positive -> positive -> positive **)

  and add_carry x y =
    match x with
    | XI p ->
      (match y with
       | XI q0 -> XI (add_carry p q0)
       | XO q0 -> XO (add_carry p q0)
       | XH -> XI (succ p))
    | XO p ->
      (match y with
       | XI q0 -> XO (add_carry p q0)
       | XO q0 -> XI (add p q0)
       | XH -> XO (succ p))
    | XH ->
      (match y with
       | XI q0 -> XI (succ q0)
       | XO q0 -> XO (succ q0)
       | XH -> XI XH)

  (** val pred_double : positive -> positive **)

  let rec pred_double = function
  | XI p -> XI (XO p)
  | XO p -> XI (pred_double p)
  | XH -> XH

  type mask = Pos.mask =
  | IsNul
  | IsPos of positive
  | IsNeg

  (** val succ_double_mask : mask -> mask **)

  let succ_double_mask = function
  | IsNul -> IsPos XH
  | IsPos p -> IsPos (XI p)
  | IsNeg -> IsNeg

  (** val double_mask : mask -> mask **)

  let double_mask = function
  | IsPos p -> IsPos (XO p)
  | x0 -> x0

  (** val double_pred_mask : positive -> mask **)

  let double_pred_mask = function
  | XI p -> IsPos (XO (XO p))
  | XO p -> IsPos (XO (pred_double p))
  | XH -> IsNul

  (** val sub_mask : positive -> positive -> mask **)

  let rec sub_mask x y =
    match x with
    | XI p ->
      (match y with
       | XI q0 -> double_mask (sub_mask p q0)
       | XO q0 -> succ_double_mask (sub_mask p q0)
       | XH -> IsPos (XO p))
    | XO p ->
      (match y with
       | XI q0 -> succ_double_mask (sub_mask_carry p q0)
       | XO q0 -> double_mask (sub_mask p q0)
       | XH -> IsPos (pred_double p))
    | XH -> (match y with
             | XH -> IsNul
             | _ -> IsNeg)

  (** val sub_mask_carry : positive -> positive -> mask **)

  and sub_mask_carry x y =
    match x with
    | XI p ->
      (match y with
       | XI q0 -> succ_double_mask (sub_mask_carry p q0)
       | XO q0 -> double_mask (sub_mask p q0)
       | XH -> IsPos (pred_double p))
    | XO p ->
      (match y with
       | XI q0 -> double_mask (sub_mask_carry p q0)
       | XO q0 -> succ_double_mask (sub_mask_carry p q0)
       | XH -> double_pred_mask p)
    | XH -> IsNeg

  (** val sub : positive -> positive -> positive **)

  let sub x y =
    match sub_mask x y with
    | IsPos z0 -> z0
    | _ -> XH

  (** val mul : positive -> positive -> positive **)

  let rec mul x y =
    match x with
    | XI p -> add y (XO (mul p y))
    | XO p -> XO (mul p y)
    | XH -> y

  (** val size_nat : positive -> nat **)

  let rec size_nat = function
  | XI p0 -> S (size_nat p0)
  | XO p0 -> S (size_nat p0)
  | XH -> S O

  (** val compare_cont : comparison -> positive -> positive -> comparison **)

  let rec compare_cont r x y =
    match x with
    | XI p ->
      (match y with
       | XI q0 -> compare_cont r p q0
       | XO q0 -> compare_cont Gt p q0
       | XH -> Gt)
    | XO p ->
      (match y with
       | XI q0 -> compare_cont Lt p q0
       | XO q0 -> compare_cont r p q0
       | XH -> Gt)
    | XH -> (match y with
             | XH -> r
             | _ -> Lt)

  (** val compare : positive -> positive -> comparison **)

  let compare =
    compare_cont Eq

  (** val eqb : positive -> positive -> bool **)

  let rec eqb p q0 =
    match p with
    | XI p0 -> (match q0 with
                | XI q1 -> eqb p0 q1
                | _ -> false)
    | XO p0 -> (match q0 with
                | XO q1 -> eqb p0 q1
                | _ -> false)
    | XH -> (match q0 with
             | XH -> true
             | _ -> false)

  (** val ggcdn :
      nat -> positive -> positive -> positive * (positive * positive) **)

  let rec ggcdn n a b =
    match n with
    | O -> (XH, (a, b))
    | S n0 ->
      (match a with
       | XI a' ->
         (match b with
          | XI b' ->
            (match compare a' b' with
             | Eq -> (a, (XH, XH))
             | Lt ->
               let (g, p) = ggcdn n0 (sub b' a') a in
               let (ba, aa) = p in (g, (aa, (add aa (XO ba))))
             | Gt ->
               let (g, p) = ggcdn n0 (sub a' b') b in
               let (ab, bb) = p in (g, ((add bb (XO ab)), bb)))
          | XO b0 ->
            let (g, p) = ggcdn n0 a b0 in
            let (aa, bb) = p in (g, (aa, (XO bb)))
          | XH -> (XH, (a, XH)))
       | XO a0 ->
         (match b with
          | XI _ ->
            let (g, p) = ggcdn n0 a0 b in
            let (aa, bb) = p in (g, ((XO aa), bb))
          | XO b0 -> let (g, p) = ggcdn n0 a0 b0 in ((XO g), p)
          | XH -> (XH, (a, XH)))
       | XH -> (XH, (XH, b)))

  (** val ggcd : positive -> positive -> positive * (positive * positive) **)

  let ggcd a b =
    ggcdn (Coq__1.add (size_nat a) (size_nat b)) a b

  (** val iter_op : ('a1 -> 'a1 -> 'a1) -> positive -> 'a1 -> 'a1 **)

  let rec iter_op op p a =
    match p with
    | XI p0 -> op a (iter_op op p0 (op a a))
    | XO p0 -> iter_op op p0 (op a a)
    | XH -> a

  (** val to_nat : positive -> nat **)

  let to_nat x =
    iter_op Coq__1.add x (S O)

  (** val of_succ_nat : nat -> positive **)

  let rec of_succ_nat = function
  | O -> XH
  | S x -> succ (of_succ_nat x)
 end

module Z =
 struct
  (** val double : z -> z **)

  let double = function
  | Z0 -> Z0
  | Zpos p -> Zpos (XO p)
  | Zneg p -> Zneg (XO p)

  (** val succ_double : z -> z **)

  let succ_double = function
  | Z0 -> Zpos XH
  | Zpos p -> Zpos (XI p)
  | Zneg p -> Zneg (Coq_Pos.pred_double p)

  (** val pred_double : z -> z **)

  let pred_double = function
  | Z0 -> Zneg XH
  | Zpos p -> Zpos (Coq_Pos.pred_double p)
  | Zneg p -> Zneg (XI p)

  (** val pos_sub : positive -> positive -> z **)

  let rec pos_sub x y =
    match x with
    | XI p ->
      (match y with
       | XI q0 -> double (pos_sub p q0)
       | XO q0 -> succ_double (pos_sub p q0)
       | XH -> Zpos (XO p))
    | XO p ->
      (match y with
       | XI q0 -> pred_double (pos_sub p q0)
       | XO q0 -> double (pos_sub p q0)
       | XH -> Zpos (Coq_Pos.pred_double p))
    | XH ->
      (match y with
       | XI q0 -> Zneg (XO q0)
       | XO q0 -> Zneg (Coq_Pos.pred_double q0)
       | XH -> Z0)

  (** val add : z -> z -> z **)

  let add x y =
    match x with
    | Z0 -> y
    | Zpos x' ->
      (match y with
       | Z0 -> x
       | Zpos y' -> Zpos (Coq_Pos.add x' y')
       | Zneg y' -> pos_sub x' y')
    | Zneg x' ->
      (match y with
       | Z0 -> x
       | Zpos y' -> pos_sub y' x'
       | Zneg y' -> Zneg (Coq_Pos.add x' y'))

  (** val opp : z -> z **)

  let opp = function
  | Z0 -> Z0
  | Zpos x0 -> Zneg x0
  | Zneg x0 -> Zpos x0

  (** val sub : z -> z -> z **)

  let sub m n =
    add m (opp n)

  (** val mul : z -> z -> z **)

  let mul x y =
    match x with
    | Z0 -> Z0
    | Zpos x' ->
      (match y with
       | Z0 -> Z0
       | Zpos y' -> Zpos (Coq_Pos.mul x' y')
       | Zneg y' -> Zneg (Coq_Pos.mul x' y'))
    | Zneg x' ->
      (match y with
       | Z0 -> Z0
       | Zpos y' -> Zneg (Coq_Pos.mul x' y')
       | Zneg y' -> Zpos (Coq_Pos.mul x' y'))

  (** val compare : z -> z -> comparison **)

  let compare x y =
    match x with
    | Z0 -> (match y with
             | Z0 -> Eq
             | Zpos _ -> Lt
             | Zneg _ -> Gt)
    | Zpos x' -> (match y with
                  | Zpos y' -> Coq_Pos.compare x' y'
                  | _ -> Gt)
    | Zneg x' ->
      (match y with
       | Zneg y' -> compOpp (Coq_Pos.compare x' y')
       | _ -> Lt)

  (** val sgn : z -> z **)

  let sgn = function
  | Z0 -> Z0
  | Zpos _ -> Zpos XH
  | Zneg _ -> Zneg XH

  (** val leb : z -> z -> bool **)

  let leb x y =
    match compare x y with
    | Gt -> false
    | _ -> true

  (** val ltb : z -> z -> bool **)

  let ltb x y =
    match compare x y with
    | Lt -> true
    | _ -> false

  (** val eqb : z -> z -> bool **)

  let eqb x y =
    match x with
    | Z0 -> (match y with
             | Z0 -> true
             | _ -> false)
    | Zpos p -> (match y with
                 | Zpos q0 -> Coq_Pos.eqb p q0
                 | _ -> false)
    | Zneg p -> (match y with
                 | Zneg q0 -> Coq_Pos.eqb p q0
                 | _ -> false)

  (** val abs : z -> z **)

  let abs = function
  | Zneg p -> Zpos p
  | x -> x

  (** val to_nat : z -> nat **)

  let to_nat = function
  | Zpos p -> Coq_Pos.to_nat p
  | _ -> O

  (** val of_nat : nat -> z **)

  let of_nat = function
  | O -> Z0
  | S n0 -> Zpos (Coq_Pos.of_succ_nat n0)

  (** val to_pos : z -> positive **)

  let to_pos = function
  | Zpos p -> p
  | _ -> XH

  (** val pos_div_eucl : positive -> z -> z * z **)

  let rec pos_div_eucl a b =
    match a with
    | XI a' ->
      let (q0, r) = pos_div_eucl a' b in
      let r' = add (mul (Zpos (XO XH)) r) (Zpos XH) in
      if ltb r' b
      then ((mul (Zpos (XO XH)) q0), r')
      else ((add (mul (Zpos (XO XH)) q0) (Zpos XH)), (sub r' b))
    | XO a' ->
      let (q0, r) = pos_div_eucl a' b in
      let r' = mul (Zpos (XO XH)) r in
      if ltb r' b
      then ((mul (Zpos (XO XH)) q0), r')
      else ((add (mul (Zpos (XO XH)) q0) (Zpos XH)), (sub r' b))
    | XH -> if leb (Zpos (XO XH)) b then (Z0, (Zpos XH)) else ((Zpos XH), Z0)

  (** val div_eucl : z -> z -> z * z **)

  let div_eucl a b =
    match a with
    | Z0 -> (Z0, Z0)
    | Zpos a' ->
      (match b with
       | Z0 -> (Z0, a)
       | Zpos _ -> pos_div_eucl a' b
       | Zneg b' ->
         let (q0, r) = pos_div_eucl a' (Zpos b') in
         (match r with
          | Z0 -> ((opp q0), Z0)
          | _ -> ((opp (add q0 (Zpos XH))), (add b r))))
    | Zneg a' ->
      (match b with
       | Z0 -> (Z0, a)
       | Zpos _ ->
         let (q0, r) = pos_div_eucl a' b in
         (match r with
          | Z0 -> ((opp q0), Z0)
          | _ -> ((opp (add q0 (Zpos XH))), (sub b r)))
       | Zneg b' -> let (q0, r) = pos_div_eucl a' (Zpos b') in (q0, (opp r)))

  (** val div : z -> z -> z **)

  let div a b =
    let (q0, _) = div_eucl a b in q0

  (** val even : z -> bool **)

  let even = function
  | Z0 -> true
  | Zpos p -> (match p with
               | XO _ -> true
               | _ -> false)
  | Zneg p -> (match p with
               | XO _ -> true
               | _ -> false)

  (** val ggcd : z -> z -> z * (z * z) **)

  let ggcd a b =
    match a with
    | Z0 -> ((abs b), (Z0, (sgn b)))
    | Zpos a0 ->
      (match b with
       | Z0 -> ((abs a), ((sgn a), Z0))
       | Zpos b0 ->
         let (g, p) = Coq_Pos.ggcd a0 b0 in
         let (aa, bb) = p in ((Zpos g), ((Zpos aa), (Zpos bb)))
       | Zneg b0 ->
         let (g, p) = Coq_Pos.ggcd a0 b0 in
         let (aa, bb) = p in ((Zpos g), ((Zpos aa), (Zneg bb))))
    | Zneg a0 ->
      (match b with
       | Z0 -> ((abs a), ((sgn a), Z0))
       | Zpos b0 ->
         let (g, p) = Coq_Pos.ggcd a0 b0 in
         let (aa, bb) = p in ((Zpos g), ((Zneg aa), (Zpos bb)))
       | Zneg b0 ->
         let (g, p) = Coq_Pos.ggcd a0 b0 in
         let (aa, bb) = p in ((Zpos g), ((Zneg aa), (Zneg bb))))
 end

(** val zeq_bool : z -> z -> bool **)

let zeq_bool x y =
  match Z.compare x y with
  | Eq -> true
  | _ -> false

(** val flat_map : ('a1 -> 'a2 list) -> 'a1 list -> 'a2 list **)

let rec flat_map f = function
| [] -> []
| x :: t -> app (f x) (flat_map f t)

(** val repeat : 'a1 -> nat -> 'a1 list **)

let rec repeat x = function
| O -> []
| S k -> x :: (repeat x k)

type q = { qnum : z; qden : positive }

(** val inject_Z : z -> q **)

let inject_Z x =
  { qnum = x; qden = XH }

(** val qcompare : q -> q -> comparison **)

let qcompare p q0 =
  Z.compare (Z.mul p.qnum (Zpos q0.qden)) (Z.mul q0.qnum (Zpos p.qden))

(** val qeq_bool : q -> q -> bool **)

let qeq_bool x y =
  zeq_bool (Z.mul x.qnum (Zpos y.qden)) (Z.mul y.qnum (Zpos x.qden))

(** val qle_bool : q -> q -> bool **)

let qle_bool x y =
  Z.leb (Z.mul x.qnum (Zpos y.qden)) (Z.mul y.qnum (Zpos x.qden))

(** val qplus : q -> q -> q **)

let qplus x y =
  { qnum = (Z.add (Z.mul x.qnum (Zpos y.qden)) (Z.mul y.qnum (Zpos x.qden)));
    qden = (Coq_Pos.mul x.qden y.qden) }

(** val qmult : q -> q -> q **)

let qmult x y =
  { qnum = (Z.mul x.qnum y.qnum); qden = (Coq_Pos.mul x.qden y.qden) }

(** val qopp : q -> q **)

let qopp x =
  { qnum = (Z.opp x.qnum); qden = x.qden }

(** val qminus : q -> q -> q **)

let qminus x y =
  qplus x (qopp y)

(** val qinv : q -> q **)

let qinv x =
  match x.qnum with
  | Z0 -> { qnum = Z0; qden = XH }
  | Zpos p -> { qnum = (Zpos x.qden); qden = p }
  | Zneg p -> { qnum = (Zneg x.qden); qden = p }

(** val qdiv : q -> q -> q **)

let qdiv x y =
  qmult x (qinv y)

(** val qred : q -> q **)

let qred q0 =
  let { qnum = q1; qden = q2 } = q0 in
  let (r1, r2) = snd (Z.ggcd q1 (Zpos q2)) in
  { qnum = r1; qden = (Z.to_pos r2) }

(** val qfloor : q -> z **)

let qfloor x =
  let { qnum = n; qden = d } = x in Z.div n (Zpos d)

(** val qhalf : q **)

let qhalf =
  { qnum = (Zpos XH); qden = (XO XH) }

(** val rnd_he : q -> z **)

let rnd_he q0 =
  let f = qfloor q0 in
  let r = qminus q0 (inject_Z f) in
  (match qcompare r qhalf with
   | Eq -> if Z.even f then f else Z.add f (Zpos XH)
   | Lt -> f
   | Gt -> Z.add f (Zpos XH))

(** val quant_factor : q **)

let quant_factor =
  { qnum = (Zpos XH); qden = (XO (XO (XO (XO (XO (XO (XO (XI (XO (XI (XI (XO
    (XI (XO (XO (XI (XO (XO (XO (XI (XI (XO (XO XH))))))))))))))))))))))) }

(** val short_shape_threshold : nat **)

let short_shape_threshold =
  S (S (S (S O)))

(** val rl_offset : z **)

let rl_offset =
  Zpos (XO XH)

(** val quant_go : q -> z -> z -> bool -> q list -> z list **)

let rec quant_go prev_s c prev_rq first = function
| [] -> []
| x :: r ->
  let s = qred (qdiv x quant_factor) in
  let dq = rnd_he (qminus s prev_s) in
  let c' = Z.add c dq in
  let rq = rnd_he (qminus s (inject_Z c')) in
  let dd = if first then dq else Z.add dq (Z.sub rq prev_rq) in
  dd :: (quant_go s c' rq false r)

(** val quantise : q list -> z list **)

let quantise xs =
  quant_go { qnum = Z0; qden = XH } Z0 Z0 true xs

(** val runs : z list -> (z * nat) list **)

let rec runs = function
| [] -> []
| v :: r ->
  (match runs r with
   | [] -> (v, (S O)) :: []
   | p :: t ->
     let (w, n) = p in
     if Z.eqb v w then (w, (S n)) :: t else (v, (S O)) :: ((w, n) :: t))

(** val qv : z -> q **)

let qv v =
  qmult (inject_Z v) quant_factor

(** val cnt : nat -> q **)

let cnt n =
  inject_Z (Z.sub (Z.of_nat n) rl_offset)

(** val pack_run : (z * nat) -> q list **)

let pack_run = function
| (v, n) ->
  if Nat.ltb (S O) n
  then (qv v) :: ((qv v) :: ((cnt n) :: []))
  else (qv v) :: []

(** val pack_runs : (z * nat) list -> q list **)

let pack_runs r =
  flat_map pack_run r

(** val pack : z list -> q list **)

let pack l =
  pack_runs (runs l)

(** val count_of : q -> nat option **)

let count_of c =
  let z0 = qfloor c in
  if qeq_bool (inject_Z z0) c
  then if Z.leb Z0 (Z.add z0 rl_offset)
       then Some (Z.to_nat (Z.add z0 rl_offset))
       else None
  else None

(** val unpack_go : q list -> nat -> q list option **)

let rec unpack_go l skip =
  match l with
  | [] -> Some []
  | a :: tl ->
    (match skip with
     | O ->
       (match tl with
        | [] -> Some (a :: [])
        | b :: r ->
          if qeq_bool a b
          then (match r with
                | [] -> None
                | c :: _ ->
                  (match count_of c with
                   | Some rep ->
                     option_map (app (repeat a rep)) (unpack_go tl (S (S O)))
                   | None -> None))
          else option_map (fun x -> a :: x) (unpack_go tl O))
     | S k -> unpack_go tl k)

(** val cumsumQ_go : q -> q list -> q list **)

let rec cumsumQ_go acc = function
| [] -> []
| a :: r -> let acc' = qred (qplus acc a) in acc' :: (cumsumQ_go acc' r)

(** val cumsumQ : q list -> q list **)

let cumsumQ =
  cumsumQ_go { qnum = Z0; qden = XH }

type cshape = { num_samples : nat; cdata : q list }

(** val compress : bool -> q list -> cshape **)

let compress force x =
  let n = length x in
  if (&&) (negb force) (Nat.leb n short_shape_threshold)
  then { num_samples = n; cdata = x }
  else let v = pack (quantise x) in
       if (||) force (Nat.ltb (length v) n)
       then { num_samples = n; cdata = v }
       else { num_samples = n; cdata = x }

(** val decompress : bool -> cshape -> q list option **)

let decompress force c =
  if (&&) (negb force) (Nat.eqb c.num_samples (length c.cdata))
  then Some c.cdata
  else (match unpack_go c.cdata O with
        | Some d ->
          if Nat.eqb (length d) c.num_samples then Some (cumsumQ d) else None
        | None -> None)
