(* Extract/Ex_export.v — extraction of Model/Export.v and Model/KSpace.v for the `export` runner
   (ExtrOcamlBasic only; Z, positive, Q and nat stay the extracted inductive types). *)
From Coq Require Import Extraction ExtrOcamlBasic.
From Coq Require Import ZArith QArith List.
From PV Require Import Base.QUtil Base.PWL Gen.GenExport Model.Export Model.KSpace.
Extraction Language OCaml.
Extraction "../ocaml/export/model.ml"
  Qred eval waveform waveform_range padded render piece prim moment
  classify rf_center rf_events adc_times times_of k_at kspace_adc kspace_at spec_k upto starts.
