(* Extract/Ex_gradops.v — extraction of Model/GradOps.v for the runner ocaml/gradops
   (ExtrOcamlBasic only; Z, positive, Q and nat stay the extracted inductive types). *)
From Coq Require Import Extraction ExtrOcamlBasic.
From Coq Require Import ZArith QArith List.
From PV Require Import Base.QUtil Base.Round Base.PWL Gen.GenGradOps Model.GradOps.
From PV Require Import Model.EventLib Model.Seq Model.ModAxis Model.GradBridge.
Extraction Language OCaml.
Extraction "../ocaml/gradops/model.ml"
  Qred Qplus Qmult Qminus Qdiv Qle_bool Qeq_bool
  eval to_pwl scale_grad make_ext_trap split_gradient split_gradient_at align calc_duration
  rotate_pre rotate_post rotate add_single gmag
  mod_grad_axis flip_grad_axis mod_grad_axis_state decode scale_dblock
  add_c16.
