(* Extract/Ex_pns.v — extraction of Model/Pns.v for the runner ocaml/pns (ExtrOcamlBasic only). *)
From Coq Require Import Extraction ExtrOcamlBasic.
From Coq Require Import ZArith QArith List.
From PV Require Import Base.QUtil Gen.GenPns Model.Pns.
Extraction Language OCaml.
Extraction "../ocaml/pns/model.ml"
  Qred lowpass_fir lowpass_fast lowpass_iir calc_pns pns_axis pns_direct grad_pp sample num_samples
  pad1_of pad2_of tap_count_ok tap_count_tight lowpass_eps safe_axis.
