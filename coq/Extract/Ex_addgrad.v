(* Extract/Ex_addgrad.v — extraction of Model/AddGrad.v for the runner ocaml/addgrad
   (ExtrOcamlBasic only; Z, positive, Q and nat stay the extracted inductive types). *)
From Coq Require Import Extraction ExtrOcamlBasic.
From Coq Require Import ZArith QArith List.
From PV Require Import Base.QUtil Base.PWL Gen.GenAddGrad Model.AddGrad.
Extraction Language OCaml.
Extraction "../ocaml/addgrad/model.ml" Qred add_gradients to_pwl eval is_arb.
