(* Extract/Ex_file.v — extraction of Model/File.v for the `file` runner (ExtrOcamlBasic only). *)
From Coq Require Import Extraction ExtrOcamlBasic.
From Coq Require Import ZArith QArith List.
From PV Require Import Base.QUtil Model.File Model.Scan Model.ScanGen.
Extraction Language OCaml.
Extraction "../ocaml/file/model.ml" Qred rnd_he flog10 fmt_sig fmt_int wcol rcol write_rows read_rows scan_file scan_blocks extrap_last.
