(* Extract/Ex_labels.v — extraction for the `labels` runner (C19): the store model of Model/Seq.v
   (history execution, as in the `seq` runner) plus evaluate_labels, the chain walk and the
   reference interpreter.  ExtrOcamlBasic only. *)
From Coq Require Import Extraction ExtrOcamlBasic.
From Coq Require Import ZArith QArith List.
From Coq Require Import Qcanon.
From PV Require Import Base.QUtil Base.Round Model.EventLib Model.Seq Model.Dedup Model.Labels Model.LabelEval Model.ExtFile.
Extraction Language OCaml.
Extraction "../ocaml/labels/model.ml"
  Qred Q2Qc round_spec core_init step decode seq_step
  evaluate_labels eval_store store_lblocks ext_walk ext_list ext_payload interp interp_seq one_op_per_label
  dec_ext labels_of_ext trigs_of_ext reread_ext write_ext read_ext.
