(* Extract/Ex_limits.v — extraction of Model/Limits.v (C04) for the runner ocaml/limits. *)
From Coq Require Import Extraction ExtrOcamlBasic.
From Coq Require Import ZArith QArith List.
From PV Require Import Base.QUtil Gen.GenUnits Gen.GenLimits Model.Limits.
Extraction Language OCaml.
Extraction "../ocaml/limits/model.ml"
  Qred make_ext_trap make_arb convert opts_limit all_units ext_corners arb_corners mkLSys.
