(* Extract/Ex_exttraparea.v — extraction of Model/ExtTrapArea.v for the runner ocaml/exttraparea
   (ExtrOcamlBasic only; Z, positive, Q, nat stay the extracted inductive types). *)
From Coq Require Import Extraction ExtrOcamlBasic.
From Coq Require Import ZArith QArith List.
From PV Require Import Base.QUtil Gen.GenExtTrapArea Model.ExtTrapArea.
Extraction Language OCaml.
Extraction "../ocaml/exttraparea/model.ml"
  Qred Qplus Qmult Qminus Qdiv Qle_bool Qeq_bool
  eta eta_arb eta_old find_solution search search_old shortest_conceivable min_duration lin_max cost valid ramp_cnt.
