(* Extract/Ex_rf.v — extraction of Model/Rf.v for the runner ocaml/rf (ExtrOcamlBasic only; Z, positive, Q and
   nat stay the extracted inductive types; no Extract Constant). *)
From Coq Require Import Extraction ExtrOcamlBasic.
From Coq Require Import ZArith QArith List.
From PV Require Import Base.QUtil Gen.GenRf Model.Rf.
Extraction Language OCaml.
Extraction "../ocaml/rf/model.ml"
  Qred make_sinc make_gauss make_sinc_fast make_gauss_fast make_block make_arbitrary make_arbitrary_fast
  make_adiabatic_timing rf_end trap_end mkSys.
