(* Extract/Ex_trap.v — extraction of Model/Trap.v for the `trap` runner (ExtrOcamlBasic only; Z,
   positive, Q and nat stay the extracted inductive types; no Extract Constant). *)
From Coq Require Import Extraction ExtrOcamlBasic.
From Coq Require Import ZArith QArith List.
From PV Require Import Base.QUtil Gen.GenTrap Model.Trap.
Extraction Language OCaml.
Extraction "../ocaml/trap/model.ml"
  Qred make_trap shortest_params ceil_sqrt_div ceil_raster.
