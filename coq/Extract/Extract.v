(* Extract/Extract.v — extraction of the executable model (ExtrOcamlBasic only; Z, positive, Q and
   nat stay the extracted inductive types; no Extract Constant). *)
From Coq Require Import Extraction ExtrOcamlBasic.
From Coq Require Import ZArith QArith List.
From PV Require Import Base.QUtil Gen.GenShape Model.Shape.
Extraction Language OCaml.
Extraction "../ocaml/model.ml"
  Qred Qplus Qmult Qminus Qdiv Qle_bool Qeq_bool
  rnd_he compress decompress quantise pack unpack_go cumsumQ.
