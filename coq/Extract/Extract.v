(* Extract/Extract.v — extraction of the executable model (ExtrOcamlBasic only; Z, positive, Q and
   nat stay the extracted inductive types; no Extract Constant). *)
From Coq Require Import Extraction ExtrOcamlBasic.
From Coq Require Import ZArith QArith List.
From Coq Require Import Qcanon.
From PV Require Import Base.QUtil Base.Round Gen.GenShape Model.Shape Model.EventLib Model.Seq Model.Dedup Model.Signature Model.Md5 Gen.GenTimeShape Model.TimeShape.
Extraction Language OCaml.
Extraction "../ocaml/seq/model.ml"
  Qred Qplus Qmult Qminus Qdiv Qle_bool Qeq_bool
  rnd_he compress decompress quantise pack unpack_go cumsumQ
  Q2Qc round_spec round_row round_all core_init run step decode seq_step seq_run seq_dedup
  rnd_shape_key rnd_grad_key rnd_rf_key rnd_adc_key
  sign split_sig write_file no_sub sig_tag md5_hex write_signed_md5 tt_regular.
