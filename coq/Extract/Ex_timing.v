(* Extract/Ex_timing.v — extraction of Model/Timing.v for the runner ocaml/timing
   (ExtrOcamlBasic only; Z, positive, Q, nat stay the extracted inductive types). *)
From Coq Require Import Extraction ExtrOcamlBasic.
From Coq Require Import ZArith QArith List.
From PV Require Import Base.QUtil Model.TimingSyntax Gen.GenTiming Model.Timing.
Extraction Language OCaml.
Extraction "../ocaml/timing/model.ml"
  Qred rnd_he div_ok calc_duration set_block_duration block_duration check_timing check_ok
  blocks_column write_assert_ok seq_duration total_duration adc_times rf_times wave_pieces starts
  tr_start begin_block end_block adc_times_tr rf_times_tr wave_pieces_tr event_count
  decode_rf_tlast decode_rf_shape_dur reread_block tl_run tl_duration tl_sum.
