(* Proofs/PnsE2E.v — round 2: end-to-end statement (calculate_pns = SAFE recursive model within the
   truncation bound), tap-count side condition, sign case of homogeneity, time-shift invariance. *)
From Coq Require Import ZArith QArith Qround Qabs Qpower List Bool Arith Lia Lqa Setoid Morphisms.
From PV Require Import Base.QUtil Gen.GenPns Model.Pns Proofs.PnsProofs.
Import ListNotations.
Open Scope Q_scope.

(* ---------------------------------------------------------------------------------------------- *)
(* pointwise view of the weighted sum, for any length-preserving low-pass *)
Section Pointwise.
Variable lp : Q -> nat -> list Q -> list Q.
Hypothesis lp_len : forall a n x, length (lp a n x) = length x.

Definition pre (b : branch) (x : list Q) : list Q := if b_abs_in b then map Qabs x else x.
Definition post (b : branch) (q : Q) : Q := if b_abs_out b then Qabs q else q.
Definition balpha (h : hwax) (dtms : Q) (b : branch) : Q := alpha_of dtms (hw_tau h (b_tau b)).

Lemma length_pre b x : length (pre b x) = length x.
Proof. unfold pre. destruct (b_abs_in b); [apply map_length|reflexivity]. Qed.
Lemma length_branch_out_gen h dtms b n x : length (branch_out lp h dtms b n x) = length x.
Proof.
  unfold branch_out. rewrite map_length.
  destruct (b_abs_out b), (b_abs_in b); rewrite ?map_length, lp_len, ?map_length; reflexivity.
Qed.
Lemma length_stim_sum_gen h dtms bs : forall taps x, length (stim_sum lp h dtms bs taps x) = length x.
Proof.
  induction bs as [|b bs IH]; intros taps x; cbn [stim_sum]; [apply length_zeros|].
  unfold ladd. rewrite length_zipw, length_branch_out_gen, IH. apply Nat.min_id.
Qed.
Lemma nth_branch_out h dtms b n x k : (k < length x)%nat ->
  nth k (branch_out lp h dtms b n x) 0
  = hw_a h (b_weight b) * post b (nth k (lp (balpha h dtms b) n (pre b x)) 0).
Proof.
  intros Hk. unfold branch_out, post, pre, balpha.
  assert (L : (k < length (lp (alpha_of dtms (hw_tau h (b_tau b))) n (if b_abs_in b then map Qabs x else x)))%nat).
  { rewrite lp_len. destruct (b_abs_in b); rewrite ?map_length; exact Hk. }
  rewrite nth_map0.
  - destruct (b_abs_out b); [rewrite nth_map0 by exact L|]; reflexivity.
  - destruct (b_abs_out b); rewrite ?map_length; exact L.
Qed.

Fixpoint ssum (h : hwax) (dtms : Q) (bs : list branch) (taps : list nat) (x : list Q) (k : nat) : Q :=
  match bs with
  | [] => 0
  | b :: bs' => hw_a h (b_weight b) * post b (nth k (lp (balpha h dtms b) (hd O taps) (pre b x)) 0)
                + ssum h dtms bs' (tl taps) x k
  end.
Lemma nth_stim_sum h dtms bs : forall taps x k, (k < length x)%nat ->
  nth k (stim_sum lp h dtms bs taps x) 0 = ssum h dtms bs taps x k.
Proof.
  induction bs as [|b bs IH]; intros taps x k Hk; cbn [stim_sum ssum].
  - apply nth_repeat.
  - unfold ladd. rewrite nth_zipw by (rewrite ?length_branch_out_gen, ?length_stim_sum_gen; exact Hk).
    rewrite nth_branch_out by exact Hk. rewrite IH by exact Hk. reflexivity.
Qed.
End Pointwise.

Lemma lp_iir_len a n x : length (lp_iir a n x) = length x.
Proof. apply length_iir. Qed.

(* ---------------------------------------------------------------------------------------------- *)
(* truncation bound of the weighted sum *)
Lemma abs_abs_diff u v : Qabs (Qabs u - Qabs v) <= Qabs (u - v).
Proof.
  apply Qabs_Qle_condition. split.
  - pose proof (Qabs_triangle_reverse v u) as H. rewrite (Qabs_Qminus u v). lra.
  - apply Qabs_triangle_reverse.
Qed.

Lemma alpha_of_range dt tau : 0 < dt -> 0 <= tau -> 0 <= alpha_of dt tau /\ alpha_of dt tau <= 1.
Proof.
  intros Hd Ht. unfold alpha_of. split.
  - apply Qle_shift_div_l; lra.
  - apply Qle_shift_div_r; lra.
Qed.
Lemma hw_tau_nonneg h i : 0 <= tau1 h -> 0 <= tau2 h -> 0 <= tau3 h -> 0 <= hw_tau h i.
Proof. intros; unfold hw_tau. destruct i as [|[|[|[|i]]]]; try assumption; lra. Qed.

Lemma Forall_pre_bound b x M : Forall (fun v => Qabs v <= M) x -> Forall (fun v => Qabs v <= M) (pre b x).
Proof.
  intros H. unfold pre. destruct (b_abs_in b); [|exact H].
  induction H; cbn [map]; constructor; [|assumption].
  rewrite (Qabs_pos (Qabs x)) by apply Qabs_nonneg. assumption.
Qed.

Lemma branch_term_diff h dtms b n x M k :
  0 < dtms -> 0 <= tau1 h -> 0 <= tau2 h -> 0 <= tau3 h ->
  Forall (fun v => Qabs v <= M) x -> (k < length x)%nat ->
  Qabs (hw_a h (b_weight b) * post b (nth k (lowpass_fir (balpha h dtms b) n (pre b x)) 0)
        - hw_a h (b_weight b) * post b (nth k (lp_iir (balpha h dtms b) n (pre b x)) 0))
  <= (if Nat.leb (length x) n then 0
      else Qabs (hw_a h (b_weight b)) * (M * Qpower (1 - balpha h dtms b) (Z.of_nat n))).
Proof.
  intros Hd H1 H2 H3 HM Hk.
  set (a := hw_a h (b_weight b)). set (al := balpha h dtms b).
  destruct (alpha_of_range dtms (hw_tau h (b_tau b)) Hd (hw_tau_nonneg h _ H1 H2 H3)) as [A0 A1].
  fold (balpha h dtms b) in A0, A1. fold al in A0, A1.
  set (u := nth k (lowpass_fir al n (pre b x)) 0). set (v := nth k (lp_iir al n (pre b x)) 0).
  assert (D : Qabs (a * post b u - a * post b v) <= Qabs a * Qabs (u - v)).
  { setoid_replace (a * post b u - a * post b v) with (a * (post b u - post b v)) by ring.
    rewrite Qabs_Qmult. apply Qmult_le_l'; [apply Qabs_nonneg|].
    unfold post. destruct (b_abs_out b); [apply abs_abs_diff|apply Qle_refl]. }
  destruct (Nat.leb (length x) n) eqn:E.
  - apply Nat.leb_le in E.
    assert (Z : u - v == 0).
    { unfold u, v, lp_iir.
      rewrite (leq_nth _ _ k (fir_full_is_iir al n (pre b x) ltac:(rewrite length_pre; exact E))). ring. }
    eapply Qle_trans; [exact D|]. rewrite Z. change (Qabs 0) with 0. rewrite Qmult_0_r. apply Qle_refl.
  - eapply Qle_trans; [exact D|]. apply Qmult_le_l'; [apply Qabs_nonneg|].
    unfold u, v, lp_iir. apply fir_truncation_bound; try assumption.
    + apply Forall_pre_bound. exact HM.
    + rewrite length_pre. exact Hk.
Qed.

Lemma ssum_diff h dtms bs : forall taps x M k,
  0 < dtms -> 0 <= tau1 h -> 0 <= tau2 h -> 0 <= tau3 h ->
  Forall (fun v => Qabs v <= M) x -> (k < length x)%nat ->
  Qabs (ssum lowpass_fir h dtms bs taps x k - ssum lp_iir h dtms bs taps x k)
  <= trunc_bound h dtms bs taps (length x) M.
Proof.
  induction bs as [|b bs IH]; intros taps x M k Hd H1 H2 H3 HM Hk; cbn [ssum trunc_bound].
  - setoid_replace (0 - 0) with 0 by ring. apply Qle_refl.
  - set (A1 := hw_a h (b_weight b) * post b (nth k (lowpass_fir (balpha h dtms b) (hd 0%nat taps) (pre b x)) 0)).
    set (A2 := hw_a h (b_weight b) * post b (nth k (lp_iir (balpha h dtms b) (hd 0%nat taps) (pre b x)) 0)).
    set (S1 := ssum lowpass_fir h dtms bs (tl taps) x k). set (S2 := ssum lp_iir h dtms bs (tl taps) x k).
    setoid_replace (A1 + S1 - (A2 + S2)) with ((A1 - A2) + (S1 - S2)) by ring.
    eapply Qle_trans; [apply Qabs_triangle|]. apply Qplus_le_compat.
    + apply (branch_term_diff h dtms b (hd 0%nat taps) x M k); assumption.
    + apply IH; assumption.
Qed.

(* ---------------------------------------------------------------------------------------------- *)
(* one axis of calculate_pns against the SAFE reference *)
Lemma ms_dt_pos dt : 0 < dt -> 0 < dt * ms_factor.
Proof. intros H. unfold ms_factor. lra. Qed.

Lemma direct_vs_safe h gamma dt taps g M k :
  0 < dt -> 0 <= tau1 h -> 0 <= tau2 h -> 0 <= tau3 h ->
  Forall (fun v => Qabs v <= M) (dgdt dt (0 :: to_tesla gamma g)) -> (k < length g)%nat ->
  Qabs (nth k (pns_direct lowpass_fir h gamma dt taps g) 0 - nth k (safe_axis h gamma dt g) 0)
  <= Qabs (g_scale h / stim_limit h) * trunc_bound h (dt * ms_factor) branches taps (length g) M.
Proof.
  intros Hd H1 H2 H3 HM Hk.
  set (x := dgdt dt (0 :: to_tesla gamma g)) in *.
  assert (Lx : length x = length g) by apply length_dgdt0.
  unfold pns_direct, pns_model, safe_axis. fold x.
  rewrite !nth_map0 by (rewrite ?map_length, ?length_stim_sum, ?(length_stim_sum_gen lp_iir lp_iir_len); lia).
  rewrite (nth_stim_sum lowpass_fir length_fir) by lia.
  rewrite (nth_stim_sum lp_iir lp_iir_len) by lia.
  rewrite Qred_correct.
  set (S1 := ssum lowpass_fir h (dt * ms_factor) branches taps x k).
  set (S2 := ssum lp_iir h (dt * ms_factor) branches [] x k).
  assert (E2 : S2 = ssum lp_iir h (dt * ms_factor) branches taps x k).
  { unfold S2. generalize taps. generalize (@nil nat). induction branches as [|b bs IH]; intros t1 t2; cbn [ssum]; [reflexivity|].
    rewrite (IH (tl t1) (tl t2)). reflexivity. }
  setoid_replace (unpct * (S1 / stim_limit h * g_scale h * pct) - S2 / stim_limit h * g_scale h)
    with ((g_scale h / stim_limit h) * (S1 - S2)) by (unfold unpct, pct, Qdiv; ring).
  rewrite Qabs_Qmult. apply Qmult_le_l'; [apply Qabs_nonneg|].
  rewrite E2. rewrite <- Lx. apply ssum_diff; try assumption; [apply ms_dt_pos; exact Hd|lia].
Qed.

Lemma axis_is_safe_model h gamma dt p p2 taps g M k :
  0 < dt -> 0 <= tau1 h -> 0 <= tau2 h -> 0 <= tau3 h ->
  Forall (fun v => Qabs v <= M) (dgdt dt (0 :: to_tesla gamma g)) -> (k < length g)%nat ->
  Qabs (nth k (pns_axis lowpass_fir h gamma dt (S p) p2 taps g) 0 - nth k (safe_axis h gamma dt g) 0)
  <= Qabs (g_scale h / stim_limit h) * trunc_bound h (dt * ms_factor) branches taps (length g) M.
Proof.
  intros. rewrite (leq_nth _ _ k (unpad_indices h gamma dt p p2 taps g)). apply direct_vs_safe; assumption.
Qed.

(* ---------------------------------------------------------------------------------------------- *)
(* the tap-count side condition turns the bound into  2 eps M sum|a|  (time constants >= dt) *)
Lemma tap_count_ok_spec n N alpha eps : tap_count_ok n N alpha eps = true ->
  (n <= N)%nat /\ (n = N \/ (1 - alpha) ^ (Z.of_nat (S n)) <= eps).
Proof.
  unfold tap_count_ok. rewrite !andb_true_iff, orb_true_iff. intros [[_ H2] H4].
  apply Nat.leb_le in H2. split; [exact H2|].
  destruct H4 as [H4|H4]; [left; apply Nat.eqb_eq; exact H4|right; apply Qle_bool_iff; exact H4].
Qed.

Lemma trunc_bound_eps h dtms bs : forall taps L N M eps,
  0 <= M -> 0 <= eps -> (L <= N)%nat ->
  taps_ok h dtms bs taps N = true ->
  Forall (fun b => 0 <= alpha_of dtms (hw_tau h (b_tau b)) /\ alpha_of dtms (hw_tau h (b_tau b)) <= 1 # 2) bs ->
  (forall b, In b bs -> lowpass_eps <= eps) ->
  trunc_bound h dtms bs taps L M <= 2 * eps * M * weight_sum h bs.
Proof.
  induction bs as [|b bs IH]; intros taps L N M eps HM He HL Hok Hal Heps; cbn [trunc_bound weight_sum].
  - setoid_replace (2 * eps * M * 0) with 0 by ring. apply Qle_refl.
  - cbn [taps_ok] in Hok. apply andb_true_iff in Hok. destruct Hok as [Hb Hrest].
    inversion Hal as [|b' bs' [A0 A1] Hal']; subst.
    setoid_replace (2 * eps * M * (Qabs (hw_a h (b_weight b)) + weight_sum h bs))
      with (2 * eps * M * Qabs (hw_a h (b_weight b)) + 2 * eps * M * weight_sum h bs) by ring.
    apply Qplus_le_compat.
    + pose proof (Qabs_nonneg (hw_a h (b_weight b))) as Ha.
      assert (P0 : 0 <= 2 * eps * M * Qabs (hw_a h (b_weight b))).
      { apply Qmult_le_0_compat; [|exact Ha]. apply Qmult_le_0_compat; [lra|exact HM]. }
      destruct (Nat.leb L (hd 0%nat taps)) eqn:E; [exact P0|].
      apply Nat.leb_gt in E.
      destruct (tap_count_ok_spec _ _ _ _ Hb) as [Hn [Hn'|Hp]]; [lia|].
      set (r := 1 - alpha_of dtms (hw_tau h (b_tau b))) in *.
      set (n := hd 0%nat taps) in *.
      assert (Hr : 1 # 2 <= r) by (unfold r; lra).
      rewrite qpow_Qpower in Hp. rewrite qpow_Qpower. cbn [qpow] in Hp.
      pose proof (qpow_nonneg r n ltac:(lra)) as Q0.
      assert (Q1 : qpow r n <= 2 * eps).
      { assert (lowpass_eps <= eps) by (apply (Heps b); left; reflexivity).
        assert ((1 # 2) * qpow r n <= r * qpow r n) by (apply Qmult_le_compat_r; assumption).
        lra. }
      setoid_replace (Qabs (hw_a h (b_weight b)) * (M * qpow r n))
        with (qpow r n * (M * Qabs (hw_a h (b_weight b)))) by ring.
      setoid_replace (2 * eps * M * Qabs (hw_a h (b_weight b)))
        with ((2 * eps) * (M * Qabs (hw_a h (b_weight b)))) by ring.
      apply Qmult_le_compat_r; [exact Q1|]. apply Qmult_le_0_compat; assumption.
    + apply (IH (tl taps) L N M eps); try assumption.
      intros b0 Hb0. apply (Heps b0). right. exact Hb0.
Qed.

(* ---------------------------------------------------------------------------------------------- *)
(* the whole pipeline, all axes *)
Definition axis_close (h : hwax) (gamma dt : Q) (taps : list nat) (g col : list Q) : Prop :=
  length col = length g /\
  forall M k, Forall (fun v => Qabs v <= M) (dgdt dt (0 :: to_tesla gamma g)) -> (k < length g)%nat ->
    Qabs (nth k col 0 - nth k (safe_axis h gamma dt g) 0)
    <= Qabs (g_scale h / stim_limit h) * trunc_bound h (dt * ms_factor) branches taps (length g) M.

Definition taus_nonneg (h : hwax) : Prop := 0 <= tau1 h /\ 0 <= tau2 h /\ 0 <= tau3 h.

Lemma pad1_pos hx hy hz dt : exists p, pad1_of hx hy hz dt = S p.
Proof.
  unfold pad1_of, pad1_min.
  destruct (Nat.max (Z.to_nat (rnd_he (zpt hx hy hz / pad1_div / dt))) 1) eqn:E; [lia|eexists; reflexivity].
Qed.

Lemma length_opt_sample w dt nt : length (opt_sample w dt nt) = nt.
Proof. destruct w; cbn [opt_sample]; [apply length_sample|apply length_zeros]. Qed.
Lemma opt_sample_nth w dt nt k : (k < nt)%nat ->
  nth k (opt_sample w dt nt) 0
  = match w with Some pts => grad_pp pts ((inject_Z (Z.of_nat k) + centre_offset) * dt) | None => 0 end.
Proof. intros Hk. destruct w; cbn [opt_sample]; [apply sample_nth; exact Hk|apply nth_repeat]. Qed.

Lemma axis_close_intro h gamma dt p p2 taps g : 0 < dt -> taus_nonneg h ->
  axis_close h gamma dt taps g (pns_axis lowpass_fir h gamma dt (S p) p2 taps g).
Proof.
  intros Hd [H1 [H2 H3]]. split; [apply pns_count|].
  intros M k HM Hk. apply axis_is_safe_model; assumption.
Qed.

Lemma calc_pns_is_safe_model gamma dt hx hy hz wx wy wz tx ty tz o :
  calc_pns lowpass_fir gamma dt hx hy hz wx wy wz tx ty tz = OK o ->
  0 < dt -> taus_nonneg hx -> taus_nonneg hy -> taus_nonneg hz ->
  exists nt,
    (forall w k, (k < nt)%nat ->
       nth k (opt_sample w dt nt) 0
       = match w with Some pts => grad_pp pts ((inject_Z (Z.of_nat k) + centre_offset) * dt) | None => 0 end) /\
    (forall w, length (opt_sample w dt nt) = nt) /\
    axis_close hx gamma dt tx (opt_sample wx dt nt) (o_x o) /\
    axis_close hy gamma dt ty (opt_sample wy dt nt) (o_y o) /\
    axis_close hz gamma dt tz (opt_sample wz dt nt) (o_z o) /\
    o_normsq o = normsq3 (o_x o) (o_y o) (o_z o) /\
    (o_ok o = true <-> Forall (fun s => s < 1) (o_normsq o)).
Proof.
  intros E Hd Tx Ty Tz.
  destruct (calc_pns_structure _ _ _ _ _ _ _ _ _ _ _ _ _ E) as [nt [Ex [Ey [Ez [En Eo]]]]].
  destruct (pad1_pos hx hy hz dt) as [p Hp]. rewrite Hp in Ex, Ey, Ez.
  exists nt. split; [intros w k Hk; apply opt_sample_nth; exact Hk|].
  split; [intros w; apply length_opt_sample|].
  assert (Cx : axis_close hx gamma dt tx (opt_sample wx dt nt) (o_x o))
    by (rewrite Ex; apply axis_close_intro; assumption).
  assert (Cy : axis_close hy gamma dt ty (opt_sample wy dt nt) (o_y o))
    by (rewrite Ey; apply axis_close_intro; assumption).
  assert (Cz : axis_close hz gamma dt tz (opt_sample wz dt nt) (o_z o))
    by (rewrite Ez; apply axis_close_intro; assumption).
  split; [exact Cx|]. split; [exact Cy|]. split; [exact Cz|]. split; [exact En|].
  rewrite Eo. apply ok_iff.
Qed.

(* ---------------------------------------------------------------------------------------------- *)
(* sign case of homogeneity *)
Lemma pns_homogeneous_neg h gamma dt p1 p2 taps c g : c < 0 ->
  leq (pns_axis lowpass_fir h gamma dt p1 p2 taps (map (Qmult c) g))
      (map (Qmult (- c)) (pns_axis lowpass_fir h gamma dt p1 p2 taps g)).
Proof.
  intros Hc. etransitivity; [apply pns_homogeneous|].
  apply leq_map_ext. intros a. rewrite Qabs_neg by lra. reflexivity.
Qed.
Lemma pns_sign_invariant h gamma dt p1 p2 taps g :
  leq (pns_axis lowpass_fir h gamma dt p1 p2 taps (map (Qmult (-1)) g))
      (pns_axis lowpass_fir h gamma dt p1 p2 taps g).
Proof.
  etransitivity; [apply pns_homogeneous|].
  rewrite <- (map_id (pns_axis lowpass_fir h gamma dt p1 p2 taps g)) at 2.
  apply leq_map_ext. intros a. change (Qabs (-1)) with 1. ring.
Qed.

(* ---------------------------------------------------------------------------------------------- *)
(* time-shift invariance: m leading zero samples (all gradients delayed by m raster steps) delay the
   prediction by m samples *)
Lemma diffq_zeros_prefix m l : leq (diffq (zeros (S m) ++ l)) (zeros m ++ diffq (0 :: l)).
Proof.
  induction m.
  - reflexivity.
  - change (zeros (S (S m)) ++ l) with (0 :: (zeros (S m) ++ l)).
    change (zeros (S m) ++ l) with (0 :: (zeros m ++ l)) in *.
    cbn [diffq]. change (zeros (S m) ++ diffq (0 :: l)) with (0 :: (zeros m ++ diffq (0 :: l))).
    constructor; [ring|exact IHm].
Qed.

Lemma slew_shift dt gamma m g :
  leq (dgdt dt (0 :: to_tesla gamma (zeros m ++ g))) (zeros m ++ dgdt dt (0 :: to_tesla gamma g)).
Proof.
  unfold dgdt, to_tesla. rewrite map_app.
  assert (P : leq (0 :: map (fun x => x / gamma) (zeros m) ++ map (fun x => x / gamma) g)
                  (zeros (S m) ++ map (fun x => x / gamma) g)).
  { change (zeros (S m) ++ map (fun x => x / gamma) g) with (0 :: (zeros m ++ map (fun x => x / gamma) g)).
    constructor; [reflexivity|]. apply leq_app; [|reflexivity]. apply map_zeros. unfold Qdiv. ring. }
  etransitivity; [apply leq_map with (g := fun d => d / dt); [intros a b E; rewrite E; reflexivity|]|].
  - etransitivity; [apply diffq_leq, P|apply diffq_zeros_prefix].
  - rewrite map_app. apply leq_app; [|reflexivity]. apply map_zeros. unfold Qdiv. ring.
Qed.

Lemma scan_zeros f m : forall hist, (forall h, Forall (fun z => z == 0) h -> f h == 0) ->
  Forall (fun z => z == 0) hist -> leq (scan f hist (zeros m)) (zeros m).
Proof.
  induction m; intros hist Hf Hh; cbn [zeros repeat scan]; constructor.
  - apply Hf. constructor; [reflexivity|exact Hh].
  - apply IHm; [exact Hf|]. constructor; [reflexivity|exact Hh].
Qed.
Lemma fir_shift alpha n m d : leq (lowpass_fir alpha n (zeros m ++ d)) (zeros m ++ lowpass_fir alpha n d).
Proof.
  rewrite !fir_as_scan, scan_app. apply leq_app.
  - apply scan_zeros; [|constructor]. intros h Hh. rewrite firF_spec.
    rewrite <- (app_nil_l h). rewrite hsumn_app_zeros by exact Hh.
    destruct n; cbn [hsumn]; ring.
  - change (rev (zeros m) ++ []) with ([] ++ (rev (zeros m) ++ [])).
    apply scan_hist_pad. intros h. rewrite !firF_spec. rewrite hsumn_app_zeros; [reflexivity|].
    rewrite app_nil_r. apply Forall_rev. apply Forall_zeros.
Qed.

Lemma ladd_zeros_prefix m a b : leq (ladd (zeros m ++ a) (zeros m ++ b)) (zeros m ++ ladd a b).
Proof.
  unfold ladd. induction m; [reflexivity|]. cbn [zeros repeat app zipw]. constructor; [ring|exact IHm].
Qed.

Lemma branch_shift h dtms b n m d X : leq X (zeros m ++ d) ->
  leq (branch_out lowpass_fir h dtms b n X) (zeros m ++ branch_out lowpass_fir h dtms b n d).
Proof.
  intros HX. unfold branch_out.
  set (alpha := alpha_of dtms (hw_tau h (b_tau b))). set (w := hw_a h (b_weight b)).
  assert (I : leq (lowpass_fir alpha n (if b_abs_in b then map Qabs X else X))
                  (zeros m ++ lowpass_fir alpha n (if b_abs_in b then map Qabs d else d))).
  { destruct (b_abs_in b).
    - etransitivity; [apply fir_leq; etransitivity; [apply abs_leq, HX|]|apply fir_shift].
      rewrite map_app, map_abs_zeros. reflexivity.
    - etransitivity; [apply fir_leq, HX|apply fir_shift]. }
  assert (O : leq (if b_abs_out b then map Qabs (lowpass_fir alpha n (if b_abs_in b then map Qabs X else X))
                   else lowpass_fir alpha n (if b_abs_in b then map Qabs X else X))
                  (zeros m ++ (if b_abs_out b then map Qabs (lowpass_fir alpha n (if b_abs_in b then map Qabs d else d))
                               else lowpass_fir alpha n (if b_abs_in b then map Qabs d else d)))).
  { destruct (b_abs_out b); [|exact I].
    etransitivity; [apply abs_leq, I|]. rewrite map_app, map_abs_zeros. reflexivity. }
  etransitivity; [apply Qmult_leq, O|]. rewrite map_app. apply leq_app; [|reflexivity].
  apply map_zeros. ring.
Qed.

Lemma stim_sum_shift h dtms bs : forall taps m d X, leq X (zeros m ++ d) ->
  leq (stim_sum lowpass_fir h dtms bs taps X) (zeros m ++ stim_sum lowpass_fir h dtms bs taps d).
Proof.
  induction bs as [|b bs IH]; intros taps m d X HX; cbn [stim_sum].
  - apply leq_length in HX. rewrite HX, app_length, length_zeros, zeros_app. reflexivity.
  - etransitivity; [|apply ladd_zeros_prefix]. unfold ladd. apply leq_zipw.
    + intros a b0 c d0 E1 E2. rewrite E1, E2. reflexivity.
    + apply branch_shift. exact HX.
    + apply IH. exact HX.
Qed.

Lemma pns_direct_shift h gamma dt taps m g :
  leq (pns_direct lowpass_fir h gamma dt taps (zeros m ++ g))
      (zeros m ++ pns_direct lowpass_fir h gamma dt taps g).
Proof.
  unfold pns_direct, pns_model.
  pose proof (stim_sum_shift h (dt * ms_factor) branches taps m _ _ (slew_shift dt gamma m g)) as S.
  etransitivity; [apply Qmult_leq; apply leq_map with (g := fun s => Qred (s / stim_limit h * g_scale h * pct));
                  [intros a b E; rewrite E; reflexivity|exact S]|].
  rewrite !map_app. apply leq_app; [|reflexivity].
  etransitivity; [apply Qmult_leq; apply map_zeros; rewrite Qred_correct; unfold Qdiv; ring|].
  apply map_zeros. ring.
Qed.

Lemma pns_time_shift h gamma dt p p2 taps m g :
  leq (pns_axis lowpass_fir h gamma dt (S p) p2 taps (zeros m ++ g))
      (zeros m ++ pns_axis lowpass_fir h gamma dt (S p) p2 taps g).
Proof.
  etransitivity; [apply unpad_indices|].
  etransitivity; [apply pns_direct_shift|].
  apply leq_app; [reflexivity|]. symmetry. apply unpad_indices.
Qed.

(* ---------------------------------------------------------------------------------------------- *)
(* one axis under the tap-count side condition: error <= |g_scale/stim_limit| 2 eps M sum|a| *)
Lemma alpha_le_half d tau : 0 < d -> d <= tau -> alpha_of d tau <= 1 # 2.
Proof. intros Hd Ht. unfold alpha_of. apply Qle_shift_div_r; lra. Qed.
Lemma branches_alpha_half h d : 0 < d -> d <= tau1 h -> d <= tau2 h -> d <= tau3 h ->
  Forall (fun b => 0 <= alpha_of d (hw_tau h (b_tau b)) /\ alpha_of d (hw_tau h (b_tau b)) <= 1 # 2) branches.
Proof.
  intros Hd H1 H2 H3. unfold branches.
  repeat constructor; cbn [b_tau hw_tau];
    try (apply alpha_of_range; lra); try (apply alpha_le_half; lra).
Qed.
Lemma lowpass_eps_nonneg : 0 <= lowpass_eps.
Proof. unfold Qle; simpl; lia. Qed.

Lemma axis_error_eps h gamma dt p p2 taps N g M k :
  0 < dt -> dt * ms_factor <= tau1 h -> dt * ms_factor <= tau2 h -> dt * ms_factor <= tau3 h ->
  taps_ok h (dt * ms_factor) branches taps N = true -> (length g <= N)%nat ->
  Forall (fun v => Qabs v <= M) (dgdt dt (0 :: to_tesla gamma g)) -> (k < length g)%nat ->
  Qabs (nth k (pns_axis lowpass_fir h gamma dt (S p) p2 taps g) 0 - nth k (safe_axis h gamma dt g) 0)
  <= Qabs (g_scale h / stim_limit h) * (2 * lowpass_eps * M * weight_sum h branches).
Proof.
  intros Hd H1 H2 H3 Hok HN HM Hk.
  pose proof (ms_dt_pos dt Hd) as Hdm.
  assert (HM0 : 0 <= M).
  { assert (L : length (dgdt dt (0 :: to_tesla gamma g)) = length g) by apply length_dgdt0.
    destruct (dgdt dt (0 :: to_tesla gamma g)) as [|v x]; [simpl in L; lia|].
    inversion HM; subst. eapply Qle_trans; [apply Qabs_nonneg|eassumption]. }
  eapply Qle_trans; [apply axis_is_safe_model; try eassumption; lra|].
  apply Qmult_le_l'; [apply Qabs_nonneg|].
  apply (trunc_bound_eps h (dt * ms_factor) branches taps (length g) N M lowpass_eps); try assumption.
  - apply lowpass_eps_nonneg.
  - apply branches_alpha_half; assumption.
  - intros; apply Qle_refl.
Qed.
