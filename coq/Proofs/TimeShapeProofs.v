(* Proofs/TimeShapeProofs.v — the regular / explicit decision for time vectors is never ambiguous:
   corner times on the raster are never taken for regular raster samples, raster-centred samples always are,
   an explicit time shape decodes to exactly the time points handed over, and a vector judged regular
   decodes to within tolerance x raster of them. *)
From Coq Require Import List Bool ZArith QArith Qabs Lia Lqa.
From PV Require Import Gen.GenTimeShape Model.TimeShape.
Import ListNotations.
Open Scope Q_scope.

Lemma tt_tol_pos : 0 < tt_tol.
Proof. reflexivity. Qed.
Lemma tt_tol_small : tt_tol < 1 # 2.
Proof. reflexivity. Qed.

(* an integer minus a half-integer offset is at least 1/2 away from 0 *)
Lemma half_integer_far (n k : Z) : (1 # 2) <= Qabs (inject_Z n - (1 # 2) - inject_Z k).
Proof.
  assert (E : inject_Z n - (1 # 2) - inject_Z k == inject_Z (n - k) - (1 # 2)).
  { unfold Z.sub. rewrite inject_Z_plus, inject_Z_opp. ring. }
  rewrite E. set (m := (n - k)%Z).
  destruct (Z_le_gt_dec m 0) as [H|H].
  - (* m <= 0: value <= -1/2 *)
    assert (Hm : inject_Z m <= inject_Z 0) by (rewrite <- Zle_Qle; exact H).
    change (inject_Z 0) with 0 in Hm.
    rewrite Qabs_neg by lra. lra.
  - assert (Hm : inject_Z 1 <= inject_Z m) by (rewrite <- Zle_Qle; lia).
    change (inject_Z 1) with 1 in Hm.
    rewrite Qabs_pos by lra. lra.
Qed.

(* 1. corner times that are whole multiples of the raster are never regular (first point is enough) *)
Theorem on_raster_never_regular : forall raster n r,
  0 < raster -> tt_regular raster (inject_Z n * raster :: r) = false.
Proof.
  intros raster n r Hr. unfold tt_regular. cbn [regular_from].
  destruct (Qlt_le_dec (Qabs (inject_Z n * raster / raster - (1 # 2) - inject_Z 0)) tt_tol) as [L|L]; [|reflexivity].
  exfalso.
  assert (E : inject_Z n * raster / raster - (1 # 2) - inject_Z 0 == inject_Z n - (1 # 2) - inject_Z 0).
  { field. lra. }
  rewrite E in L. pose proof (half_integer_far n 0) as F. pose proof tt_tol_small. lra.
Qed.

(* the same at any position: a vector with one on-raster point is not regular *)
Lemma regular_from_all raster tol : forall tt k0,
  regular_from raster tol k0 tt = true ->
  forall i t, nth_error tt i = Some t -> Qabs (t / raster - (1 # 2) - inject_Z (k0 + Z.of_nat i)) < tol.
Proof.
  induction tt as [|x r IH]; intros k0 H i t Hi; [destruct i; discriminate|].
  cbn [regular_from] in H. apply andb_true_iff in H. destruct H as [H1 H2].
  destruct i as [|i]; cbn [nth_error] in Hi.
  - inversion Hi. subst x. rewrite Z.add_0_r.
    destruct (Qlt_le_dec (Qabs (t / raster - (1 # 2) - inject_Z k0)) tol); [assumption|discriminate].
  - replace (k0 + Z.of_nat (S i))%Z with ((k0 + 1) + Z.of_nat i)%Z by lia.
    eapply IH; eassumption.
Qed.

Theorem any_on_raster_point_not_regular : forall raster tt i n,
  0 < raster -> nth_error tt i = Some (inject_Z n * raster) -> tt_regular raster tt = false.
Proof.
  intros raster tt i n Hr Hi. destruct (tt_regular raster tt) eqn:E; [|reflexivity]. exfalso.
  unfold tt_regular in E. pose proof (regular_from_all raster tt_tol tt 0 E i _ Hi) as L.
  assert (Eq : inject_Z n * raster / raster - (1 # 2) - inject_Z (0 + Z.of_nat i)
               == inject_Z n - (1 # 2) - inject_Z (0 + Z.of_nat i)) by (field; lra).
  rewrite Eq in L. pose proof (half_integer_far n (0 + Z.of_nat i)) as F. pose proof tt_tol_small. lra.
Qed.

(* 2. raster-centred samples are always regular *)
Lemma centres_regular raster : 0 < raster -> forall n k0, regular_from raster tt_tol k0 (centres_from raster k0 n) = true.
Proof.
  intros Hr. induction n as [|n IH]; intro k0; [reflexivity|].
  cbn [centres_from regular_from]. rewrite IH, andb_true_r.
  destruct (Qlt_le_dec (Qabs ((inject_Z k0 + (1 # 2)) * raster / raster - (1 # 2) - inject_Z k0)) tt_tol) as [L|L];
    [reflexivity|]. exfalso.
  assert (E : (inject_Z k0 + (1 # 2)) * raster / raster - (1 # 2) - inject_Z k0 == 0) by (field; lra).
  rewrite E in L. change (Qabs 0) with 0 in L. pose proof tt_tol_pos. lra.
Qed.

Theorem raster_centres_always_regular : forall raster n,
  0 < raster -> tt_regular raster (centres_from raster 0 n) = true.
Proof. intros raster n Hr. apply centres_regular. exact Hr. Qed.

(* 3. an explicit time shape gives the time points back exactly (up to the codec, C14_codec_roundtrip) *)
Theorem explicit_roundtrip : forall raster tt u,
  0 < raster -> stored_time_shape raster tt = Some u ->
  Forall2 Qeq (decoded_tt raster (length tt) (Some u)) tt.
Proof.
  intros raster tt u Hr H. unfold stored_time_shape in H.
  destruct (tt_regular raster tt); [discriminate|]. inversion H. subst u. clear H.
  cbn [decoded_tt]. induction tt as [|t r IH]; cbn [map]; constructor; [field; lra|exact IH].
Qed.

(* 4. a vector judged regular decodes to within tolerance x raster of the time points handed over *)
Lemma regular_close raster : 0 < raster -> forall tt k0,
  regular_from raster tt_tol k0 tt = true ->
  Forall2 (fun d t => Qabs (d - t) < tt_tol * raster) (centres_from raster k0 (length tt)) tt.
Proof.
  intros Hr. induction tt as [|t r IH]; intros k0 H; cbn [length centres_from]; constructor.
  - cbn [regular_from] in H. apply andb_true_iff in H. destruct H as [H1 _].
    destruct (Qlt_le_dec (Qabs (t / raster - (1 # 2) - inject_Z k0)) tt_tol) as [L|L]; [|discriminate].
    assert (E : (inject_Z k0 + (1 # 2)) * raster - t == - (t / raster - (1 # 2) - inject_Z k0) * raster) by (field; lra).
    rewrite E, Qabs_Qmult, Qabs_opp, (Qabs_pos raster) by lra.
    apply Qmult_lt_r; assumption.
  - cbn [regular_from] in H. apply andb_true_iff in H. destruct H as [_ H2]. apply IH. exact H2.
Qed.

Theorem regular_decodes_close : forall raster tt,
  0 < raster -> stored_time_shape raster tt = None ->
  Forall2 (fun d t => Qabs (d - t) < tt_tol * raster) (decoded_tt raster (length tt) None) tt.
Proof.
  intros raster tt Hr H. unfold stored_time_shape in H.
  destruct (tt_regular raster tt) eqn:E; [|discriminate].
  cbn [decoded_tt]. apply regular_close; assumption.
Qed.

(* non-vacuity: an extended trapezoid with corners one raster apart on a 10 us raster is explicit; four raster samples are regular *)
Example ts_example :
  tt_regular (1 # 100000) [0; 1 # 100000; 2 # 100000; 3 # 100000] = false /\
  tt_regular (1 # 100000) [1 # 200000; 3 # 200000; 5 # 200000; 7 # 200000] = true.
Proof. split; vm_compute; reflexivity. Qed.
