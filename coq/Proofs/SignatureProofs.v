(* Proofs/SignatureProofs.v — the [SIGNATURE] contract of Model/Signature.v:
   a signed file splits back into (hashed content, "md5", digest); the bytes in front of the
   newline preceding [SIGNATURE] are exactly the hashed content; an unsigned file has no
   signature section.  Hypothesis throughout: the section tag "[SIGNATURE]" does not occur in the
   body ([no_sub sig_tag body = true]); [sig_collision_refuted] shows it is needed. *)
From Coq Require Import List Bool ZArith Lia.
From PV Require Import Gen.GenSignature Model.Signature.
Import ListNotations.
Open Scope Z_scope.

(* a hex digest: non-empty, no whitespace *)
Definition clean (h : bytes) : Prop := h <> [] /\ forall b, In b h -> is_ws b = false.

(* [n] does not occur in [l] (boolean, so closed instances compute) *)
Definition absent (n : Z) (l : bytes) : bool := forallb (fun b => negb (b =? n)) l.

(* ================================================================================================ *)
(* generic: prefixb / find_sub / no_sub                                                             *)
(* ================================================================================================ *)

Lemma prefixb_refl_app : forall p r, prefixb p (p ++ r) = true.
Proof.
  induction p as [|x p IH]; intros r; simpl; [reflexivity|].
  rewrite Z.eqb_refl, IH. reflexivity.
Qed.

Lemma prefixb_app_l : forall a c s, prefixb (a ++ c) s = true -> prefixb a s = true.
Proof.
  induction a as [|x a IH]; intros c s H; [reflexivity|].
  destruct s as [|y s]; simpl in H |- *; [discriminate|].
  apply andb_true_iff in H as [Hxy Hr].
  rewrite Hxy. simpl. eapply IH; eauto.
Qed.

(* a pattern that does not contain [n] cannot reach across an [n] *)
Lemma prefixb_stop : forall n tag b X,
  absent n tag = true -> prefixb tag (b ++ n :: X) = true -> prefixb tag b = true.
Proof.
  induction tag as [|t tag IH]; intros b X Hn Hp; [reflexivity|].
  simpl in Hn. apply andb_true_iff in Hn as [Ht Hn].
  destruct b as [|y b]; simpl in Hp |- *.
  - apply andb_true_iff in Hp as [Hp _]. rewrite Hp in Ht. discriminate.
  - apply andb_true_iff in Hp as [Hy Hp]. rewrite Hy. simpl. eapply IH; eauto.
Qed.

Lemma find_sub_eq : forall p s,
  find_sub p s =
  if prefixb p s then Some O
  else match s with [] => None | _ :: r => option_map S (find_sub p r) end.
Proof. intros p s. destruct s; reflexivity. Qed.

Lemma no_sub_head : forall p s, no_sub p s = true -> prefixb p s = false.
Proof.
  intros p s H. destruct s; simpl in H; apply andb_true_iff in H as [H _];
    apply negb_true_iff in H; exact H.
Qed.

Lemma no_sub_tail : forall p y s, no_sub p (y :: s) = true -> no_sub p s = true.
Proof.
  intros p y s H. simpl in H. apply andb_true_iff in H as [_ H]. exact H.
Qed.

(* the marker [n :: tag ++ [n]] cannot start inside a tag-free body *)
Lemma marker_not_at_head : forall n tag y b X,
  no_sub tag b = true ->
  (prefixb tag X = true -> prefixb tag b = true) ->
  prefixb (n :: tag ++ [n]) (y :: X) = false.
Proof.
  intros n tag y b X Hns Himp.
  destruct (prefixb (n :: tag ++ [n]) (y :: X)) eqn:E; [|reflexivity].
  simpl in E. apply andb_true_iff in E as [_ E].
  apply prefixb_app_l in E. apply Himp in E.
  rewrite (no_sub_head _ _ Hns) in E. discriminate.
Qed.

Lemma find_marker_generic : forall n tag rest body,
  absent n tag = true -> no_sub tag body = true ->
  find_sub (n :: tag ++ [n]) (body ++ (n :: tag ++ [n]) ++ rest) = Some (length body).
Proof.
  intros n tag rest body Hn.
  induction body as [|y b IH]; intros Hns.
  - change ([] ++ (n :: tag ++ [n]) ++ rest) with ((n :: tag ++ [n]) ++ rest).
    rewrite find_sub_eq, prefixb_refl_app. reflexivity.
  - change ((y :: b) ++ (n :: tag ++ [n]) ++ rest)
      with (y :: (b ++ (n :: tag ++ [n]) ++ rest)).
    rewrite find_sub_eq.
    rewrite (marker_not_at_head n tag y b); [| exact (no_sub_tail _ _ _ Hns) |].
    + rewrite IH by exact (no_sub_tail _ _ _ Hns). reflexivity.
    + intros Hp.
      change (b ++ (n :: tag ++ [n]) ++ rest) with (b ++ n :: ((tag ++ [n]) ++ rest)) in Hp.
      eapply prefixb_stop; eauto.
Qed.

Lemma find_marker_none_generic : forall n tag body,
  no_sub tag body = true -> find_sub (n :: tag ++ [n]) body = None.
Proof.
  intros n tag body.
  induction body as [|y b IH]; intros Hns.
  - reflexivity.
  - rewrite find_sub_eq.
    rewrite (marker_not_at_head n tag y b); [| exact (no_sub_tail _ _ _ Hns) | auto].
    rewrite IH by exact (no_sub_tail _ _ _ Hns). reflexivity.
Qed.

Lemma firstn_length_app : forall (a b : bytes), firstn (length a) (a ++ b) = a.
Proof. induction a as [|x a IH]; intros b; simpl; [reflexivity | rewrite IH; reflexivity]. Qed.

Lemma skipn_length_app : forall (a b : bytes), skipn (length a) (a ++ b) = b.
Proof. induction a as [|x a IH]; intros b; simpl; [reflexivity | apply IH]. Qed.

Lemma skipn_length_app2 : forall (a p b : bytes),
  skipn (length a + length p) (a ++ p ++ b) = b.
Proof.
  induction a as [|x a IH]; intros p b; simpl.
  - apply skipn_length_app.
  - apply IH.
Qed.

(* ================================================================================================ *)
(* generic: split_lines_go / strip / take_key / skip_comments                                       *)
(* ================================================================================================ *)

(* the complete lines emitted while scanning [s], and the pending partial line afterwards *)
Fixpoint lines_done (cur s : bytes) : list bytes :=
  match s with
  | [] => []
  | b :: r => if b =? NL then rev cur :: lines_done [] r else lines_done (b :: cur) r
  end.
Fixpoint lines_cur (cur s : bytes) : bytes :=
  match s with
  | [] => cur
  | b :: r => if b =? NL then lines_cur [] r else lines_cur (b :: cur) r
  end.

Lemma split_lines_go_app : forall a cur s,
  split_lines_go cur (a ++ s) = lines_done cur a ++ split_lines_go (lines_cur cur a) s.
Proof.
  induction a as [|b a IH]; intros cur s; simpl; [reflexivity|].
  destruct (b =? NL); [rewrite IH; reflexivity | apply IH].
Qed.

Lemma split_lines_go_line : forall l cur r,
  absent NL l = true ->
  split_lines_go cur (l ++ NL :: r) = (rev cur ++ l) :: split_lines_go [] r.
Proof.
  induction l as [|b l IH]; intros cur r Hl.
  - simpl. rewrite app_nil_r. reflexivity.
  - simpl in Hl. apply andb_true_iff in Hl as [Hb Hl]. apply negb_true_iff in Hb.
    simpl. rewrite Hb. rewrite IH by exact Hl.
    simpl. rewrite <- app_assoc. reflexivity.
Qed.

Lemma lstrip_id : forall b r, is_ws b = false -> lstrip (b :: r) = b :: r.
Proof. intros b r H. cbn [lstrip]. rewrite H. reflexivity. Qed.

Lemma strip_id : forall l, lstrip l = l -> lstrip (rev l) = rev l -> strip l = l.
Proof. intros l H1 H2. unfold strip. rewrite H1, H2. apply rev_involutive. Qed.

Lemma strip_single : forall a, is_ws a = false -> strip [a] = [a].
Proof.
  intros a Ha. apply strip_id; [apply lstrip_id; exact Ha|].
  change (rev [a]) with [a]. apply lstrip_id; exact Ha.
Qed.

(* no whitespace at either end: strip is the identity *)
Lemma strip_ends : forall a m z,
  is_ws a = false -> is_ws z = false -> strip (a :: m ++ [z]) = a :: m ++ [z].
Proof.
  intros a m z Ha Hz. apply strip_id; [apply lstrip_id; exact Ha|].
  change (a :: m ++ [z]) with ((a :: m) ++ [z]).
  rewrite rev_unit. apply lstrip_id; exact Hz.
Qed.

Lemma clean_last : forall h, clean h -> exists m z, h = m ++ [z] /\ is_ws z = false.
Proof.
  intros h [Hne Hws].
  destruct (exists_last Hne) as [m [z E]].
  exists m, z. split; [exact E|].
  apply Hws. rewrite E. apply in_or_app. right. left. reflexivity.
Qed.

Lemma strip_clean : forall h, clean h -> strip h = h.
Proof.
  intros h Hc. destruct h as [|a r]; [destruct Hc as [Hne _]; contradiction|].
  assert (Ha : is_ws a = false) by (apply (proj2 Hc); left; reflexivity).
  destruct r as [|b r]; [apply strip_single; exact Ha|].
  assert (Hne : b :: r <> []) by discriminate.
  destruct (exists_last Hne) as [m [z E]]. rewrite E.
  apply strip_ends; [exact Ha|].
  apply (proj2 Hc). right. rewrite E. apply in_or_app. right. left. reflexivity.
Qed.

Lemma strip_prefix_clean : forall a p h,
  is_ws a = false -> clean h -> strip (a :: p ++ h) = a :: p ++ h.
Proof.
  intros a p h Ha Hc. destruct (clean_last h Hc) as [m [z [E Hz]]].
  rewrite E, app_assoc. apply strip_ends; assumption.
Qed.

Lemma clean_no_nl : forall h, clean h -> absent NL h = true.
Proof.
  intros h [_ Hws]. unfold absent. apply forallb_forall. intros b Hb.
  specialize (Hws b Hb). unfold is_ws in Hws.
  apply orb_false_iff in Hws as [_ Hnl]. unfold NL. rewrite Hnl. reflexivity.
Qed.

Lemma take_key_app : forall k v,
  absent SP k = true -> take_key (k ++ SP :: v) = (k, v).
Proof.
  induction k as [|b k IH]; intros v Hk.
  - reflexivity.
  - simpl in Hk. apply andb_true_iff in Hk as [Hb Hk]. apply negb_true_iff in Hb.
    simpl. rewrite Hb, IH by exact Hk. reflexivity.
Qed.

Lemma skip_comments_app : forall A B,
  skip_comments A <> [] -> skip_comments (A ++ B) = skip_comments A ++ B.
Proof.
  induction A as [|l A IH]; intros B H; [contradiction H; reflexivity|].
  simpl in H |- *. destruct (is_comment_or_blank l); [apply IH; exact H | reflexivity].
Qed.

(* ================================================================================================ *)
(* closed facts about the generated constants                                                       *)
(* ================================================================================================ *)

Lemma sig_marker_shape : sig_marker = NL :: sig_tag ++ [NL].
Proof. reflexivity. Qed.

Lemma sig_tag_no_nl : absent NL sig_tag = true.
Proof. vm_compute. reflexivity. Qed.

Lemma sig_tail_shape : sig_tail = [NL].
Proof. reflexivity. Qed.

(* the partial line at the end of sig_after_marker is "Hash " *)
Lemma after_marker_cur : lines_cur [] sig_after_marker = rev (KEY_HASH ++ [SP]).
Proof. vm_compute. reflexivity. Qed.

(* its complete lines are three comments, then "Type md5" *)
Lemma after_marker_lines :
  skip_comments (map strip (lines_done [] sig_after_marker)) = [KEY_TYPE ++ SP :: MD5].
Proof. vm_compute. reflexivity. Qed.

(* ================================================================================================ *)
(* the trailer written by [sign] parses to Type=md5, Hash=h                                         *)
(* ================================================================================================ *)

Lemma trailer_lines : forall h, clean h ->
  split_lines (sig_after_marker ++ h ++ sig_tail)
  = lines_done [] sig_after_marker ++ [(KEY_HASH ++ [SP]) ++ h].
Proof.
  intros h Hc. unfold split_lines.
  rewrite split_lines_go_app, sig_tail_shape.
  rewrite split_lines_go_line by (apply clean_no_nl; exact Hc).
  rewrite after_marker_cur, rev_involutive. reflexivity.
Qed.

Lemma read_defs_two : forall h, clean h ->
  read_defs [KEY_TYPE ++ SP :: MD5; KEY_HASH ++ SP :: h] = [(KEY_TYPE, MD5); (KEY_HASH, h)].
Proof.
  intros h Hc. cbn [read_defs].
  rewrite !take_key_app by reflexivity.
  change (is_comment_or_blank (KEY_TYPE ++ SP :: MD5)) with false.
  change (is_comment_or_blank (KEY_HASH ++ SP :: h)) with false.
  cbv beta iota.
  change (strip MD5) with MD5.
  rewrite (strip_clean h Hc). reflexivity.
Qed.

Lemma trailer_defs : forall h, clean h ->
  read_defs (skip_comments (map strip (split_lines (sig_after_marker ++ h ++ sig_tail))))
  = [(KEY_TYPE, MD5); (KEY_HASH, h)].
Proof.
  intros h Hc.
  rewrite (trailer_lines h Hc), map_app.
  rewrite skip_comments_app by (rewrite after_marker_lines; discriminate).
  rewrite after_marker_lines.
  cbn [map app].
  change ((KEY_HASH ++ [SP]) ++ h) with (72 :: [97; 115; 104; 32] ++ h).
  rewrite strip_prefix_clean by (reflexivity || exact Hc).
  exact (read_defs_two h Hc).
Qed.

(* ================================================================================================ *)
(* main theorems                                                                                    *)
(* ================================================================================================ *)

Theorem find_marker_at_body_end : forall body rest,
  no_sub sig_tag body = true ->
  find_sub sig_marker (body ++ sig_marker ++ rest) = Some (length body).
Proof.
  intros body rest Hns. rewrite sig_marker_shape.
  apply find_marker_generic; [exact sig_tag_no_nl | exact Hns].
Qed.
Print Assumptions find_marker_at_body_end.

Theorem signature_roundtrip : forall h body,
  no_sub sig_tag body = true -> clean h ->
  split_sig (sign h body) = Some (body, MD5, h).
Proof.
  intros h body Hns Hc. unfold split_sig, sign.
  rewrite (find_marker_at_body_end body _ Hns).
  cbv zeta.
  rewrite firstn_length_app, skipn_length_app2, (trailer_defs h Hc).
  reflexivity.
Qed.
Print Assumptions signature_roundtrip.

Theorem signed_prefix_is_body : forall h body,
  no_sub sig_tag body = true ->
  exists k, find_sub sig_marker (sign h body) = Some k /\ firstn k (sign h body) = body.
Proof.
  intros h body Hns. exists (length body). unfold sign. split.
  - apply find_marker_at_body_end; exact Hns.
  - apply firstn_length_app.
Qed.
Print Assumptions signed_prefix_is_body.

(* no occurrence of the tag implies no occurrence of the marker *)
Lemma no_tag_no_marker : forall body,
  no_sub sig_tag body = true -> find_sub sig_marker body = None.
Proof.
  intros body Hns. rewrite sig_marker_shape. apply find_marker_none_generic; exact Hns.
Qed.

Theorem unsigned_has_no_section : forall body,
  no_sub sig_tag body = true -> split_sig body = None.
Proof.
  intros body Hns. unfold split_sig. rewrite (no_tag_no_marker body Hns). reflexivity.
Qed.
Print Assumptions unsigned_has_no_section.

Theorem write_file_contract : forall digest body,
  no_sub sig_tag body = true -> clean (digest body) ->
  let '(f, ret) := write_file true digest body in
  ret = Some (digest body) /\ split_sig f = Some (body, MD5, digest body).
Proof.
  intros digest body Hns Hc. unfold write_file. cbv beta iota.
  split; [reflexivity | apply signature_roundtrip; assumption].
Qed.
Print Assumptions write_file_contract.

Theorem write_file_unsigned_contract : forall digest body,
  no_sub sig_tag body = true ->
  write_file false digest body = (body, None) /\ split_sig body = None.
Proof.
  intros digest body Hns. split; [reflexivity | apply unsigned_has_no_section; exact Hns].
Qed.
Print Assumptions write_file_unsigned_contract.

(* ================================================================================================ *)
(* examples                                                                                         *)
(* ================================================================================================ *)

(* "[VERSION]\nmajor 1\n\n" *)
Definition ex_body : bytes :=
  [91; 86; 69; 82; 83; 73; 79; 78; 93; 10; 109; 97; 106; 111; 114; 32; 49; 10; 10].
(* its md5, "28811194fd6f74a7abd2720eb00289b7" *)
Definition ex_hash : bytes :=
  [50; 56; 56; 49; 49; 49; 57; 52; 102; 100; 54; 102; 55; 52; 97; 55;
   97; 98; 100; 50; 55; 50; 48; 101; 98; 48; 48; 50; 56; 57; 98; 55].

Example sig_example : split_sig (sign ex_hash ex_body) = Some (ex_body, MD5, ex_hash).
Proof. vm_compute. reflexivity. Qed.

Example sig_example_unsigned : split_sig ex_body = None.
Proof. vm_compute. reflexivity. Qed.

(* "A\n[SIGNATURE]\nType x\nHash y\n": the body itself contains the marker; the reader stops at
   the first occurrence, returns the shorter content "A" and the forged Type/Hash, and the real
   digest is ignored.  So the tag-freeness hypothesis cannot be dropped. *)
Definition bad_body : bytes :=
  [65; 10; 91; 83; 73; 71; 78; 65; 84; 85; 82; 69; 93; 10;
   84; 121; 112; 101; 32; 120; 10; 72; 97; 115; 104; 32; 121; 10].

Example sig_collision_refuted :
  no_sub sig_tag bad_body = false /\
  split_sig (sign ex_hash bad_body) = Some ([65], [120], [121]).
Proof. split; vm_compute; reflexivity. Qed.

(* "\n[SIGNATURE]" contains the tag but not the full marker "\n[SIGNATURE]\n"; appending the
   marker creates an earlier match.  So "marker does not occur in body" would be too weak a
   hypothesis for find_marker_at_body_end; "tag does not occur" is what the proof uses. *)
Definition edge_body : bytes := [10; 91; 83; 73; 71; 78; 65; 84; 85; 82; 69; 93].

Example sig_marker_free_insufficient :
  no_sub sig_marker edge_body = true /\
  find_sub sig_marker (sign ex_hash edge_body) = Some 0%nat /\
  length edge_body = 12%nat.
Proof. repeat split; vm_compute; reflexivity. Qed.
