(* Proofs/GradOpsProofs.v — lemmas about Model/GradOps.v for C18 (scale, split, align). *)
From Coq Require Import ZArith QArith Qround Qabs Lia Lqa List Bool Setoid Morphisms.
From PV Require Import Base.QUtil Base.Round Base.PWL Gen.GenGradOps Model.GradOps.
Import ListNotations.
Open Scope Q_scope.

(* ------------------------------------------------------------------------------------------ *)
(* pwl_eq helpers *)
Lemma pwl_eq_sym p q : pwl_eq p q -> pwl_eq q p.
Proof.
  unfold pwl_eq. induction 1 as [|a b p q [H1 H2] _ IH]; constructor; [|exact IH].
  split; symmetry; assumption.
Qed.

Lemma pwl_eq_trans p q s : pwl_eq p q -> pwl_eq q s -> pwl_eq p s.
Proof.
  unfold pwl_eq. intro H. revert s. induction H as [|a b p q [H1 H2] _ IH]; intros s Hs.
  - exact Hs.
  - inversion Hs as [|b' c q' s' [H3 H4] Hs']; subst. constructor; [|apply IH; exact Hs'].
    split; [rewrite H1; exact H3|rewrite H2; exact H4].
Qed.

Lemma pwl_eq_app p q p' q' : pwl_eq p q -> pwl_eq p' q' -> pwl_eq (p ++ p') (q ++ q').
Proof. unfold pwl_eq. intros H H'. apply Forall2_app; assumption. Qed.

Lemma pwl_eq_shift d d' p q : d == d' -> pwl_eq p q -> pwl_eq (shift d p) (shift d' q).
Proof.
  unfold pwl_eq. intros Hd. induction 1 as [|a b p q [H1 H2] _ IH]; cbn [shift map]; constructor.
  - cbn [fst snd]. split; [rewrite H1, Hd; reflexivity|exact H2].
  - exact IH.
Qed.

Lemma pwl_eq_times_sorted p q : pwl_eq p q -> sorted_strict (times p) -> sorted_strict (times q).
Proof.
  unfold pwl_eq. induction 1 as [|[a v] [b w] p q [H1 _] Hr IH]; intro Hs; [exact I|].
  cbn [fst] in H1.
  destruct Hr as [|[a1 v1] [b1 w1] p q [H3 _] Hr']; [exact I|]. cbn [fst] in H3.
  cbn [times map fst] in *. apply sorted_cons2 in Hs. destruct Hs as [Hlt Hs].
  apply sorted_cons2. split; [lra|]. apply IH. exact Hs.
Qed.

(* ------------------------------------------------------------------------------------------ *)
(* scale_grad *)
Lemma combine_map_r {A} (f : Q -> Q) (l : list A) : forall w,
  combine l (map f w) = map (fun tv => (fst tv, f (snd tv))) (combine l w).
Proof.
  induction l as [|a l IH]; intros [|x w]; cbn; try reflexivity. f_equal. apply IH.
Qed.

Lemma scale_pwl_eq k (p : pwl) :
  pwl_eq (map (fun tv => (fst tv, snd tv * k)) p) (scale k p).
Proof.
  induction p as [|[t v] p IH]; cbn; constructor; [cbn; split; [reflexivity|ring]|exact IH].
Qed.

Lemma scale_app k (p q : pwl) : scale k (p ++ q) = scale k p ++ scale k q.
Proof. unfold scale. apply map_app. Qed.

Lemma scale_shift k d p : scale k (shift d p) = shift d (scale k p).
Proof. unfold scale, shift. rewrite !map_map. reflexivity. Qed.

Lemma to_pwl_scale r g k : pwl_eq (to_pwl r (scale_grad g k)) (scale k (to_pwl r g)).
Proof.
  destruct g as [t|e]; cbn [to_pwl scale_grad t_delay e_delay].
  - rewrite scale_shift. apply pwl_eq_shift; [reflexivity|].
    unfold trap_corners. cbn [t_flat t_rise t_fall t_amp].
    destruct (Qeq_bool (t_flat t) 0); cbn [scale map fst snd];
      repeat (constructor; [cbn [fst snd]; split; [reflexivity|ring]|]); constructor.
  - rewrite scale_shift. apply pwl_eq_shift; [reflexivity|].
    unfold egrad_corners. cbn [e_tt e_wf e_first e_last].
    destruct (is_arb r (e_tt e)).
    + change ((0, e_first e) :: combine (e_tt e) (e_wf e) ++ [(last (e_tt e) 0 + r / 2, e_last e)])
        with ([(0, e_first e)] ++ combine (e_tt e) (e_wf e) ++ [(last (e_tt e) 0 + r / 2, e_last e)]).
      change ((0, e_first e * k) :: combine (e_tt e) (map (fun w => w * k) (e_wf e))
                ++ [(last (e_tt e) 0 + r / 2, e_last e * k)])
        with ([(0, e_first e * k)] ++ combine (e_tt e) (map (fun w => w * k) (e_wf e))
                ++ [(last (e_tt e) 0 + r / 2, e_last e * k)]).
      rewrite !scale_app. apply pwl_eq_app; [|apply pwl_eq_app].
      * cbn. constructor; [cbn; split; [reflexivity|ring]|constructor].
      * rewrite combine_map_r. apply scale_pwl_eq.
      * cbn. constructor; [cbn; split; [reflexivity|ring]|constructor].
    + rewrite combine_map_r. apply scale_pwl_eq.
Qed.

Theorem scale_eval r g k t : eval (to_pwl r (scale_grad g k)) t == k * eval (to_pwl r g) t.
Proof. rewrite (eval_pwl_eq _ _ t (to_pwl_scale r g k)). apply eval_scale. Qed.

(* what scale_grad changes and what it keeps, field by field *)
Definition scale_fields_spec (g g' : grad) (k : Q) : Prop :=
  match g, g' with
  | GTrap t, GTrap t' =>
    t_amp t' = t_amp t * k /\ t_area t' = t_area t * k /\ t_flat_area t' = t_flat_area t * k /\
    t_ch t' = t_ch t /\ t_rise t' = t_rise t /\ t_flat t' = t_flat t /\ t_fall t' = t_fall t /\
    t_delay t' = t_delay t /\ t_id t' = None
  | GExt e, GExt e' =>
    e_wf e' = map (fun w => w * k) (e_wf e) /\ e_first e' = e_first e * k /\ e_last e' = e_last e * k /\
    e_area e' = option_map (fun a => a * k) (e_area e) /\
    e_ch e' = e_ch e /\ e_delay e' = e_delay e /\ e_tt e' = e_tt e /\ e_sdur e' = e_sdur e /\ e_id e' = None
  | _, _ => False
  end.

Theorem scale_fields g k : scale_fields_spec g (scale_grad g k) k.
Proof. destruct g as [t|e]; cbn; repeat split. Qed.

(* ------------------------------------------------------------------------------------------ *)
(* calc_duration / align *)
Lemma fold_max_ge (l : list aev) : forall a, a <= fold_left (fun d e => Qmax d (ev_duration e)) l a.
Proof.
  induction l as [|e l IH]; intro a; cbn [fold_left]; [lra|].
  eapply Qle_trans; [apply (Qmax_ub_l a (ev_duration e))|apply IH].
Qed.

Lemma calc_duration_ge (l : list aev) : forall a e, In e l ->
  ev_duration e <= fold_left (fun d e => Qmax d (ev_duration e)) l a.
Proof.
  induction l as [|x l IH]; intros a e Hin; [contradiction|]. cbn [fold_left].
  destruct Hin as [->|Hin].
  - eapply Qle_trans; [apply (Qmax_ub_r a (ev_duration e))|apply fold_max_ge].
  - apply IH. exact Hin.
Qed.

Lemma calc_duration_attained (l : list aev) : forall a,
  fold_left (fun d e => Qmax d (ev_duration e)) l a = a \/
  exists e, In e l /\ fold_left (fun d e => Qmax d (ev_duration e)) l a = ev_duration e.
Proof.
  induction l as [|x l IH]; intro a; cbn [fold_left]; [left; reflexivity|].
  destruct (IH (Qmax a (ev_duration x))) as [H|[e [Hin H]]].
  - rewrite H. destruct (Qmax_case a (ev_duration x)) as [E|E]; rewrite E.
    + left; reflexivity.
    + right. exists x. split; [left; reflexivity|reflexivity].
  - right. exists e. split; [right; exact Hin|exact H].
Qed.

(* the common duration is an upper bound of every delay+length, is >= 0, and is attained *)
Theorem calc_duration_is_max (l : list aev) :
  0 <= calc_duration l /\ (forall e, In e l -> ev_duration e <= calc_duration l) /\
  (calc_duration l = 0 \/ exists e, In e l /\ calc_duration l = ev_duration e).
Proof.
  unfold calc_duration. split; [apply fold_max_ge|]. split.
  - intros e H. apply calc_duration_ge. exact H.
  - apply calc_duration_attained.
Qed.

Lemma calc_duration_single e : 0 <= ev_duration e -> calc_duration [e] == ev_duration e.
Proof.
  intro H. unfold calc_duration. cbn [fold_left]. unfold Qmax.
  destruct (Qle_bool 0 (ev_duration e)) eqn:E; [reflexivity|].
  apply Qleb_gt in E. lra.
Qed.

(* the delay align promises for one event *)
Definition align_target (dur : Q) (sp : nat) (e : aev) : Q :=
  if Nat.eqb sp align_left then 0
  else if Nat.eqb sp align_center then (dur - a_len e) / 2
  else dur - a_len e.

Lemma align_go_spec dur : forall l out,
  Forall (fun se => (fst se <= 2)%nat /\ 0 <= ev_duration (snd se)) l ->
  align_go dur l = OK out ->
  Forall2 (fun se e' => a_delay e' == align_target dur (fst se) (snd se) /\
                        a_len e' = a_len (snd se) /\ a_tag e' = a_tag (snd se) /\
                        (fst se = align_right -> 0 <= a_delay e')) l out.
Proof.
  induction l as [|[sp e] l IH]; intros out Hf H; cbn [align_go] in H.
  - inversion H. constructor.
  - inversion Hf as [|? ? [Hsp Hd] Hf']; subst. cbn [fst snd] in Hsp, Hd.
    pose proof (calc_duration_single e Hd) as Hc. unfold ev_duration in Hc.
    unfold align_target in *; unfold align_left, align_center, align_right in *.
    destruct sp as [|[|[|sp]]]; [| | |lia]; cbn [Nat.eqb] in H |- *.
    + destruct (align_go dur l) as [r'|x] eqn:E; [|discriminate]. inversion H; subst.
      constructor; [|apply IH; [exact Hf'|reflexivity]].
      cbn [fst snd set_delay a_delay a_len a_tag Nat.eqb]. repeat split; try reflexivity. discriminate.
    + destruct (align_go dur l) as [r'|x] eqn:E; [|discriminate]. inversion H; subst.
      constructor; [|apply IH; [exact Hf'|reflexivity]].
      cbn [fst snd set_delay a_delay a_len a_tag Nat.eqb]. repeat split; try reflexivity; [|discriminate].
      rewrite Hc. field.
    + destruct (Qltb (dur - calc_duration [e] + a_delay e) 0) eqn:En; [discriminate|].
      apply Qltb_ge in En.
      destruct (align_go dur l) as [r'|x] eqn:E; [|discriminate]. inversion H; subst.
      constructor; [|apply IH; [exact Hf'|reflexivity]].
      cbn [fst snd set_delay a_delay a_len a_tag Nat.eqb]. repeat split; try reflexivity; [|intros _; exact En].
      rewrite Hc. ring.
Qed.

Lemma align_specs_ok l : existsb (fun se : nat * aev => (2 <? fst se)%nat) l = false ->
  Forall (fun se => (fst se <= 2)%nat) l.
Proof.
  induction l as [|x l IH]; intro H; [constructor|]. cbn [existsb] in H.
  apply orb_false_iff in H. destruct H as [H1 H2]. constructor; [|apply IH; exact H2].
  apply Nat.ltb_ge in H1. exact H1.
Qed.

(* align: on success the delays are 0 / (D - len)/2 / D - len with D the common duration, nothing
   else changes, the list keeps its length and order, right-aligned delays are not negative *)
Theorem align_spec l out :
  Forall (fun se => 0 <= ev_duration (snd se)) l ->
  align l = OK out ->
  let D := calc_duration (map snd l) in
  Forall2 (fun se e' => a_delay e' == align_target D (fst se) (snd se) /\
                        a_len e' = a_len (snd se) /\ a_tag e' = a_tag (snd se) /\
                        (fst se = align_right -> 0 <= a_delay e')) l out.
Proof.
  intros Hd H D. unfold align in H.
  destruct (existsb (fun se : nat * aev => (2 <? fst se)%nat) l) eqn:E; [discriminate|].
  apply align_specs_ok in E. apply align_go_spec; [|exact H].
  rewrite Forall_forall in *. intros x Hx. split; [apply E|apply Hd]; exact Hx.
Qed.

(* with non-negative input delays and lengths align never raises the negative-delay error *)
Lemma align_go_total dur : forall l,
  Forall (fun se => (fst se <= 2)%nat /\ 0 <= a_delay (snd se) /\ 0 <= a_len (snd se) /\
                    ev_duration (snd se) <= dur) l ->
  exists out, align_go dur l = OK out.
Proof.
  induction l as [|[sp e] l IH]; intro Hf; [exists []; reflexivity|].
  inversion Hf as [|? ? [Hsp [Hd [Hl Hle]]] Hf']; subst. cbn [fst snd] in *.
  destruct (IH Hf') as [r' Hr]. cbn [align_go]. rewrite Hr.
  assert (Hc : calc_duration [e] == ev_duration e) by (apply calc_duration_single; unfold ev_duration; lra).
  unfold align_left, align_center, align_right.
  destruct sp as [|[|[|sp]]]; [| | |lia]; cbn [Nat.eqb]; try (eexists; reflexivity).
  destruct (Qltb (dur - calc_duration [e] + a_delay e) 0) eqn:En; [|eexists; reflexivity].
  apply Qltb_lt in En. rewrite Hc in En. unfold ev_duration in *. lra.
Qed.

Theorem align_total l :
  Forall (fun se => (fst se <= 2)%nat /\ 0 <= a_delay (snd se) /\ 0 <= a_len (snd se)) l ->
  exists out, align l = OK out.
Proof.
  intro Hf. unfold align.
  assert (E : existsb (fun se : nat * aev => (2 <? fst se)%nat) l = false).
  { apply not_true_is_false. intro E. apply existsb_exists in E. destruct E as [x [Hx E]].
    rewrite Forall_forall in Hf. destruct (Hf x Hx) as [H _]. apply Nat.ltb_lt in E. lia. }
  rewrite E. apply align_go_total. rewrite Forall_forall in *. intros x Hx.
  destruct (Hf x Hx) as [A [B C]]. repeat split; try assumption.
  apply (proj1 (proj2 (calc_duration_is_max (map snd l)))). apply in_map. exact Hx.
Qed.

(* ------------------------------------------------------------------------------------------ *)
(* the cut of split_gradient_at (mask `times < tp - t_eps`, the point (tp, interp), mask
   `times > tp + t_eps`) is the cut_left / cut_right pair of Base/PWL.v *)
Lemma split_t_eps_pos : 0 < split_t_eps.
Proof. reflexivity. Qed.

(* every corner time is clearly before the cut, at the cut, or clearly after it *)
Definition no_near (c : Q) (p : pwl) : Prop :=
  forall a, In a (times p) -> a < c - split_t_eps \/ a == c \/ c + split_t_eps < a.

Lemma no_near_tail c a p : no_near c (a :: p) -> no_near c p.
Proof. intros H x Hx. apply H. cbn [times map]. right. exact Hx. Qed.

Lemma before_none c (p : pwl) : (forall a, In a (times p) -> c <= a) -> before_cut c p = [].
Proof.
  pose proof split_t_eps_pos as He.
  induction p as [|[a v] p IH]; intro H; [reflexivity|]. unfold before_cut in *. cbn [filter fst].
  assert (Ha : c <= a) by (apply H; left; reflexivity).
  destruct (Qltb a (c - split_t_eps)) eqn:E; [apply Qltb_lt in E; lra|].
  apply IH. intros x Hx. apply H. right. exact Hx.
Qed.

Lemma after_all c (p : pwl) : (forall a, In a (times p) -> c + split_t_eps < a) -> after_cut c p = p.
Proof.
  induction p as [|[a v] p IH]; intro H; [reflexivity|]. unfold after_cut in *. cbn [filter fst].
  assert (Ha : c + split_t_eps < a) by (apply H; left; reflexivity).
  destruct (Qltb (c + split_t_eps) a) eqn:E; [|apply Qltb_ge in E; lra].
  f_equal. apply IH. intros x Hx. apply H. right. exact Hx.
Qed.

Lemma before_cut_cons c t v p : before_cut c ((t, v) :: p) =
  if Qltb t (c - split_t_eps) then (t, v) :: before_cut c p else before_cut c p.
Proof. reflexivity. Qed.
Lemma after_cut_cons c t v p : after_cut c ((t, v) :: p) =
  if Qltb (c + split_t_eps) t then (t, v) :: after_cut c p else after_cut c p.
Proof. reflexivity. Qed.

Lemma np_interp_skip c t0 v0 t1 v1 r : t0 < c -> t0 < t1 -> t1 <= c ->
  np_interp c ((t0, v0) :: (t1, v1) :: r) == np_interp c ((t1, v1) :: r).
Proof.
  intros H0 H01 H1. cbn [np_interp np_interp_go].
  destruct (Qle_bool c t0) eqn:E0; [apply Qle_bool_iff in E0; lra|].
  destruct (Qle_bool c t1) eqn:E1; [|reflexivity].
  apply Qle_bool_iff in E1. assert (Hc : c == t1) by lra.
  rewrite Hc. apply interp_right. lra.
Qed.

Lemma sorted_times_ge t0 v0 (r : pwl) : sorted_strict (times ((t0, v0) :: r)) ->
  forall a, In a (times r) -> t0 < a.
Proof. intros Hs a Ha. cbn [times map fst] in Hs. apply (sorted_lt_all _ _ Hs). exact Ha. Qed.

Lemma cut_left_eq c : forall p, p <> [] -> sorted_strict (times p) -> tfirst p <= c -> c <= tlast p ->
  no_near c p -> pwl_eq (before_cut c p ++ [(c, np_interp c p)]) (cut_left c p).
Proof.
  pose proof split_t_eps_pos as He.
  induction p as [|[t0 v0] r IH]; intros Hne Hs Hf Hl Hn.
  - congruence.
  - cbn [tfirst] in Hf. destruct r as [|[t1 v1] r].
    + cbn [tlast last fst] in Hl. assert (Hc : c == t0) by lra.
      rewrite before_none by (intros a Ha; cbn [times map fst In] in Ha; destruct Ha as [<-|[]]; lra).
      cbn [cut_left np_interp app].
      case_ltb c t0 E0; [lra|]. case_eqb c t0 E1; [|contradiction]. case_leb c t0 E2; [|lra].
      constructor; [cbn; split; [exact Hc|reflexivity]|constructor].
    + pose proof Hs as Hs'. apply sorted_cons2 in Hs'. destruct Hs' as [H01 Hst].
      rewrite tlast_cons2 in Hl.
      rewrite cut_left_cons2. case_ltb c t0 E0; [lra|]. case_eqb c t0 E1.
      * rewrite before_none.
        2:{ intros a Ha; cbn [times map fst In] in Ha; destruct Ha as [<-|Ha]; [lra|]. pose proof (sorted_times_ge _ _ _ Hs a Ha). lra. }
        cbn [np_interp app]. case_leb c t0 E2; [|lra].
        constructor; [cbn; split; [exact E1|reflexivity]|constructor].
      * assert (H0c : t0 < c) by lra.
        assert (Hk : t0 < c - split_t_eps).
        { destruct (Hn t0 (or_introl eq_refl)) as [H|[H|H]]; [exact H|lra|lra]. }
        rewrite before_cut_cons.
        destruct (Qltb t0 (c - split_t_eps)) eqn:Ek; [|apply Qltb_ge in Ek; lra].
        case_leb t1 c E2.
        -- cbn [app]. constructor; [split; reflexivity|].
           eapply pwl_eq_trans; [|apply IH; [discriminate|exact Hst|cbn [tfirst]; exact E2|exact Hl|eapply no_near_tail; exact Hn]].
           apply pwl_eq_app; [apply pwl_eq_refl|].
           constructor; [cbn [fst snd]; split; [reflexivity|apply np_interp_skip; assumption]|constructor].
        -- rewrite before_none.
           2:{ intros a Ha; cbn [times map fst In] in Ha; destruct Ha as [<-|Ha]; [lra|].
               assert (Hs2 : sorted_strict (times ((t1, v1) :: r))) by exact Hst.
               pose proof (sorted_times_ge _ _ _ Hs2 a Ha). lra. }
           cbn [app np_interp np_interp_go].
           case_leb c t0 E3; [lra|]. case_leb c t1 E4; [|lra].
           constructor; [split; reflexivity|]. constructor; [split; reflexivity|constructor].
Qed.

Lemma cut_right_eq c : forall p, sorted_strict (times p) -> tfirst p <= c -> c < tlast p ->
  no_near c p -> pwl_eq ((c, np_interp c p) :: after_cut c p) (cut_right c p).
Proof.
  pose proof split_t_eps_pos as He.
  induction p as [|[t0 v0] r IH]; intros Hs Hf Hl Hn.
  - cbn in Hf, Hl. lra.
  - cbn [tfirst] in Hf. destruct r as [|[t1 v1] r].
    + cbn [tlast last fst] in Hl. lra.
    + pose proof Hs as Hs'. apply sorted_cons2 in Hs'. destruct Hs' as [H01 Hst].
      rewrite tlast_cons2 in Hl.
      assert (Hafter : forall q : pwl, (forall a, In a (times q) -> c < a) -> no_near c q -> after_cut c q = q).
      { intros q Hq Hnq. apply after_all. intros a Ha. specialize (Hq a Ha).
        destruct (Hnq a Ha) as [H|[H|H]]; [lra|lra|exact H]. }
      rewrite cut_right_cons2. case_leb c t0 E0.
      * assert (Hc : c == t0) by lra.
        rewrite after_cut_cons.
        destruct (Qltb (c + split_t_eps) t0) eqn:Ek; [apply Qltb_lt in Ek; lra|].
        rewrite Hafter.
        2:{ intros a Ha. pose proof (sorted_times_ge _ _ _ Hs a Ha). lra. }
        2:{ eapply no_near_tail; exact Hn. }
        cbn [np_interp]. case_leb c t0 E2; [|lra].
        constructor; [cbn; split; [exact Hc|reflexivity]|apply pwl_eq_refl].
      * rewrite after_cut_cons.
        destruct (Qltb (c + split_t_eps) t0) eqn:Ek; [apply Qltb_lt in Ek; lra|].
        case_leb t1 c E2.
        -- eapply pwl_eq_trans; [|apply IH; [exact Hst|cbn [tfirst]; exact E2|exact Hl|eapply no_near_tail; exact Hn]].
           constructor; [cbn [fst snd]; split; [reflexivity|apply np_interp_skip; assumption]|apply pwl_eq_refl].
        -- rewrite Hafter.
           2:{ intros a Ha; cbn [times map fst In] in Ha; destruct Ha as [<-|Ha]; [lra|].
               assert (Hs2 : sorted_strict (times ((t1, v1) :: r))) by exact Hst.
               pose proof (sorted_times_ge _ _ _ Hs2 a Ha). lra. }
           2:{ eapply no_near_tail; exact Hn. }
           cbn [np_interp np_interp_go].
           case_leb c t0 E3; [lra|]. case_leb c t1 E4; [|lra].
           constructor; [split; reflexivity|apply pwl_eq_refl].
Qed.

(* the two corner lists built by split_gradient_at add up to the input away from the cut, and both
   carry the input's value at the cut *)
Theorem cut_sum c p t : sorted_strict (times p) -> tfirst p <= c -> c < tlast p -> no_near c p ->
  (~ t == c -> eval (before_cut c p ++ [(c, np_interp c p)]) t
               + eval ((c, np_interp c p) :: after_cut c p) t == eval p t) /\
  (t == c -> eval (before_cut c p ++ [(c, np_interp c p)]) t == eval p t /\
             eval ((c, np_interp c p) :: after_cut c p) t == eval p t).
Proof.
  intros Hs Hf Hl Hn.
  assert (Hl' : c <= tlast p) by lra.
  assert (Hne : p <> []) by (intro E; subst p; cbn in Hf, Hl; lra).
  pose proof (cut_left_eq c p Hne Hs Hf Hl' Hn) as HL. pose proof (cut_right_eq c p Hs Hf Hl Hn) as HR.
  rewrite (eval_pwl_eq _ _ t HL), (eval_pwl_eq _ _ t HR). split; intro Ht.
  - apply eval_cut; assumption.
  - split.
    + apply (proj1 (eval_cut_left c p Hs t)). lra.
    + apply (proj1 (eval_cut_right c p Hs t)). lra.
Qed.
