(* Proofs/GradOpsProofs.v — lemmas about Model/GradOps.v for C18 (scale, split, align). *)
From Coq Require Import ZArith QArith Qround Qabs Lia Lqa List Bool Setoid Morphisms.
From PV Require Import Base.QUtil Base.Round Base.PWL Gen.GenGradOps Model.GradOps.
Import ListNotations.
Open Scope Q_scope.

(* ------------------------------------------------------------------------------------------ *)
(* pwl_eq helpers *)
Lemma pwl_eq_sym p q : pwl_eq p q -> pwl_eq q p.
Proof.
  unfold pwl_eq. induction 1 as [|a b p q [H1 H2] _ IH]; constructor; [|exact IH].
  split; symmetry; assumption.
Qed.

Lemma pwl_eq_trans p q s : pwl_eq p q -> pwl_eq q s -> pwl_eq p s.
Proof.
  unfold pwl_eq. intro H. revert s. induction H as [|a b p q [H1 H2] _ IH]; intros s Hs.
  - exact Hs.
  - inversion Hs as [|b' c q' s' [H3 H4] Hs']; subst. constructor; [|apply IH; exact Hs'].
    split; [rewrite H1; exact H3|rewrite H2; exact H4].
Qed.

Lemma pwl_eq_app p q p' q' : pwl_eq p q -> pwl_eq p' q' -> pwl_eq (p ++ p') (q ++ q').
Proof. unfold pwl_eq. intros H H'. apply Forall2_app; assumption. Qed.

Lemma pwl_eq_shift d d' p q : d == d' -> pwl_eq p q -> pwl_eq (shift d p) (shift d' q).
Proof.
  unfold pwl_eq. intros Hd. induction 1 as [|a b p q [H1 H2] _ IH]; cbn [shift map]; constructor.
  - cbn [fst snd]. split; [rewrite H1, Hd; reflexivity|exact H2].
  - exact IH.
Qed.

Lemma pwl_eq_times_sorted p q : pwl_eq p q -> sorted_strict (times p) -> sorted_strict (times q).
Proof.
  unfold pwl_eq. induction 1 as [|[a v] [b w] p q [H1 _] Hr IH]; intro Hs; [exact I|].
  cbn [fst] in H1.
  destruct Hr as [|[a1 v1] [b1 w1] p q [H3 _] Hr']; [exact I|]. cbn [fst] in H3.
  cbn [times map fst] in *. apply sorted_cons2 in Hs. destruct Hs as [Hlt Hs].
  apply sorted_cons2. split; [lra|]. apply IH. exact Hs.
Qed.

(* ------------------------------------------------------------------------------------------ *)
(* scale_grad *)
Lemma combine_map_r {A} (f : Q -> Q) (l : list A) : forall w,
  combine l (map f w) = map (fun tv => (fst tv, f (snd tv))) (combine l w).
Proof.
  induction l as [|a l IH]; intros [|x w]; cbn; try reflexivity. f_equal. apply IH.
Qed.

Lemma scale_pwl_eq k (p : pwl) :
  pwl_eq (map (fun tv => (fst tv, snd tv * k)) p) (scale k p).
Proof.
  induction p as [|[t v] p IH]; cbn; constructor; [cbn; split; [reflexivity|ring]|exact IH].
Qed.

Lemma scale_app k (p q : pwl) : scale k (p ++ q) = scale k p ++ scale k q.
Proof. unfold scale. apply map_app. Qed.

Lemma scale_shift k d p : scale k (shift d p) = shift d (scale k p).
Proof. unfold scale, shift. rewrite !map_map. reflexivity. Qed.

Lemma to_pwl_scale r g k : pwl_eq (to_pwl r (scale_grad g k)) (scale k (to_pwl r g)).
Proof.
  destruct g as [t|e]; cbn [to_pwl scale_grad t_delay e_delay].
  - rewrite scale_shift. apply pwl_eq_shift; [reflexivity|].
    unfold trap_corners. cbn [t_flat t_rise t_fall t_amp].
    destruct (Qeq_bool (t_flat t) 0); cbn [scale map fst snd];
      repeat (constructor; [cbn [fst snd]; split; [reflexivity|ring]|]); constructor.
  - rewrite scale_shift. apply pwl_eq_shift; [reflexivity|].
    unfold egrad_corners. cbn [e_tt e_wf e_first e_last].
    destruct (is_arb r (e_tt e)).
    + change ((0, e_first e) :: combine (e_tt e) (e_wf e) ++ [(last (e_tt e) 0 + r / 2, e_last e)])
        with ([(0, e_first e)] ++ combine (e_tt e) (e_wf e) ++ [(last (e_tt e) 0 + r / 2, e_last e)]).
      change ((0, e_first e * k) :: combine (e_tt e) (map (fun w => w * k) (e_wf e))
                ++ [(last (e_tt e) 0 + r / 2, e_last e * k)])
        with ([(0, e_first e * k)] ++ combine (e_tt e) (map (fun w => w * k) (e_wf e))
                ++ [(last (e_tt e) 0 + r / 2, e_last e * k)]).
      rewrite !scale_app. apply pwl_eq_app; [|apply pwl_eq_app].
      * cbn. constructor; [cbn; split; [reflexivity|ring]|constructor].
      * rewrite combine_map_r. apply scale_pwl_eq.
      * cbn. constructor; [cbn; split; [reflexivity|ring]|constructor].
    + rewrite combine_map_r. apply scale_pwl_eq.
Qed.

Theorem scale_eval r g k t : eval (to_pwl r (scale_grad g k)) t == k * eval (to_pwl r g) t.
Proof. rewrite (eval_pwl_eq _ _ t (to_pwl_scale r g k)). apply eval_scale. Qed.

(* what scale_grad changes and what it keeps, field by field *)
Definition scale_fields_spec (g g' : grad) (k : Q) : Prop :=
  match g, g' with
  | GTrap t, GTrap t' =>
    t_amp t' = t_amp t * k /\ t_area t' = t_area t * k /\ t_flat_area t' = t_flat_area t * k /\
    t_ch t' = t_ch t /\ t_rise t' = t_rise t /\ t_flat t' = t_flat t /\ t_fall t' = t_fall t /\
    t_delay t' = t_delay t /\ t_id t' = None
  | GExt e, GExt e' =>
    e_wf e' = map (fun w => w * k) (e_wf e) /\ e_first e' = e_first e * k /\ e_last e' = e_last e * k /\
    e_area e' = option_map (fun a => a * k) (e_area e) /\
    e_ch e' = e_ch e /\ e_delay e' = e_delay e /\ e_tt e' = e_tt e /\ e_sdur e' = e_sdur e /\ e_id e' = None
  | _, _ => False
  end.

Theorem scale_fields g k : scale_fields_spec g (scale_grad g k) k.
Proof. destruct g as [t|e]; cbn; repeat split. Qed.

(* ------------------------------------------------------------------------------------------ *)
(* calc_duration / align *)
Lemma fold_max_ge (l : list aev) : forall a, a <= fold_left (fun d e => Qmax d (ev_duration e)) l a.
Proof.
  induction l as [|e l IH]; intro a; cbn [fold_left]; [lra|].
  eapply Qle_trans; [apply (Qmax_ub_l a (ev_duration e))|apply IH].
Qed.

Lemma calc_duration_ge (l : list aev) : forall a e, In e l ->
  ev_duration e <= fold_left (fun d e => Qmax d (ev_duration e)) l a.
Proof.
  induction l as [|x l IH]; intros a e Hin; [contradiction|]. cbn [fold_left].
  destruct Hin as [->|Hin].
  - eapply Qle_trans; [apply (Qmax_ub_r a (ev_duration e))|apply fold_max_ge].
  - apply IH. exact Hin.
Qed.

Lemma calc_duration_attained (l : list aev) : forall a,
  fold_left (fun d e => Qmax d (ev_duration e)) l a = a \/
  exists e, In e l /\ fold_left (fun d e => Qmax d (ev_duration e)) l a = ev_duration e.
Proof.
  induction l as [|x l IH]; intro a; cbn [fold_left]; [left; reflexivity|].
  destruct (IH (Qmax a (ev_duration x))) as [H|[e [Hin H]]].
  - rewrite H. destruct (Qmax_case a (ev_duration x)) as [E|E]; rewrite E.
    + left; reflexivity.
    + right. exists x. split; [left; reflexivity|reflexivity].
  - right. exists e. split; [right; exact Hin|exact H].
Qed.

(* the common duration is an upper bound of every delay+length, is >= 0, and is attained *)
Theorem calc_duration_is_max (l : list aev) :
  0 <= calc_duration l /\ (forall e, In e l -> ev_duration e <= calc_duration l) /\
  (calc_duration l = 0 \/ exists e, In e l /\ calc_duration l = ev_duration e).
Proof.
  unfold calc_duration. split; [apply fold_max_ge|]. split.
  - intros e H. apply calc_duration_ge. exact H.
  - apply calc_duration_attained.
Qed.

Lemma calc_duration_single e : 0 <= ev_duration e -> calc_duration [e] == ev_duration e.
Proof.
  intro H. unfold calc_duration. cbn [fold_left]. unfold Qmax.
  destruct (Qle_bool 0 (ev_duration e)) eqn:E; [reflexivity|].
  apply Qleb_gt in E. lra.
Qed.

(* the delay align promises for one event *)
Definition align_target (dur : Q) (sp : nat) (e : aev) : Q :=
  if Nat.eqb sp align_left then 0
  else if Nat.eqb sp align_center then (dur - a_len e) / 2
  else dur - a_len e.

Lemma align_go_spec dur : forall l out,
  Forall (fun se => (fst se <= 2)%nat /\ 0 <= ev_duration (snd se)) l ->
  align_go dur l = OK out ->
  Forall2 (fun se e' => a_delay e' == align_target dur (fst se) (snd se) /\
                        a_len e' = a_len (snd se) /\ a_tag e' = a_tag (snd se) /\ a_id e' = None /\
                        (fst se = align_right -> 0 <= a_delay e')) l out.
Proof.
  induction l as [|[sp e] l IH]; intros out Hf H; cbn [align_go] in H.
  - inversion H. constructor.
  - inversion Hf as [|? ? [Hsp Hd] Hf']; subst. cbn [fst snd] in Hsp, Hd.
    pose proof (calc_duration_single e Hd) as Hc. unfold ev_duration in Hc.
    unfold align_target in *; unfold align_left, align_center, align_right in *.
    destruct sp as [|[|[|sp]]]; [| | |lia]; cbn [Nat.eqb] in H |- *.
    + destruct (align_go dur l) as [r'|x] eqn:E; [|discriminate]. inversion H; subst.
      constructor; [|apply IH; [exact Hf'|reflexivity]].
      cbn [fst snd set_delay a_delay a_len a_tag a_id Nat.eqb]. repeat split; try reflexivity. discriminate.
    + destruct (align_go dur l) as [r'|x] eqn:E; [|discriminate]. inversion H; subst.
      constructor; [|apply IH; [exact Hf'|reflexivity]].
      cbn [fst snd set_delay a_delay a_len a_tag a_id Nat.eqb]. repeat split; try reflexivity; [|discriminate].
      rewrite Hc. field.
    + destruct (Qltb (dur - calc_duration [e] + a_delay e) 0) eqn:En; [discriminate|].
      apply Qltb_ge in En.
      destruct (align_go dur l) as [r'|x] eqn:E; [|discriminate]. inversion H; subst.
      constructor; [|apply IH; [exact Hf'|reflexivity]].
      cbn [fst snd set_delay a_delay a_len a_tag a_id Nat.eqb]. repeat split; try reflexivity; [|intros _; exact En].
      rewrite Hc. ring.
Qed.

Lemma align_specs_ok l : existsb (fun se : nat * aev => (2 <? fst se)%nat) l = false ->
  Forall (fun se => (fst se <= 2)%nat) l.
Proof.
  induction l as [|x l IH]; intro H; [constructor|]. cbn [existsb] in H.
  apply orb_false_iff in H. destruct H as [H1 H2]. constructor; [|apply IH; exact H2].
  apply Nat.ltb_ge in H1. exact H1.
Qed.

(* align: on success the delays are 0 / (D - len)/2 / D - len with D the common duration, nothing
   else changes, the list keeps its length and order, right-aligned delays are not negative *)
Theorem align_spec l out :
  Forall (fun se => 0 <= ev_duration (snd se)) l ->
  align l = OK out ->
  let D := calc_duration (map snd l) in
  Forall2 (fun se e' => a_delay e' == align_target D (fst se) (snd se) /\
                        a_len e' = a_len (snd se) /\ a_tag e' = a_tag (snd se) /\ a_id e' = None /\
                        (fst se = align_right -> 0 <= a_delay e')) l out.
Proof.
  intros Hd H D. unfold align in H.
  destruct (existsb (fun se : nat * aev => (2 <? fst se)%nat) l) eqn:E; [discriminate|].
  apply align_specs_ok in E. apply align_go_spec; [|exact H].
  rewrite Forall_forall in *. intros x Hx. split; [apply E|apply Hd]; exact Hx.
Qed.

(* with non-negative input delays and lengths align never raises the negative-delay error *)
Lemma align_go_total dur : forall l,
  Forall (fun se => (fst se <= 2)%nat /\ 0 <= a_delay (snd se) /\ 0 <= a_len (snd se) /\
                    ev_duration (snd se) <= dur) l ->
  exists out, align_go dur l = OK out.
Proof.
  induction l as [|[sp e] l IH]; intro Hf; [exists []; reflexivity|].
  inversion Hf as [|? ? [Hsp [Hd [Hl Hle]]] Hf']; subst. cbn [fst snd] in *.
  destruct (IH Hf') as [r' Hr]. cbn [align_go]. rewrite Hr.
  assert (Hc : calc_duration [e] == ev_duration e) by (apply calc_duration_single; unfold ev_duration; lra).
  unfold align_left, align_center, align_right.
  destruct sp as [|[|[|sp]]]; [| | |lia]; cbn [Nat.eqb]; try (eexists; reflexivity).
  destruct (Qltb (dur - calc_duration [e] + a_delay e) 0) eqn:En; [|eexists; reflexivity].
  apply Qltb_lt in En. rewrite Hc in En. unfold ev_duration in *. lra.
Qed.

Theorem align_total l :
  Forall (fun se => (fst se <= 2)%nat /\ 0 <= a_delay (snd se) /\ 0 <= a_len (snd se)) l ->
  exists out, align l = OK out.
Proof.
  intro Hf. unfold align.
  assert (E : existsb (fun se : nat * aev => (2 <? fst se)%nat) l = false).
  { apply not_true_is_false. intro E. apply existsb_exists in E. destruct E as [x [Hx E]].
    rewrite Forall_forall in Hf. destruct (Hf x Hx) as [H _]. apply Nat.ltb_lt in E. lia. }
  rewrite E. apply align_go_total. rewrite Forall_forall in *. intros x Hx.
  destruct (Hf x Hx) as [A [B C]]. repeat split; try assumption.
  apply (proj1 (proj2 (calc_duration_is_max (map snd l)))). apply in_map. exact Hx.
Qed.

(* ------------------------------------------------------------------------------------------ *)
(* the cut of split_gradient_at (mask `times < tp - t_eps`, the point (tp, interp), mask
   `times > tp + t_eps`) is the cut_left / cut_right pair of Base/PWL.v *)
Lemma split_t_eps_pos : 0 < split_t_eps.
Proof. reflexivity. Qed.

(* every corner time is clearly before the cut, at the cut, or clearly after it *)
Definition no_near (c : Q) (p : pwl) : Prop :=
  forall a, In a (times p) -> a < c - split_t_eps \/ a == c \/ c + split_t_eps < a.

Lemma no_near_tail c a p : no_near c (a :: p) -> no_near c p.
Proof. intros H x Hx. apply H. cbn [times map]. right. exact Hx. Qed.

Lemma before_none c (p : pwl) : (forall a, In a (times p) -> c <= a) -> before_cut c p = [].
Proof.
  pose proof split_t_eps_pos as He.
  induction p as [|[a v] p IH]; intro H; [reflexivity|]. unfold before_cut in *. cbn [filter fst].
  assert (Ha : c <= a) by (apply H; left; reflexivity).
  destruct (Qltb a (c - split_t_eps)) eqn:E; [apply Qltb_lt in E; lra|].
  apply IH. intros x Hx. apply H. right. exact Hx.
Qed.

Lemma after_all c (p : pwl) : (forall a, In a (times p) -> c + split_t_eps < a) -> after_cut c p = p.
Proof.
  induction p as [|[a v] p IH]; intro H; [reflexivity|]. unfold after_cut in *. cbn [filter fst].
  assert (Ha : c + split_t_eps < a) by (apply H; left; reflexivity).
  destruct (Qltb (c + split_t_eps) a) eqn:E; [|apply Qltb_ge in E; lra].
  f_equal. apply IH. intros x Hx. apply H. right. exact Hx.
Qed.

Lemma before_cut_cons c t v p : before_cut c ((t, v) :: p) =
  if Qltb t (c - split_t_eps) then (t, v) :: before_cut c p else before_cut c p.
Proof. reflexivity. Qed.
Lemma after_cut_cons c t v p : after_cut c ((t, v) :: p) =
  if Qltb (c + split_t_eps) t then (t, v) :: after_cut c p else after_cut c p.
Proof. reflexivity. Qed.

Lemma np_interp_skip c t0 v0 t1 v1 r : t0 < c -> t0 < t1 -> t1 <= c ->
  np_interp c ((t0, v0) :: (t1, v1) :: r) == np_interp c ((t1, v1) :: r).
Proof.
  intros H0 H01 H1. cbn [np_interp np_interp_go].
  destruct (Qle_bool c t0) eqn:E0; [apply Qle_bool_iff in E0; lra|].
  destruct (Qle_bool c t1) eqn:E1; [|reflexivity].
  apply Qle_bool_iff in E1. assert (Hc : c == t1) by lra.
  rewrite Hc. apply interp_right. lra.
Qed.

Lemma sorted_times_ge t0 v0 (r : pwl) : sorted_strict (times ((t0, v0) :: r)) ->
  forall a, In a (times r) -> t0 < a.
Proof. intros Hs a Ha. cbn [times map fst] in Hs. apply (sorted_lt_all _ _ Hs). exact Ha. Qed.

Lemma cut_left_eq c : forall p, p <> [] -> sorted_strict (times p) -> tfirst p <= c -> c <= tlast p ->
  no_near c p -> pwl_eq (before_cut c p ++ [(c, np_interp c p)]) (cut_left c p).
Proof.
  pose proof split_t_eps_pos as He.
  induction p as [|[t0 v0] r IH]; intros Hne Hs Hf Hl Hn.
  - congruence.
  - cbn [tfirst] in Hf. destruct r as [|[t1 v1] r].
    + cbn [tlast last fst] in Hl. assert (Hc : c == t0) by lra.
      rewrite before_none by (intros a Ha; cbn [times map fst In] in Ha; destruct Ha as [<-|[]]; lra).
      cbn [cut_left np_interp app].
      case_ltb c t0 E0; [lra|]. case_eqb c t0 E1; [|contradiction]. case_leb c t0 E2; [|lra].
      constructor; [cbn; split; [exact Hc|reflexivity]|constructor].
    + pose proof Hs as Hs'. apply sorted_cons2 in Hs'. destruct Hs' as [H01 Hst].
      rewrite tlast_cons2 in Hl.
      rewrite cut_left_cons2. case_ltb c t0 E0; [lra|]. case_eqb c t0 E1.
      * rewrite before_none.
        2:{ intros a Ha; cbn [times map fst In] in Ha; destruct Ha as [<-|Ha]; [lra|]. pose proof (sorted_times_ge _ _ _ Hs a Ha). lra. }
        cbn [np_interp app]. case_leb c t0 E2; [|lra].
        constructor; [cbn; split; [exact E1|reflexivity]|constructor].
      * assert (H0c : t0 < c) by lra.
        assert (Hk : t0 < c - split_t_eps).
        { destruct (Hn t0 (or_introl eq_refl)) as [H|[H|H]]; [exact H|lra|lra]. }
        rewrite before_cut_cons.
        destruct (Qltb t0 (c - split_t_eps)) eqn:Ek; [|apply Qltb_ge in Ek; lra].
        case_leb t1 c E2.
        -- cbn [app]. constructor; [split; reflexivity|].
           eapply pwl_eq_trans; [|apply IH; [discriminate|exact Hst|cbn [tfirst]; exact E2|exact Hl|eapply no_near_tail; exact Hn]].
           apply pwl_eq_app; [apply pwl_eq_refl|].
           constructor; [cbn [fst snd]; split; [reflexivity|apply np_interp_skip; assumption]|constructor].
        -- rewrite before_none.
           2:{ intros a Ha; cbn [times map fst In] in Ha; destruct Ha as [<-|Ha]; [lra|].
               assert (Hs2 : sorted_strict (times ((t1, v1) :: r))) by exact Hst.
               pose proof (sorted_times_ge _ _ _ Hs2 a Ha). lra. }
           cbn [app np_interp np_interp_go].
           case_leb c t0 E3; [lra|]. case_leb c t1 E4; [|lra].
           constructor; [split; reflexivity|]. constructor; [split; reflexivity|constructor].
Qed.

Lemma cut_right_eq c : forall p, sorted_strict (times p) -> tfirst p <= c -> c < tlast p ->
  no_near c p -> pwl_eq ((c, np_interp c p) :: after_cut c p) (cut_right c p).
Proof.
  pose proof split_t_eps_pos as He.
  induction p as [|[t0 v0] r IH]; intros Hs Hf Hl Hn.
  - cbn in Hf, Hl. lra.
  - cbn [tfirst] in Hf. destruct r as [|[t1 v1] r].
    + cbn [tlast last fst] in Hl. lra.
    + pose proof Hs as Hs'. apply sorted_cons2 in Hs'. destruct Hs' as [H01 Hst].
      rewrite tlast_cons2 in Hl.
      assert (Hafter : forall q : pwl, (forall a, In a (times q) -> c < a) -> no_near c q -> after_cut c q = q).
      { intros q Hq Hnq. apply after_all. intros a Ha. specialize (Hq a Ha).
        destruct (Hnq a Ha) as [H|[H|H]]; [lra|lra|exact H]. }
      rewrite cut_right_cons2. case_leb c t0 E0.
      * assert (Hc : c == t0) by lra.
        rewrite after_cut_cons.
        destruct (Qltb (c + split_t_eps) t0) eqn:Ek; [apply Qltb_lt in Ek; lra|].
        rewrite Hafter.
        2:{ intros a Ha. pose proof (sorted_times_ge _ _ _ Hs a Ha). lra. }
        2:{ eapply no_near_tail; exact Hn. }
        cbn [np_interp]. case_leb c t0 E2; [|lra].
        constructor; [cbn; split; [exact Hc|reflexivity]|apply pwl_eq_refl].
      * rewrite after_cut_cons.
        destruct (Qltb (c + split_t_eps) t0) eqn:Ek; [apply Qltb_lt in Ek; lra|].
        case_leb t1 c E2.
        -- eapply pwl_eq_trans; [|apply IH; [exact Hst|cbn [tfirst]; exact E2|exact Hl|eapply no_near_tail; exact Hn]].
           constructor; [cbn [fst snd]; split; [reflexivity|apply np_interp_skip; assumption]|apply pwl_eq_refl].
        -- rewrite Hafter.
           2:{ intros a Ha; cbn [times map fst In] in Ha; destruct Ha as [<-|Ha]; [lra|].
               assert (Hs2 : sorted_strict (times ((t1, v1) :: r))) by exact Hst.
               pose proof (sorted_times_ge _ _ _ Hs2 a Ha). lra. }
           2:{ eapply no_near_tail; exact Hn. }
           cbn [np_interp np_interp_go].
           case_leb c t0 E3; [lra|]. case_leb c t1 E4; [|lra].
           constructor; [split; reflexivity|apply pwl_eq_refl].
Qed.

(* the two corner lists built by split_gradient_at add up to the input away from the cut, and both
   carry the input's value at the cut *)
Theorem cut_sum c p t : sorted_strict (times p) -> tfirst p <= c -> c < tlast p -> no_near c p ->
  (~ t == c -> eval (before_cut c p ++ [(c, np_interp c p)]) t
               + eval ((c, np_interp c p) :: after_cut c p) t == eval p t) /\
  (t == c -> eval (before_cut c p ++ [(c, np_interp c p)]) t == eval p t /\
             eval ((c, np_interp c p) :: after_cut c p) t == eval p t).
Proof.
  intros Hs Hf Hl Hn.
  assert (Hl' : c <= tlast p) by lra.
  assert (Hne : p <> []) by (intro E; subst p; cbn in Hf, Hl; lra).
  pose proof (cut_left_eq c p Hne Hs Hf Hl' Hn) as HL. pose proof (cut_right_eq c p Hs Hf Hl Hn) as HR.
  rewrite (eval_pwl_eq _ _ t HL), (eval_pwl_eq _ _ t HR). split; intro Ht.
  - apply eval_cut; assumption.
  - split.
    + apply (proj1 (eval_cut_left c p Hs t)). lra.
    + apply (proj1 (eval_cut_right c p Hs t)). lra.
Qed.

(* ------------------------------------------------------------------------------------------ *)
(* make_extended_trapezoid: what a successful call returns *)
Lemma make_ext_trap_ok s ch sk p g : make_ext_trap s ch sk p = OK g ->
  let d := to_raster (raster s) (hd 0 (map fst p)) in
  e_ch g = ch /\ e_delay g = d /\ e_tt g = map (fun t => t - d) (map fst p) /\ e_wf g = map snd p /\
  e_sdur g = last (e_tt g) 0 /\ e_first g = hd 0 (map snd p) /\ e_last g = last (map snd p) 0 /\
  e_area g = Some (area (combine (e_tt g) (e_wf g))) /\ p <> [].
Proof.
  intro H. unfold make_ext_trap in H.
  repeat (match type of H with (if ?b then _ else _) = _ => destruct b eqn:?; [discriminate H|] end).
  inversion H; subst; cbn. repeat split; try reflexivity.
  intro E. subst p. cbn in *. discriminate.
Qed.

Lemma to_raster_zero r x : x == 0 -> to_raster r x == 0.
Proof.
  intro H. unfold to_raster.
  assert (H0 : x / r == 0) by (unfold Qdiv; rewrite H; ring).
  assert (E : rnd_he (x / r) = rnd_he 0) by (apply rnd_he_Proper; exact H0).
  rewrite E. change (rnd_he 0) with 0%Z. ring.
Qed.

Lemma is_arb_head_zero r t tl : t == 0 -> is_arb r (t :: tl) = false.
Proof.
  intro H. unfold is_arb. cbn [is_arb_from]. apply andb_false_iff. left.
  assert (E : Qabs (t / r + (1 # 2) - inject_Z 1) == 1 # 2).
  { setoid_replace (t / r + (1 # 2) - inject_Z 1) with (- (1 # 2)); [reflexivity|].
    unfold Qdiv. rewrite H. change (inject_Z 1) with 1. ring. }
  rewrite E. reflexivity.
Qed.

Lemma combine_sub d (p : pwl) : d == 0 ->
  pwl_eq (combine (map (fun t => t - d) (map fst p)) (map snd p)) p.
Proof.
  intro Hd. induction p as [|[t v] p IH]; cbn; constructor; [|exact IH].
  cbn. split; [rewrite Hd; ring|reflexivity].
Qed.

Lemma corners_of_mk s ch sk p g : make_ext_trap s ch sk p = OK g -> hd 0 (map fst p) == 0 ->
  pwl_eq (egrad_corners (raster s) g) p.
Proof.
  intros H H0. apply make_ext_trap_ok in H. cbv zeta in H.
  destruct H as (_ & _ & Htt & Hwf & _ & _ & _ & _ & Hne).
  pose proof (to_raster_zero (raster s) _ H0) as Hd.
  unfold egrad_corners. rewrite Htt, Hwf.
  destruct p as [|[t0 v0] p]; [congruence|]. cbn [map fst hd] in *.
  rewrite is_arb_head_zero by (rewrite Hd, H0; ring).
  apply (combine_sub _ ((t0, v0) :: p) Hd).
Qed.

Lemma egrad_corners_with_delay r e d : egrad_corners r (with_delay e d) = egrad_corners r e.
Proof. reflexivity. Qed.

Lemma last_map_app_single {A B} (f : A -> B) l x d : last (map f (l ++ [x])) d = f x.
Proof. rewrite map_app. cbn [map]. apply last_last. Qed.

(* ------------------------------------------------------------------------------------------ *)
(* the `round(…, 6)` work-arounds are the identity on whole numbers of microseconds *)
Definition us (x : Q) : Prop := exists k : Z, x == inject_Z k * (1 # 1000000).

Lemma us_plus a b : us a -> us b -> us (a + b).
Proof. intros [k Hk] [j Hj]. exists (k + j)%Z. rewrite inject_Z_plus, Hk, Hj. ring. Qed.
Lemma us_zero : us 0.
Proof. exists 0%Z. reflexivity. Qed.
Lemma us_minus a b : us a -> us b -> us (a - b).
Proof. intros [k Hk] [j Hj]. exists (k - j)%Z. unfold Z.sub. rewrite inject_Z_plus, inject_Z_opp, Hk, Hj. ring. Qed.

Lemma round_dec_us x : us x -> round_dec split_round_digits x == x.
Proof.
  intros [k Hk]. unfold round_dec. rewrite Qred_correct.
  assert (P : pow10 split_round_digits = 1000000 # 1) by reflexivity.
  assert (P' : pow10 (- split_round_digits) = 1 # 1000000) by reflexivity.
  rewrite P, P'.
  assert (E : rnd_he (x * (1000000 # 1)) = rnd_he (inject_Z k)).
  { apply rnd_he_Proper. rewrite Hk. field. }
  rewrite E, rnd_he_inject. symmetry. exact Hk.
Qed.

Lemma round_times_id (p : pwl) : Forall us (times p) -> pwl_eq (round_times p) p.
Proof.
  induction p as [|[t v] p IH]; intro H; [constructor|]. cbn [times map fst] in H.
  inversion H; subst. cbn [round_times map fst snd]. constructor; [|apply IH; assumption].
  cbn [fst snd]. split; [apply round_dec_us; assumption|reflexivity].
Qed.

(* ------------------------------------------------------------------------------------------ *)
(* transport of the side conditions along pwl_eq *)
Lemma pwl_eq_tfirst p q : pwl_eq p q -> tfirst p == tfirst q.
Proof. unfold pwl_eq. destruct 1 as [|[a v] [b w] p q [H _] _]; [reflexivity|exact H]. Qed.

Lemma pwl_eq_vfirst p q : pwl_eq p q -> vfirst p == vfirst q.
Proof. unfold pwl_eq. destruct 1 as [|[a v] [b w] p q [_ H] _]; [reflexivity|exact H]. Qed.

Lemma pwl_eq_tlast p q : pwl_eq p q -> tlast p == tlast q.
Proof.
  unfold pwl_eq. induction 1 as [|[a v] [b w] p q [H _] Hr IH]; [reflexivity|].
  destruct Hr as [|x y p q Hxy Hr]; [exact H|]. rewrite !tlast_cons2. exact IH.
Qed.

Lemma pwl_eq_times_in p q : pwl_eq p q -> forall a, In a (times q) -> exists b, In b (times p) /\ b == a.
Proof.
  unfold pwl_eq. induction 1 as [|[a v] [b w] p q [H _] Hr IH]; intros x Hx; [contradiction|].
  cbn [times map fst In] in *. destruct Hx as [<-|Hx].
  - exists a. split; [left; reflexivity|exact H].
  - destruct (IH x Hx) as [y [Hy Hyx]]. exists y. split; [right; exact Hy|exact Hyx].
Qed.

Lemma no_near_pwl_eq c c' p q : pwl_eq p q -> c == c' -> no_near c p -> no_near c' q.
Proof.
  intros H Hc Hn a Ha. destruct (pwl_eq_times_in p q H a Ha) as [b [Hb Hba]].
  destruct (Hn b Hb) as [X|[X|X]]; [left|right; left|right; right]; lra.
Qed.

Lemma tfirst_shift d p : p <> [] -> tfirst (shift d p) == tfirst p + d.
Proof. destruct p as [|[t v] p]; [congruence|]. intros _. reflexivity. Qed.
Lemma vfirst_shift d p : vfirst (shift d p) = vfirst p.
Proof. destruct p as [|[t v] p]; reflexivity. Qed.
Lemma tlast_shift d p : p <> [] -> tlast (shift d p) == tlast p + d.
Proof.
  induction p as [|[t v] p IH]; [congruence|]. intros _.
  destruct p as [|[t1 v1] p]; [reflexivity|].
  change (shift d ((t, v) :: (t1, v1) :: p)) with ((t + d, v) :: shift d ((t1, v1) :: p)).
  change (shift d ((t1, v1) :: p)) with ((t1 + d, v1) :: shift d p) at 1. rewrite !tlast_cons2.
  change ((t1 + d, v1) :: shift d p) with (shift d ((t1, v1) :: p)). apply IH. discriminate.
Qed.

(* a zero-valued corner in front of a list that starts at zero later does not change the function *)
Lemma eval_prepend_zero a p t : sorted_strict (times p) -> p <> [] -> a < tfirst p -> vfirst p == 0 ->
  eval ((a, 0) :: p) t == eval p t.
Proof.
  intros Hs Hne Ha Hv. destruct p as [|[t1 v1] r]; [congruence|]. cbn [tfirst vfirst] in *.
  destruct (Qlt_le_dec t t1) as [H|H].
  - rewrite (eval_outside_left ((t1, v1) :: r)) by (cbn [tfirst]; exact H).
    rewrite eval_cons2. qb; try reflexivity; [|lra].
    unfold interp, slope. rewrite Hv. ring.
  - apply eval_tail; [|exact H]. cbn [times map fst] in *. apply sorted_cons2. split; assumption.
Qed.

(* ------------------------------------------------------------------------------------------ *)
(* the two events built from the cut lists *)
Lemma before_cut_head c t0 v0 r l : t0 < c - split_t_eps ->
  exists q, before_cut c ((t0, v0) :: r) ++ l = (t0, v0) :: q.
Proof.
  intro H. rewrite before_cut_cons.
  destruct (Qltb t0 (c - split_t_eps)) eqn:E; [|apply Qltb_ge in E; lra].
  eexists. reflexivity.
Qed.

Lemma split_parts s ch cs c e1 e2 D :
  sorted_strict (times cs) -> tfirst cs == 0 -> split_t_eps < c -> c < tlast cs -> no_near c cs ->
  make_ext_trap s ch true (before_cut c cs ++ [(c, np_interp c cs)]) = OK e1 ->
  make_ext_trap s ch true (shift (- c) ((c, np_interp c cs) :: after_cut c cs)) = OK e2 ->
  let r := raster s in
  let g1 := GExt (with_delay e1 D) in
  let g2 := GExt (with_delay e2 (D + c)) in
  (forall t, ~ t == D + c -> eval (to_pwl r g1) t + eval (to_pwl r g2) t == eval (shift D cs) t) /\
  (forall t, t == D + c -> eval (to_pwl r g1) t == eval (shift D cs) t /\
                           eval (to_pwl r g2) t == eval (shift D cs) t) /\
  D + e_sdur e1 == D + c /\ (D + c) + hd 0 (e_tt e2) == D + c.
Proof.
  intros Hs Hf Hc Hl Hn H1 H2 r g1 g2.
  pose proof split_t_eps_pos as He.
  assert (Hne : cs <> []) by (intro E; subst cs; cbn in Hl; lra).
  destruct cs as [|[t0 v0] cr]; [congruence|]. cbn [tfirst] in Hf.
  (* heads of the two corner lists are at time zero *)
  destruct (before_cut_head c t0 v0 cr [(c, np_interp c ((t0, v0) :: cr))]) as [q1 Hq1]; [lra|].
  assert (Hh1 : hd 0 (map fst (before_cut c ((t0, v0) :: cr) ++ [(c, np_interp c ((t0, v0) :: cr))])) == 0).
  { rewrite Hq1. cbn. exact Hf. }
  assert (Hh2 : hd 0 (map fst (shift (- c) ((c, np_interp c ((t0, v0) :: cr)) :: after_cut c ((t0, v0) :: cr)))) == 0).
  { cbn. ring. }
  pose proof (corners_of_mk _ _ _ _ _ H1 Hh1) as C1. pose proof (corners_of_mk _ _ _ _ _ H2 Hh2) as C2.
  fold r in C1, C2.
  set (cs := (t0, v0) :: cr) in *.
  set (P1 := before_cut c cs ++ [(c, np_interp c cs)]) in *.
  set (P2 := (c, np_interp c cs) :: after_cut c cs) in *.
  assert (Hf' : tfirst cs <= c) by (subst cs; cbn [tfirst]; lra).
  assert (E1 : forall t, eval (to_pwl r g1) t == eval P1 (t - D)).
  { intro t. subst g1. cbn [to_pwl e_delay with_delay]. rewrite egrad_corners_with_delay.
    rewrite (eval_pwl_eq _ _ t (pwl_eq_shift D D _ _ (Qeq_refl D) C1)). apply eval_shift. }
  assert (E2 : forall t, eval (to_pwl r g2) t == eval P2 (t - D)).
  { intro t. subst g2. cbn [to_pwl e_delay with_delay]. rewrite egrad_corners_with_delay.
    rewrite (eval_pwl_eq _ _ t (pwl_eq_shift (D + c) (D + c) _ _ (Qeq_refl _) C2)).
    rewrite eval_shift, eval_shift. apply eval_Proper. ring. }
  assert (E0 : forall t, eval (shift D cs) t == eval cs (t - D)) by (intro t; apply eval_shift).
  split; [|split; [|split]].
  - intros t Ht. rewrite E1, E2, E0.
    apply (proj1 (cut_sum c cs (t - D) Hs Hf' Hl Hn)). intro E. apply Ht. lra.
  - intros t Ht. rewrite E1, E2, E0.
    apply (proj2 (cut_sum c cs (t - D) Hs Hf' Hl Hn)). lra.
  - apply make_ext_trap_ok in H1. cbv zeta in H1.
    destruct H1 as (_ & _ & Htt & _ & Hsd & _).
    rewrite Hsd, Htt. pose proof (to_raster_zero (raster s) _ Hh1) as Z1.
    set (d1 := to_raster (raster s) (hd 0 (map fst P1))) in *.
    unfold P1. rewrite map_app. change (map fst [(c, np_interp c cs)]) with [c].
    rewrite last_map_app_single. rewrite Z1. ring.
  - apply make_ext_trap_ok in H2. cbv zeta in H2.
    destruct H2 as (_ & _ & Htt & _).
    rewrite Htt. pose proof (to_raster_zero (raster s) _ Hh2) as Z2.
    set (d2 := to_raster (raster s) (hd 0 (map fst (shift (- c) P2)))) in *.
    unfold P2. cbn [shift map fst hd]. rewrite Z2. ring.
Qed.

(* ------------------------------------------------------------------------------------------ *)
(* split_core = split_gradient_at.py:112-158 *)
Theorem split_core_sum s ch delay corners tp g1 g2 :
  corners <> [] -> sorted_strict (times corners) -> tfirst corners == 0 ->
  us delay -> Forall us (times corners) -> us tp ->
  0 <= delay -> split_t_eps < tp -> ~ tp == delay ->
  (vfirst corners == 0 \/ delay == 0) ->
  no_near tp (shift delay corners) ->
  split_core s ch delay corners tp = OK (STwo g1 g2) ->
  let r := raster s in
  (forall t, ~ t == tp ->
     eval (to_pwl r (GExt g1)) t + eval (to_pwl r (GExt g2)) t == eval (shift delay corners) t) /\
  (forall t, t == tp -> eval (to_pwl r (GExt g1)) t == eval (shift delay corners) t /\
                        eval (to_pwl r (GExt g2)) t == eval (shift delay corners) t) /\
  e_delay g1 + e_sdur g1 == tp /\ e_delay g2 + hd 0 (e_tt g2) == tp.
Proof.
  intros Hne Hs Hf Ud Uc Ut Hd Ht Hnd Hv Hn H r.
  pose proof split_t_eps_pos as He.
  unfold split_core in H.
  destruct (Qle_bool (delay + tlast corners) tp) eqn:Eend; [discriminate|]. apply Qleb_gt in Eend.
  destruct (Qltb tp delay) eqn:Eth.
  - (* the cut goes through the delay *)
    apply Qltb_lt in Eth.
    set (c1 := (0, 0) :: shift delay corners) in *.
    assert (Hv0 : vfirst corners == 0) by (destruct Hv as [X|X]; [exact X|lra]).
    assert (Hs1 : sorted_strict (times c1)).
    { subst c1. destruct corners as [|[t0 v0] cr]; [congruence|]. cbn [tfirst] in Hf.
      pose proof (sorted_shift delay _ Hs) as Hss. cbn [shift map times fst snd] in *.
      apply sorted_cons2. split; [lra|exact Hss]. }
    assert (U1 : Forall us (times c1)).
    { subst c1. cbn [times map fst]. constructor; [apply us_zero|].
      rewrite times_shift. rewrite Forall_forall in *. intros x Hx. apply in_map_iff in Hx.
      destruct Hx as [y [<- Hy]]. apply us_plus; [apply Uc; exact Hy|exact Ud]. }
    pose proof (round_times_id c1 U1) as R1.
    set (cs := round_times c1) in *.
    assert (Hcs : sorted_strict (times cs)) by (apply (pwl_eq_times_sorted c1 cs); [apply pwl_eq_sym; exact R1|exact Hs1]).
    assert (Hfc : tfirst cs == 0) by (rewrite (pwl_eq_tfirst _ _ R1); reflexivity).
    assert (Hlc : tp < tlast cs).
    { rewrite (pwl_eq_tlast _ _ R1). subst c1.
      destruct corners as [|[t0 v0] cr]; [congruence|].
      change (shift delay ((t0, v0) :: cr)) with ((t0 + delay, v0) :: shift delay cr).
      rewrite tlast_cons2. change ((t0 + delay, v0) :: shift delay cr) with (shift delay ((t0, v0) :: cr)).
      rewrite tlast_shift by discriminate. lra. }
    assert (Hnc : no_near tp cs).
    { apply (no_near_pwl_eq tp tp c1 cs); [apply pwl_eq_sym; exact R1|reflexivity|].
      subst c1. intros a Ha. cbn [times map fst In] in Ha. destruct Ha as [<-|Ha]; [left; lra|].
      apply Hn. exact Ha. }
    destruct (make_ext_trap s ch true (before_cut tp cs ++ [(tp, np_interp tp cs)])) as [e1|] eqn:M1; [|discriminate].
    destruct (make_ext_trap s ch true (shift (- tp) ((tp, np_interp tp cs) :: after_cut tp cs))) as [e2|] eqn:M2; [|discriminate].
    inversion H; subst g1 g2.
    destruct (split_parts s ch cs tp e1 e2 0 Hcs Hfc Ht Hlc Hnc M1 M2) as (A & B & C & D).
    assert (E0 : forall t, eval (shift 0 cs) t == eval (shift delay corners) t).
    { intro t. rewrite eval_shift. rewrite (eval_pwl_eq _ _ (t - 0) R1). subst c1.
      rewrite eval_prepend_zero.
      - apply eval_Proper. ring.
      - apply sorted_shift. exact Hs.
      - destruct corners; [congruence|discriminate].
      - rewrite tfirst_shift by exact Hne. lra.
      - rewrite vfirst_shift. exact Hv0. }
    split; [|split; [|split]].
    + intros t Hne'. rewrite <- E0. apply A. intro X. apply Hne'. lra.
    + intros t Heq. rewrite <- E0. apply B. lra.
    + cbn [e_delay e_sdur with_delay]. lra.
    + cbn [e_delay e_tt with_delay]. lra.
  - (* the cut goes through the gradient *)
    apply Qltb_ge in Eth.
    pose proof (round_times_id corners Uc) as R1.
    set (cs := round_times corners) in *.
    assert (Hcs : sorted_strict (times cs)) by (apply (pwl_eq_times_sorted corners cs); [apply pwl_eq_sym; exact R1|exact Hs]).
    assert (Hfc : tfirst cs == 0) by (rewrite (pwl_eq_tfirst _ _ R1); exact Hf).
    assert (Hlc : tp - delay < tlast cs) by (rewrite (pwl_eq_tlast _ _ R1); lra).
    assert (Hn0 : no_near (tp - delay) corners).
    { intros a Ha. assert (Hin : In (a + delay) (times (shift delay corners))).
      { rewrite times_shift. apply in_map_iff. exists a. split; [reflexivity|exact Ha]. }
      destruct (Hn _ Hin) as [X|[X|X]]; [left|right; left|right; right]; lra. }
    assert (Hnc : no_near (tp - delay) cs).
    { apply (no_near_pwl_eq (tp - delay) (tp - delay) corners cs); [apply pwl_eq_sym; exact R1|reflexivity|exact Hn0]. }
    assert (Hc : split_t_eps < tp - delay).
    { destruct corners as [|[t0 v0] cr]; [congruence|]. cbn [tfirst] in Hf.
      destruct (Hn0 t0 (or_introl eq_refl)) as [X|[X|X]]; lra. }
    destruct (make_ext_trap s ch true (before_cut (tp - delay) cs ++ [(tp - delay, np_interp (tp - delay) cs)])) as [e1|] eqn:M1; [|discriminate].
    destruct (make_ext_trap s ch true (shift (- (tp - delay)) ((tp - delay, np_interp (tp - delay) cs) :: after_cut (tp - delay) cs))) as [e2|] eqn:M2; [|discriminate].
    inversion H; subst g1 g2.
    destruct (split_parts s ch cs (tp - delay) e1 e2 delay Hcs Hfc Hc Hlc Hnc M1 M2) as (A & B & C & D).
    assert (E0 : forall t, eval (shift delay cs) t == eval (shift delay corners) t).
    { intro t. apply eval_pwl_eq. apply pwl_eq_shift; [reflexivity|exact R1]. }
    split; [|split; [|split]].
    + intros t Hne'. rewrite <- E0. apply A. intro X. apply Hne'. lra.
    + intros t Heq. rewrite <- E0. apply B. lra.
    + cbn [e_delay e_sdur with_delay]. lra.
    + cbn [e_delay e_tt with_delay]. lra.
Qed.

(* ------------------------------------------------------------------------------------------ *)
(* split_gradient_at on trapezoids / triangles and on extended trapezoids *)
Global Instance us_Proper : Proper (Qeq ==> iff) us.
Proof. intros a b H. unfold us. split; intros [k Hk]; exists k; [rewrite <- H|rewrite H]; exact Hk. Qed.

Lemma us_to_raster r x : us r -> us (to_raster r x).
Proof.
  intros [k Hk]. unfold to_raster. exists (rnd_he (x / r) * k)%Z.
  rewrite inject_Z_mult. rewrite Hk at 2. ring.
Qed.

Lemma us_split_time_point r tp : us r -> us (split_time_point r tp).
Proof.
  intro H. unfold split_time_point. fold (to_raster r tp).
  rewrite (round_dec_us _ (us_to_raster r tp H)). apply us_to_raster. exact H.
Qed.

Lemma to_raster_id r x k : 0 < r -> x == inject_Z k * r -> to_raster r x == x.
Proof.
  intros Hr Hx. unfold to_raster.
  assert (E : rnd_he (x / r) = rnd_he (inject_Z k)) by (apply rnd_he_Proper; rewrite Hx; field; lra).
  rewrite E, rnd_he_inject. symmetry. exact Hx.
Qed.

Lemma trap_corners_props (t : trap) : 0 < t_rise t -> 0 <= t_flat t -> 0 < t_fall t ->
  trap_corners t <> [] /\ sorted_strict (times (trap_corners t)) /\ tfirst (trap_corners t) == 0 /\
  vfirst (trap_corners t) == 0.
Proof.
  intros Hr Hf Hl. unfold trap_corners.
  destruct (Qeq_bool (t_flat t) 0) eqn:E.
  - apply Qeq_bool_iff in E. split; [discriminate|]. split; [|split; reflexivity].
    cbn [times map fst]. unfold sorted_strict. cbn [all_consec]. repeat split; lra.
  - apply Qeqb_neq in E. split; [discriminate|]. split; [|split; reflexivity].
    cbn [times map fst]. unfold sorted_strict. cbn [all_consec]. repeat split; lra.
Qed.

Lemma trap_corners_us (t : trap) : us (t_rise t) -> us (t_flat t) -> us (t_fall t) ->
  Forall us (times (trap_corners t)).
Proof.
  intros Ur Uf Ul. unfold trap_corners. destruct (Qeq_bool (t_flat t) 0); cbn [times map fst];
    repeat (constructor; [try apply us_zero; repeat apply us_plus; assumption|]); constructor.
Qed.

Theorem split_at_trap_sum s t tp g1 g2 :
  let r := raster s in
  let t' := round_trap r t in
  let c := split_time_point r tp in
  us r -> 0 < t_rise t' -> 0 <= t_flat t' -> 0 < t_fall t' -> 0 <= t_delay t' ->
  split_t_eps < c -> ~ c == t_delay t' -> no_near c (to_pwl r (GTrap t')) ->
  split_gradient_at s (GTrap t) tp = OK (STwo g1 g2) ->
  (forall x, ~ x == c ->
     eval (to_pwl r (GExt g1)) x + eval (to_pwl r (GExt g2)) x == eval (to_pwl r (GTrap t')) x) /\
  (forall x, x == c -> eval (to_pwl r (GExt g1)) x == eval (to_pwl r (GTrap t')) x /\
                       eval (to_pwl r (GExt g2)) x == eval (to_pwl r (GTrap t')) x) /\
  e_delay g1 + e_sdur g1 == c /\ e_delay g2 + hd 0 (e_tt g2) == c.
Proof.
  intros r t' c Ur Hr Hf Hl Hd Hc Hnd Hn H.
  cbn [split_gradient_at] in H. fold r t' c in H.
  destruct (trap_corners_props t' Hr Hf Hl) as (P1 & P2 & P3 & P4).
  cbn [to_pwl] in *.
  apply (split_core_sum s (t_ch t) (t_delay t') (trap_corners t') c g1 g2); try assumption.
  - subst t'. cbn [round_trap t_delay]. apply us_to_raster. exact Ur.
  - apply trap_corners_us; subst t'; cbn [round_trap t_rise t_flat t_fall]; apply us_to_raster; exact Ur.
  - apply us_split_time_point. exact Ur.
  - left. exact P4.
Qed.

Theorem split_at_ext_sum s e tp g1 g2 :
  let r := raster s in
  let c := split_time_point r tp in
  let corners := combine (e_tt e) (e_wf e) in
  arb_test r (e_tt e) = false -> is_arb r (e_tt e) = false ->
  corners <> [] -> sorted_strict (times corners) -> tfirst corners == 0 ->
  us r -> us (e_delay e) -> Forall us (times corners) -> 0 <= e_delay e ->
  split_t_eps < c -> ~ c == e_delay e ->
  (vfirst corners == 0 \/ e_delay e == 0) ->
  no_near c (to_pwl r (GExt e)) ->
  split_gradient_at s (GExt e) tp = OK (STwo g1 g2) ->
  (forall x, ~ x == c ->
     eval (to_pwl r (GExt g1)) x + eval (to_pwl r (GExt g2)) x == eval (to_pwl r (GExt e)) x) /\
  (forall x, x == c -> eval (to_pwl r (GExt g1)) x == eval (to_pwl r (GExt e)) x /\
                       eval (to_pwl r (GExt g2)) x == eval (to_pwl r (GExt e)) x) /\
  e_delay g1 + e_sdur g1 == c /\ e_delay g2 + hd 0 (e_tt g2) == c.
Proof.
  intros r c corners Ha Hb Hne Hs Hf Ur Ud Uc Hd Hc Hnd Hv Hn H.
  cbn [split_gradient_at] in H. fold r c in H. rewrite Ha in H. fold corners in H.
  cbn [to_pwl] in *. unfold egrad_corners in *. rewrite Hb in *. fold corners in Hn |- *.
  apply (split_core_sum s (e_ch e) (e_delay e) corners c g1 g2); try assumption.
  apply us_split_time_point. exact Ur.
Qed.

(* ------------------------------------------------------------------------------------------ *)
(* split_gradient: ramp up + flat top + ramp down *)
Lemma eval2 t0 v0 t1 v1 t :
  eval [(t0, v0); (t1, v1)] t =
  if Qltb t t0 then 0 else if Qle_bool t t1 then interp t0 v0 t1 v1 t
  else if Qeq_bool t t1 then v1 else 0.
Proof. rewrite eval_cons2, eval_single. reflexivity. Qed.

Theorem split3_sum s t up flat down t' :
  let r := raster s in
  split_gradient s (GTrap t) = (OK (up, flat, down), t') ->
  let tr := round_trap r t in
  0 < t_rise tr -> 0 < t_flat tr -> 0 < t_fall tr ->
  t_delay t + t_rise t + t_flat t + t_fall t == t_delay tr + t_rise tr + t_flat tr + t_fall tr ->
  let j1 := t_delay tr + t_rise tr in
  let j2 := j1 + t_flat tr in
  t' = GTrap tr /\
  (forall x, ~ x == j1 -> ~ x == j2 ->
     eval (to_pwl r (GExt up)) x + eval (to_pwl r (GExt flat)) x + eval (to_pwl r (GExt down)) x
     == eval (to_pwl r (GTrap tr)) x) /\
  (eval (to_pwl r (GExt up)) j1 == t_amp t /\ eval (to_pwl r (GExt flat)) j1 == t_amp t /\
   eval (to_pwl r (GExt down)) j1 == 0 /\ eval (to_pwl r (GTrap tr)) j1 == t_amp t) /\
  (eval (to_pwl r (GExt up)) j2 == 0 /\ eval (to_pwl r (GExt flat)) j2 == t_amp t /\
   eval (to_pwl r (GExt down)) j2 == t_amp t /\ eval (to_pwl r (GTrap tr)) j2 == t_amp t).
Proof.
  intros r H tr Hr Hf Hl Htot j1 j2.
  cbn [split_gradient] in H. fold r tr in H.
  destruct (make_ext_trap s (t_ch t) true [(0, 0); (t_rise tr, t_amp t)]) as [e1|] eqn:M1; [|inversion H].
  destruct (make_ext_trap s (t_ch t) true [(0, t_amp t); (t_fall tr, 0)]) as [e3|] eqn:M3; [|inversion H].
  destruct (make_ext_trap s (t_ch t) true [(0, t_amp t); (t_flat tr, t_amp t)]) as [e2|] eqn:M2; [|inversion H].
  inversion H; subst up flat down t'. split; [reflexivity|].
  pose proof (corners_of_mk _ _ _ _ _ M1 (Qeq_refl 0)) as C1.
  pose proof (corners_of_mk _ _ _ _ _ M2 (Qeq_refl 0)) as C2.
  pose proof (corners_of_mk _ _ _ _ _ M3 (Qeq_refl 0)) as C3. fold r in C1, C2, C3.
  set (D := t_delay tr) in *. set (R := t_rise tr) in *. set (Fl := t_flat tr) in *.
  set (Fa := t_fall tr) in *. set (A := t_amp t) in *.
  assert (E1 : forall x, eval (to_pwl r (GExt (with_delay e1 D))) x == eval [(0, 0); (R, A)] (x - D)).
  { intro x. cbn [to_pwl e_delay with_delay]. rewrite egrad_corners_with_delay.
    rewrite (eval_pwl_eq _ _ x (pwl_eq_shift D D _ _ (Qeq_refl D) C1)). apply eval_shift. }
  assert (E2 : forall x, eval (to_pwl r (GExt (with_delay e2 (D + R)))) x == eval [(0, A); (Fl, A)] (x - D - R)).
  { intro x. cbn [to_pwl e_delay with_delay]. rewrite egrad_corners_with_delay.
    rewrite (eval_pwl_eq _ _ x (pwl_eq_shift (D + R) (D + R) _ _ (Qeq_refl _) C2)).
    rewrite eval_shift. apply eval_Proper. ring. }
  assert (E3 : forall x, eval (to_pwl r (GExt (with_delay e3 (t_delay t + t_rise t + t_flat t + t_fall t - Fa)))) x
                         == eval [(0, A); (Fa, 0)] (x - D - R - Fl)).
  { intro x. cbn [to_pwl e_delay with_delay]. rewrite egrad_corners_with_delay.
    rewrite (eval_pwl_eq _ _ x (pwl_eq_shift _ _ _ _ (Qeq_refl _) C3)).
    rewrite eval_shift. apply eval_Proper. rewrite Htot. ring. }
  assert (E0 : forall x, eval (to_pwl r (GTrap tr)) x
                         == eval [(0, 0); (R, A); (R + Fl, A); (R + Fl + Fa, 0)] (x - D)).
  { intro x. cbn [to_pwl]. fold D. rewrite eval_shift. unfold trap_corners. fold R Fl Fa.
    destruct (Qeq_bool Fl 0) eqn:E; [apply Qeq_bool_iff in E; lra|].
    replace (t_amp tr) with A by reflexivity. reflexivity. }
  subst j1 j2.
  try change (to_raster r (t_delay t)) with D. try change (to_raster r (t_rise t)) with R.
  try change (to_raster r (t_fall t)) with Fa. try change (to_raster r (t_flat t)) with Fl.
  split; [|split].
  - intros x N1 N2. rewrite E1, E2, E3, E0.
    rewrite !eval2. rewrite !eval_cons2, eval_single.
    qb; try lra; unfold interp, slope; try (field; lra).
  - rewrite E1, E2, E3, E0. rewrite !eval2. rewrite !eval_cons2, eval_single.
    repeat split; qb; try lra; unfold interp, slope; try (field; lra).
  - rewrite E1, E2, E3, E0. rewrite !eval2. rewrite !eval_cons2, eval_single.
    repeat split; qb; try lra; unfold interp, slope; try (field; lra).
Qed.
