(* Proofs/KSpaceEvents.v — C09: the pulse list that rf_times collects block by block is strictly time-sorted with
   positive times whenever every RF centre lies inside its block; this discharges the hypotheses of the
   period-loop bridge (C09_period_loop) from an input-level condition on the blocks. *)
From Coq Require Import ZArith QArith Qabs Lia Lqa List Bool Arith Setoid Morphisms.
From PV Require Import Base.QUtil Base.PWL Gen.GenExport Model.Export Model.KSpace
  Proofs.KSpaceProofs Proofs.KSpaceBridge.
Import ListNotations.
Open Scope Q_scope.

(* offset of the RF centre from the block start *)
Definition rf_offset (rf : rfev) : Q := rf_delay rf + rf_center (rf_t rf) (rf_mag rf).

(* every block has a non-negative duration and, if it plays an RF pulse, the centre of that pulse lies
   strictly after the block start and not after the block end *)
Definition rf_inside (bs : list kblock) : Prop :=
  Forall (fun b => 0 <= b_dur (kb b) /\
                   match kb_rf b with Some rf => 0 < rf_offset rf /\ rf_offset rf <= b_dur (kb b) | None => True end) bs.

Lemma rf_events_after : forall bs start, rf_inside bs -> Forall (fun e : ev => start < fst e) (rf_events start bs).
Proof.
  induction bs as [|b r IH]; intros start H; [constructor|].
  inversion H as [|? ? [Hd Hb] Hr]; subst. cbn [rf_events].
  assert (Hrest : Forall (fun e : ev => start < fst e) (rf_events (Qred (start + b_dur (kb b))) r)).
  { eapply Forall_impl; [|apply (IH _ Hr)]. cbn beta. intros e He. rewrite Qred_correct in He. lra. }
  destruct (kb_rf b) as [rf|]; [|exact Hrest].
  cbn [app]. constructor; [|exact Hrest]. cbn [fst]. fold (rf_offset rf). lra.
Qed.

Theorem rf_events_sorted : forall bs start, rf_inside bs -> ev_sorted_strict (rf_events start bs).
Proof.
  induction bs as [|b r IH]; intros start H; [exact I|].
  inversion H as [|? ? [Hd Hb] Hr]; subst. cbn [rf_events].
  destruct (kb_rf b) as [rf|]; [|apply IH; exact Hr].
  cbn [app ev_sorted_strict]. split; [|apply IH; exact Hr].
  eapply Forall_impl; [|apply (rf_events_after r _ Hr)]. cbn beta. cbn [fst]. fold (rf_offset rf).
  intros e He. rewrite Qred_correct in He. lra.
Qed.

(* the whole chain for a block list: literal loop of the code on the pulses rf_times collects = specification *)
Theorem k_loop_blocks_is_spec M bs t : rf_inside bs ->
  k_loop M (rf_events 0 bs) t == spec_k M (upto t (rf_events 0 bs)) t.
Proof.
  intro H. apply k_loop_is_spec; [apply rf_events_sorted; exact H|apply rf_events_after; exact H].
Qed.
