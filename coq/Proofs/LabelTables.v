(* Proofs/LabelTables.v — facts about the tables read from the source into Gen/GenLabels.v
   (supported labels, trigger type/channel lists, extension names and headers, file scales).
   Each is a finite check over the generated definitions: it is re-proved whenever the source changes. *)
From Coq Require Import List Bool ZArith QArith String Lia.
From PV Require Import Gen.GenLabels Model.Seq.
Import ListNotations.
Open Scope Z_scope.

Fixpoint nodupb (l : list string) : bool :=
  match l with
  | [] => true
  | x :: r => negb (existsb (String.eqb x) r) && nodupb r
  end.

Lemma nodupb_sound l : nodupb l = true -> NoDup l.
Proof.
  induction l as [|x r IH]; cbn; intro H; constructor; apply andb_true_iff in H; destruct H as [H1 H2].
  - intro Hin. apply negb_true_iff in H1.
    assert (existsb (String.eqb x) r = true) by (apply existsb_exists; exists x; split; [exact Hin|apply String.eqb_refl]).
    congruence.
  - apply IH. exact H2.
Qed.

Fixpoint idx (x : string) (l : list string) : option nat :=
  match l with
  | [] => None
  | y :: r => if String.eqb x y then Some O else option_map S (idx x r)
  end.

Lemma idx_nth x l n : idx x l = Some n -> nth_error l n = Some x.
Proof.
  revert n. induction l as [|y r IH]; cbn; intros n H; [discriminate|].
  destruct (String.eqb x y) eqn:E.
  - inversion H. apply String.eqb_eq in E. subst. reflexivity.
  - destruct (idx x r) as [m|]; [|discriminate]. inversion H. cbn. apply IH. reflexivity.
Qed.

Lemma idx_In x l : In x l -> exists n, idx x l = Some n.
Proof.
  induction l as [|y r IH]; cbn; [tauto|]. intro H.
  destruct (String.eqb x y) eqn:E; [eexists; reflexivity|].
  destruct H as [H|H]; [subst; rewrite String.eqb_refl in E; discriminate|].
  destruct (IH H) as [n Hn]. rewrite Hn. eexists; reflexivity.
Qed.

(* ---- the label tuple ------------------------------------------------------------------------------ *)
Theorem labels_table : List.length supported_labels = 21%nat /\ NoDup supported_labels.
Proof. split; [reflexivity|apply nodupb_sound; vm_compute; reflexivity]. Qed.

(* register_label_event stores index+1, get_block / write_seq look up [id - 1], read_seq stores
   index+1 again: with the offsets found in the source, decoding a registered label gives the label *)
Theorem label_id_roundtrip : forall l, In l supported_labels ->
  exists n, idx l supported_labels = Some n /\
    nth_error supported_labels (Z.to_nat (Z.of_nat n + label_id_offset_register - label_id_offset_decode)) = Some l /\
    Forall (fun o => nth_error supported_labels (Z.to_nat (Z.of_nat n + o - label_id_offset_decode)) = Some l)
           label_id_offset_read.
Proof.
  intros l H. destruct (idx_In l _ H) as [n Hn]. exists n. split; [exact Hn|].
  pose proof (idx_nth _ _ _ Hn) as G.
  assert (E : forall o, o = label_id_offset_decode -> Z.to_nat (Z.of_nat n + o - label_id_offset_decode) = n)
    by (intros o ->; lia).
  split.
  - rewrite (E label_id_offset_register eq_refl). exact G.
  - unfold label_id_offset_read. repeat constructor; rewrite E; try reflexivity; exact G.
Qed.

(* ---- trigger / digital output coding ---------------------------------------------------------------- *)
Theorem ctl_tables :
  ctl_types_enc = ctl_types_dec /\ ctl_output_channels_enc = ctl_output_channels_dec /\
  ctl_trigger_channels_enc = ctl_trigger_channels_dec /\
  maker_output_channels = ctl_output_channels_enc /\ maker_trigger_channels = ctl_trigger_channels_enc /\
  NoDup ctl_types_enc /\ NoDup ctl_output_channels_enc /\ NoDup ctl_trigger_channels_enc.
Proof.
  repeat split; try reflexivity; apply nodupb_sound; vm_compute; reflexivity.
Qed.

(* ---- extension type names and header lines ---------------------------------------------------------- *)
Definition write_header_ok (x : string * string) : Prop :=
  fst x = ("extension " ++ snd x ++ " ")%string.
Definition read_header_ok (x : string * nat * nat * string) : Prop :=
  let '(h, k, c, nm) := x in h = ("extension " ++ nm)%string /\ k = String.length h /\ c = k.

Theorem ext_name_tables :
  NoDup ext_names_set_block /\ ext_names_get_block = ext_names_set_block /\
  (forall n, In n (map snd ext_headers_write) <-> In n ext_names_set_block) /\
  map snd ext_headers_write = map snd ext_headers_read /\
  Forall write_header_ok ext_headers_write /\ Forall read_header_ok ext_headers_read.
Proof.
  split; [apply nodupb_sound; vm_compute; reflexivity|]. split; [reflexivity|]. split.
  - intro n. cbn. intuition.
  - split; [reflexivity|]. split; repeat constructor.
Qed.

(* ---- TRIGGERS rows in the file: written in microseconds, read back in seconds ---------------------- *)
Theorem trig_scales : Forall2 (fun m s => (m * s == 1)%Q) trig_write_mult trig_read_scale.
Proof. repeat constructor; reflexivity. Qed.

(* label rows: `id value name`, the value printed with '.0f' (sign kept, no exponent), SET and INC alike;
   extension rows: four integers *)
Theorem row_formats :
  fmt_labelset_row = "{:.0f} {:.0f} {}"%string /\ fmt_labelinc_row = fmt_labelset_row /\
  fmt_extensions_row = "{:.0f} {:.0f} {:.0f} {:.0f}"%string /\
  fmt_triggers_row = "{:.0f} {:.0f} {:.0f} {:.0f} {:.0f}"%string /\
  label_value_is_int_coerced = true /\ label_type_strings = ["SET"; "INC"]%string.
Proof. repeat split; reflexivity. Qed.

(* ---- the numeric id given to a new extension name (get_extension_type_ID, as read from the source) ---- *)
Lemma fold_max_bounds l : forall a, a <= fold_left Z.max l a /\ forall y, In y l -> y <= fold_left Z.max l a.
Proof.
  induction l as [|x r IH]; intro a; cbn [fold_left]; [split; [lia|intros y []]|].
  destruct (IH (Z.max a x)) as [H1 H2]. split; [lia|].
  intros y [<-|Hy]; [lia|apply H2; exact Hy].
Qed.

(* it is larger than every id in use, whatever the order of the list (e.g. [2; 1] after a read()) *)
Theorem ext_new_id_fresh : forall l, ~ In (ext_new_id l) l.
Proof.
  intros [|x r]; [intros []|]. unfold ext_new_id. destruct (fold_max_bounds r x) as [H1 H2].
  intros [H|H]; [lia|]. specialize (H2 _ H). lia.
Qed.

(* and it is the rule Model/Seq.v uses (ids are positive) *)
Theorem ext_new_id_is_model : forall l, Forall (fun x => 0 <= x) l ->
  ext_new_id l = match l with [] => 1 | _ => 1 + PV.Model.Seq.max_list l end.
Proof.
  intros [|x r] F; [reflexivity|]. unfold ext_new_id, PV.Model.Seq.max_list. cbn [fold_left].
  inversion F. subst. rewrite Z.max_r by assumption. reflexivity.
Qed.
