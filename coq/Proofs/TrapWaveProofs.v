(* Proofs/TrapWaveProofs.v — make_trapezoid to PWL bridge: the statements of C04/C11 about the four
   corner numbers of a returned trapezoid hold for its rendered waveform AT EVERY TIME. *)
From Coq Require Import ZArith QArith Qround Qabs Bool List Lia Lqa.
From PV Require Import Base.QUtil Base.PWL Gen.GenTrap Model.Trap Model.TrapWave Proofs.TrapProofs.
Import ListNotations.
Open Scope Q_scope.

Section Wave.
Variables (a : targs) (g : trap).
Hypothesis HOK : make_trap a = OK g.

Let A := t_amplitude g.
Let r := t_rise g.
Let fl := t_flat g.
Let f := t_fall g.
Let t0 := t_delay g.

Lemma wave_timing : 0 < r /\ 0 <= fl /\ 0 < f.
Proof. exact (trap_wellformed_l a g HOK). Qed.

Lemma wave_sorted : sorted_strict (times (trap_to_pwl g)).
Proof.
  destruct wave_timing as (Hr & Hfl & Hf). unfold trap_to_pwl. fold A r fl f t0.
  destruct (isz fl) eqn:Z.
  - apply isz_true in Z. cbn. repeat split; lra.
  - apply isz_false in Z. cbn. repeat split; lra.
Qed.

Lemma wave_area : area (trap_to_pwl g) == t_area g.
Proof.
  destruct (trap_area_field_l a g HOK) as [E _]. rewrite E.
  unfold trap_to_pwl. fold A r fl f t0.
  destruct (isz fl) eqn:Z.
  - apply isz_true in Z. cbn [area]. rewrite Z. field.
  - cbn [area]. field.
Qed.

Lemma wave_corner_bound : corner_bound (eff_max_grad a + eps) (trap_to_pwl g).
Proof.
  destruct (trap_within_limits_l a g HOK) as (Lg & _).
  pose proof (Qabs_nonneg (t_amplitude g)) as Hn.
  assert (H0 : Qabs 0 <= eff_max_grad a + eps) by (change (Qabs 0) with 0; lra).
  unfold trap_to_pwl, corner_bound. destruct (isz (t_flat g)); repeat constructor; cbn [snd]; assumption.
Qed.

Lemma wave_seg_bound : seg_bound (eff_max_slew a * (1 + eps)) (trap_to_pwl g).
Proof.
  destruct wave_timing as (Hr & Hfl & Hf).
  destruct (trap_within_limits_l a g HOK) as (_ & _ & _ & Lr & Lf). fold A r f in Lr, Lf.
  apply (proj1 (Qdiv_le_iff _ _ _ Hr)) in Lr. apply (proj1 (Qdiv_le_iff _ _ _ Hf)) in Lf.
  set (S' := eff_max_slew a * (1 + eps)) in *.
  assert (HS' : 0 <= S').
  { pose proof (Qabs_nonneg A). destruct (Qlt_le_dec S' 0) as [N|N]; [|exact N]. exfalso.
    assert (S' * r < 0).
    { setoid_replace (S' * r) with (- ((- S') * r)) by ring.
      assert (0 < (- S') * r) by (apply Qmult_lt_0_compat; lra). lra. }
    lra. }
  assert (E1 : Qabs (A - 0) == Qabs A) by (apply Qabs_wd; ring).
  assert (E2 : Qabs (0 - A) == Qabs A) by (rewrite <- (Qabs_opp A); apply Qabs_wd; ring).
  unfold trap_to_pwl. fold A r fl f t0.
  destruct (isz fl) eqn:Z.
  - apply isz_true in Z. cbn [seg_bound]. split; [|split; [|exact I]].
    + rewrite E1. setoid_replace (t0 + r - t0) with r by ring. exact Lr.
    + rewrite E2. setoid_replace (t0 + r + fl + f - (t0 + r)) with f by (rewrite Z; ring). exact Lf.
  - cbn [seg_bound]. split; [|split; [|split; [|exact I]]].
    + rewrite E1. setoid_replace (t0 + r - t0) with r by ring. exact Lr.
    + setoid_replace (A - A) with 0 by ring. change (Qabs 0) with 0.
      setoid_replace (t0 + r + fl - (t0 + r)) with fl by ring. apply Qmult_le_0_compat; assumption.
    + rewrite E2. setoid_replace (t0 + r + fl + f - (t0 + r + fl)) with f by ring. exact Lf.
Qed.

(* amplitude and slope bounds at every time *)
Lemma wave_everywhere :
  (forall t, Qabs (eval (trap_to_pwl g) t) <= eff_max_grad a + eps) /\
  (forall t u, inside (trap_to_pwl g) t -> inside (trap_to_pwl g) u ->
     Qabs (eval (trap_to_pwl g) t - eval (trap_to_pwl g) u) <= eff_max_slew a * (1 + eps) * Qabs (t - u)).
Proof.
  apply within_corners_implies_everywhere.
  - destruct (trap_within_limits_l a g HOK) as (Lg & _). pose proof (Qabs_nonneg (t_amplitude g)). lra.
  - exact wave_sorted.
  - exact wave_corner_bound.
  - exact wave_seg_bound.
Qed.

(* the waveform starts and ends at zero, is zero outside the event, and reaches the amplitude *)
Lemma wave_support : tfirst (trap_to_pwl g) = t_delay g /\
  tlast (trap_to_pwl g) = t_delay g + t_rise g + t_flat g + t_fall g /\
  eval (trap_to_pwl g) (t_delay g) == 0 /\
  eval (trap_to_pwl g) (t_delay g + t_rise g + t_flat g + t_fall g) == 0 /\
  eval (trap_to_pwl g) (t_delay g + t_rise g) == t_amplitude g /\
  (forall t, ~ inside (trap_to_pwl g) t -> eval (trap_to_pwl g) t == 0).
Proof.
  pose proof wave_sorted as Hs.
  assert (In0 : In (t_delay g, 0) (trap_to_pwl g)).
  { unfold trap_to_pwl. destruct (isz (t_flat g)); left; reflexivity. }
  assert (In1 : In (t_delay g + t_rise g, t_amplitude g) (trap_to_pwl g)).
  { unfold trap_to_pwl. destruct (isz (t_flat g)); right; left; reflexivity. }
  assert (In3 : In (t_delay g + t_rise g + t_flat g + t_fall g, 0) (trap_to_pwl g)).
  { unfold trap_to_pwl. destruct (isz (t_flat g)); cbn; auto. }
  split; [unfold trap_to_pwl; destruct (isz (t_flat g)); reflexivity|].
  split; [unfold trap_to_pwl; destruct (isz (t_flat g)); reflexivity|].
  split; [apply (eval_at_corner _ Hs _ _ In0)|].
  split; [apply (eval_at_corner _ Hs _ _ In3)|].
  split; [apply (eval_at_corner _ Hs _ _ In1)|].
  intros t Ht. apply eval_outside; assumption.
Qed.

End Wave.
