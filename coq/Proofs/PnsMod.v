(* Proofs/PnsMod.v — round 4: mod_grad_axis at the level of the whole calc_pns model: scaling the
   corner amplitudes of one axis by c scales that axis' returned component by |c| and leaves the
   sample count and the other two components untouched. *)
From Coq Require Import ZArith QArith Qround Qabs Qpower List Bool Arith Lia Lqa Setoid Morphisms.
From PV Require Import Base.QUtil Gen.GenPns Model.Pns Proofs.PnsProofs.
Import ListNotations.
Open Scope Q_scope.

(* ---- the piecewise polynomial is linear in the corner amplitudes ---- *)
Definition pt_rel (c : Q) (p q : Q * Q) : Prop := fst q = fst p /\ snd q == c * snd p.
Definition pts_rel (c : Q) := Forall2 (pt_rel c).

Lemma ppoly_go_rel c : forall rest rest', pts_rel c rest rest' -> forall t0 v0 v0' t, v0' == c * v0 ->
  ppoly_go t0 v0' rest' t == c * ppoly_go t0 v0 rest t.
Proof.
  induction 1 as [|[t1 v1] [t1' v1'] rest rest' [Ht Hv] Hr IH]; intros t0 v0 v0' t H0; cbn [ppoly_go].
  - ring.
  - cbn [fst snd] in Ht, Hv. subst t1'.
    assert (piece : (v1' - v0') / (t1 - t0) * (t - t0) + v0' == c * ((v1 - v0) / (t1 - t0) * (t - t0) + v0)).
    { rewrite Hv, H0. unfold Qdiv. ring. }
    destruct Hr as [|p q rest rest' Hpq Hr'].
    + exact piece.
    + destruct (Qltb t t1); [exact piece|].
      apply IH. exact Hv.
Qed.

Lemma last_scale c pts : fst (last (scale_pts c pts) (0, 0)) = fst (last pts (0, 0)).
Proof.
  induction pts as [|p pts IH]; [reflexivity|].
  destruct pts as [|q pts]; [reflexivity|].
  change (scale_pts c (p :: q :: pts)) with ((fst p, c * snd p) :: scale_pts c (q :: pts)).
  change (last ((fst p, c * snd p) :: scale_pts c (q :: pts)) (0, 0)) with (last (scale_pts c (q :: pts)) (0, 0)).
  exact IH.
Qed.

Lemma scale_pts_rel c pts : pts_rel c pts (scale_pts c pts).
Proof. induction pts as [|p pts IH]; constructor; [split; reflexivity|exact IH]. Qed.

Lemma with_flanks_rel c pts : pts_rel c (with_flanks pts) (with_flanks (scale_pts c pts)).
Proof.
  destruct pts as [|[t0 v0] pts]; [constructor|].
  unfold with_flanks.
  change (scale_pts c ((t0, v0) :: pts)) with ((t0, c * v0) :: scale_pts c pts).
  cbv iota beta.
  change ((t0, c * v0) :: scale_pts c pts) with (scale_pts c ((t0, v0) :: pts)).
  rewrite last_scale.
  set (tl := fst (last ((t0, v0) :: pts) (0, 0))).
  constructor; [split; [reflexivity|cbn [snd]; ring]|].
  constructor; [split; [reflexivity|cbn [snd]; ring]|].
  apply Forall2_app; [apply scale_pts_rel|].
  constructor; [split; [reflexivity|cbn [snd]; ring]|].
  constructor; [split; [reflexivity|cbn [snd]; ring]|constructor].
Qed.

Lemma grad_pp_scale c pts t : grad_pp (scale_pts c pts) t == c * grad_pp pts t.
Proof.
  unfold grad_pp, ppoly_eval. pose proof (with_flanks_rel c pts) as R.
  destruct R as [|[t0 v0] [t0' v0'] rest rest' [Ht Hv] Hr]; [ring|].
  cbn [fst snd] in Ht, Hv. subst t0'. apply ppoly_go_rel; assumption.
Qed.

Lemma pp_end_scale c pts : pp_end (scale_pts c pts) = pp_end pts.
Proof.
  destruct pts as [|p pts]; [reflexivity|].
  change (scale_pts c (p :: pts)) with ((fst p, c * snd p) :: scale_pts c pts).
  rewrite !pp_end_spec.
  change ((fst p, c * snd p) :: scale_pts c pts) with (scale_pts c (p :: pts)).
  rewrite last_scale. reflexivity.
Qed.

Lemma sample_scale c pts dt nt :
  leq (sample (grad_pp (scale_pts c pts)) dt nt) (map (Qmult c) (sample (grad_pp pts) dt nt)).
Proof. unfold sample. rewrite map_map. apply leq_map_ext. intros t. apply grad_pp_scale. Qed.

(* ---- the per-axis chain respects list equality up to Qeq ---- *)
Lemma stim_sum_leq h dtms bs : forall taps x1 x2, leq x1 x2 ->
  leq (stim_sum lowpass_fir h dtms bs taps x1) (stim_sum lowpass_fir h dtms bs taps x2).
Proof.
  induction bs as [|b bs IH]; intros taps x1 x2 Hx; cbn [stim_sum].
  - rewrite (leq_length _ _ Hx). reflexivity.
  - unfold ladd. apply leq_zipw; [intros a b0 c d E1 E2; rewrite E1, E2; reflexivity| |apply IH; exact Hx].
    unfold branch_out. apply Qmult_leq.
    assert (I : leq (lowpass_fir (alpha_of dtms (hw_tau h (b_tau b))) (hd 0%nat taps) (if b_abs_in b then map Qabs x1 else x1))
                    (lowpass_fir (alpha_of dtms (hw_tau h (b_tau b))) (hd 0%nat taps) (if b_abs_in b then map Qabs x2 else x2))).
    { apply fir_leq. destruct (b_abs_in b); [apply abs_leq|]; exact Hx. }
    destruct (b_abs_out b); [apply abs_leq|]; exact I.
Qed.

Lemma pns_axis_leq h gamma dt p1 p2 taps g1 g2 : leq g1 g2 ->
  leq (pns_axis lowpass_fir h gamma dt p1 p2 taps g1) (pns_axis lowpass_fir h gamma dt p1 p2 taps g2).
Proof.
  intros Hg. unfold pns_axis, pns_model. rewrite (leq_length _ _ Hg).
  apply Qmult_leq. apply leq_select.
  apply leq_map; [intros a b E; rewrite E; reflexivity|].
  apply stim_sum_leq. unfold dgdt.
  apply leq_map; [intros a b E; rewrite E; reflexivity|].
  apply diffq_leq. unfold pad, to_tesla. apply leq_app; [reflexivity|]. apply leq_app; [|reflexivity].
  apply leq_map; [intros a b E; rewrite E; reflexivity|exact Hg].
Qed.

Lemma axis_scaled h gamma dt p1 p2 taps c pts nt :
  leq (pns_axis lowpass_fir h gamma dt p1 p2 taps (opt_sample (Some (scale_pts c pts)) dt nt))
      (map (Qmult (Qabs c)) (pns_axis lowpass_fir h gamma dt p1 p2 taps (opt_sample (Some pts) dt nt))).
Proof.
  cbn [opt_sample]. etransitivity; [apply pns_axis_leq, sample_scale|apply pns_homogeneous].
Qed.

(* ---- the whole model, one theorem per axis ---- *)
Lemma opt_end_scale c pts : opt_end (Some (scale_pts c pts)) = opt_end (Some pts).
Proof. cbn [opt_end]. rewrite pp_end_scale. reflexivity. Qed.

Ltac calc_unfold E :=
  unfold calc_pns in E |- *; rewrite ?opt_end_scale;
  destruct (opt_end _ ++ opt_end _ ++ opt_end _) as [|e es]; [discriminate E|];
  destruct (weights_bad _ || weights_bad _ || weights_bad _); [discriminate E|];
  destruct (existsb (Nat.eqb 0) _); [discriminate E|];
  inversion E; subst; clear E; eexists; split; [reflexivity|]; cbn [o_x o_y o_z].

Lemma calc_pns_mod_x gamma dt hx hy hz px wy wz tx ty tz c o :
  calc_pns lowpass_fir gamma dt hx hy hz (Some px) wy wz tx ty tz = OK o ->
  exists o', calc_pns lowpass_fir gamma dt hx hy hz (Some (scale_pts c px)) wy wz tx ty tz = OK o' /\
    leq (o_x o') (map (Qmult (Qabs c)) (o_x o)) /\ o_y o' = o_y o /\ o_z o' = o_z o.
Proof.
  intros E. calc_unfold E.
  split; [apply axis_scaled|]. split; reflexivity.
Qed.
Lemma calc_pns_mod_y gamma dt hx hy hz wx py wz tx ty tz c o :
  calc_pns lowpass_fir gamma dt hx hy hz wx (Some py) wz tx ty tz = OK o ->
  exists o', calc_pns lowpass_fir gamma dt hx hy hz wx (Some (scale_pts c py)) wz tx ty tz = OK o' /\
    leq (o_y o') (map (Qmult (Qabs c)) (o_y o)) /\ o_x o' = o_x o /\ o_z o' = o_z o.
Proof.
  intros E. calc_unfold E.
  split; [apply axis_scaled|]. split; reflexivity.
Qed.
Lemma calc_pns_mod_z gamma dt hx hy hz wx wy pz tx ty tz c o :
  calc_pns lowpass_fir gamma dt hx hy hz wx wy (Some pz) tx ty tz = OK o ->
  exists o', calc_pns lowpass_fir gamma dt hx hy hz wx wy (Some (scale_pts c pz)) tx ty tz = OK o' /\
    leq (o_z o') (map (Qmult (Qabs c)) (o_z o)) /\ o_x o' = o_x o /\ o_y o' = o_y o.
Proof.
  intros E. calc_unfold E.
  split; [apply axis_scaled|]. split; reflexivity.
Qed.
