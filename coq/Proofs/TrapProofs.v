(* Proofs/TrapProofs.v — lemmas about Model/Trap.v (make_trapezoid). *)
From Coq Require Import ZArith QArith Qround Qabs Bool Lia Lqa.
From PV Require Import Base.QUtil Gen.GenTrap Model.Trap.
Open Scope Q_scope.

(* ---------------------------------------------------------------------------------------------- *)
(* arithmetic helpers *)

Lemma isz_true q : isz q = true -> q == 0.
Proof. unfold isz. apply Qeq_bool_eq. Qed.
Lemma isz_false q : isz q = false -> ~ q == 0.
Proof. unfold isz. intros H E. apply Qeq_eq_bool in E. congruence. Qed.

Lemma Qltb_false a b : Qltb a b = false -> b <= a.
Proof. unfold Qltb. intro H. apply negb_false_iff in H. apply Qle_bool_iff in H. exact H. Qed.

Lemma Qle_bool_false a b : Qle_bool a b = false -> b < a.
Proof.
  intro H. apply Qnot_le_lt. intro L. apply Qle_bool_iff in L. congruence.
Qed.

Lemma eps_nonneg : 0 <= eps.
Proof. unfold eps, trap_eps. apply Qle_bool_iff. vm_compute. reflexivity. Qed.

Lemma Qhalf_mul x : x / 2 == (1 # 2) * x.
Proof. field. Qed.

Lemma Qdiv_mul x b : ~ b == 0 -> x / b * b == x.
Proof. intro H. field. exact H. Qed.

Lemma Qdiv_le_iff x b c : 0 < b -> (x / b <= c <-> x <= c * b).
Proof.
  intro Hb. assert (E : x / b * b == x) by (apply Qdiv_mul; lra).
  rewrite <- E at 2. symmetry. apply Qmult_le_r. exact Hb.
Qed.
Lemma Qdiv_lt_iff x b c : 0 < b -> (x / b < c <-> x < c * b).
Proof.
  intro Hb. assert (E : x / b * b == x) by (apply Qdiv_mul; lra).
  rewrite <- E at 2. symmetry. apply Qmult_lt_r. exact Hb.
Qed.
Lemma Qle_div_iff x b c : 0 < b -> (c <= x / b <-> c * b <= x).
Proof.
  intro Hb. assert (E : x / b * b == x) by (apply Qdiv_mul; lra).
  rewrite <- E at 2. symmetry. apply Qmult_le_r. exact Hb.
Qed.
Lemma Qlt_div_iff x b c : 0 < b -> (c < x / b <-> c * b < x).
Proof.
  intro Hb. assert (E : x / b * b == x) by (apply Qdiv_mul; lra).
  rewrite <- E at 2. symmetry. apply Qmult_lt_r. exact Hb.
Qed.

Lemma Qabs_div_pos a b : 0 < b -> Qabs (a / b) == Qabs a / b.
Proof.
  intro Hb. unfold Qdiv. rewrite Qabs_Qmult.
  rewrite (Qabs_pos (/ b)); [reflexivity|]. apply Qlt_le_weak, Qinv_lt_0_compat, Hb.
Qed.

Lemma Qdiv_pos_nonneg a b : 0 <= a -> 0 < b -> 0 <= a / b.
Proof. intros Ha Hb. apply Qle_div_iff; [exact Hb|]. lra. Qed.

Lemma Qmax_spec a b : (a <= b /\ Qmax a b = b) \/ (b < a /\ Qmax a b = a).
Proof.
  unfold Qmax. destruct (Qle_bool a b) eqn:E.
  - left. split; [apply Qle_bool_iff, E|reflexivity].
  - right. split; [apply Qle_bool_false, E|reflexivity].
Qed.

Lemma inject_Z_le_iff (x y : Z) : (x <= y)%Z <-> inject_Z x <= inject_Z y.
Proof. rewrite Zle_Qle. reflexivity. Qed.

(* Qceiling is the least integer above *)
Lemma Qceiling_le_iff (x : Q) (k : Z) : (Qceiling x <= k)%Z <-> x <= inject_Z k.
Proof.
  split; intro H.
  - pose proof (Qle_ceiling x). rewrite Zle_Qle in H. lra.
  - pose proof (Qceiling_lt x) as L. 
    assert (inject_Z (Qceiling x - 1) < inject_Z k) by lra.
    rewrite <- Zlt_Qlt in H0. lia.
Qed.

(* ---- ceil_raster: math.ceil(t / r) * r -------------------------------------------------------- *)
Lemma ceil_raster_ge t r : 0 < r -> t <= ceil_raster t r.
Proof.
  intro Hr. unfold ceil_raster. pose proof (Qle_ceiling (t / r)) as H.
  apply Qdiv_le_iff in H; [exact H|exact Hr].
Qed.

Lemma ceil_raster_lt t r : 0 < r -> ceil_raster t r < t + r.
Proof.
  intro Hr. unfold ceil_raster. pose proof (Qceiling_lt (t / r)) as H.
  unfold Z.sub in H. rewrite inject_Z_plus, inject_Z_opp in H. change (inject_Z 1) with 1 in H.
  assert (H1 : inject_Z (Qceiling (t / r)) - 1 < t / r) by lra.
  apply Qlt_div_iff in H1; [|exact Hr]. lra.
Qed.

(* it is the least multiple of the raster that is >= t *)
Lemma ceil_raster_least t r (k : Z) : 0 < r -> t <= inject_Z k * r -> ceil_raster t r <= inject_Z k * r.
Proof.
  intros Hr H. unfold ceil_raster. apply Qmult_le_r; [exact Hr|].
  rewrite <- Zle_Qle. apply Qceiling_le_iff. apply Qdiv_le_iff; assumption.
Qed.

Lemma ceil_raster_count_nonneg t r : 0 < r -> 0 <= t -> (0 <= Qceiling (t / r))%Z.
Proof.
  intros Hr Ht. assert (H : (Qceiling 0 <= Qceiling (t / r))%Z).
  { apply Qceiling_resp_le. apply Qdiv_pos_nonneg; assumption. }
  exact H.
Qed.

(* ---- ceil_sqrt_div: exact ceil(sqrt(x)/r) ------------------------------------------------------ *)
Lemma ceil_sqrt_div_nonneg x r : (0 <= ceil_sqrt_div x r)%Z.
Proof. apply Z.sqrt_up_nonneg. Qed.

Lemma sq_le_inject (m : Z) (y : Q) : y <= inject_Z (m * m) <-> (Qceiling y <= m * m)%Z.
Proof. symmetry. apply Qceiling_le_iff. Qed.

(* n = ceil_sqrt_div x r is the least non-negative integer with (n*r)^2 >= x *)
Lemma ceil_sqrt_div_iff x r (m : Z) : 0 < r -> 0 <= x -> (0 <= m)%Z ->
  ((ceil_sqrt_div x r <= m)%Z <-> x <= (inject_Z m * r) * (inject_Z m * r)).
Proof.
  intros Hr Hx Hm. unfold ceil_sqrt_div.
  assert (Hrr : 0 < r * r) by (apply Qmult_lt_0_compat; exact Hr).
  assert (Hc : (0 <= Qceiling (x / (r * r)))%Z).
  { apply (ceil_raster_count_nonneg x (r * r)); assumption. }
  rewrite <- (Z.sqrt_up_le_square _ m Hc Hm).
  rewrite Qceiling_le_iff. rewrite inject_Z_mult.
  rewrite (Qdiv_le_iff x (r * r) _ Hrr).
  assert (E : inject_Z m * inject_Z m * (r * r) == inject_Z m * r * (inject_Z m * r)) by ring.
  rewrite E. reflexivity.
Qed.

Lemma ceil_sqrt_div_spec x r : 0 < r -> 0 <= x ->
  x <= (inject_Z (ceil_sqrt_div x r) * r) * (inject_Z (ceil_sqrt_div x r) * r).
Proof.
  intros Hr Hx. apply (ceil_sqrt_div_iff x r _ Hr Hx (ceil_sqrt_div_nonneg x r)). lia.
Qed.

Lemma ceil_sqrt_div_least x r (m : Z) : 0 < r -> 0 <= x -> (0 <= m)%Z ->
  x <= (inject_Z m * r) * (inject_Z m * r) -> (ceil_sqrt_div x r <= m)%Z.
Proof. intros Hr Hx Hm H. apply ceil_sqrt_div_iff; assumption. Qed.

(* strictly below: the predecessor is too small *)
Lemma ceil_sqrt_div_pred x r : 0 < r -> 0 <= x -> (1 <= ceil_sqrt_div x r)%Z ->
  (inject_Z (ceil_sqrt_div x r - 1) * r) * (inject_Z (ceil_sqrt_div x r - 1) * r) < x.
Proof.
  intros Hr Hx H1. apply Qnot_le_lt. intro H.
  apply (ceil_sqrt_div_iff x r (ceil_sqrt_div x r - 1) Hr Hx) in H; lia.
Qed.

(* ---------------------------------------------------------------------------------------------- *)
(* squares *)
Lemma sq_le_mono x y : 0 <= x -> x <= y -> x * x <= y * y.
Proof.
  intros Hx Hxy. apply Qle_trans with (y * x).
  - apply Qmult_le_compat_r; [exact Hxy|exact Hx].
  - rewrite (Qmult_comm y x). apply Qmult_le_compat_r; lra.
Qed.

Lemma sq_lt_cancel x y : 0 <= y -> x * x < y * y -> x < y.
Proof.
  intros Hy H. apply Qnot_le_lt. intro L. pose proof (sq_le_mono y x Hy L). lra.
Qed.

Lemma mul_pos_lt_cancel_l a x y : 0 < a -> a * x < a * y -> x < y.
Proof. intros Ha H. apply (Qmult_lt_l x y a Ha). exact H. Qed.

Lemma inject_Z_mul_lt_cancel (k m : Z) r : 0 < r -> inject_Z k * r < inject_Z m * r -> (k < m)%Z.
Proof. intros Hr H. apply Qmult_lt_r in H; [|exact Hr]. rewrite <- Zlt_Qlt in H. exact H. Qed.
Lemma inject_Z_mul_le_cancel (k m : Z) r : 0 < r -> inject_Z k * r <= inject_Z m * r -> (k <= m)%Z.
Proof. intros Hr H. apply Qmult_le_r in H; [|exact Hr]. rewrite <- Zle_Qle in H. exact H. Qed.

(* Qmax of a raster multiple and the raster is a positive raster multiple *)
Lemma Qmax_raster (c : Z) r : 0 < r ->
  exists k, (1 <= k)%Z /\ (c <= k)%Z /\ Qmax (inject_Z c * r) r == inject_Z k * r /\
            (k = 1%Z \/ k = c).
Proof.
  intro Hr. destruct (Qmax_spec (inject_Z c * r) r) as [[L E]|[L E]]; rewrite E.
  - exists 1%Z. split; [lia|]. split.
    + apply (inject_Z_mul_le_cancel c 1 r Hr). change (inject_Z 1) with 1. lra.
    + split; [change (inject_Z 1) with 1; ring|left; reflexivity].
  - exists c. assert ((1 < c)%Z).
    { apply (inject_Z_mul_lt_cancel 1 c r Hr). change (inject_Z 1) with 1. lra. }
    split; [lia|]. split; [lia|]. split; [reflexivity|right; reflexivity].
Qed.

(* ---------------------------------------------------------------------------------------------- *)
(* calculate_shortest_params_for_area *)
Section Shortest.
Variables (area S G R : Q).
Hypothesis HS : 0 < S.
Hypothesis HG : 0 < G.
Hypothesis HR : 0 < R.

Definition sp_rise1 : Q := Qmax (inject_Z (ceil_sqrt_div (Qabs area / S) R) * R) R.

Lemma absS_nonneg : 0 <= Qabs area / S.
Proof. apply Qdiv_pos_nonneg; [apply Qabs_nonneg|exact HS]. Qed.

Lemma rise1_facts : exists k, (1 <= k)%Z /\ sp_rise1 == inject_Z k * R /\
  Qabs area / S <= sp_rise1 * sp_rise1 /\
  ((2 <= k)%Z -> (inject_Z (k - 1) * R) * (inject_Z (k - 1) * R) < Qabs area / S).
Proof.
  unfold sp_rise1. set (n := ceil_sqrt_div (Qabs area / S) R).
  pose proof (ceil_sqrt_div_nonneg (Qabs area / S) R) as Hn. fold n in Hn.
  pose proof (ceil_sqrt_div_spec (Qabs area / S) R HR absS_nonneg) as Hsp. fold n in Hsp.
  destruct (Qmax_raster n R HR) as [k [Hk1 [Hnk [E Hor]]]].
  exists k. split; [exact Hk1|]. split; [exact E|]. split.
  - rewrite E. eapply Qle_trans; [exact Hsp|]. apply sq_le_mono.
    + apply Qmult_le_0_compat; [|lra]. change 0 with (inject_Z 0). rewrite <- Zle_Qle. exact Hn.
    + apply Qmult_le_compat_r; [|lra]. rewrite <- Zle_Qle. exact Hnk.
  - intro H2. destruct Hor as [H1|Hc]; [lia|]. subst k.
    apply (ceil_sqrt_div_pred (Qabs area / S) R HR absS_nonneg). fold n. lia.
Qed.

Lemma rise1_pos : 0 < sp_rise1.
Proof.
  destruct rise1_facts as [k [Hk [E _]]]. rewrite E.
  apply Qmult_lt_0_compat; [|exact HR]. change 0 with (inject_Z 0). rewrite <- Zlt_Qlt. lia.
Qed.

(* the first-guess ramp is the least positive raster multiple whose triangle respects the slew limit *)
Lemma rise1_least (k : Z) : (1 <= k)%Z ->
  Qabs area / S <= (inject_Z k * R) * (inject_Z k * R) -> sp_rise1 <= inject_Z k * R.
Proof.
  intros Hk H. unfold sp_rise1.
  assert (Hn : (ceil_sqrt_div (Qabs area / S) R <= k)%Z).
  { apply ceil_sqrt_div_least; [exact HR|exact absS_nonneg|lia|exact H]. }
  destruct (Qmax_case (inject_Z (ceil_sqrt_div (Qabs area / S) R) * R) R) as [E|E]; rewrite E.
  - apply Qmult_le_compat_r; [|lra]. rewrite <- Zle_Qle. exact Hn.
  - rewrite <- (Qmult_1_l R) at 1. apply Qmult_le_compat_r; [|lra].
    change 1 with (inject_Z 1). rewrite <- Zle_Qle. exact Hk.
Qed.

(* everything the theorems need about the returned tuple *)
Lemma shortest_spec amp r fl f : shortest_params area S G R = (amp, r, fl, f) ->
  f = r /\
  (exists k, (1 <= k)%Z /\ r == inject_Z k * R) /\
  (exists m, (0 <= m)%Z /\ fl == inject_Z m * R) /\
  amp * (r + fl) == area /\
  (* at most two rasters above any continuous-time trapezoid of this area: plateau amplitude h in
     [0, G], area-equivalent duration T (area = h*T), ramps at least h/S *)
  (forall h T, 0 <= h -> h <= G -> 0 < T -> Qabs area == h * T -> r + fl + f <= T + h / S + 2 * R) /\
  (* the designer's own result passes the limit checks that follow *)
  Qabs amp <= G + eps /\ Qabs amp / r <= S /\
  (* minimality of the chosen ramp: never longer than the shortest slew-feasible triangle ramp, and on
     the plateau branch (flat > 0) the shortest raster multiple that ramps to the returned amplitude *)
  r <= sp_rise1 /\
  (0 < fl -> forall k : Z, (1 <= k)%Z -> Qabs amp <= S * (inject_Z k * R) -> r <= inject_Z k * R).
Proof.
  unfold shortest_params. fold sp_rise1.
  destruct rise1_facts as [k [Hk [Ek [Hsq Hpred]]]].
  pose proof rise1_pos as Hr1.
  assert (Ha : 0 <= Qabs area) by apply Qabs_nonneg.
  destruct (Qltb (G + eps) (Qabs (area / sp_rise1))) eqn:B; intro H;
    apply pair_equal_spec in H; destruct H as [H Hf]; apply pair_equal_spec in H; destruct H as [H Hfl];
    apply pair_equal_spec in H; destruct H as [Hamp Hr]; subst amp r fl f.
  - (* plateau branch *)
    apply Qltb_lt in B. rewrite (Qabs_div_pos _ _ Hr1) in B.
    pose proof eps_nonneg as He.
    assert (B1 : G * sp_rise1 < Qabs area).
    { apply (Qlt_div_iff (Qabs area) sp_rise1 G Hr1). lra. }
    set (e := ceil_raster (Qabs area / G) R).
    assert (He1 : Qabs area / G <= e) by (apply ceil_raster_ge; exact HR).
    assert (He2 : e < Qabs area / G + R) by (apply ceil_raster_lt; exact HR).
    assert (Hr1e : sp_rise1 < e).
    { eapply Qlt_le_trans; [|exact He1]. apply Qlt_div_iff; [exact HG|]. lra. }
    assert (Hepos : 0 < e) by lra.
    assert (HaGe : Qabs area <= G * e).
    { apply (Qdiv_le_iff (Qabs area) G e HG) in He1. lra. }
    set (ec := Qceiling (Qabs area / G / R)).
    assert (Eec : e == inject_Z ec * R) by reflexivity.
    assert (Hkec : (k < ec)%Z).
    { apply (inject_Z_mul_lt_cancel k ec R HR). rewrite <- Ek, <- Eec. exact Hr1e. }
    set (amp := area / e).
    assert (Eamp : Qabs amp == Qabs area / e) by (apply Qabs_div_pos; exact Hepos).
    assert (HampG : Qabs amp <= G).
    { rewrite Eamp. apply Qdiv_le_iff; [exact Hepos|]. lra. }
    set (t := Qabs amp / S).
    assert (Htr1 : t <= sp_rise1).
    { unfold t. apply Qdiv_le_iff; [exact HS|]. rewrite Eamp. apply Qdiv_le_iff; [exact Hepos|].
      apply (Qdiv_le_iff (Qabs area) S _ HS) in Hsq.
      apply Qle_trans with (sp_rise1 * sp_rise1 * S); [exact Hsq|].
      assert (sp_rise1 * sp_rise1 <= sp_rise1 * e).
      { rewrite (Qmult_comm sp_rise1 e). apply Qmult_le_compat_r; lra. }
      assert (X : sp_rise1 * S * e == sp_rise1 * e * S) by ring. rewrite X.
      apply Qmult_le_compat_r; lra. }
    assert (HtG : t <= G / S).
    { unfold t. apply Qdiv_le_iff; [exact HS|]. rewrite (Qdiv_mul G S); lra. }
    assert (Hc1 : ceil_raster t R <= sp_rise1).
    { rewrite Ek. apply ceil_raster_least; [exact HR|]. rewrite <- Ek. exact Htr1. }
    assert (Hc2 : ceil_raster t R < t + R) by (apply ceil_raster_lt; exact HR).
    destruct (Qmax_raster (Qceiling (t / R)) R HR) as [k2 [Hk2 [_ [E2 _]]]].
    fold (ceil_raster t R) in E2.
    set (r2 := Qmax (ceil_raster t R) R) in *.
    assert (HRr1 : R <= sp_rise1).
    { rewrite Ek. rewrite <- (Qmult_1_l R) at 1. apply Qmult_le_compat_r; [|lra].
      change 1 with (inject_Z 1). rewrite <- Zle_Qle. exact Hk. }
    assert (Hr2 : r2 <= sp_rise1).
    { unfold r2. destruct (Qmax_case (ceil_raster t R) R) as [X|X]; rewrite X; assumption. }
    assert (HG_S : 0 < G / S) by (apply Qlt_div_iff; [exact HS|lra]).
    assert (Hr2b : r2 <= G / S + R).
    { unfold r2. destruct (Qmax_case (ceil_raster t R) R) as [X|X]; rewrite X; lra. }
    assert (Hk2k : (k2 <= k)%Z).
    { apply (inject_Z_mul_le_cancel k2 k R HR). rewrite <- E2, <- Ek. exact Hr2. }
    split; [reflexivity|]. split; [exists k2; split; assumption|]. split.
    { exists (ec - k2)%Z. split; [lia|]. unfold Z.sub. rewrite inject_Z_plus, inject_Z_opp.
      rewrite E2, Eec. ring. }
    split.
    { unfold amp. field. lra. }
    split; [|split; [|split; [|split]]].
    2:{ pose proof eps_nonneg. fold amp. lra. }
    2:{ fold amp r2. apply Qdiv_le_iff; [apply Qlt_le_trans with R; [exact HR|unfold r2; apply Qmax_ub_r]|].
        assert (Ht : t <= r2).
        { apply Qle_trans with (ceil_raster t R); [apply ceil_raster_ge; exact HR|unfold r2; apply Qmax_ub_l]. }
        unfold t in Ht. apply Qdiv_le_iff in Ht; [|exact HS]. rewrite Qmult_comm. exact Ht. }
    2:{ fold amp r2. exact Hr2. }
    2:{ intros _ k' Hk' Hle. fold amp in Hle. fold amp r2.
        assert (Htk : t <= inject_Z k' * R).
        { unfold t. apply Qdiv_le_iff; [exact HS|]. rewrite Qmult_comm. exact Hle. }
        assert (Hck : ceil_raster t R <= inject_Z k' * R) by (apply ceil_raster_least; assumption).
        assert (HRk : R <= inject_Z k' * R).
        { rewrite <- (Qmult_1_l R) at 1. apply Qmult_le_compat_r; [|lra].
          change 1 with (inject_Z 1). rewrite <- Zle_Qle. exact Hk'. }
        unfold r2. destruct (Qmax_case (ceil_raster t R) R) as [X|X]; rewrite X; assumption. }
    intros h T Hh0 HhG HT Earea.
    (* e + r2 < |area|/G + G/S + 2R <= T + h/S + 2R *)
    assert (Hgoal : Qabs area / G + G / S <= T + h / S).
    { (* area*S > G^2, hence T*S > G *)
      assert (HTS : G < T * S).
      { apply (Qdiv_le_iff (Qabs area) S _ HS) in Hsq.
        (* |area| > G*rise1, |area| <= rise1^2*S  =>  G < rise1*S ... and |area| = h*T <= G*T *)
        assert (H1 : G < sp_rise1 * S).
        { apply (mul_pos_lt_cancel_l sp_rise1); [exact Hr1|].
          assert (X : sp_rise1 * (sp_rise1 * S) == sp_rise1 * sp_rise1 * S) by ring. rewrite X.
          rewrite (Qmult_comm sp_rise1 G). lra. }
        (* G*rise1 < h*T <= G*T => rise1 < T *)
        assert (H2 : sp_rise1 < T).
        { apply (mul_pos_lt_cancel_l G); [exact HG|].
          apply Qlt_le_trans with (Qabs area); [exact B1|]. rewrite Earea.
          apply Qmult_le_compat_r; lra. }
        apply Qlt_trans with (sp_rise1 * S); [exact H1|]. apply Qmult_lt_r; assumption. }
      (* (G-h)*(T*S - G) >= 0 *)
      assert (P : 0 <= (G - h) * (T * S - G)) by (apply Qmult_le_0_compat; lra).
      assert (E1 : Qabs area / G + G / S == (h * T * S + G * G) / (G * S)).
      { rewrite Earea. field. split; lra. }
      assert (E2' : T + h / S == (T * S * G + h * G) / (G * S)) by (field; split; lra).
      rewrite E1, E2'.
      assert (HGS : 0 < G * S) by (apply Qmult_lt_0_compat; assumption).
      apply Qdiv_le_iff; [exact HGS|]. rewrite Qdiv_mul; [|lra].
      assert (X : (G - h) * (T * S - G) == T * S * G + h * G - (h * T * S + G * G)) by ring.
      rewrite X in P. lra. }
    fold e r2. lra.
  - (* triangle branch *)
    split; [reflexivity|]. split; [exists k; split; assumption|]. split.
    { exists 0%Z. split; [lia|]. change (inject_Z 0) with 0. ring. }
    split.
    { field. lra. }
    split; [|split; [|split; [|split]]].
    2:{ apply Qltb_false in B. exact B. }
    2:{ rewrite (Qabs_div_pos _ _ Hr1). apply Qdiv_le_iff; [exact Hr1|]. apply Qdiv_le_iff; [exact Hr1|].
        apply (Qdiv_le_iff (Qabs area) S _ HS) in Hsq.
        assert (X : S * sp_rise1 * sp_rise1 == sp_rise1 * sp_rise1 * S) by ring. rewrite X. exact Hsq. }
    2:{ lra. }
    2:{ intro C. exfalso. lra. }
    intros h T Hh0 HhG HT Earea.
    assert (Hy : 0 <= h / S) by (apply Qdiv_pos_nonneg; assumption).
    destruct (Z.eq_dec k 1) as [K1|K1].
    + subst k. change (inject_Z 1) with 1 in Ek. rewrite Ek. lra.
    + assert (K2 : (2 <= k)%Z) by lia. specialize (Hpred K2).
      set (u := inject_Z (k - 1) * R) in *.
      assert (Hu : 0 <= u).
      { unfold u. apply Qmult_le_0_compat; [|lra]. change 0 with (inject_Z 0). rewrite <- Zle_Qle. lia. }
      assert (Eu : sp_rise1 == u + R).
      { rewrite Ek. unfold u, Z.sub. rewrite inject_Z_plus, inject_Z_opp. change (inject_Z 1) with 1. ring. }
      (* u^2 < |area|/S = T*(h/S);  AM-GM: (T + y)^2 >= 4*T*y *)
      set (y := h / S) in *.
      assert (Ey : Qabs area / S == T * y).
      { rewrite Earea. unfold y. field. lra. }
      rewrite Ey in Hpred.
      assert (AM : 4 * (T * y) <= (T + y) * (T + y)).
      { assert (Q0 : 0 <= (T - y) * (T - y)).
        { destruct (Qlt_le_dec (T - y) 0) as [N|N].
          - assert (X : (T - y) * (T - y) == (y - T) * (y - T)) by ring. rewrite X.
            apply Qmult_le_0_compat; lra.
          - apply Qmult_le_0_compat; lra. }
        assert (X : (T - y) * (T - y) == (T + y) * (T + y) - 4 * (T * y)) by ring.
        rewrite X in Q0. lra. }
      assert (L : 2 * u < T + y).
      { apply sq_lt_cancel; [lra|].
        assert (X : 2 * u * (2 * u) == 4 * (u * u)) by ring. rewrite X. lra. }
      rewrite Eu. lra.
Qed.

End Shortest.

(* ---------------------------------------------------------------------------------------------- *)
(* the `x or y` defaults of the ramps *)
Definition rise0_of (a : targs) : option Q := por (a_rise a) (a_fall a).
Definition fall0_of (a : targs) : option Q := por (a_fall a) (rise0_of a).

Lemma por_None x y : por x y = None <-> (x = None \/ exists v, x = Some v /\ v == 0) /\ y = None.
Proof.
  unfold por. destruct x as [v|].
  - destruct (Qeq_bool v 0) eqn:E.
    + apply Qeq_bool_eq in E. split.
      * intro H. split; [right; exists v; split; [reflexivity|exact E]|exact H].
      * intros [_ H]. exact H.
    + split; [discriminate|]. intros [[H|[w [H Hw]]] _]; [discriminate|].
      injection H as <-. apply Qeq_eq_bool in Hw. congruence.
  - split; [intro H; split; [left; reflexivity|exact H]|intros [_ H]; exact H].
Qed.

Lemma por_Some_nz x y v : x = Some v -> ~ v == 0 -> por x y = Some v.
Proof.
  intros -> H. unfold por. destruct (Qeq_bool v 0) eqn:E; [|reflexivity].
  apply Qeq_bool_eq in E. contradiction.
Qed.

Lemma rise0_None_fall0 a : rise0_of a = None -> fall0_of a = None.
Proof.
  intro H. unfold fall0_of. rewrite H. unfold rise0_of in H. apply por_None in H.
  destruct H as [_ Hf]. rewrite Hf. reflexivity.
Qed.

Lemma rise0_Some_fall0 a r : rise0_of a = Some r -> exists f, fall0_of a = Some f.
Proof.
  intro H. unfold fall0_of. rewrite H. unfold por. destruct (a_fall a) as [f|].
  - destruct (Qeq_bool f 0); eexists; reflexivity.
  - eexists; reflexivity.
Qed.

(* ---------------------------------------------------------------------------------------------- *)
(* inversion of the three calculation paths *)
Lemma OK_inj4 {A B C D : Type} (a a' : A) (b b' : B) (c c' : C) (d d' : D) :
  @OK (A * B * C * D) (a, b, c, d) = OK (a', b', c', d') -> a = a' /\ b = b' /\ c = c' /\ d = d'.
Proof. intro H. inversion H. repeat split; reflexivity. Qed.

(* the two forms of the area + duration feasibility test (see Model/Trap.v) *)
Lemma dur_tol_range : 0 <= dur_tol /\ dur_tol <= eps.
Proof. pose proof eps_nonneg. unfold dur_tol. destruct trap_possible_tolerant; lra. Qed.

Lemma dur_flat_spec d r f : r + f - dur_tol <= d ->
  (r + f <= d /\ dur_flat d r f == d - r - f) \/
  (d < r + f /\ r + f <= d + eps /\ dur_flat d r f == 0).
Proof.
  pose proof eps_nonneg as He. unfold dur_tol, dur_flat. destruct trap_possible_tolerant; intro H.
  - destruct (Qmax_spec (d - r - f) 0) as [[L E]|[L E]]; rewrite E.
    + destruct (Qeq_dec (d - r - f) 0) as [Z|Z].
      * left. split; lra.
      * right. assert (d - r - f < 0) by (destruct (Qle_lt_or_eq _ _ L) as [X|X]; [exact X|contradiction]).
        repeat split; lra.
    + left. split; [lra|reflexivity].
  - left. split; [lra|reflexivity].
Qed.

Lemma dur_flat_nonneg d r f : r + f - dur_tol <= d -> 0 <= dur_flat d r f.
Proof. intro H. destruct (dur_flat_spec d r f H) as [[L E]|[_ [_ E]]]; rewrite E; lra. Qed.

Lemma area_path_inv A dur ft r0 f0 G S R amp ro fl fo :
  area_path A dur ft r0 f0 G S R = OK (amp, ro, fl, fo) ->
  (exists d a' r fls f, dur = Some d /\ ft = None /\ r0 = None /\
      shortest_params A S G R = (a', r, fls, f) /\ r + fls + f <= d /\ fl = dur_flat d r f /\
      ~ r / 2 + f / 2 + fl == 0 /\ amp = A / (r / 2 + f / 2 + fl) /\ ro = Some r /\ fo = Some f) \/
  (exists d r f, dur = Some d /\ ft = None /\ r0 = Some r /\
      f = match f0 with None => r | Some f => f end /\ r + eps < d /\ r + f - dur_tol <= d /\
      fl = dur_flat d r f /\
      ~ r / 2 + f / 2 + fl == 0 /\ amp = A / (r / 2 + f / 2 + fl) /\ ro = Some r /\ fo = Some f) \/
  (exists t r f, ft = Some t /\ r0 = Some r /\ f0 = Some f /\ fl = t /\
      ~ r / 2 + f / 2 + t == 0 /\ amp = A / (r / 2 + f / 2 + t) /\ ro = Some r /\ fo = Some f /\
      (trap_flat_checks_duration = true -> forall d, dur = Some d -> Qabs (d - (r + t + f)) <= eps)) \/
  (exists r f, dur = None /\ ft = None /\ shortest_params A S G R = (amp, r, fl, f) /\
      ro = Some r /\ fo = Some f).
Proof.
  unfold area_path. cbv zeta. destruct dur as [d|], ft as [t|].
  - (* flat_time given *)
    destruct r0 as [r|]; [|discriminate]. destruct f0 as [f|]; [|discriminate].
    destruct (trap_flat_checks_duration && Qltb eps (Qabs (d - (r + t + f)))) eqn:C; [discriminate|].
    destruct (isz _) eqn:Z; [discriminate|]. apply isz_false in Z.
    intro H. apply OK_inj4 in H. destruct H as (<- & <- & <- & <-). right. right. left. exists t, r, f.
    repeat split; auto. intros Hc d' Hd'. injection Hd' as <-. rewrite Hc in C. cbn [andb] in C.
    apply Qltb_false in C. exact C.
  - destruct r0 as [r|].
    + destruct (Qle_bool d (r + eps)) eqn:L; [discriminate|]. apply Qle_bool_false in L.
      set (f := match f0 with None => r | Some f => f end).
      destruct (isz (d - (1 # 2) * r - (1 # 2) * f)) eqn:Z1; [discriminate|].
      destruct (Qle_bool (r + f - dur_tol) d && _) eqn:P; [|discriminate]. cbn [negb].
      apply andb_true_iff in P. destruct P as [P1 _]. apply Qle_bool_iff in P1.
      destruct (isz (r / 2 + f / 2 + dur_flat d r f)) eqn:Z; [discriminate|]. apply isz_false in Z.
      intro H. apply OK_inj4 in H. destruct H as (<- & <- & <- & <-). right. left. exists d, r, f. repeat split; auto.
    + destruct (shortest_params A S G R) as [[[a' r] fls] f] eqn:SP.
      destruct (Qltb d (r + fls + f)) eqn:L; [discriminate|]. apply Qltb_false in L.
      destruct (isz _) eqn:Z; [discriminate|]. apply isz_false in Z.
      intro H. apply OK_inj4 in H. destruct H as (<- & <- & <- & <-). left. exists d, a', r, fls, f. repeat split; auto.
  - destruct r0 as [r|]; [|discriminate]. destruct f0 as [f|]; [|discriminate].
    rewrite andb_false_r.
    destruct (isz _) eqn:Z; [discriminate|]. apply isz_false in Z.
    intro H. apply OK_inj4 in H. destruct H as (<- & <- & <- & <-). right. right. left. exists t, r, f.
    repeat split; auto. intros _ d' Hd'. discriminate.
  - destruct (shortest_params A S G R) as [[[a' r] fls] f] eqn:SP.
    intro H. apply OK_inj4 in H. destruct H as (<- & <- & <- & <-). right. right. right. exists r, f. repeat split; auto.
Qed.

Lemma flat_area_path_inv fa dur ft r0 f0 amp ro fl fo :
  flat_area_path fa dur ft r0 f0 = OK (amp, ro, fl, fo) ->
  dur = None /\ ft = Some fl /\ ~ fl == 0 /\ amp = fa / fl /\ ro = r0 /\ fo = f0.
Proof.
  unfold flat_area_path. destruct dur; [discriminate|]. destruct ft as [t|]; [|discriminate].
  destruct (isz t) eqn:Z; [discriminate|]. apply isz_false in Z.
  intro H. apply OK_inj4 in H. destruct H as (<- & <- & <- & <-). repeat split; auto.
Qed.

Definition amp_chosen_rise (amp S R : Q) : Q :=
  let r0 := ceil_raster (Qabs amp / S) R in if isz r0 then R else r0.

Lemma amplitude_path_inv h dur ft r0 f0 S R amp ro fl fo :
  amplitude_path h dur ft r0 f0 S R = OK (amp, ro, fl, fo) ->
  amp = h /\
  ((r0 = None /\ ro = Some (amp_chosen_rise h S R) /\ fo = Some (amp_chosen_rise h S R)) \/
   (r0 <> None /\ ro = r0 /\ fo = f0)) /\
  ((exists d r f, dur = Some d /\ ft = None /\ ro = Some r /\ fo = Some f /\ fl = d - r - f) \/
   (dur = None /\ ft = Some fl)).
Proof.
  unfold amplitude_path. fold (amp_chosen_rise h S R).
  destruct r0 as [r0v|]; cbn beta iota zeta; destruct dur as [d|], ft as [t|]; try discriminate.
  - destruct f0 as [f|]; [|discriminate].
    intro H. apply OK_inj4 in H. destruct H as (<- & <- & <- & <-).
    split; [reflexivity|]. split; [right; split; [discriminate|split; reflexivity]|].
    left. exists d, r0v, f. repeat split; auto.
  - intro H. apply OK_inj4 in H. destruct H as (<- & <- & <- & <-).
    split; [reflexivity|]. split; [right; split; [discriminate|split; reflexivity]|].
    right. split; reflexivity.
  - intro H. apply OK_inj4 in H. destruct H as (<- & <- & <- & <-).
    split; [reflexivity|]. split; [left; repeat split; reflexivity|].
    left. exists d, (amp_chosen_rise h S R), (amp_chosen_rise h S R). repeat split; auto.
  - intro H. apply OK_inj4 in H. destruct H as (<- & <- & <- & <-).
    split; [reflexivity|]. split; [left; repeat split; reflexivity|].
    right. split; reflexivity.
Qed.

(* ---------------------------------------------------------------------------------------------- *)
(* inversion of the tail and of make_trap *)

(* the clamp of rounding noise: a flat time in (-eps, 0) becomes 0, anything else is kept *)
Definition flat_rel (fl tf : Q) : Prop :=
  (0 <= fl /\ tf = fl) \/ (- eps < fl /\ fl < 0 /\ tf = 0).

Lemma clamp_flat_spec fl : Qltb (clamp_flat fl) 0 = false -> flat_rel fl (clamp_flat fl).
Proof.
  unfold clamp_flat, flat_rel. destruct (Qltb (- eps) fl) eqn:A; destruct (Qltb fl 0) eqn:B; cbn [andb]; intro H.
  - apply Qltb_lt in A, B. right. repeat split; auto.
  - apply Qltb_false in B. left. split; auto.
  - congruence.
  - apply Qltb_false in B. left. split; auto.
Qed.

Lemma flat_rel_keep fl tf : flat_rel fl tf -> 0 <= fl -> tf = fl.
Proof. intros [[_ E]|[_ [L _]]] H; [exact E|lra]. Qed.

Lemma flat_rel_nonneg fl tf : flat_rel fl tf -> 0 <= tf.
Proof. intros [[H E]|[_ [_ E]]]; rewrite E; [exact H|lra]. Qed.

Lemma finish_inv amp r0 fl f0 G S R d g : finish (amp, r0, fl, f0) G S R d = OK g ->
  t_amplitude g = amp /\ flat_rel fl (t_flat g) /\ t_delay g = d /\
  t_area g = amp * (t_flat g + t_rise g / 2 + t_fall g / 2) /\ t_flat_area g = amp * t_flat g /\
  match r0, f0 with
  | None, None => t_rise g = shortest_rise_time amp S R /\ t_fall g = shortest_rise_time amp S R
  | _, _ => r0 = Some (t_rise g) /\ f0 = Some (t_fall g)
  end /\
  0 < t_rise g /\ 0 < t_fall g /\ 0 <= t_flat g /\
  Qabs amp <= G + eps /\ Qabs amp / t_rise g <= S * (1 + eps) /\ Qabs amp / t_fall g <= S * (1 + eps).
Proof.
  unfold finish.
  set (rf := match r0, f0 with
             | None, None => let r := shortest_rise_time amp S R in (Some r, Some r)
             | _, _ => (r0, f0) end).
  assert (RF : forall r f, rf = (Some r, Some f) ->
     match r0, f0 with
     | None, None => r = shortest_rise_time amp S R /\ f = shortest_rise_time amp S R
     | _, _ => r0 = Some r /\ f0 = Some f end).
  { unfold rf. intros r f. destruct r0, f0; intro H; apply pair_equal_spec in H; destruct H as [H1 H2];
      try (split; [exact H1|exact H2]); try discriminate.
    injection H1 as <-. injection H2 as <-. split; reflexivity. }
  destruct rf as [ro fo].
  destruct (Qltb (G + eps) (Qabs amp)) eqn:C1; [discriminate|]. apply Qltb_false in C1.
  destruct ro as [r|]; [|discriminate].
  destruct (isz r); [discriminate|].
  destruct (Qltb (S * (1 + eps)) (Qabs amp / r)) eqn:C2; [discriminate|]. apply Qltb_false in C2.
  destruct fo as [f|]; [|discriminate].
  destruct (isz f); [discriminate|].
  destruct (Qltb (S * (1 + eps)) (Qabs amp / f)) eqn:C3; [discriminate|]. apply Qltb_false in C3.
  cbv zeta.
  destruct (Qle_bool r 0) eqn:Z1; [discriminate|]. apply Qle_bool_false in Z1.
  destruct (Qle_bool f 0) eqn:Z2; [discriminate|]. apply Qle_bool_false in Z2.
  cbn [orb].
  destruct (Qltb (clamp_flat fl) 0) eqn:Z3; [discriminate|].
  pose proof (clamp_flat_spec fl Z3) as FR. apply Qltb_false in Z3.
  intro H. injection H as <-. cbn [t_amplitude t_rise t_flat t_fall t_area t_flat_area t_delay].
  specialize (RF r f eq_refl). repeat split; auto.
Qed.

Definition delay_of (a : targs) : Q := opt_default (a_delay a) trap_default_delay.

Definition path_of (a : targs) : tresult path_out :=
  match a_area a, a_flat_area a, a_amplitude a with
  | Some area, None, None =>
    area_path area (a_duration a) (a_flat_time a) (rise0_of a) (fall0_of a)
              (eff_max_grad a) (eff_max_slew a) (raster_of a)
  | None, Some fa, None => flat_area_path fa (a_duration a) (a_flat_time a) (rise0_of a) (fall0_of a)
  | None, None, Some amp =>
    amplitude_path amp (a_duration a) (a_flat_time a) (rise0_of a) (fall0_of a) (eff_max_slew a) (raster_of a)
  | _, _, _ => Err E_must_supply
  end.

Lemma make_trap_inv a g : make_trap a = OK g ->
  0 < eff_max_grad a /\ 0 < eff_max_slew a /\ 0 < raster_of a /\
  exists p, path_of a = OK p /\
            finish p (eff_max_grad a) (eff_max_slew a) (raster_of a) (delay_of a) = OK g.
Proof.
  unfold make_trap, path_of. fold (rise0_of a). fold (fall0_of a). fold (delay_of a).
  destruct (a_channel_ok a); [|discriminate]. cbn [negb].
  destruct (Qltb 0 (eff_max_grad a)) eqn:HG; [|discriminate].
  destruct (Qltb 0 (eff_max_slew a)) eqn:HS; [|discriminate].
  destruct (Qltb 0 (raster_of a)) eqn:HR; [|discriminate]. cbn [andb negb].
  apply Qltb_lt in HG, HS, HR.
  intro H. split; [exact HG|]. split; [exact HS|]. split; [exact HR|].
  destruct (a_area a), (a_flat_area a), (a_amplitude a); try discriminate.
  all: match type of H with (if ?c then _ else _) = _ => destruct c; [discriminate|] end.
  all: match type of H with match ?p with OK _ => _ | Err _ => _ end = _ =>
         destruct p as [p'|] eqn:P; [|discriminate] end.
  all: exists p'; split; [reflexivity|exact H].
Qed.

(* ---------------------------------------------------------------------------------------------- *)
(* the theorems of Props/C11.v *)

Ltac trap_start H :=
  let HG := fresh "HG" in let HS := fresh "HS" in let HR := fresh "HR" in
  apply make_trap_inv in H;
  destruct H as (HG & HS & HR & [[[amp ro] fl] fo] & HP & HF);
  apply finish_inv in HF;
  destruct HF as (Eamp & Hflat & Edel & Earea & Efa & Hrf & Hrp & Hfp & Hflp & Lg & Lr & Lf).

Lemma ramps_of_some (ro fo : option Q) (r f : Q) (X Y : Prop) (gr gf : Q) :
  ro = Some r -> fo = Some f ->
  match ro, fo with
  | None, None => X /\ Y
  | _, _ => ro = Some gr /\ fo = Some gf
  end -> gr = r /\ gf = f.
Proof.
  intros -> -> [H1 H2]. injection H1 as <-. injection H2 as <-. split; reflexivity.
Qed.

Lemma path_area a A p : a_area a = Some A -> path_of a = OK p ->
  area_path A (a_duration a) (a_flat_time a) (rise0_of a) (fall0_of a)
            (eff_max_grad a) (eff_max_slew a) (raster_of a) = OK p /\
  a_flat_area a = None /\ a_amplitude a = None.
Proof.
  unfold path_of. intros ->. destruct (a_flat_area a), (a_amplitude a); try discriminate.
  intro H. repeat split; auto.
Qed.

Lemma path_flat_area a FA p : a_flat_area a = Some FA -> path_of a = OK p ->
  flat_area_path FA (a_duration a) (a_flat_time a) (rise0_of a) (fall0_of a) = OK p /\
  a_area a = None /\ a_amplitude a = None.
Proof.
  unfold path_of. intros ->. destruct (a_area a), (a_amplitude a); try discriminate.
  intro H. repeat split; auto.
Qed.

Lemma path_amplitude a h p : a_amplitude a = Some h -> path_of a = OK p ->
  amplitude_path h (a_duration a) (a_flat_time a) (rise0_of a) (fall0_of a)
                 (eff_max_slew a) (raster_of a) = OK p /\
  a_area a = None /\ a_flat_area a = None.
Proof.
  unfold path_of. intros ->. destruct (a_area a), (a_flat_area a); try discriminate.
  intro H. repeat split; auto.
Qed.

Lemma path_cases a p : path_of a = OK p ->
  (exists A, a_area a = Some A) \/ (exists FA, a_flat_area a = Some FA) \/ (exists h, a_amplitude a = Some h).
Proof.
  unfold path_of. destruct (a_area a) as [A|]; [left; eexists; reflexivity|].
  destruct (a_flat_area a) as [FA|]; [right; left; eexists; reflexivity|].
  destruct (a_amplitude a) as [h|]; [right; right; eexists; reflexivity|discriminate].
Qed.

Lemma raster_mult_nonneg (m : Z) R x : 0 < R -> (0 <= m)%Z -> x == inject_Z m * R -> 0 <= x.
Proof.
  intros HR Hm E. rewrite E. apply Qmult_le_0_compat; [|lra].
  change 0 with (inject_Z 0). rewrite <- Zle_Qle. exact Hm.
Qed.

(* the flat time computed by the area path is never negative (requested ones aside): this is where the
   plateau branch of the shortest-parameter routine needs its nonlinear argument *)
Lemma area_path_flat_nonneg A dur ft r0 f0 G S R amp ro fl fo : 0 < S -> 0 < G -> 0 < R ->
  area_path A dur ft r0 f0 G S R = OK (amp, ro, fl, fo) ->
  (forall t, ft = Some t -> 0 <= t) -> 0 <= fl.
Proof.
  intros HS HG HR HP Hreq. apply area_path_inv in HP. pose proof dur_tol_range as [Ht0 _].
  destruct HP as [(d' & a' & r & fls & f & _ & _ & _ & SP & Hmin & -> & _)
                 |[(d' & r & f & _ & _ & _ & _ & _ & Hle & -> & _)
                 |[(t' & r & f & Ct & _ & _ & -> & _)
                 |(r & f & _ & _ & SP & _)]]].
  - destruct (shortest_spec A _ _ _ HS HG HR _ _ _ _ SP) as (_ & _ & (m & Hm & Em) & _).
    pose proof (raster_mult_nonneg m R fls HR Hm Em). apply dur_flat_nonneg. lra.
  - apply dur_flat_nonneg. exact Hle.
  - apply Hreq. exact Ct.
  - destruct (shortest_spec A _ _ _ HS HG HR _ _ _ _ SP) as (_ & _ & (m & Hm & Em) & _).
    exact (raster_mult_nonneg m R fl HR Hm Em).
Qed.

(* whenever flat_time is requested, every path passes it on unchanged *)
Lemma path_flat_requested a amp ro fl fo t : path_of a = OK (amp, ro, fl, fo) ->
  a_flat_time a = Some t -> fl = t.
Proof.
  intros HP Ht.
  destruct (path_cases a _ HP) as [[A HA]|[[FA HA]|[h HA]]].
  - destruct (path_area a A _ HA HP) as (HP' & _ & _). apply area_path_inv in HP'.
    destruct HP' as [(d & a' & r & fls & f & _ & C & _)
                   |[(d & r & f & _ & C & _)
                   |[(t' & r & f & C & _ & _ & -> & _)
                   |(r & f & _ & C & _)]]]; rewrite Ht in C; try discriminate.
    injection C as ->. reflexivity.
  - destruct (path_flat_area a FA _ HA HP) as (HP' & _ & _). apply flat_area_path_inv in HP'.
    destruct HP' as (_ & C & _). rewrite Ht in C. injection C as ->. reflexivity.
  - destruct (path_amplitude a h _ HA HP) as (HP' & _ & _). apply amplitude_path_inv in HP'.
    destruct HP' as (_ & _ & [(d & r & f & _ & C & _)|(_ & C)]); rewrite Ht in C; [discriminate|].
    injection C as ->. reflexivity.
Qed.

Definition flat_request_nonneg (a : targs) : Prop := forall t, a_flat_time a = Some t -> 0 <= t.

Lemma div_den A r f fl : ~ r / 2 + f / 2 + fl == 0 ->
  A / (r / 2 + f / 2 + fl) * (r / 2 + fl + f / 2) == A.
Proof.
  intro H. assert (X : r / 2 + fl + f / 2 == r / 2 + f / 2 + fl) by ring.
  rewrite X. apply Qdiv_mul. exact H.
Qed.

(* requested area *)
Lemma trap_area_exact_l a g A : make_trap a = OK g -> a_area a = Some A -> flat_request_nonneg a ->
  t_amplitude g * (t_rise g / 2 + t_flat g + t_fall g / 2) == A.
Proof.
  intros H HA Hreq. trap_start H. destruct (path_area a A _ HA HP) as (HP' & _ & _).
  pose proof (area_path_flat_nonneg _ _ _ _ _ _ _ _ _ _ _ _ HS HG HR HP' Hreq) as Hfl0.
  rewrite (flat_rel_keep _ _ Hflat Hfl0).
  apply area_path_inv in HP'. rewrite Eamp.
  destruct HP' as [(d & a' & r & fls & f & _ & _ & _ & _ & _ & _ & Hden & -> & Hro & Hfo)
                 |[(d & r & f & _ & _ & _ & _ & _ & _ & _ & Hden & -> & Hro & Hfo)
                 |[(t & r & f & _ & _ & _ & -> & Hden & -> & Hro & Hfo & _)
                 |(r & f & _ & _ & SP & Hro & Hfo)]]];
    destruct (ramps_of_some _ _ _ _ _ _ _ _ Hro Hfo Hrf) as [-> ->].
  - apply div_den; exact Hden.
  - apply div_den; exact Hden.
  - apply div_den; exact Hden.
  - destruct (shortest_spec A _ _ _ HS HG HR _ _ _ _ SP) as (Ef & _ & _ & Har & _).
    rewrite Ef. rewrite <- Har. field.
Qed.

(* requested flat area *)
Lemma trap_flat_area_exact_l a g FA : make_trap a = OK g -> a_flat_area a = Some FA ->
  flat_request_nonneg a -> t_amplitude g * t_flat g == FA.
Proof.
  intros H HA Hreq. trap_start H. destruct (path_flat_area a FA _ HA HP) as (HP' & _ & _).
  apply flat_area_path_inv in HP'. destruct HP' as (_ & Hft & Hnz & -> & _ & _).
  rewrite (flat_rel_keep _ _ Hflat (Hreq _ Hft)).
  rewrite Eamp. field. exact Hnz.
Qed.

(* requested amplitude *)
Lemma trap_amplitude_exact_l a g h : make_trap a = OK g -> a_amplitude a = Some h -> t_amplitude g = h.
Proof.
  intros H HA. trap_start H. destruct (path_amplitude a h _ HA HP) as (HP' & _ & _).
  apply amplitude_path_inv in HP'. destruct HP' as (-> & _ & _). exact Eamp.
Qed.

(* derived fields *)
Lemma trap_area_field_l a g : make_trap a = OK g ->
  t_area g = t_amplitude g * (t_flat g + t_rise g / 2 + t_fall g / 2) /\
  t_flat_area g = t_amplitude g * t_flat g.
Proof.
  intros H. trap_start H. rewrite Eamp. split; assumption.
Qed.

(* effective limits, up to the code's slack *)
Lemma trap_within_limits_l a g : make_trap a = OK g ->
  Qabs (t_amplitude g) <= eff_max_grad a + eps /\
  0 < t_rise g /\ 0 < t_fall g /\
  Qabs (t_amplitude g) / t_rise g <= eff_max_slew a * (1 + eps) /\
  Qabs (t_amplitude g) / t_fall g <= eff_max_slew a * (1 + eps).
Proof.
  intros H. trap_start H. rewrite Eamp. repeat split; assumption.
Qed.

(* well-formed timing of every returned event *)
Lemma trap_wellformed_l a g : make_trap a = OK g -> 0 < t_rise g /\ 0 <= t_flat g /\ 0 < t_fall g.
Proof.
  intros H. trap_start H. repeat split; assumption.
Qed.

Lemma trap_flat_nonneg_l a g : make_trap a = OK g -> 0 <= t_flat g.
Proof. intro H. apply (trap_wellformed_l a g H). Qed.

Lemma trap_delay_l a g : make_trap a = OK g -> t_delay g = opt_default (a_delay a) trap_default_delay.
Proof. intros H. trap_start H. exact Edel. Qed.

(* ---- requested timing ------------------------------------------------------------------------- *)
Lemma trap_flat_time_l a g t : make_trap a = OK g -> a_flat_time a = Some t ->
  (0 <= t /\ t_flat g = t) \/ (- eps < t /\ t < 0 /\ t_flat g = 0).
Proof.
  intros H Ht. trap_start H. rewrite (path_flat_requested a _ _ _ _ t HP Ht) in Hflat. exact Hflat.
Qed.

(* with a requested duration (and no flat_time): flat_time = duration - rise - fall on the amplitude path,
   [dur_flat] (the same, possibly clamped at 0 when the feasibility test is eps-tolerant) on the area path *)
Lemma path_duration a amp ro fl fo d : path_of a = OK (amp, ro, fl, fo) ->
  0 < eff_max_grad a -> 0 < eff_max_slew a -> 0 < raster_of a ->
  a_duration a = Some d -> a_flat_time a = None ->
  exists r f, ro = Some r /\ fo = Some f /\
    ((a_amplitude a <> None /\ fl = d - r - f) \/
     (a_amplitude a = None /\ r + f - dur_tol <= d /\ fl = dur_flat d r f /\ (rise0_of a = None -> r + f <= d))).
Proof.
  intros HP HG HS HR Hd Hft. pose proof dur_tol_range as [Ht0 _].
  destruct (path_cases a _ HP) as [[A HA]|[[FA HA]|[h HA]]].
  - destruct (path_area a A _ HA HP) as (HP' & _ & Hna).
    apply area_path_inv in HP'.
    destruct HP' as [(d' & a' & r & fls & f & Cd & _ & _ & SP & Hmin & -> & _ & _ & Hro & Hfo)
                   |[(d' & r & f & Cd & _ & C0 & _ & _ & Hle & -> & _ & _ & Hro & Hfo)
                   |[(t' & r & f & C & _)
                   |(r & f & C & _)]]].
    + rewrite Hd in Cd. injection Cd as <-. exists r, f. split; [exact Hro|]. split; [exact Hfo|]. right.
      destruct (shortest_spec A _ _ _ HS HG HR _ _ _ _ SP) as (_ & _ & (m & Hm & Em) & _).
      pose proof (raster_mult_nonneg m _ fls HR Hm Em).
      split; [exact Hna|]. split; [lra|]. split; [reflexivity|]. intros _. lra.
    + rewrite Hd in Cd. injection Cd as <-. exists r, f. split; [exact Hro|]. split; [exact Hfo|]. right.
      split; [exact Hna|]. split; [exact Hle|]. split; [reflexivity|]. intro C. rewrite C in C0. discriminate.
    + rewrite Hft in C. discriminate.
    + rewrite Hd in C. discriminate.
  - destruct (path_flat_area a FA _ HA HP) as (HP' & _ & _). apply flat_area_path_inv in HP'.
    destruct HP' as (C & _). rewrite Hd in C. discriminate.
  - destruct (path_amplitude a h _ HA HP) as (HP' & _ & _). apply amplitude_path_inv in HP'.
    destruct HP' as (_ & _ & [(d' & r & f & Cd & _ & Hro & Hfo & ->)|(C & _)]);
      [|rewrite Hd in C; discriminate].
    rewrite Hd in Cd. injection Cd as <-. exists r, f. split; [exact Hro|]. split; [exact Hfo|]. left.
    split; [rewrite HA; discriminate|reflexivity].
Qed.

Lemma trap_duration_l a g d : make_trap a = OK g -> a_duration a = Some d -> a_flat_time a = None ->
  d <= t_rise g + t_flat g + t_fall g /\ t_rise g + t_flat g + t_fall g <= d + eps /\
  (t_rise g + t_fall g <= d -> t_rise g + t_flat g + t_fall g == d) /\
  (a_amplitude a = None -> rise0_of a = None -> t_rise g + t_flat g + t_fall g == d) /\
  (trap_possible_tolerant = false -> a_amplitude a = None -> t_rise g + t_flat g + t_fall g == d).
Proof.
  intros H Hd Hft. trap_start H. pose proof eps_nonneg as He.
  destruct (path_duration a _ _ _ _ d HP HG HS HR Hd Hft) as (r & f & Hro & Hfo & Hcases).
  destruct (ramps_of_some _ _ _ _ _ _ _ _ Hro Hfo Hrf) as [-> ->].
  destruct Hcases as [(Hamp & Efl)|(Hamp & Hle & Efl & Hch)].
  - (* amplitude path: plain difference, clamp of (-eps, 0) *)
    destruct Hflat as [[F0 E]|[F1 [F2 E]]]; rewrite E; clear E; subst fl.
    + split; [lra|]. split; [lra|]. split; [intros _; ring|].
      split; [intro C; contradiction|intros _ C; contradiction].
    + split; [lra|]. split; [lra|]. split; [intro C; lra|].
      split; [intro C; contradiction|intros _ C; contradiction].
  - (* area path *)
    pose proof (dur_flat_nonneg d r f Hle) as Hnn. rewrite <- Efl in Hnn.
    rewrite (flat_rel_keep _ _ Hflat Hnn). rewrite Efl.
    destruct (dur_flat_spec d r f Hle) as [[L E]|[L1 [L2 E]]]; rewrite E.
    + split; [lra|]. split; [lra|]. split; [intros _; ring|]. split; [intros _ _; ring|intros _ _; ring].
    + split; [lra|]. split; [lra|]. split; [intro C; lra|].
      split; [intros _ C; specialize (Hch C); lra|].
      intros Ht _. exfalso. unfold dur_tol in Hle. rewrite Ht in Hle. lra.
Qed.

(* area + flat_time + ramps + duration, when the code checks the redundant duration (proposed repair) *)
Lemma trap_flat_duration_l a g A d t : trap_flat_checks_duration = true -> make_trap a = OK g ->
  a_area a = Some A -> a_duration a = Some d -> a_flat_time a = Some t -> 0 <= t ->
  Qabs (d - (t_rise g + t_flat g + t_fall g)) <= eps.
Proof.
  intros Hc H HA Hd Hft Ht. trap_start H.
  destruct (path_area a A _ HA HP) as (HP' & _ & _). apply area_path_inv in HP'.
  destruct HP' as [(d' & a' & r & fls & f & _ & C & _)
                 |[(d' & r & f & _ & C & _)
                 |[(t' & r & f & Ct & _ & _ & -> & _ & _ & Hro & Hfo & Hchk)
                 |(r & f & _ & C & _)]]]; try (rewrite Hft in C; discriminate).
  rewrite Hft in Ct. injection Ct as <-.
  destruct (ramps_of_some _ _ _ _ _ _ _ _ Hro Hfo Hrf) as [-> ->].
  rewrite (flat_rel_keep _ _ Hflat Ht). apply (Hchk Hc d Hd).
Qed.

Definition supplied_timing (a : targs) : Prop :=
  a_area a = None \/ a_duration a <> None \/ a_flat_time a <> None.

Lemma trap_ramps_kept a g r : make_trap a = OK g -> rise0_of a = Some r -> supplied_timing a ->
  t_rise g = r /\ fall0_of a = Some (t_fall g).
Proof.
  intros H Hr0 Hsup. trap_start H.
  destruct (rise0_Some_fall0 a r Hr0) as [f0v Hf0].
  assert (K : ro = Some r /\ fo = Some f0v).
  { destruct (path_cases a _ HP) as [[A HA]|[[FA HA]|[h HA]]].
    - destruct (path_area a A _ HA HP) as (HP' & _ & _). apply area_path_inv in HP'.
      rewrite Hr0, Hf0 in HP'.
      destruct HP' as [(d' & a' & r' & fls & f & _ & _ & C & _)
                     |[(d' & r' & f & _ & _ & C & -> & _ & _ & _ & _ & _ & Hro & Hfo)
                     |[(t' & r' & f & _ & C & C' & _ & _ & _ & Hro & Hfo & _)
                     |(r' & f & Cd & Cf & _)]]].
      + discriminate.
      + injection C as <-. split; assumption.
      + injection C as <-. injection C' as <-. split; assumption.
      + destruct Hsup as [X|[X|X]]; [rewrite HA in X; discriminate|contradiction|contradiction].
    - destruct (path_flat_area a FA _ HA HP) as (HP' & _ & _). apply flat_area_path_inv in HP'.
      destruct HP' as (_ & _ & _ & _ & -> & ->). split; assumption.
    - destruct (path_amplitude a h _ HA HP) as (HP' & _ & _). apply amplitude_path_inv in HP'.
      destruct HP' as (_ & [(C & _)|(_ & -> & ->)] & _); [rewrite Hr0 in C; discriminate|].
      split; assumption. }
  destruct K as [Kr Kf]. destruct (ramps_of_some _ _ _ _ _ _ _ _ Kr Kf Hrf) as [-> ->].
  split; [reflexivity|exact Hf0].
Qed.

Lemma rise0_of_fall a f : a_fall a = Some f -> ~ f == 0 -> exists r, rise0_of a = Some r /\ (a_rise a = None -> r = f).
Proof.
  intros Hf Hnz. unfold rise0_of, por. rewrite Hf. destruct (a_rise a) as [v|].
  - destruct (Qeq_bool v 0); eexists; (split; [reflexivity|discriminate]).
  - eexists; split; [reflexivity|reflexivity].
Qed.

Lemma trap_timing_as_requested_l a g : make_trap a = OK g ->
  (forall t, a_flat_time a = Some t ->
     (0 <= t /\ t_flat g = t) \/ (- eps < t /\ t < 0 /\ t_flat g = 0)) /\
  (forall d, a_duration a = Some d -> a_flat_time a = None ->
     d <= t_rise g + t_flat g + t_fall g /\ t_rise g + t_flat g + t_fall g <= d + eps /\
     (t_rise g + t_fall g <= d -> t_rise g + t_flat g + t_fall g == d) /\
     (a_amplitude a = None -> rise0_of a = None -> t_rise g + t_flat g + t_fall g == d) /\
     (trap_possible_tolerant = false -> a_amplitude a = None -> t_rise g + t_flat g + t_fall g == d)) /\
  (supplied_timing a ->
     (forall r, a_rise a = Some r -> ~ r == 0 -> t_rise g = r /\ (a_fall a = None -> t_fall g = r)) /\
     (forall f, a_fall a = Some f -> ~ f == 0 -> t_fall g = f /\ (a_rise a = None -> t_rise g = f))).
Proof.
  intro H. split; [intros t; apply trap_flat_time_l; exact H|].
  split; [intros d; apply trap_duration_l; exact H|].
  intro Hsup. split.
  - intros r Hr Hnz.
    assert (R0 : rise0_of a = Some r) by (apply por_Some_nz; assumption).
    destruct (trap_ramps_kept a g r H R0 Hsup) as [E1 E2]. split; [exact E1|].
    intro Hf. unfold fall0_of in E2. rewrite Hf, R0 in E2. cbn [por] in E2. congruence.
  - intros f Hf Hnz. destruct (rise0_of_fall a f Hf Hnz) as [r [R0 Rn]].
    destruct (trap_ramps_kept a g r H R0 Hsup) as [E1 E2].
    assert (F0 : fall0_of a = Some f) by (apply por_Some_nz; assumption).
    split; [congruence|]. intro Hr. rewrite E1. apply Rn. exact Hr.
Qed.

(* ---- ramps chosen by the function are positive multiples of the raster ------------------------- *)
Definition chosen_ramps (a : targs) : Prop :=
  rise0_of a = None \/ (a_area a <> None /\ a_duration a = None /\ a_flat_time a = None).

Lemma shortest_rise_time_raster amp S R : 0 < R ->
  exists k, (1 <= k)%Z /\ shortest_rise_time amp S R == inject_Z k * R.
Proof.
  intro HR. unfold shortest_rise_time, ceil_raster.
  exists (Qceiling (Qmax (Qabs amp / S) R / R)). split; [|reflexivity].
  change 1%Z with (Qceiling (inject_Z 1)). apply Qceiling_resp_le. change (inject_Z 1) with 1.
  apply Qle_div_iff; [exact HR|]. pose proof (Qmax_ub_r (Qabs amp / S) R). lra.
Qed.

Lemma amp_chosen_rise_raster amp S R : 0 < S -> 0 < R ->
  exists k, (1 <= k)%Z /\ amp_chosen_rise amp S R == inject_Z k * R.
Proof.
  intros HS HR. unfold amp_chosen_rise. destruct (isz _) eqn:Z.
  - exists 1%Z. split; [lia|]. change (inject_Z 1) with 1. ring.
  - apply isz_false in Z. unfold ceil_raster in *.
    set (n := Qceiling (Qabs amp / S / R)) in *. exists n. split; [|reflexivity].
    assert (Hn : (0 <= n)%Z).
    { apply ceil_raster_count_nonneg; [exact HR|]. apply Qdiv_pos_nonneg; [apply Qabs_nonneg|exact HS]. }
    destruct (Z.eq_dec n 0) as [E|E]; [|lia]. exfalso. apply Z. rewrite E. change (inject_Z 0) with 0. ring.
Qed.

Lemma trap_chosen_on_raster_positive_l a g : make_trap a = OK g -> chosen_ramps a ->
  exists k, (1 <= k)%Z /\ t_rise g == inject_Z k * raster_of a /\ t_fall g = t_rise g.
Proof.
  intros H Hch. trap_start H.
  destruct (path_cases a _ HP) as [[A HA]|[[FA HA]|[h HA]]].
  - destruct (path_area a A _ HA HP) as (HP' & _ & _). apply area_path_inv in HP'.
    destruct HP' as [(d' & a' & r & fls & f & _ & _ & _ & SP & _ & _ & _ & _ & Hro & Hfo)
                   |[(d' & r & f & Cd & _ & C & _)
                   |[(t' & r & f & Ct & C & _)
                   |(r & f & _ & _ & SP & Hro & Hfo)]]].
    + destruct (ramps_of_some _ _ _ _ _ _ _ _ Hro Hfo Hrf) as [-> ->].
      destruct (shortest_spec A _ _ _ HS HG HR _ _ _ _ SP) as (Ef & (k & Hk & Ek) & _).
      exists k. repeat split; assumption.
    + destruct Hch as [X|(_ & X & _)]; [rewrite C in X; discriminate|rewrite Cd in X; discriminate].
    + destruct Hch as [X|(_ & _ & X)]; [rewrite C in X; discriminate|rewrite Ct in X; discriminate].
    + destruct (ramps_of_some _ _ _ _ _ _ _ _ Hro Hfo Hrf) as [-> ->].
      destruct (shortest_spec A _ _ _ HS HG HR _ _ _ _ SP) as (Ef & (k & Hk & Ek) & _).
      exists k. repeat split; assumption.
  - destruct (path_flat_area a FA _ HA HP) as (HP' & HnA & _). apply flat_area_path_inv in HP'.
    destruct HP' as (_ & _ & _ & _ & -> & ->).
    destruct Hch as [X|(X & _)]; [|rewrite HnA in X; contradiction].
    rewrite X, (rise0_None_fall0 a X) in Hrf. destruct Hrf as [E1 E2].
    destruct (shortest_rise_time_raster amp (eff_max_slew a) (raster_of a) HR) as (k & Hk & Ek).
    exists k. rewrite E1, E2. repeat split; assumption.
  - destruct (path_amplitude a h _ HA HP) as (HP' & HnA & _). apply amplitude_path_inv in HP'.
    destruct HP' as (_ & [(_ & Hro & Hfo)|(C & _)] & _).
    + destruct (ramps_of_some _ _ _ _ _ _ _ _ Hro Hfo Hrf) as [-> E2].
      destruct (amp_chosen_rise_raster h _ _ HS HR) as (k & Hk & Ek).
      exists k. rewrite <- E2 in Ek. repeat split; try assumption. congruence.
    + destruct Hch as [X|(X & _)]; [contradiction|rewrite HnA in X; contradiction].
Qed.

Lemma trap_area_only_flat_raster_l a g A : make_trap a = OK g ->
  a_area a = Some A -> a_duration a = None -> a_flat_time a = None ->
  exists m, (0 <= m)%Z /\ t_flat g == inject_Z m * raster_of a.
Proof.
  intros H HA Hd Hft. trap_start H.
  destruct (path_area a A _ HA HP) as (HP' & _ & _). apply area_path_inv in HP'.
  destruct HP' as [(d' & a' & r & fls & f & C & _)
                 |[(d' & r & f & C & _)
                 |[(t' & r & f & C & _)
                 |(r & f & _ & _ & SP & Hro & Hfo)]]];
    try (rewrite Hd in C; discriminate); try (rewrite Hft in C; discriminate).
  destruct (shortest_spec A _ _ _ HS HG HR _ _ _ _ SP) as (_ & _ & (m & Hm & Em) & _).
  rewrite (flat_rel_keep _ _ Hflat (raster_mult_nonneg m _ fl HR Hm Em)).
  exists m. split; assumption.
Qed.

(* ---- area-only request: at most two rasters above ANY continuous-time trapezoid within the limits *)
Lemma trap_near_optimal_l a g A : make_trap a = OK g ->
  a_area a = Some A -> a_duration a = None -> a_flat_time a = None ->
  forall c rc fc flc : Q,
    0 < rc -> 0 < flc -> 0 <= fc ->
    Qabs c <= eff_max_grad a -> Qabs c / rc <= eff_max_slew a -> Qabs c / flc <= eff_max_slew a ->
    c * (rc / 2 + fc + flc / 2) == A ->
    t_rise g + t_flat g + t_fall g <= rc + fc + flc + 2 * raster_of a.
Proof.
  intros H HA Hd Hft c rc fc flc Hrc Hflc Hfc Hcg Hcr Hcf Harea. trap_start H.
  destruct (path_area a A _ HA HP) as (HP' & _ & _). apply area_path_inv in HP'.
  destruct HP' as [(d' & a' & r & fls & f & C & _)
                 |[(d' & r & f & C & _)
                 |[(t' & r & f & C & _)
                 |(r & f & _ & _ & SP & Hro & Hfo)]]];
    try (rewrite Hd in C; discriminate); try (rewrite Hft in C; discriminate).
  destruct (ramps_of_some _ _ _ _ _ _ _ _ Hro Hfo Hrf) as [-> ->].
  destruct (shortest_spec A _ _ _ HS HG HR _ _ _ _ SP) as (_ & _ & (m & Hm & Em) & _ & Hopt & _).
  rewrite (flat_rel_keep _ _ Hflat (raster_mult_nonneg m _ fl HR Hm Em)).
  set (T := rc / 2 + fc + flc / 2) in *.
  assert (HT : 0 < T) by (unfold T; rewrite !Qhalf_mul; lra).
  assert (EA : Qabs A == Qabs c * T).
  { rewrite <- Harea. rewrite Qabs_Qmult. rewrite (Qabs_pos T); [reflexivity|lra]. }
  specialize (Hopt (Qabs c) T (Qabs_nonneg c) Hcg HT EA).
  assert (H1 : Qabs c / eff_max_slew a <= rc).
  { apply Qdiv_le_iff; [exact HS|]. apply Qdiv_le_iff in Hcr; [|exact Hrc]. rewrite Qmult_comm. exact Hcr. }
  assert (H2 : Qabs c / eff_max_slew a <= flc).
  { apply Qdiv_le_iff; [exact HS|]. apply Qdiv_le_iff in Hcf; [|exact Hflc]. rewrite Qmult_comm. exact Hcf. }
  unfold T in Hopt. rewrite !Qhalf_mul in Hopt. lra.
Qed.

(* ---------------------------------------------------------------------------------------------- *)
(* example calls for the non-vacuity Examples of Props/C11.v (default system of pypulseq:
   40 mT/m, 170 T/m/s at gamma = 42.576 MHz/T, raster 10 us) *)
Definition ex_sys : tsys := {| s_max_grad := 1703040; s_max_slew := 7237920000; s_raster := 1 # 100000 |}.
Definition ex_args : targs :=
  {| a_channel_ok := true; a_amplitude := None; a_area := None; a_delay := None; a_duration := None;
     a_fall := None; a_flat_area := None; a_flat_time := None; a_max_grad := None; a_max_slew := None;
     a_rise := None; a_sys := ex_sys |}.
Definition with_area (a : targs) v := {| a_channel_ok := a_channel_ok a; a_amplitude := a_amplitude a; a_area := Some v;
  a_delay := a_delay a; a_duration := a_duration a; a_fall := a_fall a; a_flat_area := a_flat_area a;
  a_flat_time := a_flat_time a; a_max_grad := a_max_grad a; a_max_slew := a_max_slew a; a_rise := a_rise a;
  a_sys := a_sys a |}.
Definition with_amplitude (a : targs) v := {| a_channel_ok := a_channel_ok a; a_amplitude := Some v; a_area := a_area a;
  a_delay := a_delay a; a_duration := a_duration a; a_fall := a_fall a; a_flat_area := a_flat_area a;
  a_flat_time := a_flat_time a; a_max_grad := a_max_grad a; a_max_slew := a_max_slew a; a_rise := a_rise a;
  a_sys := a_sys a |}.
Definition with_flat_area (a : targs) v := {| a_channel_ok := a_channel_ok a; a_amplitude := a_amplitude a; a_area := a_area a;
  a_delay := a_delay a; a_duration := a_duration a; a_fall := a_fall a; a_flat_area := Some v;
  a_flat_time := a_flat_time a; a_max_grad := a_max_grad a; a_max_slew := a_max_slew a; a_rise := a_rise a;
  a_sys := a_sys a |}.
Definition with_duration (a : targs) v := {| a_channel_ok := a_channel_ok a; a_amplitude := a_amplitude a; a_area := a_area a;
  a_delay := a_delay a; a_duration := Some v; a_fall := a_fall a; a_flat_area := a_flat_area a;
  a_flat_time := a_flat_time a; a_max_grad := a_max_grad a; a_max_slew := a_max_slew a; a_rise := a_rise a;
  a_sys := a_sys a |}.
Definition with_flat_time (a : targs) v := {| a_channel_ok := a_channel_ok a; a_amplitude := a_amplitude a; a_area := a_area a;
  a_delay := a_delay a; a_duration := a_duration a; a_fall := a_fall a; a_flat_area := a_flat_area a;
  a_flat_time := Some v; a_max_grad := a_max_grad a; a_max_slew := a_max_slew a; a_rise := a_rise a;
  a_sys := a_sys a |}.
Definition with_rise (a : targs) v := {| a_channel_ok := a_channel_ok a; a_amplitude := a_amplitude a; a_area := a_area a;
  a_delay := a_delay a; a_duration := a_duration a; a_fall := a_fall a; a_flat_area := a_flat_area a;
  a_flat_time := a_flat_time a; a_max_grad := a_max_grad a; a_max_slew := a_max_slew a; a_rise := Some v;
  a_sys := a_sys a |}.
Definition with_fall (a : targs) v := {| a_channel_ok := a_channel_ok a; a_amplitude := a_amplitude a; a_area := a_area a;
  a_delay := a_delay a; a_duration := a_duration a; a_fall := Some v; a_flat_area := a_flat_area a;
  a_flat_time := a_flat_time a; a_max_grad := a_max_grad a; a_max_slew := a_max_slew a; a_rise := a_rise a;
  a_sys := a_sys a |}.
Definition with_max_slew (a : targs) v := {| a_channel_ok := a_channel_ok a; a_amplitude := a_amplitude a; a_area := a_area a;
  a_delay := a_delay a; a_duration := a_duration a; a_fall := a_fall a; a_flat_area := a_flat_area a;
  a_flat_time := a_flat_time a; a_max_grad := a_max_grad a; a_max_slew := Some v; a_rise := a_rise a;
  a_sys := a_sys a |}.

Definition us (n : Z) : Q := inject_Z n * (1 # 1000000).
Definition is_ok {A} (r : tresult A) : bool := match r with OK _ => true | Err _ => false end.
Definition err_is {A} (r : tresult A) (e : trap_err) : bool :=
  match r with
  | OK _ => false
  | Err e' => match e, e' with
              | E_min_duration, E_min_duration
              | E_not_possible, E_not_possible | E_amp, E_amp | E_slew_rise, E_slew_rise
              | E_slew_fall, E_slew_fall | E_unbound, E_unbound | E_timing, E_timing => true
              | _, _ => false end
  end.

(* ---- an area-only request on a system with positive limits always returns an event: the shortest-
   parameter routine never produces a negative flat time (plateau branch: nonlinear argument in
   [shortest_spec]) and its amplitude and ramps pass the limit and timing checks --------------------- *)
Lemma trap_area_only_total_l a A : a_channel_ok a = true -> a_area a = Some A ->
  a_flat_area a = None -> a_amplitude a = None -> a_duration a = None -> a_flat_time a = None ->
  0 < eff_max_grad a -> 0 < eff_max_slew a -> 0 < raster_of a ->
  exists g, make_trap a = OK g.
Proof.
  intros Hc HA Hfa Ham Hd Hft HG HS HR.
  unfold make_trap. rewrite Hc, HA, Hfa, Ham, Hd, Hft. cbn [negb is_some andb].
  apply Qltb_lt in HG, HS, HR. rewrite HG, HS, HR. cbn [andb negb].
  apply Qltb_lt in HG, HS, HR.
  unfold area_path.
  destruct (shortest_params A (eff_max_slew a) (eff_max_grad a) (raster_of a)) as [[[amp r] fl] f] eqn:SP.
  destruct (shortest_spec A _ _ _ HS HG HR _ _ _ _ SP)
    as (Ef & (k & Hk & Ek) & (m & Hm & Em) & _ & _ & Lg & Ls & _).
  subst f. unfold finish.
  assert (Hr : 0 < r).
  { rewrite Ek. apply Qmult_lt_0_compat; [|exact HR]. change 0 with (inject_Z 0). rewrite <- Zlt_Qlt. lia. }
  pose proof (raster_mult_nonneg m _ fl HR Hm Em) as Hfl.
  pose proof eps_nonneg as He.
  assert (Ls' : Qabs amp / r <= eff_max_slew a * (1 + eps)).
  { eapply Qle_trans; [exact Ls|]. rewrite <- (Qmult_1_r (eff_max_slew a)) at 1.
    rewrite (Qmult_comm (eff_max_slew a) 1), (Qmult_comm (eff_max_slew a) (1 + eps)).
    apply Qmult_le_compat_r; lra. }
  assert (B0 : isz r = false).
  { destruct (isz r) eqn:E; [|reflexivity]. apply isz_true in E. lra. }
  assert (B1 : Qle_bool r 0 = false).
  { destruct (Qle_bool r 0) eqn:E; [|reflexivity]. apply Qle_bool_iff in E. lra. }
  assert (B2 : clamp_flat fl = fl).
  { unfold clamp_flat. destruct (Qltb fl 0) eqn:E; [apply Qltb_lt in E; lra|].
    rewrite andb_false_r. reflexivity. }
  assert (B2' : Qltb fl 0 = false).
  { destruct (Qltb fl 0) eqn:E; [|reflexivity]. apply Qltb_lt in E. lra. }
  assert (B3 : Qltb (eff_max_grad a + eps) (Qabs amp) = false).
  { destruct (Qltb (eff_max_grad a + eps) (Qabs amp)) eqn:E; [|reflexivity]. apply Qltb_lt in E. lra. }
  assert (B4 : Qltb (eff_max_slew a * (1 + eps)) (Qabs amp / r) = false).
  { destruct (Qltb (eff_max_slew a * (1 + eps)) (Qabs amp / r)) eqn:E; [|reflexivity]. apply Qltb_lt in E. lra. }
  rewrite B3, B0, B4. cbv zeta. rewrite B2, B1, B2'. cbn [orb]. eexists. reflexivity.
Qed.
