(* Proofs/TrapProofs.v — lemmas about Model/Trap.v (make_trapezoid). *)
From Coq Require Import ZArith QArith Qround Qabs Bool Lia Lqa.
From PV Require Import Base.QUtil Gen.GenTrap Model.Trap.
Open Scope Q_scope.

(* ---------------------------------------------------------------------------------------------- *)
(* arithmetic helpers *)

Lemma isz_true q : isz q = true -> q == 0.
Proof. unfold isz. apply Qeq_bool_eq. Qed.
Lemma isz_false q : isz q = false -> ~ q == 0.
Proof. unfold isz. intros H E. apply Qeq_eq_bool in E. congruence. Qed.

Lemma Qltb_false a b : Qltb a b = false -> b <= a.
Proof. unfold Qltb. intro H. apply negb_false_iff in H. apply Qle_bool_iff in H. exact H. Qed.

Lemma Qle_bool_false a b : Qle_bool a b = false -> b < a.
Proof.
  intro H. apply Qnot_le_lt. intro L. apply Qle_bool_iff in L. congruence.
Qed.

Lemma eps_nonneg : 0 <= eps.
Proof. unfold eps, trap_eps. apply Qle_bool_iff. vm_compute. reflexivity. Qed.

Lemma Qdiv_mul x b : ~ b == 0 -> x / b * b == x.
Proof. intro H. field. exact H. Qed.

Lemma Qdiv_le_iff x b c : 0 < b -> (x / b <= c <-> x <= c * b).
Proof.
  intro Hb. assert (E : x / b * b == x) by (apply Qdiv_mul; lra).
  rewrite <- E at 2. symmetry. apply Qmult_le_r. exact Hb.
Qed.
Lemma Qdiv_lt_iff x b c : 0 < b -> (x / b < c <-> x < c * b).
Proof.
  intro Hb. assert (E : x / b * b == x) by (apply Qdiv_mul; lra).
  rewrite <- E at 2. symmetry. apply Qmult_lt_r. exact Hb.
Qed.
Lemma Qle_div_iff x b c : 0 < b -> (c <= x / b <-> c * b <= x).
Proof.
  intro Hb. assert (E : x / b * b == x) by (apply Qdiv_mul; lra).
  rewrite <- E at 2. symmetry. apply Qmult_le_r. exact Hb.
Qed.
Lemma Qlt_div_iff x b c : 0 < b -> (c < x / b <-> c * b < x).
Proof.
  intro Hb. assert (E : x / b * b == x) by (apply Qdiv_mul; lra).
  rewrite <- E at 2. symmetry. apply Qmult_lt_r. exact Hb.
Qed.

Lemma Qabs_div_pos a b : 0 < b -> Qabs (a / b) == Qabs a / b.
Proof.
  intro Hb. unfold Qdiv. rewrite Qabs_Qmult.
  rewrite (Qabs_pos (/ b)); [reflexivity|]. apply Qlt_le_weak, Qinv_lt_0_compat, Hb.
Qed.

Lemma Qdiv_pos_nonneg a b : 0 <= a -> 0 < b -> 0 <= a / b.
Proof. intros Ha Hb. apply Qle_div_iff; [exact Hb|]. lra. Qed.

Lemma Qmax_spec a b : (a <= b /\ Qmax a b = b) \/ (b < a /\ Qmax a b = a).
Proof.
  unfold Qmax. destruct (Qle_bool a b) eqn:E.
  - left. split; [apply Qle_bool_iff, E|reflexivity].
  - right. split; [apply Qle_bool_false, E|reflexivity].
Qed.

Lemma inject_Z_le_iff (x y : Z) : (x <= y)%Z <-> inject_Z x <= inject_Z y.
Proof. rewrite Zle_Qle. reflexivity. Qed.

(* Qceiling is the least integer above *)
Lemma Qceiling_le_iff (x : Q) (k : Z) : (Qceiling x <= k)%Z <-> x <= inject_Z k.
Proof.
  split; intro H.
  - pose proof (Qle_ceiling x). rewrite Zle_Qle in H. lra.
  - pose proof (Qceiling_lt x) as L. 
    assert (inject_Z (Qceiling x - 1) < inject_Z k) by lra.
    rewrite <- Zlt_Qlt in H0. lia.
Qed.

(* ---- ceil_raster: math.ceil(t / r) * r -------------------------------------------------------- *)
Lemma ceil_raster_ge t r : 0 < r -> t <= ceil_raster t r.
Proof.
  intro Hr. unfold ceil_raster. pose proof (Qle_ceiling (t / r)) as H.
  apply Qdiv_le_iff in H; [exact H|exact Hr].
Qed.

Lemma ceil_raster_lt t r : 0 < r -> ceil_raster t r < t + r.
Proof.
  intro Hr. unfold ceil_raster. pose proof (Qceiling_lt (t / r)) as H.
  unfold Z.sub in H. rewrite inject_Z_plus, inject_Z_opp in H. change (inject_Z 1) with 1 in H.
  assert (H1 : inject_Z (Qceiling (t / r)) - 1 < t / r) by lra.
  apply Qlt_div_iff in H1; [|exact Hr]. lra.
Qed.

(* it is the least multiple of the raster that is >= t *)
Lemma ceil_raster_least t r (k : Z) : 0 < r -> t <= inject_Z k * r -> ceil_raster t r <= inject_Z k * r.
Proof.
  intros Hr H. unfold ceil_raster. apply Qmult_le_r; [exact Hr|].
  rewrite <- Zle_Qle. apply Qceiling_le_iff. apply Qdiv_le_iff; assumption.
Qed.

Lemma ceil_raster_count_nonneg t r : 0 < r -> 0 <= t -> (0 <= Qceiling (t / r))%Z.
Proof.
  intros Hr Ht. assert (H : (Qceiling 0 <= Qceiling (t / r))%Z).
  { apply Qceiling_resp_le. apply Qdiv_pos_nonneg; assumption. }
  exact H.
Qed.

(* ---- ceil_sqrt_div: exact ceil(sqrt(x)/r) ------------------------------------------------------ *)
Lemma ceil_sqrt_div_nonneg x r : (0 <= ceil_sqrt_div x r)%Z.
Proof. apply Z.sqrt_up_nonneg. Qed.

Lemma sq_le_inject (m : Z) (y : Q) : y <= inject_Z (m * m) <-> (Qceiling y <= m * m)%Z.
Proof. symmetry. apply Qceiling_le_iff. Qed.

(* n = ceil_sqrt_div x r is the least non-negative integer with (n*r)^2 >= x *)
Lemma ceil_sqrt_div_iff x r (m : Z) : 0 < r -> 0 <= x -> (0 <= m)%Z ->
  ((ceil_sqrt_div x r <= m)%Z <-> x <= (inject_Z m * r) * (inject_Z m * r)).
Proof.
  intros Hr Hx Hm. unfold ceil_sqrt_div.
  assert (Hrr : 0 < r * r) by (apply Qmult_lt_0_compat; exact Hr).
  assert (Hc : (0 <= Qceiling (x / (r * r)))%Z).
  { apply (ceil_raster_count_nonneg x (r * r)); assumption. }
  rewrite <- (Z.sqrt_up_le_square _ m Hc Hm).
  rewrite Qceiling_le_iff. rewrite inject_Z_mult.
  rewrite (Qdiv_le_iff x (r * r) _ Hrr).
  assert (E : inject_Z m * inject_Z m * (r * r) == inject_Z m * r * (inject_Z m * r)) by ring.
  rewrite E. reflexivity.
Qed.

Lemma ceil_sqrt_div_spec x r : 0 < r -> 0 <= x ->
  x <= (inject_Z (ceil_sqrt_div x r) * r) * (inject_Z (ceil_sqrt_div x r) * r).
Proof.
  intros Hr Hx. apply (ceil_sqrt_div_iff x r _ Hr Hx (ceil_sqrt_div_nonneg x r)). lia.
Qed.

Lemma ceil_sqrt_div_least x r (m : Z) : 0 < r -> 0 <= x -> (0 <= m)%Z ->
  x <= (inject_Z m * r) * (inject_Z m * r) -> (ceil_sqrt_div x r <= m)%Z.
Proof. intros Hr Hx Hm H. apply ceil_sqrt_div_iff; assumption. Qed.

(* strictly below: the predecessor is too small *)
Lemma ceil_sqrt_div_pred x r : 0 < r -> 0 <= x -> (1 <= ceil_sqrt_div x r)%Z ->
  (inject_Z (ceil_sqrt_div x r - 1) * r) * (inject_Z (ceil_sqrt_div x r - 1) * r) < x.
Proof.
  intros Hr Hx H1. apply Qnot_le_lt. intro H.
  apply (ceil_sqrt_div_iff x r (ceil_sqrt_div x r - 1) Hr Hx) in H; lia.
Qed.

(* ---------------------------------------------------------------------------------------------- *)
(* squares *)
Lemma sq_le_mono x y : 0 <= x -> x <= y -> x * x <= y * y.
Proof.
  intros Hx Hxy. apply Qle_trans with (y * x).
  - apply Qmult_le_compat_r; [exact Hxy|exact Hx].
  - rewrite (Qmult_comm y x). apply Qmult_le_compat_r; lra.
Qed.

Lemma sq_lt_cancel x y : 0 <= y -> x * x < y * y -> x < y.
Proof.
  intros Hy H. apply Qnot_le_lt. intro L. pose proof (sq_le_mono y x Hy L). lra.
Qed.

Lemma mul_pos_lt_cancel_l a x y : 0 < a -> a * x < a * y -> x < y.
Proof. intros Ha H. apply (Qmult_lt_l x y a Ha). exact H. Qed.

Lemma inject_Z_mul_lt_cancel (k m : Z) r : 0 < r -> inject_Z k * r < inject_Z m * r -> (k < m)%Z.
Proof. intros Hr H. apply Qmult_lt_r in H; [|exact Hr]. rewrite <- Zlt_Qlt in H. exact H. Qed.
Lemma inject_Z_mul_le_cancel (k m : Z) r : 0 < r -> inject_Z k * r <= inject_Z m * r -> (k <= m)%Z.
Proof. intros Hr H. apply Qmult_le_r in H; [|exact Hr]. rewrite <- Zle_Qle in H. exact H. Qed.

(* Qmax of a raster multiple and the raster is a positive raster multiple *)
Lemma Qmax_raster (c : Z) r : 0 < r ->
  exists k, (1 <= k)%Z /\ (c <= k)%Z /\ Qmax (inject_Z c * r) r == inject_Z k * r /\
            (k = 1%Z \/ k = c).
Proof.
  intro Hr. destruct (Qmax_spec (inject_Z c * r) r) as [[L E]|[L E]]; rewrite E.
  - exists 1%Z. split; [lia|]. split.
    + apply (inject_Z_mul_le_cancel c 1 r Hr). change (inject_Z 1) with 1. lra.
    + split; [change (inject_Z 1) with 1; ring|left; reflexivity].
  - exists c. assert ((1 < c)%Z).
    { apply (inject_Z_mul_lt_cancel 1 c r Hr). change (inject_Z 1) with 1. lra. }
    split; [lia|]. split; [lia|]. split; [reflexivity|right; reflexivity].
Qed.

(* ---------------------------------------------------------------------------------------------- *)
(* calculate_shortest_params_for_area *)
Section Shortest.
Variables (area S G R : Q).
Hypothesis HS : 0 < S.
Hypothesis HG : 0 < G.
Hypothesis HR : 0 < R.

Definition sp_rise1 : Q := Qmax (inject_Z (ceil_sqrt_div (Qabs area / S) R) * R) R.

Lemma absS_nonneg : 0 <= Qabs area / S.
Proof. apply Qdiv_pos_nonneg; [apply Qabs_nonneg|exact HS]. Qed.

Lemma rise1_facts : exists k, (1 <= k)%Z /\ sp_rise1 == inject_Z k * R /\
  Qabs area / S <= sp_rise1 * sp_rise1 /\
  ((2 <= k)%Z -> (inject_Z (k - 1) * R) * (inject_Z (k - 1) * R) < Qabs area / S).
Proof.
  unfold sp_rise1. set (n := ceil_sqrt_div (Qabs area / S) R).
  pose proof (ceil_sqrt_div_nonneg (Qabs area / S) R) as Hn. fold n in Hn.
  pose proof (ceil_sqrt_div_spec (Qabs area / S) R HR absS_nonneg) as Hsp. fold n in Hsp.
  destruct (Qmax_raster n R HR) as [k [Hk1 [Hnk [E Hor]]]].
  exists k. split; [exact Hk1|]. split; [exact E|]. split.
  - rewrite E. eapply Qle_trans; [exact Hsp|]. apply sq_le_mono.
    + apply Qmult_le_0_compat; [|lra]. change 0 with (inject_Z 0). rewrite <- Zle_Qle. exact Hn.
    + apply Qmult_le_compat_r; [|lra]. rewrite <- Zle_Qle. exact Hnk.
  - intro H2. destruct Hor as [H1|Hc]; [lia|]. subst k.
    apply (ceil_sqrt_div_pred (Qabs area / S) R HR absS_nonneg). fold n. lia.
Qed.

Lemma rise1_pos : 0 < sp_rise1.
Proof.
  destruct rise1_facts as [k [Hk [E _]]]. rewrite E.
  apply Qmult_lt_0_compat; [|exact HR]. change 0 with (inject_Z 0). rewrite <- Zlt_Qlt. lia.
Qed.

(* everything the theorems need about the returned tuple *)
Lemma shortest_spec amp r fl f : shortest_params area S G R = (amp, r, fl, f) ->
  f = r /\
  (exists k, (1 <= k)%Z /\ r == inject_Z k * R) /\
  (exists m, (0 <= m)%Z /\ fl == inject_Z m * R) /\
  amp * (r + fl) == area /\
  (* at most two rasters above any continuous-time trapezoid of this area: plateau amplitude h in
     [0, G], area-equivalent duration T (area = h*T), ramps at least h/S *)
  (forall h T, 0 <= h -> h <= G -> 0 < T -> Qabs area == h * T -> r + fl + f <= T + h / S + 2 * R).
Proof.
  unfold shortest_params. fold sp_rise1.
  destruct rise1_facts as [k [Hk [Ek [Hsq Hpred]]]].
  pose proof rise1_pos as Hr1.
  assert (Ha : 0 <= Qabs area) by apply Qabs_nonneg.
  destruct (Qltb (G + eps) (Qabs (area / sp_rise1))) eqn:B; intro H;
    apply pair_equal_spec in H; destruct H as [H Hf]; apply pair_equal_spec in H; destruct H as [H Hfl];
    apply pair_equal_spec in H; destruct H as [Hamp Hr]; subst amp r fl f.
  - (* plateau branch *)
    apply Qltb_lt in B. rewrite (Qabs_div_pos _ _ Hr1) in B.
    pose proof eps_nonneg as He.
    assert (B1 : G * sp_rise1 < Qabs area).
    { apply (Qlt_div_iff (Qabs area) sp_rise1 G Hr1). lra. }
    set (e := ceil_raster (Qabs area / G) R).
    assert (He1 : Qabs area / G <= e) by (apply ceil_raster_ge; exact HR).
    assert (He2 : e < Qabs area / G + R) by (apply ceil_raster_lt; exact HR).
    assert (Hr1e : sp_rise1 < e).
    { eapply Qlt_le_trans; [|exact He1]. apply Qlt_div_iff; [exact HG|]. lra. }
    assert (Hepos : 0 < e) by lra.
    assert (HaGe : Qabs area <= G * e).
    { apply (Qdiv_le_iff (Qabs area) G e HG) in He1. lra. }
    set (ec := Qceiling (Qabs area / G / R)).
    assert (Eec : e == inject_Z ec * R) by reflexivity.
    assert (Hkec : (k < ec)%Z).
    { apply (inject_Z_mul_lt_cancel k ec R HR). rewrite <- Ek, <- Eec. exact Hr1e. }
    set (amp := area / e).
    assert (Eamp : Qabs amp == Qabs area / e) by (apply Qabs_div_pos; exact Hepos).
    assert (HampG : Qabs amp <= G).
    { rewrite Eamp. apply Qdiv_le_iff; [exact Hepos|]. lra. }
    set (t := Qabs amp / S).
    assert (Htr1 : t <= sp_rise1).
    { unfold t. apply Qdiv_le_iff; [exact HS|]. rewrite Eamp. apply Qdiv_le_iff; [exact Hepos|].
      apply (Qdiv_le_iff (Qabs area) S _ HS) in Hsq.
      apply Qle_trans with (sp_rise1 * sp_rise1 * S); [exact Hsq|].
      assert (sp_rise1 * sp_rise1 <= sp_rise1 * e).
      { rewrite (Qmult_comm sp_rise1 e). apply Qmult_le_compat_r; lra. }
      assert (X : sp_rise1 * S * e == sp_rise1 * e * S) by ring. rewrite X.
      apply Qmult_le_compat_r; lra. }
    assert (HtG : t <= G / S).
    { unfold t. apply Qdiv_le_iff; [exact HS|]. rewrite (Qdiv_mul G S); lra. }
    assert (Hc1 : ceil_raster t R <= sp_rise1).
    { rewrite Ek. apply ceil_raster_least; [exact HR|]. rewrite <- Ek. exact Htr1. }
    assert (Hc2 : ceil_raster t R < t + R) by (apply ceil_raster_lt; exact HR).
    destruct (Qmax_raster (Qceiling (t / R)) R HR) as [k2 [Hk2 [_ [E2 _]]]].
    fold (ceil_raster t R) in E2.
    set (r2 := Qmax (ceil_raster t R) R) in *.
    assert (HRr1 : R <= sp_rise1).
    { rewrite Ek. rewrite <- (Qmult_1_l R) at 1. apply Qmult_le_compat_r; [|lra].
      change 1 with (inject_Z 1). rewrite <- Zle_Qle. exact Hk. }
    assert (Hr2 : r2 <= sp_rise1).
    { unfold r2. destruct (Qmax_case (ceil_raster t R) R) as [X|X]; rewrite X; assumption. }
    assert (HG_S : 0 < G / S) by (apply Qlt_div_iff; [exact HS|lra]).
    assert (Hr2b : r2 <= G / S + R).
    { unfold r2. destruct (Qmax_case (ceil_raster t R) R) as [X|X]; rewrite X; lra. }
    assert (Hk2k : (k2 <= k)%Z).
    { apply (inject_Z_mul_le_cancel k2 k R HR). rewrite <- E2, <- Ek. exact Hr2. }
    split; [reflexivity|]. split; [exists k2; split; assumption|]. split.
    { exists (ec - k2)%Z. split; [lia|]. unfold Z.sub. rewrite inject_Z_plus, inject_Z_opp.
      rewrite E2, Eec. ring. }
    split.
    { unfold amp. field. lra. }
    intros h T Hh0 HhG HT Earea.
    (* e + r2 < |area|/G + G/S + 2R <= T + h/S + 2R *)
    assert (Hgoal : Qabs area / G + G / S <= T + h / S).
    { (* area*S > G^2, hence T*S > G *)
      assert (HTS : G < T * S).
      { apply (Qdiv_le_iff (Qabs area) S _ HS) in Hsq.
        (* |area| > G*rise1, |area| <= rise1^2*S  =>  G < rise1*S ... and |area| = h*T <= G*T *)
        assert (H1 : G < sp_rise1 * S).
        { apply (mul_pos_lt_cancel_l sp_rise1); [exact Hr1|].
          assert (X : sp_rise1 * (sp_rise1 * S) == sp_rise1 * sp_rise1 * S) by ring. rewrite X.
          rewrite (Qmult_comm sp_rise1 G). lra. }
        (* G*rise1 < h*T <= G*T => rise1 < T *)
        assert (H2 : sp_rise1 < T).
        { apply (mul_pos_lt_cancel_l G); [exact HG|].
          apply Qlt_le_trans with (Qabs area); [exact B1|]. rewrite Earea.
          apply Qmult_le_compat_r; lra. }
        apply Qlt_trans with (sp_rise1 * S); [exact H1|]. apply Qmult_lt_r; assumption. }
      (* (G-h)*(T*S - G) >= 0 *)
      assert (P : 0 <= (G - h) * (T * S - G)) by (apply Qmult_le_0_compat; lra).
      assert (E1 : Qabs area / G + G / S == (h * T * S + G * G) / (G * S)).
      { rewrite Earea. field. split; lra. }
      assert (E2' : T + h / S == (T * S * G + h * G) / (G * S)) by (field; split; lra).
      rewrite E1, E2'.
      assert (HGS : 0 < G * S) by (apply Qmult_lt_0_compat; assumption).
      apply Qdiv_le_iff; [exact HGS|]. rewrite Qdiv_mul; [|lra].
      assert (X : (G - h) * (T * S - G) == T * S * G + h * G - (h * T * S + G * G)) by ring.
      rewrite X in P. lra. }
    fold e r2. lra.
  - (* triangle branch *)
    split; [reflexivity|]. split; [exists k; split; assumption|]. split.
    { exists 0%Z. split; [lia|]. change (inject_Z 0) with 0. ring. }
    split.
    { field. lra. }
    intros h T Hh0 HhG HT Earea.
    assert (Hy : 0 <= h / S) by (apply Qdiv_pos_nonneg; assumption).
    destruct (Z.eq_dec k 1) as [K1|K1].
    + subst k. change (inject_Z 1) with 1 in Ek. rewrite Ek. lra.
    + assert (K2 : (2 <= k)%Z) by lia. specialize (Hpred K2).
      set (u := inject_Z (k - 1) * R) in *.
      assert (Hu : 0 <= u).
      { unfold u. apply Qmult_le_0_compat; [|lra]. change 0 with (inject_Z 0). rewrite <- Zle_Qle. lia. }
      assert (Eu : sp_rise1 == u + R).
      { rewrite Ek. unfold u, Z.sub. rewrite inject_Z_plus, inject_Z_opp. change (inject_Z 1) with 1. ring. }
      (* u^2 < |area|/S = T*(h/S);  AM-GM: (T + y)^2 >= 4*T*y *)
      set (y := h / S) in *.
      assert (Ey : Qabs area / S == T * y).
      { rewrite Earea. unfold y. field. lra. }
      rewrite Ey in Hpred.
      assert (AM : 4 * (T * y) <= (T + y) * (T + y)).
      { assert (Q0 : 0 <= (T - y) * (T - y)).
        { destruct (Qlt_le_dec (T - y) 0) as [N|N].
          - assert (X : (T - y) * (T - y) == (y - T) * (y - T)) by ring. rewrite X.
            apply Qmult_le_0_compat; lra.
          - apply Qmult_le_0_compat; lra. }
        assert (X : (T - y) * (T - y) == (T + y) * (T + y) - 4 * (T * y)) by ring.
        rewrite X in Q0. lra. }
      assert (L : 2 * u < T + y).
      { apply sq_lt_cancel; [lra|].
        assert (X : 2 * u * (2 * u) == 4 * (u * u)) by ring. rewrite X. lra. }
      rewrite Eu. lra.
Qed.

End Shortest.

(* ---------------------------------------------------------------------------------------------- *)
(* the `x or y` defaults of the ramps *)
Definition rise0_of (a : targs) : option Q := por (a_rise a) (a_fall a).
Definition fall0_of (a : targs) : option Q := por (a_fall a) (rise0_of a).

Lemma por_None x y : por x y = None <-> (x = None \/ exists v, x = Some v /\ v == 0) /\ y = None.
Proof.
  unfold por. destruct x as [v|].
  - destruct (Qeq_bool v 0) eqn:E.
    + apply Qeq_bool_eq in E. split.
      * intro H. split; [right; exists v; split; [reflexivity|exact E]|exact H].
      * intros [_ H]. exact H.
    + split; [discriminate|]. intros [[H|[w [H Hw]]] _]; [discriminate|].
      injection H as <-. apply Qeq_eq_bool in Hw. congruence.
  - split; [intro H; split; [left; reflexivity|exact H]|intros [_ H]; exact H].
Qed.

Lemma por_Some_nz x y v : x = Some v -> ~ v == 0 -> por x y = Some v.
Proof.
  intros -> H. unfold por. destruct (Qeq_bool v 0) eqn:E; [|reflexivity].
  apply Qeq_bool_eq in E. contradiction.
Qed.

Lemma rise0_None_fall0 a : rise0_of a = None -> fall0_of a = None.
Proof.
  intro H. unfold fall0_of. rewrite H. unfold rise0_of in H. apply por_None in H.
  destruct H as [_ Hf]. rewrite Hf. reflexivity.
Qed.

Lemma rise0_Some_fall0 a r : rise0_of a = Some r -> exists f, fall0_of a = Some f.
Proof.
  intro H. unfold fall0_of. rewrite H. unfold por. destruct (a_fall a) as [f|].
  - destruct (Qeq_bool f 0); eexists; reflexivity.
  - eexists; reflexivity.
Qed.

(* ---------------------------------------------------------------------------------------------- *)
(* inversion of the three calculation paths *)
Lemma OK_inj4 {A B C D : Type} (a a' : A) (b b' : B) (c c' : C) (d d' : D) :
  @OK (A * B * C * D) (a, b, c, d) = OK (a', b', c', d') -> a = a' /\ b = b' /\ c = c' /\ d = d'.
Proof. intro H. inversion H. repeat split; reflexivity. Qed.

Lemma area_path_inv A dur ft r0 f0 G S R amp ro fl fo :
  area_path A dur ft r0 f0 G S R = OK (amp, ro, fl, fo) ->
  (exists d a' r fls f, dur = Some d /\ ft = None /\ r0 = None /\
      shortest_params A S G R = (a', r, fls, f) /\ r + fls + f <= d /\ fl = d - r - f /\
      ~ r / 2 + f / 2 + fl == 0 /\ amp = A / (r / 2 + f / 2 + fl) /\ ro = Some r /\ fo = Some f) \/
  (exists d r f, dur = Some d /\ ft = None /\ r0 = Some r /\
      f = match f0 with None => r | Some f => f end /\ r + eps < d /\ r + f <= d /\ fl = d - r - f /\
      ~ r / 2 + f / 2 + fl == 0 /\ amp = A / (r / 2 + f / 2 + fl) /\ ro = Some r /\ fo = Some f) \/
  (exists t r f, ft = Some t /\ r0 = Some r /\ f0 = Some f /\ fl = t /\
      ~ r / 2 + f / 2 + t == 0 /\ amp = A / (r / 2 + f / 2 + t) /\ ro = Some r /\ fo = Some f) \/
  (exists r f, dur = None /\ ft = None /\ shortest_params A S G R = (amp, r, fl, f) /\
      ro = Some r /\ fo = Some f).
Proof.
  unfold area_path. cbv zeta. destruct dur as [d|], ft as [t|].
  - (* flat_time given (duration ignored) *)
    destruct r0 as [r|]; [|discriminate]. destruct f0 as [f|]; [|discriminate].
    destruct (isz _) eqn:Z; [discriminate|]. apply isz_false in Z.
    intro H. apply OK_inj4 in H. destruct H as (<- & <- & <- & <-). right. right. left. exists t, r, f. repeat split; auto.
  - destruct r0 as [r|].
    + destruct (Qle_bool d (r + eps)) eqn:L; [discriminate|]. apply Qle_bool_false in L.
      set (f := match f0 with None => r | Some f => f end).
      destruct (isz (d - (1 # 2) * r - (1 # 2) * f)) eqn:Z1; [discriminate|].
      destruct (Qle_bool (r + f) d && _) eqn:P; [|discriminate]. cbn [negb].
      apply andb_true_iff in P. destruct P as [P1 _]. apply Qle_bool_iff in P1.
      destruct (isz (r / 2 + f / 2 + (d - r - f))) eqn:Z; [discriminate|]. apply isz_false in Z.
      intro H. apply OK_inj4 in H. destruct H as (<- & <- & <- & <-). right. left. exists d, r, f. repeat split; auto.
    + destruct (shortest_params A S G R) as [[[a' r] fls] f] eqn:SP.
      destruct (Qltb d (r + fls + f)) eqn:L; [discriminate|]. apply Qltb_false in L.
      destruct (isz _) eqn:Z; [discriminate|]. apply isz_false in Z.
      intro H. apply OK_inj4 in H. destruct H as (<- & <- & <- & <-). left. exists d, a', r, fls, f. repeat split; auto.
  - destruct r0 as [r|]; [|discriminate]. destruct f0 as [f|]; [|discriminate].
    destruct (isz _) eqn:Z; [discriminate|]. apply isz_false in Z.
    intro H. apply OK_inj4 in H. destruct H as (<- & <- & <- & <-). right. right. left. exists t, r, f. repeat split; auto.
  - destruct (shortest_params A S G R) as [[[a' r] fls] f] eqn:SP.
    intro H. apply OK_inj4 in H. destruct H as (<- & <- & <- & <-). right. right. right. exists r, f. repeat split; auto.
Qed.

Lemma flat_area_path_inv fa dur ft r0 f0 amp ro fl fo :
  flat_area_path fa dur ft r0 f0 = OK (amp, ro, fl, fo) ->
  dur = None /\ ft = Some fl /\ ~ fl == 0 /\ amp = fa / fl /\ ro = r0 /\ fo = f0.
Proof.
  unfold flat_area_path. destruct dur; [discriminate|]. destruct ft as [t|]; [|discriminate].
  destruct (isz t) eqn:Z; [discriminate|]. apply isz_false in Z.
  intro H. apply OK_inj4 in H. destruct H as (<- & <- & <- & <-). repeat split; auto.
Qed.

Definition amp_chosen_rise (amp S R : Q) : Q :=
  let r0 := ceil_raster (Qabs amp / S) R in if isz r0 then R else r0.

Lemma amplitude_path_inv h dur ft r0 f0 S R amp ro fl fo :
  amplitude_path h dur ft r0 f0 S R = OK (amp, ro, fl, fo) ->
  amp = h /\
  ((r0 = None /\ ro = Some (amp_chosen_rise h S R) /\ fo = Some (amp_chosen_rise h S R)) \/
   (r0 <> None /\ ro = r0 /\ fo = f0)) /\
  ((exists d r f, dur = Some d /\ ft = None /\ ro = Some r /\ fo = Some f /\ r + f - eps <= d /\
                  fl = Qmax (d - r - f) 0) \/
   (dur = None /\ ft = Some fl)).
Proof.
  unfold amplitude_path. fold (amp_chosen_rise h S R).
  destruct r0 as [r0v|]; cbn beta iota zeta; destruct dur as [d|], ft as [t|]; try discriminate.
  - destruct f0 as [f|]; [|discriminate].
    destruct (Qltb d (r0v + f - eps)) eqn:L; [discriminate|]. apply Qltb_false in L.
    intro H. apply OK_inj4 in H. destruct H as (<- & <- & <- & <-).
    split; [reflexivity|]. split; [right; split; [discriminate|split; reflexivity]|].
    left. exists d, r0v, f. repeat split; auto.
  - intro H. apply OK_inj4 in H. destruct H as (<- & <- & <- & <-).
    split; [reflexivity|]. split; [right; split; [discriminate|split; reflexivity]|].
    right. split; reflexivity.
  - destruct (Qltb d _) eqn:L; [discriminate|]. apply Qltb_false in L.
    intro H. apply OK_inj4 in H. destruct H as (<- & <- & <- & <-).
    split; [reflexivity|]. split; [left; repeat split; reflexivity|].
    left. exists d, (amp_chosen_rise h S R), (amp_chosen_rise h S R). repeat split; auto.
  - intro H. apply OK_inj4 in H. destruct H as (<- & <- & <- & <-).
    split; [reflexivity|]. split; [left; repeat split; reflexivity|].
    right. split; reflexivity.
Qed.

(* ---------------------------------------------------------------------------------------------- *)
(* inversion of the tail and of make_trap *)
Lemma finish_inv amp r0 fl f0 G S R d g : finish (amp, r0, fl, f0) G S R d = OK g ->
  t_amplitude g = amp /\ t_flat g = fl /\ t_delay g = d /\
  t_area g = amp * (fl + t_rise g / 2 + t_fall g / 2) /\ t_flat_area g = amp * fl /\
  match r0, f0 with
  | None, None => t_rise g = shortest_rise_time amp S R /\ t_fall g = shortest_rise_time amp S R
  | _, _ => r0 = Some (t_rise g) /\ f0 = Some (t_fall g)
  end /\
  ~ t_rise g == 0 /\ ~ t_fall g == 0 /\
  Qabs amp <= G + eps /\ Qabs amp / t_rise g <= S * (1 + eps) /\ Qabs amp / t_fall g <= S * (1 + eps).
Proof.
  unfold finish.
  set (rf := match r0, f0 with
             | None, None => let r := shortest_rise_time amp S R in (Some r, Some r)
             | _, _ => (r0, f0) end).
  assert (RF : forall r f, rf = (Some r, Some f) ->
     match r0, f0 with
     | None, None => r = shortest_rise_time amp S R /\ f = shortest_rise_time amp S R
     | _, _ => r0 = Some r /\ f0 = Some f end).
  { unfold rf. intros r f. destruct r0, f0; intro H; apply pair_equal_spec in H; destruct H as [H1 H2];
      try (split; [exact H1|exact H2]); try discriminate.
    injection H1 as <-. injection H2 as <-. split; reflexivity. }
  destruct rf as [ro fo].
  destruct (Qltb (G + eps) (Qabs amp)) eqn:C1; [discriminate|]. apply Qltb_false in C1.
  destruct ro as [r|]; [|discriminate].
  destruct (isz r) eqn:Z1; [discriminate|]. apply isz_false in Z1.
  destruct (Qltb _ (Qabs amp / r)) eqn:C2; [discriminate|]. apply Qltb_false in C2.
  destruct fo as [f|]; [|discriminate].
  destruct (isz f) eqn:Z2; [discriminate|]. apply isz_false in Z2.
  destruct (Qltb _ (Qabs amp / f)) eqn:C3; [discriminate|]. apply Qltb_false in C3.
  intro H. injection H as <-. cbn [t_amplitude t_rise t_flat t_fall t_area t_flat_area t_delay].
  specialize (RF r f eq_refl). repeat split; auto.
Qed.

Definition delay_of (a : targs) : Q := opt_default (a_delay a) trap_default_delay.

Definition path_of (a : targs) : tresult path_out :=
  match a_area a, a_flat_area a, a_amplitude a with
  | Some area, None, None =>
    area_path area (a_duration a) (a_flat_time a) (rise0_of a) (fall0_of a)
              (eff_max_grad a) (eff_max_slew a) (raster_of a)
  | None, Some fa, None => flat_area_path fa (a_duration a) (a_flat_time a) (rise0_of a) (fall0_of a)
  | None, None, Some amp =>
    amplitude_path amp (a_duration a) (a_flat_time a) (rise0_of a) (fall0_of a) (eff_max_slew a) (raster_of a)
  | _, _, _ => Err E_must_supply
  end.

Lemma make_trap_inv a g : make_trap a = OK g ->
  0 < eff_max_grad a /\ 0 < eff_max_slew a /\ 0 < raster_of a /\
  exists p, path_of a = OK p /\
            finish p (eff_max_grad a) (eff_max_slew a) (raster_of a) (delay_of a) = OK g.
Proof.
  unfold make_trap, path_of. fold (rise0_of a). fold (fall0_of a). fold (delay_of a).
  destruct (a_channel_ok a); [|discriminate]. cbn [negb].
  destruct (Qltb 0 (eff_max_grad a)) eqn:HG; [|discriminate].
  destruct (Qltb 0 (eff_max_slew a)) eqn:HS; [|discriminate].
  destruct (Qltb 0 (raster_of a)) eqn:HR; [|discriminate]. cbn [andb negb].
  apply Qltb_lt in HG, HS, HR.
  intro H. split; [exact HG|]. split; [exact HS|]. split; [exact HR|].
  destruct (a_area a), (a_flat_area a), (a_amplitude a); try discriminate.
  all: match type of H with (if ?c then _ else _) = _ => destruct c; [discriminate|] end.
  all: match type of H with match ?p with OK _ => _ | Err _ => _ end = _ =>
         destruct p as [p'|] eqn:P; [|discriminate] end.
  all: exists p'; split; [reflexivity|exact H].
Qed.
