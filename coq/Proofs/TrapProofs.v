(* Proofs/TrapProofs.v — lemmas about Model/Trap.v (make_trapezoid). *)
From Coq Require Import ZArith QArith Qround Qabs Bool Lia Lqa.
From PV Require Import Base.QUtil Gen.GenTrap Model.Trap.
Open Scope Q_scope.

Lemma finish_fields p G S R d g : finish p G S R d = OK g ->
  t_area g = t_amplitude g * (t_flat g + t_rise g / 2 + t_fall g / 2) /\
  t_flat_area g = t_amplitude g * t_flat g.
Proof.
  destruct p as [[[amp r0] fl] f0]. unfold finish.
  destruct (match r0, f0 with None, None => _ | _, _ => _ end) as [r f].
  destruct (Qltb _ _); [discriminate|].
  destruct r as [r|]; [|discriminate].
  destruct (isz r); [discriminate|]. destruct (Qltb _ _); [discriminate|].
  destruct f as [f|]; [|discriminate].
  destruct (isz f); [discriminate|]. destruct (Qltb _ _); [discriminate|].
  intro H; inversion H; subst; cbn. split; reflexivity.
Qed.
