(* Proofs/DefsProofs.v — which [DEFINITIONS] values are fixed points of print . parse . print, and which are not. *)
From Coq Require Import List Bool ZArith QArith Lia.
From PV Require Import Base.QUtil Gen.GenFile Model.File Model.Defs Proofs.FileProofs.
Import ListNotations.

Section DefsProofs.
Variable is_ws : Z -> bool.
Variable render : Q -> list Z.
Variable numeric_tok : list Z -> option Q.
Hypothesis blank_ws : is_ws blank = true.

Notation lstrip := (Defs.lstrip is_ws).
Notation rstrip := (Defs.rstrip is_ws).
Notation strip := (Defs.strip is_ws).
Notation print_val := (Defs.print_val render).
Notation parse_val := (Defs.parse_val is_ws numeric_tok).
Notation all_numeric := (Defs.all_numeric numeric_tok).

Definition no_blank (t : list Z) : Prop := Forall (fun c => c <> blank) t.
(* a text that ends in a character strip() keeps *)
Definition ends_solid (t : list Z) : Prop := exists t' c, t = t' ++ [c] /\ is_ws c = false.
Definition starts_solid (t : list Z) : Prop := exists c t', t = c :: t' /\ is_ws c = false.

Lemma rstrip_app_ws l c : is_ws c = true -> rstrip (l ++ [c]) = rstrip l.
Proof. intro H. unfold Defs.rstrip. rewrite rev_app_distr. cbn [rev app Defs.lstrip]. rewrite H. reflexivity. Qed.

Lemma rstrip_solid t : ends_solid t -> rstrip t = t.
Proof.
  intros [t' [c [E H]]]. subst t. unfold Defs.rstrip. rewrite rev_app_distr. cbn [rev app Defs.lstrip]. rewrite H.
  cbn [rev]. rewrite rev_involutive. reflexivity.
Qed.

Lemma lstrip_solid t : starts_solid t -> lstrip t = t.
Proof. intros [c [t' [E H]]]. subst t. cbn [Defs.lstrip]. rewrite H. reflexivity. Qed.

Lemma split_no_blank t : no_blank t -> split_blank t = [t].
Proof.
  induction 1 as [|c t Hc _ IH]; [reflexivity|]. cbn [split_blank].
  assert (E : (c =? blank)%Z = false) by (apply Z.eqb_neq; exact Hc). rewrite E, IH. reflexivity.
Qed.

Lemma split_app_blank t r : no_blank t -> split_blank (t ++ blank :: r) = t :: split_blank r.
Proof.
  induction 1 as [|c t Hc _ IH]; cbn [app split_blank].
  - rewrite Z.eqb_refl. reflexivity.
  - assert (E : (c =? blank)%Z = false) by (apply Z.eqb_neq; exact Hc). rewrite E, IH. reflexivity.
Qed.

(* texts joined by single blanks *)
Fixpoint join (ts : list (list Z)) : list Z :=
  match ts with
  | [] => []
  | [t] => t
  | t :: r => t ++ blank :: join r
  end.

Lemma flat_map_join ts : ts <> [] -> flat_map (fun t => t ++ [blank]) ts = join ts ++ [blank].
Proof.
  induction ts as [|t r IH]; intro N; [contradiction|]. destruct r as [|t2 r].
  - cbn. rewrite app_nil_r. reflexivity.
  - change (flat_map (fun t : list Z => t ++ [blank]) (t :: t2 :: r))
      with ((t ++ [blank]) ++ flat_map (fun t : list Z => t ++ [blank]) (t2 :: r)).
    rewrite IH by discriminate. change (join (t :: t2 :: r)) with (t ++ blank :: join (t2 :: r)).
    rewrite <- !app_assoc. reflexivity.
Qed.

Lemma split_join ts : ts <> [] -> Forall no_blank ts -> split_blank (join ts) = ts.
Proof.
  induction ts as [|t r IH]; intros N F; [contradiction|]. inversion F as [|? ? Ht Fr]; subst. destruct r as [|t2 r].
  - cbn [join]. apply split_no_blank. exact Ht.
  - change (join (t :: t2 :: r)) with (t ++ blank :: join (t2 :: r)).
    rewrite split_app_blank by exact Ht. rewrite IH by (try discriminate; exact Fr). reflexivity.
Qed.

Lemma join_ends_solid ts : ts <> [] -> Forall ends_solid ts -> ends_solid (join ts).
Proof.
  induction ts as [|t r IH]; intros N F; [contradiction|]. inversion F as [|? ? Ht Fr]; subst. destruct r as [|t2 r].
  - exact Ht.
  - change (join (t :: t2 :: r)) with (t ++ blank :: join (t2 :: r)). destruct (IH ltac:(discriminate) Fr) as [t' [c [E H]]].
    exists (t ++ blank :: t'), c. split; [|exact H]. rewrite E. rewrite <- app_assoc. reflexivity.
Qed.

Lemma ends_solid_nonempty t : ends_solid t -> t <> [].
Proof. intros [t' [c [E _]]] H. subst t. destruct t'; discriminate H. Qed.

(* ---- numbers ---------------------------------------------------------------------------------------------------- *)
(* what is needed of the number printer and of float(): printed numbers contain no blank, end in a character that is
   not white space, and float() of a printed 9-digit decimal is that decimal *)
Hypothesis render_no_blank : forall q, no_blank (render q).
Hypothesis render_solid : forall q, ends_solid (render q).
Hypothesis float_of_printed : forall q, numeric_tok (render (fmt_sig def_fmt q)) = Some (fmt_sig def_fmt q).

Let R (q : Q) : list Z := render (fmt_sig def_fmt q).

Lemma all_numeric_printed l : all_numeric (map R l) = Some (map (fmt_sig def_fmt) l).
Proof.
  induction l as [|q l IH]; [reflexivity|]. cbn [map Defs.all_numeric]. unfold R at 1.
  rewrite float_of_printed, IH. reflexivity.
Qed.

Lemma print_num l : print_val (DNum l) = flat_map (fun t => t ++ [blank]) (map R l).
Proof. cbn [Defs.print_val]. induction l as [|q l IH]; [reflexivity|]. cbn [flat_map map]. rewrite IH. reflexivity. Qed.

Theorem parse_print_num l : parse_val (print_val (DNum l)) = DNum (map (fmt_sig def_fmt) l).
Proof.
  destruct l as [|q l]; [reflexivity|].
  rewrite print_num. set (ts := map R (q :: l)).
  assert (N : ts <> []) by (unfold ts; cbn; discriminate).
  assert (FB : Forall no_blank ts) by (unfold ts; apply Forall_forall; intros t H; apply in_map_iff in H; destruct H as [x [E _]]; subst t; apply render_no_blank).
  assert (FS : Forall ends_solid ts) by (unfold ts; apply Forall_forall; intros t H; apply in_map_iff in H; destruct H as [x [E _]]; subst t; apply render_solid).
  rewrite flat_map_join by exact N. unfold Defs.parse_val.
  rewrite rstrip_app_ws by exact blank_ws. rewrite rstrip_solid by (apply join_ends_solid; assumption).
  pose proof (ends_solid_nonempty _ (join_ends_solid ts N FS)) as NE.
  destruct (join ts) as [|c body] eqn:J; [contradiction|]. rewrite <- J.
  rewrite split_join by assumption. unfold ts. rewrite all_numeric_printed. reflexivity.
Qed.

(* every list of numbers (Python ints and floats of any magnitude alike) is written back byte-identically *)
Theorem defs_fixed_point_num l : print_val (parse_val (print_val (DNum l))) = print_val (DNum l).
Proof.
  rewrite parse_print_num. cbn [Defs.print_val]. induction l as [|q l IH]; [reflexivity|].
  cbn [map flat_map]. rewrite IH. rewrite fmt_sig_idem by (vm_compute; discriminate). reflexivity.
Qed.

(* ---- texts ------------------------------------------------------------------------------------------------------ *)
(* a text survives iff it is non-empty, has no white space at either end and is not taken for numbers *)
Theorem parse_print_str s : starts_solid s -> ends_solid s -> all_numeric (split_blank s) = None ->
  parse_val (print_val (DStr s)) = DStr s.
Proof.
  intros SS ES NN. cbn [Defs.print_val]. unfold Defs.parse_val.
  rewrite rstrip_app_ws by exact blank_ws. rewrite (rstrip_solid s ES).
  pose proof (ends_solid_nonempty s ES) as NE. destruct s as [|c r] eqn:E; [contradiction|]. rewrite <- E in *.
  rewrite NN. unfold Defs.strip. rewrite (rstrip_solid s ES), (lstrip_solid s SS). reflexivity.
Qed.

Theorem defs_fixed_point_str s : starts_solid s -> ends_solid s -> all_numeric (split_blank s) = None ->
  print_val (parse_val (print_val (DStr s))) = print_val (DStr s).
Proof. intros SS ES NN. rewrite parse_print_str by assumption. reflexivity. Qed.

(* ---- the classes that do not survive ------------------------------------------------------------------------------ *)
(* the empty text comes back as an empty array: one blank less *)
Theorem empty_string_not_fixed : print_val (parse_val (print_val (DStr []))) <> print_val (DStr []).
Proof.
  cbn [Defs.print_val app]. unfold Defs.parse_val, Defs.rstrip. cbn [rev app Defs.lstrip]. rewrite blank_ws. cbn. discriminate.
Qed.

(* white space at the front is lost *)
Theorem leading_blank_not_fixed s : starts_solid s -> ends_solid s -> all_numeric (split_blank (blank :: s)) = None ->
  print_val (parse_val (print_val (DStr (blank :: s)))) <> print_val (DStr (blank :: s)).
Proof.
  intros SS ES NN. cbn [Defs.print_val]. unfold Defs.parse_val.
  assert (ES' : ends_solid (blank :: s)).
  { destruct ES as [t' [c [E H]]]. exists (blank :: t'), c. split; [rewrite E; reflexivity|exact H]. }
  change ((blank :: s) ++ [blank]) with ((blank :: s) ++ [blank]).
  rewrite rstrip_app_ws by exact blank_ws. rewrite (rstrip_solid _ ES'). rewrite NN.
  unfold Defs.strip. rewrite (rstrip_solid _ ES'). cbn [Defs.lstrip]. rewrite blank_ws, (lstrip_solid s SS).
  cbn [Defs.print_val]. intro H. apply (f_equal (@length Z)) in H. rewrite !app_length in H. cbn in H. lia.
Qed.

(* a single-token text that float() accepts comes back as that number; unless it already is the 9-digit text of its
   value, another text is written *)
Theorem numeric_looking_not_fixed s q : no_blank s -> ends_solid s -> numeric_tok s = Some q ->
  render (fmt_sig def_fmt q) <> s ->
  print_val (parse_val (print_val (DStr s))) <> print_val (DStr s).
Proof.
  intros NB ES NT NE. cbn [Defs.print_val]. unfold Defs.parse_val.
  rewrite rstrip_app_ws by exact blank_ws. rewrite (rstrip_solid s ES).
  pose proof (ends_solid_nonempty s ES) as N0. destruct s as [|c r] eqn:E; [contradiction|]. rewrite <- E in *.
  rewrite (split_no_blank s NB). cbn [Defs.all_numeric]. rewrite NT. cbn [Defs.print_val flat_map]. rewrite app_nil_r.
  intro H. apply app_inv_tail in H. contradiction.
Qed.
End DefsProofs.
