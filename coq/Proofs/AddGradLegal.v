(* Proofs/AddGradLegal.v — the hypotheses of the extended-trapezoid theorem (ExtInputsOk: StartsOk,
   EndsOk, spacing, start on the raster) follow from the rules under which gradients can be stored
   in one block (C05): timings on the gradient raster, a gradient that starts away from zero has
   zero delay, a gradient that ends away from zero ends at the block end. *)
From Coq Require Import ZArith QArith Qabs List Bool Lia Lqa Setoid Morphisms Arith.
From PV Require Import Base.QUtil Base.PWL Gen.GenAddGrad Model.AddGrad Proofs.AddGradProofs
                       Proofs.AddGradRaster.
Import ListNotations.
Open Scope Q_scope.

(* what make_extended_trapezoid guarantees about the stored fields of an extended trapezoid *)
Definition FieldsOk (g : grad) : Prop :=
  match g with
  | GTrap _ => True
  | GExt e => eg_first e == hd 0 (eg_wf e) /\ eg_last e == last (eg_wf e) 0 /\
              eg_shape_dur e == last (eg_tt e) 0
  end.

(* inputs that one block of duration D can hold (C05 rules, exact version) *)
Record C05Legal (s : sys) (D : Q) (grads : list grad) : Prop := {
  cl_nonempty : grads <> [];
  cl_wf : forall g, In g grads -> WF g /\ FieldsOk g;
  cl_raster : eps <= s_raster s;
  (* all timings on the gradient raster *)
  cl_on_raster : forall g c, In g grads -> In c (grad_times g) -> OnRaster (s_raster s) c;
  cl_delay : forall g, In g grads -> 0 <= g_delay g;
  cl_dur : forall g, In g grads -> g_dur g <= D;
  (* a gradient that starts away from zero has zero delay *)
  cl_start : forall g, In g grads -> ~ g_first g == 0 -> g_delay g == 0;
  (* a gradient that ends away from zero ends at the block end *)
  cl_end : forall g, In g grads -> ~ g_last g == 0 -> g_dur g == D }.

Lemma all_consec_from_sorted (P : Q -> Prop) (R : Q -> Q -> Prop) l :
  sorted_strict l -> (forall x, In x l -> P x) ->
  (forall a b, P a -> P b -> a < b -> R a b) -> all_consec R l.
Proof.
  intros Hs HP HR. induction l as [|a l IH]; [exact I|].
  destruct l as [|b l]; [exact I|]. destruct Hs as [Hab Hs]. split.
  - apply HR; [apply HP; left; reflexivity|apply HP; right; left; reflexivity|exact Hab].
  - apply IH; [exact Hs|]. intros x Hx. apply HP. right. exact Hx.
Qed.

Lemma raster_gap r a b : 0 < r -> OnRaster r a -> OnRaster r b -> a < b -> r <= b - a.
Proof.
  intros Hr (ka & Ha) (kb & Hb) Hab.
  assert (Hk : (ka < kb)%Z).
  { destruct (Z_lt_le_dec ka kb) as [H|H]; [exact H|]. exfalso.
    assert (inject_Z kb <= inject_Z ka) by (rewrite <- Zle_Qle; exact H).
    assert (inject_Z kb * r <= inject_Z ka * r) by (apply Qmult_le_compat_r; lra). lra. }
  assert (H1 : inject_Z ka + 1 <= inject_Z kb).
  { change 1 with (inject_Z 1). rewrite <- inject_Z_plus, <- Zle_Qle. lia. }
  assert ((inject_Z ka + 1) * r <= inject_Z kb * r) by (apply Qmult_le_compat_r; lra). lra.
Qed.

Lemma last_combine (a : list Q) : forall b, length a = length b -> a <> [] ->
  last (combine a b) (0, 0) = (last a 0, last b 0).
Proof.
  induction a as [|x a IH]; intros [|y b] H Hne; try discriminate; [congruence|].
  destruct a as [|x' a]; destruct b as [|y' b]; try discriminate; [reflexivity|].
  change (combine (x :: x' :: a) (y :: y' :: b)) with ((x, y) :: combine (x' :: a) (y' :: b)).
  change (combine (x' :: a) (y' :: b)) with ((x', y') :: combine a b) at 1.
  rewrite !last_cons2. change ((x', y') :: combine a b) with (combine (x' :: a) (y' :: b)).
  apply IH; [cbn in *; lia|discriminate].
Qed.

Lemma last_shift d (p : pwl) : p <> [] ->
  last (shift d p) (0, 0) = (fst (last p (0, 0)) + d, snd (last p (0, 0))).
Proof.
  induction p as [|a p IH]; [congruence|]. intros _. destruct p as [|b p]; [reflexivity|].
  change (shift d (a :: b :: p)) with ((fst a + d, snd a) :: shift d (b :: p)).
  change (shift d (b :: p)) with ((fst b + d, snd b) :: shift d p) at 1.
  rewrite !last_cons2. change ((fst b + d, snd b) :: shift d p) with (shift d (b :: p)).
  apply IH. discriminate.
Qed.

(* rendering facts of a well-formed input *)
Lemma to_pwl_facts g : WF g -> FieldsOk g ->
  vfirst (to_pwl g) == g_first g /\ tfirst (to_pwl g) == g_delay g /\
  vlast (to_pwl g) == g_last g /\ tlast (to_pwl g) == g_dur g.
Proof.
  destruct g as [t|e]; intros Hwf Hf.
  - destruct Hwf as (H1 & H2 & H3). cbn [to_pwl g_first g_last g_delay g_dur].
    unfold trap_pwl, Qgtb. case_ltb 0 (tr_flat t) E; cbn; repeat split; try reflexivity; lra.
  - destruct Hwf as (H1 & H2 & H3 & H4). destruct Hf as (F1 & F2 & F3).
    cbn [to_pwl g_first g_last g_delay g_dur]. case_eqb (hd 0 (eg_tt e)) 0 E; [|contradiction].
    unfold ext_pwl.
    assert (Hne : combine (eg_tt e) (eg_wf e) <> []).
    { destruct (eg_tt e); [congruence|]. destruct (eg_wf e); discriminate. }
    unfold vlast, tlast. rewrite (last_shift _ _ Hne), (last_combine _ _ H4 H2). cbn [fst snd].
    destruct (eg_tt e) as [|a tt] eqn:Et; [congruence|]. destruct (eg_wf e) as [|w wf] eqn:Ew; [discriminate|].
    cbn [combine shift map vfirst tfirst fst snd hd] in *.
    repeat split; lra.
Qed.

Lemma grad_times_bounds g : WF g -> FieldsOk g ->
  grad_times g <> [] /\ forall c, In c (grad_times g) -> g_delay g <= c /\ c <= g_dur g.
Proof.
  destruct g as [t|e]; intros Hwf Hf.
  - destruct Hwf as (H1 & H2 & H3). split; [discriminate|].
    intros c Hc. cbn in Hc. cbn [g_delay g_dur]. destruct Hc as [<-|[<-|[<-|[<-|[]]]]]; lra.
  - destruct Hwf as (H1 & H2 & H3 & H4). destruct Hf as (_ & _ & F3).
    cbn [grad_times g_delay g_dur]. split; [destruct (eg_tt e); [congruence|discriminate]|].
    intros c Hc. apply in_map_iff in Hc. destruct Hc as (x & <- & Hx).
    pose proof (sorted_hd_le _ H1 x Hx). pose proof (sorted_le_last _ H1 x Hx). lra.
Qed.

Theorem c05_legal_inputs_ok s D grads : C05Legal s D grads -> ExtInputsOk s grads.
Proof.
  intro H. pose proof eps_pos as He. pose proof (cl_raster _ _ _ H) as Hr.
  assert (Hr0 : 0 < s_raster s) by lra.
  (* facts about the common grid *)
  assert (Hin : forall c, In c (T0 grads) -> exists g, In g grads /\ In c (grad_times g)).
  { intros c Hc. apply sort_uniq_in in Hc. apply in_flat_map in Hc. exact Hc. }
  assert (HTne : T0 grads <> []).
  { pose proof (cl_nonempty _ _ _ H) as Hn. destruct grads as [|g0 l]; [congruence|].
    destruct (cl_wf _ _ _ H g0 (or_introl eq_refl)) as [Hw Hf].
    destruct (grad_times_bounds g0 Hw Hf) as [Hgt _].
    destruct (grad_times g0) as [|c l'] eqn:Eg; [congruence|].
    assert (Hc : In c (flat_map grad_times (g0 :: l))) by (cbn [flat_map]; rewrite Eg; left; reflexivity).
    destruct (sort_uniq_InQ _ c Hc) as (b & Hb & _). intro E. unfold T0 in E. rewrite E in Hb. destruct Hb. }
  assert (Hhd : In (hd 0 (T0 grads)) (T0 grads)) by (destruct (T0 grads); [congruence|left; reflexivity]).
  assert (Hla : In (last (T0 grads) 0) (T0 grads)) by (apply last_in; exact HTne).
  constructor.
  - intros g Hg. apply (cl_wf _ _ _ H g Hg).
  - unfold Spaced. apply (all_consec_from_sorted (OnRaster (s_raster s))).
    + apply sort_uniq_sorted.
    + intros x Hx. destruct (Hin x Hx) as (g & Hg & Hc). apply (cl_on_raster _ _ _ H g x Hg Hc).
    + intros a b Ha Hb Hab. pose proof (raster_gap _ a b Hr0 Ha Hb Hab). lra.
  - intros g Hg. destruct (cl_wf _ _ _ H g Hg) as [Hw Hf].
    destruct (to_pwl_facts g Hw Hf) as (F1 & F2 & _ & _).
    destruct (Qeq_dec (g_first g) 0) as [E|E]; [left; lra|right].
    pose proof (cl_start _ _ _ H g Hg E) as Hd.
    destruct (Hin _ Hhd) as (g' & Hg' & Hc').
    destruct (cl_wf _ _ _ H g' Hg') as [Hw' Hf'].
    destruct (grad_times_bounds g' Hw' Hf') as [_ Hb]. destruct (Hb _ Hc') as [Hb1 _].
    pose proof (cl_delay _ _ _ H g' Hg'). split; lra.
  - intros g Hg. destruct (cl_wf _ _ _ H g Hg) as [Hw Hf].
    destruct (to_pwl_facts g Hw Hf) as (_ & _ & F3 & F4).
    destruct (Qeq_dec (g_last g) 0) as [E|E]; [left; lra|right].
    pose proof (cl_end _ _ _ H g Hg E) as Hd.
    destruct (Hin _ Hla) as (g' & Hg' & Hc').
    destruct (cl_wf _ _ _ H g' Hg') as [Hw' Hf'].
    destruct (grad_times_bounds g' Hw' Hf') as [_ Hb]. destruct (Hb _ Hc') as [_ Hb2].
    pose proof (cl_dur _ _ _ H g' Hg'). lra.
  - split; [exact Hr0|]. destruct (Hin _ Hhd) as (g & Hg & Hc).
    apply (cl_on_raster _ _ _ H g _ Hg Hc).
Qed.

(* the main theorem for every input list a block can hold *)
Corollary add_ext_path_sum_legal s D mg ms grads g :
  add_gradients s mg ms grads = OK (P_ext, g) -> C05Legal s D grads ->
  forall t, eval (to_pwl g) t == sum_eval (map to_pwl grads) t.
Proof. intros H Hl. apply (add_ext_path_sum s mg ms); [exact H|]. apply (c05_legal_inputs_ok s D). exact Hl. Qed.
