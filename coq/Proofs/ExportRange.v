(* Proofs/ExportRange.v — the time_range block selection of Sequence.waveforms (C08). *)
From Coq Require Import ZArith QArith Qabs Lia Lqa List Bool Arith Setoid Morphisms.
From PV Require Import Base.QUtil Base.PWL Gen.GenExport Model.Export.
Import ListNotations.
Open Scope Q_scope.

Definition durs_nonneg (bs : list block) : Prop := forall b, In b bs -> 0 <= b_dur b.

Lemma sum_durs_firstn_nonneg : forall bs i, durs_nonneg bs -> 0 <= sum_durs (firstn i bs).
Proof.
  induction bs as [|b r IH]; intros i H; [destruct i; cbn; lra|].
  destruct i as [|j]; [cbn; lra|]. cbn [firstn sum_durs].
  assert (0 <= b_dur b) by (apply H; left; reflexivity).
  assert (0 <= sum_durs (firstn j r)) by (apply IH; intros x Hx; apply H; right; exact Hx). lra.
Qed.

(* number of leading blocks whose END lies before a: block i is at or beyond it iff its end is >= a *)
Lemma count_ends_lt_spec a : forall bs s i, durs_nonneg bs -> (i < length bs)%nat ->
  ((count_ends_lt s a bs <= i)%nat <-> a <= s + sum_durs (firstn (S i) bs)).
Proof.
  induction bs as [|b r IH]; intros s i Hn Hi; [cbn in Hi; lia|].
  assert (Hr : durs_nonneg r) by (intros x Hx; apply Hn; right; exact Hx).
  cbn [count_ends_lt]. destruct (Qltb (s + b_dur b) a) eqn:E.
  - apply Qltb_lt in E. destruct i as [|j].
    + cbn [firstn sum_durs]. split; [lia|lra].
    + cbn [length] in Hi. rewrite <- Nat.succ_le_mono.
      rewrite (IH (s + b_dur b) j Hr) by lia.
      change (firstn (S (S j)) (b :: r)) with (b :: firstn (S j) r). cbn [sum_durs]. split; intro; lra.
  - apply Qltb_ge in E. split; [intros _|lia].
    change (firstn (S i) (b :: r)) with (b :: firstn i r). cbn [sum_durs].
    pose proof (sum_durs_firstn_nonneg r i Hr). lra.
Qed.

(* number of leading blocks whose START is <= c: block i is among them iff its start is <= c *)
Lemma count_starts_le_spec c : forall bs s i, durs_nonneg bs -> (i < length bs)%nat ->
  ((i < count_starts_le s c bs)%nat <-> s + sum_durs (firstn i bs) <= c).
Proof.
  induction bs as [|b r IH]; intros s i Hn Hi; [cbn in Hi; lia|].
  assert (Hr : durs_nonneg r) by (intros x Hx; apply Hn; right; exact Hx).
  cbn [count_starts_le]. destruct (Qle_bool s c) eqn:E.
  - apply Qle_bool_iff in E. destruct i as [|j].
    + cbn [firstn sum_durs]. split; [lra|lia].
    + cbn [length] in Hi. rewrite <- Nat.succ_lt_mono.
      rewrite (IH (s + b_dur b) j Hr) by lia. cbn [firstn sum_durs]. split; intro; lra.
  - apply Qleb_gt in E. split; [lia|]. intro H.
    pose proof (sum_durs_firstn_nonneg (b :: r) i Hn). lra.
Qed.

(* time_range = [a, c] selects exactly the blocks that overlap the closed range:
   end of block >= a  and  start of block <= c *)
Theorem range_selects_overlapping bs a c i : durs_nonneg bs -> (i < length bs)%nat ->
  ((fst (range_blocks bs a c) <= i < snd (range_blocks bs a c))%nat <->
   (a <= sum_durs (firstn (S i) bs) /\ sum_durs (firstn i bs) <= c)).
Proof.
  intros Hn Hi. unfold range_blocks. cbn [fst snd].
  rewrite (count_ends_lt_spec a bs 0 i Hn Hi), (count_starts_le_spec c bs 0 i Hn Hi).
  split; intros [H1 H2]; split; lra.
Qed.

(* and the restricted export is the export of exactly those blocks, started at the true start time of
   the first selected block (cumsum - duration) *)
Theorem waveform_range_is_export_of_selection raster bs a c ch :
  (fst (range_blocks bs a c) < length bs)%nat ->
  waveform_range raster bs a c ch =
  waveform_from raster
    (Qred (sum_durs (firstn (S (fst (range_blocks bs a c))) bs)
           - b_dur (nth (fst (range_blocks bs a c)) bs (mkBlock 0 []))))
    (firstn (snd (range_blocks bs a c) - fst (range_blocks bs a c)) (skipn (fst (range_blocks bs a c)) bs)) ch.
Proof.
  intro H. unfold waveform_range. destruct (range_blocks bs a c) as [bg en]. cbn [fst snd] in *.
  apply Nat.ltb_lt in H. rewrite H. reflexivity.
Qed.
